(* L0: an independent MQTT 3.1.1 packet parser, written from the OASIS specification
   (sections 2.2, 3.1-3.14), not from the client's code.  It is the oracle against
   which emitted packets are judged.  Definitions only. *)
From MQ Require Export Bytes.

Record will_spec := { ws_topic : list N; ws_msg : list N; ws_qos : N; ws_retain : bool }.

Inductive packet :=
| PConnect (clean : bool) (keepalive : N) (clientid : list N)
           (w : option will_spec) (user : option (list N)) (pass : option (list N))
| PConnack (session_present : bool) (code : N)
| PPublish (dup : bool) (qos : N) (retain : bool) (topic : list N) (pid : option N) (payload : list N)
| PPuback (id : N) | PPubrec (id : N) | PPubrel (id : N) | PPubcomp (id : N)
| PSubscribe (id : N) (filters : list (list N * N))
| PSuback (id : N) (codes : list N)
| PUnsubscribe (id : N) (filters : list (list N))
| PUnsuback (id : N)
| PPingreq | PPingresp | PDisconnect.

(* 2.2.3 Remaining Length: up to four bytes, 7 bits each, least significant first *)
Definition take_remlen (l : list N) : option (N * list N) :=
  match l with
  | a :: r =>
    if a <? 128 then Some (a, r) else
    match r with
    | b :: r =>
      if b <? 128 then Some (a - 128 + 128 * b, r) else
      match r with
      | c :: r =>
        if c <? 128 then Some (a - 128 + 128 * (b - 128) + 16384 * c, r) else
        match r with
        | d :: r =>
          if d <? 128 then Some (a - 128 + 128 * (b - 128) + 16384 * (c - 128) + 2097152 * d, r)
          else None
        | [] => None
        end
      | [] => None
      end
    | [] => None
    end
  | [] => None
  end.

Definition split_at (n : N) (l : list N) : option (list N * list N) :=
  let k := N.to_nat n in
  if Nat.leb k (length l) then Some (firstn k l, skipn k l) else None.

(* 1.5.3 length-prefixed field *)
Definition take_field (l : list N) : option (list N * list N) :=
  match l with
  | a :: b :: r => split_at (a * 256 + b) r
  | _ => None
  end.

Definition take_u16 (l : list N) : option (N * list N) :=
  match l with
  | a :: b :: r => Some (a * 256 + b, r)
  | _ => None
  end.

Fixpoint parse_sub_filters (fuel : nat) (l : list N) : option (list (list N * N)) :=
  match fuel with
  | O => None
  | S f =>
    match l with
    | [] => Some []
    | _ => match take_field l with
           | Some (s, q :: r) =>
             if q <? 3 then
               match parse_sub_filters f r with Some fs => Some ((s, q) :: fs) | None => None end
             else None
           | _ => None
           end
    end
  end.

Fixpoint parse_unsub_filters (fuel : nat) (l : list N) : option (list (list N)) :=
  match fuel with
  | O => None
  | S f =>
    match l with
    | [] => Some []
    | _ => match take_field l with
           | Some (s, r) =>
             match parse_unsub_filters f r with Some fs => Some (s :: fs) | None => None end
           | None => None
           end
    end
  end.

Definition bit (x : N) (i : N) : bool := N.testbit x i.

(* 3.1 CONNECT *)
Definition parse_connect (body : list N) : option packet :=
  match body with
  | 0 :: 4 :: 77 :: 81 :: 84 :: 84 :: 4 :: flags :: ka1 :: ka0 :: r =>
    if bit flags 0 then None else                       (* reserved bit *)
    let clean := bit flags 1 in
    let willf := bit flags 2 in
    let wqos := (flags / 8) mod 4 in
    let wret := bit flags 5 in
    let passf := bit flags 6 in
    let userf := bit flags 7 in
    if (negb willf && (negb (wqos =? 0) || wret)) || (wqos =? 3) || (passf && negb userf) then None else
    match take_field r with
    | Some (cid, r) =>
      let after_will :=
        if willf then
          match take_field r with
          | Some (wt, r) =>
            match take_field r with
            | Some (wm, r) => Some (Some {| ws_topic := wt; ws_msg := wm; ws_qos := wqos; ws_retain := wret |}, r)
            | None => None
            end
          | None => None
          end
        else Some (None, r) in
      match after_will with
      | Some (w, r) =>
        let after_user :=
          if userf then match take_field r with Some (u, r) => Some (Some u, r) | None => None end
          else Some (None, r) in
        match after_user with
        | Some (u, r) =>
          let after_pass :=
            if passf then match take_field r with Some (p, r) => Some (Some p, r) | None => None end
            else Some (None, r) in
          match after_pass with
          | Some (p, []) => Some (PConnect clean (ka1 * 256 + ka0) cid w u p)
          | _ => None
          end
        | None => None
        end
      | None => None
      end
    | None => None
    end
  | _ => None
  end.

Definition parse_body (ty flags : N) (body : list N) : option packet :=
  match ty with
  | 1 => if flags =? 0 then parse_connect body else None
  | 2 => if flags =? 0 then
           match body with
           | [f; code] => if f <? 2 then Some (PConnack (f =? 1) code) else None
           | _ => None
           end else None
  | 3 =>
    let dup := bit flags 3 in let qos := (flags / 2) mod 4 in let retain := bit flags 0 in
    if qos =? 3 then None else
    match take_field body with
    | Some (topic, r) =>
      if qos =? 0 then (if dup then None else Some (PPublish dup qos retain topic None r))
      else match take_u16 r with
           | Some (id, r) => if id =? 0 then None else Some (PPublish dup qos retain topic (Some id) r)
           | None => None
           end
    | None => None
    end
  | 4 => if flags =? 0 then match body with [a; b] => Some (PPuback (a * 256 + b)) | _ => None end else None
  | 5 => if flags =? 0 then match body with [a; b] => Some (PPubrec (a * 256 + b)) | _ => None end else None
  | 6 => if flags =? 2 then match body with [a; b] => Some (PPubrel (a * 256 + b)) | _ => None end else None
  | 7 => if flags =? 0 then match body with [a; b] => Some (PPubcomp (a * 256 + b)) | _ => None end else None
  | 8 => if flags =? 2 then
           match take_u16 body with
           | Some (id, r) =>
             match r with
             | [] => None                                   (* at least one filter *)
             | _ => match parse_sub_filters (S (length r)) r with
                    | Some fs => if id =? 0 then None else Some (PSubscribe id fs)
                    | None => None
                    end
             end
           | None => None
           end else None
  | 9 => if flags =? 0 then
           match take_u16 body with
           | Some (id, codes) => Some (PSuback id codes)
           | None => None
           end else None
  | 10 => if flags =? 2 then
           match take_u16 body with
           | Some (id, r) =>
             match r with
             | [] => None
             | _ => match parse_unsub_filters (S (length r)) r with
                    | Some fs => if id =? 0 then None else Some (PUnsubscribe id fs)
                    | None => None
                    end
             end
           | None => None
           end else None
  | 11 => if flags =? 0 then match body with [a; b] => Some (PUnsuback (a * 256 + b)) | _ => None end else None
  | 12 => if flags =? 0 then match body with [] => Some PPingreq | _ => None end else None
  | 13 => if flags =? 0 then match body with [] => Some PPingresp | _ => None end else None
  | 14 => if flags =? 0 then match body with [] => Some PDisconnect | _ => None end else None
  | _ => None
  end.

(* one packet from the front of a byte stream *)
Definition parse_packet (l : list N) : option (packet * list N) :=
  match l with
  | h :: r =>
    match take_remlen r with
    | Some (n, r) =>
      match split_at n r with
      | Some (body, rest) =>
        match parse_body (h / 16) (h mod 16) body with
        | Some p => Some (p, rest)
        | None => None
        end
      | None => None
      end
    | None => None
    end
  | [] => None
  end.

(* raw framing only: (first byte, body) and the rest; used to cut connection logs *)
Definition frame_packet (l : list N) : option (N * list N * list N) :=
  match l with
  | h :: r =>
    match take_remlen r with
    | Some (n, r) =>
      match split_at n r with
      | Some (body, rest) => Some (h, body, rest)
      | None => None
      end
    | None => None
    end
  | [] => None
  end.

(* a whole stream: complete packets and what is left (a proper prefix of a packet, or garbage) *)
Fixpoint parse_stream (fuel : nat) (l : list N) : list packet * list N :=
  match fuel with
  | O => ([], l)
  | S f =>
    match parse_packet l with
    | Some (p, rest) => let '(ps, tail) := parse_stream f rest in (p :: ps, tail)
    | None => ([], l)
    end
  end.
