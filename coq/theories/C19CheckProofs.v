(* C19: the case checker accepts every observation the model itself produces
   (fresh-process view after a stop of Save or Delete, at every stop point). *)
From MQ Require Import Bytes FS FSProofs C19Check.

(* observed directories holding only names the store creates *)
Definition store_odir (pre : odir) : Prop := forall e, In e pre -> store_name (fst e).

(* what a fresh process sees in directory d: Load(k), and Load of every listed key *)
Definition model_listed (d : dir) : list (N * oload) :=
  map (fun k' => (k', oload_of (load k' d))) (list_keys d).

Lemma lookup_dir_of : forall n pre,
  lookup n (dir_of pre) = match olookup n pre with Some v => Some (mkfile v true) | None => None end.
Proof.
  intros n. induction pre as [|[m v] r IH]; cbn [dir_of map lookup olookup fst snd]; [reflexivity|].
  destruct (name_eqb n m); [reflexivity | apply IH].
Qed.

Lemma load_dir_of : forall k pre, load k (dir_of pre) = olookup (key_name k) pre.
Proof. intros k pre. unfold load. rewrite lookup_dir_of. destruct (olookup _ pre); reflexivity. Qed.

Lemma store_dir_of : forall pre, store_odir pre -> store_dir (dir_of pre).
Proof.
  intros pre H n f I. unfold dir_of in I. apply in_map_iff in I. destruct I as [e [E I]].
  inversion E; subst. apply H, I.
Qed.

Lemma oload_eqb_refl : forall o, oload_eqb o o = true.
Proof.
  intros [|v|]; cbn [oload_eqb]; try reflexivity.
  unfold list_eqb. destruct (list_eq_dec N.eq_dec v v); congruence.
Qed.

Lemma mem_N_in : forall k l, mem_N k l = true <-> In k l.
Proof.
  intros k l. unfold mem_N. rewrite existsb_exists. split.
  - intros [x [I E]]. apply N.eqb_eq in E. subst. exact I.
  - intros I. exists k. split; [exact I | apply N.eqb_refl].
Qed.

Lemma map_fst_model_listed : forall d, map fst (model_listed d) = list_keys d.
Proof.
  intros d. unfold model_listed. rewrite map_map. cbn [fst]. apply map_id.
Qed.

Theorem view_ok_sound : forall o pre p,
  store_odir pre -> stop_prefix p (op_calls o) ->
  view_ok (op_key o) pre (op_new o)
          (oload_of (load (op_key o) (run (dir_of pre) p)))
          (model_listed (run (dir_of pre) p)) = true.
Proof.
  intros o pre p S H.
  set (k := op_key o). set (d' := run (dir_of pre) p).
  pose proof (store_dir_of _ S) as SD.
  pose proof (stop_prefix_calls_on _ _ _ H (op_calls_on o)) as C. fold k in C.
  assert (store_dir d') as SD'.
  { apply store_dir_run; [exact SD|]. eapply calls_on_weaken; [apply key_names_store | exact C]. }
  unfold view_ok. rewrite !Bool.andb_true_iff. repeat split.
  - (* old or new *)
    destruct (op_atomic o (dir_of pre) p H) as [A|A]; fold k d' in A; rewrite A.
    + rewrite load_dir_of, oload_eqb_refl. reflexivity.
    + apply Bool.orb_true_iff. right.
      destruct (op_new o); cbn [oload_of]; apply oload_eqb_refl.
  - (* every listed key loads *)
    apply forallb_forall. intros e I. unfold model_listed in I. apply in_map_iff in I.
    destruct I as [k' [<- I]]. cbn [snd].
    apply (listed_iff_loadable _ _ SD') in I. destruct I as [_ [v ->]]. reflexivity.
  - (* other keys load as before *)
    apply forallb_forall. intros e I. unfold model_listed in I. apply in_map_iff in I.
    destruct I as [k' [<- I]]. cbn [fst snd].
    destruct (N.eqb_spec k' k) as [E|E]; [reflexivity|]. cbn [orb].
    unfold d'. rewrite (frame_load k p C k' (dir_of pre) E), load_dir_of. apply oload_eqb_refl.
  - (* other keys stay listed *)
    apply forallb_forall. intros [n v] I. cbn [fst].
    destruct (parse_key n) as [k'|] eqn:P; [|reflexivity].
    destruct (N.eqb_spec k' k) as [E|E]; [reflexivity|]. cbn [orb].
    apply mem_N_in. rewrite map_fst_model_listed. unfold d'.
    apply (frame_listed k p (dir_of pre) k' SD C E).
    eapply in_list_keys; [|exact P]. unfold dir_of. apply in_map_iff.
    exists (n, v). split; [reflexivity | exact I].
Qed.

Lemma stop_calls_prefix : forall st l, stop_prefix (stop_calls st l) l.
Proof. intros [i|lim] l; [apply stop_prefix_firstn | apply stop_prefix_cut_bytes]. Qed.

Theorem save_kill_ok_sound : forall k bufs pre st,
  store_odir pre ->
  let d' := run (dir_of pre) (stop_calls st (save_calls k bufs NoFault false)) in
  c19_ok (SaveKill k bufs pre st (oload_of (load k d')) (model_listed d')) = true
  /\ c19_agree (SaveKill k bufs pre st (oload_of (load k d')) (model_listed d')) = true.
Proof.
  intros k bufs pre st S d'. split.
  - exact (view_ok_sound (OpSave k bufs NoFault false) pre _ S (stop_calls_prefix st _)).
  - cbn [c19_agree]. fold d'. unfold view_agree. rewrite oload_eqb_refl, map_fst_model_listed.
    cbn [andb]. apply Bool.andb_true_iff. split.
    + unfold same_keys. apply Bool.andb_true_iff.
      split; apply forallb_forall; intros x I; apply mem_N_in, I.
    + apply forallb_forall. intros e I. unfold model_listed in I. apply in_map_iff in I.
      destruct I as [k' [<- I]]. cbn [fst snd]. apply oload_eqb_refl.
Qed.

Theorem del_kill_ok_sound : forall k pre st,
  store_odir pre ->
  let d' := run (dir_of pre) (stop_calls st (delete_calls k)) in
  c19_ok (DelKill k pre st (oload_of (load k d')) (model_listed d')) = true.
Proof.
  intros k pre st S d'.
  exact (view_ok_sound (OpDelete k) pre _ S (stop_calls_prefix st _)).
Qed.

(* ---- the tie to the class of disciplined traces ---- *)
From MQ Require Import FSDiscipline.

(* the executable model of a Save without faults is a member of the class *)
Theorem save_calls_disciplined : forall k bufs leak,
  disciplined (key_name k) (spool_name k) (concat bufs) dst0 (save_calls k bufs NoFault leak) = true.
Proof.
  intros k bufs leak. rewrite save_calls_nofault.
  pose proof (chunked_save_disciplined (key_name k) (spool_name k) (concat bufs)
                (key_ne_spool k k) bufs [] eq_refl) as H.
  unfold chunked_save in H. rewrite app_nil_r in H.
  cbn [app]. rewrite <- app_assoc. cbn [app]. apply H.
  intros c [].
Qed.

(* what the generalised agreement accepts is atomic: when the calls strace recorded for a Save
   pass the scanner, then stopped at ANY point (call boundary or inside a data write), from ANY
   directory, Load gives the old value or the complete new one. *)
Theorem dry_disciplined_atomic : forall k bufs dry st d,
  dry_disciplined k bufs dry = true ->
  let d' := run d (stop_calls st (rebuild (concat bufs) 0 dry)) in
  load k d' = load k d \/ load k d' = Some (concat bufs).
Proof.
  intros k bufs dry st d H d'. unfold dry_disciplined in H.
  apply Bool.andb_true_iff in H. destruct H as [_ H].
  destruct (disciplined_atomic (key_name k) (spool_name k) (concat bufs)
              _ d _ H (stop_calls_prefix st _)) as [A|A];
    subst d'; unfold load; rewrite A; [left | right]; reflexivity.
Qed.

(* a Save that the generalised agreement accepts and that returned an error made no rename:
   the key entry is the old one at every stop point *)
Theorem save_seq_gen_failed_keeps_old : forall k bufs pre calls post p d,
  save_seq_gen k bufs pre calls false post = true ->
  stop_prefix p (rebuild (concat bufs) 0 calls) ->
  lookup (key_name k) (run d p) = lookup (key_name k) d.
Proof.
  intros k bufs pre calls post p d H Hp. unfold save_seq_gen in H.
  apply Bool.andb_true_iff in H. destruct H as [H _].
  apply Bool.andb_true_iff in H. destruct H as [D R].
  unfold dry_disciplined in D. apply Bool.andb_true_iff in D. destruct D as [_ D].
  destruct (renamed_in (key_name k) (spool_name k) (rebuild (concat bufs) 0 calls)) eqn:E;
    [discriminate|].
  eapply no_rename_keeps_gen; [exact D | exact E | exact Hp].
Qed.
