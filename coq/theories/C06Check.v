(* C06: executable case checker used by the correspondence run.
   A case is one client history over a scripted connection: the inbound byte stream, the
   way it was cut into conn.Read answers (with deadline expiries), and everything
   ReadSlices / BigMessage.ReadAll returned, plus the acknowledgements written. *)
From MQ Require Export Bytes Spec Reader ReaderRun C15Check.

(* byte-string literal whose length is given in N (long strings: no large nat literal) *)
Definition BN (n : N) (x : N) : list N := B (N.to_nat n) x.

(* a slice of the case's stream (case files name long byte strings by position) *)
Definition sub (s : list N) (off n : N) : list N := firstn (N.to_nat n) (skipn (N.to_nat off) s).

Inductive errclass := CEOF | CTimeout | CProto | COther.

Inductive bigread :=
| BigNotRead                       (* the BigMessage was left unread *)
| BigContent (bs : list N)         (* ReadAll returned these bytes *)
| BigReadErr (c : errclass).       (* ReadAll failed *)

(* one return of ReadSlices (for a BigMessage together with what ReadAll did) *)
Inductive obsret :=
| RetMsg (msg topic : list N)
| RetBig (topic : list N) (size : N) (rd : bigread)
| RetErr (c : errclass).

(* one conn.Read call: a read deadline was (re)armed since the previous call,
   a deadline is set, slice size, answer *)
Definition revent : Type := bool * bool * N * rans.

Inductive bop := OpReadByte | OpPeek (n : N) | OpDiscard (n : N) | OpRead (n : N).

Inductive c06case :=
| StreamCase (B : N) (pause : bool)
             (stream : list N)          (* what the broker side meant to send, CONNACK first *)
             (choices : list bool)      (* per BigMessage served: true = ReadAll *)
             (events : list revent)     (* every conn.Read of the connection *)
             (returns : list obsret)    (* every ReadSlices return, in order *)
             (acks : list N)            (* bytes the read routine wrote (after the test's own requests) *)
             (dials : N)                (* Dialer invocations; the second and later ones are refused *)
(* micro-correspondence of the bufio.Reader model: a script of calls on a real
   bufio.Reader of size B over a scripted io.Reader, with every result *)
| BufioCase (B : N) (ops : list bop)
            (reads : list (N * rans))             (* slice size and answer of every Read of the source *)
            (results : list (list N * N * N)).    (* bytes, count, error code per call *)

(* ------------------------------------------------------------------ *)
(* equality tests                                                      *)

Definition errclass_eqb (a b : errclass) : bool :=
  match a, b with
  | CEOF, CEOF | CTimeout, CTimeout | CProto, CProto | COther, COther => true
  | _, _ => false
  end.

Definition bigread_eqb (a b : bigread) : bool :=
  match a, b with
  | BigNotRead, BigNotRead => true
  | BigContent x, BigContent y => list_eqb x y
  | BigReadErr x, BigReadErr y => errclass_eqb x y
  | _, _ => false
  end.

Definition obsret_eqb (a b : obsret) : bool :=
  match a, b with
  | RetMsg m t, RetMsg m' t' => list_eqb m m' && list_eqb t t'
  | RetBig t s r, RetBig t' s' r' => list_eqb t t' && (s =? s') && bigread_eqb r r'
  | RetErr c, RetErr c' => errclass_eqb c c'
  | _, _ => false
  end.

Fixpoint list_eqb_by {A} (f : A -> A -> bool) (a b : list A) : bool :=
  match a, b with
  | [], [] => true
  | x :: a', y :: b' => f x y && list_eqb_by f a' b'
  | _, _ => false
  end.

(* ------------------------------------------------------------------ *)
(* the model's prediction: readSlices over Reader.v                    *)

Definition class_of (e : rerror) (proto : bool) : errclass :=
  match e with
  | ETimeout => CTimeout
  | EEOF => CEOF
  | _ => if proto then CProto else COther
  end.

(* onPUBLISH on c.peek, without the Persistence *)
Inductive pub_result :=
| PubDeliver (topic msg : list N) (ack : option (N * N))
| PubDupe (id : N)
| PubErr.                           (* errProtoReset class *)

Definition on_publish (head : N) (p : list N) (marks : list N) : pub_result :=
  match p with
  | a :: b :: r =>
    let tl := a * 256 + b in
    if len r <? tl then PubErr else
    let topic := firstn (N.to_nat tl) r in
    let r' := skipn (N.to_nat tl) r in
    match (head / 2) mod 4 with
    | 0 => PubDeliver topic r' None
    | 1 => match r' with
           | c :: d :: m => if c * 256 + d =? 0 then PubErr else PubDeliver topic m (Some (64, c * 256 + d))
           | _ => PubErr
           end
    | 2 => match r' with
           | c :: d :: m =>
             let id := c * 256 + d in
             if id =? 0 then PubErr
             else if existsb (N.eqb id) marks then PubDupe id
             else PubDeliver topic m (Some (80, id))
           | _ => PubErr
           end
    | _ => PubErr
    end
  | _ => PubErr
  end.

Definition ack_bytes (a : N * N) : list N := [fst a; 2; (snd a / 256) mod 256; snd a mod 256].

Record dst := {
  d_r : rst;                 (* bufio + connection *)
  d_peek : N;                (* len(c.peek) *)
  d_big : option N;          (* unread BigMessage: Size *)
  d_ack : option (N * N);    (* c.pendingAck: (first byte, identifier) *)
  d_marks : list N;          (* identifiers with a reception marker in the Persistence *)
  d_choices : list bool;
  d_out : list N             (* acknowledgement bytes written so far *)
}.

(* how one ReadSlices call ends *)
Inductive call_end :=
| CallRet (r : obsret) (stop : bool) (st : dst).

Definition with_r (st : dst) (r : rst) : dst :=
  {| d_r := r; d_peek := d_peek st; d_big := d_big st; d_ack := d_ack st; d_marks := d_marks st;
     d_choices := d_choices st; d_out := d_out st |}.

(* the packet loop of readSlices: fuel = packets looked at *)
Fixpoint packet_loop (fuel : nat) (pause : bool) (st : dst) : call_end :=
  match fuel with
  | O => CallRet (RetErr COther) true st
  | S f =>
    match peek_packet pause (d_r st) with
    | (PkBrokerTerm, r) => CallRet (RetErr CEOF) true (with_r st r)
    | (PkErr e proto, r) => CallRet (RetErr (class_of e proto)) true (with_r st r)
    | (PkOk head body, r) =>
      let skip (st' : dst) := (* c.bufr.Discard(len(c.peek)); next packet *)
        packet_loop f pause (with_r st' (snd (bufio_discard 1 r (len body) 0))) in
      let ty := head / 16 in
      if ty =? 3 then
        match on_publish head body (d_marks st) with
        | PubDeliver topic msg ack =>
          CallRet (RetMsg msg topic) false
            {| d_r := r; d_peek := len body; d_big := None; d_ack := ack; d_marks := d_marks st;
               d_choices := d_choices st; d_out := d_out st |}
        | PubDupe id =>
          skip {| d_r := r; d_peek := 0; d_big := None; d_ack := None; d_marks := d_marks st;
                  d_choices := d_choices st; d_out := d_out st ++ ack_bytes (80, id) |}
        | PubErr => CallRet (RetErr CProto) true (with_r st r)
        end
      else if ty =? 6 then
        match body with
        | [a; b] =>
          let id := a * 256 + b in
          if id =? 0 then CallRet (RetErr CProto) true (with_r st r) else
          skip {| d_r := r; d_peek := 0; d_big := None; d_ack := None;
                  d_marks := filter (fun x => negb (x =? id)) (d_marks st);
                  d_choices := d_choices st; d_out := d_out st ++ ack_bytes (112, id) |}
        | _ => CallRet (RetErr CProto) true (with_r st r)
        end
      else if ty =? 5 then
        match body with
        | [a; b] => skip {| d_r := r; d_peek := 0; d_big := None; d_ack := None; d_marks := d_marks st;
                            d_choices := d_choices st; d_out := d_out st ++ ack_bytes (98, a * 256 + b) |}
        | _ => CallRet (RetErr CProto) true (with_r st r)
        end
      else if (ty =? 4) || (ty =? 7) || (ty =? 11) then
        if len body =? 2 then skip st else CallRet (RetErr CProto) true (with_r st r)
      else if ty =? 9 then
        if len body <? 3 then CallRet (RetErr CProto) true (with_r st r) else skip st
      else if ty =? 13 then
        if len body =? 0 then skip st else CallRet (RetErr CProto) true (with_r st r)
      else CallRet (RetErr CProto) true (with_r st r)
    | (PkBig head size p, r) =>
      match on_publish head p (d_marks st) with
      | PubErr => CallRet (RetErr CProto) true (with_r st r)
      | PubDupe id =>
        (* c.peek = nil; c.discard(payloadSize); confirm again *)
        match client_discard pause r size with
        | (None, r') =>
          packet_loop f pause
            {| d_r := r'; d_peek := 0; d_big := None; d_ack := None; d_marks := d_marks st;
               d_choices := d_choices st; d_out := d_out st ++ ack_bytes (80, id) |}
        | (Some e, r') => CallRet (RetErr (class_of e false)) true (with_r st r')
        end
      | PubDeliver topic partial ack =>
        let before := rcap r - len partial in
        let size' := size - before in
        let r1 := snd (bufio_discard 1 r before 0) in
        match d_choices st with
        | true :: ch =>
          match read_all pause r1 size' with
          | (inl content, r2) =>
            CallRet (RetBig topic size' (BigContent content)) false
              {| d_r := r2; d_peek := 0; d_big := None; d_ack := ack; d_marks := d_marks st;
                 d_choices := ch; d_out := d_out st |}
          | (inr e, r2) =>
            CallRet (RetBig topic size' (BigReadErr (class_of e false))) true
              {| d_r := r2; d_peek := 0; d_big := None; d_ack := ack; d_marks := d_marks st;
                 d_choices := ch; d_out := d_out st |}
          end
        | ch =>
          CallRet (RetBig topic size' BigNotRead) false
            {| d_r := r1; d_peek := 0; d_big := Some size'; d_ack := ack; d_marks := d_marks st;
               d_choices := tl ch; d_out := d_out st |}
        end
      end
    end
  end.

(* one ReadSlices call on an established connection *)
Definition read_slices (pause : bool) (st : dst) : call_end :=
  (* flush big message if any *)
  let flushed :=
    match d_big st with
    | Some n => match client_discard pause (d_r st) n with
                | (None, r) => inl r
                | (Some e, r) => inr (e, r)
                end
    | None => inl (d_r st)
    end in
  match flushed with
  | inr (e, r) => CallRet (RetErr (class_of e false)) true (with_r st r)
  | inl r =>
    (* skip previous packet *)
    let r := snd (bufio_discard 1 r (d_peek st) 0) in
    (* acknowledge previous packet *)
    let marks := match d_ack st with
                 | Some (80, id) => id :: d_marks st
                 | _ => d_marks st
                 end in
    let out := match d_ack st with Some a => d_out st ++ ack_bytes a | None => d_out st end in
    packet_loop (S (S (length (data (rtape r)) + length (rbuf r)))) pause
      {| d_r := r; d_peek := 0; d_big := None; d_ack := None; d_marks := marks;
         d_choices := d_choices st; d_out := out |}
  end.

Fixpoint calls (fuel : nat) (pause : bool) (st : dst) : list obsret * dst :=
  match fuel with
  | O => ([], st)
  | S f =>
    match read_slices pause st with
    | CallRet r true st' => ([r], st')
    | CallRet r false st' => let '(l, st'') := calls f pause st' in (r :: l, st'')
    end
  end.

(* connect(): Peek(4) of the CONNACK under one deadline, Discard(4) *)
Definition run_client (B : N) (pause : bool) (choices : list bool) (tape : list rans)
  : list obsret * dst :=
  let r0 := {| rbuf := []; rerr := None; rcap := B; rarmed := pause; rtape := tape; rlog := [] |} in
  let st r := {| d_r := r; d_peek := 0; d_big := None; d_ack := None; d_marks := [];
                 d_choices := choices; d_out := [] |} in
  match peek r0 4 with
  | ((p, None), r1) =>
    if list_eqb p [32; 2; 0; 0] then
      let r2 := snd (bufio_discard 1 r1 4 0) in
      let r3 := if pause then rst_arm r2 false else r2 in
      calls (S (S (length (data tape)))) pause (st r3)
    else ([RetErr COther], st r1)
  | ((p, Some e), r1) =>
    let c := match p with
             | a :: b :: _ => if (a =? 32) && (b =? 2) then class_of e false else CProto
             | _ => class_of e false
             end in
    ([RetErr c], st (if pause then rst_arm r1 false else r1))
  end.

(* After a ReadSlices error caused by a deadline expiry the harness calls once more:
   the connection was dropped, the client dials again and the harness refuses. *)
Fixpoint with_followup (rets : list obsret) : list obsret :=
  match rets with
  | [] => []
  | [RetErr CTimeout] => [RetErr CTimeout; RetErr COther]
  | r :: l => r :: with_followup l
  end.

Fixpoint dials_of (rets : list obsret) : N :=
  match rets with
  | [RetErr CTimeout; RetErr COther] => 2
  | _ :: l => dials_of l
  | [] => 1
  end.

(* bufio.Reader calls *)
Definition err_code (e : rerror) : N :=
  match e with
  | ETimeout => 1 | EEOF => 2 | EClosed => 3 | EHard => 4 | EBufferFull => 5
  | EUnexpectedEOF => 6 | ENoTape => 9
  end.
Definition err_codeo (e : option rerror) : N := match e with Some e => err_code e | None => 0 end.

Definition bstep (s : rst) (o : bop) : (list N * N * N) * rst :=
  match o with
  | OpReadByte =>
    match read_byte s with
    | (inl b, s') => (([b], 1, 0), s')
    | (inr e, s') => (([], 0, err_code e), s')
    end
  | OpPeek n => let '((p, e), s') := peek s n in ((p, len p, err_codeo e), s')
  | OpDiscard n =>
    let '((d, e), s') := bufio_discard (S (S (tape_weight (rtape s)))) s n 0 in (([], d, err_codeo e), s')
  | OpRead n => let '((p, e), s') := bufio_read s n in ((p, len p, err_codeo e), s')
  end.

Fixpoint bsteps (s : rst) (ops : list bop) : list (list N * N * N) * rst :=
  match ops with
  | [] => ([], s)
  | o :: r => let '(x, s') := bstep s o in let '(l, s'') := bsteps s' r in (x :: l, s'')
  end.

Definition bres_eqb (a b : list N * N * N) : bool :=
  list_eqb (fst (fst a)) (fst (fst b)) && (snd (fst a) =? snd (fst b)) && (snd a =? snd b).

Definition ev_ans (e : revent) : rans := snd e.
Definition ev_log (e : revent) : bool * N := (snd (fst (fst e)), snd (fst e)).

Definition log_eqb (a b : list (bool * N)) : bool :=
  list_eqb_by (fun x y => Bool.eqb (fst x) (fst y) && (snd x =? snd y)) a b.

(* model prediction = observation: returns, acknowledgement bytes, and the read log
   (armed flag and slice size of every conn.Read; all answers consumed) *)
Definition c06_agree (c : c06case) : bool :=
  match c with
  | StreamCase B pause stream choices events returns acks dials =>
    let '(rets0, st) := run_client B pause choices (map ev_ans events) in
    let rets := with_followup rets0 in
    list_eqb_by obsret_eqb rets returns
    && (dials_of rets =? dials)
    && list_eqb (d_out st) acks
    && log_eqb (rev (rlog (d_r st))) (map ev_log events)
    && match rtape (d_r st) with [] => true | _ => false end
  | BufioCase B ops reads results =>
    let s0 := {| rbuf := []; rerr := None; rcap := B; rarmed := false;
                 rtape := map snd reads; rlog := [] |} in
    let '(res, s) := bsteps s0 ops in
    list_eqb_by bres_eqb res results
    && list_eqb (map snd (rev (rlog s))) (map fst reads)
    && match rtape s with [] => true | _ => false end
  end.

(* ------------------------------------------------------------------ *)
(* the property, judged on the observation alone                       *)

(* deliveries and acknowledgements a conforming client owes for this packet sequence *)
Fixpoint expected (ps : list packet) (open : list N) : list (list N * list N) * list packet :=
  match ps with
  | [] => ([], [])
  | p :: r =>
    match p with
    | PPublish _ qos _ topic pid payload =>
      match qos, pid with
      | 1, Some id => let '(d, a) := expected r open in ((topic, payload) :: d, PPuback id :: a)
      | 2, Some id =>
        if existsb (N.eqb id) open
        then let '(d, a) := expected r open in (d, PPubrec id :: a)
        else let '(d, a) := expected r (id :: open) in ((topic, payload) :: d, PPubrec id :: a)
      | _, _ => let '(d, a) := expected r open in ((topic, payload) :: d, a)
      end
    | PPubrel id =>
      let '(d, a) := expected r (filter (fun x => negb (x =? id)) open) in (d, PPubcomp id :: a)
    | PPubrec id => let '(d, a) := expected r open in (d, PPubrel id :: a)
    | _ => expected r open
    end
  end.

Fixpoint is_prefixb (a b : list N) : bool :=
  match a, b with
  | [], _ => true
  | x :: a', y :: b' => (x =? y) && is_prefixb a' b'
  | _, _ => false
  end.

Definition packet_eqb (a b : packet) : bool :=
  match a, b with
  | PPuback x, PPuback y | PPubrec x, PPubrec y | PPubrel x, PPubrel y | PPubcomp x, PPubcomp y => x =? y
  | _, _ => false
  end.

Fixpoint packets_prefixb (a b : list packet) : bool :=
  match a, b with
  | [], _ => true
  | x :: a', y :: b' => packet_eqb x y && packets_prefixb a' b'
  | _, _ => false
  end.

(* the last conn.Read was a deadline expiry that saw no byte since the deadline was armed *)
Definition ends_no_progress (events : list revent) : bool :=
  match rev events with
  | (true, _, _, RTimeout) :: _ => true
  | _ => false
  end.

Definition ends_eof (events : list revent) : bool :=
  match rev events with
  | (_, _, _, REOF) :: _ => true
  | _ => false
  end.

(* returns against the expected deliveries; result: did the history run to the end of the
   stream (Some true), stop early at a permitted error (Some false), or deviate (None) *)
Fixpoint judge (rets : list obsret) (exp : list (list N * list N)) (events : list revent) : option bool :=
  match rets with
  | [] => None                                   (* a history ends with an error return *)
  | [RetErr CEOF] => match exp with [] => if ends_eof events then Some true else None | _ => None end
  | [RetErr CTimeout; RetErr COther] =>
    (* permitted only at an expiry without progress; the connection must be dropped *)
    if ends_no_progress events then Some false else None
  | RetMsg m t :: r =>
    match exp with
    | (t', m') :: exp' => if list_eqb t t' && list_eqb m m' then judge r exp' events else None
    | [] => None
    end
  | RetBig t size rd :: r =>
    match exp with
    | (t', m') :: exp' =>
      if list_eqb t t' && (size =? len m') then
        match rd with
        | BigNotRead => judge r exp' events
        | BigContent bs => if list_eqb bs m' then judge r exp' events else None
        | BigReadErr CTimeout =>
          match r with [] => if ends_no_progress events then Some false else None | _ => None end
        | BigReadErr _ => None
        end
      else None
    | [] => None
    end
  | _ => None
  end.

Fixpoint bufio_walk (ops : list bop) (res : list (list N * N * N)) (d : list N) : bool :=
  match ops, res with
  | [], [] => true
  | o :: ops', (bs, n, _) :: res' =>
    match o with
    | OpPeek _ => is_prefixb bs d && bufio_walk ops' res' d
    | OpDiscard _ => (n <=? len d) && bufio_walk ops' res' (skipn (N.to_nat n) d)
    | _ => is_prefixb bs d && bufio_walk ops' res' (skipn (length bs) d)
    end
  | _, _ => false
  end.

Definition c06_ok (c : c06case) : bool :=
  match c with
  | StreamCase B pause stream choices events returns acks dials =>
    let served := data (map ev_ans events) in
    let '(ps, leftover) := parse_stream (S (length stream)) stream in
    match leftover, ps with
    | [], PConnack _ 0 :: ps' =>
      let '(deliveries, ackps) := expected ps' [] in
      let '(got_acks, ack_left) := parse_stream (S (length acks)) acks in
      is_prefixb served stream && (dials =? dials_of returns) &&
      match judge returns deliveries events with
      | Some true =>
        (* ran to the end: everything served, every acknowledgement written *)
        list_eqb served stream
        && match ack_left with [] => true | _ => false end
        && packets_prefixb got_acks ackps && packets_prefixb ackps got_acks
      | Some false =>
        match ack_left with [] => true | _ => false end && packets_prefixb got_acks ackps
      | None => false
      end
    | _, _ => false          (* the generator must supply a well-formed stream *)
    end
  | BufioCase B ops reads results =>
    (* library model only; as a sanity property: what the calls hand out, peek at and
       skip is the delivered byte sequence, in order *)
    bufio_walk ops results (data (map snd reads))
  end.

Definition c06_run (l : list c06case) : list N * list N * list (N * N) :=
  (idx_filter c06_agree l 0, idx_filter c06_ok l 0, []).
