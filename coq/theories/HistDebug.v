From MQ Require Export HistChecks.
Fixpoint fold_trace_fail {St} (f : St -> list (N * list N) -> tev -> St * bool) (s : St)
         (m : list (N * list N)) (t : list tev) (pos : nat) : option (nat * tev) :=
  match t with
  | [] => None
  | e :: r => let '(s', ok) := f s m e in
              if ok then fold_trace_fail f s' (obs_store_step m e) r (S pos) else Some (pos, e)
  end.
Definition c01_fail (h : histcase) := let t := trace_of h in fold_trace_fail (tx_step t) (s_max1 (cfg_of h), s_max2 (cfg_of h)) [] t 0.
Definition c07_fail (h : histcase) := let t := trace_of h in fold_trace_fail (rx_step t) (mkRx [] [] false) [] t 0.
Definition c05_fail (h : histcase) := let t := trace_of h in fold_trace_fail ord_step (mkOrd [] [] [] [] [] [] []) [] t 0.
Definition c17_fail (h : histcase) := let t := trace_of h in fold_trace_fail (sub_step t) (mkSub 0 []) [] t 0.
Definition c18_fail (h : histcase) := let t := trace_of h in
  (map (fun c => (c, conn_setup_ok h t c)) (conns t), fold_trace_fail (cs_step h t) (mkCs false false) [] t 0).
Definition c10_fail (h : histcase) := let t := trace_of h in fold_trace_fail (rd_step h t) (mkRd true false [] 0 false) [] t 0.
Definition c11_fail (h : histcase) := let t := trace_of h in fold_trace_fail (rq_step t) (mkRq 0 []) [] t 0.
Definition c12_fail (h : histcase) := let t := trace_of h in (disconnect_last t, fold_trace_fail (cl_step true t) (mkCl false false [] false 0) [] t 0).
