(* C04 / C07: the tie between the executable session model (Session.v) and the slim receiver of
   the closed world InboundWorld.v.

   InboundWorld.v reads the shapes of its client steps (I_deliver, I_dupe, I_flush, ...) off
   Session.v and cites handler theorems of InboundProofs.v.  This file PROVES the projection:

     islim c m = (marks m, owed (k_pack c))        (section 2)
       marks m   the identifiers k - 65536 of the keys k of the map-mode Persistence m with bit 16
                 (for an identifier id < 65536: In id (marks m) <-> key N.lor id remote_flag present,
                  [in_marks_id] + [nid_small])
       owed p    pendingAck decoded: PUBREC id -> ARec id, PUBCOMP id -> AComp id, anything else
                 (nothing, a PUBACK, the PUBREL on_pubrec keeps after a failed write) -> None
     Ghost numbers: Session.v has none.  The slim state is the x-free part [proj] of an iworld:
     (i_marks, option_map strip i_owed), strip (URec id x) = ARec id, strip (UComp id x) = AComp id.
     InboundWorld's client steps copy x from the packet they read and never look at it; section 15
     (b) gives it back: a [cstep_in] of the projection is an [istep] of any world with that
     projection whose connection offers the packet named by the label, x being that packet's.

   cstep_in k s s'   (section 1) the client-only projection of InboundWorld.istep, labelled
     KDeliver id / KDupe id / KDupeFail id / KPubrel id / KPubrelFail id / KFlush / KFlushFail /
     KSaveFail / KBreak / KRestart; [istep_client_proj]: every istep acts on [proj] as the
     cstep_in of its label or not at all; [cstep_in_istep]: the converse (given the input);
     [istep_weq]: istep does not depend on how the marker set is listed, which is why
   islim_steps   is the reflexive-transitive closure of cstep_in AND of [sl_eq] (same marker SET,
     same owed): [marks] lists the keys in ascending order, InboundWorld conses.

   Main theorems (every client state, every genuine-store world, every tape):
     step_islim_ok   step c o w = Some ((c', r), w') -> tie_ok c w m ->
                     exists m', tie_ok c' w' m' /\ islim_steps (islim c m) (islim c' m')
     step_islim      the same with w_store w' = Some m' given
     run_islim       every run [srun] of the session model projects to a run of the slim receiver
   where tie_ok c w m = map mode with ascending keys (OutboundInv.sorted_keys: store_del removes the
   first binding only), [mdec] (every record under a marker key decodes), bytes in the read buffer
   and on the read tape.  All four are invariants of [step] (that is part of the theorem) and
   hold for a new client on an empty store ([tie_ok_new]).  They are NEEDED:
     - without [mdec] AdoptSession (adopt_scan) DELETES a marker whose record does not decode,
       before it looks at bit 16: the slim I_restart keeps every marker.  Such a record is never
       written by the client (rugged_save writes encode_value, [decode_encode_any]); it needs a
       damaged Persistence, which InboundWorld does not model.
     - without bytes a "packet identifier" above 65535 makes on_publish load key N.lor pid 65536
       while the flush saves N.lor (pid mod 65536) 65536: an artefact of unbounded N; the bytes
       invariant is carried through Reader.v ([bt], section 3).
   The pieces (sections 7-11, plain statements in section 14):
     on_publish_spec    QoS 2: marker absent -> HMsg, pendingAck := PUBREC id, store untouched,
                        KDeliver; marker present -> HDupe, pendingAck := PUBREC id, which the read
                        loop writes at once (KDupe) or keeps + toOffline (KDupeFail); Load error or
                        malformed -> HErr, client unchanged (KBreak by toOffline)
     flush_ack_spec     [flush_ack] = the pendingAck flush of read_slices_body
                        ([read_slices_body_flush], by reflexivity), for EVERY pendingAck:
                        Save failed -> kept, store unchanged, still online (KSaveFail);
                        write failed -> marker saved, kept (KFlushFail); written -> marker saved,
                        empty (KFlush); no Save unless the head nibble is 5
     on_pubrel_spec     Delete failed -> client and store unchanged; else marker deleted and PUBCOMP
                        written (KPubrel) or kept (KPubrelFail)
     on_puback/on_pubcomp/on_pubrec_spec, vis_on_suback/unsuback/pingresp   stutter: their Save /
                        Delete keys are below 65536 (no marker), pendingAck untouched
     dispatch_spec      all of the above under the loop invariant pendingAck = []
                        (on_pubrec OVERWRITES and on_pubrel IGNORES a non-empty pendingAck: not
                        slim steps; [read_loop_tie] proves pendingAck = [] at every dispatch)
     to_offline_islim, connect_islim, other_ops_islim   islim unchanged
     op_adopt_islim     markers kept (as a set), pendingAck empty: KRestart
   No disagreement between InboundWorld and Session.v was found on this projection under tie_ok.
   tie_example / tie_example_fail: concrete runs by vm_compute.                                   *)
From Coq Require Import ZArith ZifyN ZifyNat ZifyBool Lia List Bool.
From RecordUpdate Require Import RecordUpdate.
From MQ Require Import Session WriteLoopProofs RecordProofs ReaderProofs OutboundInv InboundProofs InboundWorld.
Import ListNotations.
Local Open Scope N_scope.

#[local] Arguments N.testbit : simpl never.
#[local] Arguments encode_value : simpl never.
#[local] Arguments decode_value : simpl never.

(* ================================================================== *)
(* 1. The slim receiver, client part                                   *)

Inductive ack := ARec (id : N) | AComp (id : N).
Definition sl : Type := (list N * option ack)%type.

Definition strip (u : up) : ack :=
  match u with URec id _ => ARec id | UComp id _ => AComp id end.
Definition proj (w : iworld) : sl := (i_marks w, option_map strip (i_owed w)).

Definition save_mark (u : ack) (l : list N) : list N :=
  match u with ARec id => mark_add id l | AComp _ => l end.

Lemma save_marker_strip u l : save_marker u l = save_mark (strip u) l.
Proof. destruct u; reflexivity. Qed.

Inductive clab :=
| KDeliver (id : N) | KDupe (id : N) | KDupeFail (id : N) | KPubrel (id : N) | KPubrelFail (id : N)
| KFlush | KFlushFail | KSaveFail | KBreak | KRestart.

Definition ilab_of (k : clab) : ilabel :=
  match k with
  | KDeliver _ => LDeliver | KDupe _ => LDupe | KDupeFail _ => LDupeFail
  | KPubrel _ => LPubrel | KPubrelFail _ => LPubrelFail
  | KFlush => LFlush | KFlushFail => LFlushFail | KSaveFail => LSaveFail
  | KBreak => LBreak | KRestart => LRestart
  end.

Inductive cstep_in : clab -> sl -> sl -> Prop :=
| C_deliver : forall mk id, ~ In id mk -> cstep_in (KDeliver id) (mk, None) (mk, Some (ARec id))
| C_dupe : forall mk id, In id mk -> cstep_in (KDupe id) (mk, None) (mk, None)
| C_dupe_fail : forall mk id, In id mk -> cstep_in (KDupeFail id) (mk, None) (mk, Some (ARec id))
| C_pubrel : forall mk id, cstep_in (KPubrel id) (mk, None) (mark_del id mk, None)
| C_pubrel_fail : forall mk id, cstep_in (KPubrelFail id) (mk, None) (mark_del id mk, Some (AComp id))
| C_flush : forall mk u, cstep_in KFlush (mk, Some u) (save_mark u mk, None)
| C_flush_fail : forall mk u, cstep_in KFlushFail (mk, Some u) (save_mark u mk, Some u)
| C_save_fail : forall mk id, cstep_in KSaveFail (mk, Some (ARec id)) (mk, Some (ARec id))
| C_break : forall mk ow, cstep_in KBreak (mk, ow) (mk, ow)
| C_restart : forall mk ow, cstep_in KRestart (mk, ow) (mk, None).

(* marker sets: the order of the list and repetitions mean nothing (InboundWorld only asks [In]) *)
Definition meq (a b : list N) : Prop := forall x, In x a <-> In x b.
Definition sl_eq (s s' : sl) : Prop := meq (fst s) (fst s') /\ snd s = snd s'.

Lemma meq_refl a : meq a a.
Proof. intros x. reflexivity. Qed.
Lemma meq_sym a b : meq a b -> meq b a.
Proof. intros H x. symmetry. apply H. Qed.
Lemma meq_trans a b c : meq a b -> meq b c -> meq a c.
Proof. intros H1 H2 x. rewrite (H1 x). apply H2. Qed.
Lemma sl_eq_refl s : sl_eq s s.
Proof. split; [apply meq_refl|reflexivity]. Qed.

Inductive islim_steps : sl -> sl -> Prop :=
| iss_eq : forall s s', sl_eq s s' -> islim_steps s s'
| iss_step : forall k s s', cstep_in k s s' -> islim_steps s s'
| iss_trans : forall s1 s2 s3, islim_steps s1 s2 -> islim_steps s2 s3 -> islim_steps s1 s3.

Lemma iss_refl s : islim_steps s s.
Proof. apply iss_eq, sl_eq_refl. Qed.

Lemma iss_then_eq s0 mk mk' ow : islim_steps s0 (mk, ow) -> meq mk mk' -> islim_steps s0 (mk', ow).
Proof. intros H E. eapply iss_trans; [exact H|]. apply iss_eq. split; [exact E|reflexivity]. Qed.

Lemma iss_then_step s0 s k s' : islim_steps s0 s -> cstep_in k s s' -> islim_steps s0 s'.
Proof. intros H E. eapply iss_trans; [exact H|]. eapply iss_step; exact E. Qed.

Lemma meq_mark_add id a b : meq a b -> meq (mark_add id a) (mark_add id b).
Proof. intros H x. rewrite !in_mark_add, (H x). reflexivity. Qed.
Lemma meq_mark_del id a b : meq a b -> meq (mark_del id a) (mark_del id b).
Proof. intros H x. rewrite !in_mark_del, (H x). reflexivity. Qed.
Lemma meq_mark_add_in id a : In id a -> meq (mark_add id a) a.
Proof. intros H x. rewrite in_mark_add. split; [intros [->|Hx]; assumption|auto]. Qed.
Lemma meq_mark_del_notin id a : ~ In id a -> meq (mark_del id a) a.
Proof.
  intros H x. rewrite in_mark_del. split; [tauto|]. intros Hx. split; [exact Hx|].
  intros ->. contradiction.
Qed.

(* ================================================================== *)
(* 2. The projection                                                   *)

(* the identifier a marker key stands for; the identity below 65536 *)
Definition nid (x : N) : N := N.lor x remote_flag - remote_flag.

(* pendingAck: a PUBREC or PUBCOMP still to be written; anything else (nothing, a PUBACK, a
   PUBREL kept by on_pubrec) is no exactly-once reception business *)
Definition owed (p : list N) : option ack :=
  match p with
  | [] => None
  | h :: _ => if h / 16 =? 5 then Some (ARec (nid (u16 (skipn 2 p))))
              else if h / 16 =? 7 then Some (AComp (nid (u16 (skipn 2 p))))
              else None
  end.

(* the identifiers with a reception marker: keys with bit 16 *)
Definition marks (m : store) : list N :=
  map (fun k => k - remote_flag) (filter (fun k => N.testbit k 16) (map fst m)).

Definition islim (c : client) (m : store) : sl := (marks m, owed (k_pack c)).

Lemma land_flag_small x : x < 65536 -> N.land x remote_flag = 0.
Proof.
  intros H. rewrite <- (N.mod_small x 65536) by exact H.
  change 65536 with (2 ^ 16) at 1. rewrite <- N.land_ones, <- N.land_assoc.
  change (N.land (N.ones 16) remote_flag) with 0. apply N.land_0_r.
Qed.

Lemma lor_flag_small x : x < 65536 -> N.lor x remote_flag = x + 65536.
Proof. intros H. rewrite lor_disjoint by (apply land_flag_small; exact H). reflexivity. Qed.

Lemma nid_small x : x < 65536 -> nid x = x.
Proof. intros H. unfold nid. rewrite lor_flag_small by exact H. unfold remote_flag. lia. Qed.

Lemma nid_key x : N.lor x remote_flag = nid x + 65536.
Proof.
  unfold nid. pose proof (marker_ge _ (remote_key_bit x)). unfold remote_flag in *. lia.
Qed.

Lemma owed_nil : owed [] = None.
Proof. reflexivity. Qed.
Lemma owed_pubrec id : id < 65536 -> owed (packet_pubrec id) = Some (ARec id).
Proof.
  intros H. unfold owed, packet_pubrec, ack_packet. change (80 / 16 =? 5) with true. cbv iota.
  cbn [skipn]. rewrite u16_be16 by exact H. rewrite nid_small by exact H. reflexivity.
Qed.
Lemma owed_pubcomp id : id < 65536 -> owed (packet_pubcomp id) = Some (AComp id).
Proof.
  intros H. unfold owed, packet_pubcomp, ack_packet. change (112 / 16 =? 5) with false.
  change (112 / 16 =? 7) with true. cbv iota.
  cbn [skipn]. rewrite u16_be16 by exact H. rewrite nid_small by exact H. reflexivity.
Qed.
Lemma owed_puback id : owed (packet_puback id) = None.
Proof. reflexivity. Qed.
Lemma owed_pubrel id : owed (packet_pubrel id) = None.
Proof. reflexivity. Qed.

Lemma in_keys_get m k : In k (map fst m) <-> store_get m k <> None.
Proof.
  induction m as [|[k0 v0] r IH]; cbn [map fst In store_get].
  - split; [intros []|congruence].
  - destruct (N.eqb_spec k0 k) as [->|Hne].
    + split; [discriminate|auto].
    + rewrite <- IH. split; [intros [E|H]; [contradiction|exact H]|auto].
Qed.

Lemma in_marks m a :
  In a (marks m) <-> exists k, N.testbit k 16 = true /\ k - 65536 = a /\ store_get m k <> None.
Proof.
  unfold marks. rewrite in_map_iff. split.
  - intros (k & E & Hin). apply filter_In in Hin. destruct Hin as [Hk Hb].
    exists k. split; [exact Hb|]. split; [exact E|]. apply in_keys_get, Hk.
  - intros (k & Hb & E & Hg). exists k. split; [exact E|]. apply filter_In.
    split; [apply in_keys_get, Hg|exact Hb].
Qed.

Lemma in_marks_key m K : N.testbit K 16 = true ->
  (In (K - 65536) (marks m) <-> store_get m K <> None).
Proof.
  intros HK. rewrite in_marks. split.
  - intros (k & Hb & E & Hg). apply marker_ge in Hb. pose proof (marker_ge _ HK).
    replace K with k by lia. exact Hg.
  - intros Hg. exists K. auto.
Qed.

Lemma in_marks_id m x : In (nid x) (marks m) <-> store_get m (N.lor x remote_flag) <> None.
Proof. unfold nid. apply (in_marks_key m _ (remote_key_bit x)). Qed.

Lemma marks_put_other m k v : N.testbit k 16 = false -> meq (marks (store_put m k v)) (marks m).
Proof.
  intros Hk a. rewrite !in_marks. split; intros (k' & Hb & E & Hg); exists k'; (split; [exact Hb|]);
    (split; [exact E|]); rewrite store_get_put in *; destruct (N.eqb_spec k' k); try congruence.
Qed.

Lemma marks_put_marker m K v : N.testbit K 16 = true ->
  meq (marks (store_put m K v)) (mark_add (K - 65536) (marks m)).
Proof.
  intros HK a. rewrite in_mark_add, !in_marks. split.
  - intros (k' & Hb & E & Hg). rewrite store_get_put in Hg. destruct (N.eqb_spec k' K) as [->|Hne].
    + left. symmetry. exact E.
    + right. exists k'. auto.
  - intros [->|(k' & Hb & E & Hg)].
    + exists K. split; [exact HK|]. split; [reflexivity|]. rewrite store_get_put_same. discriminate.
    + exists k'. split; [exact Hb|]. split; [exact E|]. rewrite store_get_put.
      destruct (k' =? K); [discriminate|exact Hg].
Qed.

Lemma marks_del_other m k : sorted_keys m -> N.testbit k 16 = false ->
  meq (marks (store_del m k)) (marks m).
Proof.
  intros Hs Hk a. rewrite !in_marks. split; intros (k' & Hb & E & Hg); exists k'; (split; [exact Hb|]);
    (split; [exact E|]); rewrite (store_get_del _ _ _ Hs) in *; destruct (N.eqb_spec k' k); try congruence.
Qed.

Lemma marks_del_marker m K : sorted_keys m -> N.testbit K 16 = true ->
  meq (marks (store_del m K)) (mark_del (K - 65536) (marks m)).
Proof.
  intros Hs HK a. rewrite in_mark_del, !in_marks. pose proof (marker_ge _ HK) as HK'. split.
  - intros (k' & Hb & E & Hg). rewrite (store_get_del _ _ _ Hs) in Hg.
    destruct (N.eqb_spec k' K) as [->|Hne]; [congruence|]. split.
    + exists k'. auto.
    + pose proof (marker_ge _ Hb). lia.
  - intros [(k' & Hb & E & Hg) Hne]. exists k'. split; [exact Hb|]. split; [exact E|].
    rewrite (store_get_del _ _ _ Hs). destruct (N.eqb_spec k' K) as [->|_]; [lia|exact Hg].
Qed.

Lemma store_del_absent m k : store_get m k = None -> store_del m k = m.
Proof.
  induction m as [|[k0 v0] r IH]; cbn [store_get store_del]; [reflexivity|].
  destruct (k0 =? k); [discriminate|]. intros H. rewrite (IH H). reflexivity.
Qed.

(* every record under a marker key is a record: AdoptSession deletes what does not decode *)
Definition mdec (m : store) : Prop :=
  forall k v, store_get m k = Some v -> N.testbit k 16 = true ->
    exists p s, decode_value v = DecOk p s.

Lemma decode_encode_any p s : exists s', decode_value (encode_value p s) = DecOk p s'.
Proof.
  exists (s mod M64).
  assert (E : encode_value p s = encode_value p (s mod M64)).
  { unfold encode_value. cbv zeta. unfold le64.
    change M64 with (256 ^ N.of_nat 8). rewrite le_enc_mod. reflexivity. }
  rewrite E. apply decode_encode. apply N.mod_lt. discriminate.
Qed.

Lemma mdec_put_other m k v : N.testbit k 16 = false -> mdec m -> mdec (store_put m k v).
Proof.
  intros Hk H k' v' Hg Hb. rewrite store_get_put in Hg.
  destruct (N.eqb_spec k' k) as [->|_]; [congruence|]. exact (H _ _ Hg Hb).
Qed.
Lemma mdec_put_enc m k p s : mdec m -> mdec (store_put m k (encode_value p s)).
Proof.
  intros H k' v' Hg Hb. rewrite store_get_put in Hg.
  destruct (N.eqb_spec k' k) as [->|_]; [|exact (H _ _ Hg Hb)].
  inversion Hg; subst. destruct (decode_encode_any p s) as (s' & E). eauto.
Qed.
Lemma mdec_del m k : sorted_keys m -> mdec m -> mdec (store_del m k).
Proof.
  intros Hs H k' v' Hg Hb. apply (store_get_del_some _ _ _ _ Hs) in Hg. exact (H _ _ (proj2 Hg) Hb).
Qed.
Lemma mdec_nil : mdec [].
Proof. intros k v H. discriminate. Qed.

(* ================================================================== *)
(* 3. Packet bodies are bytes                                          *)

Definition chunk_ok (a : rans) : Prop := bytes (chunk_data a).
Definition tape_ok (t : list rans) : Prop := Forall chunk_ok t.
Definition bt (s : rst) : Prop := bytes (rbuf s) /\ tape_ok (rtape s).

Lemma bytes_nil : bytes [].
Proof. constructor. Qed.
Lemma bytes_firstn n : forall l, bytes l -> bytes (firstn n l).
Proof.
  induction n as [|n IH]; intros l H; [constructor|]. destruct l as [|x l]; [constructor|].
  cbn [firstn]. inversion H; subst. constructor; [assumption|]. apply IH. assumption.
Qed.

Lemma bt_arm s a : bt s -> bt (rst_arm s a).
Proof. intros H. exact H. Qed.
Lemma bt_err s e : bt s -> bt (rst_with_err s e).
Proof. intros H. exact H. Qed.
Lemma bt_buf s b : bt s -> bytes b -> bt (rst_with_buf s b).
Proof. intros [_ H] Hb. split; assumption. Qed.
Lemma bt_arm_if s (c a : bool) : bt s -> bt (if c then rst_arm s a else s).
Proof. destruct c; auto. Qed.

Lemma conn_read_bt s want a s' : bt s -> conn_read s want = Some (a, s') -> chunk_ok a /\ bt s'.
Proof.
  intros [A B]. unfold conn_read. destruct (rtape s) as [|x t] eqn:E; [discriminate|].
  inversion B as [|? ? Bx Bt]; subst.
  destruct x as [bs| | | |];
    try (intros H; injection H as <- <-; split; [exact Bx|split; assumption]).
  destruct (want <? len bs); intros H; injection H as <- <-.
  - split; [apply bytes_firstn; exact Bx|]. split; [exact A|]. cbn [rtape].
    constructor; [apply bytes_skipn; exact Bx|exact Bt].
  - split; [exact Bx|split; assumption].
Qed.

Lemma fill_bt s s' : bt s -> fill s = Some s' -> bt s'.
Proof.
  intros N. unfold fill. destruct (conn_read s (rcap s - len (rbuf s))) as [[a s1]|] eqn:E; [|discriminate].
  destruct (conn_read_bt _ _ _ _ N E) as [Ha N1].
  destruct a; intros H; injection H as <-; try (apply bt_err; exact N1).
  apply bt_buf; [exact N1|]. apply bytes_app; [apply N1|exact Ha].
Qed.

Lemma read_byte_bt s r s' : bt s -> read_byte s = (r, s') -> bt s'.
Proof.
  intros N. unfold read_byte.
  destruct (rbuf s) as [|b bs] eqn:Eb.
  - destruct (rerr s) as [e|] eqn:Ee.
    + intros H; injection H as <- <-. apply bt_err; exact N.
    + destruct (fill s) as [s1|] eqn:Ef.
      * pose proof (fill_bt _ _ N Ef) as N1.
        destruct (rbuf s1) as [|b bs] eqn:Eb1.
        -- destruct (rerr s1) as [e|] eqn:Ee1; intros H; injection H as <- <-;
             [apply bt_err; exact N1|exact N1].
        -- intros H; injection H as <- <-. apply bt_buf; [exact N1|].
           destruct N1 as [N1 _]. rewrite Eb1 in N1. inversion N1; assumption.
      * intros H; injection H as <- <-. exact N.
  - intros H; injection H as <- <-. apply bt_buf; [exact N|].
    destruct N as [N _]. rewrite Eb in N. inversion N; assumption.
Qed.

Lemma peek_fill_bt fuel : forall s n s', bt s -> peek_fill fuel s n = Some s' -> bt s'.
Proof.
  induction fuel as [|f IH]; intros s n s' N; cbn [peek_fill].
  - intros H; injection H as <-. exact N.
  - destruct (_ && _ && _).
    + destruct (fill s) as [s1|] eqn:Ef; [|discriminate]. apply IH. eapply fill_bt; eassumption.
    + intros H; injection H as <-. exact N.
Qed.

Lemma peek_bt s n p e s' : bt s -> peek s n = ((p, e), s') -> bt s' /\ bytes p.
Proof.
  intros N. unfold peek.
  destruct (peek_fill (S (tape_weight (rtape s))) s n) as [s1|] eqn:E.
  - pose proof (peek_fill_bt _ _ _ _ N E) as N1.
    destruct (rcap s1 <? n); [intros H; injection H as <- _ <-; split; [exact N1|apply N1]|].
    destruct (len (rbuf s1) <? n).
    + destruct (rerr s1) as [x|] eqn:Ex; intros H; injection H as <- _ <-; (split; [exact N1|apply N1]).
    + intros H; injection H as <- _ <-. split; [exact N1|apply bytes_firstn, N1].
  - intros H; injection H as <- _ <-. split; [exact N|constructor].
Qed.

Lemma remlen_bt fuel : forall pause s shift size r s',
  bt s -> remlen_loop fuel pause s shift size = (r, s') -> bt s'.
Proof.
  induction fuel as [|f IH]; intros pause s shift size r s' N; cbn [remlen_loop].
  - intros H; injection H as _ <-. exact N.
  - set (s0 := if (len (rbuf s) =? 0) && pause then rst_arm s true else s).
    assert (N0 : bt s0) by (apply bt_arm_if; exact N).
    destruct (read_byte s0) as [[b|e] s1] eqn:E; pose proof (read_byte_bt _ _ _ N0 E) as N1.
    + destruct (b <? 128); [intros H; injection H as _ <-; exact N1|].
      destruct (21 <=? shift); [intros H; injection H as _ <-; exact N1|].
      apply IH. exact N1.
    + intros H; injection H as _ <-. exact N1.
Qed.

Definition res_ok (r : peek_result) : Prop :=
  match r with PkOk _ b => bytes b | PkBig _ _ p => bytes p | _ => True end.

Lemma slice_bt fuel : forall pause s head size lastN r s',
  bt s -> slice_loop fuel pause s head size lastN = (r, s') -> bt s' /\ res_ok r.
Proof.
  induction fuel as [|f IH]; intros pause s head size lastN r s' N; cbn [slice_loop].
  - intros H; injection H as <- <-. split; [exact N|exact I].
  - set (s0 := if (len (rbuf s) <? size) && pause then rst_arm s true else s).
    assert (N0 : bt s0) by (apply bt_arm_if; exact N).
    destruct (peek s0 _) as [[p e] s1] eqn:E. destruct (peek_bt _ _ _ _ _ N0 E) as [N1 Hp].
    destruct e as [e|].
    + destruct e; try (intros H; injection H as <- <-; (split; [exact N1|exact I])).
      destruct (lastN <? len p); [apply IH; exact N1|].
      intros H; injection H as <- <-. split; [exact N1|exact I].
    + destruct ((head / 16 =? 3) && _); intros H; injection H as <- <-; (split; [exact N1|exact Hp]).
Qed.

Lemma peek_packet_bt pause s r s' : bt s -> peek_packet pause s = (r, s') -> bt s' /\ res_ok r.
Proof.
  intros N. rewrite peek_packet_unfold.
  destruct (read_byte s) as [[b|e] s1] eqn:E; pose proof (read_byte_bt _ _ _ N E) as N1.
  - destruct (remlen_loop 5 pause s1 0 0) as [[size|[e proto]] s2] eqn:E2;
      pose proof (remlen_bt _ _ _ _ _ _ _ N1 E2) as N2.
    + destruct (slice_loop _ pause s2 b size 0) as [r3 s3] eqn:E3.
      destruct (slice_bt _ _ _ _ _ _ _ _ N2 E3) as [N3 Hr3].
      unfold fin_arm. destruct pause; cbn [fst snd]; intros H; injection H as <- <-;
        (split; [exact N3|exact Hr3]).
    + unfold fin_arm. destruct pause; cbn [fst snd]; intros H; injection H as <- <-;
        (split; [exact N2|exact I]).
  - destruct e; intros H; injection H as <- <-; (split; [exact N1|exact I]).
Qed.

Lemma bufio_discard_bt fuel : forall s remain done d e s',
  bt s -> bufio_discard fuel s remain done = ((d, e), s') -> bt s'.
Proof.
  induction fuel as [|f IH]; intros s remain done d e s' N; cbn [bufio_discard].
  - intros H; injection H as _ _ <-. exact N.
  - destruct (remain =? 0); [intros H; injection H as _ _ <-; exact N|].
    assert (S1 : forall s1, bt s1 ->
      (if remain - N.min (len (rbuf s1)) remain =? 0
       then ((done + N.min (len (rbuf s1)) remain, None),
             rst_with_buf s1 (skipn (N.to_nat (N.min (len (rbuf s1)) remain)) (rbuf s1)))
       else match rerr (rst_with_buf s1 (skipn (N.to_nat (N.min (len (rbuf s1)) remain)) (rbuf s1))) with
            | Some e0 => ((done + N.min (len (rbuf s1)) remain, Some (rerror_of e0)),
                          rst_with_err (rst_with_buf s1 (skipn (N.to_nat (N.min (len (rbuf s1)) remain)) (rbuf s1))) None)
            | None => bufio_discard f (rst_with_buf s1 (skipn (N.to_nat (N.min (len (rbuf s1)) remain)) (rbuf s1)))
                        (remain - N.min (len (rbuf s1)) remain) (done + N.min (len (rbuf s1)) remain)
            end) = ((d, e), s') -> bt s').
    { intros s1 N1.
      assert (N2 : bt (rst_with_buf s1 (skipn (N.to_nat (N.min (len (rbuf s1)) remain)) (rbuf s1))))
        by (apply bt_buf; [exact N1|apply bytes_skipn, N1]).
      destruct (_ =? 0); [intros H; injection H as _ _ <-; exact N2|].
      destruct (rerr _) as [x|] eqn:Ex.
      - intros H; injection H as _ _ <-. apply bt_err; exact N2.
      - apply IH. exact N2. }
    destruct (rbuf s) as [|x xs] eqn:Eb.
    + destruct (fill s) as [s1|] eqn:Ef.
      * apply S1. eapply fill_bt; eassumption.
      * intros H; injection H as _ _ <-. exact N.
    + apply S1. exact N.
Qed.

Lemma discard_loop_bt fuel : forall pause s n e s',
  bt s -> discard_loop fuel pause s n = (e, s') -> bt s'.
Proof.
  induction fuel as [|f IH]; intros pause s n e s' N; cbn [discard_loop].
  - intros H; injection H as _ <-. exact N.
  - set (s0 := if pause then rst_arm s true else s).
    assert (N0 : bt s0) by (apply bt_arm_if; exact N).
    destruct (bufio_discard _ s0 n 0) as [[d x] s1] eqn:E.
    pose proof (bufio_discard_bt _ _ _ _ _ _ _ N0 E) as N1.
    destruct x as [x|]; [|intros H; injection H as _ <-; exact N1].
    destruct x; try (intros H; injection H as _ <-; exact N1).
    destruct (d =? 0); [intros H; injection H as _ <-; exact N1|]. apply IH. exact N1.
Qed.

Lemma client_discard_bt pause s n e s' :
  bt s -> client_discard pause s n = (e, s') -> bt s'.
Proof.
  intros N. unfold client_discard.
  destruct (discard_loop _ pause s n) as [x s1] eqn:E.
  pose proof (discard_loop_bt _ _ _ _ _ _ N E) as N1.
  destruct pause; cbn [fst snd]; intros H; injection H as _ <-; exact N1.
Qed.

Lemma bufio_read_bt s want p e s' :
  bt s -> bufio_read s want = ((p, e), s') -> bt s'.
Proof.
  intros N. unfold bufio_read. destruct (rbuf s) as [|x xs] eqn:Eb.
  - destruct (rerr s) as [x|] eqn:Ex.
    + intros H; injection H as _ _ <-. apply bt_err; exact N.
    + destruct (rcap s <=? want).
      * destruct (conn_read s want) as [[a s1]|] eqn:E.
        -- destruct (conn_read_bt _ _ _ _ N E) as [Ha N1].
           destruct a; intros H; injection H as _ _ <-; exact N1.
        -- intros H; injection H as _ _ <-. exact N.
      * destruct (conn_read s (rcap s)) as [[a s1]|] eqn:E.
        -- destruct (conn_read_bt _ _ _ _ N E) as [Ha N1].
           destruct a; intros H; injection H as _ _ <-; try exact N1.
           apply bt_buf; [exact N1|apply bytes_skipn, Ha].
        -- intros H; injection H as _ _ <-. exact N.
  - intros H; injection H as _ _ <-. apply bt_buf; [exact N|]. apply bytes_skipn.
    rewrite <- Eb. apply N.
Qed.

Lemma read_all_loop_bt fuel : forall pause s remain acc r s',
  bt s -> read_all_loop fuel pause s remain acc = (r, s') -> bt s'.
Proof.
  induction fuel as [|f IH]; intros pause s remain acc r s' N; cbn [read_all_loop].
  - intros H; injection H as _ <-. exact N.
  - destruct (remain =? 0); [intros H; injection H as _ <-; exact N|].
    set (s0 := if (len (rbuf s) =? 0) && pause then rst_arm s true else s).
    assert (N0 : bt s0) by (apply bt_arm_if; exact N).
    destruct (bufio_read s0 remain) as [[bs e] s1] eqn:E.
    pose proof (bufio_read_bt _ _ _ _ _ N0 E) as N1.
    destruct e as [e|]; [|apply IH; exact N1].
    destruct (remain - len bs =? 0); intros H; injection H as _ <-; exact N1.
Qed.

Lemma read_all_bt pause s size r s' :
  bt s -> read_all pause s size = (r, s') -> bt s'.
Proof.
  intros N. unfold read_all.
  destruct (read_all_loop _ pause s size []) as [x s1] eqn:E.
  pose proof (read_all_loop_bt _ _ _ _ _ _ _ N E) as N1.
  destruct pause; cbn [fst snd]; intros H; injection H as _ <-; exact N1.
Qed.

Ltac bnv H :=
  let a := fresh "a" in let w1 := fresh "w" in let H1 := fresh H "a" in
  apply bind_inv in H; destruct H as (a & w1 & H1 & H).

(* ================================================================== *)
(* 4. Triples over the genuine store and the read tape                 *)

Definition hoare {A} (P : store -> list rans -> Prop) (f : M A) (Q : A -> store -> list rans -> Prop) : Prop :=
  forall w a w' m, w_store w = Some m -> P m (t_rd w) -> f w = Some (a, w') ->
    exists m', w_store w' = Some m' /\ Q a m' (t_rd w').

Lemma h_ret {A} (a : A) (P : store -> list rans -> Prop) (Q : A -> store -> list rans -> Prop) :
  (forall m t, P m t -> Q a m t) -> hoare P (ret a) Q.
Proof. intros H w b w' m Hm HP E. rinv E. subst. exists m. auto. Qed.
Lemma h_fail {A} (P : store -> list rans -> Prop) (Q : A -> store -> list rans -> Prop) : hoare P fail_tape Q.
Proof. intros w a w' m _ _ E. discriminate. Qed.
Lemma h_bind {A B} P (f : M A) (k : A -> M B) (R : A -> store -> list rans -> Prop) Q :
  hoare P f R -> (forall a, hoare (R a) (k a) Q) -> hoare P (bind f k) Q.
Proof.
  intros Hf Hk w b w' m Hm HP E. bnv E.
  destruct (Hf _ _ _ _ Hm HP Ea) as (m1 & Hm1 & HR). exact (Hk _ _ _ _ _ Hm1 HR E).
Qed.
Lemma h_conseq {A} (P P' : store -> list rans -> Prop) (f : M A) (Q Q' : A -> store -> list rans -> Prop) :
  hoare P f Q -> (forall m t, P' m t -> P m t) -> (forall a m t, Q a m t -> Q' a m t) -> hoare P' f Q'.
Proof.
  intros Hf H1 H2 w a w' m Hm HP E. destruct (Hf _ _ _ _ Hm (H1 _ _ HP) E) as (m' & Hm' & HQ).
  exists m'. auto.
Qed.
Lemma h_post {A} P (f : M A) (Q Q' : A -> store -> list rans -> Prop) :
  hoare P f Q -> (forall a m t, Q a m t -> Q' a m t) -> hoare P f Q'.
Proof. intros Hf H. eapply h_conseq; [exact Hf|auto|exact H]. Qed.
Lemma h_pre {A} (P P' : store -> list rans -> Prop) (f : M A) Q :
  (forall m t, P' m t -> P m t) -> hoare P f Q -> hoare P' f Q.
Proof. intros H Hf. eapply h_conseq; [exact Hf|exact H|auto]. Qed.
Lemma h_world {A X} (g : world -> X) (f : X -> M A) P Q :
  (forall n, hoare P (f n) Q) -> hoare P (fun w => f (g w) w) Q.
Proof. intros H w a w' m Hm HP E. exact (H _ _ _ _ _ Hm HP E). Qed.
Lemma h_pure {A} (X : Prop) (P : store -> list rans -> Prop) (f : M A) Q :
  (forall m t, P m t -> X) -> (X -> hoare P f Q) -> hoare P f Q.
Proof. intros HX H w a w' m Hm HP E. exact (H (HX _ _ HP) _ _ _ _ Hm HP E). Qed.
(* fix the initial store and tape *)
Definition at_ (m0 : store) (t0 : list rans) : store -> list rans -> Prop := fun m t => m = m0 /\ t = t0.
Lemma h_fix {A} (P : store -> list rans -> Prop) (f : M A) Q :
  (forall m0 t0, P m0 t0 -> hoare (at_ m0 t0) f Q) -> hoare P f Q.
Proof. intros H w a w' m Hm HP E. exact (H _ _ HP _ _ _ _ Hm (conj eq_refl eq_refl) E). Qed.

(* [qsat f Q]: f leaves the Persistence and the read tape alone and returns a value in Q *)
Definition qsat {A} (f : M A) (Q : A -> Prop) : Prop :=
  forall w a w', f w = Some (a, w') -> (w_store w' = w_store w /\ t_rd w' = t_rd w) /\ Q a.

Lemma qsat_ret {A} (a : A) (Q : A -> Prop) : Q a -> qsat (ret a) Q.
Proof. intros H w b w' E. rinv E. subst. auto. Qed.
Lemma qsat_fail {A} (Q : A -> Prop) : qsat fail_tape Q.
Proof. intros w a w' E. discriminate. Qed.
Lemma qsat_bind {A B} (f : M A) (k : A -> M B) (P : A -> Prop) (Q : B -> Prop) :
  qsat f P -> (forall a, P a -> qsat (k a) Q) -> qsat (bind f k) Q.
Proof.
  intros Hf Hk w b w' E. bnv E. destruct (Hf _ _ _ Ea) as [[S1 T1] HP].
  destruct (Hk _ HP _ _ _ E) as [[S2 T2] HQ]. split; [split; congruence|exact HQ].
Qed.
Lemma qsat_conseq {A} (f : M A) (P Q : A -> Prop) : qsat f P -> (forall a, P a -> Q a) -> qsat f Q.
Proof. intros Hf H w a w' E. destruct (Hf _ _ _ E). auto. Qed.
Lemma qsat_bind_any {A B} (f : M A) (k : A -> M B) (Q : B -> Prop) :
  qsat f any -> (forall a, qsat (k a) Q) -> qsat (bind f k) Q.
Proof. intros Hf Hk. eapply qsat_bind; [exact Hf|]. intros a _. apply Hk. Qed.

Lemma h_qsat {A} (f : M A) (R : A -> Prop) (P : store -> list rans -> Prop) :
  qsat f R -> hoare P f (fun a m t => P m t /\ R a).
Proof.
  intros Hf w a w' m Hm HP E. destruct (Hf _ _ _ E) as [[S T] HR]. exists m.
  rewrite S, T. auto.
Qed.

Lemma tell_q q : qsat (tell q) any.
Proof. intros w a w' E. inversion E; subst. cbn. split; [split; reflexivity|exact I]. Qed.
Lemma ask_dial_q : qsat ask_dial any.
Proof. intros w a w' E. unfold ask_dial in E. destruct (t_dial w); inversion E; subst. cbn. split; [split; reflexivity|exact I]. Qed.
Lemma conn_write_q c bufs single : qsat (conn_write c bufs single) any.
Proof.
  intros w a w' E. unfold conn_write in E.
  destruct (if single then _ else _) as [[calls r] t'].
  destruct r; inversion E; subst; cbn; (split; [split; reflexivity|exact I]).
Qed.
Lemma rugged_load_q k : qsat (rugged_load k) any.
Proof.
  intros w a w' E. apply rugged_load_frame in E. destruct E as (_ & _ & T & _ & S). split; [split; assumption|exact I].
Qed.

(* the Persistence in map mode *)
Lemma ask_store_map q w a w' m :
  w_store w = Some m -> ask_store q w = Some (a, w') ->
  t_rd w' = t_rd w /\
  ((a = SFail /\ w_store w' = Some m) \/
   match q with
   | QList => a = SKeys (map fst m) /\ w_store w' = Some m
   | QLoad k => a = SVal (store_get m k) /\ w_store w' = Some m
   | QSave k v => a = SDone /\ w_store w' = Some (store_put m k v)
   | QDelete k => a = SDone /\ w_store w' = Some (store_del m k)
   | _ => False
   end).
Proof.
  intros Hm. unfold ask_store. rewrite Hm.
  destruct (t_stf w) as [|[|] t]; [discriminate| |].
  - intros E. inversion E; subst. cbn. split; [reflexivity|]. left. auto.
  - destruct q; intros E; inversion E; subst; cbn; (split; [reflexivity|]); right; auto.
Qed.

Lemma h_ask_list (P : store -> list rans -> Prop) (Q : sans -> store -> list rans -> Prop) :
  (forall m t, P m t -> Q SFail m t /\ Q (SKeys (map fst m)) m t) -> hoare P (ask_store QList) Q.
Proof.
  intros H w a w' m Hm HP E. destruct (ask_store_map _ _ _ _ _ Hm E) as [T [[-> S]|[-> S]]];
    exists m; rewrite T; (split; [exact S|]); apply (H _ _ HP).
Qed.
Lemma h_ask_load k (P : store -> list rans -> Prop) (Q : sans -> store -> list rans -> Prop) :
  (forall m t, P m t -> Q SFail m t /\ Q (SVal (store_get m k)) m t) -> hoare P (ask_store (QLoad k)) Q.
Proof.
  intros H w a w' m Hm HP E. destruct (ask_store_map _ _ _ _ _ Hm E) as [T [[-> S]|[-> S]]];
    exists m; rewrite T; (split; [exact S|]); apply (H _ _ HP).
Qed.

Lemma h_load (k : N) (P : store -> list rans -> Prop)
  (Q : option (list N) + err -> store -> list rans -> Prop) :
  (forall m t, P m t ->
     (forall e, Q (inr e) m t) /\
     (store_get m k = None -> Q (inl None) m t) /\
     (forall p, store_get m k <> None -> Q (inl (Some p)) m t)) ->
  hoare P (rugged_load k) Q.
Proof.
  intros H. unfold rugged_load.
  eapply h_bind with (R := fun a m t => P m t /\ (a = SFail \/ a = SVal (store_get m k))); [apply h_ask_load|].
  - intros m t HP. split; [exact (conj HP (or_introl eq_refl))|exact (conj HP (or_intror eq_refl))].
  - intros a. cbv beta.
    destruct a as [ks|[raw|]| |]; try apply h_fail.
    + destruct (decode_value raw); apply h_ret; intros m t [HP [E|E]]; try discriminate;
        destruct (H _ _ HP) as (H1 & H2 & H3); try apply H1.
      apply H3. inversion E. congruence.
    + apply h_ret. intros m t [HP [E|E]]; [discriminate|]. apply (H _ _ HP). inversion E. auto.
    + apply h_ret. intros m t [HP _]. apply (H _ _ HP).
Qed.

Lemma h_save c k v (P : store -> list rans -> Prop) (Q : client * bool -> store -> list rans -> Prop) :
  (forall m t, P m t ->
     Q (c <| k_rseq := k_rseq c + 1 |>, true) (store_put m k (encode_value v (k_rseq c + 1))) t /\
     Q (c <| k_rseq := k_rseq c + 1 |>, false) m t) ->
  hoare P (rugged_save c k v) Q.
Proof.
  intros H w a w' m Hm HP E. unfold rugged_save in E. cbv zeta in E. bnv E.
  destruct (ask_store_map _ _ _ _ _ Hm Ea) as [T [[-> S]|[-> S]]]; rinv E; subst.
  - exists m. rewrite T. split; [exact S|apply (H _ _ HP)].
  - eexists. rewrite T. split; [exact S|apply (H _ _ HP)].
Qed.

Lemma h_delete k (P : store -> list rans -> Prop) (Q : bool -> store -> list rans -> Prop) :
  (forall m t, P m t -> Q true (store_del m k) t /\ Q false m t) -> hoare P (store_delete k) Q.
Proof.
  intros H w a w' m Hm HP E. unfold store_delete in E. bnv E.
  destruct (ask_store_map _ _ _ _ _ Hm Ea) as [T [[-> S]|[-> S]]]; rinv E; subst.
  - exists m. rewrite T. split; [exact S|apply (H _ _ HP)].
  - eexists. rewrite T. split; [exact S|apply (H _ _ HP)].
Qed.

Lemma h_with_reader {A} c (g : rst -> A * rst) (P : store -> list rans -> Prop)
  (Q : client * A -> store -> list rans -> Prop) :
  (forall s a s', rbuf s = k_rbuf c -> g s = (a, s') ->
     forall m, P m (rtape s) -> Q (rst_back c s', a) m (rtape s')) ->
  hoare P (with_reader c g) Q.
Proof.
  intros H w a w' m Hm HP E. unfold with_reader in E.
  destruct (g (rst_of c w)) as [x s] eqn:G. inversion E; subst. exists m. cbn.
  split; [exact Hm|]. apply (H (rst_of c w) x s); [reflexivity|exact G|exact HP].
Qed.

(* ================================================================== *)
(* 5. What the slim state sees of the client: pendingAck; and the read buffer *)

Definition vis (c : client) : list N * list N := (k_pack c, k_rbuf c).

Lemma vis_fold_left {X} (f : client -> X -> client) l :
  (forall c x, vis (f c x) = vis c) -> forall c, vis (fold_left f l c) = vis c.
Proof.
  intros H. induction l as [|x l IH]; intros c; cbn [fold_left]; [reflexivity|].
  rewrite IH. apply H.
Qed.
Lemma vis_lock_cleanup_run c l : vis (lock_cleanup_run c l) = vis c.
Proof. destruct l; reflexivity. Qed.
Lemma vis_release_locked c e : vis (release_locked c e) = vis c.
Proof.
  unfold release_locked. apply vis_fold_left. intros c' p.
  destruct (snd p); try reflexivity. apply (vis_lock_cleanup_run c' cl).
Qed.
Lemma vis_break_pending c : vis (break_pending c) = vis c.
Proof.
  unfold break_pending. cbv zeta.
  match goal with |- vis (?x <| k_txs := [] |>) = _ => change (vis x = vis c) end.
  rewrite vis_fold_left.
  - match goal with |- vis (?x <| k_ping := None |>) = _ => change (vis x = vis c) end.
    destruct (k_ping c); [|reflexivity]. destruct (parked_kind c n) as [[]|]; reflexivity.
  - intros c' t. destruct (parked_kind c' (snd (fst t))) as [[]|]; reflexivity.
Qed.
Lemma vis_xclose c x : vis (xclose c x) = vis c.
Proof. unfold xclose. destruct (x =? 0); reflexivity. Qed.
Lemma vis_xsend c x e : vis (xsend c x e) = vis c.
Proof. unfold xsend. destruct (x =? 0); reflexivity. Qed.
Lemma vis_term_callbacks c : vis (term_callbacks c) = vis c.
Proof. unfold term_callbacks. rewrite vis_break_pending. destruct (k_seqclosed c); reflexivity. Qed.
Lemma vis_on_suback c body : vis (fst (on_suback c body)) = vis c.
Proof.
  unfold on_suback. cbv zeta.
  repeat match goal with
  | |- vis (fst (if ?b then _ else _)) = _ => destruct b; [reflexivity|]
  end.
  destruct (tx_find c (u16 body)) as [[rid fso]|]; [|reflexivity].
  destruct (negb (_ =? _)%nat).
  - cbn [fst]. destruct (match parked_kind _ _ with Some (PkSub _) => true | _ => false end); reflexivity.
  - destruct (failed_filters _ _); cbn [fst];
      destruct (match parked_kind _ _ with Some (PkSub _) => true | _ => false end); reflexivity.
Qed.
Lemma vis_on_unsuback c body : vis (fst (on_unsuback c body)) = vis c.
Proof.
  unfold on_unsuback. cbv zeta.
  repeat match goal with
  | |- vis (fst (if ?b then _ else _)) = _ => destruct b; [reflexivity|]
  end.
  destruct (tx_find c (u16 body)) as [[rid fso]|]; [|reflexivity].
  destruct (parked_kind _ _) as [[]|]; reflexivity.
Qed.
Lemma vis_on_pingresp c body : vis (fst (on_pingresp c body)) = vis c.
Proof.
  unfold on_pingresp. destruct (negb _); [reflexivity|].
  destruct (k_ping c); [|reflexivity]. cbv zeta.
  destruct (parked_kind _ _) as [[]|]; reflexivity.
Qed.
Lemma vis_tx_pick fuel space : forall c, vis (fst (tx_pick fuel c space)) = vis c.
Proof.
  induction fuel as [|f IH]; intros c; cbn [tx_pick]; [reflexivity|]. cbv zeta.
  destruct (existsb _ _); [|reflexivity]. rewrite IH. reflexivity.
Qed.
Lemma vis_op_read_backoff c e : vis (fst (op_read_backoff c e)) = vis c.
Proof.
  unfold op_read_backoff.
  destruct (_ || _); [reflexivity|]. destruct (N.testbit e 1); [reflexivity|].
  destruct (k_rconn c); [reflexivity|]. destruct (N.testbit e 10); reflexivity.
Qed.

Definition vs {A} (c : client) (p : client * A) : Prop := vis (fst p) = vis c.

Lemma locked_write_q c cn bufs single : qsat (locked_write c cn bufs single) (vs c).
Proof.
  unfold locked_write. apply qsat_bind_any; [apply conn_write_q|]. intros r.
  destruct r; try (apply qsat_ret; reflexivity);
    (apply qsat_bind_any; [first [apply tell_q | apply qsat_ret; exact I]|]);
    intros _; apply qsat_ret; reflexivity.
Qed.
Lemma nowait_write_q c bufs single : qsat (nowait_write c bufs single) (vs c).
Proof.
  unfold nowait_write. destruct (k_wsem c); try (apply qsat_ret; reflexivity).
  apply locked_write_q.
Qed.
Lemma op_write_q c bufs single : qsat (op_write c bufs single) (vs c).
Proof.
  unfold op_write. destruct (k_wsem c); try (apply qsat_ret; reflexivity).
  eapply qsat_bind; [apply locked_write_q|]. intros [c1 e] H. apply qsat_ret. exact H.
Qed.

(* toOffline keeps pendingAck; the read buffer is dropped *)
Lemma krb_break_pending c : k_rbuf (break_pending c) = k_rbuf c.
Proof. exact (f_equal snd (vis_break_pending c)). Qed.

Lemma to_offline_q c :
  qsat (to_offline c) (fun c' => k_pack c' = k_pack c /\ (k_rbuf c' = k_rbuf c \/ k_rbuf c' = [])).
Proof.
  unfold to_offline. destruct (k_wsem c);
    try (apply qsat_bind_any; [apply tell_q|]; intros _; apply qsat_ret;
         rewrite kp_break_pending, krb_break_pending; split; [reflexivity|right; reflexivity]).
  apply qsat_bind_any; [apply tell_q|]. intros _. apply qsat_ret. split; [reflexivity | left; reflexivity].
Qed.

Lemma resend_q fuel cn space : forall seqno acc subm,
  qsat (Session.resend fuel cn space seqno acc subm) any.
Proof.
  induction fuel as [|f IH]; intros seqno acc subm; cbn [Session.resend].
  - apply qsat_ret. exact I.
  - destruct (acc <=? seqno); [apply qsat_ret; exact I|]. cbv zeta.
    apply qsat_bind_any; [apply rugged_load_q|]. intros l.
    destruct l as [[[|h body]|]|e]; try (apply qsat_ret; exact I).
    apply qsat_bind_any; [apply conn_write_q|]. intros r.
    destruct r; try (apply qsat_ret; exact I). apply IH.
Qed.

Lemma op_publish_q c retain msg topic : qsat (op_publish c retain msg topic) (vs c).
Proof.
  unfold op_publish. cbv zeta.
  destruct (deny_of _); [apply qsat_ret; reflexivity|].
  destruct (packet_max <? _); [apply qsat_ret; reflexivity|].
  eapply qsat_bind; [apply op_write_q|]. intros [c1 r] E.
  destruct r; apply qsat_ret; exact E.
Qed.

Lemma op_subscribe_q c sub level fs : qsat (op_subscribe c sub level fs) (vs c).
Proof.
  unfold op_subscribe. cbv zeta.
  destruct fs as [|f0 fs0]; [apply qsat_ret; reflexivity|].
  set (fs := f0 :: fs0). clearbody fs.
  destruct (any_denied fs); [apply qsat_ret; reflexivity|].
  destruct (packet_max <? _); [apply qsat_ret; reflexivity|].
  destruct (511 <? _); [apply qsat_ret; reflexivity|].
  pose proof (vis_tx_pick 1024 (if sub then sub_space else unsub_space) (c <| k_nextr ::= N.succ |>)) as T.
  destruct (tx_pick 1024 _ _) as [c1 pid]. cbn [fst] in T. change (vis c1 = vis c) in T.
  eapply qsat_bind; [apply op_write_q|]. intros [c2 r] E. unfold vs in E. cbn [fst] in E.
  change (vis c2 = vis c1) in E. rewrite T in E.
  destruct r as [e|]; [destruct (e =? 0)|]; apply qsat_ret; exact E.
Qed.

Lemma op_ping_q c : qsat (op_ping c) (vs c).
Proof.
  unfold op_ping. cbv zeta. change (k_ping (c <| k_nextr ::= N.succ |>)) with (k_ping c).
  destruct (k_ping c); [apply qsat_ret; reflexivity|].
  eapply qsat_bind; [apply op_write_q|]. intros [c2 r] E.
  destruct r as [e|]; [destruct (e =? 0)|]; apply qsat_ret; exact E.
Qed.

Lemma op_quit_q c rid : qsat (op_quit c rid) (vs c).
Proof.
  unfold op_quit. destruct (parked_kind c rid) as [[l|pid|pid|]|]; try (apply qsat_ret; reflexivity).
  - apply qsat_ret. unfold vs. cbn [fst]. apply (vis_lock_cleanup_run c l).
  - destruct (k_ping c); [destruct (_ =? _)|]; apply qsat_ret; reflexivity.
Qed.

Lemma op_close_q c : qsat (op_close c) (vs c).
Proof.
  unfold op_close. destruct (k_closed c); [apply qsat_ret; reflexivity|].
  apply qsat_bind_any.
  { destruct (k_wsem c); first [apply tell_q|apply qsat_ret; exact I]. }
  intros _. apply qsat_ret. unfold vs. cbn [fst]. rewrite vis_release_locked. reflexivity.
Qed.

Lemma op_disconnect_q c : qsat (op_disconnect c) (vs c).
Proof.
  unfold op_disconnect. destruct (k_closed c); [apply qsat_ret; reflexivity|].
  destruct (k_wsem c);
    try (apply qsat_ret; unfold vs; cbn [fst]; rewrite vis_release_locked; reflexivity).
  apply qsat_bind_any; [apply conn_write_q|]. intros r.
  apply qsat_bind_any; [apply tell_q|]. intros _.
  apply qsat_ret. unfold vs. cbn [fst]. rewrite vis_release_locked. reflexivity.
Qed.

(* ================================================================== *)
(* 6. The invariant carried through a step                             *)

Definition Inv (s0 : sl) (p rb : list N) (m : store) (t : list rans) : Prop :=
  sorted_keys m /\ mdec m /\ islim_steps s0 (marks m, owed p) /\ bytes rb /\ tape_ok t.
Definition CI (s0 : sl) (c : client) : store -> list rans -> Prop := Inv s0 (k_pack c) (k_rbuf c).

Lemma CI_vis s0 c c' m t : vis c' = vis c -> CI s0 c m t -> CI s0 c' m t.
Proof. unfold CI, vis. intros E. inversion E as [[E1 E2]]. rewrite E1, E2. auto. Qed.

Lemma Inv_rb s0 p rb rb' m t : bytes rb' -> Inv s0 p rb m t -> Inv s0 p rb' m t.
Proof. intros Hb (A & B & C & _ & E). repeat split; assumption. Qed.
Lemma Inv_owed s0 p p' rb m t : owed p' = owed p -> Inv s0 p rb m t -> Inv s0 p' rb m t.
Proof. intros Ho (A & B & C & D & E). rewrite <- Ho in C. repeat split; assumption. Qed.

(* a labelled step of the slim receiver, up to the representation of the marker set; None: no step *)
Definition lstep (ok : option clab) (s s' : sl) : Prop :=
  match ok with
  | None => sl_eq s s'
  | Some k => exists s1, cstep_in k s s1 /\ sl_eq s1 s'
  end.

Lemma lstep_steps ok s s' : lstep ok s s' -> islim_steps s s'.
Proof.
  destruct ok as [k|]; cbn [lstep].
  - intros (s1 & H1 & H2). eapply iss_trans; [eapply iss_step; exact H1|apply iss_eq, H2].
  - apply iss_eq.
Qed.

Lemma Inv_lstep s0 p rb m t ok p' m' :
  Inv s0 p rb m t -> lstep ok (marks m, owed p) (marks m', owed p') -> sorted_keys m' -> mdec m' ->
  Inv s0 p' rb m' t.
Proof.
  intros (A & B & C & D & E) L A' B'. repeat split; try assumption.
  eapply iss_trans; [exact C|]. eapply lstep_steps, L.
Qed.

Lemma small_not_marker k : k < 65536 -> N.testbit k 16 = false.
Proof.
  intros H. destruct (N.testbit k 16) eqn:E; [|reflexivity]. apply marker_ge in E. lia.
Qed.

(* ================================================================== *)
(* 7. The packet handlers, one by one                                  *)

Definition okst (m0 m : store) : Prop := sorted_keys m /\ (mdec m0 -> mdec m).
Lemma okst_refl m : sorted_keys m -> okst m m.
Proof. intros H. split; auto. Qed.

Lemma rugged_load_spec k m0 t0 :
  hoare (at_ m0 t0) (rugged_load k) (fun l m t => m = m0 /\ t = t0 /\
    match l with
    | inl None => store_get m0 k = None
    | inl (Some _) => store_get m0 k <> None
    | inr _ => True
    end).
Proof. apply h_load. intros m t [-> ->]. repeat split; auto. Qed.

(* (i) on_publish *)
Definition pubq (c : client) (head : N) (body : list N) (m0 : store) (t0 : list rans)
           (p : client * hres) (m : store) (t : list rans) : Prop :=
  m = m0 /\ t = t0 /\ k_rbuf (fst p) = k_rbuf c /\
  let id := publish_id body in
  match snd p with
  | HOk => False
  | HErr _ => fst p = c
  | HMsg _ _ =>
    (publish_qos head = 2 /\ id < 65536 /\ k_pack (fst p) = packet_pubrec id /\ ~ In id (marks m0) /\
     cstep_in (KDeliver id) (islim c m0) (islim (fst p) m0))
    \/ (publish_qos head <> 2 /\ owed (k_pack (fst p)) = None)
  | HDupe => publish_qos head = 2 /\ id < 65536 /\ k_pack (fst p) = packet_pubrec id /\ In id (marks m0) /\
             cstep_in (KDupeFail id) (islim c m0) (islim (fst p) m0)
  end.

Lemma on_publish_spec c head body m0 t0 : bytes body -> k_pack c = [] ->
  hoare (at_ m0 t0) (on_publish c head body) (pubq c head body m0 t0).
Proof.
  intros Hb Hk w [c' r] w' m Hm [E1 E2] E. subst m0 t0. pose proof (publish_id_lt _ Hb) as Hid.
  pose proof E as E0. apply on_publish_no_write in E0. destruct E0 as (_ & _ & T & _ & S).
  exists m. split; [congruence|]. unfold pubq. cbn [fst snd].
  split; [reflexivity|]. split; [exact T|].
  apply on_publish_cases in E. destruct E.
  - auto.
  - split; [reflexivity|]. right. split; [congruence|]. rewrite Hk. reflexivity.
  - auto.
  - split; [reflexivity|]. right. split; [congruence|]. reflexivity.
  - destruct (rugged_load_spec _ m (t_rd w) _ _ _ _ Hm (conj eq_refl eq_refl) H1) as (m1 & Hm1 & -> & _ & L).
    destruct l as [o|e].
    + destruct H2 as [(K & -> & ->)|(K & -> & ->)]; [auto|]. split; [reflexivity|].
      assert (Ein : In (publish_id body) (marks m) <->
                    store_get m (N.lor (publish_id body) remote_flag) <> None).
      { rewrite <- in_marks_id, nid_small by exact Hid. reflexivity. }
      destruct o as [x|].
      * split; [assumption|]. split; [exact Hid|]. split; [reflexivity|].
        assert (Hin : In (publish_id body) (marks m)) by (apply Ein, L).
        split; [exact Hin|]. unfold islim. rewrite Hk.
        change (k_pack (c <| k_pack := packet_pubrec (publish_id body) |>)) with (packet_pubrec (publish_id body)).
        rewrite owed_pubrec by exact Hid.
        apply C_dupe_fail. exact Hin.
      * left. split; [assumption|]. split; [exact Hid|]. split; [reflexivity|].
        assert (Hni : ~ In (publish_id body) (marks m)) by (rewrite Ein; intros N; apply N, L).
        split; [exact Hni|]. unfold islim. rewrite Hk.
        change (k_pack (c <| k_pack := packet_pubrec (publish_id body) |>)) with (packet_pubrec (publish_id body)).
        rewrite owed_pubrec by exact Hid.
        apply C_deliver. exact Hni.
    + destruct H2 as [-> ->]. auto.
Qed.

(* control packets that are none of the receiver's business: PUBACK, PUBCOMP, SUBACK, UNSUBACK,
   PINGRESP never touch a marker nor pendingAck *)
Definition ctlq (c : client) (m0 : store) (t0 : list rans)
           (p : client * hres) (m : store) (t : list rans) : Prop :=
  t = t0 /\ vis (fst p) = vis c /\ ctl_res (snd p) /\ okst m0 m /\ meq (marks m) (marks m0).

Lemma ctlq_err c m0 t0 e : sorted_keys m0 -> hoare (at_ m0 t0) (ret (c, HErr e)) (ctlq c m0 t0).
Proof.
  intros Hs. apply h_ret. intros m t [-> ->]. unfold ctlq. cbn [fst snd].
  repeat split; auto using meq_refl.
Qed.

Lemma ctlq_pure c m0 t0 (p : client * hres) : sorted_keys m0 ->
  vis (fst p) = vis c -> ctl_res (snd p) -> hoare (at_ m0 t0) (ret p) (ctlq c m0 t0).
Proof.
  intros Hs V R. apply h_ret. intros m t [-> ->]. unfold ctlq. repeat split; auto using meq_refl.
Qed.

Lemma on_puback_spec c body m0 t0 : sorted_keys m0 ->
  hoare (at_ m0 t0) (on_puback c body) (ctlq c m0 t0).
Proof.
  intros Hs. unfold on_puback. cbv zeta.
  destruct (negb (len body =? 2)); [apply ctlq_err, Hs|].
  destruct (u16 body =? 0); [apply ctlq_err, Hs|].
  destruct (negb (u16 body - N.land (u16 body) id_mask =? alo_space)) eqn:Sp; [apply ctlq_err, Hs|].
  destruct (negb (_ =? u16 body)); [apply ctlq_err, Hs|].
  destruct (k_q1 c) as [|x q]; [apply ctlq_err, Hs|].
  assert (Hnm : N.testbit (u16 body) 16 = false).
  { apply small_not_marker. apply negb_false_iff, N.eqb_eq in Sp.
    change (in_space (u16 body) alo_space) in Sp. apply in_alo_range in Sp. lia. }
  eapply h_bind;
    [apply h_delete with (Q := fun (ok : bool) m t => t = t0 /\ m = if ok then store_del m0 (u16 body) else m0)|].
  { intros m t [-> ->]. auto. }
  intros ok. destruct ok; cbn [negb]; apply h_ret; intros m t [-> ->]; unfold ctlq; cbn [fst snd].
  - split; [reflexivity|]. split; [rewrite vis_xclose; reflexivity|]. split; [exact I|].
    split; [split; [apply sorted_keys_del, Hs|intros; apply mdec_del; assumption]|].
    apply marks_del_other; assumption.
  - repeat split; auto using meq_refl.
Qed.

Lemma on_pubcomp_spec c body m0 t0 : sorted_keys m0 ->
  hoare (at_ m0 t0) (on_pubcomp c body) (ctlq c m0 t0).
Proof.
  intros Hs. unfold on_pubcomp. cbv zeta.
  destruct (negb (len body =? 2)); [apply ctlq_err, Hs|].
  destruct (u16 body =? 0); [apply ctlq_err, Hs|].
  destruct (negb (u16 body - N.land (u16 body) id_mask =? eo_space)) eqn:Sp; [apply ctlq_err, Hs|].
  destruct (negb (_ =? u16 body)); [apply ctlq_err, Hs|].
  destruct (k_recvd c <=? k_compl c); [apply ctlq_err, Hs|].
  destruct (k_q2 c) as [|x q]; [apply ctlq_err, Hs|].
  assert (Hnm : N.testbit (u16 body) 16 = false).
  { apply small_not_marker. apply negb_false_iff, N.eqb_eq in Sp.
    change (in_space (u16 body) eo_space) in Sp. apply in_eo_range in Sp. lia. }
  eapply h_bind;
    [apply h_delete with (Q := fun (ok : bool) m t => t = t0 /\ m = if ok then store_del m0 (u16 body) else m0)|].
  { intros m t [-> ->]. auto. }
  intros ok. destruct ok; cbn [negb]; apply h_ret; intros m t [-> ->]; unfold ctlq; cbn [fst snd].
  - split; [reflexivity|]. split; [rewrite vis_xclose; reflexivity|]. split; [exact I|].
    split; [split; [apply sorted_keys_del, Hs|intros; apply mdec_del; assumption]|].
    apply marks_del_other; assumption.
  - repeat split; auto using meq_refl.
Qed.

(* PUBREC (sending side): the PUBREL is saved under the packet identifier (no marker) and kept in
   pendingAck when its write fails; pendingAck is overwritten: only ever called with it empty *)
Definition recq (c : client) (m0 : store) (t0 : list rans)
           (p : client * hres) (m : store) (t : list rans) : Prop :=
  t = t0 /\ k_rbuf (fst p) = k_rbuf c /\ okst m0 m /\ meq (marks m) (marks m0) /\
  match snd p with
  | HOk => k_pack (fst p) = []
  | HErr _ => k_pack (fst p) = k_pack c \/ owed (k_pack (fst p)) = None
  | _ => False
  end.

Lemma recq_err c m0 t0 e : sorted_keys m0 -> hoare (at_ m0 t0) (ret (c, HErr e)) (recq c m0 t0).
Proof.
  intros Hs. apply h_ret. intros m t [-> ->]. unfold recq. cbn [fst snd].
  repeat split; auto using meq_refl.
Qed.

Lemma on_pubrec_spec c body m0 t0 : sorted_keys m0 ->
  hoare (at_ m0 t0) (on_pubrec c body) (recq c m0 t0).
Proof.
  intros Hs. unfold on_pubrec. cbv zeta.
  destruct (negb (len body =? 2)); [apply recq_err, Hs|].
  destruct (u16 body =? 0); [apply recq_err, Hs|].
  destruct (negb (u16 body - N.land (u16 body) id_mask =? eo_space)) eqn:Sp; [apply recq_err, Hs|].
  destruct (negb (_ =? u16 body)); [apply recq_err, Hs|].
  destruct (len (k_q2 c) <=? _); [apply recq_err, Hs|].
  assert (Hnm : N.testbit (u16 body) 16 = false).
  { apply small_not_marker. apply negb_false_iff, N.eqb_eq in Sp.
    change (in_space (u16 body) eo_space) in Sp. apply in_eo_range in Sp. lia. }
  set (c1 := c <| k_pack := packet_pubrel (u16 body) |>).
  eapply h_bind;
    [apply h_save with (Q := fun (p : client * bool) m t => t = t0 /\ fst p = c1 <| k_rseq := k_rseq c1 + 1 |> /\
        m = if snd p then store_put m0 (u16 body) (encode_value (k_pack c1) (k_rseq c1 + 1)) else m0)|].
  { intros m t [-> ->]. cbn [fst snd]. auto. }
  intros [c2 ok]. apply h_pure with (X := c2 = c1 <| k_rseq := k_rseq c1 + 1 |>).
  { intros m t (_ & E & _). exact E. }
  intros ->. destruct ok; cbn [negb snd].
  - eapply h_bind; [apply h_qsat, nowait_write_q|]. intros [c3 e]. cbv beta.
    destruct (negb (e =? 0)); apply h_ret; intros m t [(-> & _ & ->) V]; unfold vs, vis in V;
      cbn [fst snd] in V; inversion V as [[V1 V2]]; unfold recq; cbn [fst snd].
    + split; [reflexivity|]. split; [exact V2|].
      split; [split; [apply sorted_keys_put, Hs|intros; apply mdec_put_other; assumption]|].
      split; [apply marks_put_other, Hnm|]. right. rewrite V1. reflexivity.
    + split; [reflexivity|]. split; [exact V2|].
      split; [split; [apply sorted_keys_put, Hs|intros; apply mdec_put_other; assumption]|].
      split; [apply marks_put_other, Hnm|]. reflexivity.
  - apply h_ret. intros m t (-> & _ & ->). unfold recq. cbn [fst snd].
    repeat split; auto using meq_refl.
Qed.

(* (iii) on_pubrel *)
Definition relq (c : client) (body : list N) (m0 : store) (t0 : list rans)
           (p : client * hres) (m : store) (t : list rans) : Prop :=
  t = t0 /\ k_rbuf (fst p) = k_rbuf c /\ okst m0 m /\
  let id := u16 body in
  match snd p with
  | HOk => k_pack (fst p) = [] /\ m = store_del m0 (N.lor id remote_flag) /\
           lstep (Some (KPubrel id)) (islim c m0) (islim (fst p) m)
  | HErr _ => (fst p = c /\ m = m0) \/
              (k_pack (fst p) = packet_pubcomp id /\ m = store_del m0 (N.lor id remote_flag) /\
               lstep (Some (KPubrelFail id)) (islim c m0) (islim (fst p) m))
  | _ => False
  end.

Lemma relq_err c body m0 t0 e : sorted_keys m0 ->
  hoare (at_ m0 t0) (ret (c, HErr e)) (relq c body m0 t0).
Proof.
  intros Hs. apply h_ret. intros m t [-> ->]. unfold relq. cbn [fst snd].
  repeat split; auto using okst_refl.
Qed.

Lemma on_pubrel_spec c body m0 t0 : sorted_keys m0 -> bytes body -> k_pack c = [] ->
  hoare (at_ m0 t0) (on_pubrel c body) (relq c body m0 t0).
Proof.
  intros Hs Hb Hk. unfold on_pubrel. cbv zeta. pose proof (u16_lt _ Hb) as Hid.
  destruct (negb (len body =? 2)); [apply relq_err, Hs|].
  destruct (u16 body =? 0); [apply relq_err, Hs|].
  set (K := N.lor (u16 body) remote_flag).
  assert (HK : N.testbit K 16 = true) by apply remote_key_bit.
  assert (EK : K - 65536 = u16 body).
  { unfold K. rewrite lor_flag_small by exact Hid. lia. }
  eapply h_bind;
    [apply h_delete with (Q := fun (ok : bool) m t => t = t0 /\ m = if ok then store_del m0 K else m0)|].
  { intros m t [-> ->]. auto. }
  intros ok. destruct ok; cbn [negb].
  2:{ apply h_ret. intros m t [-> ->]. unfold relq. cbn [fst snd]. repeat split; auto using okst_refl. }
  rewrite Hk. change (negb (len [] =? 0)) with false. cbv iota.
  set (c1 := c <| k_pack := packet_pubcomp (u16 body) |>).
  eapply h_bind; [apply h_qsat, nowait_write_q|]. intros [c3 e]. cbv beta.
  assert (OK : okst m0 (store_del m0 K)).
  { split; [apply sorted_keys_del, Hs|intros; apply mdec_del; assumption]. }
  pose proof (marks_del_marker m0 K Hs HK) as MD. rewrite EK in MD.
  destruct (negb (e =? 0)); apply h_ret; intros m t [[-> ->] V]; unfold vs, vis in V;
    cbn [fst snd] in V; inversion V as [[V1 V2]]; unfold relq; cbn [fst snd].
  - split; [reflexivity|]. split; [exact V2|]. split; [exact OK|]. right.
    split; [exact V1|]. split; [reflexivity|]. unfold islim. rewrite Hk, V1. cbn [lstep].
    rewrite owed_pubcomp by exact Hid.
    eexists. split; [apply C_pubrel_fail|]. split; [apply meq_sym, MD|reflexivity].
  - split; [reflexivity|]. split; [exact V2|]. split; [exact OK|].
    split; [reflexivity|]. split; [reflexivity|]. unfold islim. rewrite Hk. cbn [lstep k_pack owed].
    eexists. split; [apply C_pubrel|]. split; [apply meq_sym, MD|reflexivity].
Qed.

(* dispatch: what the read loop needs to go on *)
Definition dq (c : client) (m0 : store) (t0 : list rans)
           (p : client * hres) (m : store) (t : list rans) : Prop :=
  t = t0 /\ k_rbuf (fst p) = k_rbuf c /\ okst m0 m /\
  match snd p with
  | HOk => k_pack (fst p) = [] /\ exists ok, lstep ok (islim c m0) (islim (fst p) m)
  | HErr _ | HMsg _ _ => exists ok, lstep ok (islim c m0) (islim (fst p) m)
  | HDupe => m = m0 /\ exists id, id < 65536 /\ k_pack (fst p) = packet_pubrec id /\ In id (marks m0)
  end.

Lemma lstep_cstep k s s' : cstep_in k s s' -> lstep (Some k) s s'.
Proof. intros H. exists s'. split; [exact H|apply sl_eq_refl]. Qed.

Lemma pubq_dq c head body m0 t0 p m t : sorted_keys m0 -> k_pack c = [] ->
  pubq c head body m0 t0 p m t -> dq c m0 t0 p m t.
Proof.
  intros Hs Hk (-> & -> & Rb & H). unfold dq. split; [reflexivity|]. split; [exact Rb|].
  split; [apply okst_refl, Hs|]. cbv zeta in H. destruct (snd p).
  - contradiction.
  - rewrite H. exists None. apply sl_eq_refl.
  - destruct H as [(_ & _ & _ & _ & H)|(_ & H)].
    + exists (Some (KDeliver (publish_id body))). apply lstep_cstep, H.
    + exists None. unfold islim. rewrite Hk, H. apply sl_eq_refl.
  - destruct H as (_ & Hid & E & Hin & _). split; [reflexivity|]. eauto.
Qed.

Lemma ctlq_dq c m0 t0 p m t : k_pack c = [] -> ctlq c m0 t0 p m t -> dq c m0 t0 p m t.
Proof.
  intros Hk (-> & V & R & OK & ME). unfold vis in V. inversion V as [[V1 V2]].
  unfold dq. split; [reflexivity|]. split; [exact V2|]. split; [exact OK|].
  assert (L : lstep None (islim c m0) (islim (fst p) m)).
  { unfold islim. rewrite V1. split; [apply meq_sym, ME|reflexivity]. }
  destruct (snd p); try contradiction.
  - split; [congruence|]. exists None. exact L.
  - exists None. exact L.
Qed.

Lemma recq_dq c m0 t0 p m t : k_pack c = [] -> recq c m0 t0 p m t -> dq c m0 t0 p m t.
Proof.
  intros Hk (-> & Rb & OK & ME & H). unfold dq. split; [reflexivity|]. split; [exact Rb|].
  split; [exact OK|].
  destruct (snd p); try contradiction.
  - split; [exact H|]. exists None. unfold islim. rewrite Hk, H. split; [apply meq_sym, ME|reflexivity].
  - exists None. unfold islim. rewrite Hk. split; [apply meq_sym, ME|]. cbn [snd owed].
    destruct H as [H|H]; [rewrite H, Hk; reflexivity|symmetry; exact H].
Qed.

Lemma relq_dq c body m0 t0 p m t : sorted_keys m0 ->
  relq c body m0 t0 p m t -> dq c m0 t0 p m t.
Proof.
  intros Hs (-> & Rb & OK & H). unfold dq. split; [reflexivity|]. split; [exact Rb|].
  split; [exact OK|]. cbv zeta in H.
  destruct (snd p); try contradiction.
  - destruct H as (K & _ & L). split; [exact K|]. eauto.
  - destruct H as [[-> ->]|(_ & _ & L)]; [exists None; apply sl_eq_refl|eauto].
Qed.

Lemma dispatch_spec c head body m0 t0 : sorted_keys m0 -> bytes body -> k_pack c = [] ->
  hoare (at_ m0 t0) (dispatch c head body) (dq c m0 t0).
Proof.
  intros Hs Hb Hk. unfold dispatch.
  repeat match goal with
  | |- context [match ?x with _ => _ end] => is_var x; destruct x
  | |- context [match head / 16 with _ => _ end] => destruct (head / 16)
  end;
  first [ eapply h_post; [apply on_publish_spec; assumption|]; intros pp mm tt; apply pubq_dq; assumption
        | eapply h_post; [apply on_puback_spec; assumption|]; intros pp mm tt; apply ctlq_dq; assumption
        | eapply h_post; [apply on_pubcomp_spec; assumption|]; intros pp mm tt; apply ctlq_dq; assumption
        | eapply h_post; [apply on_pubrec_spec; assumption|]; intros pp mm tt; apply recq_dq; assumption
        | eapply h_post; [apply on_pubrel_spec; assumption|]; intros pp mm tt; apply relq_dq; assumption
        | eapply h_post; [apply ctlq_pure; [assumption|apply vis_on_suback|apply ctl_on_suback]|];
          intros pp mm tt; apply ctlq_dq; assumption
        | eapply h_post; [apply ctlq_pure; [assumption|apply vis_on_unsuback|apply ctl_on_unsuback]|];
          intros pp mm tt; apply ctlq_dq; assumption
        | eapply h_post; [apply ctlq_pure; [assumption|apply vis_on_pingresp|apply ctl_on_pingresp]|];
          intros pp mm tt; apply ctlq_dq; assumption
        | eapply h_post; [apply ctlq_err; assumption|]; intros pp mm tt; apply ctlq_dq; assumption ].
Qed.

(* ================================================================== *)
(* 8. toOffline, connect                                               *)

Lemma Inv_upd s0 p rb m t rb' t' : Inv s0 p rb m t -> bytes rb' -> tape_ok t' -> Inv s0 p rb' m t'.
Proof. intros (A & B & C & _ & _) Hb Ht. repeat split; assumption. Qed.

Lemma CI_upd s0 c c' m t : k_pack c' = k_pack c -> bytes (k_rbuf c') -> CI s0 c m t -> CI s0 c' m t.
Proof.
  unfold CI. intros E Hb H. rewrite E. eapply Inv_upd; [exact H|exact Hb|apply H].
Qed.
Lemma CI_bytes s0 c m t : CI s0 c m t -> bytes (k_rbuf c).
Proof. intros H. apply H. Qed.
Lemma CI_tape s0 c m t : CI s0 c m t -> tape_ok t.
Proof. intros H. apply H. Qed.

Lemma CI_vis_kp s0 c c' m t : vis c' = vis c -> CI s0 c m t -> k_pack c' = k_pack c /\ CI s0 c' m t.
Proof.
  intros V H. split; [exact (f_equal fst V)|]. eapply CI_vis; eassumption.
Qed.

Definition kci (s0 : sl) (c : client) {A} (p : client * A) (m : store) (t : list rans) : Prop :=
  k_pack (fst p) = k_pack c /\ CI s0 (fst p) m t.

Lemma to_offline_tie s0 c :
  hoare (CI s0 c) (to_offline c) (fun c' m t => k_pack c' = k_pack c /\ CI s0 c' m t).
Proof.
  eapply h_post; [apply h_qsat, to_offline_q|]. intros c' m t [H [K R]]. split; [exact K|].
  apply (CI_upd s0 c); [exact K| |exact H].
  destruct R as [-> | ->]; [eapply CI_bytes; exact H|apply bytes_nil].
Qed.

Lemma off_ret_tie {A} s0 c (r : A) :
  hoare (CI s0 c) (bind (to_offline c) (fun c => ret (c, r))) (fun p => CI s0 (fst p)).
Proof.
  eapply h_bind; [apply to_offline_tie|]. intros c'. apply h_ret. intros m t [_ H]. exact H.
Qed.

Lemma reader_tie {A} s0 c0 c (g : rst -> A * rst) (ok : A -> Prop) :
  k_pack c = k_pack c0 ->
  (forall s a s', bt s -> g s = (a, s') -> bt s' /\ ok a) ->
  hoare (fun m t => bytes (k_rbuf c) /\ CI s0 c0 m t) (with_reader c g)
        (fun p m t => k_pack (fst p) = k_pack c0 /\ CI s0 (fst p) m t /\ ok (snd p)).
Proof.
  intros Hk Hg. apply h_with_reader. intros s a s' Hrb G m [Hb HP].
  assert (B : bt s) by (split; [rewrite Hrb; exact Hb|eapply CI_tape; exact HP]).
  destruct (Hg _ _ _ B G) as [B' Ha]. cbn [fst snd].
  split; [exact Hk|]. split; [|exact Ha].
  apply (CI_upd s0 c0); [exact Hk|apply B'|].
  unfold CI in *. eapply Inv_upd; [exact HP|apply HP|apply B'].
Qed.

Lemma handshake_tie s0 c cn clean cid :
  hoare (CI s0 c) (handshake c cn clean cid) (kci s0 c).
Proof.
  unfold handshake. cbv zeta.
  eapply h_bind; [apply h_qsat, conn_write_q|]. intros r.
  assert (R0 : forall (h : hs_result) c', vis c' = vis c ->
            hoare (fun m t => CI s0 c m t /\ any r) (ret (c', h)) (kci s0 c)).
  { intros h c' V. apply h_ret. intros m t [H _]. unfold kci. cbn [fst]. apply CI_vis_kp; assumption. }
  destruct r; try (apply R0; reflexivity).
  eapply h_bind.
  { eapply h_pre; [|apply (reader_tie s0 c) with (ok := fun _ => True)].
    - intros m t [H _]. split; [apply bytes_nil|exact H].
    - reflexivity.
    - intros s [p e] s' B G. destruct (peek_bt _ _ _ _ _ B G). auto. }
  intros [c1 [p e]]. cbn [fst snd].
  assert (R1 : forall (h : hs_result) c', k_pack c' = k_pack c1 -> (k_rbuf c' = k_rbuf c1 \/ k_rbuf c' = skipn 4 (k_rbuf c1)) ->
            hoare (fun m t => k_pack c1 = k_pack c /\ CI s0 c1 m t /\ True) (ret (c', h)) (kci s0 c)).
  { intros h c' K Rb. apply h_ret. intros m t (K1 & H & _). unfold kci. cbn [fst].
    split; [congruence|]. apply (CI_upd s0 c1); [exact K| |exact H].
    destruct Rb as [-> | ->]; [|apply bytes_skipn]; eapply CI_bytes; exact H. }
  destruct e as [[]|]; try apply h_fail;
  match goal with |- context [if ?b then _ else _] => destruct b end;
    try (apply R1; [reflexivity|left; reflexivity]).
  destruct p as [|a [|b [|fl [|code [|]]]]]; try apply h_fail.
  destruct (negb (code =? 0)); [apply R1; [reflexivity|left; reflexivity]|].
  destruct (fl =? 0); [apply R1; [reflexivity|right; reflexivity]|].
  destruct (fl =? 1); [|apply R1; [reflexivity|left; reflexivity]].
  destruct clean; apply R1; first [reflexivity|left; reflexivity|right; reflexivity].
Qed.

Lemma krb_release_locked c e : k_rbuf (release_locked c e) = k_rbuf c.
Proof. exact (f_equal snd (vis_release_locked c e)). Qed.

Lemma connect_tie s0 c : hoare (CI s0 c) (connect c) (kci s0 c).
Proof.
  unfold connect.
  assert (R0 : forall (P : store -> list rans -> Prop) (e : err) c', (forall m t, P m t -> CI s0 c m t) -> vis c' = vis c ->
            hoare P (ret (c', e)) (kci s0 c)).
  { intros P e c' HP V. apply h_ret. intros m t H. unfold kci. cbn [fst]. apply CI_vis_kp; auto. }
  assert (R1 : forall (P : store -> list rans -> Prop) (e : err) c1 c', (forall m t, P m t -> kci s0 c (c1, tt) m t) ->
            k_pack c' = k_pack c1 -> k_rbuf c' = [] ->
            hoare P (ret (c', e)) (kci s0 c)).
  { intros P e c1 c' HP K Rb. apply h_ret. intros m t H. destruct (HP _ _ H) as [K1 H1]. cbn [fst] in *.
    unfold kci. cbn [fst]. split; [congruence|]. apply (CI_upd s0 c1); [exact K| |exact H1].
    rewrite Rb. apply bytes_nil. }
  destruct (k_closed c); [apply R0; [auto|reflexivity]|]. cbv zeta.
  eapply h_bind; [apply h_qsat, rugged_load_q|]. intros l.
  destruct l as [cidv|e]; [|apply R0; [intros m t [H _]; exact H|(rewrite vis_release_locked; reflexivity)]].
  eapply h_bind; [apply h_qsat, ask_dial_q|]. intros ok.
  destruct ok; cbn [negb]; [|apply R0; [intros m t [[H _] _]; exact H|(rewrite vis_release_locked; reflexivity)]].
  eapply h_bind.
  { eapply h_pre; [|apply (handshake_tie s0)]. intros m t HH. exact (proj1 (proj1 HH)). }
  intros [c1 h]. destruct h as [|e].
  2:{ eapply h_bind; [apply h_qsat, tell_q|]. intros u.
      eapply (R1 _ _ c1); [intros m t [H _]; exact H| |].
      - rewrite kp_release_locked. reflexivity.
      - rewrite krb_release_locked. reflexivity. }
  eapply h_bind; [apply h_qsat, resend_q|]. intros [s1 e1].
  destruct (negb (e1 =? 0)).
  { eapply h_bind; [apply h_qsat, tell_q|]. intros u.
    eapply (R1 _ _ c1); [intros m t [[H _] _]; exact H| |].
    - rewrite kp_release_locked. reflexivity.
    - rewrite krb_release_locked. reflexivity. }
  eapply h_bind; [apply h_qsat, resend_q|]. intros [s2 e2].
  destruct (negb (e2 =? 0)).
  { eapply h_bind; [apply h_qsat, tell_q|]. intros u.
    eapply (R1 _ _ c1); [intros m t [[[H _] _] _]; exact H| |].
    - rewrite kp_release_locked. reflexivity.
    - rewrite krb_release_locked. reflexivity. }
  match goal with |- context [if ?b then _ else _] => destruct b end; [apply h_fail|].
  apply h_ret. intros m t [[H _] _]. destruct H as [K H]. cbn [fst] in K, H. unfold kci. cbn [fst].
  split; [exact K|]. apply (CI_upd s0 c1); [reflexivity| |exact H]. eapply CI_bytes; exact H.
Qed.

(* ================================================================== *)
(* 9. The read loop                                                    *)

Definition lp (s0 : sl) (p : client * hres) (m : store) (t : list rans) : Prop :=
  match snd p with
  | HOk => k_pack (fst p) = [] /\ CI s0 (fst p) m t
  | HErr _ | HMsg _ _ => CI s0 (fst p) m t
  | HDupe => exists id, id < 65536 /\ k_pack (fst p) = packet_pubrec id /\ In id (marks m) /\
                        Inv s0 [] (k_rbuf (fst p)) m t
  end.

Lemma dq_lp s0 c m0 t0 p m t : k_pack c = [] -> CI s0 c m0 t0 -> dq c m0 t0 p m t -> lp s0 p m t.
Proof.
  intros Hk HC (-> & Rb & [Hs Hd] & H). unfold lp.
  assert (Md : mdec m) by (apply Hd, HC).
  assert (L : forall ok, lstep ok (islim c m0) (islim (fst p) m) -> CI s0 (fst p) m t0).
  { intros ok L. unfold CI. rewrite Rb. eapply Inv_lstep; [exact HC|exact L|exact Hs|exact Md]. }
  destruct (snd p).
  - destruct H as [K [ok Lk]]. split; [exact K|eauto].
  - destruct H as [ok Lk]. eauto.
  - destruct H as [ok Lk]. eauto.
  - destruct H as (-> & id & Hid & K & Hin). exists id. repeat split; try assumption.
    + unfold CI in HC. rewrite Hk in HC. apply HC.
    + rewrite Rb. apply HC.
    + apply HC.
Qed.

Lemma dispatch_tie s0 c head body : bytes body -> k_pack c = [] ->
  hoare (CI s0 c) (dispatch c head body) (lp s0).
Proof.
  intros Hb Hk. apply h_fix. intros m0 t0 HC.
  eapply h_post; [apply dispatch_spec; [apply HC|exact Hb|exact Hk]|].
  intros p m t D. eapply dq_lp; eassumption.
Qed.

Lemma on_publish_tie s0 c head body : bytes body -> k_pack c = [] ->
  hoare (CI s0 c) (on_publish c head body) (lp s0).
Proof.
  intros Hb Hk. apply h_fix. intros m0 t0 HC.
  eapply h_post; [apply on_publish_spec; [exact Hb|exact Hk]|].
  intros p m t D. eapply dq_lp; [exact Hk|exact HC|]. eapply pubq_dq; [apply HC|exact Hk|exact D].
Qed.

(* pendingAck = PUBREC id of a suppressed duplicate that could not be confirmed *)
Lemma dupe_fail_CI s0 c id m t :
  id < 65536 -> k_pack c = packet_pubrec id -> In id (marks m) -> Inv s0 [] (k_rbuf c) m t ->
  CI s0 c m t.
Proof.
  intros Hid K Hin H. unfold CI. eapply Inv_lstep; [exact H| |apply H|apply H].
  rewrite K, owed_pubrec by exact Hid. apply (lstep_cstep (KDupeFail id)). apply C_dupe_fail. exact Hin.
Qed.

Lemma read_loop_tie s0 fuel : forall c, k_pack c = [] ->
  hoare (CI s0 c) (read_loop fuel c) (fun p => CI s0 (fst p)).
Proof.
  induction fuel as [|f IH]; intros c Hk; cbn [read_loop]; [apply h_fail|].
  eapply h_bind.
  { eapply h_pre; [|apply (reader_tie s0 c c) with (ok := res_ok)].
    - intros m t H. split; [eapply CI_bytes; exact H|exact H].
    - reflexivity.
    - intros s a s' B G. exact (peek_packet_bt _ _ _ _ B G). }
  intros [c1 pk]. cbn [fst snd].
  apply h_pure with (X := k_pack c1 = [] /\ res_ok pk); [intros m t (A & _ & B); split; congruence|].
  intros [Hk1 Hr].
  eapply h_pre with (P := CI s0 c1); [intros m t (_ & H & _); exact H|].
  (* the write of the PUBREC of a duplicate and what follows *)
  assert (DW : forall c2 (next : client -> M (client * retv)),
     (forall c3, k_rbuf c3 = k_rbuf c2 -> hoare (Inv s0 [] (k_rbuf c2)) (next (c3 <| k_pack := [] |>)) (fun p => CI s0 (fst p))) ->
     hoare (fun m t => exists id, id < 65536 /\ k_pack c2 = packet_pubrec id /\ In id (marks m) /\ Inv s0 [] (k_rbuf c2) m t)
       ('(c, e) <- nowait_write c2 [k_pack c2] true ;;
        if negb (e =? 0) then c <- to_offline c ;; ret (c, RetErr e) else next (c <| k_pack := [] |>))
       (fun p => CI s0 (fst p))).
  { intros c2 next Hn.
    eapply h_bind; [apply h_qsat, nowait_write_q|]. intros [c3 e]. cbv beta.
    apply h_pure with (X := vis c3 = vis c2); [intros m t [_ V]; exact V|]. intros V.
    pose proof (f_equal fst V) as V1. pose proof (f_equal snd V) as V2. cbn [vis fst snd] in V1, V2.
    destruct (negb (e =? 0)).
    - eapply h_pre; [|apply off_ret_tie]. intros m t [(id & Hid & K & Hin & H) _].
      apply (dupe_fail_CI s0 c3 id); [exact Hid|congruence|exact Hin|rewrite V2; exact H].
    - eapply h_pre; [|apply Hn; exact V2]. intros m t [(id & _ & _ & _ & H) _]. exact H. }
  destruct pk as [head body|head size partial|e proto|].
  - (* a complete packet *)
    eapply h_bind; [apply dispatch_tie; assumption|]. intros [c2 h]. unfold lp. cbn [fst snd].
    destruct h as [|e|topic msg|].
    + apply h_pure with (X := k_pack c2 = []); [intros m t [A _]; exact A|]. intros K2.
      eapply h_pre; [|apply IH; exact K2]. intros m t [_ H].
      apply (CI_upd s0 c2); [reflexivity| |exact H]. apply bytes_skipn. eapply CI_bytes; exact H.
    + apply off_ret_tie.
    + apply h_ret. intros m t H. exact H.
    + apply (DW c2 (fun c => read_loop f (c <| k_rbuf ::= skipn (length body) |>))). intros c3 V2.
      eapply h_pre; [|apply IH; reflexivity]. intros m t H. unfold CI.
      change (Inv s0 [] (skipn (length body) (k_rbuf c3)) m t).
      eapply Inv_upd; [exact H| |apply H]. rewrite V2. apply bytes_skipn. apply H.
  - (* a message beyond the buffer *)
    eapply h_bind; [apply on_publish_tie; assumption|]. intros [c2 h]. unfold lp. cbn [fst snd].
    destruct h as [|e|topic pmsg|].
    + apply h_fail.
    + apply off_ret_tie.
    + apply h_ret. intros m t H. cbn [fst].
      apply (CI_upd s0 c2); [reflexivity| |exact H]. apply bytes_skipn. eapply CI_bytes; exact H.
    + eapply h_bind with (R := fun p m t => exists id, id < 65536 /\ k_pack (fst p) = packet_pubrec id /\
                                 In id (marks m) /\ Inv s0 [] (k_rbuf (fst p)) m t).
      { apply h_with_reader. intros s a s' Hrb G m (id & Hid & K & Hin & H).
        assert (B : bt s) by (split; [rewrite Hrb; apply H|apply H]).
        pose proof (client_discard_bt _ _ _ _ _ B G) as B'. cbn [fst].
        exists id. split; [exact Hid|]. split; [exact K|]. split; [exact Hin|].
        eapply Inv_upd; [exact H|apply B'|apply B']. }
      intros [c3 d]. cbn [fst].
      assert (OFF : forall e : err, hoare (fun m t => exists id, id < 65536 /\ k_pack c3 = packet_pubrec id /\
                                 In id (marks m) /\ Inv s0 [] (k_rbuf c3) m t)
                      (c <- to_offline c3 ;; ret (c, RetErr e)) (fun p => CI s0 (fst p))).
      { intros e. eapply h_pre; [|apply off_ret_tie]. intros m t (id & Hid & K & Hin & H).
        eapply dupe_fail_CI; eassumption. }
      destruct d as [[]|]; try apply h_fail; try apply OFF.
      apply (DW c3 (fun c => read_loop f c)). intros c4 V2.
      eapply h_pre; [|apply IH; reflexivity]. intros m t H. unfold CI.
      change (Inv s0 [] (k_rbuf c4) m t). rewrite V2. exact H.
  - (* read error *)
    destruct e; try apply h_fail; try apply off_ret_tie.
    eapply h_bind; [apply to_offline_tie|]. intros c2.
    apply h_pure with (X := k_pack c2 = []); [intros m t [A _]; congruence|]. intros K2.
    eapply h_bind; [eapply h_pre; [|apply connect_tie]; intros m t [_ H]; exact H|].
    intros [c3 e]. unfold kci. cbn [fst].
    apply h_pure with (X := k_pack c3 = []); [intros m t [A _]; congruence|]. intros K3.
    destruct (negb (e =? 0)).
    + apply h_ret. intros m t [_ H]. exact H.
    + eapply h_pre; [|apply IH; exact K3]. intros m t [_ H]. exact H.
  - apply off_ret_tie.
Qed.

(* ================================================================== *)
(* 10. (ii) the flush of pendingAck at the start of ReadSlices         *)

Definition flush_ack (c : client) : M (client * option (err * bool)) :=
  match k_pack c with
  | [] => ret (c, None)
  | h :: _ =>
    '(c, ok) <- (if h / 16 =? 5
                 then rugged_save c (N.lor (u16 (skipn 2 (k_pack c))) remote_flag) (k_pack c)
                 else ret (c, true)) ;;
    if negb ok then ret (c, Some (E_store, false)) else
    '(c, e) <- nowait_write c [k_pack c] true ;;
    if negb (e =? 0) then ret (c, Some (e, true)) else ret (c <| k_pack := [] |>, None)
  end.

(* read_slices_body is: auto connect, discard the rest of a big message, skip the previous
   packet, [flush_ack], the read loop *)
Lemma read_slices_body_flush c :
  read_slices_body c =
  ('(c, e) <- (match k_rconn c with None => connect c | Some _ => ret (c, E_nil) end) ;;
   if negb (e =? 0) then ret (c, RetErr e) else
   '(c, e) <- (match k_big c with
               | None => ret (c, None)
               | Some remaining =>
                 let c := c <| k_big := None |> in
                 with_reader c (fun s => client_discard (s_pause (k_cfg c)) s remaining)
               end) ;;
   match e with
   | Some ENoTape => fail_tape
   | Some e => c <- to_offline c ;; ret (c, RetErr (rerr_class e))
   | None =>
     let c := c <| k_rbuf ::= skipn (N.to_nat (k_peekn c)) |> <| k_peekn := 0 |> in
     '(c, e) <- flush_ack c ;;
     match e with
     | Some (e, off) => c <- (if off then to_offline c else ret c) ;; ret (c, RetErr e)
     | None => fun w => read_loop (S (S (length (t_rd w) + length (t_dial w)))) c w
     end
   end).
Proof. reflexivity. Qed.

Definition flush_lab (p : list N) (k : clab) : option clab :=
  match owed p with Some _ => Some k | None => None end.

Definition flq (c : client) (m0 : store) (t0 : list rans)
           (p : client * option (err * bool)) (m : store) (t : list rans) : Prop :=
  t = t0 /\ k_rbuf (fst p) = k_rbuf c /\ okst m0 m /\
  let saved := if is_pubrec_packet (k_pack c)
               then store_put m0 (flush_key (k_pack c)) (encode_value (k_pack c) (k_rseq c + 1))
               else m0 in
  match snd p with
  | None =>                     (* nothing pending, or written completely *)
    k_pack (fst p) = [] /\ m = saved /\
    lstep (flush_lab (k_pack c) KFlush) (islim c m0) (islim (fst p) m)
  | Some (e, false) =>          (* the marker Save failed: nothing written, still online *)
    e = E_store /\ is_pubrec_packet (k_pack c) = true /\ k_pack (fst p) = k_pack c /\ m = m0 /\
    lstep (Some KSaveFail) (islim c m0) (islim (fst p) m)
  | Some (e, true) =>           (* the write failed: marker saved, pendingAck kept, toOffline next *)
    k_pack (fst p) = k_pack c /\ k_pack c <> [] /\ m = saved /\
    lstep (flush_lab (k_pack c) KFlushFail) (islim c m0) (islim (fst p) m)
  end.

Lemma bind_ret_l {A B} (a : A) (k : A -> M B) : bind (ret a) k = k a.
Proof. reflexivity. Qed.

Lemma flush_ack_spec c m0 t0 : sorted_keys m0 ->
  hoare (at_ m0 t0) (flush_ack c) (flq c m0 t0).
Proof.
  intros Hs. unfold flush_ack, flq, flush_lab, islim, flush_key.
  destruct (k_pack c) as [|h tl] eqn:Kp.
  { apply h_ret. intros m t [-> ->]. cbn [fst snd is_pubrec_packet]. rewrite Kp. cbn [owed lstep].
    split; [reflexivity|]. split; [reflexivity|]. split; [apply okst_refl, Hs|].
    split; [reflexivity|]. split; [reflexivity|]. apply sl_eq_refl. }
  cbn [is_pubrec_packet]. set (p := h :: tl) in *.
  set (K := N.lor (u16 (skipn 2 p)) remote_flag).
  assert (HK : N.testbit K 16 = true) by apply remote_key_bit.
  destruct (h / 16 =? 5) eqn:T5.
  - (* a PUBREC: the marker first *)
    assert (Ho : owed p = Some (ARec (nid (u16 (skipn 2 p))))).
    { unfold owed, p. rewrite T5. reflexivity. }
    rewrite Ho.
    eapply h_bind;
      [apply h_save with (Q := fun (q : client * bool) m t => t = t0 /\ fst q = c <| k_rseq := k_rseq c + 1 |> /\
          m = if snd q then store_put m0 K (encode_value p (k_rseq c + 1)) else m0)|].
    { intros m t [-> ->]. cbn [fst snd]. auto. }
    intros [c2 ok]. apply h_pure with (X := c2 = c <| k_rseq := k_rseq c + 1 |>).
    { intros m t (_ & E & _). exact E. }
    intros ->. destruct ok; cbn [negb snd].
    + eapply h_bind; [apply h_qsat, nowait_write_q|]. intros [c3 e]. cbv beta.
      assert (OK : okst m0 (store_put m0 K (encode_value p (k_rseq c + 1)))).
      { split; [apply sorted_keys_put, Hs|intros; apply mdec_put_enc; assumption]. }
      pose proof (marks_put_marker m0 K (encode_value p (k_rseq c + 1)) HK) as MP.
      change (K - 65536) with (nid (u16 (skipn 2 p))) in MP.
      destruct (negb (e =? 0)); apply h_ret; intros m t [(-> & _ & ->) V];
        pose proof (f_equal fst V) as V1; pose proof (f_equal snd V) as V2; cbn [vis fst snd] in V1, V2;
        assert (V1' : k_pack c3 = p) by (rewrite <- Kp; exact V1); cbn [fst snd].
      * split; [reflexivity|]. split; [exact V2|]. split; [exact OK|].
        split; [exact V1'|]. split; [discriminate|]. split; [reflexivity|].
        rewrite V1', Ho. cbn [lstep]. eexists. split; [apply C_flush_fail|].
        split; [apply meq_sym, MP|reflexivity].
      * split; [reflexivity|]. split; [exact V2|]. split; [exact OK|].
        split; [reflexivity|]. split; [reflexivity|].
        cbn [lstep]. eexists. split; [apply C_flush|].
        split; [apply meq_sym, MP|reflexivity].
    + apply h_ret. intros m t (-> & _ & ->). cbn [fst snd].
      split; [reflexivity|]. split; [reflexivity|]. split; [apply okst_refl, Hs|].
      split; [reflexivity|]. split; [reflexivity|].
      split; [exact Kp|]. split; [reflexivity|].
      change (k_pack (c <| k_rseq := k_rseq c + 1 |>)) with (k_pack c). rewrite Kp. fold p. rewrite Ho.
      cbn [lstep]. eexists. split; [apply C_save_fail|apply sl_eq_refl].
  - (* anything else: no Save *)
    rewrite bind_ret_l. cbv beta iota. cbn [negb].
    assert (Ho : forall u, owed p = Some u -> forall mk, save_mark u mk = mk).
    { unfold owed, p. rewrite T5. destruct (h / 16 =? 7); intros u E; inversion E; reflexivity. }
    eapply h_bind; [apply h_qsat, nowait_write_q|]. intros [c3 e]. cbv beta.
    destruct (negb (e =? 0)); apply h_ret; intros m t [[-> ->] V];
      pose proof (f_equal fst V) as V1; pose proof (f_equal snd V) as V2; cbn [vis fst snd] in V1, V2;
      assert (V1' : k_pack c3 = p) by (rewrite <- Kp; exact V1); cbn [fst snd].
    + split; [reflexivity|]. split; [exact V2|]. split; [apply okst_refl, Hs|].
      split; [exact V1'|]. split; [discriminate|]. split; [reflexivity|].
      rewrite V1'. destruct (owed p) as [u|] eqn:Eo; cbn [lstep]; [|apply sl_eq_refl].
      eexists. split; [apply C_flush_fail|]. rewrite (Ho u eq_refl). apply sl_eq_refl.
    + split; [reflexivity|]. split; [exact V2|]. split; [apply okst_refl, Hs|].
      split; [reflexivity|]. split; [reflexivity|].
      destruct (owed p) as [u|] eqn:Eo; cbn [lstep]; [|apply sl_eq_refl].
      eexists. split; [apply C_flush|]. rewrite (Ho u eq_refl). apply sl_eq_refl.
Qed.

Lemma flush_tie s0 c :
  hoare (CI s0 c) (flush_ack c) (fun p m t =>
    match snd p with
    | None => k_pack (fst p) = [] /\ CI s0 (fst p) m t
    | Some _ => CI s0 (fst p) m t
    end).
Proof.
  apply h_fix. intros m0 t0 HC.
  eapply h_post; [apply flush_ack_spec; apply HC|].
  intros p m t (-> & Rb & [Hs Hd] & H). cbv zeta in H.
  assert (Md : mdec m) by (apply Hd, HC).
  assert (L : forall ok, lstep ok (islim c m0) (islim (fst p) m) -> CI s0 (fst p) m t0).
  { intros ok L. unfold CI. rewrite Rb. eapply Inv_lstep; [exact HC|exact L|exact Hs|exact Md]. }
  destruct (snd p) as [[e [|]]|].
  - destruct H as (_ & _ & _ & Lk). eauto.
  - destruct H as (_ & _ & _ & _ & Lk). eauto.
  - destruct H as (K & _ & Lk). split; [exact K|eauto].
Qed.

Lemma read_slices_body_tie s0 c : hoare (CI s0 c) (read_slices_body c) (fun p => CI s0 (fst p)).
Proof.
  rewrite read_slices_body_flush.
  eapply h_bind with (R := fun p => CI s0 (fst p)).
  { destruct (k_rconn c).
    - apply h_ret. intros m t H. exact H.
    - eapply h_post; [apply connect_tie|]. intros p m t [_ H]. exact H. }
  intros [c1 e]. cbn [fst].
  destruct (negb (e =? 0)); [apply h_ret; intros m t H; exact H|].
  eapply h_bind with (R := fun p => CI s0 (fst p)).
  { destruct (k_big c1) as [remaining|]; [|apply h_ret; intros m t H; exact H]. cbv zeta.
    eapply h_post.
    - eapply h_pre; [|apply (reader_tie s0 c1) with (ok := fun _ => True)].
      + intros m t H. split; [eapply CI_bytes; exact H|exact H].
      + reflexivity.
      + intros s a s' B G. split; [exact (client_discard_bt _ _ _ _ _ B G)|exact I].
    - intros p m t (_ & H & _). exact H. }
  intros [c2 e2]. cbn [fst].
  destruct e2 as [[]|]; try apply h_fail; try apply off_ret_tie.
  cbv zeta.
  eapply h_bind.
  { eapply h_pre; [|apply flush_tie]. intros m t H.
    apply (CI_upd s0 c2); [reflexivity| |exact H]. apply bytes_skipn. eapply CI_bytes; exact H. }
  intros [c3 e3]. cbn [fst snd].
  destruct e3 as [[e' off]|].
  - destruct off; [apply off_ret_tie|].
    rewrite bind_ret_l. apply h_ret. intros m t H. exact H.
  - apply h_pure with (X := k_pack c3 = []); [intros m t [A _]; exact A|]. intros K3.
    apply (h_world (fun w => S (S (length (t_rd w) + length (t_dial w)))) (fun n => read_loop n c3)).
    intros n. eapply h_pre; [|apply read_loop_tie; exact K3]. intros m t [_ H]. exact H.
Qed.

Lemma read_slices_tie s0 c : hoare (CI s0 c) (read_slices c) (fun p => CI s0 (fst p)).
Proof.
  unfold read_slices.
  eapply h_bind; [apply read_slices_body_tie|]. intros [c1 r]. cbn [fst].
  destruct r; try (apply h_ret; intros m t H; exact H).
  destruct (is_closed_err e); apply h_ret; intros m t H; [|exact H].
  cbn [fst]. eapply CI_vis; [apply vis_term_callbacks|exact H].
Qed.

(* ================================================================== *)
(* 11. (iv) everything else                                            *)

Lemma vs_tie {A} s0 c (f : M (client * A)) :
  qsat f (vs c) -> hoare (CI s0 c) f (fun p => CI s0 (fst p)).
Proof.
  intros H. eapply h_post; [apply h_qsat, H|]. intros p m t [HC V]. eapply CI_vis; eassumption.
Qed.

Lemma read_all_op_tie s0 c : hoare (CI s0 c) (read_all_op c) (fun p => CI s0 (fst p)).
Proof.
  unfold read_all_op. destruct (k_big c) as [size|]; [|apply h_ret; intros m t H; exact H]. cbv zeta.
  eapply h_bind.
  { eapply h_pre; [|apply (reader_tie s0 c) with (ok := fun _ => True)].
    - intros m t H. split; [eapply CI_bytes; exact H|exact H].
    - reflexivity.
    - intros s a s' B G. split; [exact (read_all_bt _ _ _ _ _ B G)|exact I]. }
  intros [c1 r]. cbn [fst snd].
  destruct r as [bs|[]]; try apply h_fail; try (apply h_ret; intros m t (_ & H & _); exact H);
    (eapply h_bind; [apply h_qsat, tell_q|]; intros u; apply h_ret; intros m t [(_ & H & _) _]; exact H).
Qed.

Lemma persisted_key_not_marker space acc :
  space = alo_space \/ space = eo_space -> N.testbit (N.lor space (N.land acc id_mask)) 16 = false.
Proof.
  intros Hsp. rewrite N.lor_spec, N.land_spec.
  replace (N.testbit id_mask 16) with false by reflexivity. rewrite andb_false_r, orb_false_r.
  destruct Hsp as [-> | ->]; reflexivity.
Qed.

Lemma op_publish_persisted_tie s0 c level retain msg topic :
  hoare (CI s0 c) (op_publish_persisted c level retain msg topic) (fun p => CI s0 (fst p)).
Proof.
  unfold op_publish_persisted. cbv zeta.
  repeat match goal with
  | |- hoare _ (if ?b then _ else _) _ => destruct b; [apply h_ret; intros m t H; exact H|]
  end.
  set (space := if level =? 1 then alo_space else eo_space).
  set (acc := if level =? 1 then k_acc1 c else k_acc2 c).
  assert (Hnm : N.testbit (N.lor space (N.land acc id_mask)) 16 = false).
  { apply persisted_key_not_marker. unfold space. destruct (level =? 1); auto. }
  eapply h_bind with (R := fun p m t => k_pack (fst p) = k_pack c /\ k_rbuf (fst p) = k_rbuf c /\ CI s0 c m t).
  { apply h_save. intros m t H. cbn [fst]. split; (split; [reflexivity|]); (split; [reflexivity|]); [|exact H].
    destruct H as (A & B & C & D & E). repeat split; try assumption.
    - apply sorted_keys_put, A.
    - apply mdec_put_other; assumption.
    - eapply iss_then_eq; [exact C|]. apply meq_sym, marks_put_other, Hnm. }
  intros [c1 ok]. cbn [fst].
  assert (R0 : forall c' (r : retv), vis c' = vis c1 ->
     hoare (fun m t => k_pack c1 = k_pack c /\ k_rbuf c1 = k_rbuf c /\ CI s0 c m t) (ret (c', r)) (fun p => CI s0 (fst p))).
  { intros c' r V. apply h_ret. intros m t (K & Rb & H). cbn [fst]. eapply CI_vis; [exact V|].
    unfold CI. rewrite K, Rb. exact H. }
  destruct ok; cbn [negb]; [|apply R0; reflexivity].
  match goal with |- hoare _ (if ?b then _ else _) _ => destruct b end.
  { apply R0. rewrite vis_xsend. destruct (level =? 1); reflexivity. }
  eapply h_bind; [apply h_qsat, nowait_write_q|]. intros [c2 e].
  assert (R1 : forall c' (r : retv), vis c' = vis c2 ->
     hoare (fun m t => (k_pack c1 = k_pack c /\ k_rbuf c1 = k_rbuf c /\ CI s0 c m t) /\
                       vs (if level =? 1 then c1 <| k_nextx ::= N.succ |> <| k_q1 ::= (fun q => q ++ [k_nextx c1]) |> <| k_acc1 ::= N.succ |>
                           else c1 <| k_nextx ::= N.succ |> <| k_q2 ::= (fun q => q ++ [k_nextx c1]) |> <| k_acc2 ::= N.succ |>) (c2, e))
           (ret (c', r)) (fun p => CI s0 (fst p))).
  { intros c' r V. apply h_ret. intros m t [(K & Rb & H) V2]. cbn [fst]. eapply CI_vis; [exact V|].
    unfold vs in V2. cbn [fst] in V2.
    assert (V3 : vis c2 = vis c1) by (rewrite V2; destruct (level =? 1); reflexivity).
    eapply CI_vis; [exact V3|]. unfold CI. rewrite K, Rb. exact H. }
  destruct (negb (e =? 0)); apply R1; [apply vis_xsend|destruct (level =? 1); reflexivity].
Qed.

(* AdoptSession: the scan deletes what does not decode -- never a marker when [mdec] *)
Definition AInv (mk : list N) (T : list rans -> Prop) (m : store) (t : list rans) : Prop :=
  sorted_keys m /\ mdec m /\ meq (marks m) mk /\ T t.

Lemma adopt_scan_tie mk T keys : forall a,
  hoare (AInv mk T) (adopt_scan keys a) (fun _ => AInv mk T).
Proof.
  induction keys as [|k r IH]; intros a; cbn [adopt_scan]; [apply h_ret; auto|].
  destruct (k =? 0); [apply IH|].
  eapply h_bind;
    [apply h_ask_load with (Q := fun v m t => AInv mk T m t /\ (v = SFail \/ v = SVal (store_get m k)))|].
  { intros m t H. auto. }
  intros v. destruct v as [ks|raw| |]; try apply h_fail; [|apply h_ret; intros m t [H _]; exact H].
  assert (DEL : forall a', hoare (fun m t => AInv mk T m t /\ (SVal raw = SFail \/ SVal raw = SVal (store_get m k)) /\
                                   forall p s, decode_value (match raw with Some b => b | None => [] end) <> DecOk p s)
                            (_ <- store_delete k ;; adopt_scan r a') (fun _ => AInv mk T)).
  { intros a'. eapply h_bind; [apply h_delete with (Q := fun _ => AInv mk T)|intros b; apply IH].
    intros m t [(A & B & C & D) [[E|E] Hbad]]; [discriminate|]. inversion E as [E']. clear E.
    split; [|exact (conj A (conj B (conj C D)))].
    split; [apply sorted_keys_del, A|]. split; [apply mdec_del; assumption|]. split; [|exact D].
    eapply meq_trans; [|exact C].
    destruct (N.testbit k 16) eqn:Tk; [|apply marks_del_other; assumption].
    destruct (store_get m k) as [v|] eqn:G.
    - exfalso. destruct (B _ _ G Tk) as (p & s & Dv). subst raw. exact (Hbad _ _ Dv).
    - rewrite store_del_absent by exact G. apply meq_refl. }
  destruct (decode_value _) as [packet sq| |] eqn:D.
  - cbv zeta. destruct (N.testbit k 16); [eapply h_pre; [|apply IH]; intros m t [H _]; exact H|].
    destruct packet as [|h tl]; [apply h_ret; intros m t [H _]; exact H|].
    eapply h_pre; [|apply IH]. intros m t [H _]. exact H.
  - eapply h_pre; [|apply DEL]. intros m t [H E]. split; [exact H|]. split; [exact E|]. discriminate.
  - eapply h_pre; [|apply DEL]. intros m t [H E]. split; [exact H|]. split; [exact E|]. discriminate.
Qed.

Definition fresh_vis (p : option client * retv) : Prop :=
  match fst p with Some c => vis c = ([], []) | None => True end.

Lemma op_adopt_tie mk T cf z1 z2 :
  hoare (AInv mk T) (op_adopt cf z1 z2) (fun p m t => AInv mk T m t /\ fresh_vis p).
Proof.
  unfold op_adopt.
  eapply h_bind; [apply h_ask_list with (Q := fun _ => AInv mk T); auto|]. intros a.
  assert (R0 : forall r, hoare (AInv mk T) (ret (@None client, r)) (fun p m t => AInv mk T m t /\ fresh_vis p)).
  { intros r. apply h_ret. intros m t H. split; [exact H|exact I]. }
  destruct a as [keys|v| |]; try apply h_fail; [|apply R0].
  eapply h_bind; [apply adopt_scan_tie|]. intros r.
  destruct r as [acc|e]; [|apply R0].
  destruct (clean_seq (keys_of (a_alo acc))) as [alo g1].
  destruct (clean_seq (keys_of (a_eo acc))) as [eo g2].
  destruct (clean_seq (keys_of (a_rel acc))) as [rel g3].
  cbv zeta.
  match goal with |- hoare _ (if ?b then _ else _) _ => destruct b end; [apply R0|].
  apply h_ret. intros m t H. split; [exact H|]. unfold fresh_vis. cbn [fst].
  match goal with |- vis (?x <| k_q1 := _ |> <| k_q2 := _ |>) = _ => change (vis x = ([], [])) end.
  match goal with |- context [if ?g then @nil N else rel] =>
    generalize (if g then @nil N else rel) end.
  intros rel'. destruct eo; destruct rel'; destruct alo; reflexivity.
Qed.

(* ================================================================== *)
(* 12. One API step                                                    *)

Theorem step_tie s0 c o : hoare (CI s0 c) (step c o) (fun p => CI s0 (fst p)).
Proof.
  unfold step. cbv zeta.
  set (c0 := c <| k_done := [] |> <| k_xev := [] |>).
  assert (P0 : forall m t, CI s0 c m t -> CI s0 c0 m t) by (intros m t H; exact H).
  destruct o.
  - eapply h_pre; [exact P0|apply read_slices_tie].
  - eapply h_pre; [exact P0|apply read_all_op_tie].
  - eapply h_pre; [exact P0|apply vs_tie, op_publish_q].
  - eapply h_pre; [exact P0|apply op_publish_persisted_tie].
  - eapply h_pre; [exact P0|apply vs_tie, op_subscribe_q].
  - eapply h_pre; [exact P0|apply vs_tie, op_subscribe_q].
  - eapply h_pre; [exact P0|apply vs_tie, op_ping_q].
  - eapply h_pre; [exact P0|apply vs_tie, op_quit_q].
  - eapply h_pre; [exact P0|apply vs_tie, op_close_q].
  - eapply h_pre; [exact P0|apply vs_tie, op_disconnect_q].
  - (* process stop + AdoptSession *)
    apply h_fix. intros m0 t0 HC.
    eapply h_bind.
    { eapply h_pre; [|apply (op_adopt_tie (marks m0) (fun t => t = t0))].
      intros m t [-> ->]. destruct HC as (A & B & _ & _ & _). repeat split; auto using meq_refl. }
    intros [[c1|] r]; apply h_ret; intros m t [(A & B & C & ->) F]; cbn [fst].
    + unfold fresh_vis in F. cbn [fst] in F.
      pose proof (f_equal fst F) as F1. pose proof (f_equal snd F) as F2. cbn [vis fst snd] in F1, F2.
      unfold CI. change (Inv s0 (k_pack c1) (k_rbuf c1) m t0). rewrite F1, F2.
      destruct HC as (_ & _ & S & _ & Tp). repeat split; try assumption; [|apply bytes_nil].
      eapply iss_then_eq; [|apply meq_sym, C].
      eapply iss_then_step; [exact S|]. apply C_restart.
    + destruct HC as (_ & _ & S & Bb & Tp). repeat split; try assumption.
      eapply iss_then_eq; [exact S|apply meq_sym, C].
  - apply h_ret. intros m t H. cbn [fst]. eapply CI_vis; [apply vis_op_read_backoff|apply P0; exact H].
Qed.

(* ================================================================== *)
(* 13. The projection theorem                                          *)

(* what the projection needs of client + world: a genuine Persistence with ascending keys whose
   marker records decode, bytes in the read buffer and on the read tape *)
Definition tie_ok (c : client) (w : world) (m : store) : Prop :=
  w_store w = Some m /\ sorted_keys m /\ mdec m /\ bytes (k_rbuf c) /\ tape_ok (t_rd w).

Theorem step_islim_ok c o w c' r w' m :
  step c o w = Some ((c', r), w') -> tie_ok c w m ->
  exists m', tie_ok c' w' m' /\ islim_steps (islim c m) (islim c' m').
Proof.
  intros E (Hm & Hs & Hd & Hb & Ht).
  destruct (step_tie (islim c m) c o w (c', r) w' m Hm
              (conj Hs (conj Hd (conj (iss_refl _) (conj Hb Ht)))) E) as (m' & Hm' & A & B & C & D & F).
  exists m'. split; [|exact C]. repeat split; assumption.
Qed.

Theorem step_islim c o w c' r w' m m' :
  step c o w = Some ((c', r), w') -> w_store w = Some m -> w_store w' = Some m' ->
  sorted_keys m -> mdec m -> bytes (k_rbuf c) -> tape_ok (t_rd w) ->
  islim_steps (islim c m) (islim c' m').
Proof.
  intros E Hm Hm' Hs Hd Hb Ht.
  destruct (step_islim_ok _ _ _ _ _ _ _ E (conj Hm (conj Hs (conj Hd (conj Hb Ht))))) as (m2 & (Hm2 & _) & S).
  rewrite Hm' in Hm2. inversion Hm2; subst. exact S.
Qed.

(* runs of the session model *)
Inductive srun : client -> world -> list op -> client -> world -> Prop :=
| srun_nil : forall c w, srun c w [] c w
| srun_cons : forall c w o c1 r w1 os c2 w2,
    step c o w = Some ((c1, r), w1) -> srun c1 w1 os c2 w2 -> srun c w (o :: os) c2 w2.

Theorem run_islim c w os c' w' : srun c w os c' w' -> forall m, tie_ok c w m ->
  exists m', tie_ok c' w' m' /\ islim_steps (islim c m) (islim c' m').
Proof.
  induction 1 as [c w|c w o c1 r w1 os c2 w2 E _ IH]; intros m Hok.
  - exists m. split; [exact Hok|apply iss_refl].
  - destruct (step_islim_ok _ _ _ _ _ _ _ E Hok) as (m1 & Hok1 & S1).
    destruct (IH _ Hok1) as (m2 & Hok2 & S2). exists m2. split; [exact Hok2|].
    eapply iss_trans; eassumption.
Qed.

(* a new client on an empty Persistence starts in the initial slim state *)
Lemma tie_ok_new cf rseq w : w_store w = Some [] -> tape_ok (t_rd w) -> tie_ok (new_client cf rseq) w [].
Proof.
  intros Hm Ht. split; [exact Hm|]. split; [exact I|]. split; [apply mdec_nil|].
  split; [apply bytes_nil|exact Ht].
Qed.
Lemma islim_new cf rseq : islim (new_client cf rseq) [] = ([], None).
Proof. reflexivity. Qed.

(* ================================================================== *)
(* 14. The pieces as plain statements                                  *)

Theorem on_publish_islim c head body w m c' r w' :
  w_store w = Some m -> bytes body -> k_pack c = [] ->
  on_publish c head body w = Some ((c', r), w') ->
  w_store w' = Some m /\ t_wr w' = t_wr w /\ pubq c head body m (t_rd w) (c', r) m (t_rd w').
Proof.
  intros Hm Hb Hk E.
  destruct (on_publish_spec c head body m (t_rd w) Hb Hk w _ w' m Hm (conj eq_refl eq_refl) E) as (m' & Hm' & Q).
  pose proof Q as (-> & _). split; [exact Hm'|]. split; [|exact Q].
  apply on_publish_no_write in E. apply E.
Qed.

Theorem flush_ack_islim c w m p w' :
  w_store w = Some m -> sorted_keys m -> flush_ack c w = Some (p, w') ->
  exists m', w_store w' = Some m' /\ flq c m (t_rd w) p m' (t_rd w').
Proof.
  intros Hm Hs E. exact (flush_ack_spec c m (t_rd w) Hs w _ w' m Hm (conj eq_refl eq_refl) E).
Qed.

Theorem on_pubrel_islim c body w m p w' :
  w_store w = Some m -> sorted_keys m -> bytes body -> k_pack c = [] ->
  on_pubrel c body w = Some (p, w') ->
  exists m', w_store w' = Some m' /\ relq c body m (t_rd w) p m' (t_rd w').
Proof.
  intros Hm Hs Hb Hk E. exact (on_pubrel_spec c body m (t_rd w) Hs Hb Hk w _ w' m Hm (conj eq_refl eq_refl) E).
Qed.

Theorem on_puback_islim c body w m p w' :
  w_store w = Some m -> sorted_keys m -> on_puback c body w = Some (p, w') ->
  exists m', w_store w' = Some m' /\ ctlq c m (t_rd w) p m' (t_rd w').
Proof. intros Hm Hs E. exact (on_puback_spec c body m (t_rd w) Hs w _ w' m Hm (conj eq_refl eq_refl) E). Qed.
Theorem on_pubcomp_islim c body w m p w' :
  w_store w = Some m -> sorted_keys m -> on_pubcomp c body w = Some (p, w') ->
  exists m', w_store w' = Some m' /\ ctlq c m (t_rd w) p m' (t_rd w').
Proof. intros Hm Hs E. exact (on_pubcomp_spec c body m (t_rd w) Hs w _ w' m Hm (conj eq_refl eq_refl) E). Qed.
Theorem on_pubrec_islim c body w m p w' :
  w_store w = Some m -> sorted_keys m -> on_pubrec c body w = Some (p, w') ->
  exists m', w_store w' = Some m' /\ recq c m (t_rd w) p m' (t_rd w').
Proof. intros Hm Hs E. exact (on_pubrec_spec c body m (t_rd w) Hs w _ w' m Hm (conj eq_refl eq_refl) E). Qed.

(* a handler result [ctlq]/[recq] is a stutter of the slim receiver when pendingAck was empty *)
Theorem ctlq_stutter c m0 t0 p m t : ctlq c m0 t0 p m t -> sl_eq (islim c m0) (islim (fst p) m).
Proof.
  intros (_ & V & _ & _ & ME). unfold islim. rewrite (f_equal fst V : k_pack (fst p) = k_pack c).
  split; [apply meq_sym, ME|reflexivity].
Qed.
Theorem recq_stutter c m0 t0 p m t : k_pack c = [] -> recq c m0 t0 p m t -> sl_eq (islim c m0) (islim (fst p) m).
Proof.
  intros Hk Q. pose proof (recq_dq c m0 t0 p m t Hk Q) as (_ & _ & _ & D).
  destruct Q as (_ & _ & _ & ME & H). unfold islim. split; [apply meq_sym, ME|]. cbn [snd]. rewrite Hk.
  destruct (snd p); try contradiction.
  - rewrite H. reflexivity.
  - destruct H as [H|H]; [rewrite H, Hk; reflexivity|symmetry; exact H].
Qed.

(* dispatch as a whole: every packet handler is a slim step or a stutter *)
Theorem dispatch_islim c head body w m p w' :
  w_store w = Some m -> sorted_keys m -> bytes body -> k_pack c = [] ->
  dispatch c head body w = Some (p, w') ->
  exists m', w_store w' = Some m' /\ dq c m (t_rd w) p m' (t_rd w').
Proof.
  intros Hm Hs Hb Hk E. exact (dispatch_spec c head body m (t_rd w) Hs Hb Hk w _ w' m Hm (conj eq_refl eq_refl) E).
Qed.

(* toOffline and connect keep the Persistence and pendingAck *)
Theorem to_offline_islim c w c' w' m :
  to_offline c w = Some (c', w') -> w_store w = Some m -> w_store w' = Some m /\ islim c' m = islim c m.
Proof.
  intros E Hm. destruct (to_offline_q c _ _ _ E) as [[S _] [K _]]. split; [congruence|].
  unfold islim. rewrite K. reflexivity.
Qed.

Definition nst {A} (f : M A) : Prop := forall w a w', f w = Some (a, w') -> w_store w' = w_store w.
Lemma nst_ret {A} (a : A) : nst (ret a).
Proof. intros w b w' E. rinv E. subst. reflexivity. Qed.
Lemma nst_fail {A} : nst (@fail_tape A).
Proof. intros w a w' E. discriminate. Qed.
Lemma nst_bind {A B} (f : M A) (k : A -> M B) : nst f -> (forall a, nst (k a)) -> nst (bind f k).
Proof. intros Hf Hk w b w' E. bnv E. rewrite (Hk _ _ _ _ E). exact (Hf _ _ _ Ea). Qed.
Lemma nst_q {A} (f : M A) Q : qsat f Q -> nst f.
Proof. intros H w a w' E. apply (H _ _ _ E). Qed.
Lemma nst_with_reader {A} c (g : rst -> A * rst) : nst (with_reader c g).
Proof.
  intros w a w' E. unfold with_reader in E. destruct (g (rst_of c w)) as [x s]. inversion E; subst. reflexivity.
Qed.

Lemma handshake_nst c cn clean cid : nst (handshake c cn clean cid).
Proof.
  unfold handshake. cbv zeta. apply nst_bind; [apply (nst_q _ _ (conn_write_q _ _ _))|]. intros r.
  destruct r; try apply nst_ret.
  apply nst_bind; [apply nst_with_reader|]. intros [c1 [p e]].
  destruct e as [[]|]; try apply nst_fail;
  match goal with |- context [if ?b then _ else _] => destruct b end; try apply nst_ret.
  destruct p as [|a [|b [|fl [|code [|]]]]]; try apply nst_fail.
  destruct (negb (code =? 0)); [apply nst_ret|].
  destruct (fl =? 0); [apply nst_ret|].
  destruct (fl =? 1); [|apply nst_ret].
  destruct clean; apply nst_ret.
Qed.

Lemma connect_nst c : nst (connect c).
Proof.
  unfold connect. destruct (k_closed c); [apply nst_ret|]. cbv zeta.
  apply nst_bind; [apply (nst_q _ _ (rugged_load_q _))|]. intros l.
  destruct l as [cidv|e]; [|apply nst_ret].
  apply nst_bind; [apply (nst_q _ _ ask_dial_q)|]. intros ok.
  destruct ok; cbn [negb]; [|apply nst_ret].
  apply nst_bind; [apply handshake_nst|]. intros [c1 h].
  destruct h as [|e].
  2:{ apply nst_bind; [apply (nst_q _ _ (tell_q _))|]. intros u. apply nst_ret. }
  apply nst_bind; [apply (nst_q _ _ (resend_q _ _ _ _ _ _))|]. intros [s1 e1].
  destruct (negb (e1 =? 0)).
  { apply nst_bind; [apply (nst_q _ _ (tell_q _))|]. intros u. apply nst_ret. }
  apply nst_bind; [apply (nst_q _ _ (resend_q _ _ _ _ _ _))|]. intros [s2 e2].
  destruct (negb (e2 =? 0)).
  { apply nst_bind; [apply (nst_q _ _ (tell_q _))|]. intros u. apply nst_ret. }
  match goal with |- context [if ?b then _ else _] => destruct b end; [apply nst_fail|apply nst_ret].
Qed.

Theorem connect_islim c w p w' m :
  connect c w = Some (p, w') -> w_store w = Some m -> w_store w' = Some m /\ islim (fst p) m = islim c m.
Proof.
  intros E Hm. split; [rewrite (connect_nst c _ _ _ E); exact Hm|].
  unfold islim. rewrite (proj2 (connect_sat c _ _ _ E)). reflexivity.
Qed.

(* AdoptSession: markers kept, pendingAck empty *)
Theorem op_adopt_islim cf z1 z2 w m p w' :
  w_store w = Some m -> sorted_keys m -> mdec m -> op_adopt cf z1 z2 w = Some (p, w') ->
  exists m', w_store w' = Some m' /\ sorted_keys m' /\ mdec m' /\ meq (marks m') (marks m) /\
    t_rd w' = t_rd w /\
    match fst p with Some c' => islim c' m' = (marks m', None) /\ k_rbuf c' = [] | None => True end.
Proof.
  intros Hm Hs Hd E.
  destruct (op_adopt_tie (marks m) (fun t => t = t_rd w) cf z1 z2 w p w' m Hm) as (m' & Hm' & (A & B & C & D) & F).
  { repeat split; auto using meq_refl. }
  { exact E. }
  exists m'. repeat (split; [assumption|]).
  unfold fresh_vis in F. destruct (fst p) as [c'|]; [|exact I].
  pose proof (f_equal fst F) as F1. pose proof (f_equal snd F) as F2. cbn [vis fst snd] in F1, F2.
  unfold islim. rewrite F1. auto.
Qed.

(* every other API operation leaves pendingAck and the markers alone *)
Theorem other_ops_islim c o w p w' m :
  match o with OpRead | OpReadAll | OpPubP _ _ _ _ | OpAdopt _ _ => False | _ => True end ->
  step c o w = Some (p, w') -> w_store w = Some m ->
  w_store w' = Some m /\ islim (fst p) m = islim c m.
Proof.
  intros Ho E Hm. unfold step in E. cbv zeta in E.
  set (c0 := c <| k_done := [] |> <| k_xev := [] |>) in E.
  assert (K : forall (f : M (client * retv)), qsat f (vs c0) -> f w = Some (p, w') ->
              w_store w' = Some m /\ islim (fst p) m = islim c m).
  { intros f Hf Ef. destruct (Hf _ _ _ Ef) as [[S _] V]. split; [congruence|].
    unfold islim. rewrite (f_equal fst V : k_pack (fst p) = k_pack c0). reflexivity. }
  destruct o; try contradiction.
  - exact (K _ (op_publish_q _ _ _ _) E).
  - exact (K _ (op_subscribe_q _ _ _ _) E).
  - exact (K _ (op_subscribe_q _ _ _ _) E).
  - exact (K _ (op_ping_q _) E).
  - exact (K _ (op_quit_q _ _) E).
  - exact (K _ (op_close_q _) E).
  - exact (K _ (op_disconnect_q _) E).
  - rinv E. subst. split; [exact Hm|]. unfold islim.
    rewrite (f_equal fst (vis_op_read_backoff c0 e) : k_pack _ = k_pack c0). reflexivity.
Qed.

(* ================================================================== *)
(* 15. [cstep_in] is the client part of InboundWorld.istep             *)

(* (a) every step of the closed world acts on (marks, owed) as a [cstep_in] with the same label,
       or not at all (the broker's and the network's steps) *)
Theorem istep_client_proj w l w' : istep w l w' ->
  proj w' = proj w \/ exists k, ilab_of k = l /\ cstep_in k (proj w) (proj w').
Proof.
  intros H. destruct H; unfold proj; cbn [i_marks i_owed option_map strip];
    try (left; reflexivity).
  - right. exists (KDeliver id). split; [reflexivity|]. apply C_deliver. assumption.
  - right. exists (KDupeFail id). split; [reflexivity|]. apply C_dupe_fail. assumption.
  - right. exists (KPubrel id). split; [reflexivity|]. apply C_pubrel.
  - right. exists (KPubrelFail id). split; [reflexivity|]. apply C_pubrel_fail.
  - right. exists KFlush. split; [reflexivity|]. rewrite save_marker_strip. apply C_flush.
  - right. exists KFlushFail. split; [reflexivity|]. rewrite save_marker_strip. apply C_flush_fail.
  - right. exists KRestart. split; [reflexivity|]. apply C_restart.
Qed.

(* (b) conversely, a [cstep_in] of the projection is a step of the closed world when the
       connection offers the packet the label names; the ghost number is the one of that packet.
       The marker list of the world and the one of the projection need only agree as sets. *)
Definition input_ok (k : clab) (w : iworld) : Prop :=
  match k with
  | KDeliver id | KDupe id | KDupeFail id => i_on w = true /\ exists x q, i_b2c w = DPub id x :: q
  | KPubrel id | KPubrelFail id => i_on w = true /\ exists x q, i_b2c w = DRel id x :: q
  | KFlush => i_on w = true
  | _ => True
  end.

Theorem cstep_in_istep k s s' w :
  cstep_in k s s' -> sl_eq (proj w) s -> input_ok k w ->
  exists w', istep w (ilab_of k) w' /\ sl_eq (proj w') s'.
Proof.
  intros H [ME EO] Hin. destruct w as [mk ow on b2c c2b out nx dl ls].
  unfold proj in *. cbn [i_marks i_owed i_on i_b2c fst snd] in *.
  destruct H; cbn [fst snd input_ok ilab_of i_on i_b2c] in *.
  - destruct ow; [discriminate|]. destruct Hin as (-> & x & q & ->).
    eexists. split; [apply I_deliver; rewrite (ME id); assumption|].
    split; [exact ME|reflexivity].
  - destruct ow; [discriminate|]. destruct Hin as (-> & x & q & ->).
    eexists. split; [apply I_dupe; rewrite (ME id); assumption|].
    split; [exact ME|reflexivity].
  - destruct ow; [discriminate|]. destruct Hin as (-> & x & q & ->).
    eexists. split; [apply I_dupe_fail; rewrite (ME id); assumption|].
    split; [exact ME|reflexivity].
  - destruct ow; [discriminate|]. destruct Hin as (-> & x & q & ->).
    eexists. split; [apply I_pubrel|]. split; [apply meq_mark_del, ME|reflexivity].
  - destruct ow; [discriminate|]. destruct Hin as (-> & x & q & ->).
    eexists. split; [apply I_pubrel_fail|]. split; [apply meq_mark_del, ME|reflexivity].
  - destruct ow as [u'|]; [|discriminate]. subst on. inversion EO; subst.
    eexists. split; [apply I_flush|]. cbn [proj i_marks i_owed fst snd option_map].
    split; [|reflexivity]. rewrite save_marker_strip.
    destruct (strip u'); cbn [save_mark]; [apply meq_mark_add, ME|exact ME].
  - destruct ow as [u'|]; [|discriminate]. inversion EO; subst.
    eexists. split; [apply I_flush_fail|]. cbn [proj i_marks i_owed fst snd option_map].
    split; [|reflexivity]. rewrite save_marker_strip.
    destruct (strip u'); cbn [save_mark]; [apply meq_mark_add, ME|exact ME].
  - destruct ow as [[i x|i x]|]; try discriminate. inversion EO; subst.
    eexists. split; [apply I_save_fail|]. split; [exact ME|reflexivity].
  - eexists. split; [apply I_break|]. split; [exact ME|exact EO].
  - eexists. split; [apply I_restart|]. split; [exact ME|reflexivity].
Qed.

(* (c) the closed world does not depend on how the marker set is listed *)
Definition weq (w1 w2 : iworld) : Prop :=
  meq (i_marks w1) (i_marks w2) /\ i_owed w1 = i_owed w2 /\ i_on w1 = i_on w2 /\
  i_b2c w1 = i_b2c w2 /\ i_c2b w1 = i_c2b w2 /\ i_out w1 = i_out w2 /\ i_next w1 = i_next w2 /\
  i_deliv w1 = i_deliv w2 /\ i_lost w1 = i_lost w2.

Lemma memb_meq id a b : meq a b -> memb id a = memb id b.
Proof.
  intros H. destruct (memb id a) eqn:Ea, (memb id b) eqn:Eb; try reflexivity.
  - apply memb_in, H, memb_in in Ea. congruence.
  - apply memb_in, H, memb_in in Eb. congruence.
Qed.

Theorem istep_weq w1 w2 l w1' : weq w1 w2 -> istep w1 l w1' ->
  exists w2', istep w2 l w2' /\ weq w1' w2'.
Proof.
  intros E H. destruct w2 as [mk2 ow2 on2 b2c2 c2b2 out2 nx2 dl2 ls2].
  destruct H; destruct E as (ME & E1 & E2 & E3 & E4 & E5 & E6 & E7 & E8);
    cbn [i_marks i_owed i_on i_b2c i_c2b i_out i_next i_deliv i_lost] in *; subst;
    try (eexists; split; [econstructor; eassumption|]; unfold weq;
         cbn [i_marks i_owed i_on i_b2c i_c2b i_out i_next i_deliv i_lost];
         split; [exact ME|repeat split; reflexivity]; fail).
  - eexists. split; [apply I_deliver; rewrite <- (ME id); assumption|]. unfold weq.
    cbn [i_marks i_owed i_on i_b2c i_c2b i_out i_next i_deliv i_lost]. split; [exact ME|repeat split; reflexivity].
  - eexists. split; [apply I_dupe; rewrite <- (ME id); assumption|]. unfold weq.
    cbn [i_marks i_owed i_on i_b2c i_c2b i_out i_next i_deliv i_lost]. split; [exact ME|repeat split; reflexivity].
  - eexists. split; [apply I_dupe_fail; rewrite <- (ME id); assumption|]. unfold weq.
    cbn [i_marks i_owed i_on i_b2c i_c2b i_out i_next i_deliv i_lost]. split; [exact ME|repeat split; reflexivity].
  - eexists. split; [apply I_pubrel|]. unfold weq. cbn [i_marks i_owed i_on i_b2c i_c2b i_out i_next i_deliv i_lost].
    split; [apply meq_mark_del, ME|repeat split; reflexivity].
  - eexists. split; [apply I_pubrel_fail|]. unfold weq. cbn [i_marks i_owed i_on i_b2c i_c2b i_out i_next i_deliv i_lost].
    split; [apply meq_mark_del, ME|repeat split; reflexivity].
  - eexists. split; [apply I_flush|]. unfold weq. cbn [i_marks i_owed i_on i_b2c i_c2b i_out i_next i_deliv i_lost].
    split; [|repeat split; reflexivity]. destruct u; cbn [save_marker]; [apply meq_mark_add, ME|exact ME].
  - eexists. split; [apply I_flush_fail|]. unfold weq. cbn [i_marks i_owed i_on i_b2c i_c2b i_out i_next i_deliv i_lost].
    split; [|repeat split; reflexivity]. destruct u; cbn [save_marker]; [apply meq_mark_add, ME|exact ME].
  - eexists. split; [apply I_restart|]. unfold weq. cbn [i_marks i_owed i_on i_b2c i_c2b i_out i_next i_deliv i_lost].
    split; [exact ME|]. repeat split; try reflexivity.
    unfold lost_after. destruct ow2 as [[i x|i x]|]; try reflexivity. rewrite (memb_meq i _ _ ME). reflexivity.
Qed.

(* ================================================================== *)
(* 16. A concrete run                                                  *)

Definition tie_pub2 : list N := [52; 6; 0; 1; 97; 0; 9; 120].    (* PUBLISH QoS 2, topic "a", id 9, "x" *)
Definition tie_pub0 : list N := [48; 4; 0; 1; 97; 121].          (* PUBLISH QoS 0, topic "a", "y" *)
Definition tie_rel : list N := [98; 2; 0; 9].                    (* PUBREL id 9 *)

Definition tie_world : world :=
  mkWorld [] [false; false; false; false] (Some []) [] [(4, WOk); (4, WOk); (4, WOk)]
          [RData tie_pub2; RData tie_pub0; RData tie_pub2; RData tie_pub0; RData tie_rel; RData tie_pub0] [].

Fixpoint tie_exec (n : nat) (c : client) (w : world) : list (option (retv * sl)) :=
  match n with
  | O => []
  | S n' =>
    match step c OpRead w with
    | Some ((c', r), w') =>
      match w_store w' with
      | Some m' => Some (r, islim c' m') :: tie_exec n' c' w'
      | None => [None]
      end
    | None => [None]
    end
  end.

(* delivery (nothing saved, PUBREC 9 pending), flush (marker 9), duplicate suppressed and
   confirmed, PUBREL (marker deleted, PUBCOMP written); a QoS 0 message ends each call *)
Example tie_example :
  tie_exec 4 ex_client tie_world =
  [ Some (RetMsg [97] [120], ([], Some (ARec 9)));
    Some (RetMsg [97] [121], ([9], None));
    Some (RetMsg [97] [121], ([9], None));
    Some (RetMsg [97] [121], ([], None)) ].
Proof. vm_compute. reflexivity. Qed.

Example tie_example_ok : tie_ok ex_client tie_world [].
Proof.
  split; [reflexivity|]. split; [exact I|]. split; [apply mdec_nil|]. split; [constructor|].
  unfold tie_world, tape_ok. cbn [t_rd].
  repeat (constructor; [unfold chunk_ok; cbn [chunk_data]; repeat (constructor; [unfold isbyte; lia|]); constructor|]).
  constructor.
Qed.

(* the write of the PUBCOMP fails: marker deleted all the same, PUBCOMP 9 pending, offline *)
Definition tie_world_fail : world :=
  mkWorld [] [false; false; false] (Some []) [] [(4, WOk); (0, WHard)]
          [RData tie_pub2; RData tie_pub0; RData tie_rel] [].
Example tie_example_fail :
  tie_exec 3 ex_client tie_world_fail =
  [ Some (RetMsg [97] [120], ([], Some (ARec 9)));
    Some (RetMsg [97] [121], ([9], None));
    Some (RetErr (E_submit WHard), ([], Some (AComp 9))) ].
Proof. vm_compute. reflexivity. Qed.