(* C19: executable case checker used by the correspondence run (strace on the real
   fileSystem code).  Counts in case terms are [N] (values go up to MiB). *)
From MQ Require Export Bytes FS.
From MQ Require Import C15Check.

(* what Load returned in a fresh process *)
Inductive oload := LAbsent | LValue (v : list N) | LErr.

(* one system call on the store directory as strace showed it (failed calls included).
   OWrite: the byte count accepted when ok, the byte count offered when refused. *)
Inductive ocall :=
| OCreat (n : fname) (ok : bool)
| OWrite (n : fname) (cnt : N) (ok : bool)
| OFsync (n : fname) (ok : bool)
| OClose (n : fname) (ok : bool)
| ORename (a b : fname) (ok : bool)
| OUnlink (n : fname) (ok : bool)
| ORmdir (n : fname) (ok : bool)
| OOther (n : fname).          (* a call on the directory outside the vocabulary *)

(* what the harness injected into the run *)
Inductive injection :=
| INone
| ICreat                      (* openat of the spool file fails *)
| IWrite (i : N)              (* the write of buffer i fails, nothing accepted *)
| IFsync
| IClose
| IRename
| IFsize (lim : N).           (* RLIMIT_FSIZE = lim, SIGXFSZ ignored: partial write, EFBIG *)

(* where the process was stopped *)
Inductive stop :=
| AtCall (i : N)              (* SIGKILL at the entry of store call i+1: i calls completed *)
| AtBytes (lim : N).          (* RLIMIT_FSIZE = lim with SIGXFSZ at its default: killed in the data *)

(* file names and contents found in the store directory *)
Definition odir := list (fname * list N).

(* Load of a very large value, compared with the values handed in by the harness *)
Inductive bigobs := BAbsent | BOld | BNew | BOther.

(* what one goroutine did to the key it owns, with what it saw *)
Inductive cop :=
| CSave (bufs : list (list N)) (ok : bool)
| CDelete (ok : bool)
| CLoad (r : oload)
| CListed (present : bool).

Inductive c19case :=
(* Save(k, bufs) on directory pre under an injected fault: calls seen, result, directory after *)
| SaveSeq (k : N) (bufs : list (list N)) (inj : injection) (leak : bool) (pre : odir)
          (calls : list ocall) (ret_ok : bool) (post : odir)
(* Delete(k); fails: unlinkat made to fail *)
| DelSeq (k : N) (fails : bool) (pre : odir) (calls : list ocall) (ret_ok : bool) (post : odir)
(* Save stopped at st; then a fresh process: Load(k), List, Load of every listed key *)
| SaveKill (k : N) (bufs : list (list N)) (pre : odir) (st : stop)
           (ld : oload) (listed : list (N * oload))
| DelKill (k : N) (pre : odir) (st : stop) (ld : oload) (listed : list (N * oload))
(* SaveKill together with the calls strace recorded for the same Save when it was not stopped
   ([dry], failed calls included): the view is compared with the executable model's calls cut
   at st and, failing that, with the RECORDED calls cut at st, provided they are disciplined *)
| SaveKillG (k : N) (bufs : list (list N)) (pre : odir) (dry : list ocall) (st : stop)
            (ld : oload) (listed : list (N * oload))
(* the same for values too large for a literal: only key k in the directory;
   nbufs buffers of total bytes in all *)
| BigKill (k : N) (has_old : bool) (nbufs : N) (total : N) (st : stop) (obs : bigobs)
          (listed_loadable : bool)
(* BigKill together with the calls recorded for the same Save when it was not stopped *)
| BigKillG (k : N) (has_old : bool) (nbufs : N) (total : N) (dry : list ocall) (st : stop)
           (obs : bigobs) (listed_loadable : bool)
(* List on a directory with arbitrary names, and Load of every listed key *)
| ListCase (pre : odir) (listed : list (N * oload))
(* concurrent run: the operations of the one goroutine that owns key k (absent at first),
   while other goroutines work on other keys *)
| ConcCase (k : N) (ops : list cop).

(* ---- helpers ---- *)

(* long byte strings are written as a concatenation of [B] literals of at most 1024 bytes
   (one literal of several thousand bytes overflows the stack of coqc) *)
Definition bcat (l : list (list N)) : list N := concat l.

Definition oload_eqb (a b : oload) : bool :=
  match a, b with
  | LAbsent, LAbsent => true
  | LValue v, LValue w => list_eqb v w
  | LErr, LErr => true
  | _, _ => false
  end.

Definition ocall_eqb (a b : ocall) : bool :=
  match a, b with
  | OCreat n o, OCreat n' o' => name_eqb n n' && Bool.eqb o o'
  | OWrite n c o, OWrite n' c' o' => name_eqb n n' && N.eqb c c' && Bool.eqb o o'
  | OFsync n o, OFsync n' o' => name_eqb n n' && Bool.eqb o o'
  | OClose n o, OClose n' o' => name_eqb n n' && Bool.eqb o o'
  | ORename a1 b1 o, ORename a2 b2 o' => name_eqb a1 a2 && name_eqb b1 b2 && Bool.eqb o o'
  | OUnlink n o, OUnlink n' o' => name_eqb n n' && Bool.eqb o o'
  | ORmdir n o, ORmdir n' o' => name_eqb n n' && Bool.eqb o o'
  | _, _ => false
  end.

Fixpoint ocalls_eqb (a b : list ocall) : bool :=
  match a, b with
  | [], [] => true
  | x :: r, y :: s => ocall_eqb x y && ocalls_eqb r s
  | _, _ => false
  end.

Definition proj_att (a : attempt) : ocall :=
  match a with
  | (Creat n, ok) => OCreat n ok
  | (Write n b, ok) => OWrite n (len b) ok
  | (Fsync n, ok) => OFsync n ok
  | (Close n, ok) => OClose n ok
  | (Rename x y, ok) => ORename x y ok
  | (Unlink n, ok) => OUnlink n ok
  | (Rmdir n, ok) => ORmdir n ok
  end.

Fixpoint olookup (n : fname) (o : odir) : option (list N) :=
  match o with
  | [] => None
  | (m, v) :: r => if name_eqb n m then Some v else olookup n r
  end.

Definition oload_of (o : option (list N)) : oload :=
  match o with Some v => LValue v | None => LAbsent end.

Definition opt_eqb (a b : option (list N)) : bool := oload_eqb (oload_of a) (oload_of b).

Definition odir_sub (a b : odir) : bool :=
  forallb (fun e => match olookup (fst e) b with
                    | Some v => list_eqb (snd e) v
                    | None => false
                    end) a.
Definition odir_eqb (a b : odir) : bool := odir_sub a b && odir_sub b a.

(* files found on disk are taken as flushed; the bit plays no role in what is compared *)
Definition dir_of (o : odir) : dir := map (fun e => (fst e, mkfile (snd e) true)) o.
Definition data_of (d : dir) : odir := map (fun e => (fst e, fdata (snd e))) d.

Definition fault_of (inj : injection) (bufs : list (list N)) : fault :=
  match inj with
  | INone => NoFault
  | ICreat => CreatFails
  | IWrite i => WriteFails (N.to_nat i) 0
  | IFsync => FsyncFails
  | IClose => CloseFails
  | IRename => RenameFails
  | IFsize lim => fsize_fault (N.to_nat lim) bufs 0
  end.

Definition stop_calls (st : stop) (l : list syscall) : list syscall :=
  match st with
  | AtCall i => cut_calls (N.to_nat i) l
  | AtBytes lim => cut_bytes (N.to_nat lim) l
  end.

Definition mem_N (k : N) (l : list N) : bool := existsb (N.eqb k) l.
Definition same_keys (a b : list N) : bool :=
  forallb (fun k => mem_N k b) a && forallb (fun k => mem_N k a) b.

(* the fresh process' view agrees with the model directory d *)
Definition view_agree (k : N) (d : dir) (ld : oload) (listed : list (N * oload)) : bool :=
  oload_eqb (oload_of (load k d)) ld
  && same_keys (map fst listed) (list_keys d)
  && forallb (fun e => oload_eqb (oload_of (load (fst e) d)) (snd e)) listed.

(* sequential run of one owner's operations in the model *)
Fixpoint conc_agree (k : N) (d : dir) (ops : list cop) : bool :=
  match ops with
  | [] => true
  | CSave bufs ok :: r => ok && conc_agree k (run d (save_calls k bufs NoFault false)) r
  | CDelete ok :: r => ok && conc_agree k (run d (delete_calls k)) r
  | CLoad o :: r => oload_eqb (oload_of (load k d)) o && conc_agree k d r
  | CListed p :: r => Bool.eqb (mem_N k (list_keys d)) p && conc_agree k d r
  end.


(* Nothing becomes visible under the key name except by a rename of the spool file that
   was fsynced after its last write and holds [total] bytes. State: bytes in the spool
   file, whether an fsync covers them, whether the rename happened. *)
Fixpoint visible_ok (kn sp : fname) (total : N) (calls : list ocall)
         (cnt : N) (synced renamed : bool) : bool * bool :=
  match calls with
  | [] => (true, renamed)
  | c :: r =>
      match c with
      | OCreat n true =>
          if name_eqb n kn then (false, renamed)
          else if name_eqb n sp then visible_ok kn sp total r 0 false renamed
          else visible_ok kn sp total r cnt synced renamed
      | OWrite n w true =>
          if name_eqb n kn then (false, renamed)
          else if name_eqb n sp then visible_ok kn sp total r (cnt + w) false renamed
          else visible_ok kn sp total r cnt synced renamed
      | OFsync n true =>
          if name_eqb n sp then visible_ok kn sp total r cnt true renamed
          else visible_ok kn sp total r cnt synced renamed
      | ORename a b true =>
          if name_eqb b kn then
            if name_eqb a sp && synced && N.eqb cnt total
            then visible_ok kn sp total r cnt synced true
            else (false, renamed)
          else visible_ok kn sp total r cnt synced renamed
      | OOther n =>
          (* an open outside the vocabulary (not create-or-truncate): harmless on the directory
             or on other names (what is written through it is seen by name, and others_same
             compares the other entries); on the key or its spool file the access is unknown *)
          if name_eqb n kn || name_eqb n sp then (false, renamed)
          else visible_ok kn sp total r cnt synced renamed
      | _ => visible_ok kn sp total r cnt synced renamed
      end
  end.

(* 1-based position of the rename of the spool file onto the key file *)
Fixpoint rename_pos (kn sp : fname) (calls : list ocall) (i : N) : option N :=
  match calls with
  | [] => None
  | ORename a b true :: r => if name_eqb a sp && name_eqb b kn then Some (i + 1) else rename_pos kn sp r (i + 1)
  | _ :: r => rename_pos kn sp r (i + 1)
  end.

Definition big_obs_agree (new_visible has_old : bool) (obs : bigobs) : bool :=
  match obs with
  | BNew => new_visible
  | BOld => negb new_visible && has_old
  | BAbsent => negb new_visible && negb has_old
  | BOther => false
  end.

(* ---- the tie to the CLASS of disciplined traces (FSDiscipline) ----
   The calls strace recorded, with the contents of the data writes rebuilt from the record:
   the descriptor writes sequentially, so the piece at offset [off] of [data] is what a write
   of cnt bytes carried (the directory found afterwards is compared, which checks this).
   Failed calls have no effect and are dropped; a creat starts the file anew. *)
Fixpoint rebuild (data : list N) (off : nat) (calls : list ocall) : list syscall :=
  match calls with
  | [] => []
  | OCreat n true :: r => Creat n :: rebuild data 0 r
  | OWrite n cnt true :: r =>
      let c := N.to_nat cnt in Write n (firstn c (skipn off data)) :: rebuild data (off + c) r
  | OFsync n true :: r => Fsync n :: rebuild data off r
  | OClose n true :: r => Close n :: rebuild data off r
  | ORename a b true :: r => Rename a b :: rebuild data off r
  | OUnlink n true :: r => Unlink n :: rebuild data off r
  | ORmdir n true :: r => Rmdir n :: rebuild data off r
  | _ :: r => rebuild data off r
  end.

(* no call outside the vocabulary on the key file or its spool file *)
Definition no_other_on (kn sp : fname) (calls : list ocall) : bool :=
  forallb (fun c => match c with
                    | OOther n => negb (name_eqb n kn || name_eqb n sp)
                    | _ => true
                    end) calls.

(* the recorded calls of a Save are a disciplined trace for (k, concat bufs) *)
Definition dry_disciplined (k : N) (bufs : list (list N)) (calls : list ocall) : bool :=
  no_other_on (key_name k) (spool_name k) calls
  && disciplined (key_name k) (spool_name k) (concat bufs) dst0 (rebuild (concat bufs) 0 calls).

(* Save under a fault, judged against the class instead of the one executable member: the
   recorded calls are disciplined, Save returned nil exactly when the rename happened, and the
   directory found afterwards is the model directory after the recorded calls *)
Definition save_seq_gen (k : N) (bufs : list (list N)) (pre : odir) (calls : list ocall)
           (ret_ok : bool) (post : odir) : bool :=
  let l := rebuild (concat bufs) 0 calls in
  dry_disciplined k bufs calls
  && Bool.eqb ret_ok (renamed_in (key_name k) (spool_name k) l)
  && odir_eqb (data_of (run (dir_of pre) l)) post.

Definition c19_agree (c : c19case) : bool :=
  match c with
  | SaveSeq k bufs inj leak pre calls ret_ok post =>
      let f := fault_of inj bufs in
      (ocalls_eqb (map proj_att (fst (save_atts k bufs f leak))) calls
       && Bool.eqb (save_ok k bufs f leak) ret_ok
       && odir_eqb (data_of (run (dir_of pre) (save_calls k bufs f leak))) post)
      || save_seq_gen k bufs pre calls ret_ok post
  | DelSeq k fails pre calls ret_ok post =>
      let present := match olookup (key_name k) pre with Some _ => true | None => false end in
      let atts := delete_atts k present fails in
      ocalls_eqb (map proj_att atts) calls
      && Bool.eqb (delete_ok present fails) ret_ok
      && odir_eqb (data_of (run (dir_of pre) (effects atts))) post
  | SaveKill k bufs pre st ld listed =>
      view_agree k (run (dir_of pre) (stop_calls st (save_calls k bufs NoFault false))) ld listed
  | DelKill k pre st ld listed =>
      view_agree k (run (dir_of pre) (stop_calls st (delete_calls k))) ld listed
  | SaveKillG k bufs pre dry st ld listed =>
      view_agree k (run (dir_of pre) (stop_calls st (save_calls k bufs NoFault false))) ld listed
      || (dry_disciplined k bufs dry
          && view_agree k (run (dir_of pre) (stop_calls st (rebuild (concat bufs) 0 dry))) ld listed)
  | BigKill k has_old nbufs total st obs _ =>
      (* FSProofs.save_cut_calls_closed / save_cut_bytes_closed *)
      let new_visible := match st with
                         | AtCall i => negb (i <=? nbufs + 3)
                         | AtBytes lim => negb (lim <? total)
                         end in
      match obs with
      | BNew => new_visible
      | BOld => negb new_visible && has_old
      | BAbsent => negb new_visible && negb has_old
      | BOther => false
      end
  | BigKillG k has_old nbufs total dry st obs _ =>
      big_obs_agree (match st with
                     | AtCall i => negb (i <=? nbufs + 3)
                     | AtBytes lim => negb (lim <? total)
                     end) has_old obs
      || (let kn := key_name k in
          let sp := spool_name k in
          (* by counts: the recorded calls keep the discipline, and the new value is visible
             from the rename on *)
          fst (visible_ok kn sp total dry 0 false false)
          && match rename_pos kn sp dry 0 with
             | Some r => big_obs_agree (match st with
                                        | AtCall i => r <=? i
                                        | AtBytes lim => negb (lim <? total)
                                        end) has_old obs
             | None => false
             end)
  | ListCase pre listed =>
      let d := dir_of pre in
      same_keys (map fst listed) (list_keys d)
      && forallb (fun e => oload_eqb (oload_of (load (fst e) d)) (snd e)) listed
  | ConcCase k ops => conc_agree k [] ops
  end.

(* ---- the property, judged on the observation alone ---- *)

(* entries under other names are the same in both directories *)
Definition others_same (kn sp : fname) (a b : odir) : bool :=
  let other e := negb (name_eqb (fst e) kn) && negb (name_eqb (fst e) sp) in
  odir_sub (filter other a) b && odir_sub (filter other b) a.

Definition is_value (o : oload) : bool := match o with LValue _ => true | _ => false end.

(* fresh-process view after a stop: Load(k) is old or new; every listed key loads; every
   other key is listed and loads exactly as before (names below 2^17 with 5 characters) *)
Definition view_ok (k : N) (pre : odir) (new : option (list N)) (ld : oload)
           (listed : list (N * oload)) : bool :=
  let old := oload_of (olookup (key_name k) pre) in
  (oload_eqb ld old || match new with Some v => oload_eqb ld (LValue v) | None => oload_eqb ld LAbsent end)
  && forallb (fun e => is_value (snd e)) listed
  && forallb (fun e => N.eqb (fst e) k
                       || oload_eqb (snd e) (oload_of (olookup (key_name (fst e)) pre))) listed
  && forallb (fun e => match parse_key (fst e) with
                       | Some k' => N.eqb k' k || mem_N k' (map fst listed)
                       | None => true
                       end) pre.

(* names the store itself creates *)
Definition key_nameb (n : fname) : bool :=
  match parse_hex_from 0 n with Some k => name_eqb (key_name k) n | None => false end.
Definition store_nameb (n : fname) : bool :=
  key_nameb n
  || (let m := (length n - 6)%nat in
      name_eqb (skipn m n) spool_suffix && key_nameb (firstn m n)).

(* one owner: every Load sees the last value saved (or nothing after Delete), List agrees *)
Fixpoint conc_ok (cur : option (list N)) (k : N) (ops : list cop) : bool :=
  match ops with
  | [] => true
  | CSave bufs ok :: r => ok && conc_ok (Some (concat bufs)) k r
  | CDelete ok :: r => ok && conc_ok None k r
  | CLoad o :: r => oload_eqb o (oload_of cur) && conc_ok cur k r
  | CListed p :: r =>
      Bool.eqb p (match cur with Some _ => k <? key_limit | None => false end) && conc_ok cur k r
  end.

Definition c19_ok (c : c19case) : bool :=
  match c with
  | SaveSeq k bufs inj leak pre calls ret_ok post =>
      let kn := key_name k in
      let sp := spool_name k in
      let new := concat bufs in
      let (vis, renamed) := visible_ok kn sp (len new) calls 0 false false in
      vis
      && (if ret_ok
          then renamed && opt_eqb (olookup kn post) (Some new)
          else negb renamed && opt_eqb (olookup kn post) (olookup kn pre))
      && others_same kn sp pre post
  | DelSeq k fails pre calls ret_ok post =>
      let kn := key_name k in
      (if ret_ok then opt_eqb (olookup kn post) None
       else opt_eqb (olookup kn post) (olookup kn pre))
      && others_same kn kn pre post
  | SaveKill k bufs pre st ld listed => view_ok k pre (Some (concat bufs)) ld listed
  | DelKill k pre st ld listed => view_ok k pre None ld listed
  | SaveKillG k bufs pre _ st ld listed => view_ok k pre (Some (concat bufs)) ld listed
  | BigKill k has_old nbufs total st obs listed_loadable =>
      listed_loadable
      && match obs with
         | BNew => true
         | BOld => has_old
         | BAbsent => negb has_old
         | BOther => false
         end
  | BigKillG k has_old nbufs total _ st obs listed_loadable =>
      listed_loadable
      && match obs with
         | BNew => true
         | BOld => has_old
         | BAbsent => negb has_old
         | BOther => false
         end
  | ListCase pre listed =>
      (* claimed for store-created names only; with foreign names the case only feeds c19_agree *)
      if forallb (fun e => store_nameb (fst e)) pre
      then forallb (fun e => is_value (snd e)) listed
      else true
  | ConcCase k ops => conc_ok None k ops
  end.

(* (indices where model and implementation disagree,
    indices where the property fails on the observation,
    (index, finding number) for failures that match a recorded finding) *)
Definition c19_run (l : list c19case) : list N * list N * list (N * N) :=
  (idx_filter c19_agree l 0, idx_filter c19_ok l 0, []).
