(* L2 top level: every reachable state of the closed system (client + genuine
   Persistence) satisfies the outbound invariant, for every history of API calls under
   every environment script (fault sequences, fragmentations, broker behaviour). *)
From Coq Require Import ZArith Lia.
From RecordUpdate Require Import RecordUpdate.
From MQ Require Import Session Outbound OutboundInv OutboundRefine RecordProofs.

Definition cfg_ok (cf : scfg) : Prop := s_max1 cf <= 16384 /\ s_max2 cf <= 16384.

Lemma init_sys_ost cf cid tp s0 :
  init_sys cf cid tp = Some s0 ->
  ost_of s0 = mkOst (s_max1 cf) (s_max2 cf) 0 0 0 [] 0 0 0 0 [] false false 1 [(0, encode_value cid 1)].
Proof.
  unfold init_sys, op_init. intros H.
  destruct (deny_of (string_check cid)); [cbv [ret] in H; discriminate|].
  unfold bind, ask_store, world_of in H. cbn [w_store t_stf] in H.
  destruct (tp_stf tp) as [|[|] fl]; cbn in H; try discriminate.
  unfold rugged_save, bind, ask_store, ret in H. cbn in H.
  destruct fl as [|[|] fl']; cbn in H; try discriminate.
  inversion H; subst. reflexivity.
Qed.

(* C01 C03 C05 C17 rest on this: the invariant holds in every reachable state, as long as the
   64-bit storage counter has not overflowed (2^64 Saves). *)
Theorem reachable_inv : forall cf cid tp0 s0 h,
  cfg_ok cf -> init_sys cf cid tp0 = Some s0 ->
  Forall (fun p => op_wf (fst p)) h ->
  o_rseq (ost_of (run s0 h)) < M64 ->
  OInv' (ost_of (run s0 h)).
Proof.
  intros cf cid tp0 s0 h [Hm1 Hm2] Hi Hh Hr.
  eapply oinv_steps; [|apply run_refines; exact Hh|exact Hr].
  rewrite (init_sys_ost _ _ _ _ Hi). apply oinv_init; assumption.
Qed.

(* reachable states of the closed system under well-formed operations, storage counter not overflowed *)
Definition reachable_wf (s : sys) : Prop :=
  exists cf cid tp0 s0 h,
    cfg_ok cf /\ init_sys cf cid tp0 = Some s0 /\ Forall (fun p => op_wf (fst p)) h /\
    s = run s0 h /\ o_rseq (ost_of s) < M64.

Theorem reachable_wf_inv s : reachable_wf s -> OInv' (ost_of s).
Proof.
  intros (cf & cid & tp0 & s0 & h & Hc & Hi & Hh & -> & Hr).
  eapply reachable_inv; eassumption.
Qed.

(* one more API call from a reachable state: a sequence of abstract transitions, each preserving the invariant *)
Theorem reachable_step s o tp s' r log :
  reachable_wf s -> op_wf o -> exec s o tp = Some (s', r, log) -> o_rseq (ost_of s') < M64 ->
  osteps (ost_of s) (ost_of s') /\ OInv' (ost_of s').
Proof.
  intros Hr Hw He Hb. pose proof (exec_refines _ _ _ _ _ _ He Hw) as Hs.
  split; [exact Hs|]. eapply oinv_steps; [apply reachable_wf_inv; exact Hr|exact Hs|exact Hb].
Qed.

Example reachable_nonvacuous :
  exists s0, init_sys (mkScfg {| cfg_user := []; cfg_pass := None; cfg_will := None; cfg_keepalive := 0; cfg_clean := false |}
                              true 4 4 256 1000 1000) [99] (mkTapes [false; false] [] [] []) = Some s0.
Proof. eexists. vm_compute. reflexivity. Qed.
