(* L2: mixed histories -- API calls interleaved with process stop + AdoptSession, any
   number of times.

   [SessionTheorems.reachable_inv] covers histories without [OpAdopt]; [AdoptProofs.adopt_exact]
   and [adopts_inv] take [known_keys] and [markers_genuine] as hypotheses.  This file closes
   the gap between the two:

   known_keys_step, markers_genuine_step    both side conditions are kept by every abstract step
                                            (the second needs ascending keys, which OInv' has:
                                            [markers_genuine_step_needs_sorted]); _steps, _init
   Good                                     := OInv' /\ known_keys /\ markers_genuine
   good_init, good_step, good_steps
   purge_decodable_id, good_all_decode,     a failed AdoptSession on the store of a Good state
   good_purge_id                            deletes nothing
   exec_adopt_good, exec_good               ONE API call of any kind, adoption included, keeps Good
   exec_adopt_exact                         adopt_exact as a call of the closed system
   run_good, run_states_good,               every state reached by any mixed history is Good,
   reachable_good_mixed(_all)               given the storage counter below 2^64 along the run
   adopt_exact_reachable,                   C02 at every state reached by a mixed history; the
   adopt_exec_reachable                     state after the adoption is such a state again
   mixed_nonvacuous                         publish, stop+adopt, publish, stop+adopt, publish:
                                            all hypotheses hold (vm_compute).
   Proofs only, plus the small definitions Good, all_decode, run_states, run_rets,
   rseq_bounded(_b), reachable_mixed and the example history. *)
From Coq Require Import ZArith ZifyN ZifyNat ZifyBool Lia List.
From RecordUpdate Require Import RecordUpdate.
From MQ Require Import RecordProofs OutboundInv OutboundRefine AdoptProofs SessionTheorems.
Ltac Zify.zify_post_hook ::= Z.div_mod_to_equations.

#[local] Arguments key1 : simpl never.
#[local] Arguments key2 : simpl never.
#[local] Arguments in_space : simpl never.
#[local] Arguments holds : simpl never.
#[local] Arguments len : simpl never.
#[local] Arguments encode_value : simpl never.
#[local] Arguments pub1_packet : simpl never.
#[local] Arguments pub2_packet : simpl never.
#[local] Arguments packet_pubrel : simpl never.
#[local] Arguments topic_check : simpl never.
#[local] Arguments publish_size : simpl never.
#[local] Arguments N.testbit : simpl never.
#[local] Arguments N.max : simpl never.

(* ================================================================== *)
(* 1. The two side conditions of adopt_exact are kept by every step    *)

Lemma marker_known k :
  N.testbit k 16 = true ->
  k = 0 \/ N.testbit k 16 = true \/ in_space k alo_space \/ in_space k eo_space.
Proof. auto. Qed.
Lemma key1_known n :
  key1 n = 0 \/ N.testbit (key1 n) 16 = true \/ in_space (key1 n) alo_space \/ in_space (key1 n) eo_space.
Proof. right; right; left. apply key1_space. Qed.
Lemma key2_known n :
  key2 n = 0 \/ N.testbit (key2 n) 16 = true \/ in_space (key2 n) alo_space \/ in_space (key2 n) eo_space.
Proof. right; right; right. apply key2_space. Qed.

(* no condition on the store: a deletion only removes bindings *)
Theorem known_keys_step : forall st st', ostep st st' -> known_keys st -> known_keys st'.
Proof.
  unfold known_keys. intros st st' Hstep Hk.
  ost_cases Hstep st; intros k' v' Hg; try exact (Hk k' v' Hg).
  - rewrite store_get_put in Hg.
    destruct (N.eqb_spec k' (key1 ac1)) as [->|]; [apply key1_known|exact (Hk k' v' Hg)].
  - rewrite store_get_put in Hg.
    destruct (N.eqb_spec k' (key2 ac2)) as [->|]; [apply key2_known|exact (Hk k' v' Hg)].
  - destruct (N.eq_dec k' (key1 ak)) as [->|Hne]; [apply key1_known|].
    rewrite store_get_del_neq in Hg by exact Hne. exact (Hk k' v' Hg).
  - rewrite store_get_put in Hg.
    destruct (N.eqb_spec k' (key2 rc)) as [->|]; [apply key2_known|exact (Hk k' v' Hg)].
  - destruct (N.eq_dec k' (key2 cp)) as [->|Hne]; [apply key2_known|].
    rewrite store_get_del_neq in Hg by exact Hne. exact (Hk k' v' Hg).
  - rewrite store_get_put in Hg.
    destruct (N.eqb_spec k' k) as [->|]; [apply marker_known; assumption|exact (Hk k' v' Hg)].
  - destruct (N.eq_dec k' k) as [->|Hne]; [apply marker_known; assumption|].
    rewrite store_get_del_neq in Hg by exact Hne. exact (Hk k' v' Hg).
Qed.

(* [store_del] removes the first binding only, so the keys must be ascending
   (part of OInv'; kept by every step: [sorted_step]) *)
Theorem markers_genuine_step : forall st st',
  ostep st st' -> sorted_keys (o_store st) -> markers_genuine st -> markers_genuine st'.
Proof.
  unfold markers_genuine. intros st st' Hstep Hsort Hm.
  assert (W : forall (rs rs' : N) (v' : list N), rs <= rs' ->
            (exists p sq, v' = encode_value p sq /\ sq <= rs) ->
            exists p sq, v' = encode_value p sq /\ sq <= rs').
  { intros rs0 rs' v' Hle (p & sq & E & Hsq). exists p, sq. split; [exact E|lia]. }
  ost_cases Hstep st; intros k' v' Hg Hb; try exact (Hm k' v' Hg Hb).
  - rewrite store_get_put in Hg. destruct (N.eqb_spec k' (key1 ac1)) as [->|].
    + rewrite key1_bit in Hb. discriminate.
    + apply (W rs (rs + 1) v'); [lia|exact (Hm k' v' Hg Hb)].
  - rewrite store_get_put in Hg. destruct (N.eqb_spec k' (key2 ac2)) as [->|].
    + rewrite key2_bit in Hb. discriminate.
    + apply (W rs (rs + 1) v'); [lia|exact (Hm k' v' Hg Hb)].
  - apply (W rs (rs + 1) v'); [lia|exact (Hm k' v' Hg Hb)].
  - rewrite (store_get_del _ _ _ Hsort) in Hg.
    destruct (k' =? key1 ak); [discriminate|exact (Hm k' v' Hg Hb)].
  - rewrite store_get_put in Hg. destruct (N.eqb_spec k' (key2 rc)) as [->|].
    + rewrite key2_bit in Hb. discriminate.
    + apply (W rs (rs + 1) v'); [lia|exact (Hm k' v' Hg Hb)].
  - rewrite (store_get_del _ _ _ Hsort) in Hg.
    destruct (k' =? key2 cp); [discriminate|exact (Hm k' v' Hg Hb)].
  - rewrite store_get_put in Hg. destruct (N.eqb_spec k' k) as [->|].
    + inversion Hg; subst v'. exists v, (rs + 1). split; [reflexivity|lia].
    + apply (W rs (rs + 1) v'); [lia|exact (Hm k' v' Hg Hb)].
  - rewrite (store_get_del _ _ _ Hsort) in Hg.
    destruct (k' =? k); [discriminate|exact (Hm k' v' Hg Hb)].
Qed.

(* the condition cannot be dropped: with a doubled marker key, deleting the first
   binding uncovers whatever the second one holds *)
Theorem markers_genuine_step_needs_sorted :
  exists st st', ostep st st' /\ markers_genuine st /\ ~ markers_genuine st'.
Proof.
  set (st := mkOst 1 1 0 0 0 [] 0 0 0 0 [] false false 1
                   [(65536, encode_value [1] 1); (65536, [])]).
  exists st. eexists. split; [exact (OS_marker_del st 65536 eq_refl)|]. split.
  - intros k v Hg Hb. cbn [st o_store store_get] in Hg.
    destruct (65536 =? k); [|discriminate].
    inversion Hg; subst v. exists [1], 1. split; [reflexivity|cbn; lia].
  - intros Hm. destruct (Hm 65536 [] eq_refl eq_refl) as (p & sq & E & _).
    apply (f_equal (@length N)) in E. unfold encode_value in E. cbv zeta in E.
    rewrite !app_length in E. unfold le64 in E. rewrite le_n_length in E. cbn [length] in E. lia.
Qed.

Theorem known_keys_steps : forall st st', osteps st st' -> known_keys st -> known_keys st'.
Proof.
  induction 1 as [st|a b c Hab Hbc IH]; intros Hk; [exact Hk|].
  apply IH. exact (known_keys_step _ _ Hab Hk).
Qed.

Lemma sorted_steps st st' : osteps st st' -> sorted_keys (o_store st) -> sorted_keys (o_store st').
Proof.
  induction 1 as [st|a b c Hab Hbc IH]; intros Hs; [exact Hs|].
  apply IH. exact (sorted_step _ _ Hs Hab).
Qed.

Theorem markers_genuine_steps : forall st st',
  osteps st st' -> sorted_keys (o_store st) -> markers_genuine st -> markers_genuine st'.
Proof.
  induction 1 as [st|a b c Hab Hbc IH]; intros Hs Hm; [exact Hm|].
  apply IH; [exact (sorted_step _ _ Hs Hab)|exact (markers_genuine_step _ _ Hab Hs Hm)].
Qed.

(* the state InitSession leaves *)
Lemma known_keys_init max1 max2 cid :
  known_keys (mkOst max1 max2 0 0 0 [] 0 0 0 0 [] false false 1 [(0, encode_value cid 1)]).
Proof.
  intros k v Hg. cbn [o_store store_get] in Hg.
  destruct (N.eqb_spec 0 k) as [<-|]; [left; reflexivity|discriminate].
Qed.

Lemma markers_genuine_init max1 max2 cid :
  markers_genuine (mkOst max1 max2 0 0 0 [] 0 0 0 0 [] false false 1 [(0, encode_value cid 1)]).
Proof.
  intros k v Hg Hb. cbn [o_store store_get] in Hg.
  destruct (N.eqb_spec 0 k) as [<-|]; [discriminate Hb|discriminate].
Qed.

(* ================================================================== *)
(* 2. The combined invariant; a failed AdoptSession deletes nothing    *)

Definition Good (st : ost) : Prop := OInv' st /\ known_keys st /\ markers_genuine st.

Theorem good_init : forall cf cid tp s0,
  cfg_ok cf -> init_sys cf cid tp = Some s0 -> Good (ost_of s0).
Proof.
  intros cf cid tp s0 [H1 H2] Hi. rewrite (init_sys_ost _ _ _ _ Hi).
  split; [apply oinv_init; assumption|].
  split; [apply known_keys_init|apply markers_genuine_init].
Qed.

Theorem good_step : forall st st', Good st -> ostep st st' -> o_rseq st' < M64 -> Good st'.
Proof.
  intros st st' (HI & Hk & Hm) Hstep Hb.
  split; [exact (oinv_step _ _ HI Hstep Hb)|].
  split; [exact (known_keys_step _ _ Hstep Hk)|].
  exact (markers_genuine_step _ _ Hstep (proj1 (proj2 HI)) Hm).
Qed.

(* the storage counter only grows inside [osteps]: the bound at the end is enough *)
Theorem good_steps : forall st st', Good st -> osteps st st' -> o_rseq st' < M64 -> Good st'.
Proof.
  intros st st' (HI & Hk & Hm) Hsteps Hb.
  split; [exact (oinv_steps _ _ HI Hsteps Hb)|].
  split; [exact (known_keys_steps _ _ Hsteps Hk)|].
  exact (markers_genuine_steps _ _ Hsteps (proj1 (proj2 HI)) Hm).
Qed.

(* every record other than the client identifier decodes *)
Definition all_decode (m : store) : Prop :=
  forall k v, k <> 0 -> store_get m k = Some v -> exists p sq, decode_value v = DecOk p sq.

Lemma store_del_absent m k : store_get m k = None -> store_del m k = m.
Proof.
  induction m as [|[k0 v0] r IH]; cbn [store_get store_del]; [reflexivity|].
  destruct (k0 =? k); [discriminate|]. intros H. rewrite (IH H). reflexivity.
Qed.

Theorem purge_decodable_id : forall m m', purge m m' -> all_decode m -> m' = m.
Proof.
  induction 1 as [m|m k m' K0 U Hp IH]; intros Hd; [reflexivity|].
  destruct (store_get m k) as [v|] eqn:G.
  - exfalso. destruct (Hd k v K0 G) as (p & sq & D). exact (U p sq D).
  - rewrite (store_del_absent _ _ G) in IH. exact (IH Hd).
Qed.

Theorem good_all_decode : forall st, Good st -> all_decode (o_store st).
Proof.
  intros st ((HF & Hsort & Hseq) & Hk & Hm) k v K0 Hg.
  pose proof (store_ents_ok st HF Hsort Hk Hm Hseq) as Hok.
  rewrite Forall_forall in Hok.
  apply (store_get_in _ _ _ (sorted_nodup _ Hsort)) in Hg.
  destruct (Hok _ Hg) as [E|(p & sq & E & Hsq & _)]; cbn [fst snd] in *; [contradiction|].
  exists p, sq. rewrite E. apply decode_encode. exact Hsq.
Qed.

Corollary good_purge_id : forall st m', Good st -> purge (o_store st) m' -> m' = o_store st.
Proof. intros st m' Hg Hp. exact (purge_decodable_id _ _ Hp (good_all_decode _ Hg)). Qed.

(* ================================================================== *)
(* 3. One API call of any kind, AdoptSession included                  *)

(* AdoptSession needs no bound: the adopted counter is the largest storage number found *)
Theorem exec_adopt_good : forall s m1 m2 tp s' r log,
  exec s (OpAdopt m1 m2) tp = Some (s', r, log) -> Good (ost_of s) ->
  Good (ost_of s') /\ sy_m s' = sy_m s /\ o_rseq (ost_of s') <= o_rseq (ost_of s).
Proof.
  intros s m1 m2 tp s' r log E Hg.
  destruct (exec_adopt_refines _ _ _ _ _ _ _ E) as [Ha|[Hc Hp]].
  - destruct Hg as (HI & Hk & Hm).
    assert (Hrs : o_rseq (ost_of s') <= o_rseq (ost_of s)).
    { destruct Ha as (cf & z1 & z2 & tp' & c' & r' & w & Ead & Est).
      destruct (adopt_some _ _ _ _ _ _ _ _ HI Hk Hm Ead)
        as (_ & _ & _ & _ & _ & _ & _ & _ & _ & _ & _ & _ & _ & _ & _ & _ & Hle & _).
      rewrite Est. exact Hle. }
    destruct (adopts_inv _ _ HI Hk Hm Ha) as (HI' & Hk' & Hm' & Hst & _).
    split; [split; [exact HI'|split; assumption]|]. split; [exact Hst|exact Hrs].
  - pose proof (good_purge_id (ost_of s) (sy_m s') Hg Hp) as Em. cbn [ost_of o_store] in Em.
    assert (Eo : ost_of s' = ost_of s).
    { destruct s as [c m], s' as [c' m']. cbn [sy_c sy_m] in *. subst c' m'. reflexivity. }
    rewrite Eo. split; [exact Hg|]. split; [exact Em|lia].
Qed.

Theorem exec_good : forall s o tp s' r log,
  exec s o tp = Some (s', r, log) -> op_level_ok o -> Good (ost_of s) ->
  o_rseq (ost_of s') < M64 -> Good (ost_of s').
Proof.
  intros s o tp s' r log E Hl Hg Hb.
  destruct (op_adopt_dec o) as [(m1 & m2 & ->)|Ha].
  - exact (proj1 (exec_adopt_good _ _ _ _ _ _ _ E Hg)).
  - apply (good_steps _ _ Hg); [|exact Hb].
    eapply exec_refines; [exact E|split; assumption].
Qed.

(* AdoptSession as an API call on the Persistence of a Good state: without Persistence
   failures and with limits not below the pending windows it succeeds without warning,
   deletes nothing, and resumes the same windows at the same identifiers *)
Theorem exec_adopt_exact : forall s m1 m2 tp s' r log,
  Good (ost_of s) ->
  Forall (fun b => b = false) (tp_stf tp) ->
  let st := ost_of s in let st' := ost_of s' in
  o_acc1 st - o_acked st <= norm_max m1 -> o_acc2 st - o_compl st <= norm_max m2 ->
  exec s (OpAdopt m1 m2) tp = Some (s', r, log) ->
  r = RetAdopt 0 E_nil /\ sy_m s' = sy_m s
  /\ o_max1 st' = norm_max m1 /\ o_max2 st' = norm_max m2
  /\ o_acc1 st' - o_acked st' = o_acc1 st - o_acked st
  /\ o_acc2 st' - o_compl st' = o_acc2 st - o_compl st
  /\ o_recvd st' - o_compl st' = o_recvd st - o_compl st
  /\ (o_acked st < o_acc1 st -> o_acked st' = o_acked st mod 16384)
  /\ (o_compl st < o_acc2 st -> o_compl st' = o_compl st mod 16384)
  /\ o_sub1 st' = o_acc1 st' /\ o_sub2 st' = o_acc2 st'
  /\ len (o_q1 st') = o_acc1 st - o_acked st /\ len (o_q2 st') = o_acc2 st - o_compl st
  /\ o_term st' = false /\ o_closed st' = false
  /\ o_rseq st' <= o_rseq st
  /\ Good st'.
Proof.
  intros s m1 m2 tp s' r log Hg Hnf st st' L1 L2 E.
  destruct (exec_adopt_good _ _ _ _ _ _ _ E Hg) as (Hg' & Hm' & Hrs').
  pose proof Hg as (HI & Hk & Hmk).
  pose proof (ci_c1 _ (oif_cnt _ (proj1 HI))) as C1.
  pose proof (ci_c2 _ (oif_cnt _ (proj1 HI))) as C2.
  unfold exec, step in E. cbv zeta in E. unfold bind in E.
  match type of E with context [op_adopt ?cf _ _ ?w] =>
    destruct (op_adopt cf m1 m2 w) as [[[oc r'] w']|] eqn:Ad; [|discriminate] end.
  destruct (adopt_exact (ost_of s) _ m1 m2 tp oc r' w' HI Hk Hmk Hnf L1 L2 Ad)
    as (c' & -> & -> & Hst & Hcfg & Hterm & Hclosed & W1 & W1' & Hs1 & W2 & W2' & Hs2 & Hq1 & Hq2 & _).
  unfold ret in E. inversion E; subst s' r log. clear E.
  subst st st'. cbn [ost_of sy_c sy_m o_max1 o_max2 o_acked o_sub1 o_acc1 o_q1 o_compl o_recvd
                     o_sub2 o_acc2 o_q2 o_term o_closed o_rseq o_store] in *.
  match goal with |- context [c' <| k_nconn := ?x |>] => set (c2 := c' <| k_nconn := x |>) in * end.
  assert (Hcp : cp c2 = cp c') by reflexivity. apply cp_fields in Hcp.
  destruct Hcp as (F1 & F2 & F3 & F4 & F5 & F6 & F7 & F8 & F9 & F10 & F11 & F12 & F13).
  clearbody c2. rewrite ?F1, ?F2, ?F3, ?F4, ?F5, ?F6, ?F7, ?F8, ?F9, ?F10, ?F11, ?F12, ?F13 in *.
  rewrite Hcfg. cbn [adopt_cfg s_max1 s_max2].
  split; [reflexivity|]. split; [exact Hm'|]. split; [reflexivity|]. split; [reflexivity|].
  assert (Hwin : k_acc1 c' - k_acked c' = k_acc1 (sy_c s) - k_acked (sy_c s)
                 /\ k_acc2 c' - k_compl c' = k_acc2 (sy_c s) - k_compl (sy_c s)
                 /\ k_recvd c' - k_compl c' = k_recvd (sy_c s) - k_compl (sy_c s)).
  { destruct (N.eq_dec (k_acked (sy_c s)) (k_acc1 (sy_c s))) as [E1|N1];
      [destruct (W1' E1) as [-> ->]|destruct (W1 ltac:(lia)) as [_ ->]];
      (destruct (N.eq_dec (k_compl (sy_c s)) (k_acc2 (sy_c s))) as [E2|N2];
       [destruct (W2' E2) as (-> & -> & ->)|destruct (W2 ltac:(lia)) as (_ & -> & ->)]);
      repeat split; lia. }
  destruct Hwin as (H1 & H2 & H3).
  split; [exact H1|]. split; [exact H2|]. split; [exact H3|].
  split; [intros Hlt; exact (proj1 (W1 Hlt))|].
  split; [intros Hlt; exact (proj1 (W2 Hlt))|].
  split; [exact Hs1|]. split; [exact Hs2|]. split; [exact Hq1|]. split; [exact Hq2|].
  split; [exact Hterm|]. split; [exact Hclosed|]. split; [exact Hrs'|exact Hg'].
Qed.

(* ================================================================== *)
(* 4. Whole mixed histories                                            *)

(* the states after each call that happened *)
Fixpoint run_states (s : sys) (h : list (op * tapes)) : list sys :=
  match h with
  | [] => []
  | (o, tp) :: r => match exec s o tp with
                    | Some (s', _, _) => s' :: run_states s' r
                    | None => run_states s r
                    end
  end.

Fixpoint run_rets (s : sys) (h : list (op * tapes)) : list (option retv) :=
  match h with
  | [] => []
  | (o, tp) :: r => match exec s o tp with
                    | Some (s', x, _) => Some x :: run_rets s' r
                    | None => None :: run_rets s r
                    end
  end.

Lemma last_cons_default {A} (l : list A) : forall x d, last (x :: l) d = last l x.
Proof.
  induction l as [|y l IH]; intros x d; [reflexivity|].
  change (last (x :: y :: l) d) with (last (y :: l) d). rewrite (IH y d), (IH y x). reflexivity.
Qed.

Lemma run_states_last h : forall s, run s h = last (run_states s h) s.
Proof.
  induction h as [|[o tp] h IH]; intros s; cbn [run run_states]; [reflexivity|].
  destruct (exec s o tp) as [[[s' r] log]|]; [|apply IH].
  rewrite IH. symmetry. apply last_cons_default.
Qed.

(* AdoptSession restarts the storage counter at the largest storage number it finds, which
   is below 2^64 whatever happened before, so a bound on the final state says nothing
   about the states in between: the bound is asked of every state along the run. *)
Definition rseq_bounded (s : sys) (h : list (op * tapes)) : Prop :=
  Forall (fun x => o_rseq (ost_of x) < M64) (run_states s h).

Definition rseq_bounded_b (s : sys) (h : list (op * tapes)) : bool :=
  forallb (fun x => o_rseq (ost_of x) <? M64) (run_states s h).

Lemma rseq_bounded_b_ok s h : rseq_bounded_b s h = true -> rseq_bounded s h.
Proof.
  unfold rseq_bounded_b, rseq_bounded. rewrite forallb_forall, Forall_forall.
  intros H x Hx. apply N.ltb_lt. exact (H x Hx).
Qed.

(* without adoptions the counter only grows: the bound at the end implies the others *)
Lemma rseq_bounded_wf h : forall s,
  Forall (fun p => op_wf (fst p)) h -> o_rseq (ost_of (run s h)) < M64 -> rseq_bounded s h.
Proof.
  unfold rseq_bounded.
  induction h as [|[o tp] h IH]; intros s Hh Hb; cbn [run run_states] in *; [constructor|].
  inversion Hh as [|? ? Ho Hh']; subst. cbn [fst] in Ho.
  destruct (exec s o tp) as [[[s' r] log]|] eqn:E; [|exact (IH s Hh' Hb)].
  constructor; [|exact (IH s' Hh' Hb)].
  pose proof (osteps_mono _ _ (run_refines h s' Hh')). lia.
Qed.

Theorem run_states_good : forall h s,
  Forall (fun p => op_level_ok (fst p)) h -> Good (ost_of s) -> rseq_bounded s h ->
  Forall (fun x => Good (ost_of x)) (run_states s h).
Proof.
  unfold rseq_bounded.
  induction h as [|[o tp] h IH]; intros s Hh Hg Hb; cbn [run_states] in *; [constructor|].
  inversion Hh as [|? ? Ho Hh']; subst. cbn [fst] in Ho.
  destruct (exec s o tp) as [[[s' r] log]|] eqn:E; [|exact (IH s Hh' Hg Hb)].
  inversion Hb as [|? ? Hb1 Hb']; subst.
  pose proof (exec_good _ _ _ _ _ _ E Ho Hg Hb1) as Hg'.
  constructor; [exact Hg'|exact (IH s' Hh' Hg' Hb')].
Qed.

Theorem run_good : forall h s,
  Forall (fun p => op_level_ok (fst p)) h -> Good (ost_of s) -> rseq_bounded s h ->
  Good (ost_of (run s h)).
Proof.
  unfold rseq_bounded.
  induction h as [|[o tp] h IH]; intros s Hh Hg Hb; cbn [run run_states] in *; [exact Hg|].
  inversion Hh as [|? ? Ho Hh']; subst. cbn [fst] in Ho.
  destruct (exec s o tp) as [[[s' r] log]|] eqn:E; [|exact (IH s Hh' Hg Hb)].
  inversion Hb as [|? ? Hb1 Hb']; subst.
  exact (IH s' Hh' (exec_good _ _ _ _ _ _ E Ho Hg Hb1) Hb').
Qed.

(* every state reached from InitSession by any history of API calls and stop + AdoptSession,
   under every environment script *)
Theorem reachable_good_mixed : forall cf cid tp0 s0 h,
  cfg_ok cf -> init_sys cf cid tp0 = Some s0 ->
  Forall (fun p => op_level_ok (fst p)) h ->
  rseq_bounded s0 h ->
  Good (ost_of (run s0 h)).
Proof.
  intros cf cid tp0 s0 h Hc Hi Hh Hb.
  exact (run_good h s0 Hh (good_init _ _ _ _ Hc Hi) Hb).
Qed.

(* ... and every state in between two calls *)
Theorem reachable_good_mixed_all : forall cf cid tp0 s0 h,
  cfg_ok cf -> init_sys cf cid tp0 = Some s0 ->
  Forall (fun p => op_level_ok (fst p)) h ->
  rseq_bounded s0 h ->
  Forall (fun x => Good (ost_of x)) (s0 :: run_states s0 h).
Proof.
  intros cf cid tp0 s0 h Hc Hi Hh Hb. pose proof (good_init _ _ _ _ Hc Hi) as H0.
  constructor; [exact H0|exact (run_states_good h s0 Hh H0 Hb)].
Qed.

Definition reachable_mixed (s : sys) : Prop :=
  exists cf cid tp0 s0 h,
    cfg_ok cf /\ init_sys cf cid tp0 = Some s0 /\ Forall (fun p => op_level_ok (fst p)) h /\
    rseq_bounded s0 h /\ s = run s0 h.

Theorem reachable_mixed_good s : reachable_mixed s -> Good (ost_of s).
Proof.
  intros (cf & cid & tp0 & s0 & h & Hc & Hi & Hh & Hb & ->).
  eapply reachable_good_mixed; eassumption.
Qed.

(* the adoption-free reachable states are among them *)
Lemma reachable_wf_mixed s : reachable_wf s -> reachable_mixed s.
Proof.
  intros (cf & cid & tp0 & s0 & h & Hc & Hi & Hh & -> & Hb).
  exists cf, cid, tp0, s0, h. split; [exact Hc|]. split; [exact Hi|]. split.
  - eapply Forall_impl; [|exact Hh]. intros p Hp. exact (proj1 Hp).
  - split; [apply rseq_bounded_wf; assumption|reflexivity].
Qed.

(* C02 at every such state: no hypothesis on the state other than how it was reached *)
Theorem adopt_exact_reachable : forall s cf m1 m2 tp oc r w,
  reachable_mixed s ->
  let st := ost_of s in
  Forall (fun b => b = false) (tp_stf tp) ->
  o_acc1 st - o_acked st <= norm_max m1 -> o_acc2 st - o_compl st <= norm_max m2 ->
  op_adopt cf m1 m2 (world_of (o_store st) tp) = Some ((oc, r), w) ->
  exists c',
    oc = Some c' /\ r = RetAdopt 0 E_nil
    /\ w_store w = Some (o_store st)
    /\ k_cfg c' = adopt_cfg cf m1 m2 /\ k_seqclosed c' = false /\ k_closed c' = false
    /\ (o_acked st < o_acc1 st ->
        k_acked c' = o_acked st mod 16384 /\ k_acc1 c' - k_acked c' = o_acc1 st - o_acked st)
    /\ (o_acked st = o_acc1 st -> k_acked c' = 0 /\ k_acc1 c' = 0)
    /\ k_sub1 c' = k_acc1 c'
    /\ (o_compl st < o_acc2 st ->
        k_compl c' = o_compl st mod 16384
        /\ k_recvd c' - k_compl c' = o_recvd st - o_compl st
        /\ k_acc2 c' - k_compl c' = o_acc2 st - o_compl st)
    /\ (o_compl st = o_acc2 st -> k_compl c' = 0 /\ k_recvd c' = 0 /\ k_acc2 c' = 0)
    /\ k_sub2 c' = k_acc2 c'
    /\ len (k_q1 c') = o_acc1 st - o_acked st /\ len (k_q2 c') = o_acc2 st - o_compl st
    /\ (forall sq k v p, k <> 0 -> store_get (o_store st) k = Some v ->
                         decode_value v = DecOk p sq -> sq <= k_rseq c')
    /\ k_rseq c' <= o_rseq st
    /\ OInv' (ost_of (mkSys c' (o_store st))).
Proof.
  intros s cf m1 m2 tp oc r w Hr st Hnf L1 L2 E.
  destruct (reachable_mixed_good s Hr) as (HI & Hk & Hm).
  exact (adopt_exact st cf m1 m2 tp oc r w HI Hk Hm Hnf L1 L2 E).
Qed.

(* the same as an API call of the closed system, once more and again: the state after the
   adoption is reachable by a mixed history, so the statement applies to it as well *)
Theorem adopt_exec_reachable : forall s m1 m2 tp s' r log,
  reachable_mixed s ->
  Forall (fun b => b = false) (tp_stf tp) ->
  let st := ost_of s in let st' := ost_of s' in
  o_acc1 st - o_acked st <= norm_max m1 -> o_acc2 st - o_compl st <= norm_max m2 ->
  exec s (OpAdopt m1 m2) tp = Some (s', r, log) ->
  r = RetAdopt 0 E_nil /\ sy_m s' = sy_m s
  /\ o_max1 st' = norm_max m1 /\ o_max2 st' = norm_max m2
  /\ o_acc1 st' - o_acked st' = o_acc1 st - o_acked st
  /\ o_acc2 st' - o_compl st' = o_acc2 st - o_compl st
  /\ o_recvd st' - o_compl st' = o_recvd st - o_compl st
  /\ (o_acked st < o_acc1 st -> o_acked st' = o_acked st mod 16384)
  /\ (o_compl st < o_acc2 st -> o_compl st' = o_compl st mod 16384)
  /\ o_sub1 st' = o_acc1 st' /\ o_sub2 st' = o_acc2 st'
  /\ len (o_q1 st') = o_acc1 st - o_acked st /\ len (o_q2 st') = o_acc2 st - o_compl st
  /\ o_term st' = false /\ o_closed st' = false
  /\ o_rseq st' <= o_rseq st
  /\ reachable_mixed s'.
Proof.
  intros s m1 m2 tp s' r log Hr Hnf st st' L1 L2 E.
  pose proof (reachable_mixed_good s Hr) as Hg.
  destruct (exec_adopt_exact s m1 m2 tp s' r log Hg Hnf L1 L2 E)
    as (A1 & A2 & A3 & A4 & A5 & A6 & A7 & A8 & A9 & A10 & A11 & A12 & A13 & A14 & A15 & A16 & Hg').
  repeat (split; [assumption|]).
  destruct Hr as (cf & cid & tp0 & s0 & h & Hc & Hi & Hh & Hb & Es).
  exists cf, cid, tp0, s0, (h ++ [(OpAdopt m1 m2, tp)]).
  split; [exact Hc|]. split; [exact Hi|].
  assert (Hrun : forall h1 s1 h2, run s1 (h1 ++ h2) = run (run s1 h1) h2).
  { induction h1 as [|[o1 t1] h1 IH]; intros s1 h2; cbn [run app]; [reflexivity|].
    destruct (exec s1 o1 t1) as [[[s2 ?] ?]|]; apply IH. }
  assert (Hst : forall h1 s1 h2, run_states s1 (h1 ++ h2) = run_states s1 h1 ++ run_states (run s1 h1) h2).
  { induction h1 as [|[o1 t1] h1 IH]; intros s1 h2; cbn [run run_states app]; [reflexivity|].
    destruct (exec s1 o1 t1) as [[[s2 ?] ?]|]; [cbn [app]; f_equal|]; apply IH. }
  split; [apply Forall_app; split; [exact Hh|constructor; [exact I|constructor]]|].
  split.
  - unfold rseq_bounded. rewrite Hst. apply Forall_app. split; [exact Hb|].
    rewrite <- Es. cbn [run_states]. rewrite E. constructor; [|constructor].
    destruct Hg as ((_ & _ & Hlt) & _). subst st st'. lia.
  - rewrite Hrun, <- Es. cbn [run]. rewrite E. reflexivity.
Qed.

(* ================================================================== *)
(* 5. Non-vacuity                                                      *)

Definition mx_cfg : scfg :=
  mkScfg {| cfg_user := []; cfg_pass := None; cfg_will := None; cfg_keepalive := 0; cfg_clean := false |}
         true 4 4 256 1000 1000.
Definition mx_tp (n : nat) : tapes := mkTapes (repeat false n) [] [] [].
(* PublishAtLeastOnce; stop + AdoptSession(10, 10); PublishExactlyOnce;
   stop + AdoptSession(3, 3); PublishAtLeastOnce *)
Definition mx_hist : list (op * tapes) :=
  [ (OpPubP 1 false [104] [97], mx_tp 4);
    (OpAdopt 10 10, mx_tp 10);
    (OpPubP 2 true [105] [98], mx_tp 4);
    (OpAdopt 3 3, mx_tp 10);
    (OpPubP 1 false [106] [97], mx_tp 4) ].

Example mixed_nonvacuous :
  exists s0,
    cfg_ok mx_cfg /\ init_sys mx_cfg [99] (mx_tp 2) = Some s0
    /\ Forall (fun p => op_level_ok (fst p)) mx_hist
    /\ rseq_bounded s0 mx_hist
    (* every call happened; both adoptions returned a client, without warning *)
    /\ run_rets s0 mx_hist = [Some (RetExch 1); Some (RetAdopt 0 E_nil); Some (RetExch 1);
                              Some (RetAdopt 0 E_nil); Some (RetExch 1)]
    (* the three accepted publications are pending after the second adoption *)
    /\ (let st := ost_of (run s0 mx_hist) in
        o_acc1 st - o_acked st = 2 /\ o_acc2 st - o_compl st = 1 /\ o_max1 st = 3
        /\ map fst (o_store st) = [0; key1 0; key1 1; key2 0] /\ o_rseq st = 4)
    /\ reachable_mixed (run s0 mx_hist).
Proof.
  destruct (init_sys mx_cfg [99] (mx_tp 2)) as [s0|] eqn:Hi; [|vm_compute in Hi; discriminate].
  assert (Hc : cfg_ok mx_cfg) by (split; vm_compute; discriminate).
  assert (Hh : Forall (fun p => op_level_ok (fst p)) mx_hist)
    by (repeat constructor; cbn; auto).
  assert (Es : Some s0 = init_sys mx_cfg [99] (mx_tp 2)) by (symmetry; exact Hi).
  assert (Hb : rseq_bounded s0 mx_hist).
  { apply rseq_bounded_b_ok. vm_compute in Es. inversion Es; subst s0. vm_compute. reflexivity. }
  exists s0. split; [exact Hc|]. split; [reflexivity|]. split; [exact Hh|]. split; [exact Hb|].
  split; [vm_compute in Es; inversion Es; subst s0; vm_compute; reflexivity|].
  split; [vm_compute in Es; inversion Es; subst s0; vm_compute; repeat split; reflexivity|].
  exists mx_cfg, [99], (mx_tp 2), s0, mx_hist.
  split; [exact Hc|]. split; [exact Hi|]. split; [exact Hh|]. split; [exact Hb|reflexivity].
Qed.
