(* generic runner over session histories: agreement only (used while developing the model
   and by the properties that add their own checker on top) *)
From MQ Require Export SessionCheck.
Definition seq_run (l : list histcase) : list N * list N * list (N * N) :=
  (idx_filter hist_agree l 0, [], []).
Definition seq_debug (l : list histcase) : list (option (N * N)) := map hist_check l.

(* debugging aid: what the model does at step i (1-based; 0 = init) *)
Fixpoint client_at (c : client * store) (l : list stepobs) (i : nat) : option ((client * store) * stepobs) :=
  match l, i with
  | s :: _, O => Some (c, s)
  | s :: r, S i' => client_at (fst (check_step c s)) r i'
  | [], _ => None
  end.
Definition model_at (h : histcase) (i : nat) :=
  match h with
  | Hist cf cid ievs iret steps =>
    match op_init cf cid (tapes_of ievs (map_world [])) with
    | Some ((Some c, _), w0) =>
      match client_at (c, store_of w0) steps (i - 1) with
      | Some ((c, m), s) =>
        let m := match so_store s with Some m' => m' | None => m end in
        match step c (so_op s) (tapes_of (so_evs s) (map_world m)) with
        | Some ((c', r), w) => Some (rev (w_log w), r, sort_done (k_done c'), sort_xev (k_xev c'), k_online c', (t_stf w, t_dial w, t_wr w, t_rd w))
        | None => None
        end
      | None => None
      end
    | _ => None
    end
  end.
Definition obs_at (h : histcase) (i : nat) :=
  match h with
  | Hist _ _ _ _ steps => match nth_error steps (i - 1) with
                          | Some s => Some (so_op s, reqs_of (so_evs s), so_ret s, so_done s, so_xev s, so_online s)
                          | None => None end
  end.
