(* L0: validation of request arguments and of the Config exactly as the client does it
   (request.go: publishPacket, subscribeLevel, Unsubscribe, initSession; client.go:
   Config.valid), in the code's order, with the deny reason of the first failing check;
   plus the catalogue of emitted packets per request.  Definitions only (executable). *)
From MQ Require Export Bytes Utf8 Packets Spec.

(* ---------- PUBLISH (publishPacket) ---------- *)

(* topicCheck(topic), then size = 2 + len(topic) + len(message) (+2 with an identifier),
   size > packetMax.  [space] is the packetID argument: 0, atLeastOnceIDSpace or
   exactlyOnceIDSpace.  (size < 0 is int overflow: no counterpart over N.) *)
Definition publish_deny (topic msg : list N) (space : N) : option deny_reason :=
  match topic_check topic with
  | Some d => Some d
  | None => if packet_max <? publish_size topic msg space then Some DenyPacketMax else None
  end.

(* ---------- SUBSCRIBE (subscribeLevel) ---------- *)

(* for _, s := range topicFilters { topicCheck(s) ...; size += len(s) } *)
Fixpoint sub_scan (fs : list (list N)) (size : N) : deny_reason + N :=
  match fs with
  | [] => inr size
  | s :: r => match topic_check s with
              | Some d => inl d
              | None => sub_scan r (size + len s)
              end
  end.

Definition subscribe_deny (fs : list (list N)) : option deny_reason :=
  match fs with
  | [] => Some DenySubscribeNone
  | _ => match sub_scan fs (2 + N.of_nat (length fs) * 3) with
         | inl d => Some d
         | inr size => if packet_max <? size then Some DenyPacketMax else None
         end
  end.

(* ---------- UNSUBSCRIBE ---------- *)

(* for _, s := range topicFilters { size += len(s); topicCheck(s) ... } *)
Fixpoint unsub_scan (fs : list (list N)) (size : N) : deny_reason + N :=
  match fs with
  | [] => inr size
  | s :: r => let size := size + len s in
              match topic_check s with
              | Some d => inl d
              | None => unsub_scan r size
              end
  end.

Definition unsubscribe_deny (fs : list (list N)) : option deny_reason :=
  match fs with
  | [] => Some DenyUnsubscribeNone
  | _ => match unsub_scan fs (2 + N.of_nat (length fs) * 2) with
         | inl d => Some d
         | inr size => if packet_max <? size then Some DenyPacketMax else None
         end
  end.

(* the closed form both loops compute: first filter refused by topicCheck *)
Fixpoint first_deny (fs : list (list N)) : option deny_reason :=
  match fs with
  | [] => None
  | s :: r => match topic_check s with Some d => Some d | None => first_deny r end
  end.

(* ---------- client identifier (initSession) ---------- *)

Definition clientid_deny (cid : list N) : option deny_reason := string_check cid.

(* ---------- Config.valid ---------- *)

(* The fields of mqtt.Config that valid and newCONNREQ look at.  Will.Topic is kept
   apart from Will.Message because valid checks it even without a message. *)
Record config := mkConfig {
  cf_dialer : bool;                    (* Dialer != nil *)
  cf_user : list N;                    (* UserName *)
  cf_pass : option (list N);           (* Password; None = nil *)
  cf_wtopic : list N;                  (* Will.Topic *)
  cf_wmsg : option (list N);           (* Will.Message; None = nil *)
  cf_wretain : bool; cf_walo : bool; cf_weo : bool;
  cf_keepalive : N;                    (* uint16 *)
  cf_clean : bool
}.

Inductive config_error :=
| CfgClientID (d : deny_reason)        (* initSession only: checked before Config.valid *)
| CfgNoDialer
| CfgUserName (d : deny_reason)
| CfgPassword                          (* errStringMax *)
| CfgWillMessage                       (* errStringMax *)
| CfgWillTopic (d : deny_reason).

Definition opt_len (o : option (list N)) : N := match o with Some p => len p | None => 0 end.

Definition config_valid (c : config) : option config_error :=
  if negb (cf_dialer c) then Some CfgNoDialer else
  match string_check (cf_user c) with
  | Some d => Some (CfgUserName d)
  | None =>
    if string_max <? opt_len (cf_pass c) then Some CfgPassword else
    if string_max <? opt_len (cf_wmsg c) then Some CfgWillMessage else
    match (match cf_wmsg c with
           | Some _ => topic_check (cf_wtopic c)
           | None => string_check (cf_wtopic c)
           end) with
    | Some d => Some (CfgWillTopic d)
    | None => None
    end
  end.

(* initSession: stringCheck(clientID), then c.valid() *)
Definition init_valid (cid : list N) (c : config) : option config_error :=
  match clientid_deny cid with
  | Some d => Some (CfgClientID d)
  | None => config_valid c
  end.

(* what errors.Is can tell about a constructor error: the deny sentinel it wraps *)
Definition config_error_class (e : config_error) : option deny_reason :=
  match e with
  | CfgClientID d | CfgUserName d | CfgWillTopic d => Some d
  | CfgPassword | CfgWillMessage => Some DenyStringMax
  | CfgNoDialer => None
  end.

(* the view newCONNREQ has on the Config *)
Definition cfg_of_config (c : config) : cfg :=
  {| cfg_user := cf_user c;
     cfg_pass := cf_pass c;
     cfg_will := match cf_wmsg c with
                 | Some m => Some {| will_topic := cf_wtopic c; will_msg := m;
                                     will_retain := cf_wretain c; will_alo := cf_walo c;
                                     will_eo := cf_weo c |}
                 | None => None
                 end;
     cfg_keepalive := cf_keepalive c;
     cfg_clean := cf_clean c |}.

(* ---------- packet identifiers ---------- *)

(* applySeqNoAndEnqueue: space | seqNo & publishIDMask *)
Definition pub_space (level : N) : N := if level =? 1 then 32768 else 49152.
Definition pub_pid (level acc : N) : N := N.lor (pub_space level) (N.land acc 16383).
(* startTx: n & unorderedIDMask | space *)
Definition sub_pid (txn : N) : N := N.lor (N.land txn 8191) 24576.
Definition unsub_pid (txn : N) : N := N.lor (N.land txn 8191) 16384.

(* ---------- the catalogue of emitted packets ---------- *)

Inductive request :=
| RqPublish (retain : bool) (msg topic : list N)                   (* Publish, PublishRetained *)
| RqPublishP (level : N) (retain : bool) (msg topic : list N) (acc : N)
    (* PublishAtLeastOnce/ExactlyOnce(+Retained); acc = sequence number of the level *)
| RqSubscribe (level : N) (fs : list (list N)) (txn : N)           (* txn = counter of startTx *)
| RqUnsubscribe (fs : list (list N)) (txn : N)
| RqConnect (c : config) (cid : list N)
| RqPuback (id : N) | RqPubrec (id : N) | RqPubrel (id : N) | RqPubcomp (id : N)
| RqPing | RqDisconnect.

(* the validation the request goes through before anything else happens *)
Definition req_deny (r : request) : option deny_reason :=
  match r with
  | RqPublish _ msg topic => publish_deny topic msg 0
  | RqPublishP level _ msg topic _ => publish_deny topic msg (pub_space level)
  | RqSubscribe _ fs _ => subscribe_deny fs
  | RqUnsubscribe fs _ => unsubscribe_deny fs
  | _ => None
  end.

(* the bytes of a request that passed validation *)
Definition emit (r : request) : list N :=
  match r with
  | RqPublish retain msg topic => publish_packet (head_publish 0 retain false) topic msg 0
  | RqPublishP level retain msg topic acc =>
      publish_packet (head_publish level retain false) topic msg (pub_pid level acc)
  | RqSubscribe level fs txn => subscribe_packet (sub_pid txn) fs level
  | RqUnsubscribe fs txn => unsubscribe_packet (unsub_pid txn) fs
  | RqConnect c cid => connect_packet (cfg_of_config c) cid
  | RqPuback id => packet_puback id
  | RqPubrec id => packet_pubrec id
  | RqPubrel id => packet_pubrel id
  | RqPubcomp id => packet_pubcomp id
  | RqPing => packet_pingreq
  | RqDisconnect => packet_disconnect
  end.

(* the fields of the request as an MQTT 3.1.1 control packet (Spec.v vocabulary):
   what a reader of the wire must find *)
Definition will_spec_of (c : config) : option will_spec :=
  match cf_wmsg c with
  | Some m => Some {| ws_topic := cf_wtopic c; ws_msg := m;
                      ws_qos := if cf_weo c then 2 else if cf_walo c then 1 else 0;
                      ws_retain := cf_wretain c |}
  | None => None
  end.
(* "An empty string omits the option, except for when password is not nil." *)
Definition user_of (c : config) : option (list N) :=
  match cf_user c, cf_pass c with
  | [], None => None
  | u, _ => Some u
  end.

Definition expect (r : request) : packet :=
  match r with
  | RqPublish retain msg topic => PPublish false 0 retain topic None msg
  | RqPublishP level retain msg topic acc =>
      PPublish false level retain topic (Some (pub_pid level acc)) msg
  | RqSubscribe level fs txn => PSubscribe (sub_pid txn) (map (fun f => (f, level)) fs)
  | RqUnsubscribe fs txn => PUnsubscribe (unsub_pid txn) fs
  | RqConnect c cid =>
      PConnect (cf_clean c) (cf_keepalive c) cid (will_spec_of c) (user_of c) (cf_pass c)
  | RqPuback id => PPuback id
  | RqPubrec id => PPubrec id
  | RqPubrel id => PPubrel id
  | RqPubcomp id => PPubcomp id
  | RqPing => PPingreq
  | RqDisconnect => PDisconnect
  end.

(* what the Go types guarantee about the arguments: []byte contents, uint16 fields,
   the level constants the API passes *)
Definition opt_bytes (o : option (list N)) : Prop :=
  match o with Some p => bytes p | None => True end.
Definition req_typed (r : request) : Prop :=
  match r with
  | RqPublish _ msg _ => bytes msg
  | RqPublishP level _ msg _ _ => bytes msg /\ (level = 1 \/ level = 2)
  | RqSubscribe level _ _ => level < 3
  | RqUnsubscribe _ _ => True
  | RqConnect c _ => cf_keepalive c < 65536 /\ opt_bytes (cf_pass c) /\ opt_bytes (cf_wmsg c)
  | RqPuback id | RqPubrec id | RqPubrel id | RqPubcomp id => id < 65536
  | RqPing | RqDisconnect => True
  end.

(* the request passed the client's validation (CONNECT: the constructor accepted
   the client identifier and the Config) *)
Definition req_accepted (r : request) : Prop :=
  match r with
  | RqConnect c cid => init_valid cid c = None
  | _ => req_deny r = None
  end.

(* numeric code of a validation outcome as the harness reports it: 0 = not denied,
   1 + index in denyErrs otherwise *)
Definition deny_code (o : option deny_reason) : N :=
  match o with
  | None => 0
  | Some DenyPacketMax => 1 | Some DenyStringMax => 2 | Some DenyUTF8 => 3
  | Some DenyNull => 4 | Some DenyZero => 5
  | Some DenySubscribeNone => 6 | Some DenyUnsubscribeNone => 7
  end.

(* constructor errors: 8 = an error outside denyErrs *)
Definition config_code (o : option config_error) : N :=
  match o with
  | None => 0
  | Some e => match config_error_class e with Some d => deny_code (Some d) | None => 8 end
  end.
