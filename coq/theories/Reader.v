(* L1: bufio.Reader over a scripted connection, and the client's read loops
   (peekPacket, discard, BigMessage.ReadAll) as in client.go after the F5/F18/F19
   repairs.  Definitions only; pure functions over an explicit reader state. *)
From MQ Require Export Bytes.

(* an entry of the connection script: a data segment (non-empty; when it fits the slice
   it is the result of one conn.Read call, see conn_read) or an error *)
Inductive rans :=
| RData (bs : list N)
| RTimeout            (* net.Error with Timeout(): the read deadline expired *)
| REOF
| RClosed             (* net.ErrClosed / io.ErrClosedPipe *)
| RHard.              (* any other error *)

(* reader + connection state *)
Record rst := {
  rbuf : list N;          (* unread bytes held by bufio: b.buf[b.r:b.w] *)
  rerr : option rans;     (* bufio's latched b.err *)
  rcap : N;               (* len(b.buf) = readBufSize at connection time *)
  rarmed : bool;          (* a read deadline is set on the connection *)
  rtape : list rans;      (* answers of future conn.Read calls *)
  rlog : list (bool * N)  (* conn.Read calls so far, newest first: (armed, slice size) *)
}.

Definition rst_with_buf (s : rst) (b : list N) : rst :=
  {| rbuf := b; rerr := rerr s; rcap := rcap s; rarmed := rarmed s; rtape := rtape s; rlog := rlog s |}.
Definition rst_with_err (s : rst) (e : option rans) : rst :=
  {| rbuf := rbuf s; rerr := e; rcap := rcap s; rarmed := rarmed s; rtape := rtape s; rlog := rlog s |}.
Definition rst_arm (s : rst) (a : bool) : rst :=
  {| rbuf := rbuf s; rerr := rerr s; rcap := rcap s; rarmed := a; rtape := rtape s; rlog := rlog s |}.

(* error classes seen by the client *)
Inductive rerror :=
| ETimeout | EEOF | EClosed | EHard
| EUnexpectedEOF
| EBufferFull
| ENoTape.            (* script exhausted: never in a well-formed run *)

Definition rerror_of (a : rans) : rerror :=
  match a with RTimeout => ETimeout | REOF => EEOF | RClosed => EClosed | RHard => EHard | RData _ => EHard end.

(* The scripted connection.  An [RData] entry is a segment offered by the network; one
   conn.Read call takes at most [want] (the slice size) bytes of it and leaves the rest
   of the segment for the next call (a stream connection never loses bytes; this is
   what simConn does with its [pend] field).  When the segment fits, one entry is the
   result of exactly one conn.Read call.  Other entries are returned as they are. *)
Definition chunk_data (a : rans) : list N := match a with RData bs => bs | _ => [] end.
Fixpoint data (t : list rans) : list N :=
  match t with [] => [] | a :: r => chunk_data a ++ data r end.

(* fuel measure: every conn.Read with a non-empty slice on a tape of non-empty segments
   lowers it (an entry is consumed, or at least one byte of the head segment) *)
Fixpoint tape_weight (t : list rans) : nat :=
  match t with [] => O | a :: r => S (length (chunk_data a) + tape_weight r) end.

(* b.fill(): one conn.Read into the free space (no-op when an error is latched; the
   callers below only call it with rerr = None and free space > 0).  [want] is the slice
   size handed to Read.  Returns None when the script is exhausted. *)
Definition conn_read (s : rst) (want : N) : option (rans * rst) :=
  match rtape s with
  | [] => None
  | a :: t =>
    let log := (rarmed s, want) :: rlog s in
    match a with
    | RData bs =>
      if want <? len bs then
        Some (RData (firstn (N.to_nat want) bs),
              {| rbuf := rbuf s; rerr := rerr s; rcap := rcap s; rarmed := rarmed s;
                 rtape := RData (skipn (N.to_nat want) bs) :: t; rlog := log |})
      else
        Some (a, {| rbuf := rbuf s; rerr := rerr s; rcap := rcap s; rarmed := rarmed s;
                    rtape := t; rlog := log |})
    | _ =>
      Some (a, {| rbuf := rbuf s; rerr := rerr s; rcap := rcap s; rarmed := rarmed s;
                  rtape := t; rlog := log |})
    end
  end.

Definition fill (s : rst) : option rst :=
  match conn_read s (rcap s - len (rbuf s)) with
  | None => None
  | Some (RData bs, s') => Some (rst_with_buf s' (rbuf s' ++ bs))
  | Some (e, s') => Some (rst_with_err s' (Some e))
  end.

(* b.readErr(): take and clear the latched error *)
Definition take_err (s : rst) : option rans * rst := (rerr s, rst_with_err s None).

(* bufio.Reader.ReadByte *)
Definition read_byte (s : rst) : (N + rerror) * rst :=
  match rbuf s with
  | b :: r => (inl b, rst_with_buf s r)
  | [] =>
    match rerr s with
    | Some e => (inr (rerror_of e), rst_with_err s None)
    | None =>
      match fill s with
      | None => (inr ENoTape, s)
      | Some s' =>
        match rbuf s' with
        | b :: r => (inl b, rst_with_buf s' r)
        | [] => match rerr s' with
                | Some e => (inr (rerror_of e), rst_with_err s' None)
                | None => (inr ENoTape, s')      (* empty data chunk: excluded *)
                end
        end
      end
    end
  end.

(* bufio.Reader.Peek(n): fill while short, not full and no latched error *)
Fixpoint peek_fill (fuel : nat) (s : rst) (n : N) : option rst :=
  match fuel with
  | O => Some s
  | S f =>
    if (len (rbuf s) <? n) && (len (rbuf s) <? rcap s) && (match rerr s with None => true | _ => false end)
    then match fill s with None => None | Some s' => peek_fill f s' n end
    else Some s
  end.

(* result: the slice (a prefix of the buffer; nothing is consumed) and an optional error *)
Definition peek (s : rst) (n : N) : (list N * option rerror) * rst :=
  match peek_fill (S (tape_weight (rtape s))) s n with
  | None => (([], Some ENoTape), s)
  | Some s' =>
    if rcap s' <? n then ((rbuf s', Some EBufferFull), s')          (* latched error stays *)
    else if len (rbuf s') <? n then
      match rerr s' with
      | Some e => ((rbuf s', Some (rerror_of e)), rst_with_err s' None)
      | None => ((rbuf s', Some EBufferFull), s')
      end
    else ((firstn (N.to_nat n) (rbuf s'), None), s')
  end.

(* bufio.Reader.Discard(n): returns the number discarded and an optional error *)
Fixpoint bufio_discard (fuel : nat) (s : rst) (remain done : N) : (N * option rerror) * rst :=
  match fuel with
  | O => ((done, Some ENoTape), s)
  | S f =>
    if remain =? 0 then ((done, None), s) else
    (* fill() reads even when an error is latched *)
    let s1 := match rbuf s with
              | [] => fill s
              | _ => Some s
              end in
    match s1 with
    | None => ((done, Some ENoTape), s)
    | Some s1 =>
      let skip := N.min (len (rbuf s1)) remain in
      let s2 := rst_with_buf s1 (skipn (N.to_nat skip) (rbuf s1)) in
      if remain - skip =? 0 then ((done + skip, None), s2)
      else match rerr s2 with
           | Some e => ((done + skip, Some (rerror_of e)), rst_with_err s2 None)
           | None => bufio_discard f s2 (remain - skip) (done + skip)
           end
    end
  end.

(* bufio.Reader.Read(p) with len(p) = want > 0: at most one conn.Read *)
Definition bufio_read (s : rst) (want : N) : (list N * option rerror) * rst :=
  match rbuf s with
  | _ :: _ =>
    let k := N.to_nat (N.min want (len (rbuf s))) in
    ((firstn k (rbuf s), None), rst_with_buf s (skipn k (rbuf s)))
  | [] =>
    match rerr s with
    | Some e => (([], Some (rerror_of e)), rst_with_err s None)
    | None =>
      if rcap s <=? want then
        (* large read: directly into p *)
        match conn_read s want with
        | None => (([], Some ENoTape), s)
        | Some (RData bs, s') => ((bs, None), s')
        | Some (e, s') => (([], Some (rerror_of e)), s')       (* b.err set and taken at once *)
        end
      else
        match conn_read s (rcap s) with
        | None => (([], Some ENoTape), s)
        | Some (RData bs, s') =>
          let k := N.to_nat (N.min want (len bs)) in
          ((firstn k bs, None), rst_with_buf s' (skipn k bs))
        | Some (e, s') => (([], Some (rerror_of e)), s')
        end
    end
  end.

(* ------------------------------------------------------------------ *)
(* Client.peekPacket                                                   *)

Inductive peek_result :=
| PkOk (head : N) (body : list N)             (* c.peek = body, still buffered *)
| PkBig (head : N) (size : N) (partial : list N) (* BigMessage: c.peek = the full buffer *)
| PkErr (e : rerror) (wrapped_proto : bool)   (* error; proto = errProtoReset class *)
| PkBrokerTerm.                                (* EOF before a packet: errBrokerTerm *)

Definition eof_unexpected (e : rerror) : rerror :=
  match e with EEOF => EUnexpectedEOF | _ => e end.

(* decode "remaining length": up to four bytes *)
Fixpoint remlen_loop (fuel : nat) (pause : bool) (s : rst) (shift size : N)
  : (N + (rerror * bool)) * rst :=
  match fuel with
  | O => (inr (ENoTape, false), s)
  | S f =>
    let s := if (len (rbuf s) =? 0) && pause then rst_arm s true else s in
    match read_byte s with
    | (inr e, s') => (inr (eof_unexpected e, false), s')
    | (inl b, s') =>
      let size := size + (b mod 128) * 2 ^ shift in
      if b <? 128 then (inl size, s')
      else if 21 <=? shift then (inr (EHard, true), s')     (* more than 4 bytes: protocol reset *)
      else remlen_loop f pause s' (shift + 7) size
    end
  end.

(* slice the payload: Peek(min(size, cap) for a big PUBLISH), retry on progress-making expiry *)
Fixpoint slice_loop (fuel : nat) (pause : bool) (s : rst) (head size lastN : N) : peek_result * rst :=
  match fuel with
  | O => (PkErr ENoTape false, s)
  | S f =>
    let s := if (len (rbuf s) <? size) && pause then rst_arm s true else s in
    let big := (head / 16 =? 3) && (rcap s <? size) in
    let n := if big then rcap s else size in
    match peek s n with
    | ((p, None), s') => if big then (PkBig head size p, s') else (PkOk head p, s')
    | ((p, Some e), s') =>
      match e with
      | ETimeout => if lastN <? len p then slice_loop f pause s' head size (len p)
                    else (PkErr ETimeout false, s')
      | _ => (PkErr (eof_unexpected e) false, s')
      end
    end
  end.

Definition peek_packet (pause : bool) (s : rst) : peek_result * rst :=
  match read_byte s with
  | (inr EEOF, s') => (PkBrokerTerm, s')
  | (inr e, s') => (PkErr e false, s')
  | (inl head, s') =>
    let fin (r : peek_result * rst) : peek_result * rst :=
      if pause then (fst r, rst_arm (snd r) false) else r in     (* deferred SetReadDeadline(zero) *)
    match remlen_loop 5 pause s' 0 0 with
    | (inr (e, proto), s'') => fin (PkErr e proto, s'')
    | (inl size, s'') =>
      (* each iteration but the last consumes a timeout answer *)
      fin (slice_loop (S (tape_weight (rtape s''))) pause s'' head size 0)
    end
  end.

(* Client.discard(n): skip n bytes, deadline renewed per attempt *)
Fixpoint discard_loop (fuel : nat) (pause : bool) (s : rst) (n : N) : option rerror * rst :=
  match fuel with
  | O => (Some ENoTape, s)
  | S f =>
    let s := if pause then rst_arm s true else s in
    match bufio_discard (S (S (tape_weight (rtape s)))) s n 0 with
    | ((_, None), s') => (None, s')
    | ((done, Some ETimeout), s') =>
      if done =? 0 then (Some ETimeout, s') else discard_loop f pause s' (n - done)
    | ((_, Some e), s') => (Some e, s')
    end
  end.
Definition client_discard (pause : bool) (s : rst) (n : N) : option rerror * rst :=
  let r := discard_loop (S (tape_weight (rtape s))) pause s n in
  if pause then (fst r, rst_arm (snd r) false) else r.

(* BigMessage.ReadAll after the F19 repair: deadline before each read from the connection *)
Fixpoint read_all_loop (fuel : nat) (pause : bool) (s : rst) (remain : N) (acc : list N)
  : (list N + rerror) * rst :=
  match fuel with
  | O => (inr ENoTape, s)
  | S f =>
    if remain =? 0 then (inl acc, s) else
    let s := if (len (rbuf s) =? 0) && pause then rst_arm s true else s in
    match bufio_read s remain with
    | ((bs, None), s') => read_all_loop f pause s' (remain - len bs) (acc ++ bs)
    | ((bs, Some e), s') =>
      if remain - len bs =? 0 then (inl (acc ++ bs), s') else (inr (eof_unexpected e), s')
    end
  end.
Definition read_all (pause : bool) (s : rst) (size : N) : (list N + rerror) * rst :=
  let r := read_all_loop (S (S (tape_weight (rtape s)))) pause s size [] in
  if pause then (fst r, rst_arm (snd r) false) else r.
