(* Proofs about the C09 case checker: its decision procedures decide the declarative
   notions of RequestsProofs.v, and it accepts whatever the model itself produces. *)
From MQ Require Import Bytes Utf8 Utf8Proofs Packets Spec PacketsProofs Requests RequestsProofs C09Check.
From Coq Require Import ZArith ZifyN ZifyNat ZifyBool.
Ltac Zify.zify_post_hook ::= Z.div_mod_to_equations.

(* ---------- boolean equalities ---------- *)

Lemma leqb_eq a : forall b, leqb a b = true <-> a = b.
Proof.
  induction a as [|x a IH]; intros [|y b]; cbn [leqb]; try (split; [discriminate|congruence]).
  - split; reflexivity.
  - rewrite andb_true_iff, N.eqb_eq, IH. split; [intros [-> ->]; reflexivity|].
    intros E. injection E as -> ->. auto.
Qed.
Lemma leqb_refl a : leqb a a = true.
Proof. apply leqb_eq. reflexivity. Qed.

Lemma lleqb_eq a : forall b, lleqb a b = true <-> a = b.
Proof.
  induction a as [|x a IH]; intros [|y b]; cbn [lleqb]; try (split; [discriminate|congruence]).
  - split; reflexivity.
  - rewrite andb_true_iff, leqb_eq, IH. split; [intros [-> ->]; reflexivity|].
    intros E. injection E as -> ->. auto.
Qed.

Lemma subf_eqb_eq a : forall b, subf_eqb a b = true <-> a = b.
Proof.
  induction a as [|[x q] a IH]; intros [|[y q'] b]; cbn [subf_eqb];
    try (split; [discriminate|congruence]).
  - split; reflexivity.
  - rewrite !andb_true_iff, leqb_eq, N.eqb_eq, IH. split; [intros [[-> ->] ->]; reflexivity|].
    intros E. injection E as -> -> ->. auto.
Qed.

Lemma oeqb_eq {A} (f : A -> A -> bool) :
  (forall x y, f x y = true <-> x = y) -> forall a b, oeqb f a b = true <-> a = b.
Proof.
  intros H [x|] [y|]; cbn [oeqb]; try (split; [discriminate|congruence]).
  - rewrite H. split; congruence.
  - split; reflexivity.
Qed.

Lemma will_eqb_eq a b : will_eqb a b = true <-> a = b.
Proof.
  destruct a as [t m q r], b as [t' m' q' r']. unfold will_eqb; cbn [ws_topic ws_msg ws_qos ws_retain].
  rewrite !andb_true_iff, !leqb_eq, N.eqb_eq, Bool.eqb_true_iff.
  split; [intros [[[-> ->] ->] ->]; reflexivity|]. intros E. injection E as -> -> -> ->. auto.
Qed.

Theorem packet_eqb_eq a b : packet_eqb a b = true <-> a = b.
Proof.
  destruct a, b; cbn [packet_eqb]; try (split; [discriminate|congruence]);
    rewrite ?andb_true_iff, ?Bool.eqb_true_iff, ?N.eqb_eq, ?leqb_eq, ?lleqb_eq, ?subf_eqb_eq,
            ?(oeqb_eq _ will_eqb_eq), ?(oeqb_eq _ (fun x y => leqb_eq x y)), ?(oeqb_eq _ N.eqb_eq);
    try (split; [intros; f_equal; tauto|intros E; injection E; intros; subst; tauto]);
    try (split; [intros ->; reflexivity|intros E; injection E; auto]);
    split; reflexivity.
Qed.

Theorem parses_to_spec wire p : parses_to wire p = true <-> parse_packet wire = Some (p, []).
Proof.
  unfold parses_to. destruct (parse_packet wire) as [[q [|x r]]|].
  - rewrite packet_eqb_eq. split; congruence.
  - split; [discriminate|congruence].
  - split; discriminate.
Qed.

(* ---------- the string specification is decided ---------- *)

Lemma flat_map_encode_length cps : (length cps <= length (flat_map utf8_encode cps))%nat.
Proof.
  induction cps as [|cp cps IH]; cbn [flat_map length]; [lia|].
  rewrite app_length. pose proof (utf8_encode_nonempty cp).
  destruct (utf8_encode cp); [contradiction|cbn [length]; lia].
Qed.

Lemma utf8_decode_complete cps : forall fuel,
  Forall scalar cps -> (length cps <= fuel)%nat ->
  utf8_decode fuel (flat_map utf8_encode cps) = Some cps.
Proof.
  induction cps as [|cp cps IH]; intros fuel Hs Hf.
  - destruct fuel; reflexivity.
  - inversion Hs as [|? ? Hcp Hr]; subst. cbn [flat_map].
    destruct fuel as [|f]; [cbn in Hf; lia|].
    pose proof (utf8_encode_nonempty cp) as Hne.
    destruct (utf8_encode cp ++ flat_map utf8_encode cps) as [|x l] eqn:E.
    { apply app_eq_nil in E. destruct E; contradiction. }
    cbn [utf8_decode]. rewrite <- E. rewrite (utf8_step_complete cp _ Hcp).
    rewrite IH; [reflexivity|exact Hr|cbn [length] in Hf; lia].
Qed.

Lemma existsb_nul cps : existsb (N.eqb 0) cps = true <-> In 0 cps.
Proof.
  rewrite existsb_exists. split.
  - intros (x & I & E). apply N.eqb_eq in E. subst. exact I.
  - intros I. exists 0. split; [exact I|reflexivity].
Qed.

Lemma forallb_scalarb cps : forallb scalarb cps = true <-> Forall scalar cps.
Proof.
  rewrite forallb_forall, Forall_forall. split; intros H x I; apply scalarb_spec; auto.
Qed.

Theorem spec_string_ok_iff s : spec_string_ok s = true <-> wf_string s.
Proof.
  unfold spec_string_ok, wf_string. rewrite andb_true_iff, N.leb_le. split.
  - intros [L H]. split; [exact L|].
    destruct (utf8_decode (length s) s) as [cps|]; [|discriminate].
    rewrite !andb_true_iff, negb_true_iff, leqb_eq, forallb_scalarb in H.
    destruct H as [[Hs Hn] E]. exists cps. split; [exact Hs|]. split; [|symmetry; exact E].
    intros I. apply existsb_nul in I. congruence.
  - intros [L (cps & Hs & Hn & E)]. split; [exact L|].
    rewrite E at 2. rewrite utf8_decode_complete; [|exact Hs|subst s; apply flat_map_encode_length].
    rewrite !andb_true_iff, negb_true_iff, leqb_eq, forallb_scalarb.
    split; [split; [exact Hs|]|symmetry; exact E].
    destruct (existsb (N.eqb 0) cps) eqn:X; [|reflexivity].
    apply existsb_nul in X. contradiction.
Qed.

Theorem spec_topic_ok_iff s : spec_topic_ok s = true <-> wf_topic s.
Proof.
  unfold spec_topic_ok, wf_topic. destruct s as [|x l].
  - split; [discriminate|intros [H _]; contradiction].
  - rewrite spec_string_ok_iff. split; [intros H; split; [discriminate|exact H]|intros [_ H]; exact H].
Qed.

Corollary spec_string_ok_check s : spec_string_ok s = true <-> string_check s = None.
Proof. rewrite spec_string_ok_iff, string_check_wf. reflexivity. Qed.
Corollary spec_topic_ok_check s : spec_topic_ok s = true <-> topic_check s = None.
Proof. rewrite spec_topic_ok_iff, topic_check_wf. reflexivity. Qed.

Lemma forallb_spec_topic fs : forallb spec_topic_ok fs = true <-> Forall wf_topic fs.
Proof.
  rewrite forallb_forall, Forall_forall. split; intros H x I; apply spec_topic_ok_iff; auto.
Qed.

Lemma sum_lens_spec fs per : sum_lens fs per = per * N.of_nat (length fs) + filters_len fs.
Proof. induction fs as [|f r IH]; cbn [sum_lens filters_len length]; lia. Qed.

Theorem spec_config_ok_iff c : spec_config_ok c = true <-> config_ok c.
Proof.
  unfold spec_config_ok, config_ok, will_topic_ok.
  rewrite !andb_true_iff, !N.leb_le, spec_string_ok_iff.
  destruct (cf_wmsg c); [rewrite spec_topic_ok_iff|rewrite spec_string_ok_iff]; tauto.
Qed.

(* the checker's notion of a valid request is the declarative one *)
Theorem spec_req_valid_iff r :
  spec_req_valid r = true <->
  match r with
  | RqConnect c cid => wf_string cid /\ config_ok c
  | _ => req_valid r
  end.
Proof.
  destruct r; cbn [spec_req_valid req_valid]; try (split; auto; fail).
  - unfold publish_valid, publish_size. rewrite andb_true_iff, N.leb_le, spec_topic_ok_iff.
    cbn [N.eqb]. split; intros [A B]; (split; [exact A|lia]).
  - unfold publish_valid, publish_size. rewrite andb_true_iff, N.leb_le, spec_topic_ok_iff.
    assert (pub_space level =? 0 = false) as ->
      by (destruct (pub_space_cases level) as [E|E]; rewrite E; reflexivity).
    split; intros [A B]; (split; [exact A|lia]).
  - unfold subscribe_valid, subscribe_size. destruct fs as [|f r].
    + split; [discriminate|intros [H _]; contradiction].
    + rewrite andb_true_iff, N.leb_le, forallb_spec_topic, sum_lens_spec.
      split; [intros [A B]; split; [discriminate|split; [exact A|lia]]|intros (_ & A & B); split; [exact A|lia]].
  - unfold unsubscribe_valid, unsubscribe_size. destruct fs as [|f r].
    + split; [discriminate|intros [H _]; contradiction].
    + rewrite andb_true_iff, N.leb_le, forallb_spec_topic, sum_lens_spec.
      split; [intros [A B]; split; [discriminate|split; [exact A|lia]]|intros (_ & A & B); split; [exact A|lia]].
  - rewrite andb_true_iff, spec_string_ok_iff, spec_config_ok_iff. reflexivity.
Qed.

Lemma spec_req_valid_accepted r : spec_req_valid r = true <-> req_accepted r.
Proof.
  rewrite spec_req_valid_iff. destruct r; cbn [req_accepted];
    try (rewrite <- deny_none_iff_valid; reflexivity).
  rewrite init_valid_iff. reflexivity.
Qed.

(* ---------- result codes ---------- *)

Lemma deny_code_is_deny d : is_deny_code (deny_code (Some d)) = true.
Proof. destruct d; reflexivity. Qed.

Lemma deny_code_zero o : deny_code o = 0 <-> o = None.
Proof. destruct o as [d|]; [destruct d; split; discriminate|split; reflexivity]. Qed.

Lemma config_code_zero o : config_code o = 0 <-> o = None.
Proof.
  destruct o as [e|]; [|split; reflexivity]. cbn [config_code].
  destruct (config_error_class e) as [d|]; [destruct d|]; split; discriminate.
Qed.

(* ---------- the checker accepts what the model produces ---------- *)

Theorem c09_sound_str topic s : c09_ok (StrCase topic s (str_model topic s)) = true.
Proof.
  cbn [c09_ok]. unfold str_ok, str_model. destruct topic.
  - destruct (spec_topic_ok s) eqn:E.
    + apply spec_topic_ok_check in E. rewrite E. reflexivity.
    + destruct (topic_check s) as [d|] eqn:C; [apply deny_code_is_deny|].
      apply spec_topic_ok_check in C. congruence.
  - destruct (spec_string_ok s) eqn:E.
    + apply spec_string_ok_check in E. rewrite E. reflexivity.
    + destruct (string_check s) as [d|] eqn:C; [apply deny_code_is_deny|].
      apply spec_string_ok_check in C. congruence.
Qed.

Lemma forall2b_map {A B} (f : A -> B -> bool) (g : A -> B) l :
  (forall x, f x (g x) = true) -> forall2b f l (map g l) = true.
Proof. intros H. induction l as [|x l IH]; cbn [forall2b map]; [reflexivity|]. now rewrite H, IH. Qed.

Theorem c09_sound_block topic prefix alpha depth :
  c09_ok (StrBlock topic prefix alpha depth
            (map (fun w => str_model topic (prefix ++ w)) (words alpha depth))) = true.
Proof.
  cbn [c09_ok]. apply (forall2b_map (fun w code => str_ok topic (prefix ++ w) code)).
  intros w. exact (c09_sound_str topic (prefix ++ w)).
Qed.

(* an accepted request, emitted as the model says *)
Theorem c09_sound_emitted r saves :
  req_accepted r -> req_typed r -> c09_ok (ReqCase r 0 (emit r) saves) = true.
Proof.
  intros A T. cbn [c09_ok]. rewrite (proj2 (spec_req_valid_accepted r) A).
  cbn [N.eqb andb]. apply parses_to_spec.
  rewrite <- (app_nil_r (emit r)). apply emitted_well_formed; assumption.
Qed.

(* a denied request, without trace *)
Theorem c09_sound_denied r d :
  req_deny r = Some d -> c09_ok (ReqCase r (deny_code (Some d)) [] 0) = true.
Proof.
  intros D. cbn [c09_ok].
  destruct (spec_req_valid r) eqn:V.
  - apply spec_req_valid_accepted in V. destruct r; cbn [req_accepted req_deny] in *; congruence.
  - rewrite deny_code_is_deny. reflexivity.
Qed.

Theorem c09_sound_deny_probe r d probe :
  req_deny r = Some d -> req_accepted probe -> req_typed probe -> req_slot r = req_slot probe ->
  c09_ok (DenyCase r (deny_code (Some d)) 0 0 probe 0 (emit probe)) = true.
Proof.
  intros D A T S. cbn [c09_ok].
  destruct (spec_req_valid r) eqn:V.
  - apply spec_req_valid_accepted in V. destruct r; cbn [req_accepted req_deny] in *; congruence.
  - rewrite deny_code_is_deny, (proj2 (spec_req_valid_accepted probe) A), S.
    unfold slot_eqb. rewrite !N.eqb_refl. cbn [N.eqb andb].
    apply parses_to_spec. rewrite <- (app_nil_r (emit probe)). apply emitted_well_formed; assumption.
Qed.

Theorem c09_sound_config c : c09_ok (ConfigCase c (config_code (config_valid c))) = true.
Proof.
  cbn [c09_ok]. destruct (spec_config_ok c) eqn:E.
  - apply spec_config_ok_iff, config_valid_iff in E. rewrite E. reflexivity.
  - destruct (config_valid c) as [e|] eqn:V.
    2:{ apply config_valid_iff, spec_config_ok_iff in V. congruence. }
    destruct (cf_dialer c) eqn:Dl.
    + cbn [config_code]. destruct e; cbn [config_error_class]; try apply deny_code_is_deny.
      (* left: CfgNoDialer, impossible with a Dialer *)
      apply config_valid_reason in V.
      destruct V as [[X _]|[(_ & ? & _ & X)|[(_ & _ & _ & X)|[(_ & _ & _ & _ & X)|(_ & _ & _ & _ & ? & _ & X)]]]];
        congruence.
    + destruct (config_code (Some e) =? 0) eqn:Z; [|reflexivity].
      apply N.eqb_eq, config_code_zero in Z. discriminate.
Qed.

Theorem c09_sound_init cid c :
  c09_ok (InitCase cid c (config_code (init_valid cid c))
            (match init_valid cid c with None => 2 | Some _ => 0 end)) = true.
Proof.
  cbn [c09_ok].
  destruct (spec_string_ok cid && spec_config_ok c) eqn:E.
  - apply andb_true_iff in E. destruct E as [E1 E2].
    apply spec_string_ok_iff in E1. apply spec_config_ok_iff in E2.
    rewrite (proj2 (init_valid_iff cid c) (conj E1 E2)). reflexivity.
  - destruct (init_valid cid c) as [e|] eqn:V.
    2:{ apply init_valid_iff in V. destruct V as [V1 V2].
        apply spec_string_ok_iff in V1. apply spec_config_ok_iff in V2. rewrite V1, V2 in E. discriminate. }
    rewrite N.eqb_refl, andb_true_r.
    unfold init_valid, clientid_deny in V.
    destruct (spec_string_ok cid) eqn:SC.
    + apply spec_string_ok_check in SC. rewrite SC in V. cbn [andb] in E |- *.
      pose proof (c09_sound_config c) as K. cbn [c09_ok] in K. rewrite E, V in K.
      destruct (cf_dialer c); cbn [negb]; exact K.
    + cbn [andb]. destruct (string_check cid) as [d|] eqn:C.
      * injection V as <-. cbn [config_code config_error_class]. apply deny_code_is_deny.
      * apply spec_string_ok_check in C. congruence.
Qed.

(* ---------- large publishes: header and length ---------- *)

Lemma publish_head_len_buf head topic msg pid :
  publish_head_buf head topic msg pid = publish_head_len head topic (len msg) pid.
Proof. reflexivity. Qed.

Lemma big_deny_publish level msg topic :
  big_deny level (len msg) topic = publish_deny topic msg (big_space level).
Proof.
  unfold big_deny, publish_deny, publish_size, big_space.
  destruct (topic_check topic); [reflexivity|].
  destruct (level =? 0) eqn:L; cbn [N.eqb].
  - replace (2 + len topic + len msg + 0) with (2 + len topic + len msg + 0) by reflexivity. reflexivity.
  - assert (pub_space level =? 0 = false) as ->
      by (destruct (pub_space_cases level) as [E|E]; rewrite E; reflexivity).
    reflexivity.
Qed.

Lemma head_publish_fields level retain :
  level < 3 ->
  let h := head_publish level retain false in
  (h / 16 =? 3) && negb (bit (h mod 16) 3) && ((h mod 16) / 2 mod 4 =? level)
  && Bool.eqb (bit (h mod 16) 0) retain = true.
Proof.
  intros L. assert (level = 0 \/ level = 1 \/ level = 2) as [-> | [-> | ->]] by lia;
    destruct retain; reflexivity.
Qed.

Theorem c09_sound_big level retain msg topic acc saves :
  level < 3 -> big_deny level (len msg) topic = None ->
  let head := publish_head_len (head_publish level retain false) topic (len msg) (big_pid level acc) in
  c09_ok (BigPubCase level retain (len msg) topic acc 0 head (len head + len msg) true saves) = true.
Proof.
  intros L D head. cbn [c09_ok].
  unfold big_deny in D. destruct (topic_check topic) eqn:TC; [discriminate|].
  destruct (N.ltb_spec packet_max (2 + len topic + len msg + (if level =? 0 then 0 else 2))) as [|SZ];
    [discriminate|]. unfold packet_max in SZ.
  pose proof (topic_check_none_bytes _ TC) as (_ & _ & LT).
  unfold big_spec_valid. rewrite (proj2 (spec_topic_ok_check topic) TC).
  assert ((2 + len topic + (if level =? 0 then 0 else 2) + len msg <=? 268435455) = true) as ->
    by (apply N.leb_le; destruct (level =? 0); lia).
  cbn [andb N.eqb]. rewrite andb_true_r.
  unfold big_ok, head, publish_head_len.
  assert (P0 : (big_pid level acc =? 0) = (level =? 0)).
  { unfold big_pid. destruct (level =? 0); [reflexivity|].
    apply N.eqb_neq. pose proof (pub_pid_range level acc). lia. }
  rewrite P0.
  set (size := 2 + len topic + len msg + (if level =? 0 then 0 else 2)).
  set (rest := be16 (len topic) ++ topic ++ (if level =? 0 then [] else be16 (big_pid level acc))).
  rewrite (varint_roundtrip size rest) by (unfold packet_max; exact SZ).
  rewrite (head_publish_fields level retain L). cbn [andb].
  assert (LR : len rest = 2 + len topic + (if level =? 0 then 0 else 2)).
  { unfold rest. rewrite !len_app, len_be16. destruct (level =? 0); [rewrite len_nil|rewrite len_be16]; lia. }
  assert (LH : len (head_publish level retain false :: varint size ++ rest) = 1 + len (varint size) + len rest).
  { rewrite len_cons, len_app. lia. }
  rewrite LH.
  assert ((1 + len (varint size) + len rest + len msg =? 1 + len (varint size) + len rest - len rest + size) = true) as ->
    by (apply N.eqb_eq; unfold size; rewrite LR; destruct (level =? 0); lia).
  assert ((size =? len rest + len msg) = true) as ->
    by (apply N.eqb_eq; unfold size; rewrite LR; destruct (level =? 0); lia).
  cbn [andb]. unfold rest. rewrite take_field_app by exact LT.
  rewrite leqb_refl. cbn [andb].
  destruct (level =? 0) eqn:L0; [reflexivity|].
  assert (PR : 0 < big_pid level acc < 65536) by (unfold big_pid; rewrite L0; apply pub_pid_range).
  rewrite <- (app_nil_r (be16 (big_pid level acc))). rewrite take_u16_be16 by lia.
  unfold big_pid at 1. rewrite L0, N.eqb_refl.
  assert (big_pid level acc =? 0 = false) as -> by (apply N.eqb_neq; lia). reflexivity.
Qed.

(* ---------- the model agrees with itself (the case protocol is consistent) ---------- *)

Theorem c09_agree_model_req r :
  c09_agree (ReqCase r (deny_code (req_deny r))
               (match req_deny r with Some _ => [] | None => emit r end)
               (match req_deny r with Some _ => 0 | None => req_saves r end)) = true.
Proof.
  cbn [c09_agree]. destruct (req_deny r) as [d|].
  - rewrite !N.eqb_refl. reflexivity.
  - cbn [deny_code]. rewrite leqb_refl, !N.eqb_refl. reflexivity.
Qed.
