(* C11, closed world: Subscribe / Unsubscribe / Ping callers + client + connection + broker.

   props/C11.v has the per-call class theorems (Session.v, sequential), TxIds.v the identifier
   invariant.  This file proves CORRELATION and COMPLETION for ANY interleaving of callers,
   read routine, connection faults, quit, Close and a conforming or hostile broker, with a
   small transition system [rexec] over

     - the client reduced to what the three requests touch: [rcl] = write semaphore class,
       closed flag, unorderedTxs (counter n, map identifier -> (request, filters)), ping slot,
       the blocked callers [q_parked] (waiting for a response PkSub/PkUnsub/PkPing, or blocked in
       lockWrite PkLock) and a GHOST LOG [q_done] of every return (request id, error class,
       failed filters), never reset.  [rslim : client -> rcl] is the projection.
       The slim functions sl_* / q_* are Session.v's functions on the smaller record; the tie
       (sections 1-2) is by commutation with [rslim], for ALL clients and worlds:
         rslim_complete rslim_tx_remove rslim_tx_find rslim_parked_kind rslim_lock_cleanup
         rslim_has_locked                                   (helpers, by conversion)
         rslim_release_locked   release_locked
         rslim_break_pending    break_pending    rslim_term_callbacks   term_callbacks
         rslim_to_offline       to_offline
         rslim_on_suback (rslim_on_suback_short)  rslim_on_unsuback  rslim_on_pingresp
         op_write_slim + write_result_slim        op_write / locked_write (for some conn.Write answer)
         tx_pick_slim           tx_pick = sl_pick on (n, map)
         rslim_op_subscribe     op_subscribe (Subscribe and Unsubscribe)
         rslim_op_ping  rslim_op_quit  rslim_op_close  rslim_op_disconnect
         rslim_connect          connect: refused after Close / success (no caller blocked in
                                lockWrite, as Session.connect) / failure (release_locked ErrDown)
       What Session.v does with a response, read off these functions:
         SUBACK pid codes, an entry (pid, rid, filters) exists: the entry is removed; if rid is
           waiting it returns nil / SubscribeError (failed_filters filters codes) when the number
           of codes matches, ErrBreak + protocol reset when it does not (F9a repair);
         no entry for pid: the packet is IGNORED (HOk; "hopefully due ErrAbandoned");
         malformed (no code, pid 0, pid outside the Subscribe space, illegal code): protocol
           reset, nobody in particular returns;   UNSUBACK alike;   PINGRESP: the slot holder
           returns nil, an empty slot is ignored.
     - callers: every call takes a fresh request id (k_nextr); [ASub/AUnsub/APing] with the
       answer of conn.Write as parameter; [AQuit rid]; [AClose]; [AWriteFail] (somebody else's
       write fails and drops the connection).
     - ONE connection at a time: [r_c2b] packets written and not yet answered, [r_b2c] FIFO
       from the broker to the read routine; [r_alive] (it still transports), [r_rd] (the read
       routine still holds it and may find packets in its buffer).  [ABreak keep] / a failed
       write / Close kill it: requests in flight are lost, of the responses a prefix survives
       (what is already buffered).  [ADeliver]: the read routine hands the oldest packet to its
       handler, a handler error is followed by toOffline (Session.read_loop).  [AOffline]: read
       error -> toOffline -> every waiting request gets ErrBreak.  [AReconnect ok].  [ATerm]:
       ReadSlices after Close -> termCallbacks.
     - the broker: [BAnswer i codes] answers ANY request it holds (responses of different
       requests may overtake each other, each response comes after its request): SUBACK with
       the request's identifier and one valid code per filter (any codes), UNSUBACK, PINGRESP.
       Hostile variant ([rstep true]): additionally [BForge d], any packet at all (duplicates,
       wrong identifiers, wrong counts, garbage).  Theorems with [rreach h] hold for both;
       those with [rreach false] need the conforming broker.
     - ghost: every packet carries the request that sent it / the request packet it answers
       ([dorg = None] for a forgery); [r_calls] records what each request asked for and at which
       value of the counter n its identifier was picked.  The client never reads ghosts
       (client_cannot_distinguish).

   Theorems (every reachable state, every interleaving):
     rworld_inv                 the invariant RInv (with QInv for the client)
     (a) suback_correlation / unsuback_correlation   who returns on a response, with what
         answer_own_or_late     a genuine answer reaches another request only if its own had returned
         reuse_needs_wrap       ... and only after the identifier counter went round (>= 8192)
         conforming_exact / conforming_suback   conforming broker, nobody abandoned: exact
         client_cannot_distinguish, forged_suback   hostile broker: what can happen
         response_handed_to_another_caller      COUNTEREXAMPLE to the plain reading (conforming
                                broker + quit + identifier reuse): see the final report
     (b) returns_at_most_once, outcome_unique, log_append_only
     (c) good_step_measure, good_run_bound, waiting_has_progress, answer_run_exists,
         drained_settled, offline_settles, close_completes_all
     (d) ping_holds_slot, ping_one_waiter, ping_slot_taken, pingresp_completes,
         pingresp_ignored, ping_quit   (sequential slot; relation to F7 stated there)
     Examples (vm_compute, [rrun]): reverse_order_answers, break_completes_all,
       pid_reuse_after_completion, late_answer_after_quit_hits_new_holder, forged_suback,
       count_mismatch_resets, pong_after_abandoned_ping, locked_callers, close_while_waiting.

   Limits (as Session.v): a caller blocked in lockWrite is released by a failed connect
   (ErrDown), quit (ErrCanceled) or Close (ErrClosed); its continuation after a SUCCESSFUL
   connect is outside the sequential model (Session.connect: fail_tape) and therefore outside
   this world ([AReconnect true] is enabled only without such callers); it belongs to L3. *)
From Coq Require Import ZArith ZifyN ZifyNat ZifyBool Lia List Bool Permutation.
From RecordUpdate Require Import RecordUpdate.
From MQ Require Import Session WriteLoopProofs InboundProofs TxIds.
Import ListNotations.
Local Open Scope N_scope.
Ltac Zify.zify_post_hook ::= Z.div_mod_to_equations.

(* ================================================================== *)
(* 1. The slim client                                                  *)

(* the write semaphore without the connection number *)
Inductive rws := RUp | RPending | RDown | RClosed.
Definition ws_of (s : wsem) : rws :=
  match s with WsConn _ => RUp | WsPending => RPending | WsDown => RDown | WsClosed => RClosed end.

(* transaction entries as in Session.k_txs: (packet id, request id, kind) with
   kind = Some filters for a Subscribe, None for an Unsubscribe *)
Notation rkind := (option (list (list N))) (only parsing).
Notation rdone := (N * err * list (list N))%type (only parsing).

Record rcl := mkRcl {
  q_ws : rws;
  q_closed : bool;                        (* Close/Disconnect happened (context canceled) *)
  q_txn : N;                              (* unorderedTxs.n *)
  q_nextr : N;                            (* request ids handed out so far *)
  q_txs : list (N * N * rkind);           (* unorderedTxs.perPacketID *)
  q_ping : option N;                      (* the ping slot *)
  q_parked : list (N * pkind);            (* blocked callers *)
  q_done : list (N * err * list (list N)) (* ghost log: every return, newest first *)
}.
#[export] Instance eta_rcl : Settable _ :=
  settable! mkRcl <q_ws; q_closed; q_txn; q_nextr; q_txs; q_ping; q_parked; q_done>.

Definition rslim (c : client) : rcl :=
  mkRcl (ws_of (k_wsem c)) (k_closed c) (k_txn c) (k_nextr c) (k_txs c) (k_ping c) (k_parked c) (k_done c).

Definition rid3 (x : rdone) : N := fst (fst x).
Definition err3 (x : rdone) : err := snd (fst x).

Definition q_complete (q : rcl) (rid : N) (e : err) (fs : list (list N)) : rcl :=
  q <| q_parked ::= filter (fun p => negb (fst p =? rid)) |> <| q_done ::= cons (rid, e, fs) |>.
Definition q_tx_remove (q : rcl) (pid : N) : rcl :=
  q <| q_txs ::= filter (fun t => negb (fst (fst t) =? pid)) |>.
Definition q_tx_find (q : rcl) (pid : N) : option (N * rkind) :=
  match filter (fun t => fst (fst t) =? pid) (q_txs q) with
  | (_, rid, fs) :: _ => Some (rid, fs)
  | [] => None
  end.
Definition q_parked_kind (q : rcl) (rid : N) : option pkind :=
  match filter (fun p => fst p =? rid) (q_parked q) with
  | (_, k) :: _ => Some k
  | [] => None
  end.
Definition q_lock_cleanup (q : rcl) (l : lock_cleanup) : rcl :=
  match l with
  | LcNone => q
  | LcTx pid => q_tx_remove q pid
  | LcPing => q <| q_ping := None |>
  end.
Definition q_release_step (e : err) (q : rcl) (p : N * pkind) : rcl :=
  match snd p with
  | PkLock l => q_complete (q_lock_cleanup q l) (fst p) e []
  | _ => q
  end.
Definition q_release_locked (q : rcl) (e : err) : rcl :=
  fold_left (q_release_step e) (q_parked q) q.
Definition q_has_locked (q : rcl) : bool :=
  existsb (fun p => match snd p with PkLock _ => true | _ => false end) (q_parked q).

Definition q_break_step (q : rcl) (t : N * N * rkind) : rcl :=
  match q_parked_kind q (snd (fst t)) with
  | Some (PkSub _) | Some (PkUnsub _) => q_complete q (snd (fst t)) E_break []
  | _ => q
  end.
(* Session.break_pending: toOffline's and termCallbacks' release *)
Definition q_break (q : rcl) : rcl :=
  let q := match q_ping q with
           | Some r => match q_parked_kind q r with
                       | Some PkPing => q_complete q r E_break []
                       | _ => q
                       end
           | None => q
           end in
  let q := q <| q_ping := None |> in
  let q := fold_left q_break_step (q_txs q) q in
  q <| q_txs := [] |>.

(* Session.op_write with the answer of conn.Write as an argument *)
Definition sl_write (q : rcl) (wr : wres) : rcl * wr_result :=
  match q_ws q with
  | RClosed => (q, WrDone E_closed)
  | RDown => (q, WrDone E_down)
  | RPending => (q, WrPark)
  | RUp => match wr with
           | WOk => (q, WrDone E_nil)
           | _ => (q <| q_ws := RPending |>, WrDone (E_submit wr))
           end
  end.

Fixpoint sl_pick (fuel : nat) (txn : N) (txs : list (N * N * rkind)) (space : N) : N * N :=
  match fuel with
  | O => (txn, 0)
  | S f =>
    let pid := N.lor (N.land txn un_mask) space in
    if existsb (fun t => fst (fst t) =? pid) txs then sl_pick f (N.succ txn) txs space
    else (N.succ txn, pid)
  end.

Definition kind_of (sub : bool) (fs : list (list N)) : rkind := if sub then Some fs else None.

(* Session.op_subscribe *)
Definition sl_subscribe (q : rcl) (sub : bool) (fs : list (list N)) (wr : wres) : rcl * retv :=
  let rid := q_nextr q in
  let q := q <| q_nextr ::= N.succ |> in
  match fs with
  | [] => (q, RetErr E_deny)
  | _ =>
    if any_denied fs then (q, RetErr E_deny) else
    let size := if sub then subscribe_size fs else unsubscribe_size fs in
    if packet_max <? size then (q, RetErr E_deny) else
    if 511 <? N.of_nat (length (q_txs q)) then (q, RetErr E_max) else
    let '(txn, pid) := sl_pick 1024 (q_txn q) (q_txs q) (if sub then sub_space else unsub_space) in
    let q := q <| q_txn := txn |> <| q_txs ::= cons (pid, rid, kind_of sub fs) |> in
    let '(q, r) := sl_write q wr in
    match r with
    | WrDone e =>
      if e =? 0 then (q <| q_parked ::= cons (rid, if sub then PkSub pid else PkUnsub pid) |>, RetParked)
      else (q_tx_remove q pid, RetErr e)
    | WrPark => (q <| q_parked ::= cons (rid, PkLock (LcTx pid)) |>, RetParked)
    end
  end.

(* Session.op_ping *)
Definition sl_ping (q : rcl) (wr : wres) : rcl * retv :=
  let rid := q_nextr q in
  let q := q <| q_nextr ::= N.succ |> in
  match q_ping q with
  | Some _ => (q, RetErr (if q_closed q then E_closed else E_max))
  | None =>
    let q := q <| q_ping := Some rid |> in
    let '(q, r) := sl_write q wr in
    match r with
    | WrDone e =>
      if e =? 0 then (q <| q_parked ::= cons (rid, PkPing) |>, RetParked)
      else (q <| q_ping := None |>, RetErr e)
    | WrPark => (q <| q_parked ::= cons (rid, PkLock LcPing) |>, RetParked)
    end
  end.

(* Session.op_quit *)
Definition sl_quit (q : rcl) (rid : N) : rcl :=
  match q_parked_kind q rid with
  | None => q
  | Some (PkLock l) => q_complete (q_lock_cleanup q l) rid E_canceled []
  | Some (PkSub pid) | Some (PkUnsub pid) => q_complete (q_tx_remove q pid) rid E_abandoned []
  | Some PkPing =>
    match q_ping q with
    | Some r => if r =? rid then q_complete (q <| q_ping := None |>) rid E_abandoned [] else q
    | None => q
    end
  end.

(* Session.op_close (and op_disconnect), client part *)
Definition sl_close (q : rcl) : rcl :=
  if q_closed q then q
  else q_release_locked (q <| q_closed := true |> <| q_ws := RClosed |>) E_closed.

(* Session.to_offline *)
Definition sl_offline (q : rcl) : rcl :=
  match q_ws q with
  | RClosed => q
  | _ => q_break (q <| q_ws := RPending |>)
  end.

(* Session.connect, its two exits of an open client *)
Definition sl_connect_ok (q : rcl) : rcl := q <| q_ws := RUp |>.
Definition sl_connect_fail (q : rcl) : rcl := q_release_locked (q <| q_ws := RDown |>) E_down.

Definition code_ok (cd : N) : bool := (cd <? 3) || (cd =? 128).

(* Session.on_suback on (packet id, return codes) *)
Definition sl_suback (q : rcl) (pid : N) (codes : list N) : rcl * hres :=
  match codes with
  | [] => (q, HErr E_proto)
  | _ =>
    if pid =? 0 then (q, HErr E_proto) else
    if negb (pid - N.land pid un_mask =? sub_space) then (q, HErr E_proto) else
    if negb (forallb code_ok codes) then (q, HErr E_proto) else
    match q_tx_find q pid with
    | None => (q, HOk)
    | Some (rid, fso) =>
      let q := q_tx_remove q pid in
      let fs := match fso with Some fs => fs | None => [] end in
      let awaiting := match q_parked_kind q rid with Some (PkSub _) => true | _ => false end in
      if negb (length fs =? length codes)%nat then
        ((if awaiting then q_complete q rid E_break [] else q), HErr E_proto)
      else
        let failed := failed_filters fs codes in
        match failed with
        | [] => ((if awaiting then q_complete q rid E_nil [] else q), HOk)
        | _ => ((if awaiting then q_complete q rid E_suberr failed else q), HOk)
        end
    end
  end.

Definition sl_unsuback (q : rcl) (pid : N) : rcl * hres :=
  if pid =? 0 then (q, HErr E_proto) else
  if negb (pid - N.land pid un_mask =? unsub_space) then (q, HErr E_proto) else
  match q_tx_find q pid with
  | None => (q, HOk)
  | Some (rid, _) =>
    let q := q_tx_remove q pid in
    match q_parked_kind q rid with
    | Some (PkUnsub _) => (q_complete q rid E_nil [], HOk)
    | _ => (q, HOk)
    end
  end.

Definition sl_pingresp (q : rcl) : rcl * hres :=
  match q_ping q with
  | None => (q, HOk)
  | Some rid =>
    let q := q <| q_ping := None |> in
    match q_parked_kind q rid with
    | Some PkPing => (q_complete q rid E_nil [], HOk)
    | _ => (q, HOk)
    end
  end.

(* ================================================================== *)
(* 2. The tie: the slim functions are Session.v's, seen through rslim  *)

Lemma rslim_complete c rid e fs : rslim (complete c rid e fs) = q_complete (rslim c) rid e fs.
Proof. reflexivity. Qed.
Lemma rslim_tx_remove c pid : rslim (tx_remove c pid) = q_tx_remove (rslim c) pid.
Proof. reflexivity. Qed.
Lemma rslim_tx_find c pid : tx_find c pid = q_tx_find (rslim c) pid.
Proof. reflexivity. Qed.
Lemma rslim_parked_kind c rid : parked_kind c rid = q_parked_kind (rslim c) rid.
Proof. reflexivity. Qed.
Lemma rslim_lock_cleanup c l : rslim (lock_cleanup_run c l) = q_lock_cleanup (rslim c) l.
Proof. destruct l; reflexivity. Qed.
Lemma rslim_has_locked c : has_locked c = q_has_locked (rslim c).
Proof. reflexivity. Qed.

Lemma rslim_fold {X} (f : client -> X -> client) (g : rcl -> X -> rcl) (l : list X) :
  (forall c x, rslim (f c x) = g (rslim c) x) ->
  forall c, rslim (fold_left f l c) = fold_left g l (rslim c).
Proof.
  intros H. induction l as [|x l IH]; intros c; cbn [fold_left]; [reflexivity|].
  rewrite IH, H. reflexivity.
Qed.

Theorem rslim_release_locked c e : rslim (release_locked c e) = q_release_locked (rslim c) e.
Proof.
  unfold release_locked, q_release_locked.
  change (q_parked (rslim c)) with (k_parked c).
  apply rslim_fold. intros c' p. unfold q_release_step. destruct (snd p); try reflexivity.
  rewrite rslim_complete, rslim_lock_cleanup. reflexivity.
Qed.

Theorem rslim_break_pending c : rslim (break_pending c) = q_break (rslim c).
Proof.
  unfold break_pending, q_break. cbv zeta.
  set (c1 := match k_ping c with
             | Some r => match parked_kind c r with Some PkPing => complete c r E_break [] | _ => c end
             | None => c end).
  set (q1 := match q_ping (rslim c) with
             | Some r => match q_parked_kind (rslim c) r with
                         | Some PkPing => q_complete (rslim c) r E_break [] | _ => rslim c end
             | None => rslim c end).
  assert (E1 : rslim c1 = q1).
  { unfold c1, q1. change (q_ping (rslim c)) with (k_ping c). destruct (k_ping c) as [r|]; [|reflexivity].
    change (q_parked_kind (rslim c) r) with (parked_kind c r).
    destruct (parked_kind c r) as [[]|]; reflexivity. }
  clearbody c1 q1. subst q1.
  set (c2 := c1 <| k_ping := None |>).
  change (rslim c1 <| q_ping := None |>) with (rslim c2).
  change (q_txs (rslim c2)) with (k_txs c2).
  match goal with |- rslim (?x <| k_txs := [] |>) = ?y <| q_txs := [] |> =>
    change (rslim (x <| k_txs := [] |>)) with (rslim x <| q_txs := [] |>); f_equal end.
  apply rslim_fold. intros c' t. unfold q_break_step.
  change (q_parked_kind (rslim c') (snd (fst t))) with (parked_kind c' (snd (fst t))).
  destruct (parked_kind c' (snd (fst t))) as [[]|]; reflexivity.
Qed.

Theorem rslim_term_callbacks c : rslim (term_callbacks c) = q_break (rslim c).
Proof.
  unfold term_callbacks. rewrite rslim_break_pending. f_equal.
  destruct (k_seqclosed c); reflexivity.
Qed.

Theorem rslim_to_offline c w c' w' :
  to_offline c w = Some (c', w') -> rslim c' = sl_offline (rslim c).
Proof.
  unfold to_offline, sl_offline. change (q_ws (rslim c)) with (ws_of (k_wsem c)).
  destruct (k_wsem c) eqn:W; intros H; cbn [ws_of].
  4: { apply ret_inv in H as [H _]. subst. reflexivity. }
  all: apply bind_inv in H as (u & w1 & _ & H); apply ret_inv in H as [H _]; subst;
    rewrite rslim_break_pending; f_equal.
Qed.

(* the packet handlers *)

Lemma skipn2_nil (body : list N) : 2 <= len body -> (len body <? 3) = true -> skipn 2 body = [].
Proof.
  unfold len. intros H1 H2. apply N.ltb_lt in H2.
  destruct body as [|a [|b [|x r]]]; cbn [length] in *; try lia. reflexivity.
Qed.
Lemma skipn2_cons (body : list N) : (len body <? 3) = false -> exists x r, skipn 2 body = x :: r.
Proof.
  unfold len. intros H2. apply N.ltb_ge in H2.
  destruct body as [|a [|b [|x r]]]; cbn [length] in *; try lia. exists x, r. reflexivity.
Qed.

Theorem rslim_on_suback c body : 2 <= len body ->
  (rslim (fst (on_suback c body)), snd (on_suback c body))
  = sl_suback (rslim c) (u16 body) (skipn 2 body).
Proof.
  intros Hl. unfold on_suback, sl_suback. cbv zeta.
  destruct (len body <? 3) eqn:L3.
  { rewrite (skipn2_nil _ Hl L3). reflexivity. }
  destruct (skipn2_cons _ L3) as (x & r & Ex). rewrite Ex. rewrite <- Ex. clear x r Ex.
  destruct (u16 body =? 0); [reflexivity|].
  destruct (negb (_ =? sub_space)); [reflexivity|].
  change (fun cd : N => (cd <? 3) || (cd =? 128)) with code_ok.
  destruct (negb (forallb code_ok (skipn 2 body))); [reflexivity|].
  change (q_tx_find (rslim c) (u16 body)) with (tx_find c (u16 body)).
  destruct (tx_find c (u16 body)) as [[rid fso]|]; [|reflexivity].
  change (q_parked_kind (q_tx_remove (rslim c) (u16 body)) rid)
    with (parked_kind (tx_remove c (u16 body)) rid).
  destruct (negb (_ =? _)%nat).
  - destruct (parked_kind _ rid) as [[]|]; reflexivity.
  - destruct (failed_filters _ _); destruct (parked_kind _ rid) as [[]|]; reflexivity.
Qed.

Theorem rslim_on_suback_short c body : len body < 2 -> on_suback c body = (c, HErr E_proto).
Proof.
  intros H. unfold on_suback. destruct (N.ltb_spec (len body) 3); [reflexivity|lia].
Qed.

Theorem rslim_on_unsuback c body : len body = 2 ->
  (rslim (fst (on_unsuback c body)), snd (on_unsuback c body)) = sl_unsuback (rslim c) (u16 body).
Proof.
  intros Hl. unfold on_unsuback, sl_unsuback. cbv zeta. rewrite Hl. cbn [N.eqb Pos.eqb negb].
  destruct (u16 body =? 0); [reflexivity|].
  destruct (negb (_ =? unsub_space)); [reflexivity|].
  change (q_tx_find (rslim c) (u16 body)) with (tx_find c (u16 body)).
  destruct (tx_find c (u16 body)) as [[rid fso]|]; [|reflexivity].
  change (q_parked_kind (q_tx_remove (rslim c) (u16 body)) rid)
    with (parked_kind (tx_remove c (u16 body)) rid).
  destruct (parked_kind _ rid) as [[]|]; reflexivity.
Qed.

Theorem rslim_on_pingresp c :
  (rslim (fst (on_pingresp c [])), snd (on_pingresp c [])) = sl_pingresp (rslim c).
Proof.
  unfold on_pingresp, sl_pingresp. cbn [len length N.of_nat N.eqb negb].
  change (q_ping (rslim c)) with (k_ping c). destruct (k_ping c) as [rid|]; [|reflexivity]. cbv zeta.
  change (q_parked_kind (rslim c <| q_ping := None |>) rid) with (parked_kind (c <| k_ping := None |>) rid).
  destruct (parked_kind _ rid) as [[]|]; reflexivity.
Qed.

(* the API calls *)

Definition write_result (c : client) (wr : wres) : client * wr_result :=
  match k_wsem c with
  | WsClosed => (c, WrDone E_closed)
  | WsDown => (c, WrDone E_down)
  | WsPending => (c, WrPark)
  | WsConn _ => match wr with
                | WOk => (c, WrDone E_nil)
                | _ => (c <| k_wsem := WsPending |>, WrDone (E_submit wr))
                end
  end.

Lemma write_result_slim c wr :
  (rslim (fst (write_result c wr)), snd (write_result c wr)) = sl_write (rslim c) wr.
Proof.
  unfold write_result, sl_write. change (q_ws (rslim c)) with (ws_of (k_wsem c)).
  destruct (k_wsem c); cbn [ws_of]; try reflexivity. destruct wr; reflexivity.
Qed.

Lemma op_write_slim c bufs single :
  sat (op_write c bufs single) (fun p => exists wr, p = write_result c wr).
Proof.
  unfold op_write, write_result. destruct (k_wsem c) as [| |cn|];
    try (apply sat_ret; exists WOk; reflexivity).
  unfold locked_write.
  eapply sat_bind with (P := fun p => exists wr, p = match wr with
                                   | WOk => (c, E_nil)
                                   | _ => (c <| k_wsem := WsPending |>, E_submit wr) end).
  - apply sat_bind_any; [apply conn_write_sat|]. intros r.
    destruct r; try (apply sat_ret; exists WOk; reflexivity).
    + apply sat_bind_any; [apply tell_sat|]. intros _. apply sat_ret. exists WTimeout. reflexivity.
    + apply sat_bind_any; [apply sat_ret; exact I|]. intros _. apply sat_ret. exists WClosed. reflexivity.
    + apply sat_bind_any; [apply tell_sat|]. intros _. apply sat_ret. exists WHard. reflexivity.
    + apply sat_bind_any; [apply tell_sat|]. intros _. apply sat_ret. exists WNoTape. reflexivity.
  - intros [c1 e] (wr & E). apply sat_ret. exists wr. destruct wr; inversion E; reflexivity.
Qed.

Lemma tx_pick_slim space : forall fuel c,
  tx_pick fuel c space =
  (c <| k_txn := fst (sl_pick fuel (k_txn c) (k_txs c) space) |>,
   snd (sl_pick fuel (k_txn c) (k_txs c) space)).
Proof.
  induction fuel as [|f IH]; intros c; cbn [tx_pick sl_pick].
  - cbn [fst snd]. destruct c; reflexivity.
  - cbv zeta. change (k_txs (c <| k_txn ::= N.succ |>)) with (k_txs c).
    destruct (existsb _ (k_txs c)).
    + rewrite IH. reflexivity.
    + cbn [fst snd]. reflexivity.
Qed.

(* Subscribe / Unsubscribe: for some answer of conn.Write, the slim call *)
Theorem rslim_op_subscribe c sub level fs :
  sat (op_subscribe c sub level fs)
      (fun p => exists wr, (rslim (fst p), snd p) = sl_subscribe (rslim c) sub fs wr).
Proof.
  unfold op_subscribe, sl_subscribe. cbv zeta.
  destruct fs as [|f0 fs0]; [apply sat_ret; exists WOk; reflexivity|].
  set (fs := f0 :: fs0) in *. clearbody fs.
  destruct (any_denied fs); [apply sat_ret; exists WOk; reflexivity|].
  destruct (packet_max <? _); [apply sat_ret; exists WOk; reflexivity|].
  change (q_txs (rslim c <| q_nextr ::= N.succ |>)) with (k_txs c).
  change (k_txs (c <| k_nextr ::= N.succ |>)) with (k_txs c).
  destruct (511 <? N.of_nat (length (k_txs c))); [apply sat_ret; exists WOk; reflexivity|].
  rewrite tx_pick_slim.
  change (k_txn (c <| k_nextr ::= N.succ |>)) with (k_txn c).
  change (k_txs (c <| k_nextr ::= N.succ |>)) with (k_txs c).
  change (q_txn (rslim c <| q_nextr ::= N.succ |>)) with (k_txn c).
  destruct (sl_pick 1024 (k_txn c) (k_txs c) (if sub then sub_space else unsub_space)) as [txn pid].
  cbn [fst snd].
  match goal with |- sat (bind (op_write ?x _ _) _) _ => set (c1 := x) end.
  eapply sat_bind; [apply op_write_slim|]. intros [c2 r] (wr & E).
  pose proof (write_result_slim c1 wr) as S. rewrite <- E in S. cbn [fst snd] in S.
  destruct r as [e|]; [destruct (e =? 0) eqn:E0|]; apply sat_ret; exists wr;
    (match goal with |- context [sl_write ?y wr] => change y with (rslim c1) end);
    rewrite <- S; rewrite ?E0; destruct sub; reflexivity.
Qed.

Theorem rslim_op_ping c :
  sat (op_ping c) (fun p => exists wr, (rslim (fst p), snd p) = sl_ping (rslim c) wr).
Proof.
  unfold op_ping, sl_ping. cbv zeta.
  change (q_ping (rslim c <| q_nextr ::= N.succ |>)) with (k_ping c).
  change (k_ping (c <| k_nextr ::= N.succ |>)) with (k_ping c).
  destruct (k_ping c) as [r0|]; [apply sat_ret; exists WOk; reflexivity|].
  match goal with |- sat (bind (op_write ?x _ _) _) _ => set (c1 := x) end.
  eapply sat_bind; [apply op_write_slim|]. intros [c2 r] (wr & E).
  pose proof (write_result_slim c1 wr) as S. rewrite <- E in S. cbn [fst snd] in S.
  destruct r as [e|]; [destruct (e =? 0) eqn:E0|]; apply sat_ret; exists wr;
    (match goal with |- context [sl_write ?y wr] => change y with (rslim c1) end);
    rewrite <- S; rewrite ?E0; reflexivity.
Qed.

Theorem rslim_op_quit c rid : sat (op_quit c rid) (fun p => rslim (fst p) = sl_quit (rslim c) rid).
Proof.
  unfold op_quit, sl_quit. change (q_parked_kind (rslim c) rid) with (parked_kind c rid).
  destruct (parked_kind c rid) as [[l|pid|pid|]|]; try (apply sat_ret; reflexivity).
  - apply sat_ret. cbn [fst]. rewrite rslim_complete, rslim_lock_cleanup. reflexivity.
  - change (q_ping (rslim c)) with (k_ping c). destruct (k_ping c) as [r|]; [|apply sat_ret; reflexivity].
    destruct (r =? rid); apply sat_ret; reflexivity.
Qed.

Theorem rslim_op_close c : sat (op_close c) (fun p => rslim (fst p) = sl_close (rslim c)).
Proof.
  unfold op_close, sl_close. change (q_closed (rslim c)) with (k_closed c).
  destruct (k_closed c); [apply sat_ret; reflexivity|].
  apply sat_bind_any.
  { destruct (k_wsem c); first [apply tell_sat|apply sat_ret; exact I]. }
  intros _. apply sat_ret. cbn [fst]. rewrite rslim_release_locked. reflexivity.
Qed.

(* Disconnect releases exactly as Close does *)
Theorem rslim_op_disconnect c : sat (op_disconnect c) (fun p => rslim (fst p) = sl_close (rslim c)).
Proof.
  unfold op_disconnect, sl_close. change (q_closed (rslim c)) with (k_closed c).
  destruct (k_closed c); [apply sat_ret; reflexivity|].
  destruct (k_wsem c) as [| |cn|];
    try (apply sat_ret; cbn [fst]; rewrite rslim_release_locked; reflexivity).
  apply sat_bind_any; [apply conn_write_sat|]. intros r.
  apply sat_bind_any; [apply tell_sat|]. intros _.
  apply sat_ret. cbn [fst]. rewrite rslim_release_locked. reflexivity.
Qed.

(* connect: refused after Close; success (only without callers blocked in lockWrite: the
   sequential model gives up otherwise, Session.connect: fail_tape); failure *)
Lemma with_reader_slim {A} c (f : rst -> A * rst) :
  sat (with_reader c f) (fun p => rslim (fst p) = rslim c).
Proof.
  intros w a w' E. unfold with_reader in E. destruct (f (rst_of c w)) as [x s].
  inversion E; subst. split; [eexists; reflexivity|reflexivity].
Qed.

Lemma handshake_slim c cn clean cid :
  sat (handshake c cn clean cid) (fun p => rslim (fst p) = rslim c).
Proof.
  unfold handshake. cbv zeta. apply sat_bind_any; [apply conn_write_sat|]. intros r.
  destruct r; try (apply sat_ret; reflexivity).
  eapply sat_bind; [apply with_reader_slim|]. intros [c1 [p e]] H. cbn [fst] in H.
  change (rslim c1 = rslim c) in H.
  assert (Hc : forall x, rslim (c1 <| k_rarm := x |>) = rslim c) by (intros; exact H).
  assert (Hc2 : forall x f, rslim (c1 <| k_rarm := x |> <| k_rbuf ::= f |>) = rslim c)
    by (intros; exact H).
  assert (Hc3 : forall x f, rslim (c1 <| k_rarm := x |> <| k_newsess := true |> <| k_rbuf ::= f |>)
                            = rslim c) by (intros; exact H).
  destruct e as [[]|]; try apply sat_fail;
  match goal with |- context [if ?b then _ else _] => destruct b end;
    try (apply sat_ret; apply Hc).
  destruct p as [|a [|b [|fl [|code [|]]]]]; try apply sat_fail.
  destruct (negb (code =? 0)); [apply sat_ret, Hc|].
  destruct (fl =? 0); [apply sat_ret, Hc3|].
  destruct (fl =? 1); [|apply sat_ret, Hc].
  destruct clean; apply sat_ret; [apply Hc|apply Hc2].
Qed.

Definition connect_post (c : client) (p : client * err) : Prop :=
  (q_closed (rslim c) = true /\ fst p = c /\ snd p = E_closed)
  \/ (q_closed (rslim c) = false /\ snd p = E_nil /\ q_has_locked (rslim c) = false /\
      rslim (fst p) = sl_connect_ok (rslim c))
  \/ (q_closed (rslim c) = false /\ rslim (fst p) = sl_connect_fail (rslim c)).

Theorem rslim_connect c : sat (connect c) (connect_post c).
Proof.
  unfold connect. change (q_closed (rslim c)) with (k_closed c).
  destruct (k_closed c) eqn:K.
  { apply sat_ret. left. unfold connect_post. change (q_closed (rslim c)) with (k_closed c). auto. }
  cbv zeta.
  assert (RL : forall (c1 : client) (e : err), rslim c1 = rslim c <| q_ws := RDown |> ->
            connect_post c (release_locked c1 E_down, e)).
  { intros c1 e E. right. right. change (q_closed (rslim c)) with (k_closed c).
    split; [exact K|]. cbn [fst]. rewrite rslim_release_locked, E. reflexivity. }
  apply sat_bind_any; [apply rugged_load_sat|]. intros l.
  destruct l as [cidv|e]; [|apply sat_ret, RL; reflexivity].
  apply sat_bind_any; [apply ask_dial_sat|]. intros ok.
  destruct ok; cbn [negb]; [|apply sat_ret, RL; reflexivity].
  eapply sat_bind; [apply handshake_slim|]. intros [c1 h] H. cbn [fst] in H.
  change (rslim c1 = rslim c) in H.
  assert (RL1 : forall (c2 : client) (e : err), rslim c2 = rslim c1 <| q_ws := RDown |> ->
            connect_post c (release_locked c2 E_down, e)).
  { intros c2 e E. apply RL. rewrite E, H. reflexivity. }
  destruct h as [|e].
  2:{ apply sat_bind_any; [apply tell_sat|]. intros _. apply sat_ret, RL1. reflexivity. }
  apply sat_bind_any; [apply resend_sat|]. intros [s1 e1].
  destruct (negb (e1 =? 0)).
  { apply sat_bind_any; [apply tell_sat|]. intros _. apply sat_ret, RL1. reflexivity. }
  apply sat_bind_any; [apply resend_sat|]. intros [s2 e2].
  destruct (negb (e2 =? 0)).
  { apply sat_bind_any; [apply tell_sat|]. intros _. apply sat_ret, RL1. reflexivity. }
  match goal with |- context [if has_locked ?x then _ else _] =>
    change (has_locked x) with (q_has_locked (rslim c1)) end.
  rewrite H. destruct (q_has_locked (rslim c)) eqn:HL; [apply sat_fail|].
  apply sat_ret. right. left. change (q_closed (rslim c)) with (k_closed c).
  split; [exact K|]. split; [reflexivity|]. split; [exact HL|]. cbn [fst].
  match goal with |- rslim (?x <| k_online := true |> <| k_wsem := WsConn ?cn |> <| k_rwait := 0 |>) = _ =>
    change (rslim (x <| k_online := true |> <| k_wsem := WsConn cn |> <| k_rwait := 0 |>))
      with (rslim c1 <| q_ws := RUp |>) end.
  rewrite H. reflexivity.
Qed.

(* ================================================================== *)
(* 3. Lists, lookups                                                   *)

Definition is_lock (k : pkind) : bool := match k with PkLock _ => true | _ => false end.
Definition is_wait (k : pkind) : bool := negb (is_lock k).
Definition wait_pid (k : pkind) : option N :=
  match k with PkSub p | PkUnsub p => Some p | _ => None end.
Definition prids (q : rcl) : list N := map fst (q_parked q).
Definition drids (q : rcl) : list N := map rid3 (q_done q).
Definition qpids (q : rcl) : list N := map tx_pid (q_txs q).
Definition tx_rid (t : N * N * rkind) : N := snd (fst t).
Definition trids (q : rcl) : list N := map tx_rid (q_txs q).

Definition pk_of (l : list (N * pkind)) (rid : N) : option pkind :=
  match filter (fun p => fst p =? rid) l with (_, k) :: _ => Some k | [] => None end.
Definition find_of (l : list (N * N * rkind)) (pid : N) : option (N * rkind) :=
  match filter (fun t => fst (fst t) =? pid) l with (_, rid, fs) :: _ => Some (rid, fs) | [] => None end.

Lemma pk_of_some l rid k : pk_of l rid = Some k -> In (rid, k) l.
Proof.
  unfold pk_of. destruct (filter _ l) as [|[r k'] t] eqn:F; [discriminate|]. intros [= <-].
  assert (X : In (r, k') (filter (fun p => fst p =? rid) l)) by (rewrite F; left; reflexivity).
  apply filter_In in X as [X1 X2]. cbn [fst] in X2. apply N.eqb_eq in X2. subst. exact X1.
Qed.

Lemma pk_of_in l rid k : NoDup (map fst l) -> In (rid, k) l -> pk_of l rid = Some k.
Proof.
  unfold pk_of. induction l as [|[r0 k0] l IH]; intros ND Hin; [contradiction|].
  cbn [map fst] in ND. inversion ND as [|? ? Hn Hd]; subst. cbn [filter fst].
  destruct (N.eqb_spec r0 rid) as [->|Hne].
  - destruct Hin as [E|Hin]; [inversion E; reflexivity|].
    exfalso. apply Hn. change rid with (fst (rid, k)). apply in_map, Hin.
  - destruct Hin as [E|Hin]; [inversion E; contradiction|]. apply IH; assumption.
Qed.

Lemma pk_of_none l rid : pk_of l rid = None -> ~ In rid (map fst l).
Proof.
  unfold pk_of. destruct (filter _ l) as [|[r k'] t] eqn:F; [|discriminate]. intros _ Hin.
  apply in_map_iff in Hin as ([r k] & E & Hin). cbn [fst] in E. subst r.
  assert (X : In (rid, k) (filter (fun p => fst p =? rid) l)).
  { apply filter_In. split; [exact Hin|]. apply N.eqb_refl. }
  rewrite F in X. exact X.
Qed.

Lemma find_of_some l pid rid k : find_of l pid = Some (rid, k) -> In (pid, rid, k) l.
Proof.
  unfold find_of. destruct (filter _ l) as [|[[p r] k'] t] eqn:F; [discriminate|]. intros [= <- <-].
  assert (X : In (p, r, k') (filter (fun t => fst (fst t) =? pid) l)) by (rewrite F; left; reflexivity).
  apply filter_In in X as [X1 X2]. cbn [fst] in X2. apply N.eqb_eq in X2. subst. exact X1.
Qed.

Lemma find_of_in l pid rid k : NoDup (map tx_pid l) -> In (pid, rid, k) l -> find_of l pid = Some (rid, k).
Proof.
  unfold find_of. induction l as [|[[p0 r0] k0] l IH]; intros ND Hin; [contradiction|].
  cbn [map] in ND. unfold tx_pid at 1 in ND. cbn [fst] in ND.
  inversion ND as [|? ? Hn Hd]; subst. cbn [filter fst].
  destruct (N.eqb_spec p0 pid) as [->|Hne].
  - destruct Hin as [E|Hin]; [inversion E; reflexivity|].
    exfalso. apply Hn. change pid with (tx_pid (pid, rid, k)). apply in_map, Hin.
  - destruct Hin as [E|Hin]; [inversion E; contradiction|]. apply IH; assumption.
Qed.

Lemma find_of_none l pid : find_of l pid = None -> ~ In pid (map tx_pid l).
Proof.
  unfold find_of. destruct (filter _ l) as [|[[p r] k'] t] eqn:F; [|discriminate]. intros _ Hin.
  apply in_map_iff in Hin as ([[p r] k] & E & Hin). unfold tx_pid in E. cbn [fst] in E. subst p.
  assert (X : In (pid, r, k) (filter (fun t => fst (fst t) =? pid) l)).
  { apply filter_In. split; [exact Hin|]. apply N.eqb_refl. }
  rewrite F in X. exact X.
Qed.

Lemma in_prids q rid k : In (rid, k) (q_parked q) -> In rid (prids q).
Proof. intros H. change rid with (fst (rid, k)). apply in_map, H. Qed.

Lemma in_prids_ex q rid : In rid (prids q) -> exists k, In (rid, k) (q_parked q).
Proof. intros H. apply in_map_iff in H as ([r k] & E & H). cbn in E. subst. eauto. Qed.

Lemma in_filter_fst {B} (F : N * B -> bool) l rid :
  In rid (map fst (filter F l)) -> In rid (map fst l).
Proof.
  intros H. apply in_map_iff in H as (p & E & H). apply filter_In in H as [H _].
  apply in_map_iff. eauto.
Qed.

(* removing the entry of an identifier that one entry holds *)
Lemma filter_pid_other (l : list (N * N * rkind)) pid t :
  In t l -> tx_pid t <> pid -> In t (filter (fun t => negb (fst (fst t) =? pid)) l).
Proof.
  intros H Hne. apply filter_In. split; [exact H|].
  destruct (N.eqb_spec (fst (fst t)) pid) as [E|E]; [contradiction|reflexivity].
Qed.

Lemma in_filter_rid (l : list (N * pkind)) rid p :
  In p l -> fst p <> rid -> In p (filter (fun p => negb (fst p =? rid)) l).
Proof.
  intros H Hne. apply filter_In. split; [exact H|].
  destruct (N.eqb_spec (fst p) rid) as [E|E]; [contradiction|reflexivity].
Qed.

Lemma not_in_filter_rid (l : list (N * pkind)) rid :
  ~ In rid (map fst (filter (fun p => negb (fst p =? rid)) l)).
Proof.
  intros H. apply in_map_iff in H as (p & E & H). apply filter_In in H as [_ H].
  rewrite E, N.eqb_refl in H. discriminate.
Qed.

(* ================================================================== *)
(* 4. Completions only: the relation qmono                             *)

(* q' comes from q by returns of blocked callers and releases of their slots: blocked
   callers and transaction entries are only removed, the log grows by [new], whose request
   ids are exactly the callers that are no longer blocked *)
Record qmono (q q' : rcl) (new : list (N * err * list (list N))) : Prop := mkQm {
  qm_nextr : q_nextr q' = q_nextr q;
  qm_parked : exists F, q_parked q' = filter F (q_parked q);
  qm_txs : exists G, q_txs q' = filter G (q_txs q);
  qm_done : q_done q' = new ++ q_done q;
  qm_nd : NoDup (map rid3 new);
  qm_iff : forall rid, In rid (map rid3 new) <-> (In rid (prids q) /\ ~ In rid (prids q'));
  qm_txn : q_txn q' = q_txn q
}.

Lemma qmono_same q q' :
  q_nextr q' = q_nextr q -> q_parked q' = q_parked q -> (exists G, q_txs q' = filter G (q_txs q)) ->
  q_done q' = q_done q -> q_txn q' = q_txn q -> qmono q q' [].
Proof.
  intros A B C D T. split; try assumption.
  - exists (fun _ => true). rewrite B. symmetry. apply filter_all.
  - constructor.
  - intros rid. unfold prids. rewrite B. cbn. tauto.
Qed.

Lemma qmono_refl q : qmono q q [].
Proof. apply qmono_same; try reflexivity. exists (fun _ => true). symmetry. apply filter_all. Qed.

Lemma qmono_prids q q' new rid : qmono q q' new -> In rid (prids q') -> In rid (prids q).
Proof. intros [_ [F E] _ _ _ _ _] H. unfold prids in *. rewrite E in H. eapply in_filter_fst, H. Qed.

Lemma qmono_parked q q' new p : qmono q q' new -> In p (q_parked q') -> In p (q_parked q).
Proof. intros [_ [F E] _ _ _ _ _] H. rewrite E in H. apply filter_In in H. tauto. Qed.

Lemma qmono_txs q q' new t : qmono q q' new -> In t (q_txs q') -> In t (q_txs q).
Proof. intros [_ _ [G E] _ _ _ _] H. rewrite E in H. apply filter_In in H. tauto. Qed.

Lemma NoDup_app_disj {A} (l1 l2 : list A) :
  NoDup l1 -> NoDup l2 -> (forall x, In x l1 -> In x l2 -> False) -> NoDup (l1 ++ l2).
Proof.
  induction l1 as [|a l1 IH]; intros N1 N2 D; cbn [app]; [exact N2|].
  inversion N1 as [|? ? Hn Hd]; subst. constructor.
  - intros X. apply in_app_iff in X as [X|X]; [contradiction|]. apply (D a); [left; reflexivity|exact X].
  - apply IH; try assumption. intros x X1 X2. apply (D x); [right; exact X1|exact X2].
Qed.

Lemma qmono_trans q q1 q2 n1 n2 : qmono q q1 n1 -> qmono q1 q2 n2 -> qmono q q2 (n2 ++ n1).
Proof.
  intros H1 H2. pose proof (fun rid => qmono_prids _ _ _ rid H1) as S1.
  pose proof (fun rid => qmono_prids _ _ _ rid H2) as S2.
  destruct H1 as [A1 [F1 B1] [G1 C1] D1 N1 I1 T1]. destruct H2 as [A2 [F2 B2] [G2 C2] D2 N2 I2 T2].
  split; [| | | | | |congruence].
  - congruence.
  - exists (fun x => F1 x && F2 x). rewrite B2, B1. apply filter_twice.
  - exists (fun x => G1 x && G2 x). rewrite C2, C1. apply filter_twice.
  - rewrite D2, D1. apply app_assoc.
  - rewrite map_app. apply NoDup_app_disj; try assumption.
    intros rid X2 X1. apply I2 in X2. apply I1 in X1. tauto.
  - intros rid. rewrite map_app, in_app_iff, I1, I2. split.
    + intros [[X Y]|[X Y]]; split; auto.
    + intros [X Y]. destruct (in_dec N.eq_dec rid (prids q1)); auto.
Qed.

Lemma qmono_trans0 q q1 q2 n : qmono q q1 [] -> qmono q1 q2 n -> qmono q q2 n.
Proof. intros A B. pose proof (qmono_trans _ _ _ _ _ A B) as H. rewrite app_nil_r in H. exact H. Qed.

Lemma qmono_complete q rid e fs : In rid (prids q) -> qmono q (q_complete q rid e fs) [(rid, e, fs)].
Proof.
  intros Hin. split; try reflexivity.
  - eexists. reflexivity.
  - exists (fun _ => true). symmetry. apply filter_all.
  - cbn. constructor; [intros []|constructor].
  - intros r. unfold prids. change (q_parked (q_complete q rid e fs))
      with (filter (fun p => negb (fst p =? rid)) (q_parked q)). cbn [map rid3 fst In]. split.
    + intros [<-|[]]. split; [exact Hin|apply not_in_filter_rid].
    + intros [X Y]. destruct (N.eq_dec rid r) as [E|NE]; [left; exact E|]. exfalso. apply Y.
      apply in_map_iff in X as (p & E & X). apply in_map_iff. exists p. split; [exact E|].
      apply in_filter_rid; [exact X|]. congruence.
Qed.

(* steps that touch neither the blocked callers nor the log *)
Lemma qmono_tx_remove q pid : qmono q (q_tx_remove q pid) [].
Proof. apply qmono_same; try reflexivity. eexists. reflexivity. Qed.
Lemma qmono_lock_cleanup q l : qmono q (q_lock_cleanup q l) [].
Proof.
  destruct l; [apply qmono_refl|apply qmono_tx_remove|].
  apply qmono_same; try reflexivity. exists (fun _ => true). symmetry. apply filter_all.
Qed.

(* ================================================================== *)
(* 5. The invariant of the slim client                                 *)

Record QInv (q : rcl) : Prop := mkQInv {
  (* the log: a request returns at most once, and not while it is blocked *)
  qi_pnd : NoDup (prids q);
  qi_dnd : NoDup (drids q);
  qi_disj : forall rid, In rid (prids q) -> ~ In rid (drids q);
  qi_plt : forall rid, In rid (prids q) -> rid < q_nextr q;
  qi_dlt : forall rid, In rid (drids q) -> rid < q_nextr q;
  (* TxIds.TxInv, the part needed here *)
  qi_pids : NoDup (qpids q);
  qi_wf : Forall tx_wf (q_txs q);
  qi_trids : NoDup (trids q);             (* one entry per request *)
  qi_tlt : forall rid, In rid (trids q) -> rid < q_nextr q;
  (* a caller waiting for its response holds the entry of its identifier / the ping slot *)
  qi_sub : forall rid pid, In (rid, PkSub pid) (q_parked q) -> exists fs, In (pid, rid, Some fs) (q_txs q);
  qi_unsub : forall rid pid, In (rid, PkUnsub pid) (q_parked q) -> In (pid, rid, None) (q_txs q);
  qi_ping : forall rid, In (rid, PkPing) (q_parked q) -> q_ping q = Some rid;
  (* callers blocked in lockWrite exist only while a connect is pending; their cleanup
     cannot hit the entry or slot of a caller that waits for a response *)
  qi_lock : forall rid l, In (rid, PkLock l) (q_parked q) -> q_ws q = RPending;
  qi_lockpid : forall ra p rb k, In (ra, PkLock (LcTx p)) (q_parked q) -> In (rb, k) (q_parked q) ->
                                 wait_pid k <> Some p;
  qi_lockping : forall ra rb, In (ra, PkLock LcPing) (q_parked q) -> ~ In (rb, PkPing) (q_parked q);
  qi_closed : q_closed q = true <-> q_ws q = RClosed
}.

(* what remains to be shown after a completions-only step *)
Lemma qmono_QInv q q' new : QInv q -> qmono q q' new ->
  (forall rid pid, In (rid, PkSub pid) (q_parked q') -> exists fs, In (pid, rid, Some fs) (q_txs q')) ->
  (forall rid pid, In (rid, PkUnsub pid) (q_parked q') -> In (pid, rid, None) (q_txs q')) ->
  (forall rid, In (rid, PkPing) (q_parked q') -> q_ping q' = Some rid) ->
  (forall rid l, In (rid, PkLock l) (q_parked q') -> q_ws q' = RPending) ->
  (q_closed q' = true <-> q_ws q' = RClosed) ->
  QInv q'.
Proof.
  intros HI HM S U P L C.
  pose proof (fun rid => qmono_prids _ _ _ rid HM) as Sub.
  pose proof (fun p => qmono_parked _ _ _ p HM) as SubP.
  destruct HM as [A [F B] [G Cx] D ND I Tn].
  split; try assumption.
  - unfold prids. rewrite B. apply NoDup_map_filter. apply (qi_pnd _ HI).
  - unfold drids. rewrite D, map_app. apply NoDup_app_disj; [exact ND|apply (qi_dnd _ HI)|].
    intros rid X Y. apply I in X as [X _]. exact (qi_disj _ HI _ X Y).
  - intros rid X Y. unfold drids in Y. rewrite D, map_app, in_app_iff in Y. destruct Y as [Y|Y].
    + apply I in Y as [_ Y]. exact (Y X).
    + exact (qi_disj _ HI _ (Sub _ X) Y).
  - intros rid X. rewrite A. apply (qi_plt _ HI), Sub, X.
  - intros rid Y. rewrite A. unfold drids in Y. rewrite D, map_app, in_app_iff in Y. destruct Y as [Y|Y].
    + apply I in Y as [Y _]. exact (qi_plt _ HI _ Y).
    + exact (qi_dlt _ HI _ Y).
  - unfold qpids. rewrite Cx. apply NoDup_map_filter, (qi_pids _ HI).
  - rewrite Cx. apply Forall_filter', (qi_wf _ HI).
  - unfold trids. rewrite Cx. apply NoDup_map_filter, (qi_trids _ HI).
  - intros rid X. rewrite A. apply (qi_tlt _ HI). unfold trids in *. rewrite Cx in X.
    apply in_map_iff in X as (t & E & X). apply filter_In in X as [X _]. apply in_map_iff. eauto.
  - intros ra p rb k X Y. exact (qi_lockpid _ HI _ _ _ _ (SubP _ X) (SubP _ Y)).
  - intros ra rb X Y. exact (qi_lockping _ HI _ _ (SubP _ X) (SubP _ Y)).
Qed.

Lemma QInv_parked_kind q rid k : QInv q -> In (rid, k) (q_parked q) -> q_parked_kind q rid = Some k.
Proof. intros HI. apply (pk_of_in (q_parked q)), (qi_pnd _ HI). Qed.
Lemma parked_kind_some q rid k : q_parked_kind q rid = Some k -> In (rid, k) (q_parked q).
Proof. apply (pk_of_some (q_parked q)). Qed.
Lemma QInv_tx_find q pid rid k : QInv q -> In (pid, rid, k) (q_txs q) -> q_tx_find q pid = Some (rid, k).
Proof. intros HI. apply (find_of_in (q_txs q)), (qi_pids _ HI). Qed.
Lemma tx_find_some q pid rid k : q_tx_find q pid = Some (rid, k) -> In (pid, rid, k) (q_txs q).
Proof. apply (find_of_some (q_txs q)). Qed.

(* the entry of an identifier is unique *)
Lemma QInv_entry_unique q pid rid k rid' k' : QInv q ->
  In (pid, rid, k) (q_txs q) -> In (pid, rid', k') (q_txs q) -> rid = rid' /\ k = k'.
Proof.
  intros HI A B. pose proof (QInv_tx_find _ _ _ _ HI A) as E1. pose proof (QInv_tx_find _ _ _ _ HI B) as E2.
  rewrite E1 in E2. inversion E2. auto.
Qed.

(* a blocked caller is blocked in one way only *)
Lemma QInv_parked_unique q rid k k' : QInv q ->
  In (rid, k) (q_parked q) -> In (rid, k') (q_parked q) -> k = k'.
Proof.
  intros HI A B. pose proof (QInv_parked_kind _ _ _ HI A) as E1. pose proof (QInv_parked_kind _ _ _ HI B) as E2.
  rewrite E1 in E2. inversion E2. auto.
Qed.

(* ================================================================== *)
(* 6. release_locked and break_pending                                 *)

Definition memb (x : N) (l : list N) : bool := existsb (N.eqb x) l.
Lemma memb_in x l : memb x l = true <-> In x l.
Proof.
  unfold memb. rewrite existsb_exists. split.
  - intros (y & H & E). apply N.eqb_eq in E. subst. exact H.
  - intros H. exists x. split; [exact H|apply N.eqb_refl].
Qed.

Definition lockb (p : N * pkind) : bool := is_lock (snd p).
Definition lock_rids (l : list (N * pkind)) : list N := map fst (filter lockb l).
Definition lock_pids (l : list (N * pkind)) : list N :=
  flat_map (fun p => match snd p with PkLock (LcTx pid) => [pid] | _ => [] end) l.
Definition has_lcping (l : list (N * pkind)) : bool :=
  existsb (fun p => match snd p with PkLock LcPing => true | _ => false end) l.

Lemma filter_memb_cons {A} (f : A -> N) (l : list A) x L :
  filter (fun a => negb (memb (f a) L)) (filter (fun a => negb (f a =? x)) l)
  = filter (fun a => negb (memb (f a) (x :: L))) l.
Proof.
  rewrite filter_twice. apply filter_ext. intros a. cbn [memb existsb]. rewrite negb_orb. reflexivity.
Qed.

Lemma filter_memb_nil {A} (f : A -> N) (l : list A) : filter (fun a => negb (memb (f a) [])) l = l.
Proof. apply filter_all. Qed.

(* release_locked in closed form: every caller blocked in lockWrite returns with e, its
   transaction entry / the ping slot is released, nothing else changes *)
Lemma release_fold e : forall l q,
  fold_left (q_release_step e) l q =
  mkRcl (q_ws q) (q_closed q) (q_txn q) (q_nextr q)
    (filter (fun t => negb (memb (fst (fst t)) (lock_pids l))) (q_txs q))
    (if has_lcping l then None else q_ping q)
    (filter (fun p => negb (memb (fst p) (lock_rids l))) (q_parked q))
    (rev (map (fun p => (fst p, e, [])) (filter lockb l)) ++ q_done q).
Proof.
  induction l as [|[rid k] l IH]; intros q.
  - cbn [fold_left lock_pids flat_map has_lcping existsb lock_rids filter map rev app].
    rewrite !filter_memb_nil. destruct q; reflexivity.
  - cbn [fold_left]. rewrite IH. clear IH. unfold q_release_step. cbn [snd fst].
    destruct k as [[| pid |]| | |]; cbn [lock_pids flat_map snd has_lcping existsb lock_rids filter lockb
                                      is_lock map fst rev app orb];
      fold (lock_pids l); fold (has_lcping l); fold (lock_rids l);
      try (destruct q; reflexivity).
    + (* LcNone *)
      change (q_parked (q_complete (q_lock_cleanup q LcNone) rid e []))
        with (filter (fun p => negb (fst p =? rid)) (q_parked q)).
      rewrite (filter_memb_cons fst). rewrite <- app_assoc. destruct q; reflexivity.
    + (* LcTx *)
      change (q_parked (q_complete (q_lock_cleanup q (LcTx pid)) rid e []))
        with (filter (fun p => negb (fst p =? rid)) (q_parked q)).
      change (q_txs (q_complete (q_lock_cleanup q (LcTx pid)) rid e []))
        with (filter (fun t => negb (fst (fst t) =? pid)) (q_txs q)).
      rewrite (filter_memb_cons fst), (filter_memb_cons (fun t : N * N * rkind => fst (fst t))).
      rewrite <- app_assoc. destruct q; reflexivity.
    + (* LcPing *)
      change (q_parked (q_complete (q_lock_cleanup q LcPing) rid e []))
        with (filter (fun p => negb (fst p =? rid)) (q_parked q)).
      rewrite (filter_memb_cons fst). rewrite <- app_assoc.
      destruct (has_lcping l); destruct q; reflexivity.
Qed.

Lemma release_locked_eq q e :
  q_release_locked q e =
  mkRcl (q_ws q) (q_closed q) (q_txn q) (q_nextr q)
    (filter (fun t => negb (memb (fst (fst t)) (lock_pids (q_parked q)))) (q_txs q))
    (if has_lcping (q_parked q) then None else q_ping q)
    (filter (fun p => negb (memb (fst p) (lock_rids (q_parked q)))) (q_parked q))
    (rev (map (fun p => (fst p, e, [])) (filter lockb (q_parked q))) ++ q_done q).
Proof. apply release_fold. Qed.

Lemma in_lock_rids l rid : In rid (lock_rids l) <-> exists lc, In (rid, PkLock lc) l.
Proof.
  unfold lock_rids. rewrite in_map_iff. split.
  - intros ([r k] & E & H). cbn in E. subst. apply filter_In in H as [H L]. unfold lockb in L. cbn in L.
    destruct k; try discriminate. eauto.
  - intros (lc & H). exists (rid, PkLock lc). split; [reflexivity|]. apply filter_In. split; [exact H|reflexivity].
Qed.

Lemma in_lock_pids l pid : In pid (lock_pids l) <-> exists rid, In (rid, PkLock (LcTx pid)) l.
Proof.
  unfold lock_pids. rewrite in_flat_map. split.
  - intros ([r k] & H & X). cbn [snd] in X. destruct k as [[| p |]| | |]; try contradiction.
    destruct X as [<-|[]]. eauto.
  - intros (rid & H). exists (rid, PkLock (LcTx pid)). split; [exact H|left; reflexivity].
Qed.

Lemma has_lcping_true l : has_lcping l = true <-> exists rid, In (rid, PkLock LcPing) l.
Proof.
  unfold has_lcping. rewrite existsb_exists. split.
  - intros ([r k] & H & X). cbn [snd] in X. destruct k as [[| p |]| | |]; try discriminate. eauto.
  - intros (rid & H). exists (rid, PkLock LcPing). split; [exact H|reflexivity].
Qed.

(* q and q0 differ in the write semaphore / closed flag only *)
Definition same_req (q0 q : rcl) : Prop :=
  q_txn q = q_txn q0 /\ q_nextr q = q_nextr q0 /\ q_txs q = q_txs q0 /\ q_ping q = q_ping q0 /\
  q_parked q = q_parked q0 /\ q_done q = q_done q0.

Lemma same_req_refl q : same_req q q.
Proof. repeat split. Qed.

Lemma same_req_qmono q0 q : same_req q0 q -> qmono q0 q [].
Proof.
  intros (T & A & B & _ & C & D). apply qmono_same; try assumption.
  exists (fun _ => true). rewrite B. symmetry. apply filter_all.
Qed.

Definition release_new (q : rcl) (e : err) : list (N * err * list (list N)) :=
  rev (map (fun p => (fst p, e, [])) (filter lockb (q_parked q))).

Lemma release_new_in q e x :
  In x (release_new q e) <-> exists rid lc, x = (rid, e, []) /\ In (rid, PkLock lc) (q_parked q).
Proof.
  unfold release_new. rewrite <- in_rev, in_map_iff. split.
  - intros ([r k] & E & H). apply filter_In in H as [H L]. unfold lockb in L. cbn in L, E.
    destruct k; try discriminate. eauto.
  - intros (rid & lc & -> & H). exists (rid, PkLock lc). split; [reflexivity|].
    apply filter_In. split; [exact H|reflexivity].
Qed.

Lemma release_new_rids q e : map rid3 (release_new q e) = rev (lock_rids (q_parked q)).
Proof.
  unfold release_new, lock_rids. rewrite map_rev, map_map. reflexivity.
Qed.

Lemma release_qmono q e : NoDup (prids q) -> qmono q (q_release_locked q e) (release_new q e).
Proof.
  intros ND. rewrite release_locked_eq. split; cbn [q_nextr q_parked q_txs q_done q_txn].
  - reflexivity.
  - eexists. reflexivity.
  - eexists. reflexivity.
  - reflexivity.
  - rewrite release_new_rids. apply NoDup_rev. unfold lock_rids. apply NoDup_map_filter, ND.
  - intros rid. rewrite release_new_rids, <- in_rev. unfold prids at 2. cbn [q_parked]. split.
    + intros H. split.
      * apply in_lock_rids in H as (lc & H). eapply in_prids, H.
      * intros X. apply in_map_iff in X as (p & E & X). apply filter_In in X as [_ X].
        apply memb_in in H. rewrite E, H in X. discriminate.
    + intros [X Y]. destruct (memb rid (lock_rids (q_parked q))) eqn:M; [apply memb_in, M|].
      exfalso. apply Y. apply in_map_iff in X as (p & E & X). apply in_map_iff. exists p.
      split; [exact E|]. apply filter_In. split; [exact X|]. rewrite E, M. reflexivity.
  - reflexivity.
Qed.

Lemma release_no_lock q e rid lc : ~ In (rid, PkLock lc) (q_parked (q_release_locked q e)).
Proof.
  rewrite release_locked_eq. cbn [q_parked]. intros H. apply filter_In in H as [H X].
  cbn [fst] in X. assert (M : memb rid (lock_rids (q_parked q)) = true).
  { apply memb_in, in_lock_rids. eauto. }
  rewrite M in X. discriminate.
Qed.

Lemma release_keeps_wait q e rid k : NoDup (prids q) ->
  In (rid, k) (q_parked q) -> is_lock k = false -> In (rid, k) (q_parked (q_release_locked q e)).
Proof.
  intros ND H L. rewrite release_locked_eq. cbn [q_parked]. apply filter_In. split; [exact H|].
  cbn [fst]. destruct (memb rid (lock_rids (q_parked q))) eqn:M; [|reflexivity].
  apply memb_in, in_lock_rids in M as (lc & M).
  pose proof (pk_of_in _ _ _ ND H) as E1. pose proof (pk_of_in _ _ _ ND M) as E2.
  rewrite E1 in E2. inversion E2; subst. discriminate.
Qed.

Lemma release_keeps_entry q e t :
  In t (q_txs q) -> (forall ra, ~ In (ra, PkLock (LcTx (tx_pid t))) (q_parked q)) ->
  In t (q_txs (q_release_locked q e)).
Proof.
  intros H N. rewrite release_locked_eq. cbn [q_txs]. apply filter_In. split; [exact H|].
  destruct (memb (fst (fst t)) (lock_pids (q_parked q))) eqn:M; [|reflexivity].
  apply memb_in, in_lock_pids in M as (ra & M). exfalso. exact (N _ M).
Qed.

Lemma release_ping q e : (forall ra, ~ In (ra, PkLock LcPing) (q_parked q)) ->
  q_ping (q_release_locked q e) = q_ping q.
Proof.
  intros N. rewrite release_locked_eq. cbn [q_ping].
  destruct (has_lcping (q_parked q)) eqn:M; [|reflexivity].
  apply has_lcping_true in M as (ra & M). exfalso. exact (N _ M).
Qed.

Lemma release_scalars q e : let q' := q_release_locked q e in
  q_ws q' = q_ws q /\ q_closed q' = q_closed q /\ q_txn q' = q_txn q /\ q_nextr q' = q_nextr q.
Proof. cbv zeta. rewrite release_locked_eq. cbn. auto. Qed.

Theorem release_QInv q0 q e : QInv q0 -> same_req q0 q ->
  (q_closed q = true <-> q_ws q = RClosed) -> QInv (q_release_locked q e).
Proof.
  intros HI HS HC. destruct HS as (S1 & S2 & S3 & S4 & S5 & S6).
  assert (ND : NoDup (prids q)) by (unfold prids; rewrite S5; apply (qi_pnd _ HI)).
  pose proof (qmono_trans _ _ _ _ _ (same_req_qmono q0 q (conj S1 (conj S2 (conj S3 (conj S4 (conj S5 S6))))))
                (release_qmono q e ND)) as HM.
  rewrite app_nil_r in HM.
  pose proof (fun p => qmono_parked _ _ _ p HM) as SubP.
  apply (qmono_QInv _ _ _ HI HM).
  - intros rid pid H. destruct (qi_sub _ HI _ _ (SubP _ H)) as (fs & X). exists fs.
    apply release_keeps_entry; [rewrite S3; exact X|]. intros ra Y. rewrite S5 in Y.
    exact (qi_lockpid _ HI _ _ _ _ Y (SubP _ H) eq_refl).
  - intros rid pid H. pose proof (qi_unsub _ HI _ _ (SubP _ H)) as X.
    apply release_keeps_entry; [rewrite S3; exact X|]. intros ra Y. rewrite S5 in Y.
    exact (qi_lockpid _ HI _ _ _ _ Y (SubP _ H) eq_refl).
  - intros rid H. rewrite release_ping, S4; [exact (qi_ping _ HI _ (SubP _ H))|].
    intros ra Y. rewrite S5 in Y. exact (qi_lockping _ HI _ _ Y (SubP _ H)).
  - intros rid l H. exfalso. exact (release_no_lock _ _ _ _ H).
  - destruct (release_scalars q e) as (A & B & _). rewrite A, B. exact HC.
Qed.

(* break_pending *)

Lemma break_fold : forall l q, NoDup (prids q) ->
  exists new, qmono q (fold_left q_break_step l q) new /\
    q_ws (fold_left q_break_step l q) = q_ws q /\ q_closed (fold_left q_break_step l q) = q_closed q /\
    q_txn (fold_left q_break_step l q) = q_txn q /\ q_ping (fold_left q_break_step l q) = q_ping q /\
    q_txs (fold_left q_break_step l q) = q_txs q /\
    (forall x, In x new -> exists rid k, x = (rid, E_break, []) /\ In (rid, k) (q_parked q) /\
                                         exists p, k = PkSub p \/ k = PkUnsub p) /\
    (forall t, In t l -> forall k, In (snd (fst t), k) (q_parked (fold_left q_break_step l q)) ->
                         forall p, k <> PkSub p /\ k <> PkUnsub p).
Proof.
  induction l as [|t l IH]; intros q ND; cbn [fold_left].
  - exists []. split; [apply qmono_refl|]. repeat (split; [reflexivity|]). split; [intros x []|intros t []].
  - set (rid := snd (fst t)).
    assert (Hcase : (exists k, q_parked_kind q rid = Some k /\ (exists p, k = PkSub p \/ k = PkUnsub p) /\
                               q_break_step q t = q_complete q rid E_break [])
                    \/ ((forall k, q_parked_kind q rid = Some k -> forall p, k <> PkSub p /\ k <> PkUnsub p)
                        /\ q_break_step q t = q)).
    { unfold q_break_step. fold rid. destruct (q_parked_kind q rid) as [[lc|p|p|]|] eqn:K.
      - right. split; [|reflexivity]. intros k [= <-] p. split; discriminate.
      - left. exists (PkSub p). split; [reflexivity|]. split; [eauto|reflexivity].
      - left. exists (PkUnsub p). split; [reflexivity|]. split; [eauto|reflexivity].
      - right. split; [|reflexivity]. intros k [= <-] p. split; discriminate.
      - right. split; [|reflexivity]. intros k X. discriminate. }
    destruct Hcase as [(k & K & Hk & ->)|[Hn ->]].
    + pose proof (parked_kind_some _ _ _ K) as Hin.
      pose proof (qmono_complete q rid E_break [] (in_prids _ _ _ Hin)) as M1.
      assert (ND1 : NoDup (prids (q_complete q rid E_break []))).
      { unfold prids. apply NoDup_map_filter, ND. }
      destruct (IH _ ND1) as (new & M & A & B & C & D & E & Hnew & Hl).
      exists (new ++ [(rid, E_break, [])]). split; [eapply qmono_trans; eassumption|].
      split; [exact A|]. split; [exact B|]. split; [exact C|]. split; [exact D|]. split; [exact E|]. split.
      * intros x X. apply in_app_iff in X as [X|[<-|[]]].
        -- destruct (Hnew _ X) as (r & k' & -> & Y & Z). exists r, k'. split; [reflexivity|].
           split; [exact (qmono_parked _ _ _ _ M1 Y)|exact Z].
        -- exists rid, k. auto.
      * intros t' [<-|X]; [|apply Hl, X]. intros k' Y. exfalso. fold rid in Y.
        apply in_prids in Y. apply (qmono_prids _ _ _ rid M) in Y.
        exact (not_in_filter_rid _ _ Y).
    + destruct (IH _ ND) as (new & M & A & B & C & D & E & Hnew & Hl).
      exists new. split; [exact M|]. split; [exact A|]. split; [exact B|]. split; [exact C|].
      split; [exact D|]. split; [exact E|]. split; [exact Hnew|].
      intros t' [<-|X]; [|apply Hl, X]. intros k' Y. fold rid in Y.
      apply Hn. apply (pk_of_in (q_parked q)); [exact ND|]. exact (qmono_parked _ _ _ _ M Y).
Qed.

(* break_pending: every caller that waits for a response returns with ErrBreak, the slot
   and all entries are released; callers blocked in lockWrite stay (Session.v; their entries
   are gone, which only their own cleanup would have removed anyway) *)
Theorem break_spec q0 q : QInv q0 -> same_req q0 q ->
  exists new, qmono q0 (q_break q) new /\
    q_txs (q_break q) = [] /\ q_ping (q_break q) = None /\
    q_ws (q_break q) = q_ws q /\ q_closed (q_break q) = q_closed q /\ q_txn (q_break q) = q_txn q /\
    (forall x, In x new -> exists rid k, x = (rid, E_break, []) /\ In (rid, k) (q_parked q0) /\ is_wait k = true) /\
    (forall rid k, In (rid, k) (q_parked (q_break q)) -> is_lock k = true).
Proof.
  intros HI HS. pose proof (same_req_qmono _ _ HS) as M0.
  destruct HS as (S1 & S2 & S3 & S4 & S5 & S6).
  assert (ND : NoDup (prids q)) by (unfold prids; rewrite S5; apply (qi_pnd _ HI)).
  unfold q_break. cbv zeta.
  set (qa := match q_ping q with
             | Some r => match q_parked_kind q r with Some PkPing => q_complete q r E_break [] | _ => q end
             | None => q end).
  assert (Ha : exists na, qmono q qa na /\ q_ws qa = q_ws q /\ q_closed qa = q_closed q /\
                 q_txn qa = q_txn q /\ q_txs qa = q_txs q /\
                 (forall x, In x na -> exists rid, x = (rid, E_break, []) /\ In (rid, PkPing) (q_parked q)) /\
                 (forall rid, In (rid, PkPing) (q_parked q) -> ~ In rid (prids qa))).
  { assert (Hp : forall rid, In (rid, PkPing) (q_parked q) ->
                   q_ping q = Some rid /\ q_parked_kind q rid = Some PkPing).
    { intros rid X. split; [rewrite S4; apply (qi_ping _ HI); rewrite <- S5; exact X|].
      apply (pk_of_in (q_parked q)); assumption. }
    unfold qa. destruct (q_ping q) as [r|] eqn:P.
    - destruct (q_parked_kind q r) as [[lc|p|p|]|] eqn:K;
        try (exists []; split; [apply qmono_refl|]; repeat (split; [reflexivity|]);
             split; [intros x []|]; intros rid X; destruct (Hp _ X) as [E1 E2];
             inversion E1; subst; rewrite K in E2; discriminate).
      exists [(r, E_break, [])]. split.
      { apply qmono_complete. eapply in_prids, parked_kind_some, K. }
      repeat (split; [reflexivity|]). split.
      + intros x [<-|[]]. exists r. split; [reflexivity|]. apply parked_kind_some, K.
      + intros rid X. destruct (Hp _ X) as [E1 _]. inversion E1; subst. apply not_in_filter_rid.
    - exists []. split; [apply qmono_refl|]. repeat (split; [reflexivity|]). split; [intros x []|].
      intros rid X. destruct (Hp _ X) as [E1 _]. discriminate. }
  destruct Ha as (na & Ma & A1 & A2 & A3 & A4 & Hna & Hping). clearbody qa.
  set (qb := qa <| q_ping := None |>).
  assert (Mb : qmono qa qb []).
  { apply qmono_same; try reflexivity. exists (fun _ => true). symmetry. apply filter_all. }
  assert (NDb : NoDup (prids qb)).
  { destruct Ma as [_ [F E] _ _ _ _ _]. unfold prids, qb. cbn [q_parked]. change (q_parked (qa <| q_ping := None |>)) with (q_parked qa).
    rewrite E. apply NoDup_map_filter, ND. }
  destruct (break_fold (q_txs qb) qb NDb) as (nc & Mc & C1 & C2 & C3 & C4 & C5 & Hnc & Hl).
  set (qc := fold_left q_break_step (q_txs qb) qb) in *.
  assert (Md : qmono qc (qc <| q_txs := [] |>) []).
  { apply qmono_same; try reflexivity. exists (fun _ => false). symmetry. apply filter_none. }
  pose proof (qmono_trans _ _ _ _ _ M0 (qmono_trans _ _ _ _ _ Ma (qmono_trans _ _ _ _ _ Mb (qmono_trans _ _ _ _ _ Mc Md)))) as M.
  cbn [app] in M. rewrite !app_nil_r in M.
  exists (nc ++ na). split; [exact M|]. split; [reflexivity|].
  split; [change (q_ping (qc <| q_txs := [] |>)) with (q_ping qc); rewrite C4; reflexivity|].
  split; [change (q_ws (qc <| q_txs := [] |>)) with (q_ws qc); rewrite C1; exact A1|].
  split; [change (q_closed (qc <| q_txs := [] |>)) with (q_closed qc); rewrite C2; exact A2|].
  split; [change (q_txn (qc <| q_txs := [] |>)) with (q_txn qc); rewrite C3; exact A3|].
  pose proof (qmono_trans _ _ _ _ _ Ma Mb) as Mab. cbn [app] in Mab.
  split.
  - intros x X. apply in_app_iff in X as [X|X].
    + destruct (Hnc _ X) as (rid & k & -> & Y & (p & Z)). exists rid, k. split; [reflexivity|].
      split; [rewrite <- S5; exact (qmono_parked _ _ _ _ Mab Y)|]. destruct Z as [-> | ->]; reflexivity.
    + destruct (Hna _ X) as (rid & -> & Y). exists rid, PkPing. split; [reflexivity|].
      split; [rewrite <- S5; exact Y|reflexivity].
  - intros rid k X. change (q_parked (qc <| q_txs := [] |>)) with (q_parked qc) in X.
    pose proof (qmono_parked _ _ _ _ Mc X) as Xb. pose proof (qmono_parked _ _ _ _ Mab Xb) as Xq.
    destruct k as [lc|p|p|]; [reflexivity| | |]; exfalso.
    + rewrite S5 in Xq. destruct (qi_sub _ HI _ _ Xq) as (fs & T).
      assert (Tb : In (p, rid, Some fs) (q_txs qb)).
      { change (q_txs qb) with (q_txs qa). rewrite A4, S3. exact T. }
      destruct (Hl _ Tb _ X p) as [Z _]. apply Z. reflexivity.
    + rewrite S5 in Xq. pose proof (qi_unsub _ HI _ _ Xq) as T.
      assert (Tb : In (p, rid, None) (q_txs qb)).
      { change (q_txs qb) with (q_txs qa). rewrite A4, S3. exact T. }
      destruct (Hl _ Tb _ X p) as [_ Z]. apply Z. reflexivity.
    + apply (Hping _ Xq). change (prids qa) with (prids qb). eapply in_prids, Xb.
Qed.

Theorem break_QInv q0 q : QInv q0 -> same_req q0 q ->
  (forall rid l, In (rid, PkLock l) (q_parked q0) -> q_ws q = RPending) ->
  (q_closed q = true <-> q_ws q = RClosed) -> QInv (q_break q).
Proof.
  intros HI HS HL HC.
  destruct (break_spec _ _ HI HS) as (new & M & T & P & W & C & _ & _ & Hlk).
  apply (qmono_QInv _ _ _ HI M).
  - intros rid pid H. apply Hlk in H. discriminate.
  - intros rid pid H. apply Hlk in H. discriminate.
  - intros rid H. apply Hlk in H. discriminate.
  - intros rid l H. rewrite W. eapply HL. exact (qmono_parked _ _ _ _ M H).
  - rewrite W, C. exact HC.
Qed.

(* ================================================================== *)
(* 7. The packet handlers on the slim client                           *)

Lemma QInv_rid_entry q pid pid' rid k k' : QInv q ->
  In (pid, rid, k) (q_txs q) -> In (pid', rid, k') (q_txs q) -> pid = pid' /\ k = k'.
Proof.
  intros HI A B. pose proof (NoDup_map_inj tx_rid (q_txs q) _ _ (qi_trids _ HI) A B eq_refl) as E.
  inversion E. auto.
Qed.

Lemma QInv_entry_wf q pid rid k : QInv q -> In (pid, rid, k) (q_txs q) ->
  pid <> 0 /\ in_un_space pid (match k with Some _ => sub_space | None => unsub_space end).
Proof.
  intros HI H. pose proof (qi_wf _ HI) as WF. rewrite Forall_forall in WF.
  destruct (WF _ H) as (A & _ & C). split; [exact A|exact C].
Qed.

Definition ans_err (failed : list (list N)) : err := match failed with [] => E_nil | _ => E_suberr end.

Inductive suback_case (q : rcl) (pid : N) (codes : list N) (q' : rcl) (h : hres)
  : list (N * err * list (list N)) -> Prop :=
| SC_reject : q' = q -> h = HErr E_proto -> suback_case q pid codes q' h []
| SC_unknown : ~ In pid (qpids q) -> q' = q -> h = HOk -> suback_case q pid codes q' h []
| SC_idle : forall rid fs, In (pid, rid, Some fs) (q_txs q) -> (forall p, ~ In (rid, PkSub p) (q_parked q)) ->
    q' = q_tx_remove q pid -> suback_case q pid codes q' h []
| SC_answer : forall rid fs, In (pid, rid, Some fs) (q_txs q) -> In (rid, PkSub pid) (q_parked q) ->
    length fs = length codes ->
    q' = q_complete (q_tx_remove q pid) rid (ans_err (failed_filters fs codes)) (failed_filters fs codes) ->
    h = HOk ->
    suback_case q pid codes q' h [(rid, ans_err (failed_filters fs codes), failed_filters fs codes)]
| SC_mismatch : forall rid fs, In (pid, rid, Some fs) (q_txs q) -> In (rid, PkSub pid) (q_parked q) ->
    length fs <> length codes ->
    q' = q_complete (q_tx_remove q pid) rid E_break [] -> h = HErr E_proto ->
    suback_case q pid codes q' h [(rid, E_break, [])].

Theorem suback_cases q pid codes : QInv q ->
  exists new, suback_case q pid codes (fst (sl_suback q pid codes)) (snd (sl_suback q pid codes)) new.
Proof.
  intros HI. unfold sl_suback.
  destruct codes as [|c0 cs]; [exists []; apply SC_reject; reflexivity|].
  set (codes := c0 :: cs). clearbody codes.
  destruct (pid =? 0); [exists []; apply SC_reject; reflexivity|].
  destruct (N.eqb_spec (pid - N.land pid un_mask) sub_space) as [Sp|Sp]; cbn [negb];
    [|exists []; apply SC_reject; reflexivity].
  destruct (negb (forallb code_ok codes)); [exists []; apply SC_reject; reflexivity|].
  destruct (q_tx_find q pid) as [[rid fso]|] eqn:F.
  2:{ exists []. apply SC_unknown; try reflexivity. apply (find_of_none (q_txs q)), F. }
  apply tx_find_some in F. cbv zeta.
  assert (Hk : exists fs, fso = Some fs).
  { destruct fso as [fs|]; [eauto|]. exfalso. destruct (QInv_entry_wf _ _ _ _ HI F) as [_ X].
    exact (spaces_disjoint pid Sp X). }
  destruct Hk as (fs & ->).
  change (q_parked_kind (q_tx_remove q pid) rid) with (q_parked_kind q rid).
  assert (Hw : (exists p, q_parked_kind q rid = Some (PkSub p)) -> In (rid, PkSub pid) (q_parked q)).
  { intros (p & K). apply parked_kind_some in K. destruct (qi_sub _ HI _ _ K) as (fs' & X).
    destruct (QInv_rid_entry _ _ _ _ _ _ HI F X) as [<- _]. exact K. }
  assert (Hn : (forall p, q_parked_kind q rid <> Some (PkSub p)) -> forall p, ~ In (rid, PkSub p) (q_parked q)).
  { intros N p X. apply (N p). apply QInv_parked_kind; assumption. }
  destruct (Nat.eqb_spec (length fs) (length codes)) as [L|L]; cbn [negb].
  - destruct (q_parked_kind q rid) as [[lc|p|p|]|] eqn:K.
    2:{ exists [(rid, ans_err (failed_filters fs codes), failed_filters fs codes)].
        eapply SC_answer; [exact F|apply Hw; eauto|exact L| |];
          unfold ans_err; destruct (failed_filters fs codes); reflexivity. }
    all: exists []; eapply SC_idle; [exact F|apply Hn; intros p' X; discriminate|];
      destruct (failed_filters fs codes); reflexivity.
  - destruct (q_parked_kind q rid) as [[lc|p|p|]|] eqn:K.
    2:{ exists [(rid, E_break, [])]. eapply SC_mismatch; [exact F|apply Hw; eauto|exact L|reflexivity|reflexivity]. }
    all: exists []; eapply SC_idle; [exact F|apply Hn; intros p' X; discriminate|reflexivity].
Qed.

Lemma suback_case_qmono q pid codes q' h new : suback_case q pid codes q' h new -> qmono q q' new.
Proof.
  intros [-> _| _ -> _|rid fs _ _ ->|rid fs _ P _ -> _|rid fs _ P _ -> _].
  - apply qmono_refl.
  - apply qmono_refl.
  - apply qmono_tx_remove.
  - apply (qmono_trans0 _ _ _ _ (qmono_tx_remove q pid)). apply qmono_complete. eapply in_prids, P.
  - apply (qmono_trans0 _ _ _ _ (qmono_tx_remove q pid)). apply qmono_complete. eapply in_prids, P.
Qed.

Lemma suback_case_scalars q pid codes q' h new : suback_case q pid codes q' h new ->
  q_ws q' = q_ws q /\ q_closed q' = q_closed q /\ q_ping q' = q_ping q /\ q_txn q' = q_txn q.
Proof. intros [-> _| _ -> _|rid fs _ _ ->|rid fs _ P _ -> _|rid fs _ P _ -> _]; auto. Qed.

Lemma tx_remove_keeps q pid t : In t (q_txs q) -> tx_pid t <> pid -> In t (q_txs (q_tx_remove q pid)).
Proof. intros. apply filter_pid_other; assumption. Qed.

Lemma suback_case_QInv q pid codes q' h new : QInv q -> suback_case q pid codes q' h new -> QInv q'.
Proof.
  intros HI HC. pose proof (suback_case_qmono _ _ _ _ _ _ HC) as M.
  destruct (suback_case_scalars _ _ _ _ _ _ HC) as (W & C & P & _).
  pose proof (fun p => qmono_parked _ _ _ p M) as SubP.
  assert (Keep : forall rid0 fs0, In (pid, rid0, Some fs0) (q_txs q) ->
             (forall r p k, In (r, PkSub p) (q_parked q') -> In (p, r, k) (q_txs q) -> p = pid -> False) ->
             (forall t, In t (q_txs q) -> tx_pid t <> pid -> In t (q_txs q')) ->
             QInv q').
  { intros rid0 fs0 F Hno Hkeep. apply (qmono_QInv _ _ _ HI M).
    - intros r p H. destruct (qi_sub _ HI _ _ (SubP _ H)) as (fs' & X). exists fs'.
      apply Hkeep; [exact X|]. intros E. exact (Hno _ _ _ H X E).
    - intros r p H. pose proof (qi_unsub _ HI _ _ (SubP _ H)) as X. apply Hkeep; [exact X|].
      intros E. unfold tx_pid in E. cbn in E. subst p.
      destruct (QInv_entry_unique _ _ _ _ _ _ HI F X) as [_ Z]. discriminate.
    - intros r H. rewrite P. exact (qi_ping _ HI _ (SubP _ H)).
    - intros r l H. rewrite W. exact (qi_lock _ HI _ _ (SubP _ H)).
    - rewrite W, C. exact (qi_closed _ HI). }
  destruct HC as [-> _| _ -> _|rid fs F N ->|rid fs F Pk _ -> _|rid fs F Pk _ -> _]; try exact HI.
  - apply (Keep _ _ F); [|intros t; apply tx_remove_keeps].
    intros r p k H X ->. destruct (QInv_entry_unique _ _ _ _ _ _ HI F X) as [<- _]. exact (N _ H).
  - apply (Keep _ _ F); [|intros t; apply tx_remove_keeps].
    intros r p k H X ->. destruct (QInv_entry_unique _ _ _ _ _ _ HI F X) as [<- _].
    apply in_prids in H. exact (not_in_filter_rid _ _ H).
  - apply (Keep _ _ F); [|intros t; apply tx_remove_keeps].
    intros r p k H X ->. destruct (QInv_entry_unique _ _ _ _ _ _ HI F X) as [<- _].
    apply in_prids in H. exact (not_in_filter_rid _ _ H).
Qed.

Inductive unsuback_case (q : rcl) (pid : N) (q' : rcl) (h : hres)
  : list (N * err * list (list N)) -> Prop :=
| UC_reject : q' = q -> h = HErr E_proto -> unsuback_case q pid q' h []
| UC_unknown : ~ In pid (qpids q) -> q' = q -> h = HOk -> unsuback_case q pid q' h []
| UC_idle : forall rid, In (pid, rid, None) (q_txs q) -> (forall p, ~ In (rid, PkUnsub p) (q_parked q)) ->
    q' = q_tx_remove q pid -> h = HOk -> unsuback_case q pid q' h []
| UC_answer : forall rid, In (pid, rid, None) (q_txs q) -> In (rid, PkUnsub pid) (q_parked q) ->
    q' = q_complete (q_tx_remove q pid) rid E_nil [] -> h = HOk ->
    unsuback_case q pid q' h [(rid, E_nil, [])].

Theorem unsuback_cases q pid : QInv q ->
  exists new, unsuback_case q pid (fst (sl_unsuback q pid)) (snd (sl_unsuback q pid)) new.
Proof.
  intros HI. unfold sl_unsuback.
  destruct (pid =? 0); [exists []; apply UC_reject; reflexivity|].
  destruct (N.eqb_spec (pid - N.land pid un_mask) unsub_space) as [Sp|Sp]; cbn [negb];
    [|exists []; apply UC_reject; reflexivity].
  destruct (q_tx_find q pid) as [[rid fso]|] eqn:F.
  2:{ exists []. apply UC_unknown; try reflexivity. apply (find_of_none (q_txs q)), F. }
  apply tx_find_some in F. cbv zeta.
  assert (Hk : fso = None).
  { destruct fso as [fs|]; [|reflexivity]. exfalso. destruct (QInv_entry_wf _ _ _ _ HI F) as [_ X].
    exact (spaces_disjoint pid X Sp). }
  subst fso.
  change (q_parked_kind (q_tx_remove q pid) rid) with (q_parked_kind q rid).
  destruct (q_parked_kind q rid) as [[lc|p|p|]|] eqn:K.
  3:{ exists [(rid, E_nil, [])]. eapply UC_answer; [exact F| |reflexivity|reflexivity].
      apply parked_kind_some in K. pose proof (qi_unsub _ HI _ _ K) as X.
      destruct (QInv_rid_entry _ _ _ _ _ _ HI F X) as [<- _]. exact K. }
  all: exists []; eapply UC_idle; [exact F| |reflexivity|reflexivity];
    intros p' X; apply (QInv_parked_kind _ _ _ HI) in X; rewrite K in X; discriminate.
Qed.

Lemma unsuback_case_qmono q pid q' h new : unsuback_case q pid q' h new -> qmono q q' new.
Proof.
  intros [-> _| _ -> _|rid _ _ -> _|rid _ P -> _].
  - apply qmono_refl.
  - apply qmono_refl.
  - apply qmono_tx_remove.
  - apply (qmono_trans0 _ _ _ _ (qmono_tx_remove q pid)). apply qmono_complete. eapply in_prids, P.
Qed.

Lemma unsuback_case_scalars q pid q' h new : unsuback_case q pid q' h new ->
  q_ws q' = q_ws q /\ q_closed q' = q_closed q /\ q_ping q' = q_ping q /\ q_txn q' = q_txn q.
Proof. intros [-> _| _ -> _|rid _ _ -> _|rid _ P -> _]; auto. Qed.

Lemma unsuback_case_QInv q pid q' h new : QInv q -> unsuback_case q pid q' h new -> QInv q'.
Proof.
  intros HI HC. pose proof (unsuback_case_qmono _ _ _ _ _ HC) as M.
  destruct (unsuback_case_scalars _ _ _ _ _ HC) as (W & C & P & _).
  pose proof (fun p => qmono_parked _ _ _ p M) as SubP.
  assert (Keep : forall rid0, In (pid, rid0, None) (q_txs q) ->
             (forall r p k, In (r, PkUnsub p) (q_parked q') -> In (p, r, k) (q_txs q) -> p = pid -> False) ->
             (forall t, In t (q_txs q) -> tx_pid t <> pid -> In t (q_txs q')) ->
             QInv q').
  { intros rid0 F Hno Hkeep. apply (qmono_QInv _ _ _ HI M).
    - intros r p H. destruct (qi_sub _ HI _ _ (SubP _ H)) as (fs' & X). exists fs'.
      apply Hkeep; [exact X|]. intros E. unfold tx_pid in E. cbn in E. subst p.
      destruct (QInv_entry_unique _ _ _ _ _ _ HI F X) as [_ Z]. discriminate.
    - intros r p H. pose proof (qi_unsub _ HI _ _ (SubP _ H)) as X. apply Hkeep; [exact X|].
      intros E. exact (Hno _ _ _ H X E).
    - intros r H. rewrite P. exact (qi_ping _ HI _ (SubP _ H)).
    - intros r l H. rewrite W. exact (qi_lock _ HI _ _ (SubP _ H)).
    - rewrite W, C. exact (qi_closed _ HI). }
  destruct HC as [-> _| _ -> _|rid F N -> _|rid F Pk -> _]; try exact HI.
  - apply (Keep _ F); [|intros t; apply tx_remove_keeps].
    intros r p k H X ->. destruct (QInv_entry_unique _ _ _ _ _ _ HI F X) as [<- _]. exact (N _ H).
  - apply (Keep _ F); [|intros t; apply tx_remove_keeps].
    intros r p k H X ->. destruct (QInv_entry_unique _ _ _ _ _ _ HI F X) as [<- _].
    apply in_prids in H. exact (not_in_filter_rid _ _ H).
Qed.

Inductive pingresp_case (q : rcl) (q' : rcl) : list (N * err * list (list N)) -> Prop :=
| PC_none : q_ping q = None -> q' = q -> pingresp_case q q' []
| PC_idle : forall rid, q_ping q = Some rid -> ~ In (rid, PkPing) (q_parked q) ->
    q' = q <| q_ping := None |> -> pingresp_case q q' []
| PC_answer : forall rid, q_ping q = Some rid -> In (rid, PkPing) (q_parked q) ->
    q' = q_complete (q <| q_ping := None |>) rid E_nil [] -> pingresp_case q q' [(rid, E_nil, [])].

Theorem pingresp_cases q : QInv q ->
  snd (sl_pingresp q) = HOk /\ exists new, pingresp_case q (fst (sl_pingresp q)) new.
Proof.
  intros HI. unfold sl_pingresp. destruct (q_ping q) as [rid|] eqn:P.
  2:{ split; [reflexivity|]. exists []. apply PC_none; [exact P|reflexivity]. }
  cbv zeta. change (q_parked_kind (q <| q_ping := None |>) rid) with (q_parked_kind q rid).
  destruct (q_parked_kind q rid) as [[lc|p|p|]|] eqn:K; (split; [reflexivity|]).
  4:{ exists [(rid, E_nil, [])]. eapply PC_answer; [exact P|apply parked_kind_some, K|reflexivity]. }
  all: exists []; eapply PC_idle; [exact P| |reflexivity];
    intros X; apply (QInv_parked_kind _ _ _ HI) in X; rewrite K in X; discriminate.
Qed.

Lemma ping_none_qmono q : qmono q (q <| q_ping := None |>) [].
Proof. apply qmono_same; try reflexivity. exists (fun _ => true). symmetry. apply filter_all. Qed.

Lemma pingresp_case_qmono q q' new : pingresp_case q q' new -> qmono q q' new.
Proof.
  intros [_ ->|rid _ _ ->|rid _ P ->].
  - apply qmono_refl.
  - apply ping_none_qmono.
  - apply (qmono_trans0 _ _ _ _ (ping_none_qmono q)). apply qmono_complete. eapply in_prids, P.
Qed.

Lemma pingresp_case_QInv q q' new : QInv q -> pingresp_case q q' new -> QInv q'.
Proof.
  intros HI HC. pose proof (pingresp_case_qmono _ _ _ HC) as M.
  pose proof (fun p => qmono_parked _ _ _ p M) as SubP.
  assert (Hs : q_ws q' = q_ws q /\ q_closed q' = q_closed q /\ q_txs q' = q_txs q).
  { destruct HC as [_ ->|rid _ _ ->|rid _ P ->]; auto. }
  destruct Hs as (W & C & T).
  apply (qmono_QInv _ _ _ HI M).
  - intros r p H. rewrite T. exact (qi_sub _ HI _ _ (SubP _ H)).
  - intros r p H. rewrite T. exact (qi_unsub _ HI _ _ (SubP _ H)).
  - intros r H. pose proof (qi_ping _ HI _ (SubP _ H)) as X.
    destruct HC as [_ ->|rid P N ->|rid P Pk ->]; [exact X| |]; exfalso; rewrite X in P; inversion P; subst.
    + exact (N (SubP _ H)).
    + apply in_prids in H. exact (not_in_filter_rid _ _ H).
  - intros r l H. rewrite W. exact (qi_lock _ HI _ _ (SubP _ H)).
  - rewrite W, C. exact (qi_closed _ HI).
Qed.

(* ================================================================== *)
(* 8. quit, Close, toOffline, termCallbacks, connect                    *)

Inductive quit_case (q : rcl) (rid : N) (q' : rcl) : list (N * err * list (list N)) -> Prop :=
| QC_none : ~ In rid (prids q) -> q' = q -> quit_case q rid q' []
| QC_lock : forall l, In (rid, PkLock l) (q_parked q) ->
    q' = q_complete (q_lock_cleanup q l) rid E_canceled [] -> quit_case q rid q' [(rid, E_canceled, [])]
| QC_tx : forall k pid, In (rid, k) (q_parked q) -> wait_pid k = Some pid ->
    q' = q_complete (q_tx_remove q pid) rid E_abandoned [] -> quit_case q rid q' [(rid, E_abandoned, [])]
| QC_ping : In (rid, PkPing) (q_parked q) ->
    q' = q_complete (q <| q_ping := None |>) rid E_abandoned [] -> quit_case q rid q' [(rid, E_abandoned, [])].

Theorem quit_cases q rid : QInv q -> exists new, quit_case q rid (sl_quit q rid) new.
Proof.
  intros HI. unfold sl_quit. destruct (q_parked_kind q rid) as [[lc|p|p|]|] eqn:K.
  - exists [(rid, E_canceled, [])]. eapply QC_lock; [apply parked_kind_some, K|reflexivity].
  - exists [(rid, E_abandoned, [])]. eapply QC_tx; [apply parked_kind_some, K|reflexivity|reflexivity].
  - exists [(rid, E_abandoned, [])]. eapply QC_tx; [apply parked_kind_some, K|reflexivity|reflexivity].
  - apply parked_kind_some in K. rewrite (qi_ping _ HI _ K), N.eqb_refl.
    exists [(rid, E_abandoned, [])]. apply QC_ping; [exact K|reflexivity].
  - exists []. apply QC_none; [|reflexivity]. apply (pk_of_none (q_parked q)), K.
Qed.

Lemma quit_case_qmono q rid q' new : quit_case q rid q' new -> qmono q q' new.
Proof.
  intros [_ ->|l P ->|k pid P _ ->|P ->].
  - apply qmono_refl.
  - apply (qmono_trans0 _ _ _ _ (qmono_lock_cleanup q l)). apply qmono_complete.
    destruct l; eapply in_prids, P.
  - apply (qmono_trans0 _ _ _ _ (qmono_tx_remove q pid)). apply qmono_complete. eapply in_prids, P.
  - apply (qmono_trans0 _ _ _ _ (ping_none_qmono q)). apply qmono_complete. eapply in_prids, P.
Qed.

Lemma quit_case_QInv q rid q' new : QInv q -> quit_case q rid q' new -> QInv q'.
Proof.
  intros HI HC. pose proof (quit_case_qmono _ _ _ _ HC) as M.
  pose proof (fun p => qmono_parked _ _ _ p M) as SubP.
  assert (Hs : q_ws q' = q_ws q /\ q_closed q' = q_closed q).
  { destruct HC as [_ ->|l P ->|k pid P _ ->|P ->]; auto. destruct l; auto. }
  destruct Hs as (W & C).
  (* which entries / slot survive *)
  assert (Hent : forall r p k, In (r, k) (q_parked q') -> wait_pid k = Some p ->
                   forall t, In t (q_txs q) -> tx_pid t = p -> In t (q_txs q')).
  { intros r p k H Wp t T E.
    destruct HC as [_ ->|l P ->|k0 pid P Wk ->|P ->]; try exact T.
    - destruct l as [|p0|]; try exact T. apply tx_remove_keeps; [exact T|]. rewrite E. intros ->.
      exact (qi_lockpid _ HI _ _ _ _ P (SubP _ H) Wp).
    - apply tx_remove_keeps; [exact T|]. rewrite E. intros ->.
      (* two waiting callers with the same identifier: the same caller *)
      assert (X : r = rid).
      { assert (Hr : forall r0 k1, In (r0, k1) (q_parked q) -> wait_pid k1 = Some pid ->
                       exists kk, In (pid, r0, kk) (q_txs q)).
        { intros r0 k1 X1 X2. destruct k1; try discriminate; inversion X2; subst.
          - destruct (qi_sub _ HI _ _ X1) as (fs & Y). eauto.
          - exists None. exact (qi_unsub _ HI _ _ X1). }
        destruct (Hr _ _ (SubP _ H) Wp) as (k1 & Y1). destruct (Hr _ _ P Wk) as (k2 & Y2).
        destruct (QInv_entry_unique _ _ _ _ _ _ HI Y1 Y2) as [Z _]. exact Z. }
      subst r. apply in_prids in H. exact (not_in_filter_rid _ _ H). }
  apply (qmono_QInv _ _ _ HI M).
  - intros r p H. destruct (qi_sub _ HI _ _ (SubP _ H)) as (fs & X). exists fs.
    exact (Hent _ _ _ H eq_refl _ X eq_refl).
  - intros r p H. pose proof (qi_unsub _ HI _ _ (SubP _ H)) as X. exact (Hent _ _ _ H eq_refl _ X eq_refl).
  - intros r H. pose proof (qi_ping _ HI _ (SubP _ H)) as X.
    destruct HC as [_ ->|l P ->|k0 pid P Wk ->|P ->]; try exact X.
    + destruct l; try exact X. exfalso. exact (qi_lockping _ HI _ _ P (SubP _ H)).
    + exfalso. pose proof (qi_ping _ HI _ P) as Y. rewrite X in Y. inversion Y; subst.
      apply in_prids in H. exact (not_in_filter_rid _ _ H).
  - intros r l H. rewrite W. exact (qi_lock _ HI _ _ (SubP _ H)).
  - rewrite W, C. exact (qi_closed _ HI).
Qed.

(* Close *)
Lemma closed_false q : QInv q -> q_ws q <> RClosed -> q_closed q = false.
Proof.
  intros HI H. destruct (q_closed q) eqn:C; [|reflexivity]. exfalso. apply H, (qi_closed _ HI), C.
Qed.

Theorem close_QInv q : QInv q -> QInv (sl_close q).
Proof.
  intros HI. unfold sl_close. destruct (q_closed q) eqn:C; [exact HI|].
  apply (release_QInv q); [exact HI|repeat split|]. cbn. tauto.
Qed.

(* toOffline *)
Theorem offline_QInv q : QInv q -> QInv (sl_offline q).
Proof.
  intros HI. unfold sl_offline. destruct (q_ws q) eqn:W; try exact HI;
    (apply (break_QInv q); [exact HI|repeat split|intros; reflexivity|]);
    cbn [q_closed q_ws]; change (q_closed (q <| q_ws := RPending |>)) with (q_closed q);
    rewrite (closed_false q HI) by (rewrite W; discriminate); split; discriminate.
Qed.

(* termCallbacks *)
Theorem term_QInv q : QInv q -> q_ws q = RClosed -> QInv (q_break q).
Proof.
  intros HI W. apply (break_QInv q); [exact HI|apply same_req_refl| |exact (qi_closed _ HI)].
  intros rid l H. pose proof (qi_lock _ HI _ _ H) as X. rewrite W in X. discriminate.
Qed.

(* connect *)
Lemma has_locked_false q : q_has_locked q = false -> forall rid l, ~ In (rid, PkLock l) (q_parked q).
Proof.
  unfold q_has_locked. intros H rid l X.
  assert (Y : existsb (fun p => match snd p with PkLock _ => true | _ => false end) (q_parked q) = true).
  { apply existsb_exists. exists (rid, PkLock l). split; [exact X|reflexivity]. }
  rewrite H in Y. discriminate.
Qed.

Lemma QInv_set_ws q ws : QInv q -> ws <> RClosed -> q_ws q <> RClosed ->
  (forall rid l, In (rid, PkLock l) (q_parked q) -> ws = RPending) -> QInv (q <| q_ws := ws |>).
Proof.
  intros HI H1 H2 HL. destruct HI. split; try assumption.
  cbn [q_closed q_ws]. change (q_closed (q <| q_ws := ws |>)) with (q_closed q).
  split; [intros X; exfalso; apply H2, qi_closed0, X|intros X; contradiction].
Qed.

Theorem connect_ok_QInv q : QInv q -> q_ws q <> RClosed -> q_has_locked q = false -> QInv (sl_connect_ok q).
Proof.
  intros HI W L. apply QInv_set_ws; try assumption; [discriminate|].
  intros rid l X. exfalso. exact (has_locked_false _ L _ _ X).
Qed.

Theorem connect_fail_QInv q : QInv q -> q_ws q <> RClosed -> QInv (sl_connect_fail q).
Proof.
  intros HI W. unfold sl_connect_fail. apply (release_QInv q); [exact HI|repeat split|].
  cbn [q_closed q_ws]. change (q_closed (q <| q_ws := RDown |>)) with (q_closed q).
  rewrite (closed_false q HI W). split; discriminate.
Qed.

(* ================================================================== *)
(* 9. Subscribe / Unsubscribe / Ping calls on the slim client          *)

Lemma sl_pick_fresh space txn txs : un_space space -> (length txs < 1024)%nat ->
  ~ In (snd (sl_pick 1024 txn txs space)) (map tx_pid txs) /\
  snd (sl_pick 1024 txn txs space) <> 0 /\ snd (sl_pick 1024 txn txs space) < 65536 /\
  in_un_space (snd (sl_pick 1024 txn txs space)) space /\
  exists i : nat, (i <= length txs)%nat /\
    snd (sl_pick 1024 txn txs space) = cand space (txn + N.of_nat i) /\
    fst (sl_pick 1024 txn txs space) = txn + N.of_nat i + 1.
Proof.
  intros S L.
  set (c := new_client ex_tx_cfg 0 <| k_txn := txn |> <| k_txs := txs |>).
  pose proof (tx_pick_slim space 1024 c) as E.
  change (k_txn c) with txn in E. change (k_txs c) with txs in E.
  apply tx_pick_fresh in E; [|exact S|exact L|cbv; discriminate].
  destruct E as (A & B & C & D & _ & i & Hi & E1 & E2).
  change (pids c) with (map tx_pid txs) in A. change (k_txs c) with txs in Hi.
  change (k_txn c) with txn in E1, E2. split; [exact A|]. split; [exact B|]. split; [exact C|].
  split; [exact D|]. exists i. split; [exact Hi|]. split; [exact E1|]. exact E2.
Qed.

Lemma submit_nz wr : (E_submit wr =? 0) = false.
Proof. destruct wr; reflexivity. Qed.

Definition space_k (k : rkind) : N := match k with Some _ => sub_space | None => unsub_space end.
Definition waitk (pid : N) (k : rkind) : pkind := match k with Some _ => PkSub pid | None => PkUnsub pid end.

(* the documented error classes of an immediate return *)
Definition call_err (e : err) : Prop :=
  e = E_deny \/ e = E_max \/ e = E_closed \/ e = E_down \/ exists wr, wr <> WOk /\ e = E_submit wr.

Inductive sub_case (q : rcl) (sub : bool) (fs : list (list N)) (wr : wres) (q' : rcl) : retv -> Prop :=
| SubErr : forall e, call_err e ->
    q_closed q' = q_closed q -> q_nextr q' = N.succ (q_nextr q) -> q_txn q <= q_txn q' ->
    q_txs q' = q_txs q -> q_ping q' = q_ping q -> q_parked q' = q_parked q -> q_done q' = q_done q ->
    (q_ws q' = q_ws q \/ (q_ws q = RUp /\ q_ws q' = RPending /\ e = E_submit wr /\ wr <> WOk)) ->
    sub_case q sub fs wr q' (RetErr e)
| SubPark : forall pid n, fs <> [] ->
    ~ In pid (qpids q) -> pid <> 0 -> pid < 65536 -> in_un_space pid (space_k (kind_of sub fs)) ->
    q_txn q <= n -> q_txn q' = n + 1 -> pid = cand (space_k (kind_of sub fs)) n ->
    q_ws q' = q_ws q -> q_closed q' = q_closed q -> q_nextr q' = N.succ (q_nextr q) ->
    q_txs q' = (pid, q_nextr q, kind_of sub fs) :: q_txs q -> q_ping q' = q_ping q ->
    q_done q' = q_done q ->
    ((q_ws q = RUp /\ wr = WOk /\ q_parked q' = (q_nextr q, waitk pid (kind_of sub fs)) :: q_parked q)
     \/ (q_ws q = RPending /\ q_parked q' = (q_nextr q, PkLock (LcTx pid)) :: q_parked q)) ->
    sub_case q sub fs wr q' RetParked.

Theorem sub_cases q sub fs wr :
  sub_case q sub fs wr (fst (sl_subscribe q sub fs wr)) (snd (sl_subscribe q sub fs wr)).
Proof.
  assert (Err0 : forall fs' e, call_err e -> sub_case q sub fs' wr (q <| q_nextr ::= N.succ |>) (RetErr e)).
  { intros fs' e He. apply SubErr; try reflexivity; [exact He|left; reflexivity]. }
  unfold sl_subscribe. cbv zeta.
  destruct fs as [|f0 fs0]; [apply Err0; left; reflexivity|].
  set (fs := f0 :: fs0). assert (Hne : fs <> []) by discriminate. clearbody fs.
  destruct (any_denied fs); [apply Err0; left; reflexivity|].
  destruct (packet_max <? _); [apply Err0; left; reflexivity|].
  change (q_txs (q <| q_nextr ::= N.succ |>)) with (q_txs q).
  change (q_txn (q <| q_nextr ::= N.succ |>)) with (q_txn q).
  destruct (511 <? N.of_nat (length (q_txs q))) eqn:G; [apply Err0; right; left; reflexivity|].
  apply N.ltb_ge in G.
  assert (Sp : un_space (if sub then sub_space else unsub_space)) by (destruct sub; [left|right]; reflexivity).
  destruct (sl_pick_fresh _ (q_txn q) (q_txs q) Sp ltac:(lia)) as (Hfresh & Hnz & Hlt & Hsp & i & Hi & E1 & E2).
  destruct (sl_pick 1024 (q_txn q) (q_txs q) (if sub then sub_space else unsub_space)) as [txn pid].
  cbn [fst snd] in *.
  assert (SK : space_k (kind_of sub fs) = if sub then sub_space else unsub_space) by (destruct sub; reflexivity).
  assert (Restore : filter (fun t : N * N * rkind => negb (fst (fst t) =? pid))
                      ((pid, q_nextr q, kind_of sub fs) :: q_txs q) = q_txs q).
  { cbn [filter fst]. rewrite N.eqb_refl. cbn [negb]. apply filter_pid_notin. exact Hfresh. }
  unfold sl_write.
  match goal with |- context [q_ws ?x] => change (q_ws x) with (q_ws q) end.
  destruct (q_ws q) eqn:W.
  - (* up *)
    destruct wr.
    + change (E_nil =? 0) with true. cbn [fst snd].
      eapply (SubPark _ _ _ _ _ pid (q_txn q + N.of_nat i)); try reflexivity; try assumption;
        try (rewrite SK; assumption); [lia|].
      left. split; [exact W|]. split; [reflexivity|]. destruct sub; reflexivity.
    + rewrite submit_nz. cbn [fst snd].
      apply SubErr; try reflexivity; try (cbn; lia);
        [do 4 right; exists WTimeout; split; [discriminate|reflexivity]|exact Restore|].
      right. cbn. split; [exact W|]. split; [reflexivity|]. split; [reflexivity|discriminate].
    + rewrite submit_nz. cbn [fst snd].
      apply SubErr; try reflexivity; try (cbn; lia);
        [do 4 right; exists WClosed; split; [discriminate|reflexivity]|exact Restore|].
      right. cbn. split; [exact W|]. split; [reflexivity|]. split; [reflexivity|discriminate].
    + rewrite submit_nz. cbn [fst snd].
      apply SubErr; try reflexivity; try (cbn; lia);
        [do 4 right; exists WHard; split; [discriminate|reflexivity]|exact Restore|].
      right. cbn. split; [exact W|]. split; [reflexivity|]. split; [reflexivity|discriminate].
    + rewrite submit_nz. cbn [fst snd].
      apply SubErr; try reflexivity; try (cbn; lia);
        [do 4 right; exists WNoTape; split; [discriminate|reflexivity]|exact Restore|].
      right. cbn. split; [exact W|]. split; [reflexivity|]. split; [reflexivity|discriminate].
  - (* pending *)
    cbn [fst snd].
    eapply (SubPark _ _ _ _ _ pid (q_txn q + N.of_nat i)); try reflexivity; try assumption;
      try (rewrite SK; assumption); [lia|].
    right. split; [exact W|reflexivity].
  - (* down *)
    change (E_down =? 0) with false. cbn [fst snd].
    apply SubErr; try reflexivity; try (cbn; lia); [do 3 right; left; reflexivity|exact Restore|cbn; auto].
  - (* closed *)
    change (E_closed =? 0) with false. cbn [fst snd].
    apply SubErr; try reflexivity; try (cbn; lia); [do 2 right; left; reflexivity|exact Restore|cbn; auto].
Qed.

Inductive ping_case (q : rcl) (wr : wres) (q' : rcl) : retv -> Prop :=
| PingErr : forall e, call_err e ->
    q_closed q' = q_closed q -> q_nextr q' = N.succ (q_nextr q) -> q_txn q' = q_txn q ->
    q_txs q' = q_txs q -> q_ping q' = q_ping q -> q_parked q' = q_parked q -> q_done q' = q_done q ->
    (q_ws q' = q_ws q \/ (q_ws q = RUp /\ q_ws q' = RPending /\ e = E_submit wr /\ wr <> WOk)) ->
    ping_case q wr q' (RetErr e)
| PingPark : q_ping q = None ->
    q_ws q' = q_ws q -> q_closed q' = q_closed q -> q_nextr q' = N.succ (q_nextr q) -> q_txn q' = q_txn q ->
    q_txs q' = q_txs q -> q_ping q' = Some (q_nextr q) -> q_done q' = q_done q ->
    ((q_ws q = RUp /\ wr = WOk /\ q_parked q' = (q_nextr q, PkPing) :: q_parked q)
     \/ (q_ws q = RPending /\ q_parked q' = (q_nextr q, PkLock LcPing) :: q_parked q)) ->
    ping_case q wr q' RetParked.

Theorem ping_cases q wr : ping_case q wr (fst (sl_ping q wr)) (snd (sl_ping q wr)).
Proof.
  unfold sl_ping. cbv zeta. change (q_ping (q <| q_nextr ::= N.succ |>)) with (q_ping q).
  destruct (q_ping q) as [r0|] eqn:P.
  { cbn [fst snd]. apply PingErr; try reflexivity; try exact P; [|left; reflexivity].
    change (q_closed (q <| q_nextr ::= N.succ |>)) with (q_closed q).
    destruct (q_closed q); [do 2 right; left; reflexivity|right; left; reflexivity]. }
  unfold sl_write.
  match goal with |- context [q_ws ?x] => change (q_ws x) with (q_ws q) end.
  destruct (q_ws q) eqn:W.
  - destruct wr.
    + change (E_nil =? 0) with true. cbn [fst snd]. apply PingPark; try reflexivity; try exact P.
      left. split; [exact W|]. split; reflexivity.
    + rewrite submit_nz. cbn [fst snd].
      apply PingErr; try reflexivity; try (symmetry; exact P);
        [do 4 right; exists WTimeout; split; [discriminate|reflexivity]|].
      right. cbn. split; [exact W|]. split; [reflexivity|]. split; [reflexivity|discriminate].
    + rewrite submit_nz. cbn [fst snd].
      apply PingErr; try reflexivity; try (symmetry; exact P);
        [do 4 right; exists WClosed; split; [discriminate|reflexivity]|].
      right. cbn. split; [exact W|]. split; [reflexivity|]. split; [reflexivity|discriminate].
    + rewrite submit_nz. cbn [fst snd].
      apply PingErr; try reflexivity; try (symmetry; exact P);
        [do 4 right; exists WHard; split; [discriminate|reflexivity]|].
      right. cbn. split; [exact W|]. split; [reflexivity|]. split; [reflexivity|discriminate].
    + rewrite submit_nz. cbn [fst snd].
      apply PingErr; try reflexivity; try (symmetry; exact P);
        [do 4 right; exists WNoTape; split; [discriminate|reflexivity]|].
      right. cbn. split; [exact W|]. split; [reflexivity|]. split; [reflexivity|discriminate].
  - cbn [fst snd]. apply PingPark; try reflexivity; try exact P. right. split; [exact W|reflexivity].
  - change (E_down =? 0) with false. cbn [fst snd].
    apply PingErr; try reflexivity; try (symmetry; exact P); [do 3 right; left; reflexivity|cbn; auto].
  - change (E_closed =? 0) with false. cbn [fst snd].
    apply PingErr; try reflexivity; try (symmetry; exact P); [do 2 right; left; reflexivity|cbn; auto].
Qed.

(* a call that returns at once, or one more blocked caller: the invariant *)
Lemma QInv_call_err q q' ws_ok :
  QInv q -> q_closed q' = q_closed q -> q_nextr q' = N.succ (q_nextr q) ->
  q_txs q' = q_txs q -> q_ping q' = q_ping q -> q_parked q' = q_parked q -> q_done q' = q_done q ->
  (q_ws q' = q_ws q \/ (q_ws q = RUp /\ q_ws q' = RPending /\ ws_ok)) -> QInv q'.
Proof.
  intros HI C Nx T P Pk D W. destruct HI.
  split; unfold prids, drids, qpids, trids in *; rewrite ?Pk, ?D, ?T, ?P, ?Nx; try assumption.
  - intros rid X. specialize (qi_plt0 _ X). lia.
  - intros rid X. specialize (qi_dlt0 _ X). lia.
  - intros rid X. specialize (qi_tlt0 _ X). lia.
  - intros rid l X. destruct W as [->|(_ & -> & _)]; [eauto|reflexivity].
  - rewrite C. destruct W as [->|(U & -> & _)]; [assumption|].
    split; [intros X; apply qi_closed0 in X; rewrite U in X; discriminate|discriminate].
Qed.

Theorem sub_case_QInv q sub fs wr q' r : QInv q -> sub_case q sub fs wr q' r -> QInv q'.
Proof.
  intros HI [e He C Nx Tn T P Pk D W|pid n Hne Hfresh Hnz Hlt Hsp Hn Hn' Ep W C Nx T P D Hpk].
  - eapply (QInv_call_err q q' (e = E_submit wr /\ wr <> WOk)); eassumption.
  - assert (Fr : forall x, x < q_nextr q -> x <> q_nextr q) by (intros; lia).
    assert (Hwf : tx_wf (pid, q_nextr q, kind_of sub fs)).
    { unfold tx_wf, tx_pid, tx_space. cbn [fst snd]. repeat split; assumption. }
    assert (Hold : forall r0 k, In (r0, k) (q_parked q) -> wait_pid k <> Some pid).
    { intros r0 k X E. destruct k as [lc|p0|p0|]; try discriminate; cbn in E; injection E as E; subst p0.
      - destruct (qi_sub _ HI _ _ X) as (fs' & Y). apply Hfresh.
        change pid with (tx_pid (pid, r0, Some fs')). apply in_map, Y.
      - pose proof (qi_unsub _ HI _ _ X) as Y. apply Hfresh.
        change pid with (tx_pid (pid, r0, @None (list (list N)))). apply in_map, Y. }
    assert (Core : forall k0, q_parked q' = (q_nextr q, k0) :: q_parked q ->
              NoDup (prids q') /\ NoDup (drids q') /\
              (forall rid, In rid (prids q') -> ~ In rid (drids q')) /\
              (forall rid, In rid (prids q') -> rid < q_nextr q') /\
              (forall rid, In rid (drids q') -> rid < q_nextr q') /\
              NoDup (qpids q') /\ Forall tx_wf (q_txs q') /\ NoDup (trids q') /\
              (forall rid, In rid (trids q') -> rid < q_nextr q')).
    { intros k0 Pk. unfold prids, drids, qpids, trids. rewrite Pk, D, T, Nx. cbn [map fst].
      split; [constructor; [|apply (qi_pnd _ HI)]; intros X; exact (Fr _ (qi_plt _ HI _ X) eq_refl)|].
      split; [apply (qi_dnd _ HI)|].
      split.
      { intros rid [<-|X] Y; [exact (Fr _ (qi_dlt _ HI _ Y) eq_refl)|exact (qi_disj _ HI _ X Y)]. }
      split; [intros rid [<-|X]; [lia|specialize (qi_plt _ HI _ X); lia]|].
      split; [intros rid X; specialize (qi_dlt _ HI _ X); lia|].
      split; [constructor; [exact Hfresh|apply (qi_pids _ HI)]|].
      split; [constructor; [exact Hwf|apply (qi_wf _ HI)]|].
      split; [constructor; [|apply (qi_trids _ HI)]; intros X; exact (Fr _ (qi_tlt _ HI _ X) eq_refl)|].
      intros rid [<-|X]; [unfold tx_rid; cbn; lia|specialize (qi_tlt _ HI _ X); lia]. }
    destruct Hpk as [(U & -> & Pk)|(U & Pk)];
      destruct (Core _ Pk) as (I1 & I2 & I3 & I4 & I5 & I6 & I7 & I8 & I9);
      split; try assumption; rewrite ?Pk, ?T, ?P, ?W, ?C.
    + intros rid p [X|X].
      * inversion X; subst. destruct sub; try discriminate. inversion H1; subst. exists fs. left. reflexivity.
      * destruct (qi_sub _ HI _ _ X) as (fs' & Y). exists fs'. right. exact Y.
    + intros rid p [X|X].
      * inversion X; subst. destruct sub; try discriminate. inversion H1; subst. left. reflexivity.
      * right. exact (qi_unsub _ HI _ _ X).
    + intros rid [X|X]; [destruct sub; discriminate|exact (qi_ping _ HI _ X)].
    + intros rid l [X|X]; [destruct sub; discriminate|].
      pose proof (qi_lock _ HI _ _ X) as Y. rewrite U in Y. discriminate.
    + intros ra p rb k [X|X]; [destruct sub; discriminate|].
      pose proof (qi_lock _ HI _ _ X) as Y. rewrite U in Y. discriminate.
    + intros ra rb [X|X]; [destruct sub; discriminate|].
      pose proof (qi_lock _ HI _ _ X) as Y. rewrite U in Y. discriminate.
    + exact (qi_closed _ HI).
    + intros rid p [X|X]; [discriminate|].
      destruct (qi_sub _ HI _ _ X) as (fs' & Y). exists fs'. right. exact Y.
    + intros rid p [X|X]; [discriminate|]. right. exact (qi_unsub _ HI _ _ X).
    + intros rid [X|X]; [discriminate|exact (qi_ping _ HI _ X)].
    + intros rid l _. exact U.
    + intros ra p rb k [X|X] [Y|Y].
      * inversion Y; subst. discriminate.
      * inversion X; subst. apply (Hold _ _ Y).
      * inversion Y; subst. discriminate.
      * exact (qi_lockpid _ HI _ _ _ _ X Y).
    + intros ra rb [X|X] [Y|Y]; try discriminate. exact (qi_lockping _ HI _ _ X Y).
    + exact (qi_closed _ HI).
Qed.

Theorem ping_case_QInv q wr q' r : QInv q -> ping_case q wr q' r -> QInv q'.
Proof.
  intros HI [e He C Nx Tn T P Pk D W|P0 W C Nx Tn T P D Hpk].
  - eapply (QInv_call_err q q' (e = E_submit wr /\ wr <> WOk)); eassumption.
  - assert (Fr : forall x, x < q_nextr q -> x <> q_nextr q) by (intros; lia).
    assert (NoPing : forall r0, ~ In (r0, PkPing) (q_parked q)).
    { intros r0 X. rewrite (qi_ping _ HI _ X) in P0. discriminate. }
    assert (Core : forall k0, q_parked q' = (q_nextr q, k0) :: q_parked q ->
              NoDup (prids q') /\ NoDup (drids q') /\
              (forall rid, In rid (prids q') -> ~ In rid (drids q')) /\
              (forall rid, In rid (prids q') -> rid < q_nextr q') /\
              (forall rid, In rid (drids q') -> rid < q_nextr q') /\
              NoDup (qpids q') /\ Forall tx_wf (q_txs q') /\ NoDup (trids q') /\
              (forall rid, In rid (trids q') -> rid < q_nextr q')).
    { intros k0 Pk. unfold prids, drids, qpids, trids. rewrite Pk, D, T, Nx. cbn [map fst].
      split; [constructor; [|apply (qi_pnd _ HI)]; intros X; exact (Fr _ (qi_plt _ HI _ X) eq_refl)|].
      split; [apply (qi_dnd _ HI)|].
      split.
      { intros rid [<-|X] Y; [exact (Fr _ (qi_dlt _ HI _ Y) eq_refl)|exact (qi_disj _ HI _ X Y)]. }
      split; [intros rid [<-|X]; [lia|specialize (qi_plt _ HI _ X); lia]|].
      split; [intros rid X; specialize (qi_dlt _ HI _ X); lia|].
      split; [apply (qi_pids _ HI)|]. split; [apply (qi_wf _ HI)|]. split; [apply (qi_trids _ HI)|].
      intros rid X. specialize (qi_tlt _ HI _ X). lia. }
    destruct Hpk as [(U & -> & Pk)|(U & Pk)];
      destruct (Core _ Pk) as (I1 & I2 & I3 & I4 & I5 & I6 & I7 & I8 & I9);
      split; try assumption; rewrite ?Pk, ?T, ?P, ?W, ?C.
    + intros rid p [X|X]; [discriminate|exact (qi_sub _ HI _ _ X)].
    + intros rid p [X|X]; [discriminate|exact (qi_unsub _ HI _ _ X)].
    + intros rid [X|X]; [inversion X; reflexivity|exfalso; exact (NoPing _ X)].
    + intros rid l [X|X]; [discriminate|].
      pose proof (qi_lock _ HI _ _ X) as Y. rewrite U in Y. discriminate.
    + intros ra p rb k [X|X]; [discriminate|].
      pose proof (qi_lock _ HI _ _ X) as Y. rewrite U in Y. discriminate.
    + intros ra rb [X|X]; [discriminate|].
      pose proof (qi_lock _ HI _ _ X) as Y. rewrite U in Y. discriminate.
    + exact (qi_closed _ HI).
    + intros rid p [X|X]; [discriminate|exact (qi_sub _ HI _ _ X)].
    + intros rid p [X|X]; [discriminate|exact (qi_unsub _ HI _ _ X)].
    + intros rid [X|X]; [discriminate|exfalso; exact (NoPing _ X)].
    + intros rid l _. exact U.
    + intros ra p rb k [X|X] [Y|Y]; try discriminate.
      * inversion Y; subst. discriminate.
      * exact (qi_lockpid _ HI _ _ _ _ X Y).
    + intros ra rb _ [Y|Y]; [discriminate|exact (NoPing _ Y)].
    + exact (qi_closed _ HI).
Qed.

(* the write of some other caller (a Publish, the read routine's acknowledgement) fails *)
Theorem other_wfail_QInv q : QInv q -> q_ws q = RUp -> QInv (q <| q_ws := RPending |>).
Proof.
  intros HI U. apply QInv_set_ws; try assumption; try discriminate; [rewrite U; discriminate|].
  intros; reflexivity.
Qed.

(* one more entry in the log: a call that returned at once *)
Lemma QInv_log_return q e : QInv q -> q_nextr q <> 0 ->
  ~ In (N.pred (q_nextr q)) (prids q) -> ~ In (N.pred (q_nextr q)) (drids q) ->
  QInv (q <| q_done ::= cons (N.pred (q_nextr q), e, []) |>).
Proof.
  intros HI Nz Np Nd. destruct HI. split; try assumption.
  - unfold drids. cbn [q_done map]. change (rid3 (N.pred (q_nextr q), e, [])) with (N.pred (q_nextr q)).
    constructor; assumption.
  - intros rid X [Y|Y]; [cbn in Y; subst; contradiction|]. exact (qi_disj0 _ X Y).
  - intros rid [Y|Y]; [cbn in Y; subst; cbn; lia|exact (qi_dlt0 _ Y)].
Qed.

(* ================================================================== *)
(* 10. The world: callers + client + connection + broker               *)

(* client to broker; first component = ghost: the request that sent it *)
Inductive upk := UReq (rid pid : N) (k : rkind) | UPing (rid : N).
(* broker to client; last component = ghost: the request packet this answers (None: the
   broker made it up -- duplicate, wrong identifier, anything) *)
Inductive dpk :=
| DSuback (pid : N) (codes : list N) (org : option upk)
| DUnsuback (pid : N) (org : option upk)
| DPong (org : option upk).

Definition utag (u : upk) : N := match u with UReq rid _ _ => rid | UPing rid => rid end.
Definition dorg (d : dpk) : option upk :=
  match d with DSuback _ _ o => o | DUnsuback _ o => o | DPong o => o end.
Definition orgs (l : list dpk) : list upk :=
  flat_map (fun d => match dorg d with Some u => [u] | None => [] end) l.

(* what a request asked for *)
(* CallTx: a Subscribe/Unsubscribe that got the identifier picked at counter value n
   (ghost); CallFail: one that returned at once *)
Inductive rcall := CallTx (k : rkind) (n : N) | CallFail (k : rkind) | CallPing.

(* the conforming answer: SUBACK with one (any) valid return code per filter, UNSUBACK, PINGRESP *)
Definition answer (u : upk) (codes : list N) : option dpk :=
  match u with
  | UReq rid pid (Some fs) =>
    if (length fs =? length codes)%nat && forallb code_ok codes then Some (DSuback pid codes (Some u)) else None
  | UReq rid pid None => Some (DUnsuback pid (Some u))
  | UPing rid => Some (DPong (Some u))
  end.

Record rworld := mkRW {
  r_cl : rcl;
  r_rd : bool;               (* the read routine holds a connection and may still find packets in its buffer *)
  r_alive : bool;            (* that connection still transports *)
  r_c2b : list upk;          (* written by the client, not yet answered *)
  r_b2c : list dpk;          (* sent by the broker, not yet handled by the read routine (FIFO) *)
  r_calls : list (N * rcall) (* ghost: request id -> what was asked *)
}.

Inductive ract :=
| ASub (fs : list (list N)) (wr : wres)    (* Subscribe; wr = answer of conn.Write, if it is called *)
| AUnsub (fs : list (list N)) (wr : wres)
| APing (wr : wres)
| AQuit (rid : N)                          (* the quit channel of request rid is closed *)
| AClose (keep : nat)                      (* Close/Disconnect; keep = packets already in the read buffer *)
| AWriteFail                               (* another caller's write fails: it drops the connection *)
| ADeliver                                 (* the read routine handles the oldest packet *)
| AOffline                                 (* the read routine meets a read error: toOffline *)
| AReconnect (ok : bool)                   (* ReadSlices: connect *)
| ATerm                                    (* ReadSlices after Close: ErrClosed, termCallbacks *)
| ABreak (keep : nat)                      (* the network connection dies *)
| BAnswer (i : nat) (codes : list N)       (* the broker answers the i-th request it holds *)
| BForge (d : dpk).                        (* hostile broker: any packet *)

Definition closed_by_write (q q' : rcl) : bool :=
  match q_ws q, q_ws q' with RUp, RPending => true | _, _ => false end.
Definition new_pid (q : rcl) : N := match q_txs q with (pid, _, _) :: _ => pid | [] => 0 end.

Definition exec_call (w : rworld) (q' : rcl) (r : retv) (cl clf : rcall) (mk : N -> upk) : option rworld :=
  let q := r_cl w in
  let rid := q_nextr q in
  match r with
  | RetErr e =>
    let calls := (rid, clf) :: r_calls w in
    let q'' := q' <| q_done ::= cons (rid, e, []) |> in
    if closed_by_write q q'
    then Some (mkRW q'' (r_rd w) false [] (r_b2c w) calls)
    else Some (mkRW q'' (r_rd w) (r_alive w) (r_c2b w) (r_b2c w) calls)
  | RetParked =>
    let calls := (rid, cl) :: r_calls w in
    match q_ws q with
    | RUp => Some (mkRW q' (r_rd w) (r_alive w)
                        (if r_alive w then r_c2b w ++ [mk rid] else r_c2b w) (r_b2c w) calls)
    | _ => Some (mkRW q' (r_rd w) (r_alive w) (r_c2b w) (r_b2c w) calls)
    end
  | _ => None
  end.

Definition sl_dispatch (q : rcl) (d : dpk) : rcl * hres :=
  match d with
  | DSuback pid codes _ => sl_suback q pid codes
  | DUnsuback pid _ => sl_unsuback q pid
  | DPong _ => sl_pingresp q
  end.

Definition remove_nth {A} (i : nat) (l : list A) : list A := firstn i l ++ skipn (S i) l.

Definition rexec (w : rworld) (a : ract) : option rworld :=
  let q := r_cl w in
  match a with
  | ASub fs wr =>
    let '(q', r) := sl_subscribe q true fs wr in
    exec_call w q' r (CallTx (Some fs) (N.pred (q_txn q'))) (CallFail (Some fs))
              (fun rid => UReq rid (new_pid q') (Some fs))
  | AUnsub fs wr =>
    let '(q', r) := sl_subscribe q false fs wr in
    exec_call w q' r (CallTx None (N.pred (q_txn q'))) (CallFail None)
              (fun rid => UReq rid (new_pid q') None)
  | APing wr =>
    let '(q', r) := sl_ping q wr in exec_call w q' r CallPing CallPing UPing
  | AQuit rid => Some (mkRW (sl_quit q rid) (r_rd w) (r_alive w) (r_c2b w) (r_b2c w) (r_calls w))
  | AClose keep =>
    if q_closed q then Some w
    else Some (mkRW (sl_close q) (r_rd w) false [] (firstn keep (r_b2c w)) (r_calls w))
  | AWriteFail =>
    match q_ws q with
    | RUp => Some (mkRW (q <| q_ws := RPending |>) (r_rd w) false [] (r_b2c w) (r_calls w))
    | _ => None
    end
  | ADeliver =>
    if r_rd w then
      match r_b2c w with
      | [] => None
      | d :: rest =>
        let '(q1, h) := sl_dispatch q d in
        match h with
        | HOk => Some (mkRW q1 true (r_alive w) (r_c2b w) rest (r_calls w))
        | HErr _ =>
          match q_ws q1 with
          | RClosed => Some (mkRW q1 true (r_alive w) (r_c2b w) rest (r_calls w))
          | _ => Some (mkRW (sl_offline q1) false false [] [] (r_calls w))
          end
        | _ => None
        end
      end
    else None
  | AOffline =>
    if r_rd w then
      match q_ws q with
      | RClosed => None
      | _ => Some (mkRW (sl_offline q) false false [] [] (r_calls w))
      end
    else None
  | AReconnect ok =>
    if r_rd w then None else
    match q_ws q with
    | RPending | RDown =>
      if ok then (if q_has_locked q then None
                  else Some (mkRW (sl_connect_ok q) true true [] [] (r_calls w)))
      else Some (mkRW (sl_connect_fail q) false false [] [] (r_calls w))
    | _ => None
    end
  | ATerm =>
    match q_ws q with
    | RClosed => Some (mkRW (q_break q) false false [] [] (r_calls w))
    | _ => None
    end
  | ABreak keep =>
    if r_alive w then Some (mkRW q (r_rd w) false [] (firstn keep (r_b2c w)) (r_calls w)) else None
  | BAnswer i codes =>
    if r_alive w then
      match nth_error (r_c2b w) i with
      | Some u =>
        match answer u codes with
        | Some d => Some (mkRW q (r_rd w) true (remove_nth i (r_c2b w)) (r_b2c w ++ [d]) (r_calls w))
        | None => None
        end
      | None => None
      end
    else None
  | BForge d =>
    if r_alive w then
      match dorg d with
      | None => Some (mkRW q (r_rd w) true (r_c2b w) (r_b2c w ++ [d]) (r_calls w))
      | Some _ => None
      end
    else None
  end.

Definition is_forge (a : ract) : bool := match a with BForge _ => true | _ => false end.

(* h = true: the broker may also send packets of its own making *)
Definition rstep (h : bool) (w : rworld) (a : ract) (w' : rworld) : Prop :=
  rexec w a = Some w' /\ (is_forge a = true -> h = true).

Definition rinit : rworld :=
  mkRW (mkRcl RPending false 0 0 [] None [] []) false false [] [] [].

Inductive rreach (h : bool) : rworld -> Prop :=
| rr_init : rreach h rinit
| rr_step : forall w a w', rreach h w -> rstep h w a w' -> rreach h w'.

Lemma rreach_hostile w : rreach false w -> rreach true w.
Proof.
  induction 1 as [|w a w' _ IH [E F]]; [constructor|].
  eapply rr_step; [exact IH|]. split; [exact E|]. intros X. rewrite X in F. discriminate (F eq_refl).
Qed.

(* ================================================================== *)
(* 11. The invariant of the world                                      *)

Definition inflight (w : rworld) : list upk := r_c2b w ++ orgs (r_b2c w).

(* the request that sent u is still waiting for the response to u *)
Definition live (q : rcl) (u : upk) : Prop :=
  match u with
  | UReq rid pid k => In (pid, rid, k) (q_txs q) /\ In (rid, waitk pid k) (q_parked q)
  | UPing rid => q_ping q = Some rid /\ In (rid, PkPing) (q_parked q)
  end.
(* ... or it has returned already *)
Definition item_ok (q : rcl) (u : upk) : Prop := live q u \/ In (utag u) (drids q).

(* the documented outcomes; a SubscribeError lists filters of the request's own call *)
Definition outcome_ok (calls : list (N * rcall)) (x : N * err * list (list N)) : Prop :=
  (snd x = [] /\ (err3 x = E_nil \/ err3 x = E_break \/ err3 x = E_canceled \/ err3 x = E_abandoned
                  \/ call_err (err3 x)))
  \/ (err3 x = E_suberr /\ snd x <> [] /\
      exists fs codes n, In (rid3 x, CallTx (Some fs) n) calls /\ snd x = failed_filters fs codes).

Record RInv (w : rworld) : Prop := mkRInv {
  ri_q : QInv (r_cl w);
  ri_alive : r_alive w = true -> q_ws (r_cl w) = RUp;
  ri_up : q_ws (r_cl w) = RUp -> r_rd w = true;
  ri_norx : r_rd w = false -> r_b2c w = [];
  ri_dead : r_alive w = false -> r_c2b w = [];
  (* who waits for a response has a connection to get it from *)
  ri_wait : forall rid k, In (rid, k) (q_parked (r_cl w)) -> is_wait k = true -> r_rd w = true;
  (* every genuine packet in flight belongs to a request that still waits for it or has returned *)
  ri_item : forall u, In u (inflight w) -> item_ok (r_cl w) u;
  ri_gen : forall d u, In d (r_b2c w) -> dorg d = Some u -> exists codes, answer u codes = Some d;
  ri_req : forall rid pid k, In (UReq rid pid k) (inflight w) ->
             (exists n, In (rid, CallTx k n) (r_calls w) /\ pid = cand (space_k k) n) /\
             (forall fs, k = Some fs -> fs <> []);
  ri_tags : NoDup (map utag (inflight w));
  ri_tags_lt : forall u, In u (inflight w) -> utag u < q_nextr (r_cl w);
  (* on a live connection every waiting request has its packet or the answer to it in flight *)
  ri_cover : r_alive w = true -> forall rid k, In (rid, k) (q_parked (r_cl w)) -> is_wait k = true ->
               In rid (map utag (inflight w));
  ri_calls_nd : NoDup (map fst (r_calls w));
  ri_calls_lt : forall rid, In rid (map fst (r_calls w)) -> rid < q_nextr (r_cl w);
  ri_entry : forall pid rid k, In (pid, rid, k) (q_txs (r_cl w)) ->
               exists n, In (rid, CallTx k n) (r_calls w) /\ pid = cand (space_k k) n;
  (* the ghost counters: below unorderedTxs.n, one request per value *)
  ri_ctr_lt : forall rid k n, In (rid, CallTx k n) (r_calls w) -> n < q_txn (r_cl w);
  ri_ctr_inj : forall r1 k1 r2 k2 n, In (r1, CallTx k1 n) (r_calls w) -> In (r2, CallTx k2 n) (r_calls w) -> r1 = r2;
  ri_done : forall x, In x (q_done (r_cl w)) -> outcome_ok (r_calls w) x;
  (* no call is lost: every request made so far is blocked or has returned *)
  ri_all : forall rid, rid < q_nextr (r_cl w) -> In rid (prids (r_cl w)) \/ In rid (drids (r_cl w))
}.

(* subsequences *)
Inductive subseq {A} : list A -> list A -> Prop :=
| ss_nil : subseq [] []
| ss_skip : forall x l' l, subseq l' l -> subseq l' (x :: l)
| ss_keep : forall x l' l, subseq l' l -> subseq (x :: l') (x :: l).

Lemma subseq_refl {A} (l : list A) : subseq l l.
Proof. induction l; constructor; assumption. Qed.
Lemma subseq_nil {A} (l : list A) : subseq [] l.
Proof. induction l; constructor; assumption. Qed.
Lemma subseq_in {A} (l' l : list A) x : subseq l' l -> In x l' -> In x l.
Proof. induction 1; intros Hx; [exact Hx|right; auto|destruct Hx; [left; assumption|right; auto]]. Qed.
Lemma subseq_app {A} (a' a b' b : list A) : subseq a' a -> subseq b' b -> subseq (a' ++ b') (a ++ b).
Proof. induction 1; intros Hx; cbn [app]; [exact Hx|apply ss_skip; auto|apply ss_keep; auto]. Qed.
Lemma subseq_firstn {A} n (l : list A) : subseq (firstn n l) l.
Proof.
  revert n. induction l as [|a l IH]; intros [|n]; cbn [firstn].
  - constructor.
  - constructor.
  - apply subseq_nil.
  - apply ss_keep, IH.
Qed.
Lemma subseq_tl {A} (a : A) l : subseq l (a :: l).
Proof. apply ss_skip, subseq_refl. Qed.
Lemma subseq_map {A B} (f : A -> B) l' l : subseq l' l -> subseq (map f l') (map f l).
Proof. induction 1; cbn [map]; constructor; assumption. Qed.
Lemma subseq_flat_map {A B} (f : A -> list B) l' l : subseq l' l -> subseq (flat_map f l') (flat_map f l).
Proof.
  induction 1; cbn [flat_map]; [constructor| |].
  - change (flat_map f l') with ([] ++ flat_map f l'). apply subseq_app; [apply subseq_nil|assumption].
  - apply subseq_app; [apply subseq_refl|assumption].
Qed.
Lemma subseq_NoDup {A} (l' l : list A) : subseq l' l -> NoDup l -> NoDup l'.
Proof.
  induction 1; intros ND; [exact ND| |]; inversion ND as [|? ? Hn Hd]; subst; auto.
  constructor; auto. intros X. apply Hn. eapply subseq_in; eassumption.
Qed.

Lemma lc_eq_dec (a b : lock_cleanup) : {a = b} + {a <> b}.
Proof. decide equality. apply N.eq_dec. Qed.
Lemma pkind_eq_dec (a b : pkind) : {a = b} + {a <> b}.
Proof. decide equality; try apply N.eq_dec. apply lc_eq_dec. Qed.
Lemma parked_eq_dec (a b : N * pkind) : {a = b} + {a <> b}.
Proof. decide equality; [apply pkind_eq_dec|apply N.eq_dec]. Qed.

(* completions never turn a packet in flight into an orphan *)
Lemma live_mono q q' new u : QInv q -> QInv q' -> qmono q q' new -> live q u ->
  live q' u \/ In (utag u) (map rid3 new).
Proof.
  intros HI HI' M L.
  assert (Gone : forall rid k, In (rid, k) (q_parked q) -> ~ In (rid, k) (q_parked q') ->
                   In rid (map rid3 new)).
  { intros rid k X Y. apply (qm_iff _ _ _ M). split; [eapply in_prids, X|].
    intros Z. apply in_prids_ex in Z as (k' & Z). pose proof (qmono_parked _ _ _ _ M Z) as Z'.
    rewrite (QInv_parked_unique _ _ _ _ HI X Z') in Y. exact (Y Z). }
  destruct u as [rid pid k|rid]; cbn [live utag] in *; destruct L as [L1 L2].
  - destruct (in_dec parked_eq_dec (rid, waitk pid k) (q_parked q')) as [Y|Y]; [|right; exact (Gone _ _ L2 Y)].
    left. split; [|exact Y]. destruct k as [fs|]; cbn [waitk] in Y.
    + destruct (qi_sub _ HI' _ _ Y) as (fs' & X). pose proof (qmono_txs _ _ _ _ M X) as X'.
      destruct (QInv_entry_unique _ _ _ _ _ _ HI L1 X') as [_ E]. rewrite E. exact X.
    + exact (qi_unsub _ HI' _ _ Y).
  - destruct (in_dec parked_eq_dec (rid, PkPing) (q_parked q')) as [Y|Y]; [|right; exact (Gone _ _ L2 Y)].
    left. split; [exact (qi_ping _ HI' _ Y)|exact Y].
Qed.

Lemma item_ok_mono q q' new u : QInv q -> QInv q' -> qmono q q' new -> item_ok q u -> item_ok q' u.
Proof.
  intros HI HI' M [L|D]; unfold item_ok, drids; rewrite (qm_done _ _ _ M), map_app.
  - destruct (live_mono _ _ _ _ HI HI' M L) as [X|X]; [left; exact X|right; apply in_app_iff; left; exact X].
  - right. apply in_app_iff. right. exact D.
Qed.

(* steps in which callers only return and packets only disappear *)
Lemma RInv_shrink w q' new rd' alive' c2b' b2c' :
  RInv w -> QInv q' -> qmono (r_cl w) q' new ->
  (forall x, In x new -> outcome_ok (r_calls w) x) ->
  subseq c2b' (r_c2b w) -> subseq b2c' (r_b2c w) ->
  (alive' = true -> q_ws q' = RUp) -> (q_ws q' = RUp -> rd' = true) ->
  (rd' = false -> b2c' = []) -> (alive' = false -> c2b' = []) ->
  (forall rid k, In (rid, k) (q_parked q') -> is_wait k = true -> rd' = true) ->
  (alive' = true -> forall rid k, In (rid, k) (q_parked q') -> is_wait k = true ->
     In rid (map utag (c2b' ++ orgs b2c'))) ->
  RInv (mkRW q' rd' alive' c2b' b2c' (r_calls w)).
Proof.
  intros HR HQ M Hnew S1 S2 F1 F2 F3 F4 F5 F6.
  assert (SI : subseq (c2b' ++ orgs b2c') (inflight w)).
  { apply subseq_app; [exact S1|apply subseq_flat_map, S2]. }
  split; cbn [r_cl r_rd r_alive r_c2b r_b2c r_calls]; unfold inflight; cbn [r_c2b r_b2c]; try assumption.
  - intros u X. apply (item_ok_mono _ _ _ _ (ri_q _ HR) HQ M). apply (ri_item _ HR). eapply subseq_in; eassumption.
  - intros d u X. apply (ri_gen _ HR). eapply subseq_in; eassumption.
  - intros rid pid k X. apply (ri_req _ HR _ pid). eapply subseq_in; eassumption.
  - eapply subseq_NoDup; [apply subseq_map, SI|apply (ri_tags _ HR)].
  - intros u X. rewrite (qm_nextr _ _ _ M). apply (ri_tags_lt _ HR). eapply subseq_in; eassumption.
  - apply (ri_calls_nd _ HR).
  - intros rid X. rewrite (qm_nextr _ _ _ M). apply (ri_calls_lt _ HR), X.
  - intros pid rid k X. apply (ri_entry _ HR pid). exact (qmono_txs _ _ _ _ M X).
  - intros rid k n X. rewrite (qm_txn _ _ _ M). exact (ri_ctr_lt _ HR _ _ _ X).
  - apply (ri_ctr_inj _ HR).
  - intros x X. rewrite (qm_done _ _ _ M) in X. apply in_app_iff in X as [X|X]; [apply Hnew, X|apply (ri_done _ HR), X].
  - intros rid X. rewrite (qm_nextr _ _ _ M) in X. unfold drids. rewrite (qm_done _ _ _ M), map_app.
    destruct (in_dec N.eq_dec rid (prids q')) as [Y|Y]; [left; exact Y|right]. apply in_app_iff.
    destruct (ri_all _ HR _ X) as [Z|Z]; [left; apply (qm_iff _ _ _ M); auto|right; exact Z].
Qed.

(* the outcomes of the completion steps *)
Lemma outcome_simple calls rid e : 
  e = E_nil \/ e = E_break \/ e = E_canceled \/ e = E_abandoned \/ call_err e ->
  outcome_ok calls (rid, e, []).
Proof. intros H. left. split; [reflexivity|exact H]. Qed.

Lemma outcome_answer calls rid fs codes n : In (rid, CallTx (Some fs) n) calls ->
  outcome_ok calls (rid, ans_err (failed_filters fs codes), failed_filters fs codes).
Proof.
  intros H. destruct (failed_filters fs codes) as [|f l] eqn:E.
  - left. split; [reflexivity|left; reflexivity].
  - right. split; [reflexivity|]. split; [discriminate|]. exists fs, codes, n. split; [exact H|].
    cbn [snd]. symmetry. exact E.
Qed.

Lemma outcome_ok_mono calls c x : outcome_ok calls x -> outcome_ok (c :: calls) x.
Proof.
  intros [H|(A & B & fs & codes & n & C & D)]; [left; exact H|].
  right. split; [exact A|]. split; [exact B|]. exists fs, codes, n. split; [right; exact C|exact D].
Qed.

(* the read routine hands one packet to its handler *)
Lemma dispatch_spec w d : RInv w ->
  exists new, qmono (r_cl w) (fst (sl_dispatch (r_cl w) d)) new /\
    QInv (fst (sl_dispatch (r_cl w) d)) /\
    q_ws (fst (sl_dispatch (r_cl w) d)) = q_ws (r_cl w) /\
    (forall x, In x new -> outcome_ok (r_calls w) x) /\
    (snd (sl_dispatch (r_cl w) d) = HOk \/ snd (sl_dispatch (r_cl w) d) = HErr E_proto).
Proof.
  intros HR. pose proof (ri_q _ HR) as HI. destruct d as [pid codes o|pid o|o]; cbn [sl_dispatch].
  - destruct (suback_cases _ pid codes HI) as (new & HC). exists new.
    split; [exact (suback_case_qmono _ _ _ _ _ _ HC)|]. split; [exact (suback_case_QInv _ _ _ _ _ _ HI HC)|].
    split; [apply (suback_case_scalars _ _ _ _ _ _ HC)|].
    destruct HC as [_ E|_ _ E|rid fs F N E|rid fs F P L E1 E2|rid fs F P L E1 E2].
    + split; [intros x []|right; exact E].
    + split; [intros x []|left; exact E].
    + split; [intros x []|]. unfold sl_suback in *.
      (* the handler's verdict is one of the two in every branch *)
      clear. destruct codes as [|c0 cs]; [right; reflexivity|].
      destruct (pid =? 0); [right; reflexivity|]. destruct (negb (_ =? sub_space)); [right; reflexivity|].
      destruct (negb (forallb _ _)); [right; reflexivity|].
      destruct (q_tx_find _ pid) as [[rid fso]|]; [|left; reflexivity]. cbv zeta.
      destruct (negb (_ =? _)%nat); [right; reflexivity|]. destruct (failed_filters _ _); left; reflexivity.
    + split; [|left; exact E2]. intros x [<-|[]]. destruct (ri_entry _ HR _ _ _ F) as (n & Cn & _).
      eapply outcome_answer. exact Cn.
    + split; [|right; exact E2]. intros x [<-|[]]. apply outcome_simple. auto.
  - destruct (unsuback_cases _ pid HI) as (new & HC). exists new.
    split; [exact (unsuback_case_qmono _ _ _ _ _ HC)|]. split; [exact (unsuback_case_QInv _ _ _ _ _ HI HC)|].
    split; [apply (unsuback_case_scalars _ _ _ _ _ HC)|].
    destruct HC as [_ E|_ _ E|rid F N _ E|rid F P _ E].
    + split; [intros x []|right; exact E].
    + split; [intros x []|left; exact E].
    + split; [intros x []|left; exact E].
    + split; [|left; exact E]. intros x [<-|[]]. apply outcome_simple. auto.
  - destruct (pingresp_cases _ HI) as (Hh & new & HC). exists new.
    split; [exact (pingresp_case_qmono _ _ _ HC)|]. split; [exact (pingresp_case_QInv _ _ _ HI HC)|].
    split; [destruct HC as [_ ->|rid _ _ ->|rid _ P ->]; reflexivity|].
    split; [|left; exact Hh].
    destruct HC as [_ _|rid _ _ _|rid _ P _]; [intros x []|intros x []|].
    intros x [<-|[]]. apply outcome_simple. auto.
Qed.

(* the genuine answer to a request that still waits makes it return *)
Lemma deliver_own q u d codes : QInv q -> live q u ->
  (forall rid pid fs, u = UReq rid pid (Some fs) -> fs <> []) ->
  answer u codes = Some d ->
  ~ In (utag u) (prids (fst (sl_dispatch q d))) /\ snd (sl_dispatch q d) = HOk.
Proof.
  intros HI L Hne A. destruct u as [rid pid [fs|]|rid]; cbn [answer] in A; cbn [live utag] in L.
  - destruct ((length fs =? length codes)%nat && forallb code_ok codes) eqn:G; [|discriminate].
    apply andb_true_iff in G as [G1 G2]. apply Nat.eqb_eq in G1. inversion A; subst d. clear A.
    destruct L as [L1 L2]. cbn [waitk] in L2. cbn [sl_dispatch].
    destruct (QInv_entry_wf _ _ _ _ HI L1) as [Nz Sp].
    unfold sl_suback.
    destruct codes as [|c0 cs].
    { exfalso. apply (Hne _ _ _ eq_refl). destruct fs; [reflexivity|discriminate]. }
    set (codes := c0 :: cs) in *. clearbody codes.
    destruct (N.eqb_spec pid 0); [contradiction|].
    unfold in_un_space in Sp. rewrite Sp, N.eqb_refl. cbn [negb]. rewrite G2. cbn [negb].
    rewrite (QInv_tx_find _ _ _ _ HI L1). cbv zeta.
    change (q_parked_kind (q_tx_remove q pid) rid) with (q_parked_kind q rid).
    rewrite (QInv_parked_kind _ _ _ HI L2). rewrite G1, Nat.eqb_refl. cbn [negb].
    destruct (failed_filters fs codes); cbn [fst snd]; (split; [apply not_in_filter_rid|reflexivity]).
  - inversion A; subst d. clear A. destruct L as [L1 L2]. cbn [waitk] in L2. cbn [sl_dispatch].
    destruct (QInv_entry_wf _ _ _ _ HI L1) as [Nz Sp].
    unfold sl_unsuback. destruct (N.eqb_spec pid 0); [contradiction|].
    unfold in_un_space in Sp. rewrite Sp, N.eqb_refl. cbn [negb].
    rewrite (QInv_tx_find _ _ _ _ HI L1). cbv zeta.
    change (q_parked_kind (q_tx_remove q pid) rid) with (q_parked_kind q rid).
    rewrite (QInv_parked_kind _ _ _ HI L2). cbn [fst snd]. split; [apply not_in_filter_rid|reflexivity].
  - inversion A; subst d. clear A. destruct L as [L1 L2]. cbn [sl_dispatch].
    unfold sl_pingresp. rewrite L1. cbv zeta.
    change (q_parked_kind (q <| q_ping := None |>) rid) with (q_parked_kind q rid).
    rewrite (QInv_parked_kind _ _ _ HI L2). cbn [fst snd]. split; [apply not_in_filter_rid|reflexivity].
Qed.

(* ------------------------------------------------------------------ *)
(* preservation, action by action                                      *)

Lemma wait_parked_sub w q' new rid k : RInv w -> qmono (r_cl w) q' new ->
  In (rid, k) (q_parked q') -> is_wait k = true -> r_rd w = true.
Proof. intros HR M X Y. exact (ri_wait _ HR _ _ (qmono_parked _ _ _ _ M X) Y). Qed.

Lemma rinv_quit w rid : RInv w ->
  RInv (mkRW (sl_quit (r_cl w) rid) (r_rd w) (r_alive w) (r_c2b w) (r_b2c w) (r_calls w)).
Proof.
  intros HR. pose proof (ri_q _ HR) as HI. destruct (quit_cases _ rid HI) as (new & HC).
  pose proof (quit_case_qmono _ _ _ _ HC) as M.
  assert (W : q_ws (sl_quit (r_cl w) rid) = q_ws (r_cl w)).
  { destruct HC as [_ ->|l P ->|k pid P _ ->|P ->]; auto. destruct l; auto. }
  assert (Hnew : forall x, In x new -> outcome_ok (r_calls w) x).
  { destruct HC as [_ _|l P _|k pid P _ _|P _]; intros x X; try destruct X as [<-|[]]; try contradiction;
      apply outcome_simple; auto. }
  apply (RInv_shrink w _ new _ _ _ _ HR (quit_case_QInv _ _ _ _ HI HC) M Hnew (subseq_refl _) (subseq_refl _)).
  - rewrite W. apply (ri_alive _ HR).
  - rewrite W. apply (ri_up _ HR).
  - apply (ri_norx _ HR).
  - apply (ri_dead _ HR).
  - intros r k. apply (wait_parked_sub _ _ _ _ _ HR M).
  - intros A r k X Y. exact (ri_cover _ HR A _ _ (qmono_parked _ _ _ _ M X) Y).
Qed.

Lemma firstn_nil_of {A} n (l : list A) : l = [] -> firstn n l = [].
Proof. intros ->. destruct n; reflexivity. Qed.

Lemma rinv_close w keep : RInv w -> q_closed (r_cl w) = false ->
  RInv (mkRW (sl_close (r_cl w)) (r_rd w) false [] (firstn keep (r_b2c w)) (r_calls w)).
Proof.
  intros HR C. pose proof (ri_q _ HR) as HI. set (q := r_cl w) in *.
  assert (E : sl_close q = q_release_locked (q <| q_closed := true |> <| q_ws := RClosed |>) E_closed).
  { unfold sl_close. rewrite C. reflexivity. }
  set (q0 := q <| q_closed := true |> <| q_ws := RClosed |>) in *.
  assert (SR : same_req q q0) by (repeat split).
  assert (ND : NoDup (prids q0)) by apply (qi_pnd _ HI).
  pose proof (qmono_trans0 _ _ _ _ (same_req_qmono _ _ SR) (release_qmono q0 E_closed ND)) as M.
  destruct (release_scalars q0 E_closed) as (W & _).
  rewrite E.
  assert (HQ : QInv (q_release_locked q0 E_closed)).
  { apply (release_QInv q); [exact HI|exact SR|]. cbn. tauto. }
  assert (Hnew : forall x, In x (release_new q0 E_closed) -> outcome_ok (r_calls w) x).
  { intros x X. apply release_new_in in X as (rid & lc & -> & _). apply outcome_simple.
    do 4 right. do 2 right. left. reflexivity. }
  apply (RInv_shrink w _ _ _ _ _ _ HR HQ M Hnew (subseq_nil _) (subseq_firstn _ _)).
  - discriminate.
  - rewrite W. cbn. discriminate.
  - intros X. apply firstn_nil_of, (ri_norx _ HR), X.
  - reflexivity.
  - intros r k. apply (wait_parked_sub _ _ _ _ _ HR M).
  - discriminate.
Qed.

Lemma rinv_wfail w : RInv w -> q_ws (r_cl w) = RUp ->
  RInv (mkRW (r_cl w <| q_ws := RPending |>) (r_rd w) false [] (r_b2c w) (r_calls w)).
Proof.
  intros HR U. pose proof (ri_q _ HR) as HI.
  assert (M : qmono (r_cl w) (r_cl w <| q_ws := RPending |>) []).
  { apply same_req_qmono. repeat split. }
  assert (Hnew : forall x, In x [] -> outcome_ok (r_calls w) x) by (intros x []).
  apply (RInv_shrink w _ [] _ _ _ _ HR (other_wfail_QInv _ HI U) M Hnew (subseq_nil _) (subseq_refl _)).
  - discriminate.
  - cbn. discriminate.
  - apply (ri_norx _ HR).
  - reflexivity.
  - intros r k. apply (wait_parked_sub _ _ _ _ _ HR M).
  - discriminate.
Qed.

Lemma sl_offline_spec q : QInv q -> q_ws q <> RClosed ->
  exists new, qmono q (sl_offline q) new /\ QInv (sl_offline q) /\ q_ws (sl_offline q) = RPending /\
    q_txs (sl_offline q) = [] /\ q_ping (sl_offline q) = None /\
    (forall x, In x new -> exists rid k, x = (rid, E_break, []) /\ In (rid, k) (q_parked q) /\ is_wait k = true) /\
    (forall rid k, In (rid, k) (q_parked (sl_offline q)) -> is_lock k = true).
Proof.
  intros HI W. pose proof (offline_QInv q HI) as HQ. unfold sl_offline in *.
  assert (SR : same_req q (q <| q_ws := RPending |>)) by (repeat split).
  destruct (break_spec q _ HI SR) as (new & M & T & P & Ws & _ & _ & Hn & Hl).
  destruct (q_ws q); try contradiction; exists new; repeat (split; [assumption|]); assumption.
Qed.

Lemma no_wait_of_locks (q : rcl) :
  (forall rid k, In (rid, k) (q_parked q) -> is_lock k = true) ->
  forall rid k (b : bool), In (rid, k) (q_parked q) -> is_wait k = true -> b = true.
Proof. intros Hl rid k b X Y. apply Hl in X. unfold is_wait in Y. rewrite X in Y. discriminate. Qed.

Lemma rinv_offline w : RInv w -> q_ws (r_cl w) <> RClosed ->
  RInv (mkRW (sl_offline (r_cl w)) false false [] [] (r_calls w)).
Proof.
  intros HR W. pose proof (ri_q _ HR) as HI.
  destruct (sl_offline_spec _ HI W) as (new & M & HQ & Ws & _ & _ & Hn & Hl).
  assert (Hnew : forall x, In x new -> outcome_ok (r_calls w) x).
  { intros x X. destruct (Hn _ X) as (rid & k & -> & _). apply outcome_simple. auto. }
  apply (RInv_shrink w _ new _ _ _ _ HR HQ M Hnew (subseq_nil _) (subseq_nil _)).
  - discriminate.
  - rewrite Ws. discriminate.
  - reflexivity.
  - reflexivity.
  - intros r k. apply (no_wait_of_locks _ Hl).
  - discriminate.
Qed.

Lemma rinv_term w : RInv w -> q_ws (r_cl w) = RClosed ->
  RInv (mkRW (q_break (r_cl w)) false false [] [] (r_calls w)).
Proof.
  intros HR W. pose proof (ri_q _ HR) as HI.
  destruct (break_spec _ _ HI (same_req_refl _)) as (new & M & _ & _ & Ws & _ & _ & Hn & Hl).
  assert (Hnew : forall x, In x new -> outcome_ok (r_calls w) x).
  { intros x X. destruct (Hn _ X) as (rid & k & -> & _). apply outcome_simple. auto. }
  apply (RInv_shrink w _ new _ _ _ _ HR (term_QInv _ HI W) M Hnew (subseq_nil _) (subseq_nil _)).
  - discriminate.
  - rewrite Ws, W. discriminate.
  - reflexivity.
  - reflexivity.
  - intros r k. apply (no_wait_of_locks _ Hl).
  - discriminate.
Qed.

Lemma rinv_reconnect_ok w : RInv w -> r_rd w = false -> q_ws (r_cl w) <> RClosed ->
  q_has_locked (r_cl w) = false ->
  RInv (mkRW (sl_connect_ok (r_cl w)) true true [] [] (r_calls w)).
Proof.
  intros HR Rd W L. pose proof (ri_q _ HR) as HI.
  assert (M : qmono (r_cl w) (sl_connect_ok (r_cl w)) []).
  { apply same_req_qmono. repeat split. }
  assert (Hnew : forall x, In x [] -> outcome_ok (r_calls w) x) by (intros x []).
  apply (RInv_shrink w _ [] _ _ _ _ HR (connect_ok_QInv _ HI W L) M Hnew (subseq_nil _) (subseq_nil _)).
  - reflexivity.
  - reflexivity.
  - discriminate.
  - discriminate.
  - reflexivity.
  - intros _ r k X Y. pose proof (ri_wait _ HR _ _ X Y) as Z. rewrite Rd in Z. discriminate.
Qed.

Lemma rinv_reconnect_fail w : RInv w -> r_rd w = false -> q_ws (r_cl w) <> RClosed ->
  RInv (mkRW (sl_connect_fail (r_cl w)) false false [] [] (r_calls w)).
Proof.
  intros HR Rd W. pose proof (ri_q _ HR) as HI. set (q := r_cl w) in *.
  unfold sl_connect_fail. set (q0 := q <| q_ws := RDown |>).
  assert (SR : same_req q q0) by (repeat split).
  assert (ND : NoDup (prids q0)) by apply (qi_pnd _ HI).
  pose proof (qmono_trans0 _ _ _ _ (same_req_qmono _ _ SR) (release_qmono q0 E_down ND)) as M.
  destruct (release_scalars q0 E_down) as (Ws & _).
  assert (Hnew : forall x, In x (release_new q0 E_down) -> outcome_ok (r_calls w) x).
  { intros x X. apply release_new_in in X as (rid & lc & -> & _). apply outcome_simple.
    do 4 right. do 3 right. left. reflexivity. }
  apply (RInv_shrink w _ _ _ _ _ _ HR (connect_fail_QInv _ HI W) M Hnew (subseq_nil _) (subseq_nil _)).
  - discriminate.
  - change (sl_connect_fail q) with (q_release_locked q0 E_down). rewrite Ws. cbn. discriminate.
  - reflexivity.
  - reflexivity.
  - intros r k X Y. pose proof (wait_parked_sub _ _ _ _ _ HR M X Y) as Z. fold q in Z. 
    change (r_rd w = true) in Z. rewrite Rd in Z. discriminate.
  - discriminate.
Qed.

Lemma rinv_break w keep : RInv w ->
  RInv (mkRW (r_cl w) (r_rd w) false [] (firstn keep (r_b2c w)) (r_calls w)).
Proof.
  intros HR. pose proof (ri_q _ HR) as HI.
  assert (Hnew : forall x, In x [] -> outcome_ok (r_calls w) x) by (intros x []).
  apply (RInv_shrink w _ [] _ _ _ _ HR HI (qmono_refl _) Hnew (subseq_nil _) (subseq_firstn _ _)).
  - discriminate.
  - apply (ri_up _ HR).
  - intros X. apply firstn_nil_of, (ri_norx _ HR), X.
  - reflexivity.
  - apply (ri_wait _ HR).
  - discriminate.
Qed.

Lemma orgs_cons d rest :
  orgs (d :: rest) = (match dorg d with Some u => [u] | None => [] end) ++ orgs rest.
Proof. reflexivity. Qed.

Lemma orgs_app l1 l2 : orgs (l1 ++ l2) = orgs l1 ++ orgs l2.
Proof. unfold orgs. apply flat_map_app. Qed.

Lemma rinv_deliver_keep w d rest : RInv w -> r_rd w = true -> r_b2c w = d :: rest ->
  RInv (mkRW (fst (sl_dispatch (r_cl w) d)) true (r_alive w) (r_c2b w) rest (r_calls w)).
Proof.
  intros HR Rd B. pose proof (ri_q _ HR) as HI.
  destruct (dispatch_spec w d HR) as (new & M & HQ & Ws & Hnew & _).
  assert (S2 : subseq rest (r_b2c w)) by (rewrite B; apply subseq_tl).
  apply (RInv_shrink w _ new _ _ _ _ HR HQ M Hnew (subseq_refl _) S2).
  - rewrite Ws. apply (ri_alive _ HR).
  - reflexivity.
  - discriminate.
  - apply (ri_dead _ HR).
  - reflexivity.
  - intros A rid k X Y. pose proof (qmono_parked _ _ _ _ M X) as Xq.
    pose proof (ri_cover _ HR A _ _ Xq Y) as Cv. unfold inflight in Cv. rewrite B, orgs_cons in Cv.
    rewrite !map_app, !in_app_iff in *. destruct Cv as [Cv|[Cv|Cv]]; auto.
    exfalso. destruct (dorg d) as [u|] eqn:O; [|contradiction]. destruct Cv as [Cv|[]]. cbn in Cv. subst rid.
    assert (Uin : In u (inflight w)).
    { unfold inflight. rewrite B, orgs_cons, O. apply in_app_iff. right. left. reflexivity. }
    destruct (ri_item _ HR _ Uin) as [L|D].
    + assert (Din : In d (r_b2c w)) by (rewrite B; left; reflexivity).
      destruct (ri_gen _ HR _ _ Din O) as (codes & An).
      assert (Hne : forall rid pid fs, u = UReq rid pid (Some fs) -> fs <> []).
      { intros r p fs ->. destruct (ri_req _ HR _ _ _ Uin) as [_ Z]. exact (Z _ eq_refl). }
      destruct (deliver_own _ _ _ _ HI L Hne An) as [Z _]. apply Z. eapply in_prids, X.
    + exact (qi_disj _ HI _ (in_prids _ _ _ Xq) D).
Qed.

Lemma rinv_deliver_reset w d rest : RInv w -> r_rd w = true -> r_b2c w = d :: rest ->
  q_ws (fst (sl_dispatch (r_cl w) d)) <> RClosed ->
  RInv (mkRW (sl_offline (fst (sl_dispatch (r_cl w) d))) false false [] [] (r_calls w)).
Proof.
  intros HR Rd B W. exact (rinv_offline _ (rinv_deliver_keep w d rest HR Rd B) W).
Qed.

(* the broker *)
Lemma nth_error_split' {A} (l : list A) i u : nth_error l i = Some u ->
  l = firstn i l ++ u :: skipn (S i) l.
Proof.
  revert i. induction l as [|a l IH]; intros [|i] H; try discriminate.
  - inversion H. reflexivity.
  - cbn [firstn skipn app]. f_equal. apply IH, H.
Qed.

Lemma perm_answer {A} (l : list A) i u o : nth_error l i = Some u ->
  Permutation (remove_nth i l ++ o ++ [u]) (l ++ o).
Proof.
  intros H. rewrite (nth_error_split' l i u H) at 2. unfold remove_nth.
  rewrite <- !app_assoc. apply Permutation_app_head. cbn [app].
  rewrite app_assoc. apply Permutation_sym, Permutation_cons_append.
Qed.

Lemma rinv_answer w i codes u d : RInv w -> r_alive w = true ->
  nth_error (r_c2b w) i = Some u -> answer u codes = Some d ->
  RInv (mkRW (r_cl w) (r_rd w) true (remove_nth i (r_c2b w)) (r_b2c w ++ [d]) (r_calls w)).
Proof.
  intros HR A Nth An. pose proof (ri_q _ HR) as HI.
  assert (O : dorg d = Some u).
  { destruct u as [rid pid [fs|]|rid]; cbn [answer] in An;
      [destruct (_ && _); [|discriminate]| |]; inversion An; reflexivity. }
  assert (P : Permutation (remove_nth i (r_c2b w) ++ orgs (r_b2c w ++ [d])) (inflight w)).
  { rewrite orgs_app. cbn [orgs flat_map]. rewrite O. cbn [app]. apply perm_answer, Nth. }
  assert (Pin : forall x, In x (remove_nth i (r_c2b w) ++ orgs (r_b2c w ++ [d])) -> In x (inflight w)).
  { intros x. apply Permutation_in, P. }
  pose proof (ri_alive _ HR A) as Up. pose proof (ri_up _ HR Up) as Rd.
  split; cbn [r_cl r_rd r_alive r_c2b r_b2c r_calls]; unfold inflight; cbn [r_c2b r_b2c];
    try solve [apply HR].
  - intros _. exact Up.
  - intros X. rewrite Rd in X. discriminate.
  - discriminate.
  - intros x X. apply (ri_item _ HR), Pin, X.
  - intros d0 u0 X. apply in_app_iff in X as [X|[<-|[]]]; [apply (ri_gen _ HR), X|].
    intros Y. rewrite O in Y. inversion Y; subst. eauto.
  - intros rid pid k X. apply (ri_req _ HR _ pid), Pin, X.
  - eapply Permutation_NoDup; [apply Permutation_sym, Permutation_map, P|apply (ri_tags _ HR)].
  - intros x X. apply (ri_tags_lt _ HR), Pin, X.
  - intros _ rid k X Y. pose proof (ri_cover _ HR A _ _ X Y) as Z.
    eapply Permutation_in; [apply Permutation_sym, Permutation_map, P|exact Z].
Qed.

Lemma rinv_forge w d : RInv w -> r_alive w = true -> dorg d = None ->
  RInv (mkRW (r_cl w) (r_rd w) true (r_c2b w) (r_b2c w ++ [d]) (r_calls w)).
Proof.
  intros HR A O.
  assert (E : r_c2b w ++ orgs (r_b2c w ++ [d]) = inflight w).
  { rewrite orgs_app. cbn [orgs flat_map]. rewrite O. cbn [app]. rewrite app_nil_r. reflexivity. }
  pose proof (ri_alive _ HR A) as Up. pose proof (ri_up _ HR Up) as Rd.
  split; cbn [r_cl r_rd r_alive r_c2b r_b2c r_calls]; unfold inflight; cbn [r_c2b r_b2c]; rewrite ?E;
    try solve [apply HR].
  - intros _. exact Up.
  - intros X. rewrite Rd in X. discriminate.
  - discriminate.
  - intros d0 u0 X. apply in_app_iff in X as [X|[<-|[]]]; [apply (ri_gen _ HR), X|].
    intros Y. rewrite O in Y. discriminate.
  - intros _. apply (ri_cover _ HR A).
Qed.

(* the calls *)
Lemma live_grow q q' u :
  incl (q_txs q) (q_txs q') -> incl (q_parked q) (q_parked q') ->
  (forall r, q_ping q = Some r -> q_ping q' = Some r) -> live q u -> live q' u.
Proof.
  intros T P Pg. destruct u as [rid pid k|rid]; cbn [live]; intros [A B]; split; auto.
Qed.

Lemma rinv_call_err w q' e cl alive' c2b' :
  RInv w -> QInv q' -> call_err e -> (forall k n, cl <> CallTx k n) -> q_txn (r_cl w) <= q_txn q' ->
  q_nextr q' = N.succ (q_nextr (r_cl w)) -> q_txs q' = q_txs (r_cl w) -> q_ping q' = q_ping (r_cl w) ->
  q_parked q' = q_parked (r_cl w) -> q_done q' = q_done (r_cl w) ->
  (q_ws q' = q_ws (r_cl w) \/ (q_ws (r_cl w) = RUp /\ q_ws q' = RPending)) ->
  ((alive' = false /\ c2b' = []) \/ (alive' = r_alive w /\ c2b' = r_c2b w /\ q_ws q' = q_ws (r_cl w))) ->
  RInv (mkRW (q' <| q_done ::= cons (q_nextr (r_cl w), e, []) |>) (r_rd w) alive' c2b' (r_b2c w)
             ((q_nextr (r_cl w), cl) :: r_calls w)).
Proof.
  intros HR HQ He Hcl Htn Nx T Pg Pk D W Hw. pose proof (ri_q _ HR) as HI. set (q := r_cl w) in *.
  set (rid := q_nextr q) in *.
  assert (Fr : forall x, x < rid -> x <> rid) by (intros; lia).
  assert (Sc : subseq c2b' (r_c2b w)).
  { destruct Hw as [(_ & ->)|(_ & -> & _)]; [apply subseq_nil|apply subseq_refl]. }
  assert (SI : subseq (c2b' ++ orgs (r_b2c w)) (inflight w)).
  { apply subseq_app; [exact Sc|apply subseq_refl]. }
  assert (HQ'' : QInv (q' <| q_done ::= cons (rid, e, []) |>)).
  { pose proof (QInv_log_return q' e HQ) as X. rewrite Nx, N.pred_succ in X. apply X.
    - lia.
    - unfold prids. rewrite Pk. intros Y. exact (Fr _ (qi_plt _ HI _ Y) eq_refl).
    - unfold drids. rewrite D. intros Y. exact (Fr _ (qi_dlt _ HI _ Y) eq_refl). }
  split; cbn [r_cl r_rd r_alive r_c2b r_b2c r_calls]; unfold inflight; cbn [r_c2b r_b2c].
  - exact HQ''.
  - change (q_ws (q' <| q_done ::= cons (rid, e, []) |>)) with (q_ws q').
    destruct Hw as [(-> & _)|(-> & _ & ->)]; [discriminate|apply (ri_alive _ HR)].
  - change (q_ws (q' <| q_done ::= cons (rid, e, []) |>)) with (q_ws q').
    destruct W as [->|(_ & ->)]; [apply (ri_up _ HR)|discriminate].
  - apply (ri_norx _ HR).
  - destruct Hw as [(_ & ->)|(-> & -> & _)]; [reflexivity|apply (ri_dead _ HR)].
  - change (q_parked (q' <| q_done ::= cons (rid, e, []) |>)) with (q_parked q'). rewrite Pk.
    apply (ri_wait _ HR).
  - intros u X. destruct (ri_item _ HR u (subseq_in _ _ _ SI X)) as [L|Dn].
    + left. revert L. apply live_grow; cbn; rewrite ?T, ?Pk, ?Pg; auto using incl_refl.
    + right. unfold drids. cbn [q_done map]. right. rewrite D. exact Dn.
  - apply (ri_gen _ HR).
  - intros r pid k X. destruct (ri_req _ HR _ _ _ (subseq_in _ _ _ SI X)) as [(n & A1 & A2) B].
    split; [exists n; split; [right; exact A1|exact A2]|exact B].
  - eapply subseq_NoDup; [apply subseq_map, SI|apply (ri_tags _ HR)].
  - intros u X. change (q_nextr (q' <| q_done ::= cons (rid, e, []) |>)) with (q_nextr q'). rewrite Nx.
    specialize (ri_tags_lt _ HR u (subseq_in _ _ _ SI X)). fold q. fold rid. lia.
  - intros A r k X Y. change (q_parked (q' <| q_done ::= cons (rid, e, []) |>)) with (q_parked q') in X.
    rewrite Pk in X. destruct Hw as [(-> & _)|(-> & -> & _)]; [discriminate|]. exact (ri_cover _ HR A _ _ X Y).
  - cbn [map fst]. constructor; [|apply (ri_calls_nd _ HR)]. intros X. exact (Fr _ (ri_calls_lt _ HR _ X) eq_refl).
  - change (q_nextr (q' <| q_done ::= cons (rid, e, []) |>)) with (q_nextr q'). rewrite Nx.
    intros r [<-|X]; [cbn; lia|]. specialize (ri_calls_lt _ HR _ X). fold q. fold rid. lia.
  - change (q_txs (q' <| q_done ::= cons (rid, e, []) |>)) with (q_txs q'). rewrite T.
    intros pid r k X. destruct (ri_entry _ HR _ _ _ X) as (n & A1 & A2). exists n. split; [right; exact A1|exact A2].
  - change (q_txn (q' <| q_done ::= cons (rid, e, []) |>)) with (q_txn q').
    intros r k n [X|X]; [inversion X; subst; exfalso; eapply Hcl; reflexivity|].
    specialize (ri_ctr_lt _ HR _ _ _ X). fold q. lia.
  - intros r1 k1 r2 k2 n [X|X] [Y|Y]; try (inversion X; subst; exfalso; eapply Hcl; reflexivity);
      try (inversion Y; subst; exfalso; eapply Hcl; reflexivity).
    exact (ri_ctr_inj _ HR _ _ _ _ _ X Y).
  - intros x [<-|X].
    + apply outcome_simple. auto.
    + rewrite D in X. apply outcome_ok_mono, (ri_done _ HR), X.
  - change (q_nextr (q' <| q_done ::= cons (rid, e, []) |>)) with (q_nextr q'). rewrite Nx.
    unfold prids, drids. change (q_parked (q' <| q_done ::= cons (rid, e, []) |>)) with (q_parked q').
    change (q_done (q' <| q_done ::= cons (rid, e, []) |>)) with ((rid, e, []) :: q_done q').
    cbn [map]. rewrite Pk, D. intros r X. destruct (N.eq_dec r rid) as [->|Ne]; [right; left; reflexivity|].
    destruct (ri_all _ HR r) as [Z|Z]; [fold q; fold rid; lia|left; exact Z|right; right; exact Z].
Qed.

Lemma rinv_call_park w q' cl k0 u (sent : bool) :
  RInv w -> QInv q' ->
  q_nextr q' = N.succ (q_nextr (r_cl w)) -> q_ws q' = q_ws (r_cl w) -> q_done q' = q_done (r_cl w) ->
  q_parked q' = (q_nextr (r_cl w), k0) :: q_parked (r_cl w) ->
  q_txn (r_cl w) <= q_txn q' ->
  (forall k n, cl = CallTx k n -> q_txn (r_cl w) <= n < q_txn q') ->
  (forall pid r k, In (pid, r, k) (q_txs q') ->
     In (pid, r, k) (q_txs (r_cl w)) \/
     (r = q_nextr (r_cl w) /\ exists n, cl = CallTx k n /\ pid = cand (space_k k) n)) ->
  (forall u0, In u0 (inflight w) -> live (r_cl w) u0 -> live q' u0) ->
  (is_wait k0 = true -> q_ws (r_cl w) = RUp) ->
  (sent = true -> utag u = q_nextr (r_cl w) /\ live q' u /\ r_alive w = true /\
                  forall r pid k, u = UReq r pid k ->
                    (exists n, cl = CallTx k n /\ pid = cand (space_k k) n) /\
                    forall fs, k = Some fs -> fs <> []) ->
  (is_wait k0 = true -> r_alive w = true -> sent = true) ->
  RInv (mkRW q' (r_rd w) (r_alive w) (if sent then r_c2b w ++ [u] else r_c2b w) (r_b2c w)
             ((q_nextr (r_cl w), cl) :: r_calls w)).
Proof.
  intros HR HQ Nx Ws D Pk Htn Hctr Tx Lv Hup Hs Hcov. pose proof (ri_q _ HR) as HI. set (q := r_cl w) in *.
  set (rid := q_nextr q) in *.
  assert (Fr : forall x, x < rid -> x <> rid) by (intros; lia).
  assert (Inf : forall x, In x ((if sent then r_c2b w ++ [u] else r_c2b w) ++ orgs (r_b2c w)) ->
                  In x (inflight w) \/ (sent = true /\ x = u)).
  { intros x X. unfold inflight. destruct sent; [|left; exact X].
    rewrite !in_app_iff in *. cbn [In] in X. intuition. }
  split; cbn [r_cl r_rd r_alive r_c2b r_b2c r_calls]; unfold inflight; cbn [r_c2b r_b2c].
  - exact HQ.
  - rewrite Ws. apply (ri_alive _ HR).
  - rewrite Ws. apply (ri_up _ HR).
  - apply (ri_norx _ HR).
  - intros A. destruct sent; [|apply (ri_dead _ HR), A].
    destruct (Hs eq_refl) as (_ & _ & B & _). rewrite A in B. discriminate.
  - rewrite Pk. intros r k [X|X] Y; [inversion X; subst; apply (ri_up _ HR), Hup, Y|exact (ri_wait _ HR _ _ X Y)].
  - intros x X. destruct (Inf _ X) as [Y|(S & ->)].
    + destruct (ri_item _ HR _ Y) as [L|Dn]; [left; exact (Lv _ Y L)|right; unfold drids; rewrite D; exact Dn].
    + left. apply (Hs S).
  - apply (ri_gen _ HR).
  - intros r pid k X. destruct (Inf _ X) as [Y|(S & E)].
    + destruct (ri_req _ HR _ _ _ Y) as [(n & A1 & A2) B].
      split; [exists n; split; [right; exact A1|exact A2]|exact B].
    + destruct (Hs S) as (Tg & _ & _ & Hk). destruct (Hk _ _ _ (eq_sym E)) as [(n & -> & A2) B].
      split; [|exact B]. exists n. split; [|exact A2]. left. rewrite <- E in Tg. cbn in Tg. rewrite Tg. reflexivity.
  - destruct sent; [|apply (ri_tags _ HR)].
    destruct (Hs eq_refl) as (Tg & _).
    assert (P : Permutation ((r_c2b w ++ [u]) ++ orgs (r_b2c w)) (u :: inflight w)).
    { unfold inflight. rewrite <- app_assoc. cbn [app].
      apply Permutation_sym. apply (Permutation_middle (r_c2b w) (orgs (r_b2c w)) u). }
    eapply Permutation_NoDup; [apply Permutation_sym, Permutation_map, P|]. cbn [map].
    constructor; [|apply (ri_tags _ HR)]. rewrite Tg. intros X.
    apply in_map_iff in X as (x & E & X). specialize (ri_tags_lt _ HR _ X). fold q. fold rid. rewrite E. lia.
  - intros x X. rewrite Nx. destruct (Inf _ X) as [Y|(S & ->)].
    + specialize (ri_tags_lt _ HR _ Y). fold q. fold rid. lia.
    + destruct (Hs S) as (-> & _). lia.
  - rewrite Pk. intros A r k [X|X] Y.
    + inversion X; subst r k. specialize (Hcov Y A). subst sent. destruct (Hs eq_refl) as (Tg & _).
      rewrite <- Tg. apply in_map. rewrite !in_app_iff. left. right. left. reflexivity.
    + pose proof (ri_cover _ HR A _ _ X Y) as Z. unfold inflight in Z. destruct sent; [|exact Z].
      rewrite map_app, in_app_iff in *. destruct Z as [Z|Z]; [left|right; exact Z].
      rewrite map_app, in_app_iff. left. exact Z.
  - cbn [map fst]. constructor; [|apply (ri_calls_nd _ HR)]. intros X. exact (Fr _ (ri_calls_lt _ HR _ X) eq_refl).
  - rewrite Nx. intros r [<-|X]; [cbn; lia|]. specialize (ri_calls_lt _ HR _ X). fold q. fold rid. lia.
  - intros pid r k X. destruct (Tx _ _ _ X) as [Y|(-> & n & -> & A2)].
    + destruct (ri_entry _ HR _ _ _ Y) as (n & A1 & A2). exists n. split; [right; exact A1|exact A2].
    + exists n. split; [left; reflexivity|exact A2].
  - intros r k n [X|X].
    + inversion X; subst. apply (Hctr _ _ eq_refl).
    + specialize (ri_ctr_lt _ HR _ _ _ X). fold q. lia.
  - intros r1 k1 r2 k2 n [X|X] [Y|Y].
    + inversion X; inversion Y; congruence.
    + inversion X; subst. exfalso. specialize (ri_ctr_lt _ HR _ _ _ Y). destruct (Hctr _ _ eq_refl). fold q. lia.
    + inversion Y; subst. exfalso. specialize (ri_ctr_lt _ HR _ _ _ X). destruct (Hctr _ _ eq_refl). fold q. lia.
    + exact (ri_ctr_inj _ HR _ _ _ _ _ X Y).
  - intros x X. rewrite D in X. apply outcome_ok_mono, (ri_done _ HR), X.
  - rewrite Nx. unfold prids, drids. rewrite Pk, D. cbn [map fst]. intros r X.
    destruct (N.eq_dec r rid) as [->|Ne]; [left; left; reflexivity|].
    destruct (ri_all _ HR r) as [Z|Z]; [fold q; fold rid; lia|left; right; exact Z|right; exact Z].
Qed.

Lemma closed_by_write_spec q q' :
  (q_ws q' = q_ws q \/ (q_ws q = RUp /\ q_ws q' = RPending)) ->
  if closed_by_write q q' then True else q_ws q' = q_ws q.
Proof.
  unfold closed_by_write. intros [E|(A & B)].
  - rewrite E. destruct (q_ws q); auto.
  - rewrite A, B. exact I.
Qed.

Lemma rinv_sub w sub fs wr w' : RInv w ->
  (let '(q', r) := sl_subscribe (r_cl w) sub fs wr in
   exec_call w q' r (CallTx (kind_of sub fs) (N.pred (q_txn q'))) (CallFail (kind_of sub fs))
             (fun rid => UReq rid (new_pid q') (kind_of sub fs))) = Some w' ->
  RInv w'.
Proof.
  intros HR. pose proof (ri_q _ HR) as HI.
  pose proof (sub_cases (r_cl w) sub fs wr) as HC.
  pose proof (sub_case_QInv _ _ _ _ _ _ HI HC) as HQ.
  destruct (sl_subscribe (r_cl w) sub fs wr) as [q' r]. cbn [fst snd] in HC, HQ.
  unfold exec_call.
  destruct HC as [e He C Nx Tn T Pg Pk D W|pid n Hne Hfresh Hnz Hlt Hsp Hn Hn' Ep W C Nx T Pg D Hpk].
  - assert (W' : q_ws q' = q_ws (r_cl w) \/ (q_ws (r_cl w) = RUp /\ q_ws q' = RPending)) by tauto.
    pose proof (closed_by_write_spec _ _ W') as CB.
    destruct (closed_by_write (r_cl w) q'); intros [= <-];
      apply rinv_call_err; try assumption; try discriminate; [left; auto|right; auto].
  - assert (Lv : forall u0, In u0 (inflight w) -> live (r_cl w) u0 -> live q' u0).
    { intros u0 _. apply live_grow; rewrite ?T, ?Pg; auto.
      - apply incl_tl, incl_refl.
      - destruct Hpk as [(_ & _ & ->)|(_ & ->)]; apply incl_tl, incl_refl. }
    assert (En : N.pred (q_txn q') = n) by lia. rewrite En.
    assert (Tx : forall pid0 r0 k, In (pid0, r0, k) (q_txs q') ->
              In (pid0, r0, k) (q_txs (r_cl w)) \/
              (r0 = q_nextr (r_cl w) /\ exists n0, CallTx (kind_of sub fs) n = CallTx k n0 /\
                                                   pid0 = cand (space_k k) n0)).
    { intros pid0 r0 k X. rewrite T in X. destruct X as [X|X]; [|auto].
      injection X as <- <- <-. right. split; [reflexivity|]. exists n. auto. }
    assert (Hctr : forall k n0, CallTx (kind_of sub fs) n = CallTx k n0 -> q_txn (r_cl w) <= n0 < q_txn q').
    { intros k n0 [= _ <-]. lia. }
    assert (Np : new_pid q' = pid) by (unfold new_pid; rewrite T; reflexivity).
    destruct Hpk as [(U & -> & Pk)|(U & Pk)]; rewrite U; intros [= <-].
    + rewrite Np. apply (rinv_call_park w q' _ (waitk pid (kind_of sub fs)) _ (r_alive w)); try assumption.
      * lia.
      * intros _. exact U.
      * intros A. split; [reflexivity|]. split; [|split; [exact A|]].
        -- cbn [live]. rewrite T, Pk. split; left; reflexivity.
        -- intros r0 pid0 k [= _ <- <-]. split; [exists n; auto|].
           intros fs0 E. destruct sub; [|discriminate]. inversion E; subst. exact Hne.
      * auto.
    + apply (rinv_call_park w q' _ (PkLock (LcTx pid)) (UPing 0) false); try assumption; try discriminate. lia.
Qed.

Lemma rinv_ping w wr w' : RInv w ->
  (let '(q', r) := sl_ping (r_cl w) wr in exec_call w q' r CallPing CallPing UPing) = Some w' -> RInv w'.
Proof.
  intros HR. pose proof (ri_q _ HR) as HI.
  pose proof (ping_cases (r_cl w) wr) as HC.
  pose proof (ping_case_QInv _ _ _ _ HI HC) as HQ.
  destruct (sl_ping (r_cl w) wr) as [q' r]. cbn [fst snd] in HC, HQ.
  unfold exec_call.
  destruct HC as [e He C Nx Tn T Pg Pk D W|P0 W C Nx Tn T Pg D Hpk].
  - assert (W' : q_ws q' = q_ws (r_cl w) \/ (q_ws (r_cl w) = RUp /\ q_ws q' = RPending)) by tauto.
    pose proof (closed_by_write_spec _ _ W') as CB.
    destruct (closed_by_write (r_cl w) q'); intros [= <-];
      apply rinv_call_err; try assumption; try discriminate; try (rewrite Tn; reflexivity);
      [left; auto|right; auto].
  - assert (Lv : forall u0, In u0 (inflight w) -> live (r_cl w) u0 -> live q' u0).
    { intros u0 _. apply live_grow; rewrite ?T; auto using incl_refl.
      - destruct Hpk as [(_ & _ & ->)|(_ & ->)]; apply incl_tl, incl_refl.
      - intros r0 X. rewrite P0 in X. discriminate. }
    assert (Tx : forall pid0 r0 k, In (pid0, r0, k) (q_txs q') ->
              In (pid0, r0, k) (q_txs (r_cl w)) \/
              (r0 = q_nextr (r_cl w) /\ exists n0, CallPing = CallTx k n0 /\ pid0 = cand (space_k k) n0)).
    { intros pid0 r0 k X. rewrite T in X. auto. }
    destruct Hpk as [(U & -> & Pk)|(U & Pk)]; rewrite U; intros [= <-].
    + apply (rinv_call_park w q' _ PkPing _ (r_alive w)); try assumption; try discriminate.
      * rewrite Tn. reflexivity.
      * intros _. exact U.
      * intros A. split; [reflexivity|]. split; [|split; [exact A|]].
        -- cbn [live]. rewrite Pg, Pk. split; [reflexivity|left; reflexivity].
        -- intros r0 pid0 k X. discriminate.
      * auto.
    + apply (rinv_call_park w q' _ (PkLock LcPing) (UPing 0) false); try assumption; try discriminate.
      rewrite Tn. reflexivity.
Qed.

Lemma QInv_init : QInv (mkRcl RPending false 0 0 [] None [] []).
Proof.
  split; cbn; try constructor; try (intros; contradiction); try discriminate.
Qed.

Lemma rinv_init : RInv rinit.
Proof.
  split; cbn; try apply QInv_init; try constructor; try (intros; contradiction); try discriminate; auto.
  intros; lia.
Qed.

Theorem rinv_exec : forall w a w', RInv w -> rexec w a = Some w' -> RInv w'.
Proof.
  intros w a w' HR E. destruct a as [fs wr|fs wr|wr|rid|keep| | | |ok| |keep|i codes|d]; cbn [rexec] in E.
  - exact (rinv_sub w true fs wr w' HR E).
  - exact (rinv_sub w false fs wr w' HR E).
  - exact (rinv_ping w wr w' HR E).
  - inversion E; subst. apply rinv_quit, HR.
  - destruct (q_closed (r_cl w)) eqn:C; inversion E; subst; [exact HR|]. apply rinv_close; assumption.
  - destruct (q_ws (r_cl w)) eqn:U; inversion E; subst. apply rinv_wfail; assumption.
  - destruct (r_rd w) eqn:Rd; [|discriminate]. destruct (r_b2c w) as [|d rest] eqn:B; [discriminate|].
    pose proof (rinv_deliver_keep w d rest HR Rd B) as K.
    pose proof (rinv_deliver_reset w d rest HR Rd B) as R.
    destruct (dispatch_spec w d HR) as (_ & _ & _ & _ & _ & Hh).
    destruct (sl_dispatch (r_cl w) d) as [q1 h]. cbn [fst snd] in *.
    destruct Hh as [-> | ->]; [inversion E; subst; exact K|].
    destruct (q_ws q1) eqn:W1; inversion E; subst; try exact K; apply R; discriminate.
  - destruct (r_rd w); [|discriminate]. destruct (q_ws (r_cl w)) eqn:W; inversion E; subst;
      apply rinv_offline; try assumption; rewrite W; discriminate.
  - destruct (r_rd w) eqn:Rd; [discriminate|].
    destruct (q_ws (r_cl w)) eqn:W; try discriminate; destruct ok.
    1,3: destruct (q_has_locked (r_cl w)) eqn:L; [discriminate|]; inversion E; subst;
      apply rinv_reconnect_ok; try assumption; rewrite W; discriminate.
    all: inversion E; subst; apply rinv_reconnect_fail; try assumption; rewrite W; discriminate.
  - destruct (q_ws (r_cl w)) eqn:W; inversion E; subst. apply rinv_term; assumption.
  - destruct (r_alive w); inversion E; subst. apply rinv_break, HR.
  - destruct (r_alive w) eqn:A; [|discriminate]. destruct (nth_error (r_c2b w) i) as [u|] eqn:Nth; [|discriminate].
    destruct (answer u codes) as [d|] eqn:An; inversion E; subst. eapply rinv_answer; eassumption.
  - destruct (r_alive w) eqn:A; [|discriminate]. destruct (dorg d) eqn:O; inversion E; subst.
    apply rinv_forge; assumption.
Qed.

(* the invariant holds in every reachable state, with a conforming or a hostile broker *)
Theorem rworld_inv h : forall w, rreach h w -> RInv w.
Proof. induction 1 as [|w a w' _ IH [E _]]; [apply rinv_init|exact (rinv_exec _ _ _ IH E)]. Qed.

(* ================================================================== *)
(* 12. (a) Correlation                                                 *)

(* The client never looks at the ghost component of a packet: it cannot tell a genuine
   answer from a duplicate or a forgery carrying the same identifier and codes. *)
Theorem client_cannot_distinguish q d d' :
  match d, d' with
  | DSuback p c _, DSuback p' c' _ => p = p' /\ c = c'
  | DUnsuback p _, DUnsuback p' _ => p = p'
  | DPong _, DPong _ => True
  | _, _ => False
  end -> sl_dispatch q d = sl_dispatch q d'.
Proof. destruct d, d'; cbn; try contradiction; intros H; try destruct H; subst; reflexivity. Qed.

Lemma tx_remove_no_pid q pid : ~ In pid (qpids (q_tx_remove q pid)).
Proof.
  unfold qpids, q_tx_remove. cbn [q_txs]. intros X. apply in_map_iff in X as (t & E & X).
  apply filter_In in X as [_ X]. unfold tx_pid in E. rewrite E, N.eqb_refl in X. discriminate.
Qed.

(* SUBACK pid codes, any reachable state, any broker: either nobody returns, or exactly the
   request that holds identifier pid returns -- with the failed filters computed from ITS
   OWN filter list (the one of its Subscribe call) and these codes, or with ErrBreak and a
   protocol reset when the number of codes differs.  Afterwards the identifier is free and
   the request is no longer blocked. *)
Theorem suback_correlation h w pid codes : rreach h w ->
  q_done (fst (sl_suback (r_cl w) pid codes)) = q_done (r_cl w)
  \/ exists rid fs n,
       In (pid, rid, Some fs) (q_txs (r_cl w)) /\ In (rid, PkSub pid) (q_parked (r_cl w)) /\
       In (rid, CallTx (Some fs) n) (r_calls w) /\ pid = cand sub_space n /\
       (forall rid' k', In (pid, rid', k') (q_txs (r_cl w)) -> rid' = rid) /\
       ~ In pid (qpids (fst (sl_suback (r_cl w) pid codes))) /\
       ~ In rid (prids (fst (sl_suback (r_cl w) pid codes))) /\
       ((length fs = length codes /\ snd (sl_suback (r_cl w) pid codes) = HOk /\
         q_done (fst (sl_suback (r_cl w) pid codes))
         = (rid, ans_err (failed_filters fs codes), failed_filters fs codes) :: q_done (r_cl w))
        \/ (length fs <> length codes /\ snd (sl_suback (r_cl w) pid codes) = HErr E_proto /\
            q_done (fst (sl_suback (r_cl w) pid codes)) = (rid, E_break, []) :: q_done (r_cl w))).
Proof.
  intros Hr. pose proof (rworld_inv _ _ Hr) as HR. pose proof (ri_q _ HR) as HI.
  destruct (suback_cases _ pid codes HI) as (new & HC).
  destruct HC as [E _|_ E _|rid fs F N E|rid fs F P L E1 E2|rid fs F P L E1 E2]; try (left; rewrite E; reflexivity).
  - right. destruct (ri_entry _ HR _ _ _ F) as (n & Cn & Ep). exists rid, fs, n.
    split; [exact F|]. split; [exact P|]. split; [exact Cn|]. split; [exact Ep|].
    split; [intros r' k' X; destruct (QInv_entry_unique _ _ _ _ _ _ HI F X); auto|].
    rewrite E1. split; [apply tx_remove_no_pid|]. split; [apply not_in_filter_rid|].
    left. split; [exact L|]. split; [exact E2|reflexivity].
  - right. destruct (ri_entry _ HR _ _ _ F) as (n & Cn & Ep). exists rid, fs, n.
    split; [exact F|]. split; [exact P|]. split; [exact Cn|]. split; [exact Ep|].
    split; [intros r' k' X; destruct (QInv_entry_unique _ _ _ _ _ _ HI F X); auto|].
    rewrite E1. split; [apply tx_remove_no_pid|]. split; [apply not_in_filter_rid|].
    right. split; [exact L|]. split; [exact E2|reflexivity].
Qed.

Theorem unsuback_correlation h w pid : rreach h w ->
  q_done (fst (sl_unsuback (r_cl w) pid)) = q_done (r_cl w)
  \/ exists rid n,
       In (pid, rid, None) (q_txs (r_cl w)) /\ In (rid, PkUnsub pid) (q_parked (r_cl w)) /\
       In (rid, CallTx None n) (r_calls w) /\ pid = cand unsub_space n /\
       (forall rid' k', In (pid, rid', k') (q_txs (r_cl w)) -> rid' = rid) /\
       ~ In pid (qpids (fst (sl_unsuback (r_cl w) pid))) /\
       ~ In rid (prids (fst (sl_unsuback (r_cl w) pid))) /\
       snd (sl_unsuback (r_cl w) pid) = HOk /\
       q_done (fst (sl_unsuback (r_cl w) pid)) = (rid, E_nil, []) :: q_done (r_cl w).
Proof.
  intros Hr. pose proof (rworld_inv _ _ Hr) as HR. pose proof (ri_q _ HR) as HI.
  destruct (unsuback_cases _ pid HI) as (new & HC).
  destruct HC as [E _|_ E _|rid F N E _|rid F P E1 E2]; try (left; rewrite E; reflexivity).
  right. destruct (ri_entry _ HR _ _ _ F) as (n & Cn & Ep). exists rid, n.
  split; [exact F|]. split; [exact P|]. split; [exact Cn|]. split; [exact Ep|].
  split; [intros r' k' X; destruct (QInv_entry_unique _ _ _ _ _ _ HI F X); auto|].
  rewrite E1. split; [apply tx_remove_no_pid|]. split; [apply not_in_filter_rid|].
  split; [exact E2|reflexivity].
Qed.

(* at most one request returns per packet, except in a reset, where the others get ErrBreak *)
Lemma dispatch_new_small q d new : QInv q -> qmono q (fst (sl_dispatch q d)) new -> (length new <= 1)%nat.
Proof.
  intros HI M.
  assert (X : exists new', q_done (fst (sl_dispatch q d)) = new' ++ q_done q /\ (length new' <= 1)%nat).
  { destruct d as [pid codes o|pid o|o]; cbn [sl_dispatch].
    - destruct (suback_cases _ pid codes HI) as (n' & HC). exists n'.
      split; [exact (qm_done _ _ _ (suback_case_qmono _ _ _ _ _ _ HC))|]. destruct HC; cbn; lia.
    - destruct (unsuback_cases _ pid HI) as (n' & HC). exists n'.
      split; [exact (qm_done _ _ _ (unsuback_case_qmono _ _ _ _ _ HC))|]. destruct HC; cbn; lia.
    - destruct (pingresp_cases _ HI) as (_ & n' & HC). exists n'.
      split; [exact (qm_done _ _ _ (pingresp_case_qmono _ _ _ HC))|]. destruct HC; cbn; lia. }
  destruct X as (new' & E & L). rewrite (qm_done _ _ _ M) in E. apply app_inv_tail in E. subst. exact L.
Qed.

(* no response completes two requests: the handler of one packet makes at most one request
   return (in a protocol reset the others then get ErrBreak from toOffline, not the response) *)
Theorem one_return_per_packet h w d : rreach h w ->
  exists new, q_done (fst (sl_dispatch (r_cl w) d)) = new ++ q_done (r_cl w) /\ (length new <= 1)%nat.
Proof.
  intros Hr. pose proof (rworld_inv _ _ Hr) as HR. destruct (dispatch_spec w d HR) as (new & M & _).
  exists new. split; [exact (qm_done _ _ _ M)|exact (dispatch_new_small _ _ _ (ri_q _ HR) M)].
Qed.

(* A genuine answer (ghost: sent in response to the packet u of request [utag u]) makes a
   DIFFERENT request return only if its own request had already returned: it is a late
   answer.  Any broker. *)
Theorem answer_own_or_late h w d rest u : rreach h w ->
  r_b2c w = d :: rest -> dorg d = Some u ->
  forall x, In x (q_done (fst (sl_dispatch (r_cl w) d))) -> ~ In x (q_done (r_cl w)) ->
    rid3 x = utag u \/ In (utag u) (drids (r_cl w)).
Proof.
  intros Hr B O x X NX. pose proof (rworld_inv _ _ Hr) as HR. pose proof (ri_q _ HR) as HI.
  assert (Uin : In u (inflight w)).
  { unfold inflight. rewrite B, orgs_cons, O. apply in_app_iff. right. left. reflexivity. }
  destruct (ri_item _ HR _ Uin) as [L|D]; [left|right; exact D].
  assert (Din : In d (r_b2c w)) by (rewrite B; left; reflexivity).
  destruct (ri_gen _ HR _ _ Din O) as (codes & An).
  assert (Hne : forall rid pid fs, u = UReq rid pid (Some fs) -> fs <> []).
  { intros r p fs ->. destruct (ri_req _ HR _ _ _ Uin) as [_ Z]. exact (Z _ eq_refl). }
  destruct (deliver_own _ _ _ _ HI L Hne An) as [Gone _].
  destruct (dispatch_spec w d HR) as (new & M & _).
  pose proof (dispatch_new_small _ _ _ HI M) as Sm.
  assert (Tin : In (utag u) (map rid3 new)).
  { apply (qm_iff _ _ _ M). split; [|exact Gone]. destruct u; cbn [live utag] in *; destruct L as [_ L]; eapply in_prids, L. }
  rewrite (qm_done _ _ _ M) in X. apply in_app_iff in X as [X|X]; [|contradiction].
  destruct new as [|y [|z l]]; cbn in Sm; try lia; [contradiction|].
  destruct X as [<-|[]]. destruct Tin as [T|[]]. exact T.
Qed.

(* How a late answer can reach another request: only by identifier reuse.  If a genuine
   packet of request rid0 with identifier pid is still in flight while ANOTHER request rid1
   holds pid, then the two identifiers were picked at counter values at least 8192 apart:
   unorderedTxs.n went once round the 13-bit space in between (8191 other Subscribe /
   Unsubscribe calls got an identifier while the answer to rid0 was outstanding). *)
Theorem reuse_needs_wrap h w rid0 pid k0 rid1 k1 : rreach h w ->
  In (UReq rid0 pid k0) (inflight w) -> In (pid, rid1, k1) (q_txs (r_cl w)) -> rid1 <> rid0 ->
  exists n0 n1, In (rid0, CallTx k0 n0) (r_calls w) /\ In (rid1, CallTx k1 n1) (r_calls w) /\
    n0 < q_txn (r_cl w) /\ n1 < q_txn (r_cl w) /\ (n0 + 8192 <= n1 \/ n1 + 8192 <= n0).
Proof.
  intros Hr U T Ne. pose proof (rworld_inv _ _ Hr) as HR.
  destruct (ri_req _ HR _ _ _ U) as [(n0 & C0 & E0) _]. destruct (ri_entry _ HR _ _ _ T) as (n1 & C1 & E1).
  exists n0, n1. split; [exact C0|]. split; [exact C1|].
  split; [exact (ri_ctr_lt _ HR _ _ _ C0)|]. split; [exact (ri_ctr_lt _ HR _ _ _ C1)|].
  assert (Nn : n0 <> n1).
  { intros ->. apply Ne. exact (ri_ctr_inj _ HR _ _ _ _ _ C1 C0). }
  assert (S0 : un_space (space_k k0)) by (destruct k0; [left|right]; reflexivity).
  assert (S1 : un_space (space_k k1)) by (destruct k1; [left|right]; reflexivity).
  rewrite (cand_eq _ _ S0) in E0. rewrite (cand_eq _ _ S1) in E1.
  destruct S0 as [A0|A0], S1 as [A1|A1]; rewrite A0 in E0; rewrite A1 in E1;
    unfold sub_space, unsub_space in *; lia.
Qed.

(* ------------------------------------------------------------------ *)
(* The conforming broker                                               *)

Definition no_abandon (q : rcl) : Prop := forall x, In x (q_done q) -> err3 x <> E_abandoned.

(* with a conforming broker every packet from the broker answers a packet of the client,
   and -- as long as no request has been abandoned by quit -- the request of every packet
   in flight is still waiting for it *)
Record CInv (w : rworld) : Prop := mkCInv {
  ci_org : forall d, In d (r_b2c w) -> dorg d <> None;
  ci_live : no_abandon (r_cl w) -> forall u, In u (inflight w) -> live (r_cl w) u
}.

Lemma call_err_not_abandoned e : call_err e -> e <> E_abandoned.
Proof.
  intros [->|[->|[->|[->|(wr & _ & ->)]]]]; try (vm_compute; discriminate).
  destruct wr; vm_compute; discriminate.
Qed.

Lemma no_abandon_sub q q' : (exists new, q_done q' = new ++ q_done q) -> no_abandon q' -> no_abandon q.
Proof. intros (new & E) H x X. apply H. rewrite E. apply in_app_iff. right. exact X. Qed.

Lemma live_parked q u : live q u -> exists k, In (utag u, k) (q_parked q) /\ is_wait k = true.
Proof.
  destruct u as [rid pid [fs|]|rid]; cbn [live utag waitk]; intros [_ L]; eexists; split; try exact L; reflexivity.
Qed.

Lemma CInv_shrink w q' new rd' alive' c2b' b2c' :
  RInv w -> CInv w -> QInv q' -> qmono (r_cl w) q' new ->
  subseq c2b' (r_c2b w) -> subseq b2c' (r_b2c w) ->
  (no_abandon q' -> forall u, In u (c2b' ++ orgs b2c') -> live (r_cl w) u -> ~ In (utag u) (map rid3 new)) ->
  CInv (mkRW q' rd' alive' c2b' b2c' (r_calls w)).
Proof.
  intros HR HC HQ M S1 S2 Hn.
  assert (SI : subseq (c2b' ++ orgs b2c') (inflight w)).
  { apply subseq_app; [exact S1|apply subseq_flat_map, S2]. }
  split; cbn [r_cl r_b2c]; unfold inflight; cbn [r_c2b r_b2c].
  - intros d X. apply (ci_org _ HC). eapply subseq_in; eassumption.
  - intros NA u X.
    assert (NA0 : no_abandon (r_cl w)).
    { eapply no_abandon_sub; [|exact NA]. exists new. exact (qm_done _ _ _ M). }
    pose proof (ci_live _ HC NA0 u (subseq_in _ _ _ SI X)) as L.
    destruct (live_mono _ _ _ _ (ri_q _ HR) HQ M L) as [L'|Y]; [exact L'|].
    exfalso. exact (Hn NA u X L Y).
Qed.

(* a waiting caller is not one blocked in lockWrite *)
Lemma live_not_lock q u lc : QInv q -> live q u -> ~ In (utag u, PkLock lc) (q_parked q).
Proof.
  intros HI L X. destruct (live_parked _ _ L) as (k & Y & Wk).
  rewrite <- (QInv_parked_unique _ _ _ _ HI X Y) in Wk. discriminate.
Qed.

Theorem cinv_exec : forall w a w', RInv w -> CInv w -> rexec w a = Some w' -> is_forge a = false -> CInv w'.
Proof.
  intros w a w' HR HC E NF. pose proof (ri_q _ HR) as HI.
  assert (Hrel : forall q0 e, same_req (r_cl w) q0 -> forall u, live (r_cl w) u ->
                   ~ In (utag u) (map rid3 (release_new q0 e))).
  { intros q0 e SR u L X. rewrite release_new_rids, <- in_rev in X.
    apply in_lock_rids in X as (lc & X). destruct SR as (_ & _ & _ & _ & S5 & _). rewrite S5 in X.
    exact (live_not_lock _ _ _ HI L X). }
  destruct a as [fs wr|fs wr|wr|rid|keep| | | |ok| |keep|i codes|d]; cbn [rexec] in E; try discriminate NF.
  - (* Subscribe *)
    pose proof (sub_cases (r_cl w) true fs wr) as HS. pose proof (sub_case_QInv _ _ _ _ _ _ HI HS) as HQ.
    destruct (sl_subscribe (r_cl w) true fs wr) as [q' r]. cbn [fst snd] in HS, HQ. unfold exec_call in E.
    destruct HS as [e He C Nx Tn T Pg Pk D W|pid n Hne Hfresh Hnz Hlt Hsp Hn Hn' Ep W C Nx T Pg D Hpk].
    + assert (Lv : forall u, live (r_cl w) u -> live (q' <| q_done ::= cons (q_nextr (r_cl w), e, []) |>) u).
      { intros u. apply live_grow; cbn; rewrite ?T, ?Pk, ?Pg; auto using incl_refl. }
      assert (NA : no_abandon (q' <| q_done ::= cons (q_nextr (r_cl w), e, []) |>) -> no_abandon (r_cl w)).
      { intros H x X. apply H. right. rewrite D. exact X. }
      destruct (closed_by_write (r_cl w) q'); inversion E; subst; (split; [apply (ci_org _ HC)|]);
        intros H u X; apply Lv, (ci_live _ HC (NA H)); unfold inflight in *; cbn [r_c2b r_b2c] in *;
        [apply in_app_iff; right; exact X|exact X].
    + assert (Lv : forall u, live (r_cl w) u -> live q' u).
      { intros u. apply live_grow; rewrite ?T, ?Pg; auto; [apply incl_tl, incl_refl|].
        destruct Hpk as [(_ & _ & ->)|(_ & ->)]; apply incl_tl, incl_refl. }
      assert (NA : no_abandon q' -> no_abandon (r_cl w)) by (intros H x X; apply H; rewrite D; exact X).
      assert (Np : new_pid q' = pid) by (unfold new_pid; rewrite T; reflexivity).
      destruct Hpk as [(U & -> & Pk)|(U & Pk)]; rewrite U in E; inversion E; subst;
        (split; [apply (ci_org _ HC)|]); intros H u X; unfold inflight in X; cbn [r_c2b r_b2c] in X.
      * destruct (r_alive w); [|apply Lv, (ci_live _ HC (NA H)), X].
        rewrite <- app_assoc in X. apply in_app_iff in X as [X|X].
        -- apply Lv, (ci_live _ HC (NA H)). apply in_app_iff. left. exact X.
        -- destruct X as [<-|X].
           ++ cbn [r_cl live]. rewrite Np, T, Pk. split; left; reflexivity.
           ++ apply Lv, (ci_live _ HC (NA H)). apply in_app_iff. right. exact X.
      * apply Lv, (ci_live _ HC (NA H)), X.
  - (* Unsubscribe *)
    pose proof (sub_cases (r_cl w) false fs wr) as HS. pose proof (sub_case_QInv _ _ _ _ _ _ HI HS) as HQ.
    destruct (sl_subscribe (r_cl w) false fs wr) as [q' r]. cbn [fst snd] in HS, HQ. unfold exec_call in E.
    destruct HS as [e He C Nx Tn T Pg Pk D W|pid n Hne Hfresh Hnz Hlt Hsp Hn Hn' Ep W C Nx T Pg D Hpk].
    + assert (Lv : forall u, live (r_cl w) u -> live (q' <| q_done ::= cons (q_nextr (r_cl w), e, []) |>) u).
      { intros u. apply live_grow; cbn; rewrite ?T, ?Pk, ?Pg; auto using incl_refl. }
      assert (NA : no_abandon (q' <| q_done ::= cons (q_nextr (r_cl w), e, []) |>) -> no_abandon (r_cl w)).
      { intros H x X. apply H. right. rewrite D. exact X. }
      destruct (closed_by_write (r_cl w) q'); inversion E; subst; (split; [apply (ci_org _ HC)|]);
        intros H u X; apply Lv, (ci_live _ HC (NA H)); unfold inflight in *; cbn [r_c2b r_b2c] in *;
        [apply in_app_iff; right; exact X|exact X].
    + assert (Lv : forall u, live (r_cl w) u -> live q' u).
      { intros u. apply live_grow; rewrite ?T, ?Pg; auto; [apply incl_tl, incl_refl|].
        destruct Hpk as [(_ & _ & ->)|(_ & ->)]; apply incl_tl, incl_refl. }
      assert (NA : no_abandon q' -> no_abandon (r_cl w)) by (intros H x X; apply H; rewrite D; exact X).
      assert (Np : new_pid q' = pid) by (unfold new_pid; rewrite T; reflexivity).
      destruct Hpk as [(U & -> & Pk)|(U & Pk)]; rewrite U in E; inversion E; subst;
        (split; [apply (ci_org _ HC)|]); intros H u X; unfold inflight in X; cbn [r_c2b r_b2c] in X.
      * destruct (r_alive w); [|apply Lv, (ci_live _ HC (NA H)), X].
        rewrite <- app_assoc in X. apply in_app_iff in X as [X|X].
        -- apply Lv, (ci_live _ HC (NA H)). apply in_app_iff. left. exact X.
        -- destruct X as [<-|X].
           ++ cbn [r_cl live]. rewrite Np, T, Pk. split; left; reflexivity.
           ++ apply Lv, (ci_live _ HC (NA H)). apply in_app_iff. right. exact X.
      * apply Lv, (ci_live _ HC (NA H)), X.
  - (* Ping *)
    pose proof (ping_cases (r_cl w) wr) as HS. pose proof (ping_case_QInv _ _ _ _ HI HS) as HQ.
    destruct (sl_ping (r_cl w) wr) as [q' r]. cbn [fst snd] in HS, HQ. unfold exec_call in E.
    destruct HS as [e He C Nx Tn T Pg Pk D W|P0 W C Nx Tn T Pg D Hpk].
    + assert (Lv : forall u, live (r_cl w) u -> live (q' <| q_done ::= cons (q_nextr (r_cl w), e, []) |>) u).
      { intros u. apply live_grow; cbn; rewrite ?T, ?Pk, ?Pg; auto using incl_refl. }
      assert (NA : no_abandon (q' <| q_done ::= cons (q_nextr (r_cl w), e, []) |>) -> no_abandon (r_cl w)).
      { intros H x X. apply H. right. rewrite D. exact X. }
      destruct (closed_by_write (r_cl w) q'); inversion E; subst; (split; [apply (ci_org _ HC)|]);
        intros H u X; apply Lv, (ci_live _ HC (NA H)); unfold inflight in *; cbn [r_c2b r_b2c] in *;
        [apply in_app_iff; right; exact X|exact X].
    + assert (Lv : forall u, live (r_cl w) u -> live q' u).
      { intros u. apply live_grow; rewrite ?T; auto using incl_refl.
        - destruct Hpk as [(_ & _ & ->)|(_ & ->)]; apply incl_tl, incl_refl.
        - intros r0 X. rewrite P0 in X. discriminate. }
      assert (NA : no_abandon q' -> no_abandon (r_cl w)) by (intros H x X; apply H; rewrite D; exact X).
      destruct Hpk as [(U & -> & Pk)|(U & Pk)]; rewrite U in E; inversion E; subst;
        (split; [apply (ci_org _ HC)|]); intros H u X; unfold inflight in X; cbn [r_c2b r_b2c] in X.
      * destruct (r_alive w); [|apply Lv, (ci_live _ HC (NA H)), X].
        rewrite <- app_assoc in X. apply in_app_iff in X as [X|X].
        -- apply Lv, (ci_live _ HC (NA H)). apply in_app_iff. left. exact X.
        -- destruct X as [<-|X].
           ++ cbn [r_cl live]. rewrite Pg, Pk. split; [reflexivity|left; reflexivity].
           ++ apply Lv, (ci_live _ HC (NA H)). apply in_app_iff. right. exact X.
      * apply Lv, (ci_live _ HC (NA H)), X.
  - (* quit *)
    inversion E; subst. destruct (quit_cases _ rid HI) as (new & HQc).
    apply (CInv_shrink w _ new _ _ _ _ HR HC (quit_case_QInv _ _ _ _ HI HQc) (quit_case_qmono _ _ _ _ HQc)
                       (subseq_refl _) (subseq_refl _)).
    intros NA u X L Y.
    destruct HQc as [_ _|l P Eq|k pid P _ Eq|P Eq]; cbn in Y; try contradiction.
    + destruct Y as [Y|[]]. rewrite Y in P. exact (live_not_lock _ _ _ HI L P).
    + apply (NA (rid, E_abandoned, [])); [rewrite Eq; left; reflexivity|reflexivity].
    + apply (NA (rid, E_abandoned, [])); [rewrite Eq; left; reflexivity|reflexivity].
  - (* Close *)
    destruct (q_closed (r_cl w)) eqn:Cl; inversion E; subst; [exact HC|].
    set (q0 := r_cl w <| q_closed := true |> <| q_ws := RClosed |>).
    assert (Eq : sl_close (r_cl w) = q_release_locked q0 E_closed) by (unfold sl_close; rewrite Cl; reflexivity).
    assert (SR : same_req (r_cl w) q0) by (repeat split).
    assert (ND : NoDup (prids q0)) by apply (qi_pnd _ HI).
    pose proof (qmono_trans0 _ _ _ _ (same_req_qmono _ _ SR) (release_qmono q0 E_closed ND)) as M.
    rewrite Eq.
    apply (CInv_shrink w _ _ _ _ _ _ HR HC (eq_ind _ QInv (close_QInv _ HI) _ Eq) M (subseq_nil _) (subseq_firstn _ _)).
    intros _ u _ L. exact (Hrel q0 E_closed SR u L).
  - (* another caller's write fails *)
    destruct (q_ws (r_cl w)) eqn:U; inversion E; subst.
    assert (M : qmono (r_cl w) (r_cl w <| q_ws := RPending |>) []).
    { apply same_req_qmono. repeat split. }
    apply (CInv_shrink w _ [] _ _ _ _ HR HC (other_wfail_QInv _ HI U) M (subseq_nil _) (subseq_refl _)).
    intros _ u _ _ [].
  - (* deliver *)
    destruct (r_rd w) eqn:Rd; [|discriminate]. destruct (r_b2c w) as [|d rest] eqn:B; [discriminate|].
    destruct (dispatch_spec w d HR) as (new & M & HQ & Ws & _ & Hh).
    assert (Keep : CInv (mkRW (fst (sl_dispatch (r_cl w) d)) true (r_alive w) (r_c2b w) rest (r_calls w))).
    { assert (S2 : subseq rest (r_b2c w)) by (rewrite B; apply subseq_tl).
      apply (CInv_shrink w _ new _ _ _ _ HR HC HQ M (subseq_refl _) S2).
      intros NA u' X' L' Y'.
      assert (NA0 : no_abandon (r_cl w)).
      { eapply no_abandon_sub; [|exact NA]. exists new. exact (qm_done _ _ _ M). }
      assert (Din : In d (r_b2c w)) by (rewrite B; left; reflexivity).
      destruct (dorg d) as [u|] eqn:O; [|exact (ci_org _ HC d Din O)].
      assert (Uin : In u (inflight w)).
      { unfold inflight. rewrite B, orgs_cons, O. apply in_app_iff. right. left. reflexivity. }
      pose proof (ci_live _ HC NA0 u Uin) as L.
      destruct (ri_gen _ HR _ _ Din O) as (codes & An).
      assert (Hne : forall rid pid fs, u = UReq rid pid (Some fs) -> fs <> []).
      { intros r p fs ->. destruct (ri_req _ HR _ _ _ Uin) as [_ Z]. exact (Z _ eq_refl). }
      destruct (deliver_own _ _ _ _ HI L Hne An) as [Gone _].
      pose proof (dispatch_new_small _ _ _ HI M) as Sm.
      assert (Tin : In (utag u) (map rid3 new)).
      { apply (qm_iff _ _ _ M). split; [|exact Gone]. destruct (live_parked _ _ L) as (k & Y & _). eapply in_prids, Y. }
      assert (Et : utag u' = utag u).
      { destruct new as [|y [|z l]]; cbn in Sm; try lia; [contradiction|].
        destruct Tin as [T|[]]. destruct Y' as [T'|[]]. congruence. }
      (* two packets in flight with the same tag *)
      pose proof (ri_tags _ HR) as ND. unfold inflight in ND. rewrite B, orgs_cons, O in ND.
      rewrite map_app in ND. cbn [app map] in ND. apply NoDup_remove_2 in ND.
      apply ND. rewrite <- Et. rewrite <- map_app. apply in_map. exact X'. }
    destruct (sl_dispatch (r_cl w) d) as [q1 h]. cbn [fst snd] in *.
    destruct Hh as [-> | ->]; [inversion E; subst; exact Keep|].
    destruct (q_ws q1) eqn:W1; inversion E; subst; try exact Keep;
      (split; [intros d0 []|intros _ u0 []]).
  - (* toOffline *)
    destruct (r_rd w); [|discriminate]. destruct (q_ws (r_cl w)); inversion E; subst;
      (split; [intros d0 []|intros _ u0 []]).
  - (* connect *)
    destruct (r_rd w); [discriminate|].
    destruct (q_ws (r_cl w)); try discriminate; destruct ok;
      try (destruct (q_has_locked (r_cl w)); [discriminate|]); inversion E; subst;
      (split; [intros d0 []|intros _ u0 []]).
  - (* termCallbacks *)
    destruct (q_ws (r_cl w)); inversion E; subst. split; [intros d0 []|intros _ u0 []].
  - (* the connection dies *)
    destruct (r_alive w); inversion E; subst.
    apply (CInv_shrink w _ [] _ _ _ _ HR HC HI (qmono_refl _) (subseq_nil _) (subseq_firstn _ _)).
    intros _ u _ _ [].
  - (* the broker answers *)
    destruct (r_alive w) eqn:A; [|discriminate]. destruct (nth_error (r_c2b w) i) as [u|] eqn:Nth; [|discriminate].
    destruct (answer u codes) as [d|] eqn:An; inversion E; subst.
    assert (O : dorg d = Some u).
    { destruct u as [rid pid [fs|]|rid]; cbn [answer] in An;
        [destruct (_ && _); [|discriminate]| |]; inversion An; reflexivity. }
    split; cbn [r_cl r_b2c]; unfold inflight; cbn [r_c2b r_b2c].
    + intros d0 X. apply in_app_iff in X as [X|[<-|[]]]; [apply (ci_org _ HC), X|rewrite O; discriminate].
    + intros NA u0 X. apply (ci_live _ HC NA). eapply Permutation_in; [|exact X].
      rewrite orgs_app. cbn [orgs flat_map]. rewrite O. cbn [app]. apply perm_answer, Nth.
Qed.

Lemma cinv_init : CInv rinit.
Proof. split; [intros d []|intros _ u []]. Qed.

Theorem conforming_inv : forall w, rreach false w -> CInv w.
Proof.
  induction 1 as [|w a w' Hr IH [E F]]; [apply cinv_init|].
  apply (cinv_exec w a w' (rworld_inv _ _ Hr) IH E).
  destruct (is_forge a); [discriminate (F eq_refl)|reflexivity].
Qed.

(* Conforming broker, nobody abandoned so far: the packet the read routine handles next is
   the answer to a request that is still waiting for it; it makes exactly that request
   return and is never a protocol error. *)
Theorem conforming_exact w d rest : rreach false w -> no_abandon (r_cl w) -> r_b2c w = d :: rest ->
  exists u, dorg d = Some u /\ live (r_cl w) u /\ snd (sl_dispatch (r_cl w) d) = HOk /\
    exists e f, q_done (fst (sl_dispatch (r_cl w) d)) = (utag u, e, f) :: q_done (r_cl w).
Proof.
  intros Hr NA B. pose proof (rworld_inv _ _ Hr) as HR. pose proof (conforming_inv _ Hr) as HC.
  pose proof (ri_q _ HR) as HI.
  assert (Din : In d (r_b2c w)) by (rewrite B; left; reflexivity).
  destruct (dorg d) as [u|] eqn:O; [|exfalso; exact (ci_org _ HC d Din O)].
  exists u. split; [reflexivity|].
  assert (Uin : In u (inflight w)).
  { unfold inflight. rewrite B, orgs_cons, O. apply in_app_iff. right. left. reflexivity. }
  pose proof (ci_live _ HC NA u Uin) as L. split; [exact L|].
  destruct (ri_gen _ HR _ _ Din O) as (codes & An).
  assert (Hne : forall rid pid fs, u = UReq rid pid (Some fs) -> fs <> []).
  { intros r p fs ->. destruct (ri_req _ HR _ _ _ Uin) as [_ Z]. exact (Z _ eq_refl). }
  destruct (deliver_own _ _ _ _ HI L Hne An) as [Gone Ok]. split; [exact Ok|].
  destruct (dispatch_spec w d HR) as (new & M & _).
  pose proof (dispatch_new_small _ _ _ HI M) as Sm.
  assert (Tin : In (utag u) (map rid3 new)).
  { apply (qm_iff _ _ _ M). split; [|exact Gone]. destruct (live_parked _ _ L) as (k & Y & _). eapply in_prids, Y. }
  rewrite (qm_done _ _ _ M).
  destruct new as [|[[r e] f] [|z l]]; cbn in Sm; try lia; [contradiction|].
  destruct Tin as [T|[]]. cbn in T. subst r. exists e, f. reflexivity.
Qed.

(* hence no late or stray answers at all: everything in flight belongs to a waiting request *)
Theorem conforming_inflight_live w : rreach false w -> no_abandon (r_cl w) ->
  (forall d, In d (r_b2c w) -> dorg d <> None) /\ forall u, In u (inflight w) -> live (r_cl w) u.
Proof. intros Hr NA. destruct (conforming_inv _ Hr) as [A B]. split; [exact A|exact (B NA)]. Qed.

(* ... spelled out for SUBACK: the codes are mapped onto the filters of that very Subscribe call *)
Theorem conforming_suback w pid codes u rest : rreach false w -> no_abandon (r_cl w) ->
  r_b2c w = DSuback pid codes (Some u) :: rest ->
  exists rid fs n, u = UReq rid pid (Some fs) /\ In (rid, CallTx (Some fs) n) (r_calls w) /\
    length fs = length codes /\ snd (sl_suback (r_cl w) pid codes) = HOk /\
    q_done (fst (sl_suback (r_cl w) pid codes))
    = (rid, ans_err (failed_filters fs codes), failed_filters fs codes) :: q_done (r_cl w).
Proof.
  intros Hr NA B. pose proof (rworld_inv _ _ Hr) as HR. pose proof (ri_q _ HR) as HI.
  destruct (conforming_exact w _ _ Hr NA B) as (u' & O & L & Ok & e & f & Ed).
  cbn [dorg] in O. inversion O; subst u'. cbn [sl_dispatch] in Ok, Ed.
  assert (Din : In (DSuback pid codes (Some u)) (r_b2c w)) by (rewrite B; left; reflexivity).
  destruct (ri_gen _ HR _ _ Din eq_refl) as (codes' & An).
  destruct u as [rid pid' [fs|]|rid]; cbn [answer] in An;
    [destruct (_ && _); [|discriminate]|discriminate|discriminate].
  inversion An; subst pid' codes'. clear An. cbn [live utag] in L, Ed. destruct L as [L1 L2].
  destruct (suback_correlation _ _ pid codes Hr) as [Same|(rid' & fs' & n & F & P & Cn & _ & _ & _ & _ & Hcase)].
  { exfalso. rewrite Same in Ed. apply (f_equal (@length _)) in Ed. cbn in Ed. lia. }
  destruct (QInv_entry_unique _ _ _ _ _ _ HI L1 F) as [<- Ek]. inversion Ek; subst fs'.
  exists rid, fs, n. split; [reflexivity|]. split; [exact Cn|].
  destruct Hcase as [(Ln & _ & Ed')|(_ & Bad & _)]; [|rewrite Ok in Bad; discriminate].
  split; [exact Ln|]. split; [exact Ok|exact Ed'].
Qed.

(* ================================================================== *)
(* 13. (b) Every request returns at most once, with a documented outcome *)

(* the log only grows: what a request returned with is never taken back or changed *)
Theorem log_append_only w a w' : RInv w -> rexec w a = Some w' ->
  exists new, q_done (r_cl w') = new ++ q_done (r_cl w).
Proof.
  intros HR E. pose proof (ri_q _ HR) as HI.
  assert (Nil : forall q', q_done q' = q_done (r_cl w) -> exists new, q_done q' = new ++ q_done (r_cl w)).
  { intros q' X. exists []. exact X. }
  assert (Qm : forall q' new, qmono (r_cl w) q' new -> exists new, q_done q' = new ++ q_done (r_cl w)).
  { intros q' new M. exists new. exact (qm_done _ _ _ M). }
  destruct a as [fs wr|fs wr|wr|rid|keep| | | |ok| |keep|i codes|d]; cbn [rexec] in E.
  - pose proof (sub_cases (r_cl w) true fs wr) as HS.
    destruct (sl_subscribe (r_cl w) true fs wr) as [q' r]. cbn [fst snd] in HS. unfold exec_call in E.
    destruct HS as [e He C Nx Tn T Pg Pk D W|pid n Hne Hfresh Hnz Hlt Hsp Hn Hn' Ep W C Nx T Pg D Hpk].
    + destruct (closed_by_write (r_cl w) q'); inversion E; subst; cbn [r_cl];
        exists [(q_nextr (r_cl w), e, [])]; cbn; rewrite D; reflexivity.
    + destruct (q_ws (r_cl w)); inversion E; subst; apply Nil; exact D.
  - pose proof (sub_cases (r_cl w) false fs wr) as HS.
    destruct (sl_subscribe (r_cl w) false fs wr) as [q' r]. cbn [fst snd] in HS. unfold exec_call in E.
    destruct HS as [e He C Nx Tn T Pg Pk D W|pid n Hne Hfresh Hnz Hlt Hsp Hn Hn' Ep W C Nx T Pg D Hpk].
    + destruct (closed_by_write (r_cl w) q'); inversion E; subst; cbn [r_cl];
        exists [(q_nextr (r_cl w), e, [])]; cbn; rewrite D; reflexivity.
    + destruct (q_ws (r_cl w)); inversion E; subst; apply Nil; exact D.
  - pose proof (ping_cases (r_cl w) wr) as HS.
    destruct (sl_ping (r_cl w) wr) as [q' r]. cbn [fst snd] in HS. unfold exec_call in E.
    destruct HS as [e He C Nx Tn T Pg Pk D W|P0 W C Nx Tn T Pg D Hpk].
    + destruct (closed_by_write (r_cl w) q'); inversion E; subst; cbn [r_cl];
        exists [(q_nextr (r_cl w), e, [])]; cbn; rewrite D; reflexivity.
    + destruct (q_ws (r_cl w)); inversion E; subst; apply Nil; exact D.
  - inversion E; subst. destruct (quit_cases _ rid HI) as (new & HQc).
    exact (Qm _ _ (quit_case_qmono _ _ _ _ HQc)).
  - destruct (q_closed (r_cl w)) eqn:Cl; inversion E; subst; [exists []; reflexivity|]. cbn [r_cl].
    unfold sl_close. rewrite Cl. eexists. rewrite release_locked_eq. reflexivity.
  - destruct (q_ws (r_cl w)); inversion E; subst. exists []. reflexivity.
  - destruct (r_rd w); [|discriminate]. destruct (r_b2c w) as [|d rest]; [discriminate|].
    destruct (dispatch_spec w d HR) as (new & M & HQ & Ws & _ & Hh).
    destruct (sl_dispatch (r_cl w) d) as [q1 h]. cbn [fst snd] in *.
    destruct Hh as [-> | ->]; [inversion E; subst; exact (Qm _ _ M)|].
    destruct (q_ws q1) eqn:W1; inversion E; subst; try exact (Qm _ _ M);
      (destruct (sl_offline_spec q1 HQ ltac:(rewrite W1; discriminate)) as (n2 & M2 & _);
       exact (Qm _ _ (qmono_trans _ _ _ _ _ M M2))).
  - destruct (r_rd w); [|discriminate]. destruct (q_ws (r_cl w)) eqn:W; inversion E; subst;
      (destruct (sl_offline_spec (r_cl w) HI ltac:(rewrite W; discriminate)) as (n2 & M2 & _); exact (Qm _ _ M2)).
  - destruct (r_rd w); [discriminate|].
    destruct (q_ws (r_cl w)); try discriminate; destruct ok;
      try (destruct (q_has_locked (r_cl w)); [discriminate|]); inversion E; subst; cbn [r_cl];
      try (exists []; reflexivity);
      (unfold sl_connect_fail; eexists; rewrite release_locked_eq; reflexivity).
  - destruct (q_ws (r_cl w)); inversion E; subst.
    destruct (break_spec _ _ HI (same_req_refl _)) as (new & M & _). exact (Qm _ _ M).
  - destruct (r_alive w); inversion E; subst. exists []. reflexivity.
  - destruct (r_alive w); [|discriminate]. destruct (nth_error (r_c2b w) i) as [u|]; [|discriminate].
    destruct (answer u codes); inversion E; subst. exists []. reflexivity.
  - destruct (r_alive w); [|discriminate]. destruct (dorg d); inversion E; subst. exists []. reflexivity.
Qed.

(* in every reachable state: no request id occurs twice in the log; a request that has
   returned is not blocked any more; every request made so far is either blocked or has
   returned; every logged outcome is one of the documented ones (a SubscribeError lists
   filters of that request's own Subscribe call) *)
Theorem returns_at_most_once h w : rreach h w ->
  NoDup (drids (r_cl w)) /\
  (forall rid, In rid (prids (r_cl w)) -> ~ In rid (drids (r_cl w))) /\
  (forall rid, rid < q_nextr (r_cl w) -> In rid (prids (r_cl w)) \/ In rid (drids (r_cl w))) /\
  (forall x, In x (q_done (r_cl w)) -> outcome_ok (r_calls w) x).
Proof.
  intros Hr. pose proof (rworld_inv _ _ Hr) as HR. pose proof (ri_q _ HR) as HI.
  split; [apply (qi_dnd _ HI)|]. split; [apply (qi_disj _ HI)|]. split; [apply (ri_all _ HR)|apply (ri_done _ HR)].
Qed.

(* two log entries of one request are one entry *)
Corollary outcome_unique h w rid e f e' f' : rreach h w ->
  In (rid, e, f) (q_done (r_cl w)) -> In (rid, e', f') (q_done (r_cl w)) -> e = e' /\ f = f'.
Proof.
  intros Hr A B. destruct (returns_at_most_once _ _ Hr) as (ND & _).
  pose proof (NoDup_map_inj rid3 (q_done (r_cl w)) _ _ ND A B eq_refl) as E. inversion E. auto.
Qed.

(* ================================================================== *)
(* 14. (c) No request waits for ever under a good suffix               *)

(* nobody waits for a response *)
Definition settled (q : rcl) : Prop := forall rid k, In (rid, k) (q_parked q) -> is_wait k = false.

(* the steps of a suffix without new requests, quits and Close: the broker answers, the
   read routine handles packets, the connection may die and the read routine notice it *)
Definition r_good (w : rworld) (a : ract) : bool :=
  match a with
  | BAnswer _ _ | ADeliver | ABreak _ | AOffline => true
  | ATerm => r_rd w
  | _ => false
  end.

(* steps still to go, at most *)
Definition rmu (w : rworld) : nat :=
  if r_rd w then
    (if r_alive w then 2 * length (r_c2b w) + length (r_b2c w) + 2 else length (r_b2c w) + 1)
  else 0.

Lemma remove_nth_length {A} (l : list A) i u : nth_error l i = Some u ->
  length l = S (length (remove_nth i l)).
Proof.
  intros H. rewrite (nth_error_split' l i u H) at 1. unfold remove_nth.
  rewrite !app_length. cbn [length]. lia.
Qed.

Theorem good_step_measure w a w' : RInv w -> rexec w a = Some w' -> r_good w a = true ->
  (rmu w' < rmu w)%nat.
Proof.
  intros HR E G. unfold rmu.
  destruct a as [fs wr|fs wr|wr|rid|keep| | | |ok| |keep|i codes|d]; cbn [r_good] in G; try discriminate;
    cbn [rexec] in E.
  - (* deliver *)
    destruct (r_rd w) eqn:Rd; [|discriminate]. destruct (r_b2c w) as [|d rest] eqn:B; [discriminate|].
    destruct (sl_dispatch (r_cl w) d) as [q1 h]. destruct h; try discriminate.
    + inversion E; subst. cbn [r_rd r_alive r_c2b r_b2c length]. destruct (r_alive w); lia.
    + destruct (q_ws q1); inversion E; subst; cbn [r_rd r_alive r_c2b r_b2c length]; destruct (r_alive w); lia.
  - (* offline *)
    destruct (r_rd w); [|discriminate]. destruct (q_ws (r_cl w)); inversion E; subst; cbn [r_rd];
      destruct (r_alive w); lia.
  - (* term *)
    rewrite G. destruct (q_ws (r_cl w)); inversion E; subst. cbn [r_rd]. destruct (r_alive w); lia.
  - (* break *)
    destruct (r_alive w) eqn:A; inversion E; subst. cbn [r_rd r_alive r_c2b r_b2c].
    pose proof (ri_up _ HR (ri_alive _ HR A)) as Rd. rewrite Rd.
    rewrite firstn_length. lia.
  - (* the broker answers *)
    destruct (r_alive w) eqn:A; [|discriminate]. destruct (nth_error (r_c2b w) i) as [u|] eqn:Nth; [|discriminate].
    destruct (answer u codes); inversion E; subst. cbn [r_rd r_alive r_c2b r_b2c].
    pose proof (ri_up _ HR (ri_alive _ HR A)) as Rd. rewrite Rd.
    rewrite app_length. cbn [length]. rewrite (remove_nth_length _ _ _ Nth). lia.
Qed.

(* runs of good steps *)
Inductive grun : rworld -> nat -> rworld -> Prop :=
| gr_nil : forall w, grun w 0 w
| gr_step : forall w a w1 n w2, r_good w a = true -> rexec w a = Some w1 -> grun w1 n w2 -> grun w (S n) w2.

Lemma grun_inv w n w' : RInv w -> grun w n w' -> RInv w'.
Proof. intros H R. induction R; [exact H|]. apply IHR. eapply rinv_exec; eassumption. Qed.

(* a good suffix has at most rmu steps *)
Theorem good_run_bound w n w' : RInv w -> grun w n w' -> (n + rmu w' <= rmu w)%nat.
Proof.
  intros H R. induction R as [w|w a w1 n w2 G E R IH]; [lia|].
  pose proof (good_step_measure _ _ _ H E G). specialize (IH (rinv_exec _ _ _ H E)). lia.
Qed.

(* nothing in flight on a live connection, or no connection at the read routine: nobody waits *)
Theorem drained_settled w : RInv w ->
  r_rd w = false \/ (r_alive w = true /\ r_c2b w = [] /\ r_b2c w = []) -> settled (r_cl w).
Proof.
  intros HR [Rd|(A & C & B)] rid k X; destruct (is_wait k) eqn:Wk; try reflexivity; exfalso.
  - pose proof (ri_wait _ HR _ _ X Wk) as Y. rewrite Rd in Y. discriminate.
  - pose proof (ri_cover _ HR A _ _ X Wk) as Y. unfold inflight in Y. rewrite C, B in Y. exact Y.
Qed.

Lemma answer_zeros u : (forall rid pid fs, u = UReq rid pid (Some fs) -> True) ->
  exists codes d, answer u codes = Some d.
Proof.
  intros _. destruct u as [rid pid [fs|]|rid]; cbn [answer].
  - exists (repeat 0 (length fs)). rewrite repeat_length, Nat.eqb_refl. cbn [andb].
    assert (F : forallb code_ok (repeat 0 (length fs)) = true).
    { induction (length fs) as [|m IH]; [reflexivity|]. cbn [repeat forallb]. rewrite IH. reflexivity. }
    rewrite F. eauto.
  - exists []. eauto.
  - exists []. eauto.
Qed.

(* the connection stays up and the broker answers: within 2*|requests| + |responses| steps
   of broker and read routine nobody waits any more *)
Theorem answer_run_exists : forall m w, RInv w -> r_alive w = true ->
  (2 * length (r_c2b w) + length (r_b2c w) = m)%nat ->
  exists n w', grun w n w' /\ (n <= m)%nat /\ settled (r_cl w').
Proof.
  induction m as [|m IH]; intros w HR A Em.
  - exists 0%nat, w. split; [constructor|]. split; [lia|]. apply drained_settled; [exact HR|].
    right. split; [exact A|]. destruct (r_c2b w); destruct (r_b2c w); cbn in Em; try lia. auto.
  - pose proof (ri_up _ HR (ri_alive _ HR A)) as Rd.
    destruct (r_c2b w) as [|u c] eqn:C.
    + destruct (r_b2c w) as [|d rest] eqn:B; [cbn in Em; lia|].
      (* the read routine handles d *)
      pose proof (dispatch_spec w d HR) as (new & M & HQ & Ws & _ & Hh).
      assert (Ex : exists w1, rexec w ADeliver = Some w1 /\
                   ((r_alive w1 = true /\ r_c2b w1 = [] /\ r_b2c w1 = rest) \/ r_rd w1 = false)).
      { cbn [rexec]. rewrite Rd, B. destruct (sl_dispatch (r_cl w) d) as [q1 h]. cbn [fst snd] in *.
        destruct Hh as [-> | ->].
        - eexists. split; [reflexivity|]. left. cbn. rewrite A, C. auto.
        - rewrite Ws, (ri_alive _ HR A). eexists. split; [reflexivity|]. right. reflexivity. }
      destruct Ex as (w1 & E1 & [(A1 & C1 & B1)|Rd1]).
      * destruct (IH w1 (rinv_exec _ _ _ HR E1) A1) as (n & w' & R & Ln & St).
        { rewrite C1, B1. cbn in *. lia. }
        exists (S n), w'. split; [eapply (gr_step w ADeliver); [reflexivity|exact E1|exact R]|]. split; [lia|exact St].
      * exists 1%nat, w1. split; [eapply (gr_step w ADeliver); [reflexivity|exact E1|constructor]|]. split; [lia|].
        apply drained_settled; [exact (rinv_exec _ _ _ HR E1)|left; exact Rd1].
    + (* the broker answers u *)
      destruct (answer_zeros u (fun _ _ _ _ => I)) as (codes & d & An).
      assert (E1 : rexec w (BAnswer 0 codes) = Some (mkRW (r_cl w) (r_rd w) true c (r_b2c w ++ [d]) (r_calls w))).
      { cbn [rexec]. rewrite A, C. cbn [nth_error]. rewrite An. reflexivity. }
      destruct (IH _ (rinv_exec _ _ _ HR E1) eq_refl) as (n & w' & R & Ln & St).
      { cbn [r_c2b r_b2c]. rewrite app_length. cbn in *. lia. }
      exists (S n), w'. split; [eapply (gr_step w (BAnswer 0 codes)); [reflexivity|exact E1|exact R]|].
      split; [lia|exact St].
Qed.

(* the connection is lost (or any read error): one step of the read routine, and every
   request that waited has returned with ErrBreak *)
Theorem offline_settles w : RInv w -> r_rd w = true -> q_ws (r_cl w) <> RClosed ->
  exists w', rexec w AOffline = Some w' /\ settled (r_cl w') /\
    forall rid k, In (rid, k) (q_parked (r_cl w)) -> is_wait k = true ->
      In (rid, E_break, []) (q_done (r_cl w')).
Proof.
  intros HR Rd W. pose proof (ri_q _ HR) as HI.
  destruct (sl_offline_spec _ HI W) as (new & M & HQ & Ws & _ & _ & Hn & Hl).
  exists (mkRW (sl_offline (r_cl w)) false false [] [] (r_calls w)). split.
  { cbn [rexec]. rewrite Rd. destruct (q_ws (r_cl w)); try reflexivity. contradiction. }
  cbn [r_cl]. split.
  - intros rid k X. apply Hl in X. unfold is_wait. rewrite X. reflexivity.
  - intros rid k X Wk. rewrite (qm_done _ _ _ M). apply in_app_iff. left.
    assert (Y : In rid (map rid3 new)).
    { apply (qm_iff _ _ _ M). split; [eapply in_prids, X|]. intros Z. apply in_prids_ex in Z as (k' & Z).
      pose proof (Hl _ _ Z) as Lk. pose proof (qmono_parked _ _ _ _ M Z) as Z'.
      rewrite (QInv_parked_unique _ _ _ _ HI Z' X) in Lk. unfold is_wait in Wk. rewrite Lk in Wk. discriminate. }
    apply in_map_iff in Y as (x & E & Y). destruct (Hn _ Y) as (r & k' & -> & _). cbn in E. subst r. exact Y.
Qed.

(* Close, then the read routine's next ReadSlices: nobody is blocked any more; callers
   blocked in lockWrite got ErrClosed, callers waiting for a response ErrBreak *)
Theorem close_completes_all w keep : RInv w -> q_closed (r_cl w) = false ->
  exists w1 w2, rexec w (AClose keep) = Some w1 /\ rexec w1 ATerm = Some w2 /\
    q_parked (r_cl w2) = [] /\
    forall rid k, In (rid, k) (q_parked (r_cl w)) ->
      (is_lock k = true -> In (rid, E_closed, []) (q_done (r_cl w2))) /\
      (is_wait k = true -> In (rid, E_break, []) (q_done (r_cl w2))).
Proof.
  intros HR Cl. pose proof (ri_q _ HR) as HI.
  set (w1 := mkRW (sl_close (r_cl w)) (r_rd w) false [] (firstn keep (r_b2c w)) (r_calls w)).
  assert (E1 : rexec w (AClose keep) = Some w1) by (cbn [rexec]; rewrite Cl; reflexivity).
  pose proof (rinv_exec _ _ _ HR E1) as HR1. pose proof (ri_q _ HR1) as HI1.
  set (q0 := r_cl w <| q_closed := true |> <| q_ws := RClosed |>).
  assert (Eq : sl_close (r_cl w) = q_release_locked q0 E_closed) by (unfold sl_close; rewrite Cl; reflexivity).
  assert (SR : same_req (r_cl w) q0) by (repeat split).
  assert (ND : NoDup (prids q0)) by apply (qi_pnd _ HI).
  pose proof (qmono_trans0 _ _ _ _ (same_req_qmono _ _ SR) (release_qmono q0 E_closed ND)) as M1.
  assert (W1 : q_ws (r_cl w1) = RClosed).
  { cbn [w1 r_cl]. rewrite Eq. destruct (release_scalars q0 E_closed) as (-> & _). reflexivity. }
  destruct (break_spec _ _ HI1 (same_req_refl _)) as (new & M2 & _ & _ & _ & _ & _ & Hn & Hl).
  set (w2 := mkRW (q_break (r_cl w1)) false false [] [] (r_calls w1)).
  assert (E2 : rexec w1 ATerm = Some w2) by (cbn [rexec]; rewrite W1; reflexivity).
  exists w1, w2. split; [exact E1|]. split; [exact E2|]. cbn [w2 r_cl].
  assert (NoLock : forall rid lc, ~ In (rid, PkLock lc) (q_parked (r_cl w1))).
  { intros rid lc. cbn [w1 r_cl]. rewrite Eq. apply release_no_lock. }
  split.
  - destruct (q_parked (q_break (r_cl w1))) as [|[rid k] l] eqn:P; [reflexivity|]. exfalso.
    assert (X : In (rid, k) (q_parked (q_break (r_cl w1)))) by (rewrite P; left; reflexivity).
    pose proof (Hl rid k (or_introl eq_refl)) as Lk. destruct k; try discriminate.
    exact (NoLock _ _ (qmono_parked _ _ _ _ M2 X)).
  - intros rid k X. split.
    + intros Lk. destruct k as [lc| | |]; try discriminate.
      rewrite (qm_done _ _ _ M2). apply in_app_iff. right. cbn [w1 r_cl]. rewrite Eq.
      rewrite (qm_done _ _ _ M1). apply in_app_iff. left. apply release_new_in. exists rid, lc.
      split; [reflexivity|exact X].
    + intros Wk. assert (X1 : In (rid, k) (q_parked (r_cl w1))).
      { cbn [w1 r_cl]. rewrite Eq. apply release_keeps_wait; [exact ND|exact X|].
        unfold is_wait in Wk. destruct (is_lock k); [discriminate|reflexivity]. }
      rewrite (qm_done _ _ _ M2). apply in_app_iff. left.
      assert (Y : In rid (map rid3 new)).
      { apply (qm_iff _ _ _ M2). split; [eapply in_prids, X1|]. intros Z. apply in_prids_ex in Z as (k' & Z).
        pose proof (Hl _ _ Z) as Lk. pose proof (qmono_parked _ _ _ _ M2 Z) as Z'.
        rewrite (QInv_parked_unique _ _ _ _ HI1 Z' X1) in Lk. unfold is_wait in Wk. rewrite Lk in Wk. discriminate. }
      apply in_map_iff in Y as (x & E & Y). destruct (Hn _ Y) as (r & k' & -> & _). cbn in E. subst r. exact Y.
Qed.

(* as long as somebody waits for a response, a step of the broker or of the read routine
   is enabled that needs no further fault (and at most rmu of them can happen) *)
Theorem waiting_has_progress w : RInv w -> ~ settled (r_cl w) ->
  exists a w', rexec w a = Some w' /\ r_good w a = true /\
    match a with BAnswer _ _ | ADeliver | AOffline | ATerm => True | _ => False end.
Proof.
  intros HR NS. pose proof (ri_q _ HR) as HI.
  destruct (r_rd w) eqn:Rd.
  2:{ exfalso. apply NS. apply drained_settled; auto. }
  destruct (r_alive w) eqn:A.
  - destruct (r_c2b w) as [|u c] eqn:C.
    + destruct (r_b2c w) as [|d rest] eqn:B.
      { exfalso. apply NS. apply drained_settled; auto. }
      pose proof (dispatch_spec w d HR) as (new & M & HQ & Ws & _ & Hh).
      exists ADeliver. cbn [rexec r_good]. rewrite Rd, B.
      destruct (sl_dispatch (r_cl w) d) as [q1 h]. cbn [fst snd] in *.
      destruct Hh as [-> | ->]; [eexists; split; [reflexivity|auto]|].
      destruct (q_ws q1); eexists; split; try reflexivity; auto.
    + destruct (answer_zeros u (fun _ _ _ _ => I)) as (codes & d & An).
      exists (BAnswer 0 codes). cbn [rexec r_good]. rewrite A, C. cbn [nth_error]. rewrite An.
      eexists. split; [reflexivity|auto].
  - destruct (q_ws (r_cl w)) eqn:W.
    4:{ exists ATerm. cbn [rexec r_good]. rewrite W, Rd. eexists. split; [reflexivity|auto]. }
    all: exists AOffline; cbn [rexec r_good]; rewrite W, Rd; eexists; split; [reflexivity|auto].
Qed.

(* from every reachable state a good suffix of at most rmu steps exists after which nobody
   waits for a response: the broker answers what it holds and the read routine handles it,
   or -- on a dead connection -- the read routine notices *)
Theorem good_run_exists w : RInv w ->
  exists n w', grun w n w' /\ (n <= rmu w)%nat /\ settled (r_cl w').
Proof.
  intros HR. pose proof (ri_q _ HR) as HI. destruct (r_rd w) eqn:Rd.
  2:{ exists 0%nat, w. split; [constructor|]. split; [lia|]. apply drained_settled; auto. }
  destruct (r_alive w) eqn:A.
  - destruct (answer_run_exists _ w HR A eq_refl) as (n & w' & R & Ln & St).
    exists n, w'. split; [exact R|]. split; [|exact St]. unfold rmu. rewrite Rd, A. lia.
  - assert (Ex : exists a w1, r_good w a = true /\ rexec w a = Some w1 /\ r_rd w1 = false).
    { destruct (q_ws (r_cl w)) eqn:W.
      4:{ exists ATerm. cbn [rexec r_good]. rewrite W, Rd. eexists. split; [reflexivity|]. split; reflexivity. }
      all: exists AOffline; cbn [rexec r_good]; rewrite W, Rd; eexists; split; [reflexivity|]; split; reflexivity. }
    destruct Ex as (a & w1 & G & E1 & Rd1).
    exists 1%nat, w1. split; [eapply gr_step; [exact G|exact E1|constructor]|].
    split; [unfold rmu; rewrite Rd, A; lia|].
    apply drained_settled; [exact (rinv_exec _ _ _ HR E1)|left; exact Rd1].
Qed.

(* ================================================================== *)
(* 15. (d) Ping                                                        *)

(* These are theorems about the SEQUENTIAL model of the slot (Session.v: a call runs to
   its return or to the point where its goroutine blocks, without interleaving inside).
   The recorded finding F7 is a defect of the real code's CONCURRENT hand-over of the slot
   (the release  select { case <-c.pingAck: default: }  of a Ping whose write failed runs
   after the read routine emptied the slot and the next Ping refilled it): it produces a
   state in which a Ping waits while the slot does not hold it.  ping_holds_slot says that
   this state is unreachable sequentially; it does not contradict F7, it delimits it. *)

Theorem ping_holds_slot h w rid : rreach h w ->
  In (rid, PkPing) (q_parked (r_cl w)) -> q_ping (r_cl w) = Some rid.
Proof. intros Hr. apply (qi_ping _ (ri_q _ (rworld_inv _ _ Hr))). Qed.

(* at most one Ping waits *)
Theorem ping_one_waiter h w r1 r2 : rreach h w ->
  In (r1, PkPing) (q_parked (r_cl w)) -> In (r2, PkPing) (q_parked (r_cl w)) -> r1 = r2.
Proof.
  intros Hr A B. pose proof (ping_holds_slot _ _ _ Hr A) as X. rewrite (ping_holds_slot _ _ _ Hr B) in X.
  inversion X. reflexivity.
Qed.

(* a Ping that finds the slot taken returns ErrMax (ErrClosed after Close) at once, nothing changes *)
Theorem ping_slot_taken q r wr : q_ping q = Some r ->
  sl_ping q wr = (q <| q_nextr ::= N.succ |>, RetErr (if q_closed q then E_closed else E_max)).
Proof. intros P. unfold sl_ping. cbv zeta. change (q_ping (q <| q_nextr ::= N.succ |>)) with (q_ping q). rewrite P. reflexivity. Qed.

(* PINGRESP makes the waiting Ping return nil and empties the slot *)
Theorem pingresp_completes h w rid : rreach h w -> In (rid, PkPing) (q_parked (r_cl w)) ->
  sl_pingresp (r_cl w) = (q_complete (r_cl w <| q_ping := None |>) rid E_nil [], HOk).
Proof.
  intros Hr X. pose proof (ri_q _ (rworld_inv _ _ Hr)) as HI. unfold sl_pingresp.
  rewrite (qi_ping _ HI _ X). cbv zeta.
  change (q_parked_kind (r_cl w <| q_ping := None |>) rid) with (q_parked_kind (r_cl w) rid).
  rewrite (QInv_parked_kind _ _ _ HI X). reflexivity.
Qed.

(* a PINGRESP without a waiting Ping is ignored ("tolerates wandering pong") *)
Theorem pingresp_ignored q : q_ping q = None -> sl_pingresp q = (q, HOk).
Proof. intros P. unfold sl_pingresp. rewrite P. reflexivity. Qed.

(* quit of a waiting Ping: ErrAbandoned, slot released *)
Theorem ping_quit h w rid : rreach h w -> In (rid, PkPing) (q_parked (r_cl w)) ->
  sl_quit (r_cl w) rid = q_complete (r_cl w <| q_ping := None |>) rid E_abandoned [].
Proof.
  intros Hr X. pose proof (ri_q _ (rworld_inv _ _ Hr)) as HI. unfold sl_quit.
  rewrite (QInv_parked_kind _ _ _ HI X), (qi_ping _ HI _ X), N.eqb_refl. reflexivity.
Qed.

(* A PINGRESP carries no identifier: the answer to an abandoned Ping's PINGREQ makes the NEXT
   Ping return (its own PINGREQ may not even have reached the broker).  Exactly the late
   answers of answer_own_or_late; an example is pong_after_abandoned_ping below. *)

(* ================================================================== *)
(* 16. Executable runs                                                 *)

Fixpoint rrun (w : rworld) (l : list ract) : option rworld :=
  match l with
  | [] => Some w
  | a :: t => match rexec w a with Some w' => rrun w' t | None => None end
  end.

Lemma rrun_reach h : forall l w w', rreach h w -> (h = true \/ forallb (fun a => negb (is_forge a)) l = true) ->
  rrun w l = Some w' -> rreach h w'.
Proof.
  induction l as [|a l IH]; intros w w' Hr Hf E; cbn [rrun] in E.
  - inversion E; subst. exact Hr.
  - destruct (rexec w a) as [w1|] eqn:E1; [|discriminate].
    apply (IH w1 w'); [| |exact E].
    + eapply rr_step; [exact Hr|]. split; [exact E1|]. intros F. destruct Hf as [->|Hf]; [reflexivity|].
      cbn [forallb] in Hf. rewrite F in Hf. discriminate.
    + destruct Hf as [Hf|Hf]; [left; exact Hf|right]. cbn [forallb] in Hf.
      apply andb_true_iff in Hf as [_ Hf]. exact Hf.
Qed.

(* the observable part of a state: log (newest first), blocked callers, entries, wires *)
Definition rshow (o : option rworld) :=
  match o with
  | Some w => Some (q_done (r_cl w), q_parked (r_cl w), q_txs (r_cl w), r_c2b w, r_b2c w)
  | None => None
  end.

(* two Subscribes, answered in reverse order: each gets its own codes *)
Example reverse_order_answers :
  rshow (rrun rinit [AReconnect true; ASub [[97]] WOk; ASub [[98]; [99]] WOk;
                     BAnswer 1 [1; 128]; BAnswer 0 [0]; ADeliver; ADeliver])
  = Some ([(0, E_nil, []); (1, E_suberr, [[99]])], [], [], [], []).
Proof. vm_compute. reflexivity. Qed.

(* the connection breaks: Subscribe, Unsubscribe and Ping return ErrBreak *)
Example break_completes_all :
  rshow (rrun rinit [AReconnect true; ASub [[97]] WOk; AUnsub [[98]; [99]] WOk; APing WOk;
                     ABreak 0; AOffline])
  = Some ([(0, E_break, []); (1, E_break, []); (2, E_break, [])], [], [], [], []).
Proof. vm_compute. reflexivity. Qed.

(* n rounds: Subscribe, the broker answers it (it sits at position i), the read routine handles the answer *)
Fixpoint sub_rounds (n : nat) (i : nat) : list ract :=
  match n with
  | O => []
  | S n' => ASub [[99]] WOk :: BAnswer i [0] :: ADeliver :: sub_rounds n' i
  end.

Definition rshow_head (o : option rworld) :=
  match o with
  | Some w => Some (firstn 2 (q_done (r_cl w)), q_parked (r_cl w), q_txs (r_cl w), r_c2b w, r_b2c w, q_txn (r_cl w))
  | None => None
  end.

(* identifier reuse after completion: request 0 held 0x6000 and returned; 8191 requests
   later request 8192 gets 0x6000 again and its own answer (a refusal) reaches it *)
Example pid_reuse_after_completion :
  rshow_head (rrun rinit (AReconnect true :: sub_rounds (N.to_nat 8192) 0 ++
                          [ASub [[100]] WOk; BAnswer 0 [128]; ADeliver]))
  = Some ([(8192, E_suberr, [[100]]); (8191, E_nil, [])], [], [], [], [], 8193).
Proof. vm_compute. reflexivity. Qed.

Example pid_reuse_same_identifier :
  rshow_head (rrun rinit (AReconnect true :: sub_rounds (N.to_nat 8192) 0 ++ [ASub [[100]] WOk]))
  = Some ([(8191, E_nil, []); (8190, E_nil, [])], [(8192, PkSub 24576)], [(24576, 8192, Some [[100]])],
          [UReq 8192 24576 (Some [[100]])], [], 8193).
Proof. vm_compute. reflexivity. Qed.

(* A CONFORMING broker, a quit, and identifier reuse: request 0 (filter "a") is abandoned
   while its SUBSCRIBE is unanswered; 8191 requests later request 8192 (filter "d") gets the
   same identifier 0x6000; now the broker answers request 0's SUBSCRIBE with a refusal:
   request 8192 returns SubscribeError ["d"] although the broker has not seen its packet
   yet (it is still in r_c2b), and the broker's later answer to it (granted) is ignored.
   The response of one request is handed to another caller: reuse_needs_wrap is tight. *)
Definition late_answer_trace : list ract :=
  AReconnect true :: ASub [[97]] WOk :: AQuit 0 :: sub_rounds (N.to_nat 8191) 1 ++
  [ASub [[100]] WOk; BAnswer 0 [128]; ADeliver].

Example late_answer_after_quit_hits_new_holder :
  rshow_head (rrun rinit late_answer_trace)
  = Some ([(8192, E_suberr, [[100]]); (8191, E_nil, [])], [], [],
          [UReq 8192 24576 (Some [[100]])], [], 8193).
Proof. vm_compute. reflexivity. Qed.

Example late_answer_then_own_answer_ignored :
  rshow_head (rrun rinit (late_answer_trace ++ [BAnswer 0 [0]; ADeliver]))
  = Some ([(8192, E_suberr, [[100]]); (8191, E_nil, [])], [], [], [], [], 8193).
Proof. vm_compute. reflexivity. Qed.

Lemma late_answer_trace_conforming : forallb (fun a => negb (is_forge a)) late_answer_trace = true.
Proof. vm_compute. reflexivity. Qed.

(* hostile broker: a SUBACK of its own making for an identifier in use completes the holder
   before the broker has even read the SUBSCRIBE; the client cannot tell (client_cannot_distinguish) *)
Example forged_suback :
  rshow (rrun rinit [AReconnect true; ASub [[97]] WOk; BForge (DSuback 24576 [128] None); ADeliver])
  = Some ([(0, E_suberr, [[97]])], [], [], [UReq 0 24576 (Some [[97]])], []).
Proof. vm_compute. reflexivity. Qed.

(* hostile broker: wrong number of return codes: that request gets ErrBreak, the connection
   is reset and everybody else who waited gets ErrBreak too *)
Example count_mismatch_resets :
  rshow (rrun rinit [AReconnect true; ASub [[97]] WOk; APing WOk;
                     BForge (DSuback 24576 [0; 0] None); ADeliver])
  = Some ([(1, E_break, []); (0, E_break, [])], [], [], [], []).
Proof. vm_compute. reflexivity. Qed.

(* the PINGRESP for an abandoned Ping completes the next one *)
Example pong_after_abandoned_ping :
  rshow (rrun rinit [AReconnect true; APing WOk; AQuit 0; APing WOk; BAnswer 0 []; ADeliver])
  = Some ([(1, E_nil, []); (0, E_abandoned, [])], [], [], [UPing 1], []).
Proof. vm_compute. reflexivity. Qed.

(* calls while the connect is pending block in lockWrite; a failed connect gives ErrDown,
   quit ErrCanceled, Close ErrClosed *)
Example locked_callers :
  rshow (rrun rinit [ASub [[97]] WOk; APing WOk; AUnsub [[98]] WOk; AQuit 1; AReconnect false;
                     ASub [[99]] WOk; APing WOk; AClose 0; APing WOk])
  = Some ([(5, E_closed, []); (4, E_down, []); (3, E_down, []); (0, E_down, []); (2, E_down, []);
           (1, E_canceled, [])], [], [], [], []).
Proof. vm_compute. reflexivity. Qed.

(* Close while requests wait: ErrBreak at the read routine's next turn *)
Example close_while_waiting :
  rshow (rrun rinit [AReconnect true; ASub [[97]] WOk; APing WOk; AClose 0; ATerm])
  = Some ([(0, E_break, []); (1, E_break, [])], [], [], [], []).
Proof. vm_compute. reflexivity. Qed.

(* The sentence "no response is handed to another caller" is FALSE of the faithful model
   in its plain reading, even with a conforming broker and a FIFO connection: there is a
   reachable state (conforming broker) in which the read routine's next packet is the
   genuine answer to request [utag u] and makes a different request return.
   answer_own_or_late and reuse_needs_wrap say exactly when: the answered request had
   returned before (here: abandoned by quit) and 8192 identifiers were assigned meanwhile. *)
Definition late_answer_state : rworld :=
  match rrun rinit (AReconnect true :: ASub [[97]] WOk :: AQuit 0 :: sub_rounds (N.to_nat 8191) 1 ++
                    [ASub [[100]] WOk; BAnswer 0 [128]]) with
  | Some w => w
  | None => rinit
  end.

Theorem response_handed_to_another_caller :
  exists w d rest u x,
    rreach false w /\ r_rd w = true /\ r_b2c w = d :: rest /\ dorg d = Some u /\
    In x (q_done (fst (sl_dispatch (r_cl w) d))) /\ ~ In x (q_done (r_cl w)) /\
    rid3 x <> utag u /\ In (utag u, E_abandoned, []) (q_done (r_cl w)).
Proof.
  set (tr := AReconnect true :: ASub [[97]] WOk :: AQuit 0 :: sub_rounds (N.to_nat 8191) 1 ++
             [ASub [[100]] WOk; BAnswer 0 [128]]).
  assert (E : rrun rinit tr = Some late_answer_state).
  { unfold late_answer_state. fold tr. destruct (rrun rinit tr) eqn:X; [reflexivity|].
    exfalso. revert X. vm_compute. discriminate. }
  assert (Hr : rreach false late_answer_state).
  { apply (rrun_reach false tr rinit); [constructor|right; vm_compute; reflexivity|exact E]. }
  assert (F1 : r_rd late_answer_state = true) by (vm_compute; reflexivity).
  assert (F2 : r_b2c late_answer_state = [DSuback 24576 [128] (Some (UReq 0 24576 (Some [[97]])))])
    by (vm_compute; reflexivity).
  assert (F3 : firstn 1 (q_done (fst (sl_suback (r_cl late_answer_state) 24576 [128]))) = [(8192, E_suberr, [[100]])])
    by (vm_compute; reflexivity).
  assert (F4 : prids (r_cl late_answer_state) = [8192]) by (vm_compute; reflexivity).
  assert (F5 : existsb (fun y => (rid3 y =? 0) && (err3 y =? E_abandoned) &&
                                 (match snd y with [] => true | _ => false end))
                       (q_done (r_cl late_answer_state)) = true) by (vm_compute; reflexivity).
  clearbody tr. clear E.
  generalize dependent late_answer_state. intros w Hr F1 F2 F3 F4 F5.
  exists w, (DSuback 24576 [128] (Some (UReq 0 24576 (Some [[97]])))), [],
         (UReq 0 24576 (Some [[97]])), (8192, E_suberr, [[100]]).
  split; [exact Hr|]. split; [exact F1|]. split; [exact F2|]. split; [reflexivity|]. split.
  { cbn [sl_dispatch]. destruct (q_done (fst (sl_suback (r_cl w) 24576 [128]))) as [|y l]; [discriminate|].
    cbn [firstn] in F3. inversion F3. left. reflexivity. }
  split.
  - intros X. pose proof (ri_q _ (rworld_inv _ _ Hr)) as HI. apply (qi_disj _ HI 8192).
    + rewrite F4. left. reflexivity.
    + apply in_map_iff. exists (8192, E_suberr, [[100]]). split; [reflexivity|exact X].
  - split; [cbn; discriminate|]. cbn [utag].
    apply existsb_exists in F5 as ([[r e] f] & Hin & Hb). cbn [rid3 err3 fst snd] in Hb.
    apply andb_true_iff in Hb as [Hb Hf]. apply andb_true_iff in Hb as [Hr0 He].
    apply N.eqb_eq in Hr0, He. subst r e. destruct f; [exact Hin|discriminate].
Qed.
