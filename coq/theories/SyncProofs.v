(* L3 proofs: invariants of the synchronisation monitor [Sync.v] for every accepted event sequence,
   any number of goroutines of each kind, any schedule.

   Main results (all for [run init_state tr = Some st]):
     no_chan_panic                 panicked = false                        (C12 "without panic", F20, F6)
     write/conn/seq_token_conservation, write_token_exclusive (C08), seq_exclusive (C05),
     conn_token_exclusive, queue_close_once, thread_ids_unique
     closed_for_good, closed_implies, recv_conn_after_close, recv_write_after_close   (C10/C12)
     wait_for_acyclic, close_does_not_wait_on_itself, w_holder_step, w_holder_enabled (C12 "promptly")
     examples f6_close_during_handshake, f20_reenter_after_term, f20_pinned_refuted, ...

   HYPOTHESIS ON TRACES.  The monitor alone accepts sequences that set [panicked]
   (Examples monitor_two_readers_panic, monitor_double_close_done_panic, monitor_lingering_abort_panic,
   f20_pinned_refuted); they are over-approximations of the monitor, not behaviours of the client.
   The theorems are therefore stated for traces with [faithful r ghost0 tr = true], where r is the id of
   THE goroutine that calls ReadSlices:
     (a) every [ESpawn KRead] carries the id r (client.go: "A single goroutine must invoke ReadSlices");
     (b) goroutine r never records [ECtx false] after it recorded [ECtx true], [ERecvA true] (ErrClosed
         from the abort goroutine) or [ETerm] (ReadSlices got ErrClosed): a context stays cancelled,
         and these three are in program order of one goroutine;
     (c) goroutine r never records two [ECloseDone] in a row (close(done) is executed once per
         dialAndConnect; the monitor's R_abortrecv does not remember it).
   The WaitGroup join of termCallbacks is NOT needed for any of the results (Example no_join_needed). *)
From Coq Require Import NArith List Bool Lia Arith.
From MQ Require Import Sync.
Import ListNotations.
Local Open Scope nat_scope.

(* ---------- generic list / thread-table lemmas ---------- *)

Definition b2n (b : bool) : nat := if b then 1 else 0.

Fixpoint cnt (p : thread -> bool) (l : list (N * thread)) : nat :=
  match l with [] => 0 | it :: r => b2n (p (snd it)) + cnt p r end.

Lemma cnt_filter p l : cnt p l = length (filter (fun it => p (snd it)) l).
Proof. induction l as [|[j u] l IH]; cbn; [reflexivity|]. destruct (p u); cbn; lia. Qed.

Lemma find_set_same l i t : find_thread (set_thread l i t) i = Some t.
Proof.
  induction l as [|[j u] l IH]; cbn.
  - now rewrite N.eqb_refl.
  - destruct (N.eqb j i) eqn:E; cbn.
    + now rewrite N.eqb_refl.
    + now rewrite E.
Qed.

Lemma find_set_other l i j t : j <> i -> find_thread (set_thread l i t) j = find_thread l j.
Proof.
  intros Hn. induction l as [|[k u] l IH]; cbn.
  - destruct (N.eqb i j) eqn:E; [apply N.eqb_eq in E; congruence|reflexivity].
  - destruct (N.eqb k i) eqn:E; cbn.
    + apply N.eqb_eq in E. subst k.
      destruct (N.eqb i j) eqn:E2; [apply N.eqb_eq in E2; congruence|reflexivity].
    + destruct (N.eqb k j); [reflexivity|exact IH].
Qed.

Lemma cnt_set_some p l i t0 t : find_thread l i = Some t0 ->
  cnt p (set_thread l i t) + b2n (p t0) = cnt p l + b2n (p t).
Proof.
  induction l as [|[k u] l IH]; cbn; [discriminate|].
  destruct (N.eqb k i) eqn:E; cbn.
  - intros [= ->]. lia.
  - intros H. specialize (IH H). lia.
Qed.

Lemma cnt_set_none p l i t : find_thread l i = None ->
  cnt p (set_thread l i t) = cnt p l + b2n (p t).
Proof.
  induction l as [|[k u] l IH]; cbn; [lia|].
  destruct (N.eqb k i) eqn:E; cbn; [discriminate|].
  intros H. specialize (IH H). lia.
Qed.

Lemma cnt_found p l i t : find_thread l i = Some t -> b2n (p t) <= cnt p l.
Proof.
  induction l as [|[k u] l IH]; cbn; [discriminate|].
  destruct (N.eqb k i); [intros [= ->]; lia|]. intros H. specialize (IH H). lia.
Qed.

Lemma cnt_found2 p l i j t1 t2 : i <> j ->
  find_thread l i = Some t1 -> find_thread l j = Some t2 -> b2n (p t1) + b2n (p t2) <= cnt p l.
Proof.
  intros Hn. induction l as [|[k u] l IH]; cbn; [discriminate|].
  destruct (N.eqb k i) eqn:E1, (N.eqb k j) eqn:E2.
  - apply N.eqb_eq in E1, E2. congruence.
  - intros [= ->] H2. pose proof (cnt_found p l j t2 H2). lia.
  - intros H1 [= ->]. pose proof (cnt_found p l i t1 H1). lia.
  - intros H1 H2. specialize (IH H1 H2). lia.
Qed.

Lemma set_thread_keys_in l i t k : In k (map fst (set_thread l i t)) -> k = i \/ In k (map fst l).
Proof.
  induction l as [|[j u] l IH]; cbn.
  - intros [H|[]]; auto.
  - destruct (N.eqb j i) eqn:E; cbn.
    + intros [H|H]; auto.
    + intros [H|H]; auto. destruct (IH H); auto.
Qed.

Lemma set_thread_nodup l i t : NoDup (map fst l) -> NoDup (map fst (set_thread l i t)).
Proof.
  induction l as [|[j u] l IH]; cbn; intros H.
  - constructor; [intros []|constructor].
  - inversion H as [|? ? Hnin Hnd]; subst.
    destruct (N.eqb j i) eqn:E; cbn.
    + apply N.eqb_eq in E. subst j. now constructor.
    + constructor; [|now apply IH].
      intros Hin. apply set_thread_keys_in in Hin. destruct Hin as [->|Hin]; [|contradiction].
      now rewrite N.eqb_refl in E.
Qed.

(* pending list *)
Definition isKAbort (k : kind) : bool := match k with KAbort => true | _ => false end.
Fixpoint cntk (l : list kind) : nat :=
  match l with [] => 0 | k :: r => b2n (isKAbort k) + cntk r end.
Lemma cntk_app a b : cntk (a ++ b) = cntk a + cntk b.
Proof. induction a; cbn; lia. Qed.

Lemma kind_eqb_eq a b : kind_eqb a b = true -> a = b.
Proof. destruct a as [|[]| |[]| | |], b as [|[]| |[]| | |]; cbn; congruence. Qed.

Lemma remove_kind_in k l l' : remove_kind k l = Some l' -> forall x, In x l' -> In x l.
Proof.
  revert l'. induction l as [|y l IH]; cbn; [discriminate|]. intros l'.
  destruct (kind_eqb y k).
  - intros [= ->] x Hx. now right.
  - destruct (remove_kind k l) as [r'|]; [|discriminate]. intros [= <-] x [->|Hx]; [now left|].
    right. eapply IH; eauto.
Qed.
Lemma remove_kind_has k l l' : remove_kind k l = Some l' -> In k l.
Proof.
  revert l'. induction l as [|y l IH]; cbn; [discriminate|]. intros l'.
  destruct (kind_eqb y k) eqn:E.
  - intros _. left. now apply kind_eqb_eq.
  - destruct (remove_kind k l) as [r'|]; [|discriminate]. intros _. right. eapply IH; eauto.
Qed.
Lemma remove_kind_cntk k l l' : remove_kind k l = Some l' -> cntk l = b2n (isKAbort k) + cntk l'.
Proof.
  revert l'. induction l as [|y l IH]; cbn; [discriminate|]. intros l'.
  destruct (kind_eqb y k) eqn:E.
  - intros [= ->]. apply kind_eqb_eq in E. now subst.
  - destruct (remove_kind k l) as [r'|]; [|discriminate]. intros [= <-]. cbn.
    specialize (IH _ eq_refl). lia.
Qed.


(* ---------- classification of program counters ---------- *)

Definition rd (t : thread) : bool := match t_kind t with KRead => true | _ => false end.

(* between receiving the write token and giving it back / closing writeSem *)
Definition holdsW (t : thread) : bool :=
  match t_pc t with
  | W_hold _ | W_io | W_unlock _ | P_hold _ | P_io | P_unlock _
  | R_faildown | R_cssend | R_resend1 | R_seq1back _ | R_resend2 | R_seq2back _ | R_resendfail | R_online
  | R_ackhold _ | R_ackio | R_ackunlock _ | R_offput | K_closew | D_io | D_closew => true
  | _ => false
  end.

(* between receiving the connection token and giving it back / closing connSem *)
Definition holdsC (t : thread) : bool :=
  match t_pc t with
  | R_ctxchk | R_dial | R_hs | R_abortrecv _ | R_failw | R_faildown | R_failcs
  | R_seq1 | R_seq2 | R_wsem | R_cssend
  | K_sel | K_deflt | K_recv2 | K_closew | K_closec
  | D_sel | D_quitrecv | D_io | D_closew | D_closec => true
  | _ => false
  end.
Definition closec (t : thread) : bool :=
  match t_pc t with K_closec | D_closec => true | _ => false end.

(* between receiving the sequence token of level l and giving it back / closing that seqSem *)
Definition holdsS (l : bool) (t : thread) : bool :=
  match t_kind t, t_pc t with
  | KPersist l', (P_have | P_wsem | P_hold _ | P_io | P_unlock _ | P_release) => Bool.eqb l l'
  | KRead, (R_seq2) => negb l
  | KRead, (R_wsem | R_cssend | R_resend1 | R_seq1back _) => true
  | KRead, (R_resend2 | R_seq2back _) => l
  | KTerm l', T_closeseq => Bool.eqb l l'
  | _, _ => false
  end.
Definition atCloseq (l : bool) (t : thread) : bool :=
  match t_kind t, t_pc t with KTerm l', T_closeq => Bool.eqb l l' | _, _ => false end.

(* the read routine past the context check of connect, until connect returns via the success path *)
Definition deep (t : thread) : bool :=
  match t_pc t with
  | R_dial | R_hs | R_abortrecv _ | R_seq1 | R_seq2 | R_wsem | R_cssend | R_resend1 | R_seq1back _
  | R_resend2 | R_seq2back _ | R_resendfail | R_online => true
  | _ => false
  end.
Definition inH (t : thread) : bool := match t_pc t with R_hs | R_abortrecv _ => true | _ => false end.
Definition atHs (t : thread) : bool := match t_pc t with R_hs => true | _ => false end.
Definition atAbortrecv (t : thread) : bool := match t_pc t with R_abortrecv _ => true | _ => false end.

Definition isTerm (t : thread) : bool := match t_kind t with KTerm _ => true | _ => false end.
Definition pastCancel (t : thread) : bool :=
  match t_pc t with
  | K_csem | K_sel | K_deflt | K_recv2 | K_closew | K_closec
  | D_csem | D_sel | D_quitrecv | D_io | D_closew | D_closec => true
  | _ => false
  end.
Definition atAsel (t : thread) : bool := match t_pc t with A_sel | A_send => true | _ => false end.
Definition atAclose (t : thread) : bool := match t_pc t with A_close => true | _ => false end.
Definition liveA (t : thread) : bool := atAsel t || atAclose t.

(* ---------- ghost state: what the reader goroutine has seen ---------- *)

Record ghost := mkGhost { rseen : bool; dlast : bool }.
Definition ghost0 : ghost := mkGhost false false.
Definition sees (e : ev) : bool :=
  match e with ECtx true | ERecvA true | ETerm => true | _ => false end.
Definition is_closedone (e : ev) : bool := match e with ECloseDone => true | _ => false end.
Definition ghost_next (isr : bool) (g : ghost) (e : ev) : ghost :=
  if isr then mkGhost (rseen g || sees e) (is_closedone e) else g.
Definition ghost_ok (isr : bool) (g : ghost) (e : ev) : bool :=
  match e with
  | ESpawn KRead => isr
  | ECtx false => negb (isr && rseen g)
  | ECloseDone => negb (isr && dlast g)
  | _ => true
  end.

(* ---------- the invariant, component by component ---------- *)

Definition isWClosed (s : shared) : bool := match writesem s with WClosed => true | _ => false end.
Definition isCClosed (s : shared) : bool := match connsem s with CClosed => true | _ => false end.
Definition isCFull (s : shared) : bool := match connsem s with CFull _ => true | _ => false end.
Definition isSClosed (s : shared) (l : bool) : bool := match get_seq s l with SClosed => true | _ => false end.
Definition get_q (s : shared) (l : bool) : bool := if l then qclosed2 s else qclosed1 s.
Definition aEmpty (s : shared) : bool := match abort s with AEmpty => true | _ => false end.
Definition aOpen (s : shared) : bool := match abort s with AEmpty | AErr => true | _ => false end.

Definition wcount_ok (s : shared) (n : nat) : Prop :=
  match writesem s with WFull _ => n = 0 | WEmpty => n = 1 | WClosed => n = 0 end.
Definition ccount_ok (s : shared) (n : nat) : Prop :=
  match connsem s with CFull _ => n = 0 | CEmpty => n = 1 | CClosed => n = 0 end.
Definition scount_ok (s : shared) (l : bool) (n : nat) : Prop :=
  match get_seq s l with SFull => n = 0 | SEmpty => n = 1 | SClosed => n = 0 end.
Definition qcount_ok (s : shared) (l : bool) (n : nat) : Prop :=
  match get_seq s l with
  | SClosed => n + b2n (get_q s l) <= 1
  | _ => n = 0 /\ get_q s l = false
  end.
Definition acount_ok (s : shared) (n : nat) : Prop :=
  n <= 1 /\ (aOpen s = false -> n = 0).

Definition sh1 (s : shared) : bool := implb (isCClosed s) (isWClosed s).
Definition sh2 (s : shared) : bool := implb (isWClosed s) (ctx s && negb (isCFull s)).
Definition sh3 (rs : bool) (s : shared) (l : bool) : bool := implb (isSClosed s l) rs.
Definition shinv (rs : bool) (s : shared) : bool :=
  sh1 s && sh2 s && sh3 rs s false && sh3 rs s true.

Definition tC (s : shared) (t : thread) : bool := implb (holdsC t && negb (closec t)) (negb (isWClosed s)).
Definition tCc (s : shared) (t : thread) : bool := implb (closec t) (isWClosed s).
Definition tT (rs : bool) (t : thread) : bool := implb (isTerm t) rs.
Definition tK (s : shared) (t : thread) : bool := implb (pastCancel t) (ctx s).
Definition tA (s : shared) (t : thread) : bool := implb (atAsel t) (aEmpty s) && implb (atAclose t) (aOpen s).
Definition tinv (rs : bool) (s : shared) (t : thread) : bool :=
  tC s t && tCc s t && tT rs t && tK s t && tA s t.

(* goroutines started by a go statement that have not run yet: only termCallbacks and abort goroutines *)
Definition pinv (rs : bool) (s : shared) (k : kind) : bool :=
  match k with KTerm _ => rs | KAbort => aEmpty s | _ => false end.

(* what is known about the one reader goroutine *)
Definition rinv (g : ghost) (s : shared) (n : nat) (ot : option thread) : Prop :=
  match ot with
  | Some u =>
    if rd u then
      (deep u = true -> rseen g = false) /\
      (atHs u = true -> done_closed s = false) /\
      (atAbortrecv u = true -> done_closed s = true -> dlast g = true) /\
      (rseen g = false -> inH u = false -> n = 0)
    else rseen g = false -> n = 0
  | None => rseen g = false -> n = 0
  end.

Definition nA (st : state) : nat := cnt liveA (threads st) + cntk (pending st).

Record SInv (r : N) (g : ghost) (st : state) : Prop := {
  inv_nodup : NoDup (map fst (threads st));
  inv_panic : panicked (sh st) = false;
  inv_sh : shinv (rseen g) (sh st) = true;
  inv_w : wcount_ok (sh st) (cnt holdsW (threads st));
  inv_c : ccount_ok (sh st) (cnt holdsC (threads st));
  inv_s : forall l, scount_ok (sh st) l (cnt (holdsS l) (threads st));
  inv_q : forall l, qcount_ok (sh st) l (cnt (atCloseq l) (threads st));
  inv_a : acount_ok (sh st) (nA st);
  inv_t : forall i u, find_thread (threads st) i = Some u ->
            tinv (rseen g) (sh st) u = true /\ (rd u = true -> i = r);
  inv_p : forall k, In k (pending st) -> pinv (rseen g) (sh st) k = true;
  inv_r : rinv g (sh st) (nA st) (find_thread (threads st) r)
}.

(* ---------- case analysis of one thread step ---------- *)

Ltac tstep_cases H :=
  match type of H with
  | tstep ?s ?t ?e = Some (?s', ?t', ?ks) =>
    destruct s as [cs ws s1 s2 q1 q2 cx dc ab al pk];
    destruct t as [k p hc];
    destruct k, p; try (cbv in H; discriminate H);
    destruct e; try (cbv in H; discriminate H);
    cbv in H;
    repeat (match type of H with
            | context [match ?x with _ => _ end] => is_var x; destruct x; try discriminate H
            end);
    injection H as <- <- <-
  end.

Ltac dvar1 :=
  match goal with
  | |- context [match ?x with _ => _ end] => is_var x; destruct x
  | H : context [match ?x with _ => _ end] |- _ => is_var x; destruct x
  end.
Ltac split_all :=
  repeat match goal with
         | H : _ /\ _ |- _ => destruct H
         | |- _ /\ _ => split
         | |- _ -> _ => intro
         end.
Ltac easy_fin :=
  solve [assumption | reflexivity | discriminate | lia | congruence
        | intuition (try lia; try congruence; try discriminate)].
Ltac fin :=
  intros; repeat (match goal with g : ghost |- _ => destruct g end);
  cbn in *; unfold implb, andb, orb, negb in *; split_all; subst; cbn in *;
  first [easy_fin | (dvar1; fin)].


Lemma tstep_kind s t e s' t' ks : tstep s t e = Some (s', t', ks) -> t_kind t' = t_kind t.
Proof. intros H. tstep_cases H; reflexivity. Qed.

Lemma L_W s t e s' t' ks n : tstep s t e = Some (s', t', ks) ->
  wcount_ok s n -> b2n (holdsW t) <= n -> tC s t = true ->
  wcount_ok s' (n + b2n (holdsW t') - b2n (holdsW t)).
Proof. intros H. tstep_cases H; unfold wcount_ok, tC, isWClosed. all: fin. Qed.

Lemma L_C s t e s' t' ks n : tstep s t e = Some (s', t', ks) ->
  ccount_ok s n -> b2n (holdsC t) <= n ->
  ccount_ok s' (n + b2n (holdsC t') - b2n (holdsC t)).
Proof. intros H. tstep_cases H; unfold ccount_ok. all: fin. Qed.

Lemma L_S s t e s' t' ks l n : tstep s t e = Some (s', t', ks) ->
  scount_ok s l n -> b2n (holdsS l t) <= n ->
  (rd t && deep t = true -> isSClosed s l = false) ->
  scount_ok s' l (n + b2n (holdsS l t') - b2n (holdsS l t)).
Proof. intros H. tstep_cases H; destruct l; unfold scount_ok, isSClosed. all: fin. Qed.

Lemma L_Q s t e s' t' ks l n m : tstep s t e = Some (s', t', ks) ->
  qcount_ok s l n -> b2n (atCloseq l t) <= n ->
  scount_ok s l m -> b2n (holdsS l t) <= m ->
  (rd t && deep t = true -> isSClosed s l = false) ->
  qcount_ok s' l (n + b2n (atCloseq l t') - b2n (atCloseq l t)).
Proof. intros H. tstep_cases H; destruct l; unfold qcount_ok, scount_ok, isSClosed, get_q. all: fin. Qed.

Lemma L_A s t e s' t' ks n : tstep s t e = Some (s', t', ks) ->
  acount_ok s n -> b2n (liveA t) <= n -> tA s t = true ->
  (rd t = true -> deep t = true -> inH t = false -> n = 0) ->
  acount_ok s' (n + b2n (liveA t') + cntk ks - b2n (liveA t)).
Proof. intros H. tstep_cases H; unfold acount_ok, tA, aOpen, aEmpty, liveA. all: fin. Qed.

(* no channel panic in this step *)
Lemma L_P s t e s' t' ks isr g nw nc ns0 ns1 nq0 nq1 : tstep s t e = Some (s', t', ks) ->
  panicked s = false ->
  wcount_ok s nw -> b2n (holdsW t) <= nw ->
  ccount_ok s nc -> b2n (holdsC t) <= nc ->
  scount_ok s false ns0 -> b2n (holdsS false t) <= ns0 ->
  scount_ok s true ns1 -> b2n (holdsS true t) <= ns1 ->
  qcount_ok s false nq0 -> b2n (atCloseq false t) <= nq0 ->
  qcount_ok s true nq1 -> b2n (atCloseq true t) <= nq1 ->
  tA s t = true ->
  (rd t = true -> atAbortrecv t = true -> done_closed s = true -> dlast g = true) ->
  (rd t = true -> isr = true) ->
  ghost_ok isr g e = true ->
  panicked s' = false.
Proof.
  intros H. tstep_cases H; cbn; intros Hp; try exact Hp;
  unfold wcount_ok, ccount_ok, scount_ok, qcount_ok, tA, aOpen, aEmpty, get_q. all: fin. Qed.


Lemma L_sh1 s t e s' t' ks : tstep s t e = Some (s', t', ks) ->
  sh1 s = true -> tCc s t = true -> sh1 s' = true.
Proof. intros H. tstep_cases H; unfold sh1, tCc, isCClosed, isWClosed. all: fin. Qed.

Lemma L_sh2 s t e s' t' ks nc : tstep s t e = Some (s', t', ks) ->
  sh2 s = true -> tC s t = true -> tK s t = true ->
  ccount_ok s nc -> b2n (holdsC t) <= nc -> sh2 s' = true.
Proof. intros H. tstep_cases H; unfold sh2, tC, tK, ccount_ok, isCFull, isWClosed. all: fin. Qed.

Lemma L_sh3 s t e s' t' ks l rs rs' : tstep s t e = Some (s', t', ks) ->
  sh3 rs s l = true -> tT rs t = true -> (rs = true -> rs' = true) -> sh3 rs' s' l = true.
Proof. intros H. tstep_cases H; destruct l; unfold sh3, tT, isSClosed. all: fin. Qed.

(* the invariant of the stepping goroutine itself *)
Lemma L_t s t e s' t' ks rs rs' : tstep s t e = Some (s', t', ks) ->
  tinv rs s t = true -> sh2 s = true -> (rs = true -> rs' = true) -> tinv rs' s' t' = true.
Proof.
  intros H. tstep_cases H; unfold tinv, tC, tCc, tT, tK, tA, sh2, isWClosed, isCFull, aEmpty, aOpen.
  all: fin. Qed.

(* frame facts: what a step of t can change for the others *)
Lemma L_wclosed s t e s' t' ks : tstep s t e = Some (s', t', ks) ->
  isWClosed s' = true -> isWClosed s = true \/ holdsC t = true.
Proof. intros H. tstep_cases H; unfold isWClosed; cbn; auto. Qed.
Lemma L_wclosed_stable s t e s' t' ks : tstep s t e = Some (s', t', ks) ->
  isWClosed s = true -> isWClosed s' = true.
Proof. intros H. tstep_cases H; unfold isWClosed; cbn; auto; discriminate. Qed.
Lemma L_cclosed_stable s t e s' t' ks : tstep s t e = Some (s', t', ks) ->
  isCClosed s = true -> isCClosed s' = true.
Proof. intros H. tstep_cases H; unfold isCClosed; cbn; auto; discriminate. Qed.
Lemma L_ctx_mono s t e s' t' ks : tstep s t e = Some (s', t', ks) -> ctx s = true -> ctx s' = true.
Proof. intros H. tstep_cases H; cbn; auto. Qed.
Lemma L_abort_frame s t e s' t' ks : tstep s t e = Some (s', t', ks) -> liveA t = false ->
  (aEmpty s = true -> aEmpty s' = true) /\ (aOpen s = true -> aOpen s' = true).
Proof. intros H. tstep_cases H; unfold aEmpty, aOpen, liveA; cbn; intros; split; auto; discriminate. Qed.

Lemma L_ks s t e s' t' ks isr g : tstep s t e = Some (s', t', ks) ->
  (rd t = true -> isr = true) ->
  forallb (pinv (rseen (ghost_next isr g e)) s') ks = true.
Proof. intros H. tstep_cases H; unfold aEmpty; cbn; auto; intros Hr; rewrite Hr by reflexivity; cbn;
  rewrite ?orb_true_r; reflexivity. Qed.

Lemma L_nonreader s t e s' t' ks : tstep s t e = Some (s', t', ks) -> rd t = false ->
  done_closed s' = done_closed s /\ cntk ks = 0 /\ b2n (liveA t') <= b2n (liveA t).
Proof. intros H. tstep_cases H; cbn; intros; try discriminate; auto. Qed.

Lemma L_R s t e s' t' ks g n : tstep s t e = Some (s', t', ks) ->
  rinv g s n (Some t) -> acount_ok s n -> b2n (liveA t) <= n ->
  ghost_ok true g e = true ->
  rinv (ghost_next true g e) s' (n + b2n (liveA t') + cntk ks - b2n (liveA t)) (Some t').
Proof. intros H. tstep_cases H; unfold rinv, acount_ok, aOpen. all: fin. Qed.


Lemma cnt_set_eq p l i t t' : find_thread l i = Some t ->
  cnt p (set_thread l i t') = cnt p l + b2n (p t') - b2n (p t).
Proof.
  intros H. pose proof (cnt_set_some p l i t t' H). pose proof (cnt_found p l i t H). lia.
Qed.

Lemma cntk_in l : In KAbort l -> 1 <= cntk l.
Proof. induction l as [|k l IH]; cbn; [intros []|]. intros [->|H]; cbn; [lia|]. specialize (IH H). lia. Qed.

Lemma wcount_le1 s n : wcount_ok s n -> n <= 1.
Proof. unfold wcount_ok. destruct (writesem s); lia. Qed.
Lemma ccount_le1 s n : ccount_ok s n -> n <= 1.
Proof. unfold ccount_ok. destruct (connsem s); lia. Qed.
Lemma scount_le1 s l n : scount_ok s l n -> n <= 1.
Proof. unfold scount_ok. destruct (get_seq s l); lia. Qed.

Lemma rinv_weaken g s s' n n' ot : done_closed s' = done_closed s -> n' <= n ->
  rinv g s n ot -> rinv g s' n' ot.
Proof.
  intros Hd Hn. unfold rinv. destruct ot as [u|]; [destruct (rd u)|]; rewrite ?Hd; intuition lia.
Qed.

Lemma ghost_next_mono isr g e : rseen g = true -> rseen (ghost_next isr g e) = true.
Proof. unfold ghost_next. destruct isr; cbn; [intros ->; reflexivity|auto]. Qed.

Lemma tinv_split rs s t : tinv rs s t = true ->
  tC s t = true /\ tCc s t = true /\ tT rs t = true /\ tK s t = true /\ tA s t = true.
Proof. unfold tinv. rewrite !andb_true_iff. tauto. Qed.
Lemma shinv_split rs s : shinv rs s = true ->
  sh1 s = true /\ sh2 s = true /\ sh3 rs s false = true /\ sh3 rs s true = true.
Proof. unfold shinv. rewrite !andb_true_iff. tauto. Qed.

Section Step.
Variable r : N.

Lemma tstep_preserves g st i t e s' t' ks :
  SInv r g st -> find_thread (threads st) i = Some t -> tstep (sh st) t e = Some (s', t', ks) ->
  ghost_ok (N.eqb i r) g e = true ->
  SInv r (ghost_next (N.eqb i r) g e) (mkState s' (set_thread (threads st) i t') (pending st ++ ks)).
Proof.
  intros I Hf Hs Hg. destruct I as [Ind Ipa Ish Iw Ic Is Iq Ia It Ip Ir].
  set (isr := N.eqb i r) in *. set (g' := ghost_next isr g e).
  assert (Hmono : rseen g = true -> rseen g' = true) by apply ghost_next_mono.
  destruct (It i t Hf) as [Hti Hrd].
  assert (Hisr : rd t = true -> isr = true).
  { intros H. subst isr. rewrite (Hrd H). apply N.eqb_refl. }
  destruct (tinv_split _ _ _ Hti) as (HtC & HtCc & HtT & HtK & HtA).
  destruct (shinv_split _ _ Ish) as (Hsh1 & Hsh2 & Hsh30 & Hsh31).
  assert (Hsh3 : forall l, sh3 (rseen g) (sh st) l = true) by (intros []; assumption).
  pose proof (cnt_found holdsW _ _ _ Hf) as BW.
  pose proof (cnt_found holdsC _ _ _ Hf) as BC.
  pose proof (fun l => cnt_found (holdsS l) _ _ _ Hf) as BS.
  pose proof (fun l => cnt_found (atCloseq l) _ _ _ Hf) as BQ.
  pose proof (cnt_found liveA _ _ _ Hf) as BA0.
  assert (BA : b2n (liveA t) <= nA st) by (unfold nA; lia).
  (* what the reader invariant says when t is the reader *)
  assert (Hrt : rd t = true -> rinv g (sh st) (nA st) (Some t)).
  { intros H. rewrite (Hrd H) in Hf. rewrite Hf in Ir. exact Ir. }
  assert (Hdeep : forall l, rd t && deep t = true -> isSClosed (sh st) l = false).
  { intros l H. apply andb_true_iff in H. destruct H as [H1 H2].
    specialize (Hrt H1). unfold rinv in Hrt. rewrite H1 in Hrt. destruct Hrt as (Hd & _).
    specialize (Hd H2). specialize (Hsh3 l). unfold sh3 in Hsh3. rewrite Hd in Hsh3.
    destruct (isSClosed (sh st) l); [discriminate|reflexivity]. }
  assert (HnA : nA (mkState s' (set_thread (threads st) i t') (pending st ++ ks))
                = nA st + b2n (liveA t') + cntk ks - b2n (liveA t)).
  { unfold nA; cbn [threads pending]. rewrite (cnt_set_eq _ _ _ _ _ Hf), cntk_app. lia. }
  constructor; cbn [sh threads pending].
  - now apply set_thread_nodup.
  - eapply (L_P _ _ _ _ _ _ isr g); try eassumption; try apply Is; try apply Iq; try apply BS; try apply BQ.
    intros H1 H2 H3. specialize (Hrt H1). unfold rinv in Hrt. rewrite H1 in Hrt. tauto.
  - unfold shinv. rewrite !andb_true_iff. repeat split.
    + eapply L_sh1; eassumption.
    + eapply L_sh2; eassumption.
    + eapply L_sh3; eassumption.
    + eapply L_sh3; eassumption.
  - rewrite (cnt_set_eq _ _ _ _ _ Hf). eapply L_W; eassumption.
  - rewrite (cnt_set_eq _ _ _ _ _ Hf). eapply L_C; eassumption.
  - intros l. rewrite (cnt_set_eq _ _ _ _ _ Hf). eapply L_S; try eassumption; [apply Is|apply BS|apply Hdeep].
  - intros l. rewrite (cnt_set_eq _ _ _ _ _ Hf).
    eapply L_Q; try eassumption; [apply Iq|apply BQ|apply Is|apply BS|apply Hdeep].
  - rewrite HnA. eapply L_A; try eassumption.
    intros H1 H2 H3. specialize (Hrt H1). unfold rinv in Hrt. rewrite H1 in Hrt.
    destruct Hrt as (Hd & _ & _ & Hn). auto.
  - intros j u Hj. destruct (N.eq_dec j i) as [->|Hne].
    + rewrite find_set_same in Hj. injection Hj as <-. split.
      * eapply L_t; eassumption.
      * unfold rd in *. rewrite (tstep_kind _ _ _ _ _ _ Hs). exact Hrd.
    + rewrite find_set_other in Hj by assumption.
      destruct (It j u Hj) as [Hu Hur]. split; [|exact Hur].
      destruct (tinv_split _ _ _ Hu) as (UC & UCc & UT & UK & UA).
      unfold tinv. rewrite !andb_true_iff. repeat split.
      * unfold tC in *. destruct (holdsC u && negb (closec u)) eqn:Ex; [|reflexivity]. cbn in *.
        destruct (isWClosed s') eqn:Ew; [|reflexivity]. exfalso.
        destruct (L_wclosed _ _ _ _ _ _ Hs Ew) as [H|H].
        -- rewrite H in UC. discriminate.
        -- apply andb_true_iff in Ex. destruct Ex as [Ex _].
           pose proof (cnt_found2 holdsC _ _ _ _ _ Hne Hj Hf) as H2.
           rewrite Ex, H in H2. cbn in H2. pose proof (ccount_le1 _ _ Ic). lia.
      * unfold tCc in *. destruct (closec u); [|reflexivity]. cbn in *.
        eapply L_wclosed_stable; eassumption.
      * unfold tT in *. destruct (isTerm u); [|reflexivity]. cbn in *. auto.
      * unfold tK in *. destruct (pastCancel u); [|reflexivity]. cbn in *.
        eapply L_ctx_mono; eassumption.
      * destruct (liveA t) eqn:El.
        -- assert (liveA u = false) as Hlu.
           { destruct (liveA u) eqn:E; [|reflexivity]. exfalso.
             pose proof (cnt_found2 liveA _ _ _ _ _ Hne Hj Hf) as H2. rewrite E, El in H2. cbn in H2.
             destruct Ia as [Ia _]. unfold nA in Ia. lia. }
           unfold liveA in Hlu. apply orb_false_iff in Hlu. destruct Hlu as [L1 L2]. unfold tA. rewrite L1, L2. reflexivity.
        -- destruct (L_abort_frame _ _ _ _ _ _ Hs El) as [F1 F2].
           unfold tA in *. apply andb_true_iff in UA. destruct UA as [U1 U2].
           apply andb_true_iff. split.
           ++ destruct (atAsel u); [|reflexivity]. cbn in *. auto.
           ++ destruct (atAclose u); [|reflexivity]. cbn in *. auto.
  - intros k Hk. apply in_app_or in Hk. destruct Hk as [Hk|Hk].
    + specialize (Ip k Hk). destruct k; cbn in *; try discriminate.
      * auto.
      * destruct (liveA t) eqn:El.
        -- exfalso. pose proof (cntk_in _ Hk). destruct Ia as [Ia _]. unfold nA in Ia. cbn in BA0. lia.
        -- destruct (L_abort_frame _ _ _ _ _ _ Hs El) as [F1 F2]. auto.
    + pose proof (L_ks _ _ _ _ _ _ isr g Hs Hisr) as H. rewrite forallb_forall in H. now apply H.
  - rewrite HnA. destruct (N.eq_dec i r) as [->|Hne].
    + rewrite find_set_same. subst isr g'. rewrite N.eqb_refl in *.
      rewrite Hf in Ir. eapply L_R; eassumption.
    + rewrite find_set_other by congruence.
      assert (isr = false) as E by (subst isr; now apply N.eqb_neq).
      subst g'. rewrite E. cbn [ghost_next].
      assert (rd t = false) as Hnr.
      { destruct (rd t) eqn:Er; [|reflexivity]. specialize (Hisr eq_refl). congruence. }
      destruct (L_nonreader _ _ _ _ _ _ Hs Hnr) as (D1 & D2 & D3).
      eapply rinv_weaken; [exact D1| |exact Ir]. lia.
Qed.

End Step.


Definition quiet (t : thread) : Prop :=
  holdsW t = false /\ holdsC t = false /\ (forall l, holdsS l t = false) /\ (forall l, atCloseq l t = false) /\
  deep t = false /\ inH t = false /\ atHs t = false /\ atAbortrecv t = false.

Lemma restartable_quiet t : restartable t = true -> quiet t /\ liveA t = false.
Proof.
  destruct t as [k p hc]. unfold restartable, quiet, holdsW, holdsC, holdsS, atCloseq, deep, inH, atHs, atAbortrecv, liveA, atAsel, atAclose.
  cbn. destruct p; try discriminate; intros _; repeat split; try reflexivity; intros l; destruct k; reflexivity.
Qed.
Lemma new_thread_quiet k : quiet (new_thread k).
Proof. destruct k; repeat split; try reflexivity; intros l; reflexivity. Qed.

Section Replace.
Variable r : N.

(* a goroutine slot is (re)started: shared state unchanged *)
Lemma replace_preserves g g' st i nt p' :
  SInv r g st ->
  match find_thread (threads st) i with Some t => restartable t = true | None => True end ->
  quiet nt ->
  rseen g' = rseen g -> (i <> r -> g' = g) ->
  tinv (rseen g) (sh st) nt = true ->
  (rd nt = true -> i = r) ->
  (forall k, In k p' -> In k (pending st)) ->
  b2n (liveA nt) + cntk p' = cntk (pending st) ->
  SInv r g' (mkState (sh st) (set_thread (threads st) i nt) p').
Proof.
  intros I Hold Hq Hrs Hgg Hnt Hrd Hp Hcnt.
  destruct I as [Ind Ipa Ish Iw Ic Is Iq Ia It Ip Ir].
  destruct Hq as (QW & QC & QS & QQ & Qd & QH & Qhs & Qar).
  assert (Hc : forall p, p nt = false ->
            (forall t, find_thread (threads st) i = Some t -> restartable t = true -> p t = false) ->
            cnt p (set_thread (threads st) i nt) = cnt p (threads st)).
  { intros p Hpn Hpo. destruct (find_thread (threads st) i) as [t|] eqn:Ef.
    - rewrite (cnt_set_eq _ _ _ _ _ Ef), Hpn, (Hpo t eq_refl Hold). cbn. lia.
    - rewrite cnt_set_none by assumption. rewrite Hpn. cbn. lia. }
  assert (HnA : nA (mkState (sh st) (set_thread (threads st) i nt) p') = nA st).
  { unfold nA; cbn [threads pending]. destruct (find_thread (threads st) i) as [t|] eqn:Ef.
    - rewrite (cnt_set_eq _ _ _ _ _ Ef). destruct (restartable_quiet t Hold) as [_ ->]. cbn. lia.
    - rewrite cnt_set_none by assumption. lia. }
  constructor; cbn [sh threads pending]; rewrite ?Hrs.
  - now apply set_thread_nodup.
  - assumption.
  - assumption.
  - rewrite Hc; auto. intros t _ Hr. now destruct (restartable_quiet t Hr) as [(? & _) _].
  - rewrite Hc; auto. intros t _ Hr. now destruct (restartable_quiet t Hr) as [(_ & ? & _) _].
  - intros l. rewrite Hc; auto. intros t _ Hr. destruct (restartable_quiet t Hr) as [(_ & _ & ? & _) _]. auto.
  - intros l. rewrite Hc; auto. intros t _ Hr. destruct (restartable_quiet t Hr) as [(_ & _ & _ & ? & _) _]. auto.
  - rewrite HnA. assumption.
  - intros j u Hj. destruct (N.eq_dec j i) as [->|Hne].
    + rewrite find_set_same in Hj. injection Hj as <-. auto.
    + rewrite find_set_other in Hj by assumption. apply It; assumption.
  - intros k Hk. apply Ip. auto.
  - rewrite HnA. destruct (N.eq_dec i r) as [->|Hne].
    + rewrite find_set_same. unfold rinv in *. rewrite Hrs, Qd, Qhs, Qar, QH.
      assert (rseen g = false -> nA st = 0) as Hz.
      { destruct (find_thread (threads st) r) as [t|] eqn:Ef; [|exact Ir].
        destruct (restartable_quiet t Hold) as [(_ & _ & _ & _ & _ & H & _) _].
        destruct (rd t); [|exact Ir]. destruct Ir as (_ & _ & _ & Hn). auto. }
      destruct (rd nt); [repeat split; try discriminate; auto|exact Hz].
    + rewrite find_set_other by congruence. rewrite (Hgg Hne). exact Ir.
Qed.

Definition faithful_step (g : ghost) (o : obs) : bool := ghost_ok (N.eqb (o_tid o) r) g (o_ev o).
Definition ghost_step (g : ghost) (o : obs) : ghost := ghost_next (N.eqb (o_tid o) r) g (o_ev o).

Lemma new_thread_tinv rs s k : match k with KTerm _ | KAbort => pinv rs s k = true | _ => True end ->
  tinv rs s (new_thread k) = true.
Proof.
  destruct k; cbn; unfold tinv, tC, tCc, tT, tK, tA; cbn; intros H; rewrite ?H; reflexivity.
Qed.

Lemma step_preserves g st o st' :
  SInv r g st -> faithful_step g o = true -> step st o = Some st' -> SInv r (ghost_step g o) st'.
Proof.
  intros I Hg Hs. destruct o as [i e]. unfold faithful_step, ghost_step in *. cbn [o_tid o_ev] in *.
  assert (Hother : (match e with ESpawn _ | EStart _ => false | _ => true end) = true ->
     SInv r (ghost_next (N.eqb i r) g e) st').
  { intros He. assert (step st (mkObs i e) =
      match find_thread (threads st) i with
      | None => None
      | Some t => match tstep (sh st) t e with
                  | None => None
                  | Some (s', t', ks) => Some (mkState s' (set_thread (threads st) i t') (pending st ++ ks))
                  end end) as E by (destruct e; try discriminate He; reflexivity).
    rewrite E in Hs. destruct (find_thread (threads st) i) as [t|] eqn:Ef; [|discriminate].
    destruct (tstep (sh st) t e) as [[[s' t'] ks]|] eqn:Et; [|discriminate].
    injection Hs as <-. eapply tstep_preserves; eassumption. }
  destruct e; try (apply Hother; reflexivity); clear Hother.
  - (* ESpawn *)
    assert (Hk : match k with KTerm _ | KAbort => False | _ => True end /\
                 match find_thread (threads st) i with Some t => restartable t = true | None => True end /\
                 st' = mkState (sh st) (set_thread (threads st) i (new_thread k)) (pending st)).
    { unfold step in Hs. cbn [o_ev o_tid] in Hs.
      destruct k; try discriminate Hs; (split; [exact Logic.I|]);
      (destruct (find_thread (threads st) i) as [t|]; [destruct (restartable t); [|discriminate Hs]|]);
      injection Hs as <-; auto. }
    destruct Hk as (Hk & Hold & ->).
    apply replace_preserves with (g := g); auto.
    + apply new_thread_quiet.
    + unfold ghost_next. destruct (N.eqb i r); cbn; [apply orb_false_r|reflexivity].
    + intros Hne. apply N.eqb_neq in Hne. now rewrite Hne.
    + apply new_thread_tinv. destruct k; auto; contradiction.
    + intros Hr. destruct k; try discriminate Hr. cbn in Hg. now apply N.eqb_eq.
    + destruct k; try contradiction; reflexivity.
  - (* EStart *)
    unfold step in Hs. cbn [o_ev o_tid] in Hs.
    destruct (find_thread (threads st) i) as [t|] eqn:Ef; [discriminate|].
    destruct (remove_kind k (pending st)) as [p'|] eqn:Er; [|discriminate]. injection Hs as <-.
    pose proof (inv_p _ _ _ I k (remove_kind_has _ _ _ Er)) as Hpk.
    apply replace_preserves with (g := g); auto.
    + now rewrite Ef.
    + apply new_thread_quiet.
    + unfold ghost_next. destruct (N.eqb i r); cbn; [apply orb_false_r|reflexivity].
    + intros Hne. apply N.eqb_neq in Hne. now rewrite Hne.
    + apply new_thread_tinv. destruct k; auto.
    + intros Hr. destruct k; try discriminate Hr. discriminate Hpk.
    + eapply remove_kind_in; eassumption.
    + rewrite (remove_kind_cntk _ _ _ Er). destruct k; reflexivity.
Qed.

Lemma init_inv : SInv r ghost0 init_state.
Proof.
  constructor; cbn.
  - constructor.
  - reflexivity.
  - reflexivity.
  - reflexivity.
  - reflexivity.
  - intros []; reflexivity.
  - intros []; cbn; auto.
  - unfold acount_ok, nA. cbn. split; [lia|auto].
  - intros i u H. discriminate.
  - intros k [].
  - reflexivity.
Qed.

(* the hypotheses on a trace, relative to the id of the reader goroutine *)
Fixpoint faithful (g : ghost) (tr : list obs) : bool :=
  match tr with
  | [] => true
  | o :: rest => faithful_step g o && faithful (ghost_step g o) rest
  end.
Fixpoint ghost_run (g : ghost) (tr : list obs) : ghost :=
  match tr with [] => g | o :: rest => ghost_run (ghost_step g o) rest end.

Lemma run_preserves tr : forall g st st',
  SInv r g st -> faithful g tr = true -> run st tr = Some st' -> SInv r (ghost_run g tr) st'.
Proof.
  induction tr as [|o tr IH]; cbn; intros g st st' I Hf Hr.
  - injection Hr as <-. exact I.
  - apply andb_true_iff in Hf. destruct Hf as [Hf1 Hf2].
    destruct (step st o) as [st1|] eqn:Es; [|discriminate].
    eapply IH; [|exact Hf2|exact Hr]. eapply step_preserves; eassumption.
Qed.

Theorem reachable_inv tr st : faithful ghost0 tr = true -> run init_state tr = Some st ->
  SInv r (ghost_run ghost0 tr) st.
Proof. intros. eapply run_preserves; eauto using init_inv. Qed.

End Replace.


(* ================= 1. no channel panic ================= *)

Theorem no_chan_panic r tr st :
  faithful r ghost0 tr = true -> run init_state tr = Some st -> panicked (sh st) = false.
Proof. intros Hf Hr. exact (inv_panic _ _ _ (reachable_inv r tr st Hf Hr)). Qed.

(* ================= 2. token conservation ================= *)

Definition holders (p : thread -> bool) (st : state) : nat :=
  length (filter (fun it => p (snd it)) (threads st)).

Definition reachable (r : N) (st : state) : Prop :=
  exists tr, faithful r ghost0 tr = true /\ run init_state tr = Some st.

Theorem thread_ids_unique r st : reachable r st -> NoDup (map fst (threads st)).
Proof. intros (tr & Hf & Hr). exact (inv_nodup _ _ _ (reachable_inv r tr st Hf Hr)). Qed.

Theorem write_token_conservation r st : reachable r st ->
  match writesem (sh st) with
  | WFull _ => holders holdsW st = 0
  | WEmpty => holders holdsW st = 1
  | WClosed => holders holdsW st = 0
  end.
Proof.
  intros (tr & Hf & Hr). unfold holders. rewrite <- cnt_filter.
  exact (inv_w _ _ _ (reachable_inv r tr st Hf Hr)).
Qed.
Corollary write_token_sum r st : reachable r st -> writesem (sh st) <> WClosed ->
  holders holdsW st + (match writesem (sh st) with WFull _ => 1 | _ => 0 end) = 1.
Proof. intros H Hn. pose proof (write_token_conservation r st H). destruct (writesem (sh st)); try lia. congruence. Qed.

Theorem conn_token_conservation r st : reachable r st ->
  match connsem (sh st) with
  | CFull _ => holders holdsC st = 0
  | CEmpty => holders holdsC st = 1
  | CClosed => holders holdsC st = 0
  end.
Proof.
  intros (tr & Hf & Hr). unfold holders. rewrite <- cnt_filter.
  exact (inv_c _ _ _ (reachable_inv r tr st Hf Hr)).
Qed.

Theorem seq_token_conservation r st l : reachable r st ->
  match get_seq (sh st) l with
  | SFull => holders (holdsS l) st = 0
  | SEmpty => holders (holdsS l) st = 1
  | SClosed => holders (holdsS l) st = 0
  end.
Proof.
  intros (tr & Hf & Hr). unfold holders. rewrite <- cnt_filter.
  exact (inv_s _ _ _ (reachable_inv r tr st Hf Hr) l).
Qed.

(* the queue of a level is closed at most once, and only after its seqSem *)
Theorem queue_close_once r st l : reachable r st ->
  match get_seq (sh st) l with
  | SClosed => holders (atCloseq l) st + b2n (get_q (sh st) l) <= 1
  | _ => holders (atCloseq l) st = 0 /\ get_q (sh st) l = false
  end.
Proof.
  intros (tr & Hf & Hr). unfold holders. rewrite <- cnt_filter.
  exact (inv_q _ _ _ (reachable_inv r tr st Hf Hr) l).
Qed.

Lemma exclusive_from_count p l i j t1 t2 : cnt p l <= 1 -> i <> j ->
  find_thread l i = Some t1 -> find_thread l j = Some t2 -> p t1 = true -> p t2 = true -> False.
Proof.
  intros Hc Hn H1 H2 P1 P2. pose proof (cnt_found2 p l i j t1 t2 Hn H1 H2) as H.
  rewrite P1, P2 in H. cbn in H. lia.
Qed.

(* C08 concurrency clause: at most one goroutine is between receiving and returning the write token *)
Corollary write_token_exclusive r st i j t1 t2 : reachable r st -> i <> j ->
  find_thread (threads st) i = Some t1 -> find_thread (threads st) j = Some t2 ->
  holdsW t1 = true -> holdsW t2 = true -> False.
Proof.
  intros (tr & Hf & Hr). apply exclusive_from_count.
  exact (wcount_le1 _ _ (inv_w _ _ _ (reachable_inv r tr st Hf Hr))).
Qed.
Corollary conn_token_exclusive r st i j t1 t2 : reachable r st -> i <> j ->
  find_thread (threads st) i = Some t1 -> find_thread (threads st) j = Some t2 ->
  holdsC t1 = true -> holdsC t2 = true -> False.
Proof.
  intros (tr & Hf & Hr). apply exclusive_from_count.
  exact (ccount_le1 _ _ (inv_c _ _ _ (reachable_inv r tr st Hf Hr))).
Qed.
(* C05: submitPersisted of a level, connect/resend and termCallbacks exclude each other per level *)
Corollary seq_exclusive r st l i j t1 t2 : reachable r st -> i <> j ->
  find_thread (threads st) i = Some t1 -> find_thread (threads st) j = Some t2 ->
  holdsS l t1 = true -> holdsS l t2 = true -> False.
Proof.
  intros (tr & Hf & Hr). apply exclusive_from_count.
  exact (scount_le1 _ _ _ (inv_s _ _ _ (reachable_inv r tr st Hf Hr) l)).
Qed.

(* ================= 3. closed for good ================= *)

Lemma step_inv st o st' : step st o = Some st' ->
  (exists k p', st' = mkState (sh st) (set_thread (threads st) (o_tid o) (new_thread k)) p') \/
  (exists t s' t' ks, find_thread (threads st) (o_tid o) = Some t /\
     tstep (sh st) t (o_ev o) = Some (s', t', ks) /\
     st' = mkState s' (set_thread (threads st) (o_tid o) t') (pending st ++ ks)).
Proof.
  destruct o as [i e]. cbn [o_tid o_ev]. intros Hs.
  assert (Hother : (match e with ESpawn _ | EStart _ => false | _ => true end) = true ->
    exists t s' t' ks, find_thread (threads st) i = Some t /\
     tstep (sh st) t e = Some (s', t', ks) /\
     st' = mkState s' (set_thread (threads st) i t') (pending st ++ ks)).
  { intros He. assert (step st (mkObs i e) =
      match find_thread (threads st) i with
      | None => None
      | Some t => match tstep (sh st) t e with
                  | None => None
                  | Some (s', t', ks) => Some (mkState s' (set_thread (threads st) i t') (pending st ++ ks))
                  end end) as E by (destruct e; try discriminate He; reflexivity).
    rewrite E in Hs. destruct (find_thread (threads st) i) as [t|] eqn:Ef; [|discriminate].
    destruct (tstep (sh st) t e) as [[[s' t'] ks]|] eqn:Et; [|discriminate].
    injection Hs as <-. eauto 8. }
  destruct e; try (right; apply Hother; reflexivity); clear Hother; left.
  - unfold step in Hs. cbn [o_ev o_tid] in Hs.
    destruct k; try discriminate Hs;
    (destruct (find_thread (threads st) i) as [t|]; [destruct (restartable t); [|discriminate Hs]|]);
    injection Hs as <-; eauto.
  - unfold step in Hs. cbn [o_ev o_tid] in Hs.
    destruct (find_thread (threads st) i) as [t|]; [discriminate|].
    destruct (remove_kind k (pending st)) as [p'|]; [|discriminate]. injection Hs as <-. eauto.
Qed.

Lemma step_closed_stable st o st' : step st o = Some st' ->
  (connsem (sh st) = CClosed -> connsem (sh st') = CClosed) /\
  (writesem (sh st) = WClosed -> writesem (sh st') = WClosed).
Proof.
  intros Hs. destruct (step_inv _ _ _ Hs) as [(k & p' & ->)|(t & s' & t' & ks & Hf & Ht & ->)]; cbn [sh]; [auto|].
  split; intros H.
  - pose proof (L_cclosed_stable _ _ _ _ _ _ Ht) as L. unfold isCClosed in L. rewrite H in L.
    specialize (L eq_refl). destruct (connsem s'); try discriminate; reflexivity.
  - pose proof (L_wclosed_stable _ _ _ _ _ _ Ht) as L. unfold isWClosed in L. rewrite H in L.
    specialize (L eq_refl). destruct (writesem s'); try discriminate; reflexivity.
Qed.

(* once closed, closed for ever: holds for every state and every accepted continuation *)
Theorem closed_for_good tr : forall st st', run st tr = Some st' ->
  (connsem (sh st) = CClosed -> connsem (sh st') = CClosed) /\
  (writesem (sh st) = WClosed -> writesem (sh st') = WClosed).
Proof.
  induction tr as [|o tr IH]; cbn; intros st st' Hr.
  - injection Hr as <-. auto.
  - destruct (step st o) as [st1|] eqn:Es; [|discriminate].
    destruct (step_closed_stable _ _ _ Es) as [A B]. destruct (IH _ _ Hr) as [C D]. auto.
Qed.

Theorem closed_implies r st : reachable r st ->
  (connsem (sh st) = CClosed -> writesem (sh st) = WClosed) /\
  (writesem (sh st) = WClosed -> ctx (sh st) = true /\ forall hc, connsem (sh st) <> CFull hc).
Proof.
  intros (tr & Hf & Hr). pose proof (inv_sh _ _ _ (reachable_inv r tr st Hf Hr)) as H.
  destruct (shinv_split _ _ H) as (H1 & H2 & _). unfold sh1, sh2, isCClosed, isWClosed, isCFull in *.
  split.
  - intros E. rewrite E in H1. cbn in H1. destruct (writesem (sh st)); try discriminate; reflexivity.
  - intros E. rewrite E in H2. cbn in H2. apply andb_true_iff in H2. destruct H2 as [H2 H3].
    split; [exact H2|]. intros hc E2. rewrite E2 in H3. discriminate.
Qed.
Corollary closed_implies_ctx r st : reachable r st -> connsem (sh st) = CClosed -> ctx (sh st) = true.
Proof. intros H E. destruct (closed_implies r st H) as [A B]. apply B. auto. Qed.

(* after connSem is closed every receive on it reports ok=false and the caller returns:
   Close -> nil (Done), Disconnect -> ErrClosed (Done), connect -> ErrClosed (R_idle) *)
Theorem recv_conn_after_close s t ok hc s' t' ks : connsem s = CClosed ->
  tstep s t (ERecvC ok hc) = Some (s', t', ks) ->
  ok = false /\ s' = s /\ ks = [] /\ (t_pc t' = Done \/ t_pc t' = R_idle).
Proof.
  intros Hc H. destruct s as [cs ws s1 s2 q1 q2 cx dc ab al pk]. cbn in Hc. subst cs.
  destruct t as [k p hc0]; destruct k, p; try (cbv in H; discriminate H);
  destruct ok; cbv in H; try discriminate H;
  repeat (match type of H with context [match ?x with _ => _ end] => is_var x; destruct x; try discriminate H end);
  injection H as <- <- <-; auto.
Qed.
(* after writeSem is closed every lockWrite / writeNoWait / toOffline receive reports ok=false (ErrClosed) *)
Theorem recv_write_after_close s t ok v s' t' ks : writesem s = WClosed ->
  tstep s t (ERecvW ok v) = Some (s', t', ks) ->
  ok = false /\ s' = s /\ ks = [].
Proof.
  intros Hc H. destruct s as [cs ws s1 s2 q1 q2 cx dc ab al pk]. cbn in Hc. subst ws.
  destruct t as [k p hc0]; destruct k, p; try (cbv in H; discriminate H);
  destruct ok, v; cbv in H; try discriminate H;
  repeat (match type of H with context [match ?x with _ => _ end] => is_var x; destruct x; try discriminate H end);
  injection H as <- <- <-; auto.
Qed.


(* ================= 4. who waits for whom ================= *)

(* the four tokens, in the order in which every goroutine acquires them *)
Inductive res := RC | RS (l : bool) | RW.
Definition rrank (x : res) : nat :=
  match x with RC => 0 | RS false => 1 | RS true => 2 | RW => 3 end.
Definition holds (x : res) (t : thread) : bool :=
  match x with RC => holdsC t | RS l => holdsS l t | RW => holdsW t end.

(* t is at a point where it tries to receive token x (blocking receive, or one case of a select):
   a superset of the points where it can be blocked on x *)
Definition waitsOn (t : thread) (x : res) : bool :=
  match x, t_kind t, t_pc t with
  | RC, _, (K_csem | D_csem | R_csem | R_idle) => true
  | RW, _, (W_lock | P_wsem | R_failw | R_wsem | R_idle | R_off | R_offwait
            | K_sel | K_recv2 | D_sel | D_quitrecv) => true
  | RS l, KPersist l', P_seq => Bool.eqb l l'
  | RS l, KTerm l', T_seq => Bool.eqb l l'
  | RS l, KRead, R_seq1 => negb l
  | RS l, KRead, R_seq2 => l
  | _, _, _ => false
  end.

(* lock order: whoever waits for a token holds only tokens of lower rank (static, by program point) *)
Lemma lock_order t x y : waitsOn t y = true -> holds x t = true -> rrank x < rrank y.
Proof.
  destruct t as [k p hc].
  destruct y as [|[]|], x as [|[]|]; cbn; try lia;
  destruct p; cbn; try discriminate; destruct k as [|[]| |[]| | |]; cbn; try discriminate; try lia.
Qed.

Corollary write_holder_waits_for_nothing t x : holdsW t = true -> waitsOn t x = false.
Proof.
  intros H. destruct (waitsOn t x) eqn:E; [|reflexivity].
  pose proof (lock_order t RW x E H). destruct x as [|[]|]; cbn in *; lia.
Qed.

Definition wedge (st : state) (i : N) (x : res) (j : N) : Prop :=
  exists ti tj, find_thread (threads st) i = Some ti /\ find_thread (threads st) j = Some tj /\
                waitsOn ti x = true /\ holds x tj = true.
(* a chain of wait-for edges from i to j whose last edge is for token x *)
Inductive wchain (st : state) : N -> res -> N -> Prop :=
| wc_one i x j : wedge st i x j -> wchain st i x j
| wc_snoc i x j y k : wchain st i x j -> wedge st j y k -> wchain st i y k.

Lemma wchain_first st i y k : wchain st i y k ->
  exists ti x0, find_thread (threads st) i = Some ti /\ waitsOn ti x0 = true /\ rrank x0 <= rrank y.
Proof.
  induction 1 as [i x j (ti & tj & Hi & Hj & Hw & Hh)|i x j y k Hc IH (tj & tk & Hj & Hk & Hw & Hh)].
  - exists ti, x. auto.
  - destruct IH as (ti & x0 & Hi & Hw0 & Hr). exists ti, x0. repeat split; auto.
    assert (holds x tj = true) as Hx.
    { clear -Hc Hj. inversion Hc as [? ? ? (a & b & _ & Hb & _ & Hh)|? ? ? ? ? _ (a & b & _ & Hb & _ & Hh)]; subst;
      rewrite Hj in Hb; injection Hb as <-; exact Hh. }
    pose proof (lock_order tj x y Hw Hx). lia.
Qed.

(* the wait-for graph among goroutines has no cycle, in any state *)
Theorem wait_for_acyclic st i y : ~ wchain st i y i.
Proof.
  intros Hc. destruct (wchain_first _ _ _ _ Hc) as (ti & x0 & Hi & Hw & Hr).
  assert (holds y ti = true) as Hy.
  { inversion Hc as [? ? ? (a & b & _ & Hb & _ & Hh)|? ? ? ? ? _ (a & b & _ & Hb & _ & Hh)]; subst;
    rewrite Hi in Hb; injection Hb as <-; exact Hh. }
  pose proof (lock_order ti y x0 Hw Hy). lia.
Qed.

Lemma cnt_pos_find p l : NoDup (map fst l) -> 1 <= cnt p l ->
  exists j t, find_thread l j = Some t /\ p t = true.
Proof.
  induction l as [|[k u] l IH]; cbn; [lia|]. intros Hnd H. inversion Hnd as [|? ? Hnin Hnd']; subst.
  destruct (p u) eqn:E.
  - exists k, u. now rewrite N.eqb_refl.
  - cbn in H. destruct (IH Hnd' H) as (j & t & Hj & Hp).
    exists j, t. split; [|exact Hp].
    destruct (N.eqb k j) eqn:Ek; [|exact Hj]. exfalso. apply N.eqb_eq in Ek. subst k.
    apply Hnin. clear -Hj. induction l as [|[a b] l IH]; cbn in *; [discriminate|].
    destruct (N.eqb a j) eqn:Ea; [left; now apply N.eqb_eq|right; auto].
Qed.

Definition blockedClose (s : shared) (t : thread) : option res :=
  match t_pc t, connsem s, writesem s with
  | (K_csem | D_csem), CEmpty, _ => Some RC
  | (K_recv2 | D_quitrecv), _, WEmpty => Some RW
  | _, _, _ => None
  end.

(* C12 "return promptly", safety half: a blocked Close/Disconnect waits for exactly one other goroutine,
   which holds the token, and that goroutine does not wait (directly or through others) for the
   Close/Disconnect goroutine *)
Theorem close_does_not_wait_on_itself r st i t x : reachable r st ->
  find_thread (threads st) i = Some t -> blockedClose (sh st) t = Some x ->
  exists j tj, j <> i /\ find_thread (threads st) j = Some tj /\ holds x tj = true /\
    wedge st i x j /\
    (forall j' tj', find_thread (threads st) j' = Some tj' -> holds x tj' = true -> j' = j) /\
    (forall y, ~ wchain st j y i).
Proof.
  intros (tr & Hf & Hr) Hi Hb. pose proof (reachable_inv r tr st Hf Hr) as I.
  assert (Hx : 1 <= cnt (holds x) (threads st) <= 1 /\ waitsOn t x = true /\ holds x t = false).
  { unfold blockedClose in Hb. pose proof (inv_c _ _ _ I) as Ic. pose proof (inv_w _ _ _ I) as Iw.
    unfold ccount_ok, wcount_ok in *. destruct t as [k p hc]. cbn in Hb.
    destruct p; try discriminate Hb;
    destruct (connsem (sh st)); try discriminate Hb; destruct (writesem (sh st)); try discriminate Hb;
    injection Hb as <-; cbn; repeat split; try lia; try reflexivity;
    try (change (holds RC) with holdsC; lia); try (change (holds RW) with holdsW; lia). }
  destruct Hx as ([Hge Hle] & Hw & Hnh).
  destruct (cnt_pos_find _ _ (inv_nodup _ _ _ I) Hge) as (j & tj & Hj & Hh).
  assert (j <> i) as Hne by (intros ->; rewrite Hi in Hj; injection Hj as <-; congruence).
  exists j, tj. repeat split; auto.
  - exists t, tj. auto.
  - intros j' tj' Hj' Hh'. destruct (N.eq_dec j' j) as [|Hn]; [assumption|exfalso].
    eapply (exclusive_from_count (holds x)); eauto.
  - intros y Hc. apply (wait_for_acyclic st j x). eapply wc_snoc; [exact Hc|]. exists t, tj. auto.
Qed.


(* program points that belong to the kind of the goroutine (the points W_io P_io R_ackio K_deflt R_csem
   exist in the type but no rule produces them) *)
Definition wfk (t : thread) : bool :=
  match t_kind t, t_pc t with
  | KWrite, (W_lock | W_hold _ | W_wait | W_unlock _ | Done) => true
  | KPersist _, (P_seq | P_have | P_wsem | P_hold _ | P_unlock _ | P_release | Done) => true
  | KRead, (R_idle | R_ctxchk | R_dial | R_hs | R_abortrecv _ | R_failw | R_faildown | R_failcs
            | R_seq1 | R_seq2 | R_wsem | R_cssend | R_resend1 | R_seq1back _ | R_resend2 | R_seq2back _
            | R_resendfail | R_online | R_ackhold _ | R_ackunlock _ | R_off | R_offwait | R_offput | R_term) => true
  | KTerm _, (T_seq | T_closeseq | T_closeq | T_done) => true
  | KAbort, (A_sel | A_send | A_close | A_done) => true
  | KClose, (K_cancel | K_csem | K_sel | K_recv2 | K_closew | K_closec | Done) => true
  | KDisc, (D_cancel | D_csem | D_sel | D_quitrecv | D_io | D_closew | D_closec | Done) => true
  | _, _ => false
  end.

Lemma tstep_wfk s t e s' t' ks : tstep s t e = Some (s', t', ks) -> wfk t' = true.
Proof. intros H. tstep_cases H; reflexivity. Qed.
Lemma new_thread_wfk k : wfk (new_thread k) = true.
Proof. destruct k; reflexivity. Qed.

Definition WfK (st : state) : Prop := forall i t, find_thread (threads st) i = Some t -> wfk t = true.
Lemma run_wfk tr : forall st st', WfK st -> run st tr = Some st' -> WfK st'.
Proof.
  induction tr as [|o tr IH]; cbn; intros st st' W Hr.
  - injection Hr as <-. exact W.
  - destruct (step st o) as [st1|] eqn:Es; [|discriminate]. eapply IH; [|exact Hr].
    intros j u Hj.
    destruct (step_inv _ _ _ Es) as [(k & p' & ->)|(t & s' & t' & ks & Hf & Ht & ->)]; cbn [threads] in Hj.
    + destruct (N.eq_dec j (o_tid o)) as [->|Hn].
      * rewrite find_set_same in Hj. injection Hj as <-. apply new_thread_wfk.
      * rewrite find_set_other in Hj by assumption. eapply W; eauto.
    + destruct (N.eq_dec j (o_tid o)) as [->|Hn].
      * rewrite find_set_same in Hj. injection Hj as <-. eapply tstep_wfk; eauto.
      * rewrite find_set_other in Hj by assumption. eapply W; eauto.
Qed.
Theorem reachable_wfk tr st : run init_state tr = Some st -> WfK st.
Proof. apply run_wfk. intros i t H. discriminate. Qed.

(* number of own steps a holder of the write token needs at most before it gives it back or closes writeSem *)
Definition wdist (t : thread) : nat :=
  match t_pc t with
  | R_cssend => 7 | R_resend1 => 6 | R_seq1back _ => 5 | R_resend2 => 4 | R_seq2back _ => 3
  | W_hold _ | P_hold _ | R_ackhold _ | D_io => 2
  | _ => 1
  end.

(* static: every step of a holder of the write token releases it or brings the release nearer *)
Lemma w_holder_step s t e s' t' ks : tstep s t e = Some (s', t', ks) -> holdsW t = true ->
  holdsW t' = false \/ wdist t' < wdist t.
Proof. intros H. tstep_cases H; cbn; intros; try discriminate; auto; right; lia. Qed.

Ltac by_ev e := exists e; cbv; do 3 eexists; reflexivity.

(* in every reachable state the holder of the write token has an enabled step: it waits for nobody.
   Together with w_holder_step: the write token is back (or writeSem closed) after at most 7 steps of
   the holder alone, whatever the others do; so a Close blocked at K_recv2 / D_quitrecv waits only for
   those steps (I/O gates EIO are assumed to return: they carry deadlines or are interrupted by conn.Close). *)
Theorem w_holder_enabled r st i t : reachable r st ->
  find_thread (threads st) i = Some t -> holdsW t = true ->
  exists e s' t' ks, tstep (sh st) t e = Some (s', t', ks).
Proof.
  intros (tr & Hf & Hr) Hi Hh. pose proof (reachable_inv r tr st Hf Hr) as I.
  pose proof (reachable_wfk tr st Hr i t Hi) as Hk.
  pose proof (inv_w _ _ _ I) as Iw. pose proof (inv_c _ _ _ I) as Ic. pose proof (inv_s _ _ _ I) as Is.
  pose proof (cnt_found holdsW _ _ _ Hi) as BW. rewrite Hh in BW. cbn in BW.
  pose proof (cnt_found holdsC _ _ _ Hi) as BC.
  pose proof (Is false) as Is0. pose proof (Is true) as Is1.
  pose proof (cnt_found (holdsS false) _ _ _ Hi) as BS0.
  pose proof (cnt_found (holdsS true) _ _ _ Hi) as BS1.
  unfold wcount_ok, ccount_ok, scount_ok in *.
  destruct (sh st) as [cs ws s1 s2 q1 q2 cx dc ab al pk]. cbn in Iw, Ic, Is0, Is1.
  destruct ws; try lia.
  destruct t as [k p hc]; destruct k, p; try discriminate Hh; try discriminate Hk; cbn in BC, BS0, BS1;
  repeat match goal with v : wval |- _ => destruct v end;
  try (destruct cs; try lia); try (destruct s1; try lia); try (destruct s2; try lia);
  first [ by_ev (ESendW WvDown) | by_ev (ESendW WvPend) | by_ev (ESendW WvConn) | by_ev (EIO true)
        | by_ev ECloseW | by_ev (ESendC true) | by_ev (ESendS false) | by_ev (ESendS true)
        | (destruct ok; first [ by_ev (ESendW WvPend) | by_ev (ESendW WvConn) | by_ev (ESendS false) | by_ev (ESendS true)]) ].
Qed.


(* ================= 5. non-vacuity and the limits of the monitor ================= *)

Definition ob (i : N) (e : ev) : obs := mkObs i e.
Definition final_panicked (tr : list obs) : option bool :=
  match run init_state tr with Some st => Some (panicked (sh st)) | None => None end.

(* goroutines: 1 read routine, 2 abort, 3 Close, 4 5 termCallbacks levels, 6 a second abort *)
Definition term_part : list obs :=
  [ob 1 ETerm; ob 4 (EStart (KTerm false)); ob 5 (EStart (KTerm true));
   ob 4 (ERecvS false true); ob 4 (ECloseS false); ob 4 (ECloseQ false);
   ob 5 (ERecvS true true); ob 5 (ECloseS true); ob 5 (ECloseQ true);
   ob 1 ERet].

(* F6: Close during the handshake.  R dials, the abort goroutine starts, Close cancels, the abort
   goroutine sends ErrClosed and closes abort, R closes done, receives the abort error and takes the
   error path; Close then takes both semaphores and closes them; termCallbacks; ReadSlices again *)
Definition tr_f6 : list obs :=
  [ob 1 (ESpawn KRead); ob 1 (ERecvC true false); ob 1 (ECtx false); ob 1 (EIO true);
   ob 2 (EStart KAbort);
   ob 3 (ESpawn KClose); ob 3 ECancel;
   ob 2 (ECtx true); ob 2 ESendA; ob 2 ECloseA;
   ob 1 (EIO false); ob 1 ECloseDone; ob 1 (ERecvA true);
   ob 1 ERecvWAny; ob 1 (ESendW WvDown); ob 1 (ESendC false);
   ob 3 (ERecvC true false); ob 3 (ERecvW true WvDown); ob 3 ECloseW; ob 3 ECloseC]
  ++ term_part ++ [ob 1 (ERecvC false false)].
Example f6_close_during_handshake :
  final_panicked tr_f6 = Some false /\ faithful 1 ghost0 tr_f6 = true.
Proof. vm_compute. split; reflexivity. Qed.

(* F20: Close has cancelled but not yet taken connSem; connect returns ErrClosed, termCallbacks closes
   the sequence semaphores, ReadSlices is called again: connSem is still there, the context check sends
   it back; then Close completes *)
Definition tr_f20_prefix : list obs :=
  [ob 1 (ESpawn KRead); ob 3 (ESpawn KClose); ob 3 ECancel;
   ob 1 (ERecvC true false); ob 1 (ECtx true); ob 1 (ESendC false)] ++ term_part.
Definition tr_f20 : list obs :=
  tr_f20_prefix ++
  [ob 1 (ERecvC true false); ob 1 (ECtx true); ob 1 (ESendC false);
   ob 3 (ERecvC true false); ob 3 (ERecvW true WvPend); ob 3 ECloseW; ob 3 ECloseC;
   ob 1 (ERecvC false false)].
Example f20_reenter_after_term :
  final_panicked tr_f20 = Some false /\ faithful 1 ghost0 tr_f20 = true.
Proof. vm_compute. split; reflexivity. Qed.

(* what the context check prevents: the pinned code went on to dial (here: ECtx false although the
   reader has seen the cancellation), a Dialer that ignores the context succeeds, the handshake
   succeeds, the closed sequence semaphores are "received" and the send back panics.  The monitor
   accepts this sequence: it is the hypothesis [faithful] that excludes it. *)
Definition tr_f20_pinned : list obs :=
  tr_f20_prefix ++
  [ob 1 (ERecvC true false); ob 1 (ECtx false); ob 1 (EIO true); ob 6 (EStart KAbort); ob 1 (EIO true);
   ob 1 ECloseDone; ob 6 ERecvDone; ob 6 ECloseA; ob 1 (ERecvA false);
   ob 1 (ERecvSAny false); ob 1 (ERecvSAny true); ob 1 ERecvWAny; ob 1 (ESendC true); ob 1 (EIO true);
   ob 1 (ESendS false)].
Example f20_pinned_refuted :
  final_panicked tr_f20_pinned = Some true /\ faithful 1 ghost0 tr_f20_pinned = false.
Proof. vm_compute. split; reflexivity. Qed.

(* the same from an arbitrary state with a closed seqSem: receiving it without ok check and sending it
   back sets [panicked] *)
Example closed_seq_send_panics s hc s1 t1 s2 t2 ks1 ks2 :
  seq1 s = SClosed ->
  tstep s (mkThread KRead R_seq1 hc) (ERecvSAny false) = Some (s1, t1, ks1) ->
  tstep s1 (mkThread KRead (R_seq1back true) hc) (ESendS false) = Some (s2, t2, ks2) ->
  panicked s2 = true.
Proof.
  destruct s as [cs ws q1 q2 a b c d e f g]. cbn. intros ->. cbv. intros [= <- <- <-]. cbv. intros [= <- <- <-].
  reflexivity.
Qed.

(* Each clause of [faithful] is needed FOR THE MONITOR (these are over-approximations of the monitor,
   not behaviours of the client): *)
(* (a) two goroutines in ReadSlices (the API demands a single one), and ETerm guarded by ctx only *)
Definition tr_two_readers : list obs :=
  [ob 2 (ESpawn KRead); ob 2 (ERecvC true false); ob 2 (ECtx false); ob 2 (EIO true); ob 6 (EStart KAbort);
   ob 2 (EIO true); ob 2 ECloseDone; ob 6 ERecvDone; ob 6 ECloseA; ob 2 (ERecvA false);
   ob 3 (ESpawn KClose); ob 3 ECancel;
   ob 1 (ESpawn KRead); ob 1 ETerm; ob 4 (EStart (KTerm false)); ob 4 (ERecvS false true); ob 4 (ECloseS false);
   ob 2 (ERecvSAny false); ob 2 (ERecvSAny true); ob 2 ERecvWAny; ob 2 (ESendC true); ob 2 (EIO true);
   ob 2 (ESendS false)].
Example monitor_two_readers_panic :
  final_panicked tr_two_readers = Some true /\ faithful 2 ghost0 tr_two_readers = false
  /\ faithful 1 ghost0 tr_two_readers = false.
Proof. vm_compute. repeat split; reflexivity. Qed.
(* (b) R_abortrecv does not record whether close(done) was executed: ECloseDone is accepted twice *)
Definition tr_double_done : list obs :=
  [ob 1 (ESpawn KRead); ob 1 (ERecvC true false); ob 1 (ECtx false); ob 1 (EIO true); ob 1 (EIO true);
   ob 1 ECloseDone; ob 1 ECloseDone].
Example monitor_double_close_done_panic :
  final_panicked tr_double_done = Some true /\ faithful 1 ghost0 tr_double_done = false.
Proof. vm_compute. split; reflexivity. Qed.
(* (c) one abort channel for all dialAndConnect calls + ECtx false after the reader received ErrClosed
   from the abort goroutine: the old abort goroutine closes the channel of the new one *)
Definition tr_linger : list obs :=
  [ob 1 (ESpawn KRead); ob 1 (ERecvC true false); ob 1 (ECtx false); ob 1 (EIO true); ob 2 (EStart KAbort);
   ob 3 (ESpawn KClose); ob 3 ECancel; ob 2 (ECtx true); ob 2 ESendA;
   ob 1 (EIO false); ob 1 ECloseDone; ob 1 (ERecvA true);
   ob 1 ERecvWAny; ob 1 (ESendW WvDown); ob 1 (ESendC false);
   ob 1 (ERecvC true false); ob 1 (ECtx false); ob 1 (EIO true);
   ob 2 ECloseA; ob 6 (EStart KAbort); ob 6 (ECtx true); ob 6 ESendA].
Example monitor_lingering_abort_panic :
  final_panicked tr_linger = Some true /\ faithful 1 ghost0 tr_linger = false.
Proof. vm_compute. split; reflexivity. Qed.

(* the join of termCallbacks (WaitGroup) is NOT needed for the absence of panics: the read routine
   returns from termCallbacks before its goroutines ran, re-enters connect, and nothing panics *)
Definition tr_no_join : list obs :=
  [ob 1 (ESpawn KRead); ob 3 (ESpawn KClose); ob 3 ECancel;
   ob 1 (ERecvC true false); ob 1 (ECtx true); ob 1 (ESendC false);
   ob 1 ETerm; ob 1 ERet;
   ob 1 (ERecvC true false); ob 1 (ECtx true); ob 1 (ESendC false);
   ob 4 (EStart (KTerm false)); ob 4 (ERecvS false true); ob 4 (ECloseS false); ob 4 (ECloseQ false);
   ob 1 ETerm; ob 7 (EStart (KTerm false)); ob 7 (ERecvS false false)].
Example no_join_needed :
  final_panicked tr_no_join = Some false /\ faithful 1 ghost0 tr_no_join = true.
Proof. vm_compute. split; reflexivity. Qed.


(* ================= trace-level restatement for the case checker ================= *)

(* the reader goroutine of a recorded trace: the first one that calls ReadSlices *)
Fixpoint reader_of (tr : list obs) : N :=
  match tr with
  | [] => 0%N
  | o :: rest => match o_ev o with ESpawn KRead => o_tid o | _ => reader_of rest end
  end.
Definition faithful_tr (tr : list obs) : bool := faithful (reader_of tr) ghost0 tr.

Corollary no_chan_panic_tr tr st :
  faithful_tr tr = true -> run init_state tr = Some st -> panicked (sh st) = false.
Proof. apply no_chan_panic. Qed.
