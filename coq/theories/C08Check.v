(* C08: a connection carries whole packets only; success means written completely.
   Judged on the observed trace of a history. *)
From MQ Require Export Trace Packets.

(* 1. every connection: complete packets, then at most one incomplete packet *)
Definition conn_whole (t : list tev) (c : N) : bool :=
  let '(_, tail) := packets_of (out_bytes c t) in incomplete_tail tail.

(* bytes accepted during API call i *)
Fixpoint step_bytes (i : N) (t : list tev) : list N :=
  match t with
  | [] => []
  | TEv j (QWrite _ bs) a :: r => if j =? i then accepted_of bs a ++ step_bytes i r else step_bytes i r
  | _ :: r => step_bytes i r
  end.
Fixpoint step_saved (i : N) (t : list tev) : option (list N) :=
  match t with
  | [] => None
  | TEv j (QSave k v) ADone :: r => if (j =? i) && (in_alo k || in_eo k) then stored_packet v else step_saved i r
  | _ :: r => step_saved i r
  end.

(* 2. a request that reports success had its packet written completely *)
Definition success_complete (t : list tev) (e : tev) : bool :=
  match e with
  | TRet i (OpPublish retain msg topic) (RetErr 0) _ _ _ =>
      list_eqb (step_bytes i t) (publish_packet (head_publish 0 retain false) topic msg 0)
  | TRet i OpDisconnect (RetErr 0) _ _ _ => list_eqb (step_bytes i t) packet_disconnect
  | TRet i (OpPubP _ _ _ _) (RetExch x) _ xev _ =>
      if existsb (fun xe => (fst xe =? x) && match snd xe with Some _ => true | None => false end) xev then true
      else match step_saved i t with
           | Some p => list_eqb (step_bytes i t) p
           | None => false
           end
  | _ => true
  end.

(* 3. nothing follows an incomplete packet: after a Write call that did not complete, the next
   Write on that connection (if any) offers exactly the bytes that call left over (the retry
   after a deadline expiry with progress); anything else would sit behind a broken packet *)
Fixpoint retry_only (c : N) (t : list tev) (pending : option (list N)) : bool :=
  match t with
  | [] => true
  | TEv _ (QWrite c' bs) (AWr n r) :: rest =>
    if c' =? c then
      (match pending with Some rem => list_eqb bs rem | None => true end) &&
      retry_only c rest (match r with
                         | WOk => None
                         | _ => match skipn (N.to_nat n) bs with
                                | [] => None            (* everything offered was taken: the packet goes on with the next buffer *)
                                | rem => Some rem
                                end
                         end)
    else retry_only c rest pending
  | _ :: rest => retry_only c rest pending
  end.

Definition c08_ok (h : histcase) : bool :=
  let t := trace_of h in
  no_panic t && forallb (conn_whole t) (conns t) && forallb (success_complete t) t
  && forallb (fun c => retry_only c t None) (conns t).

Definition c08_run (l : list histcase) : list N * list N * list (N * N) :=
  (idx_filter hist_agree l 0, idx_filter c08_ok l 0, []).
