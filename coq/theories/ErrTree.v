(* L0: Go error values as wrap/join trees, and the error classifiers of
   /repo/mqtt.go (nonNilIsAny, IsDeny, IsEnd, IsConnectionRefused),
   /repo/request.go (Client.Backoff) and /repo/client.go (Client.ReadBackoff).
   Definitions only (executable).  Proofs: ErrTreeProofs.v. *)
From MQ Require Export Bytes.

(* A Go error value.  What the classifiers can see of it:
   - identity (==) against the package's sentinel variables,
   - the dynamic type (errors.As to connectReturn / SubscribeError),
   - `Unwrap() error` and `Unwrap() []error`.
   None of the error types of the package has an Is(error) or As(any) method
   (grep: no "func (...) Is(" / "As(" in /repo/*.go); foreign leaves with such
   methods (syscall.Errno) answer false for this package's sentinels, so they
   are Opaque here. *)
Inductive gerr :=
| Sentinel (id : N)                     (* one of the package's errors.New values *)
| Wrap1 (inner : option gerr)           (* Unwrap() error; may return nil *)
| WrapN (inner : list (option gerr))    (* Unwrap() []error: errors.Join, fmt.Errorf with
                                           several %w; a custom type may hold nils *)
| ConnRet (code : N)                    (* connectReturn value (comparable) *)
| SubErr                                (* SubscribeError: a slice type, matched by errors.As only *)
| Opaque (id : N).                      (* any other leaf, e.g. a net error *)

(* Sentinel identifiers.  The harness maps the real values onto these numbers
   by identity (exported ones) or by independent acquisition (unexported ones). *)
Definition ErrClosed    : N := 1.
Definition ErrDown      : N := 2.
Definition ErrMax       : N := 3.
Definition ErrCanceled  : N := 4.
Definition ErrAbandoned : N := 5.
Definition ErrSubmit    : N := 6.
Definition ErrBreak     : N := 7.
Definition errPacketMax       : N := 10.
Definition errStringMax       : N := 11.
Definition errUTF8            : N := 12.
Definition errNull            : N := 13.
Definition errZero            : N := 14.
Definition errSubscribeNone   : N := 15.
Definition errUnsubscribeNone : N := 16.
Definition errProtoReset      : N := 20.

(* mqtt.go: var denyErrs = []error{errPacketMax, errStringMax, errUTF8, errNull,
   errZero, errSubscribeNone, errUnsubscribeNone} *)
Definition deny_ids : list N :=
  [errPacketMax; errStringMax; errUTF8; errNull; errZero; errSubscribeNone; errUnsubscribeNone].
(* mqtt.go: var endErrs = []error{ErrClosed, ErrCanceled, ErrAbandoned} *)
Definition end_ids : list N := [ErrClosed; ErrCanceled; ErrAbandoned].
(* request.go: denyAndEndErrs = append(append(make(...), denyErrs...), endErrs...) *)
Definition deny_and_end_ids : list N := deny_ids ++ end_ids.

Definition all_sentinel_ids : list N :=
  [ErrClosed; ErrDown; ErrMax; ErrCanceled; ErrAbandoned; ErrSubmit; ErrBreak] ++ deny_ids ++ [errProtoReset].

(* ---- nonNilIsAny, literally ------------------------------------------------

   func nonNilIsAny(err error, matches []error) bool {
       var more []error
       for {
           withIs, hasIs := err.(interface{ Is(error) bool })
           for _, match := range matches {
               if err == match || hasIs && withIs.Is(match) { return true }
           }
           switch u := err.(type) {
           case interface{ Unwrap() error }:
               err = u.Unwrap()
               if err != nil { continue }
           case interface{ Unwrap() []error }:
               wrapped := u.Unwrap()
               more = append(more, wrapped...)
           }
           if len(more) == 0 { return false }
           err = more[len(more)-1]
           more = more[:len(more)-1]
       }
   }

   The loop variable `err` may become nil: a popped entry of a []error can be
   nil.  A nil interface matches nothing and has no Unwrap, so it falls through
   to the pop.  `more` is kept exactly as the Go slice: appended at the end,
   popped from the end. *)

(* err == match for some match; targets are sentinel identifiers *)
Definition matches_any (e : gerr) (targets : list N) : bool :=
  match e with
  | Sentinel id => existsb (N.eqb id) targets
  | _ => false
  end.

(* more[len(more)-1], more[:len(more)-1] *)
Fixpoint pop_last {A} (l : list A) : option (list A * A) :=
  match l with
  | [] => None
  | x :: r => match pop_last r with
              | None => Some ([], x)
              | Some (r', y) => Some (x :: r', y)
              end
  end.

(* One fuel unit per loop iteration.  None = fuel exhausted. *)
Fixpoint nnia_loop (fuel : nat) (targets : list N) (err : option gerr) (more : list (option gerr))
  : option bool :=
  match fuel with
  | O => None
  | S f =>
      (* the tail of the loop body: `if len(more) == 0 {return false}`, pop, next iteration *)
      let pop (more : list (option gerr)) :=
        match pop_last more with
        | None => Some false
        | Some (more', e') => nnia_loop f targets e' more'
        end in
      match err with
      | None => pop more
      | Some e =>
          if matches_any e targets then Some true else
          match e with
          | Wrap1 (Some i) => nnia_loop f targets (Some i) more    (* continue *)
          | Wrap1 None => pop more
          | WrapN wrapped => pop (more ++ wrapped)
          | _ => pop more
          end
      end
  end.

(* number of loop iterations a (sub)tree costs: one per non-nil node, one per nil
   entry of a []error *)
Fixpoint gsize (e : gerr) : nat :=
  match e with
  | Wrap1 (Some i) => S (gsize i)
  | WrapN ws =>
      S ((fix lsz (l : list (option gerr)) : nat :=
            match l with
            | [] => O
            | None :: r => S (lsz r)
            | Some i :: r => (gsize i + lsz r)%nat
            end) ws)
  | _ => 1%nat
  end.
Definition osize (o : option gerr) : nat :=
  match o with None => 1%nat | Some e => gsize e end.
Fixpoint lsize (l : list (option gerr)) : nat :=
  match l with [] => O | o :: r => (osize o + lsize r)%nat end.

Definition fuel_of (e : gerr) : nat := gsize e.

Definition non_nil_is_any (e : gerr) (targets : list N) : bool :=
  match nnia_loop (fuel_of e) targets (Some e) [] with
  | Some b => b
  | None => false      (* unreachable: nnia_fuel_enough *)
  end.

(* IsDeny / IsEnd: `err != nil && nonNilIsAny(err, ...)` *)
Definition is_deny (e : gerr) : bool := non_nil_is_any e deny_ids.
Definition is_end  (e : gerr) : bool := non_nil_is_any e end_ids.
Definition is_deny_o (o : option gerr) : bool :=
  match o with None => false | Some e => is_deny e end.
Definition is_end_o (o : option gerr) : bool :=
  match o with None => false | Some e => is_end e end.

(* ---- errors.Is / errors.As of the standard library (go1.26 errors/wrap.go) ---- *)

(* errors.Is(err, target) for non-nil err and a sentinel target: pre-order,
   depth first; `Unwrap() error` returning nil ends the chain; nil entries of a
   []error match nothing. *)
Fixpoint go_is (t : N) (e : gerr) : bool :=
  match e with
  | Sentinel id => N.eqb id t
  | Wrap1 (Some i) => go_is t i
  | WrapN ws =>
      (fix any (l : list (option gerr)) : bool :=
         match l with
         | [] => false
         | None :: r => any r
         | Some i :: r => if go_is t i then true else any r
         end) ws
  | _ => false
  end.

(* errors.As(err, &target): the first node in pre-order whose dynamic type is
   assignable to the target type; `ty` is that type test. *)
Fixpoint go_as (ty : gerr -> bool) (e : gerr) : option gerr :=
  if ty e then Some e else
  match e with
  | Wrap1 (Some i) => go_as ty i
  | WrapN ws =>
      (fix first (l : list (option gerr)) : option gerr :=
         match l with
         | [] => None
         | None :: r => first r
         | Some i :: r => match go_as ty i with Some x => Some x | None => first r end
         end) ws
  | _ => None
  end.

Definition is_connret_ty (e : gerr) : bool := match e with ConnRet _ => true | _ => false end.
Definition is_suberr_ty  (e : gerr) : bool := match e with SubErr => true | _ => false end.

(* func IsConnectionRefused(err error) bool {
       var code connectReturn
       if errors.As(err, &code) { return code != accepted }
       return false }            errors.As(nil, ..) = false *)
Definition is_conn_refused (e : gerr) : bool :=
  match go_as is_connret_ty e with
  | Some (ConnRet code) => negb (N.eqb code 0)
  | _ => false
  end.
Definition is_conn_refused_o (o : option gerr) : bool :=
  match o with None => false | Some e => is_conn_refused e end.

Definition has_sub_err (e : gerr) : bool :=
  match go_as is_suberr_ty e with Some _ => true | None => false end.

(* ---- Client.Backoff (request.go) --------------------------------------------
   switch {
   case err == nil || nonNilIsAny(err, denyAndEndErrs): return nil
   case errors.Is(err, ErrMax):                          return <shared timer channel>
   case errors.As(err, new(SubscribeError)):             return nil
   default:                                              return c.Online()
   } *)
Inductive bclass := BNil | BSharedTimer | BOnline.

Definition backoff_class (o : option gerr) : bclass :=
  match o with
  | None => BNil
  | Some e =>
      if non_nil_is_any e deny_and_end_ids then BNil
      else if go_is ErrMax e then BSharedTimer
      else if has_sub_err e then BNil
      else BOnline
  end.

(* ---- Client.ReadBackoff (client.go), the decision only ----------------------
   switch {
   case err == nil, c.bigMessage != nil: return closed   // no backoff
   case errors.Is(err, ErrClosed):       return nil      // blocks
   ... every other case: a channel closed by a timer
   } *)
Inductive rclass := RClosedChan | RNil | RTimer.

Definition read_backoff_class (o : option gerr) (big_pending : bool) : rclass :=
  match o with
  | None => RClosedChan
  | Some e =>
      if big_pending then RClosedChan
      else if go_is ErrClosed e then RNil
      else RTimer
  end.

(* ---- an independent, flattening view used as the specification -------------- *)

(* every non-nil node of the tree, in some order *)
Fixpoint nodes (e : gerr) : list gerr :=
  e :: match e with
       | Wrap1 (Some i) => nodes i
       | WrapN ws =>
           (fix all (l : list (option gerr)) : list gerr :=
              match l with
              | [] => []
              | None :: r => all r
              | Some i :: r => nodes i ++ all r
              end) ws
       | _ => []
       end.

Definition sentinels_of (e : gerr) : list N :=
  flat_map (fun n => match n with Sentinel id => [id] | _ => [] end) (nodes e).
Definition mem_N (x : N) (l : list N) : bool := existsb (N.eqb x) l.
(* some sentinel of `targets` occurs somewhere in e *)
Definition spec_is_any (e : gerr) (targets : list N) : bool :=
  existsb (fun s => mem_N s targets) (sentinels_of e).
Definition spec_has_sub_err (e : gerr) : bool := existsb is_suberr_ty (nodes e).
