(* L2: connection set-up (C18), hostile input (C13, L2 part) and the redial of C10,
   proved on Session.v for every client state and every world (scripted or map-mode
   Persistence, any tapes).  Proofs only. *)
From Coq Require Import ZArith Lia.
From RecordUpdate Require Import RecordUpdate.
From MQ Require Import Outbound OutboundRefine WriteLoopProofs.

(* ------------------------------------------------------------------ *)
(* Inversion of the world monad                                        *)

Lemma bind_inv {A B} (f : M A) (k : A -> M B) w b w' :
  bind f k w = Some (b, w') -> exists a w1, f w = Some (a, w1) /\ k a w1 = Some (b, w').
Proof.
  unfold bind. destruct (f w) as [[a w1]|]; [|discriminate]. intros H. eauto.
Qed.

Lemma ret_inv {A} (a b : A) w w' : ret a w = Some (b, w') -> b = a /\ w' = w.
Proof. unfold ret. intros H. inversion H. auto. Qed.

Lemma fail_inv {A} (b : A) w w' : fail_tape w = Some (b, w') -> False.
Proof. discriminate. Qed.

(* the calls added to the log, oldest first *)
Definition grows (w w' : world) (tr : list req) : Prop := w_log w' = rev tr ++ w_log w.

Lemma grows_refl w : grows w w [].
Proof. reflexivity. Qed.

Lemma grows_trans w w1 w2 t1 t2 : grows w w1 t1 -> grows w1 w2 t2 -> grows w w2 (t1 ++ t2).
Proof. unfold grows. intros A B. rewrite B, A, rev_app_distr, app_assoc. reflexivity. Qed.

Lemma grows_det w w' t t' : grows w w' t -> grows w w' t' -> t = t'.
Proof.
  unfold grows. intros A B. rewrite A in B. apply app_inv_tail in B.
  rewrite <- (rev_involutive t), B. apply rev_involutive.
Qed.

(* postcondition on the result and on the calls made *)
Definition lspec {A} (f : M A) (Q : A -> list req -> Prop) : Prop :=
  forall w a w', f w = Some (a, w') -> exists tr, grows w w' tr /\ Q a tr.

Lemma lspec_ret {A} (a : A) (Q : A -> list req -> Prop) : Q a [] -> lspec (ret a) Q.
Proof. intros H w b w' E. apply ret_inv in E as [-> ->]. exists []. split; [apply grows_refl|exact H]. Qed.

Lemma lspec_fail {A} (Q : A -> list req -> Prop) : lspec fail_tape Q.
Proof. intros w b w' E. discriminate. Qed.

Lemma lspec_bind {A B} (f : M A) (k : A -> M B) (P : A -> list req -> Prop) Q :
  lspec f P -> (forall a t1, P a t1 -> lspec (k a) (fun b t2 => Q b (t1 ++ t2))) ->
  lspec (bind f k) Q.
Proof.
  intros Hf Hk w b w' E. apply bind_inv in E as (a & w1 & E1 & E2).
  destruct (Hf _ _ _ E1) as (t1 & G1 & P1).
  destruct (Hk _ _ P1 _ _ _ E2) as (t2 & G2 & Q2).
  exists (t1 ++ t2). split; [eapply grows_trans; eassumption|exact Q2].
Qed.

Lemma lspec_conseq {A} (f : M A) (P Q : A -> list req -> Prop) :
  lspec f P -> (forall a t, P a t -> Q a t) -> lspec f Q.
Proof. intros Hf HPQ w a w' E. destruct (Hf _ _ _ E) as (t & G & HP). eauto. Qed.

Lemma lspec_world {A X} (g : world -> X) (f : X -> M A) Q :
  (forall n, lspec (f n) Q) -> lspec (fun w => f (g w) w) Q.
Proof. intros H w a w' E. exact (H _ _ _ _ E). Qed.

(* ------------------------------------------------------------------ *)
(* Primitives                                                          *)

Lemma ask_store_spec q : lspec (ask_store q) (fun _ tr => tr = [q]).
Proof.
  intros w a w' E. exists [q]. split; [|reflexivity]. unfold ask_store in E.
  destruct (w_store w) as [m|].
  - destruct (t_stf w) as [|[|] t]; [discriminate| |].
    + inversion E; subst. reflexivity.
    + destruct q; inversion E; subst; reflexivity.
  - destruct (t_st w); inversion E; subst. reflexivity.
Qed.

Lemma ask_dial_spec : lspec ask_dial (fun _ tr => tr = [QDial]).
Proof.
  intros w a w' E. exists [QDial]. split; [|reflexivity]. unfold ask_dial in E.
  destruct (t_dial w); inversion E; subst. reflexivity.
Qed.

Lemma tell_spec q : lspec (tell q) (fun _ tr => tr = [q]).
Proof. intros w a w' E. exists [q]. split; [|reflexivity]. inversion E; subst. reflexivity. Qed.

Definition is_write (cn : N) (q : req) : Prop := exists bs, q = QWrite cn bs.
Definition is_read (cn : N) (q : req) : Prop := exists a n, q = QRead cn a n.

(* the calls of one write loop on connection cn for the bytes p with result r *)
Definition write_seg (cn : N) (p : list N) (r : wres) (tr : list req) : Prop :=
  exists calls, tr = map (fun cl : wcall => QWrite cn (fst cl)) calls /\
    (exists k, accepted_all calls = firstn k p) /\ (r = WOk -> accepted_all calls = p).

Lemma write_seg_writes cn p r tr : write_seg cn p r tr -> Forall (is_write cn) tr.
Proof.
  intros (calls & -> & _). apply Forall_forall. intros q Hq. apply in_map_iff in Hq as (cl & <- & _).
  eexists; reflexivity.
Qed.

Lemma conn_write_spec cn bufs single :
  lspec (conn_write cn bufs single) (fun r tr => r <> WNoTape /\ write_seg cn (concat bufs) r tr).
Proof.
  intros w r w' E. unfold conn_write in E.
  destruct (if single then _ else _) as [[calls r0] t'] eqn:W.
  assert (P : (exists k, accepted_all calls = firstn k (concat bufs))
              /\ (r0 = WOk -> accepted_all calls = concat bufs)).
  { destruct single; [eapply write_to_prefix|eapply write_buffers_to_prefix]; exact W. }
  exists (map (fun cl : wcall => QWrite cn (fst cl)) calls).
  destruct r0; inversion E; subst; (split; [reflexivity|]);
    (split; [discriminate|]); exists calls; (split; [reflexivity|exact P]).
Qed.

Lemma concat_single {X} (p : list X) : concat [p] = p.
Proof. cbn. apply app_nil_r. Qed.

Lemma rugged_load_spec k : lspec (rugged_load k) (fun l tr =>
  tr = [QLoad k] /\ match l with inr e => e = E_store \/ e = E_other | inl _ => True end).
Proof.
  unfold rugged_load. eapply lspec_bind; [apply ask_store_spec|]. intros a t1 ->.
  destruct a as [ks|[raw|]| |]; try apply lspec_fail.
  - destruct (decode_value raw); apply lspec_ret; auto.
  - apply lspec_ret; auto.
  - apply lspec_ret; auto.
Qed.

Lemma rugged_save_spec c k v : lspec (rugged_save c k v) (fun p tr =>
  tr = [QSave k (encode_value v (k_rseq c + 1))] /\ fst p = c <| k_rseq := k_rseq c + 1 |>).
Proof.
  unfold rugged_save. eapply lspec_bind; [apply ask_store_spec|]. intros a t1 ->.
  destruct a; try apply lspec_fail; apply lspec_ret; auto.
Qed.

Lemma store_delete_spec k : lspec (store_delete k) (fun _ tr => tr = [QDelete k]).
Proof.
  unfold store_delete. eapply lspec_bind; [apply ask_store_spec|]. intros a t1 ->.
  destruct a; try apply lspec_fail; apply lspec_ret; auto.
Qed.

Lemma with_reader_spec {A} c (f : rst -> A * rst) :
  lspec (with_reader c f) (fun p tr =>
    Forall (is_read (conn_of c)) tr /\ exists s0 s, f s0 = (snd p, s) /\ fst p = rst_back c s).
Proof.
  intros w p w' E. unfold with_reader in E. destruct (f (rst_of c w)) as [a s] eqn:F.
  inversion E; subst. clear E.
  exists (rev (map (fun l : bool * N => QRead (conn_of c) (fst l) (snd l)) (rlog s))).
  split; [unfold grows; rewrite rev_involutive; reflexivity|]. split.
  - apply Forall_rev. apply Forall_forall. intros q Hq. apply in_map_iff in Hq as (l & <- & _).
    do 2 eexists; reflexivity.
  - eauto.
Qed.

(* ------------------------------------------------------------------ *)
(* What the release of parked requests leaves alone                    *)

Lemma fold_left_pres {X Y} (g : client -> Y) (f : client -> X -> client) l :
  (forall c x, g (f c x) = g c) -> forall c, g (fold_left f l c) = g c.
Proof.
  intros H. induction l as [|x l IH]; intros c; cbn [fold_left]; [reflexivity|].
  rewrite IH. apply H.
Qed.

Lemma release_locked_pres {Y} (g : client -> Y) :
  (forall c rid e fs, g (complete c rid e fs) = g c) ->
  (forall c l, g (lock_cleanup_run c l) = g c) ->
  forall c e, g (release_locked c e) = g c.
Proof.
  intros H1 H2 c e. unfold release_locked. apply fold_left_pres. intros c' p.
  destruct (snd p); try reflexivity. rewrite H1. apply H2.
Qed.

Ltac pres_tac :=
  intros; try match goal with l : lock_cleanup |- _ => destruct l end; reflexivity.

Lemma rl_wsem c e : k_wsem (release_locked c e) = k_wsem c.
Proof. apply (release_locked_pres k_wsem); pres_tac. Qed.
Lemma rl_rconn c e : k_rconn (release_locked c e) = k_rconn c.
Proof. apply (release_locked_pres k_rconn); pres_tac. Qed.
Lemma rl_online c e : k_online (release_locked c e) = k_online c.
Proof. apply (release_locked_pres k_online); pres_tac. Qed.
Lemma rl_csem c e : k_csem (release_locked c e) = k_csem c.
Proof. apply (release_locked_pres k_csem); pres_tac. Qed.
Lemma rl_nconn c e : k_nconn (release_locked c e) = k_nconn c.
Proof. apply (release_locked_pres k_nconn); pres_tac. Qed.
Lemma rl_closed c e : k_closed (release_locked c e) = k_closed c.
Proof. apply (release_locked_pres k_closed); pres_tac. Qed.
Lemma rl_xev c e : k_xev (release_locked c e) = k_xev c.
Proof. apply (release_locked_pres k_xev); pres_tac. Qed.

Lemma break_pending_pres {Y} (g : client -> Y) :
  (forall c rid e fs, g (complete c rid e fs) = g c) ->
  (forall c x, g (c <| k_ping := x |>) = g c) ->
  (forall c x, g (c <| k_txs := x |>) = g c) ->
  forall c, g (break_pending c) = g c.
Proof.
  intros H1 H2 H3 c. unfold break_pending. rewrite H3. rewrite fold_left_pres.
  - rewrite H2. destruct (k_ping c); [|reflexivity].
    destruct (parked_kind c n) as [[]|]; rewrite ?H1; reflexivity.
  - intros c' t. destruct (parked_kind c' (snd (fst t))) as [[]|]; rewrite ?H1; reflexivity.
Qed.

Lemma bp_wsem c : k_wsem (break_pending c) = k_wsem c.
Proof. apply (break_pending_pres k_wsem); pres_tac. Qed.
Lemma bp_rconn c : k_rconn (break_pending c) = k_rconn c.
Proof. apply (break_pending_pres k_rconn); pres_tac. Qed.
Lemma bp_online c : k_online (break_pending c) = k_online c.
Proof. apply (break_pending_pres k_online); pres_tac. Qed.
Lemma bp_csem c : k_csem (break_pending c) = k_csem c.
Proof. apply (break_pending_pres k_csem); pres_tac. Qed.
Lemma bp_closed c : k_closed (break_pending c) = k_closed c.
Proof. apply (break_pending_pres k_closed); pres_tac. Qed.
Lemma bp_xev c : k_xev (break_pending c) = k_xev c.
Proof. apply (break_pending_pres k_xev); pres_tac. Qed.
Lemma bp_big c : k_big (break_pending c) = k_big c.
Proof. apply (break_pending_pres k_big); pres_tac. Qed.
Lemma bp_rbuf c : k_rbuf (break_pending c) = k_rbuf c.
Proof. apply (break_pending_pres k_rbuf); pres_tac. Qed.

(* ------------------------------------------------------------------ *)
(* Writing with the token                                              *)

Definition wrote (c : client) (cn : N) (p : list N) (c' : client) (e : err) (tr : list req) : Prop :=
  exists r wtr, write_seg cn p r wtr /\ r <> WNoTape /\
    ((r = WOk /\ tr = wtr /\ c' = c /\ e = E_nil)
     \/ (r <> WOk /\ tr = wtr ++ (match r with WClosed => [] | _ => [QClose cn] end)
         /\ c' = c <| k_wsem := WsPending |> /\ e = E_submit r)).

Lemma locked_write_spec c cn bufs single :
  lspec (locked_write c cn bufs single)
        (fun p tr => wrote c cn (concat bufs) (fst p) (snd p) tr).
Proof.
  unfold locked_write. eapply lspec_bind; [apply conn_write_spec|]. intros r wtr [Hr Hw].
  destruct r; try (exfalso; apply Hr; reflexivity).
  - apply lspec_ret. exists WOk, wtr. rewrite app_nil_r. split; [exact Hw|]. split; [exact Hr|]. left. auto.
  - eapply lspec_bind; [apply tell_spec|]. intros _ t ->. apply lspec_ret.
    exists WTimeout, wtr. rewrite app_nil_r. split; [exact Hw|]. split; [exact Hr|]. right.
    split; [discriminate|]. auto.
  - eapply lspec_bind with (P := fun _ tr => tr = []); [apply lspec_ret; reflexivity|].
    intros _ t ->. apply lspec_ret.
    exists WClosed, wtr. split; [exact Hw|]. split; [exact Hr|]. right.
    split; [discriminate|]. auto.
  - eapply lspec_bind; [apply tell_spec|]. intros _ t ->. apply lspec_ret.
    exists WHard, wtr. rewrite app_nil_r. split; [exact Hw|]. split; [exact Hr|]. right.
    split; [discriminate|]. auto.
Qed.

Lemma nowait_write_spec c bufs single :
  lspec (nowait_write c bufs single) (fun p tr =>
    (tr = [] /\ fst p = c /\
     ((k_wsem c = WsClosed /\ snd p = E_closed)
      \/ ((k_wsem c = WsDown \/ k_wsem c = WsPending) /\ snd p = E_down)))
    \/ exists cn, k_wsem c = WsConn cn /\ wrote c cn (concat bufs) (fst p) (snd p) tr).
Proof.
  unfold nowait_write. destruct (k_wsem c) eqn:W.
  - apply lspec_ret. left. auto 10.
  - apply lspec_ret. left. auto 10.
  - eapply lspec_conseq; [apply locked_write_spec|]. intros p tr H. right. eauto.
  - apply lspec_ret. left. auto 10.
Qed.

Lemma op_write_spec c bufs single :
  lspec (op_write c bufs single) (fun p tr =>
    (tr = [] /\ fst p = c /\
     ((k_wsem c = WsClosed /\ snd p = WrDone E_closed)
      \/ (k_wsem c = WsDown /\ snd p = WrDone E_down)
      \/ (k_wsem c = WsPending /\ snd p = WrPark)))
    \/ exists cn e, k_wsem c = WsConn cn /\ snd p = WrDone e /\ wrote c cn (concat bufs) (fst p) e tr).
Proof.
  unfold op_write. destruct (k_wsem c) as [| |c0|] eqn:W.
  - apply lspec_ret. left. auto 10.
  - apply lspec_ret. left. auto 10.
  - eapply lspec_bind; [apply locked_write_spec|]. intros [c1 e] t1 H. cbn [fst snd] in H.
    apply lspec_ret. right. rewrite app_nil_r. exists c0, e. auto.
  - apply lspec_ret. left. auto 10.
Qed.

(* a write leaves everything but the write token alone *)
Lemma wrote_client c cn p c' e tr : wrote c cn p c' e tr -> c' = c \/ c' = c <| k_wsem := WsPending |>.
Proof. intros (r & wtr & _ & _ & [(_ & _ & -> & _)|(_ & _ & -> & _)]); auto. Qed.

(* ------------------------------------------------------------------ *)
(* toOffline                                                           *)

Definition went_offline (c c' : client) (tr : list req) : Prop :=
  (k_wsem c = WsClosed /\ c' = c <| k_rconn := None |> /\ tr = [QClose (conn_of c)])
  \/ (k_wsem c <> WsClosed /\ tr = [QClose (conn_of c)] /\
      k_rconn c' = None /\ k_wsem c' = WsPending /\ k_online c' = false /\
      k_big c' = None /\ k_rbuf c' = [] /\
      k_closed c' = k_closed c /\ k_csem c' = k_csem c).

Lemma to_offline_lspec c : lspec (to_offline c) (went_offline c).
Proof.
  unfold to_offline.
  assert (H : forall x, k_wsem c = x -> x <> WsClosed ->
    lspec (_ <- tell (QClose (conn_of c));;
           ret (break_pending (set_offline c <| k_wsem := WsPending |> <| k_rconn := None |>
                  <| k_big := None |> <| k_rbuf := [] |> <| k_rerr := None |> <| k_peekn := 0 |>)))
          (went_offline c)).
  { intros x Hx Hn. eapply lspec_bind; [apply tell_spec|]. intros _ t ->. apply lspec_ret.
    right. rewrite Hx, bp_rconn, bp_wsem, bp_online, bp_big, bp_rbuf, bp_closed, bp_csem.
    repeat split; auto. }
  destruct (k_wsem c) eqn:W; try (apply (H _ eq_refl); discriminate).
  eapply lspec_bind; [apply tell_spec|]. intros _ t ->. apply lspec_ret. left. auto.
Qed.

(* ------------------------------------------------------------------ *)
(* connect: resubmission                                               *)

Definition is_resend (cn : N) (q : req) : Prop := (exists k, q = QLoad k) \/ is_write cn q.

(* the stored packets are loaded and written in sequence order; a failed load or a
   failed write ends the resubmission *)
Inductive resend_trace (cn space : N) : N -> list req -> Prop :=
| RT_done : forall s, resend_trace cn space s []
| RT_noload : forall s, resend_trace cn space s [QLoad (N.lor (N.land s id_mask) space)]
| RT_write : forall s p r wtr rest,
    write_seg cn p r wtr -> (r <> WOk -> rest = []) -> resend_trace cn space (s + 1) rest ->
    resend_trace cn space s (QLoad (N.lor (N.land s id_mask) space) :: wtr ++ rest).

Lemma resend_trace_only cn space s tr : resend_trace cn space s tr -> Forall (is_resend cn) tr.
Proof.
  induction 1 as [s|s|s p r wtr rest Hw _ _ IH].
  - constructor.
  - constructor; [left; eexists; reflexivity|constructor].
  - constructor; [left; eexists; reflexivity|]. apply Forall_app. split; [|exact IH].
    eapply Forall_impl; [|eapply write_seg_writes, Hw]. intros q Hq. right. exact Hq.
Qed.

Lemma werr_nz r : werr r <> 0.
Proof. destruct r; discriminate. Qed.
Lemma rerr_class_nz e : rerr_class e <> 0.
Proof. destruct e; discriminate. Qed.

Lemma resend_lspec fuel cn space : forall seqno acc subm,
  lspec (resend fuel cn space seqno acc subm) (fun p tr =>
    resend_trace cn space seqno tr /\
    (snd p = 0 \/ snd p = E_store \/ snd p = E_other \/ exists r, r <> WOk /\ snd p = werr r)).
Proof.
  induction fuel as [|f IH]; intros seqno acc subm; cbn [resend].
  - apply lspec_ret. split; [constructor|auto].
  - destruct (acc <=? seqno); [apply lspec_ret; split; [constructor|auto]|]. cbv zeta.
    eapply lspec_bind; [apply rugged_load_spec|]. intros l t1 [-> Hl].
    destruct l as [[[|h body]|]|e]; try (apply lspec_ret; split; [constructor|cbn [snd]; tauto]).
    eapply lspec_bind; [apply conn_write_spec|]. intros r wtr [Hr Hw].
    assert (Hbad : r <> WOk ->
      lspec (ret (subm, werr r))
        (fun p t2 => resend_trace cn space seqno (([QLoad (N.lor (N.land seqno id_mask) space)] ++ wtr) ++ t2)
                     /\ (snd p = 0 \/ snd p = E_store \/ snd p = E_other \/ exists r, r <> WOk /\ snd p = werr r))).
    { intros Hn. apply lspec_ret. split.
      - rewrite app_nil_r. cbn [app]. rewrite <- (app_nil_r wtr).
        eapply RT_write; [exact Hw|auto|constructor].
      - right. right. right. exists r. auto. }
    destruct r; try (apply Hbad; discriminate).
    eapply lspec_conseq; [apply IH|]. intros p t2 [Ht He]. split; [|exact He].
    cbn [app]. eapply RT_write; [exact Hw|intros X; exfalso; apply X; reflexivity|exact Ht].
Qed.

(* ------------------------------------------------------------------ *)
(* connect: handshake                                                  *)

Definition hs_cfg (c : client) (clean : bool) : cfg :=
  {| cfg_user := cfg_user (s_cfg (k_cfg c)); cfg_pass := cfg_pass (s_cfg (k_cfg c));
     cfg_will := cfg_will (s_cfg (k_cfg c)); cfg_keepalive := cfg_keepalive (s_cfg (k_cfg c));
     cfg_clean := clean |}.

(* what the handshake leaves alone *)
Definition hp (c : client) :=
  (k_cfg c, k_closed c, k_csem c, k_wsem c, k_nconn c, k_online c,
   (k_acc1 c, k_sub1 c, k_acked c), (k_acc2 c, k_sub2 c, k_compl c), k_parked c).

Lemma hp_fields c c' : hp c' = hp c ->
  k_cfg c' = k_cfg c /\ k_closed c' = k_closed c /\ k_csem c' = k_csem c /\ k_wsem c' = k_wsem c /\
  k_nconn c' = k_nconn c /\ k_online c' = k_online c /\ k_parked c' = k_parked c /\
  k_acked c' = k_acked c /\ k_compl c' = k_compl c.
Proof. unfold hp. intros H. inversion H. repeat split; assumption. Qed.

Definition hs_trace (c : client) (cn : N) (clean : bool) (cid : list N)
           (c' : client) (h : hs_result) (tr : list req) : Prop :=
  hp c' = hp c /\
  exists r wtr rtr, tr = wtr ++ rtr /\
    write_seg cn (connect_packet (hs_cfg c clean) cid) r wtr /\ Forall (is_read cn) rtr /\
    (r <> WOk -> rtr = [] /\ h = HsErr (werr r)) /\
    (h = HsOk -> r = WOk /\ k_rconn c' = Some cn) /\
    (forall e, h = HsErr e -> e <> 0).

Lemma handshake_lspec c cn clean cid :
  lspec (handshake c cn clean cid) (fun p tr => hs_trace c cn clean cid (fst p) (snd p) tr).
Proof.
  unfold handshake. cbv zeta. fold (hs_cfg c clean).
  eapply lspec_bind; [apply conn_write_spec|]. intros r wtr [Hr Hw]. rewrite concat_single in Hw.
  assert (Hbad : r <> WOk ->
    lspec (ret (c, HsErr (werr r)))
          (fun p t2 => hs_trace c cn clean cid (fst p) (snd p) (wtr ++ t2))).
  { intros Hn. apply lspec_ret. split; [reflexivity|]. exists r, wtr, [].
    repeat split; auto; try discriminate. intros e He. inversion He. apply werr_nz. }
  destruct r; try (apply Hbad; discriminate). clear Hbad.
  eapply lspec_bind; [apply with_reader_spec|].
  intros [c1 [p e]] rtr [Hrd (s0 & s & _ & Hc1)]. cbn [fst snd] in Hc1, Hrd. subst c1.
  change (conn_of _) with cn in Hrd.
  assert (Hfin : forall c' h, hp c' = hp c -> (h = HsOk -> k_rconn c' = Some cn) ->
            (forall e0, h = HsErr e0 -> e0 <> 0) ->
            lspec (ret (c', h)) (fun p t2 => hs_trace c cn clean cid (fst p) (snd p) (wtr ++ rtr ++ t2))).
  { intros c' h H1 H2 H3. apply lspec_ret. split; [exact H1|]. exists WOk, wtr, rtr.
    rewrite app_nil_r. split; [reflexivity|]. split; [exact Hw|]. split; [exact Hrd|].
    split; [intros X; exfalso; apply X; reflexivity|].
    split; [intros Hh; split; [reflexivity|exact (H2 Hh)]|exact H3]. }
  cbv zeta.
  destruct e as [[]|]; try apply lspec_fail;
  match goal with |- context [if ?b then _ else _] => destruct b end;
    try (apply Hfin; [reflexivity|discriminate|intros e0 He0; inversion He0; discriminate]).
  destruct p as [|a [|b [|fl [|code [|]]]]]; try apply lspec_fail.
  destruct (negb (code =? 0));
    [apply Hfin; [reflexivity|discriminate|intros e0 He0; inversion He0; discriminate]|].
  destruct (fl =? 0); [apply Hfin; [reflexivity|reflexivity|discriminate]|].
  destruct (fl =? 1); [|apply Hfin; [reflexivity|discriminate|intros e0 He0; inversion He0; discriminate]].
  destruct clean; apply Hfin; try reflexivity; try discriminate.
  intros e0 He0; inversion He0; discriminate.
Qed.

(* ------------------------------------------------------------------ *)
(* connect (C18)                                                       *)

(* CleanSession is requested until the first connection has been established *)
Definition clean_requested (c : client) : bool :=
  cfg_clean (s_cfg (k_cfg c)) && (match k_csem c with None => true | Some _ => false end).

Definition cid_of (v : option (list N)) : list N := match v with Some v => v | None => [] end.
(* the client identifier as the Persistence gives it when connect asks for key 0 *)
Definition stored_cid (w : world) : list N :=
  match rugged_load 0 w with Some (inl v, _) => cid_of v | _ => [] end.

(* did that load succeed? *)
Definition load_ok (w : world) : bool :=
  match rugged_load 0 w with Some (inl _, _) => true | _ => false end.

(* The calls of one connect, oldest first, with the outcome.  cn = k_nconn c is the
   connection the Dialer hands out; ld says whether the identifier could be loaded. *)
Inductive connect_trace (c : client) (ld : bool) (cid : list N) (c' : client) (e : err)
  : list req -> Prop :=
| CT_closed :
    k_closed c = true -> c' = c -> e = E_closed -> connect_trace c ld cid c' e []
| CT_load :
    ld = false -> k_closed c = false -> (e = E_store \/ e = E_other) ->
    k_wsem c' = WsDown -> k_online c' = k_online c -> k_csem c' = k_csem c -> k_rconn c' = k_rconn c ->
    connect_trace c ld cid c' e [QLoad 0]
| CT_dial :
    ld = true -> k_closed c = false -> e = E_dial ->
    k_wsem c' = WsDown -> k_online c' = k_online c -> k_csem c' = k_csem c -> k_rconn c' = k_rconn c ->
    connect_trace c ld cid c' e [QLoad 0; QDial]
| CT_handshake : forall r wtr rtr,
    ld = true -> k_closed c = false -> e <> 0 ->
    write_seg (k_nconn c) (connect_packet (hs_cfg c (clean_requested c)) cid) r wtr ->
    Forall (is_read (k_nconn c)) rtr -> (r <> WOk -> rtr = [] /\ e = werr r) ->
    k_wsem c' = WsDown -> k_rconn c' = None -> k_online c' = k_online c -> k_csem c' = k_csem c ->
    k_nconn c' = k_nconn c + 1 ->
    connect_trace c ld cid c' e (QLoad 0 :: QDial :: wtr ++ rtr ++ [QClose (k_nconn c)])
| CT_resend : forall wtr rtr rs1 rs2,
    ld = true -> k_closed c = false -> e <> 0 ->
    write_seg (k_nconn c) (connect_packet (hs_cfg c (clean_requested c)) cid) WOk wtr ->
    Forall (is_read (k_nconn c)) rtr ->
    resend_trace (k_nconn c) alo_space (k_acked c) rs1 ->
    resend_trace (k_nconn c) eo_space (k_compl c) rs2 ->
    k_wsem c' = WsDown -> k_rconn c' = None -> k_online c' = k_online c ->
    k_csem c' = Some (k_nconn c) -> k_nconn c' = k_nconn c + 1 ->
    connect_trace c ld cid c' e (QLoad 0 :: QDial :: wtr ++ rtr ++ rs1 ++ rs2 ++ [QClose (k_nconn c)])
| CT_online : forall wtr rtr rs1 rs2,
    ld = true -> k_closed c = false -> e = 0 ->
    write_seg (k_nconn c) (connect_packet (hs_cfg c (clean_requested c)) cid) WOk wtr ->
    Forall (is_read (k_nconn c)) rtr ->
    resend_trace (k_nconn c) alo_space (k_acked c) rs1 ->
    resend_trace (k_nconn c) eo_space (k_compl c) rs2 ->
    k_wsem c' = WsConn (k_nconn c) -> k_rconn c' = Some (k_nconn c) -> k_online c' = true ->
    k_csem c' = Some (k_nconn c) -> k_nconn c' = k_nconn c + 1 -> has_locked c' = false ->
    connect_trace c ld cid c' e (QLoad 0 :: QDial :: wtr ++ rtr ++ rs1 ++ rs2).

Lemma grows_eq w w' t t' : grows w w' t -> t = t' -> grows w w' t'.
Proof. intros H <-. exact H. Qed.

Ltac gchain := first [eassumption | eapply grows_trans; [eassumption|gchain]].
Ltac gsolve := eapply grows_eq; [gchain|cbn [app]; rewrite <- ?app_assoc; reflexivity].

Lemma negb_eqb_nz e : negb (e =? 0) = true -> e <> 0.
Proof. destruct (N.eqb_spec e 0); [discriminate|auto]. Qed.
Lemma negb_eqb_z e : negb (e =? 0) = false -> e = 0.
Proof. destruct (N.eqb_spec e 0); [auto|discriminate]. Qed.

Theorem connect_log_shape c w c' e w' :
  connect c w = Some ((c', e), w') ->
  exists tr, grows w w' tr /\ connect_trace c (load_ok w) (stored_cid w) c' e tr.
Proof.
  intros H. unfold connect in H. destruct (k_closed c) eqn:CL.
  { apply ret_inv in H as [H ->]. inversion H; subst. exists []. split; [apply grows_refl|].
    apply CT_closed; auto. }
  cbv zeta in H. fold (clean_requested c) in H.
  apply bind_inv in H as (l & w1 & Hl & H).
  unfold stored_cid, load_ok. rewrite Hl.
  destruct (rugged_load_spec 0 _ _ _ Hl) as (t0 & G0 & -> & Hle).
  destruct l as [cidv|e0].
  2:{ apply ret_inv in H as [H ->]. inversion H; subst. exists [QLoad 0]. split; [exact G0|].
      apply CT_load; auto; rewrite ?rl_wsem, ?rl_online, ?rl_csem, ?rl_rconn; reflexivity. }
  fold (cid_of cidv) in H.
  apply bind_inv in H as (ok & w2 & Hd & H). destruct (ask_dial_spec _ _ _ Hd) as (t1 & G1 & ->).
  destruct ok; cbn [negb] in H.
  2:{ apply ret_inv in H as [H ->]. inversion H; subst. exists [QLoad 0; QDial].
      split; [gsolve|].
      apply CT_dial; auto; rewrite ?rl_wsem, ?rl_online, ?rl_csem, ?rl_rconn; reflexivity. }
  apply bind_inv in H as ([c2 h] & w3 & Hh & H).
  destruct (handshake_lspec _ _ _ _ _ _ _ Hh)
    as (t2 & G2 & Hp & r & wtr & rtr & -> & Hw & Hrd & Hbad & Hok & Hnz).
  cbn [fst snd] in Hp, Hbad, Hok, Hnz.
  change (hs_cfg (c <| k_nconn := k_nconn c + 1 |>) (clean_requested c))
    with (hs_cfg c (clean_requested c)) in Hw.
  apply hp_fields in Hp as (_ & _ & Hcs & _ & Hnc & Hon & _ & Hak & Hco).
  change (k_csem c2 = k_csem c) in Hcs. change (k_nconn c2 = k_nconn c + 1) in Hnc.
  change (k_online c2 = k_online c) in Hon. change (k_acked c2 = k_acked c) in Hak.
  change (k_compl c2 = k_compl c) in Hco.
  destruct h as [|eh].
  2:{ apply bind_inv in H as (u & w4 & Ht & H). destruct (tell_spec _ _ _ _ Ht) as (t3 & G3 & ->).
      apply ret_inv in H as [H ->]. inversion H; subst c' e. clear H.
      exists (QLoad 0 :: QDial :: wtr ++ rtr ++ [QClose (k_nconn c)]). split; [gsolve|].
      apply CT_handshake with (r := r); auto.
      - intros Hn. destruct (Hbad Hn) as [? He]. inversion He. auto.
      - rewrite rl_wsem. reflexivity.
      - rewrite rl_rconn. reflexivity.
      - rewrite rl_online. exact Hon.
      - rewrite rl_csem. exact Hcs.
      - rewrite rl_nconn. exact Hnc. }
  destruct (Hok eq_refl) as [-> Hrc]. clear Hbad Hok Hnz.
  cbv zeta in H.
  apply bind_inv in H as ([s1 e1] & w4 & Hr1 & H).
  destruct (resend_lspec _ _ _ _ _ _ _ _ _ Hr1) as (rs1 & G3 & Hrs1 & _).
  replace (k_acked (c2 <| k_csem := Some (k_nconn c) |>)) with (k_acked c) in Hrs1 by (symmetry; exact Hak).
  destruct (negb (e1 =? 0)) eqn:E1.
  { apply bind_inv in H as (u & w5 & Ht & H). destruct (tell_spec _ _ _ _ Ht) as (t4 & G4 & ->).
    apply ret_inv in H as [H ->]. inversion H; subst c' e. clear H.
    exists (QLoad 0 :: QDial :: wtr ++ rtr ++ rs1 ++ [] ++ [QClose (k_nconn c)]). split; [gsolve|].
    apply CT_resend; auto.
    - apply negb_eqb_nz, E1.
    - constructor.
    - rewrite rl_wsem. reflexivity.
    - rewrite rl_rconn. reflexivity.
    - rewrite rl_online. exact Hon.
    - rewrite rl_csem. reflexivity.
    - rewrite rl_nconn. exact Hnc. }
  apply bind_inv in H as ([s2 e2] & w5 & Hr2 & H).
  destruct (resend_lspec _ _ _ _ _ _ _ _ _ Hr2) as (rs2 & G4 & Hrs2 & _).
  replace (k_compl (c2 <| k_csem := Some (k_nconn c) |> <| k_sub1 := s1 |>)) with (k_compl c) in Hrs2
    by (symmetry; exact Hco).
  destruct (negb (e2 =? 0)) eqn:E2.
  { apply bind_inv in H as (u & w6 & Ht & H). destruct (tell_spec _ _ _ _ Ht) as (t5 & G5 & ->).
    apply ret_inv in H as [H ->]. inversion H; subst c' e. clear H.
    exists (QLoad 0 :: QDial :: wtr ++ rtr ++ rs1 ++ rs2 ++ [QClose (k_nconn c)]). split; [gsolve|].
    apply CT_resend; auto.
    - apply negb_eqb_nz, E2.
    - rewrite rl_wsem. reflexivity.
    - rewrite rl_rconn. reflexivity.
    - rewrite rl_online. exact Hon.
    - rewrite rl_csem. reflexivity.
    - rewrite rl_nconn. exact Hnc. }
  match type of H with (if ?b then _ else _) _ = _ => destruct b eqn:HL end; [discriminate|].
  apply ret_inv in H as [H ->]. inversion H; subst c' e. clear H.
  exists (QLoad 0 :: QDial :: wtr ++ rtr ++ rs1 ++ rs2). split; [gsolve|].
  apply CT_online; auto.
Qed.

(* map mode: the identifier is the decoded record under key 0 *)
Lemma stored_cid_map w m t : w_store w = Some m -> t_stf w = false :: t ->
  stored_cid w = match store_get m 0 with
                 | Some raw => match decode_value raw with DecOk p _ => p | _ => [] end
                 | None => []
                 end.
Proof.
  intros Hm Ht. unfold stored_cid, rugged_load, bind, ask_store. rewrite Hm, Ht.
  destruct (store_get m 0) as [raw|]; [|reflexivity].
  destruct (decode_value raw); reflexivity.
Qed.

(* C18: CleanSession is requested exactly while no connection has been established *)
Theorem clean_session_once c :
  clean_requested c = true <-> cfg_clean (s_cfg (k_cfg c)) = true /\ k_csem c = None.
Proof.
  unfold clean_requested. destruct (cfg_clean (s_cfg (k_cfg c))), (k_csem c); cbn; split;
    try tauto; try discriminate; intros [? ?]; discriminate.
Qed.

(* the CONNECT flags byte carries the request in bit 1 *)
Lemma connect_flags_clean cf : N.testbit (connect_flags cf) 1 = cfg_clean cf.
Proof.
  unfold connect_flags. destruct (has_user cf), (cfg_pass cf), (cfg_clean cf);
    (destruct (cfg_will cf) as [wl|]; [destruct (will_retain wl), (will_eo wl), (will_alo wl)|]);
    reflexivity.
Qed.

Lemma hs_cfg_clean c clean : cfg_clean (hs_cfg c clean) = clean.
Proof. reflexivity. Qed.

(* a successful connect installs the connection in connSem: no later connect of this
   client asks for a clean session *)
Corollary connect_ok_no_more_clean c w c' w' :
  connect c w = Some ((c', 0), w') -> k_closed c = false -> clean_requested c' = false.
Proof.
  intros H CL. apply connect_log_shape in H as (tr & _ & H).
  inversion H; try congruence;
    try match goal with X : _ = E_store \/ _ = E_other |- _ => destruct X; discriminate end;
    try discriminate.
  unfold clean_requested. match goal with X : k_csem c' = Some _ |- _ => rewrite X end.
  apply andb_false_r.
Qed.

(* C18: a failed handshake closes the connection and leaves the client Down *)
Theorem connect_hs_err_closes c w cidv w1 w2 c2 eh w3 :
  k_closed c = false ->
  rugged_load 0 w = Some (inl cidv, w1) -> ask_dial w1 = Some (true, w2) ->
  handshake (c <| k_nconn := k_nconn c + 1 |>) (k_nconn c) (clean_requested c) (cid_of cidv) w2
    = Some ((c2, HsErr eh), w3) ->
  exists c', connect c w = Some ((c', eh), w3 <| w_log ::= cons (QClose (k_nconn c)) |>)
             /\ k_wsem c' = WsDown /\ k_rconn c' = None.
Proof.
  intros CL Hl Hd Hh. unfold connect. rewrite CL. cbv zeta. fold (clean_requested c).
  unfold bind at 1. rewrite Hl. unfold bind at 1. rewrite Hd. cbn [negb].
  unfold bind at 1. fold (cid_of cidv). rewrite Hh.
  eexists. split; [reflexivity|]. rewrite rl_wsem, rl_rconn. split; reflexivity.
Qed.

(* ------------------------------------------------------------------ *)
(* handshake: the CONNACK verdict (C18, C13)                           *)

Definition bad_head (p : list N) : bool :=
  match p with a :: b :: _ => negb ((a =? 32) && (b =? 2)) | _ => false end.

Lemma bad_head_false a b r : bad_head (a :: b :: r) = false -> a = 32 /\ b = 2.
Proof.
  cbn [bad_head]. destruct (N.eqb_spec a 32), (N.eqb_spec b 2); cbn; try discriminate. auto.
Qed.
Lemma bad_head_true a b r : bad_head (a :: b :: r) = true <-> (a <> 32 \/ b <> 2).
Proof.
  cbn [bad_head]. destruct (N.eqb_spec a 32), (N.eqb_spec b 2); cbn; split; auto; try tauto; discriminate.
Qed.

(* p, e: what Peek(4) on the fresh reader returned *)
Inductive hs_class (clean : bool) : list N -> option rerror -> hs_result -> Prop :=
| HC_badhead : forall p e, bad_head p = true -> e <> Some ENoTape ->
    hs_class clean p e (HsErr E_proto)
| HC_eof : forall p, bad_head p = false -> hs_class clean p (Some EEOF) (HsErr E_brokerterm)
| HC_rerr : forall p e, bad_head p = false -> e <> EEOF -> e <> ENoTape ->
    hs_class clean p (Some e) (HsErr (rerr_class e))
| HC_refused : forall f code, code <> 0 -> hs_class clean [32; 2; f; code] None (HsErr E_refused)
| HC_ok0 : hs_class clean [32; 2; 0; 0] None HsOk
| HC_ok1 : clean = false -> hs_class clean [32; 2; 1; 0] None HsOk
| HC_present_clean : clean = true -> hs_class clean [32; 2; 1; 0] None (HsErr E_proto)
| HC_flags : forall f, f <> 0 -> f <> 1 -> hs_class clean [32; 2; f; 0] None (HsErr E_proto).

(* the reader the handshake starts with *)
Definition hs_client0 (c : client) (cn : N) : client :=
  c <| k_rconn := Some cn |> <| k_rbuf := [] |> <| k_rerr := None |> <| k_rarm := s_pause (k_cfg c) |>.

Theorem handshake_rejects c cn clean cid w c' h w' :
  handshake c cn clean cid w = Some ((c', h), w') ->
  exists r w1, conn_write cn [connect_packet (hs_cfg c clean) cid] true w = Some (r, w1) /\
    ((r <> WOk /\ h = HsErr (werr r) /\ c' = c /\ w' = w1)
     \/ (r = WOk /\ exists p e s, peek (rst_of (hs_client0 c cn) w1) 4 = ((p, e), s)
                                  /\ hs_class clean p e h)).
Proof.
  intros H. unfold handshake in H. cbv zeta in H. fold (hs_cfg c clean) in H.
  apply bind_inv in H as (r & w1 & Hw & H). exists r, w1. split; [exact Hw|].
  destruct r; try (left; apply ret_inv in H as [H ->]; inversion H; subst;
                   split; [discriminate|auto]).
  right. split; [reflexivity|].
  apply bind_inv in H as ([c1 [p e]] & w2 & Hr & H).
  fold (hs_client0 c cn) in Hr. unfold with_reader in Hr.
  destruct (peek (rst_of (hs_client0 c cn) w1) 4) as [[p0 e0] s] eqn:Pk.
  inversion Hr; subst c1 p0 e0 w2. clear Hr.
  exists p, e, s. split; [reflexivity|].
  cbv zeta in H. fold (bad_head p) in H.
  destruct e as [re|].
  - destruct (bad_head p) eqn:B.
    + destruct re; try (apply ret_inv in H as [H _]; inversion H; apply HC_badhead; [exact B|discriminate]).
      discriminate.
    + destruct re; try discriminate;
        apply ret_inv in H as [H _]; inversion H;
        first [apply HC_eof; exact B | apply HC_rerr; [exact B|discriminate|discriminate]].
  - destruct (bad_head p) eqn:B.
    + apply ret_inv in H as [H _]; inversion H; apply HC_badhead; [exact B|discriminate].
    + destruct p as [|a [|b [|fl [|code [|]]]]]; try discriminate.
      apply bad_head_false in B as [-> ->].
      destruct (N.eqb_spec code 0) as [->|Hc]; cbn [negb] in H.
      2:{ apply ret_inv in H as [H _]; inversion H. apply HC_refused, Hc. }
      destruct (N.eqb_spec fl 0) as [->|Hf0].
      { apply ret_inv in H as [H _]; inversion H. apply HC_ok0. }
      destruct (N.eqb_spec fl 1) as [->|Hf1].
      { destruct clean eqn:Cl; apply ret_inv in H as [H _]; inversion H;
          [apply HC_present_clean|apply HC_ok1]; reflexivity. }
      apply ret_inv in H as [H _]; inversion H. apply HC_flags; assumption.
Qed.

(* accepted exactly for a well-formed accepting CONNACK whose session-present flag is
   compatible with the request *)
Theorem hs_class_ok_iff clean p e :
  hs_class clean p e HsOk <->
  e = None /\ exists f, p = [32; 2; f; 0] /\ (f = 0 \/ (f = 1 /\ clean = false)).
Proof.
  split.
  - intros H. inversion H; subst; (split; [reflexivity|]); eexists; split; try reflexivity; auto.
  - intros (-> & f & -> & [->|[-> Hc]]); [apply HC_ok0|apply HC_ok1, Hc].
Qed.

(* return codes 1..255: IsConnectionRefused *)
Theorem hs_class_refused clean f code h :
  code <> 0 -> hs_class clean [32; 2; f; code] None h -> h = HsErr E_refused.
Proof.
  intros Hc H. inversion H; subst; try reflexivity; try (exfalso; apply Hc; reflexivity).
  discriminate.
Qed.

(* a wrong header is a protocol violation, whatever follows *)
Theorem hs_class_wrong_header clean a b rest e h :
  a <> 32 \/ b <> 2 -> hs_class clean (a :: b :: rest) e h -> h = HsErr E_proto.
Proof.
  intros Hab H. apply bad_head_true with (r := rest) in Hab.
  inversion H; subst; try reflexivity; try congruence;
    exfalso; cbn in Hab; discriminate.
Qed.

(* flags other than 0/1, or session present on a clean-session request *)
Theorem hs_class_bad_flags clean f h :
  (f <> 0 /\ f <> 1) \/ (f = 1 /\ clean = true) ->
  hs_class clean [32; 2; f; 0] None h -> h = HsErr E_proto.
Proof.
  intros Hf H. inversion H; subst; try reflexivity.
  - exfalso. match goal with X : 0 <> 0 |- _ => apply X; reflexivity end.
  - destruct Hf as [[Hf _]|[Hf _]]; [exfalso; apply Hf; reflexivity|discriminate].
  - destruct Hf as [[_ Hf]|[_ Hf]]; [exfalso; apply Hf; reflexivity|congruence].
Qed.

(* EOF in place of the CONNACK *)
Theorem hs_class_eof clean p h :
  bad_head p = false -> hs_class clean p (Some EEOF) h -> h = HsErr E_brokerterm.
Proof.
  intros B H. inversion H; subst; try reflexivity; congruence.
Qed.

(* every other read failure is reported as it is *)
Theorem hs_class_rerr clean p re h :
  bad_head p = false -> re <> EEOF -> hs_class clean p (Some re) h -> h = HsErr (rerr_class re).
Proof.
  intros B Hre H. inversion H; subst; try reflexivity; congruence.
Qed.

(* the verdict is a function of what was peeked *)
Theorem hs_class_fun clean p e h1 h2 : hs_class clean p e h1 -> hs_class clean p e h2 -> h1 = h2.
Proof.
  intros H1 H2. inversion H1; subst; inversion H2; subst; try reflexivity; try congruence;
    try (cbn in *; discriminate);
    try match goal with X : ?x <> ?x |- _ => exfalso; apply X; reflexivity end.
Qed.

(* ------------------------------------------------------------------ *)
(* One invariant carried through every step                            *)

Definition all_wres : list wres := [WOk; WTimeout; WClosed; WHard; WNoTape].
Definition all_rerror : list rerror :=
  [ETimeout; EEOF; EClosed; EHard; EUnexpectedEOF; EBufferFull; ENoTape].

(* every error value of the model *)
Definition model_errs : list err :=
  [E_nil; E_other; E_closed; E_down; E_max; E_canceled; E_abandoned; E_break; E_deny; E_proto;
   E_store; E_dial; E_brokerterm; E_suberr; E_refused]
  ++ map E_submit all_wres ++ map werr all_wres ++ map rerr_class all_rerror.
Definition merr (e : err) : bool := existsb (N.eqb e) model_errs.

(* the classes a parked Subscribe/Unsubscribe/Ping/blocked request completes with *)
Definition done_classes : list err :=
  [E_nil; E_suberr; E_break; E_down; E_closed; E_canceled; E_abandoned].
Definition dcls (e : err) : bool := existsb (N.eqb e) done_classes.

Lemma merr_In e : merr e = true <-> In e model_errs.
Proof.
  unfold merr. rewrite existsb_exists. split.
  - intros (x & Hx & E). apply N.eqb_eq in E. subst. exact Hx.
  - intros H. exists e. split; [exact H|apply N.eqb_refl].
Qed.
Lemma dcls_In e : dcls e = true <-> In e done_classes.
Proof.
  unfold dcls. rewrite existsb_exists. split.
  - intros (x & Hx & E). apply N.eqb_eq in E. subst. exact Hx.
  - intros H. exists e. split; [exact H|apply N.eqb_refl].
Qed.

Lemma merr_submit r : merr (E_submit r) = true.
Proof. destruct r; reflexivity. Qed.
Lemma merr_werr r : merr (werr r) = true.
Proof. destruct r; reflexivity. Qed.
Lemma merr_rerr e : merr (rerr_class e) = true.
Proof. destruct e; reflexivity. Qed.
Lemma dcls_merr e : dcls e = true -> merr e = true.
Proof.
  intros H. apply dcls_In in H. cbn in H.
  repeat (destruct H as [<-|H]; [reflexivity|]). contradiction.
Qed.

(* without a quit signal (qt = false) ErrCanceled and ErrAbandoned do not occur *)
Definition base_classes : list err := [E_nil; E_suberr; E_break; E_down; E_closed].
Definition quit_classes : list err := [E_canceled; E_abandoned].
Definition dclsq (q : bool) (e : err) : bool :=
  existsb (N.eqb e) (base_classes ++ if q then quit_classes else []).

Lemma dclsq_true e : dclsq true e = dcls e.
Proof. reflexivity. Qed.

Section WithQuit.
Variable qt : bool.

Definition done_ok (d : N * err * list (list N)) : Prop := dclsq qt (snd (fst d)) = true.
Definition xev_ok (x : N * option err) : Prop :=
  match snd x with Some e => merr e = true | None => True end.

Record Inv (c c' : client) : Prop := mkInv {
  inv_csem : k_csem c <> None -> k_csem c' <> None;
  inv_done : exists l, k_done c' = l ++ k_done c /\ Forall done_ok l;
  inv_xev : exists l, k_xev c' = l ++ k_xev c /\ Forall xev_ok l
}.

Lemma Inv_upd c c' :
  (k_csem c <> None -> k_csem c' <> None) -> k_done c' = k_done c -> k_xev c' = k_xev c -> Inv c c'.
Proof. intros H1 H2 H3. split; [exact H1|exists []; auto|exists []; auto]. Qed.

Definition ip (c : client) := (k_csem c, k_done c, k_xev c).
Lemma Inv_same c c' : ip c' = ip c -> Inv c c'.
Proof. unfold ip. intros H. inversion H as [[H1 H2 H3]]. apply Inv_upd; auto. rewrite H1. auto. Qed.
Lemma Inv_refl c : Inv c c.
Proof. apply Inv_same. reflexivity. Qed.
Lemma Inv_trans c c1 c2 : Inv c c1 -> Inv c1 c2 -> Inv c c2.
Proof.
  intros [A1 (d1 & D1 & F1) (x1 & X1 & G1)] [A2 (d2 & D2 & F2) (x2 & X2 & G2)]. split.
  - auto.
  - exists (d2 ++ d1). rewrite D2, D1, app_assoc. split; [reflexivity|apply Forall_app; auto].
  - exists (x2 ++ x1). rewrite X2, X1, app_assoc. split; [reflexivity|apply Forall_app; auto].
Qed.

Lemma Inv_complete c rid e fs : dclsq qt e = true -> Inv c (complete c rid e fs).
Proof.
  intros H. split; [auto| |exists []; auto].
  exists [(rid, e, fs)]. split; [reflexivity|]. constructor; [exact H|constructor].
Qed.

Lemma Inv_fold_left {X} (f : client -> X -> client) l :
  (forall c x, Inv c (f c x)) -> forall c, Inv c (fold_left f l c).
Proof.
  intros H. induction l as [|x l IH]; intros c; cbn [fold_left]; [apply Inv_refl|].
  eapply Inv_trans; [apply H|apply IH].
Qed.

Lemma Inv_lock_cleanup_run c l : Inv c (lock_cleanup_run c l).
Proof. destruct l; apply Inv_same; reflexivity. Qed.

Lemma Inv_release_locked c e : dclsq qt e = true -> Inv c (release_locked c e).
Proof.
  intros H. unfold release_locked. apply Inv_fold_left. intros c' p.
  destruct (snd p); try apply Inv_refl.
  eapply Inv_trans; [apply Inv_lock_cleanup_run|apply Inv_complete, H].
Qed.

Lemma Inv_break_pending c : Inv c (break_pending c).
Proof.
  unfold break_pending.
  match goal with |- Inv _ (?x <| k_txs := [] |>) =>
    apply Inv_trans with (c1 := x); [|apply Inv_same; reflexivity] end.
  eapply Inv_trans; [|apply Inv_fold_left].
  - match goal with |- Inv _ (?x <| k_ping := None |>) =>
      apply Inv_trans with (c1 := x); [|apply Inv_same; reflexivity] end.
    destruct (k_ping c); [|apply Inv_refl].
    destruct (parked_kind c n) as [[]|]; try apply Inv_refl. apply Inv_complete. reflexivity.
  - intros c' t. destruct (parked_kind c' (snd (fst t))) as [[]|]; try apply Inv_refl;
      apply Inv_complete; reflexivity.
Qed.

Lemma Inv_xclose c x : Inv c (xclose c x).
Proof.
  unfold xclose. destruct (x =? 0); [apply Inv_refl|].
  split; [auto|exists []; auto|]. exists [(x, None)]. split; [reflexivity|].
  constructor; [exact I|constructor].
Qed.

Lemma Inv_xsend c x e : merr e = true -> Inv c (xsend c x e).
Proof.
  intros H. unfold xsend. destruct (x =? 0); [apply Inv_refl|].
  split; [auto|exists []; auto|]. exists [(x, Some e)]. split; [reflexivity|].
  constructor; [exact H|constructor].
Qed.

Lemma Inv_term_callbacks c : Inv c (term_callbacks c).
Proof.
  unfold term_callbacks. eapply Inv_trans; [|apply Inv_break_pending].
  destruct (k_seqclosed c); [apply Inv_refl|].
  split; [auto|exists []; auto|]. eexists. split; [reflexivity|].
  apply Forall_rev. apply Forall_forall. intros y Hy. apply in_map_iff in Hy as (x & <- & _).
  reflexivity.
Qed.

(* the invariant, the result predicate and "the log only grows" for a helper *)
Definition gspec {A} (Qa : A -> Prop) (c : client) (f : M (client * A)) : Prop :=
  lspec f (fun p _ => Inv c (fst p) /\ Qa (snd p)).

Lemma gspec_ret {A} (Qa : A -> Prop) c c' a : Inv c c' -> Qa a -> gspec Qa c (ret (c', a)).
Proof. intros H1 H2. apply lspec_ret. auto. Qed.
Lemma gspec_ret_same {A} (Qa : A -> Prop) c c' a : ip c' = ip c -> Qa a -> gspec Qa c (ret (c', a)).
Proof. intros H1 H2. apply gspec_ret; [apply Inv_same, H1|exact H2]. Qed.
Lemma gspec_fail {A} (Qa : A -> Prop) c : gspec Qa c fail_tape.
Proof. apply lspec_fail. Qed.

Lemma gspec_bind {A B} (Qa : A -> Prop) (Qb : B -> Prop) c
      (f : M (client * A)) (k : client * A -> M (client * B)) :
  gspec Qa c f -> (forall p, Inv c (fst p) -> Qa (snd p) -> gspec Qb (fst p) (k p)) ->
  gspec Qb c (bind f k).
Proof.
  intros Hf Hk. eapply lspec_bind; [exact Hf|]. intros p t1 [H1 H2].
  eapply lspec_conseq; [apply Hk; assumption|]. intros q t2 [H3 H4].
  split; [eapply Inv_trans; eassumption|exact H4].
Qed.

Lemma gspec_bind_e {A B} (Pa : A -> Prop) (Qb : B -> Prop) c (f : M A) (k : A -> M (client * B)) :
  lspec f (fun a _ => Pa a) -> (forall a, Pa a -> gspec Qb c (k a)) -> gspec Qb c (bind f k).
Proof.
  intros Hf Hk. eapply lspec_bind; [exact Hf|]. intros a t1 H1.
  eapply lspec_conseq; [apply Hk; assumption|]. intros q t2 H. exact H.
Qed.

Lemma gspec_pre {A} (Qa : A -> Prop) c c1 (f : M (client * A)) :
  Inv c c1 -> gspec Qa c1 f -> gspec Qa c f.
Proof.
  intros H Hf. eapply lspec_conseq; [exact Hf|]. intros p t [H1 H2].
  split; [eapply Inv_trans; eassumption|exact H2].
Qed.

Lemma gspec_same {A} (Qa : A -> Prop) c c1 (f : M (client * A)) :
  ip c1 = ip c -> gspec Qa c1 f -> gspec Qa c f.
Proof. intros H. apply gspec_pre, Inv_same, H. Qed.

Lemma gspec_conseq {A} (Qa Qb : A -> Prop) c (f : M (client * A)) :
  gspec Qa c f -> (forall a, Qa a -> Qb a) -> gspec Qb c f.
Proof. intros Hf H. eapply lspec_conseq; [exact Hf|]. intros p t [H1 H2]. auto. Qed.

Lemma lspec_any {A} (f : M A) (P : A -> list req -> Prop) : lspec f P -> lspec f (fun _ _ => True).
Proof. intros H. eapply lspec_conseq; [exact H|]. auto. Qed.

(* result predicates *)
Definition Merr (e : err) : Prop := merr e = true.
Definition hs_merr (h : hs_result) : Prop := match h with HsOk => True | HsErr e => Merr e end.
Definition hres_merr (h : hres) : Prop := match h with HErr e => Merr e | _ => True end.
Definition wr_merr (r : wr_result) : Prop := match r with WrDone e => Merr e | WrPark => True end.
Definition retv_merr (r : retv) : Prop :=
  match r with RetErr e => Merr e | RetAdopt _ e => Merr e | _ => True end.
Definition anyr {A} (a : A) : Prop := True.

Lemma wrote_inv c cn p c' e tr : wrote c cn p c' e tr -> Inv c c' /\ Merr e.
Proof.
  intros (r & wtr & _ & _ & [(_ & _ & -> & ->)|(_ & _ & -> & ->)]).
  - split; [apply Inv_refl|reflexivity].
  - split; [apply Inv_same; reflexivity|apply merr_submit].
Qed.

Lemma locked_write_g c cn bufs single : gspec Merr c (locked_write c cn bufs single).
Proof.
  eapply lspec_conseq; [apply locked_write_spec|]. intros p t H. eapply wrote_inv, H.
Qed.

Lemma nowait_write_g c bufs single : gspec Merr c (nowait_write c bufs single).
Proof.
  unfold nowait_write. destruct (k_wsem c); try (apply gspec_ret_same; reflexivity).
  apply locked_write_g.
Qed.

Lemma op_write_g c bufs single : gspec wr_merr c (op_write c bufs single).
Proof.
  unfold op_write. destruct (k_wsem c); try (apply gspec_ret_same; [reflexivity|exact I || reflexivity]).
  eapply gspec_bind; [apply locked_write_g|]. intros [c1 e] H1 H2. apply gspec_ret; [apply Inv_refl|exact H2].
Qed.

Lemma with_reader_g {A} c (f : rst -> A * rst) : gspec anyr c (with_reader c f).
Proof.
  eapply lspec_conseq; [apply with_reader_spec|]. intros p t (_ & s0 & s & _ & ->).
  split; [apply Inv_same; reflexivity|exact I].
Qed.

Lemma to_offline_g c : lspec (to_offline c) (fun c' _ => Inv c c').
Proof.
  unfold to_offline.
  destruct (k_wsem c) eqn:W;
    try (eapply lspec_bind; [apply tell_spec|]; intros _ t _; apply lspec_ret;
         eapply Inv_trans; [|apply Inv_break_pending]; apply Inv_same; reflexivity).
  eapply lspec_bind; [apply tell_spec|]. intros _ t _. apply lspec_ret. apply Inv_same. reflexivity.
Qed.

(* to_offline, then return *)
Lemma to_offline_ret_g {A} (Qa : A -> Prop) c (a : A) :
  Qa a -> gspec Qa c (bind (to_offline c) (fun c => ret (c, a))).
Proof.
  intros H. eapply lspec_bind; [apply to_offline_g|]. intros c' t H1. apply lspec_ret. auto.
Qed.

Lemma gspec_bind_off {B} (Qb : B -> Prop) c (k : client -> M (client * B)) :
  (forall c1, Inv c c1 -> gspec Qb c1 (k c1)) -> gspec Qb c (bind (to_offline c) k).
Proof.
  intros Hk. eapply lspec_bind; [apply to_offline_g|]. intros c1 t H1. cbv beta in H1.
  eapply lspec_conseq; [apply Hk, H1|]. intros q t2 [H3 H4].
  split; [eapply Inv_trans; eassumption|exact H4].
Qed.

Lemma rugged_load_e k :
  lspec (rugged_load k) (fun l _ => match l with inr e => Merr e | inl _ => True end).
Proof.
  eapply lspec_conseq; [apply rugged_load_spec|]. intros l t [_ H].
  destruct l; [exact I|]. destruct H as [->| ->]; reflexivity.
Qed.

Lemma rugged_save_g c k v : gspec anyr c (rugged_save c k v).
Proof.
  eapply lspec_conseq; [apply rugged_save_spec|]. intros p t [_ ->].
  split; [apply Inv_same; reflexivity|exact I].
Qed.

Lemma resend_e fuel cn space seqno acc subm :
  lspec (resend fuel cn space seqno acc subm) (fun p _ => Merr (snd p)).
Proof.
  eapply lspec_conseq; [apply resend_lspec|]. intros p t [_ H].
  destruct H as [->|[->|[->|(r & _ & ->)]]]; try reflexivity. apply merr_werr.
Qed.

Lemma handshake_g c cn clean cid : gspec hs_merr c (handshake c cn clean cid).
Proof.
  unfold handshake. cbv zeta.
  eapply gspec_bind_e; [eapply lspec_any, conn_write_spec|]. intros r _.
  destruct r; try (apply gspec_ret_same; [reflexivity|reflexivity]).
  eapply gspec_bind; [eapply gspec_same; [|apply with_reader_g]; reflexivity|].
  intros [c1 [p e]] H _. cbn [fst] in *. cbv zeta.
  destruct e as [[]|]; try apply gspec_fail;
  match goal with |- context [if ?b then _ else _] => destruct b end;
    try (apply gspec_ret_same; [reflexivity|reflexivity]).
  destruct p as [|a [|b [|fl [|code [|]]]]]; try apply gspec_fail.
  destruct (negb (code =? 0)); [apply gspec_ret_same; reflexivity|].
  destruct (fl =? 0); [apply gspec_ret_same; [reflexivity|exact I]|].
  destruct (fl =? 1); [|apply gspec_ret_same; reflexivity].
  destruct clean; apply gspec_ret_same; first [reflexivity|exact I].
Qed.

Ltac inv_upd := apply Inv_upd; [first [exact (fun H => H) | intros _; discriminate]|reflexivity|reflexivity].

Lemma connect_g c : gspec Merr c (connect c).
Proof.
  unfold connect. destruct (k_closed c); [apply gspec_ret_same; reflexivity|]. cbv zeta.
  assert (Hdown : forall c1 e, Inv c c1 -> Merr e -> gspec Merr c (ret (release_locked c1 E_down, e))).
  { intros c1 e H1 H2. apply gspec_ret; [|exact H2].
    eapply Inv_trans; [exact H1|apply Inv_release_locked; reflexivity]. }
  eapply gspec_bind_e; [apply rugged_load_e|]. intros l Hl.
  destruct l as [cidv|e]; [|apply Hdown; [inv_upd|exact Hl]].
  eapply gspec_bind_e; [eapply lspec_any, ask_dial_spec|]. intros ok _.
  destruct ok; cbn [negb]; [|apply Hdown; [inv_upd|reflexivity]].
  eapply gspec_bind; [eapply gspec_same; [|apply handshake_g]; reflexivity|].
  intros [c1 h] H1 H2. cbn [fst snd] in *.
  assert (Hdown1 : forall c2 e, Inv c1 c2 -> Merr e ->
            gspec Merr c1 (_ <- tell (QClose (k_nconn c));; ret (release_locked c2 E_down, e))).
  { intros c2 e H3 H4. eapply gspec_bind_e; [eapply lspec_any, tell_spec|]. intros _ _.
    apply gspec_ret; [|exact H4].
    eapply Inv_trans; [exact H3|apply Inv_release_locked; reflexivity]. }
  destruct h as [|e]; [|apply Hdown1; [inv_upd|exact H2]].
  eapply gspec_bind_e; [apply resend_e|]. intros [s1 e1] He1. cbn [snd] in He1.
  destruct (negb (e1 =? 0)); [apply Hdown1; [inv_upd|exact He1]|].
  eapply gspec_bind_e; [apply resend_e|]. intros [s2 e2] He2. cbn [snd] in He2.
  destruct (negb (e2 =? 0)); [apply Hdown1; [inv_upd|exact He2]|].
  match goal with |- context [if ?b then _ else _] => destruct b end; [apply gspec_fail|].
  apply gspec_ret; [inv_upd|reflexivity].
Qed.

(* ------------------------------------------------------------------ *)
(* The invariant through the packet handlers and ReadSlices            *)

Ltac gleaf := apply gspec_ret_same; [reflexivity|first [exact I|reflexivity]].

Lemma on_publish_g c head body : gspec hres_merr c (on_publish c head body).
Proof.
  unfold on_publish. cbv zeta.
  repeat match goal with
  | |- gspec _ _ (if ?b then _ else _) => destruct b; [gleaf|]
  end.
  match goal with |- gspec _ _ (if ?b then _ else _) => destruct b end.
  - destruct (negb _); gleaf.
  - eapply gspec_bind_e; [apply rugged_load_e|]. intros l Hl.
    destruct l as [[|]|]; try destruct (negb _); try gleaf.
    apply gspec_ret_same; [reflexivity|exact Hl].
Qed.

Lemma store_delete_e k : lspec (store_delete k) (fun _ _ => True).
Proof. eapply lspec_any, store_delete_spec. Qed.

Lemma on_puback_g c body : gspec hres_merr c (on_puback c body).
Proof.
  unfold on_puback. cbv zeta.
  repeat match goal with
  | |- gspec _ _ (if ?b then _ else _) => destruct b; [gleaf|]
  end.
  destruct (k_q1 c) as [|x q]; [gleaf|].
  eapply gspec_bind_e; [apply store_delete_e|]. intros ok _.
  destruct (negb ok); [gleaf|].
  apply gspec_ret; [|exact I]. eapply Inv_trans; [|apply Inv_xclose]. apply Inv_same. reflexivity.
Qed.

Lemma on_pubcomp_g c body : gspec hres_merr c (on_pubcomp c body).
Proof.
  unfold on_pubcomp. cbv zeta.
  repeat match goal with
  | |- gspec _ _ (if ?b then _ else _) => destruct b; [gleaf|]
  end.
  destruct (k_q2 c) as [|x q]; [gleaf|].
  eapply gspec_bind_e; [apply store_delete_e|]. intros ok _.
  destruct (negb ok); [gleaf|].
  apply gspec_ret; [|exact I]. eapply Inv_trans; [|apply Inv_xclose]. apply Inv_same. reflexivity.
Qed.

Lemma on_pubrec_g c body : gspec hres_merr c (on_pubrec c body).
Proof.
  unfold on_pubrec. cbv zeta.
  repeat match goal with
  | |- gspec _ _ (if ?b then _ else _) => destruct b; [gleaf|]
  end.
  eapply gspec_bind; [eapply gspec_same; [|apply rugged_save_g]; reflexivity|].
  intros [c1 ok] _ _. cbn [fst].
  destruct (negb ok); [gleaf|].
  eapply gspec_bind; [eapply gspec_same; [|apply nowait_write_g]; reflexivity|].
  intros [c2 e] _ He. cbn [fst snd] in *.
  destruct (negb (e =? 0)); [apply gspec_ret_same; [reflexivity|exact He]|gleaf].
Qed.

Lemma on_pubrel_g c body : gspec hres_merr c (on_pubrel c body).
Proof.
  unfold on_pubrel. cbv zeta.
  repeat match goal with
  | |- gspec _ _ (if ?b then _ else _) => destruct b; [gleaf|]
  end.
  eapply gspec_bind_e; [apply store_delete_e|]. intros ok _.
  destruct (negb ok); [gleaf|].
  destruct (negb (len (k_pack c) =? 0)); [gleaf|].
  eapply gspec_bind; [eapply gspec_same; [|apply nowait_write_g]; reflexivity|].
  intros [c2 e] _ He. cbn [fst snd] in *.
  destruct (negb (e =? 0)); [apply gspec_ret_same; [reflexivity|exact He]|gleaf].
Qed.

Lemma Inv_if_complete (b : bool) c rid e fs : dclsq qt e = true -> Inv c (if b then complete c rid e fs else c).
Proof. intros H. destruct b; [apply Inv_complete, H|apply Inv_refl]. Qed.

Lemma on_suback_g c body : Inv c (fst (on_suback c body)) /\ hres_merr (snd (on_suback c body)).
Proof.
  unfold on_suback. cbv zeta.
  repeat match goal with
  | |- context [if ?b then (c, HErr E_proto) else _] =>
    destruct b; [split; [apply Inv_refl|reflexivity]|]
  end.
  destruct (tx_find c (u16 body)) as [[rid fso]|]; [|split; [apply Inv_refl|exact I]].
  assert (T : Inv c (tx_remove c (u16 body))) by (apply Inv_same; reflexivity).
  destruct (negb (_ =? _)%nat).
  - cbn [fst snd]. split; [|reflexivity].
    eapply Inv_trans; [exact T|apply Inv_if_complete; reflexivity].
  - destruct (failed_filters _ _); cbn [fst snd]; (split; [|exact I]);
      (eapply Inv_trans; [exact T|apply Inv_if_complete; reflexivity]).
Qed.

Lemma on_unsuback_g c body : Inv c (fst (on_unsuback c body)) /\ hres_merr (snd (on_unsuback c body)).
Proof.
  unfold on_unsuback. cbv zeta.
  repeat match goal with
  | |- context [if ?b then (c, HErr E_proto) else _] =>
    destruct b; [split; [apply Inv_refl|reflexivity]|]
  end.
  destruct (tx_find c (u16 body)) as [[rid fso]|]; [|split; [apply Inv_refl|exact I]].
  assert (T : Inv c (tx_remove c (u16 body))) by (apply Inv_same; reflexivity).
  destruct (parked_kind _ _) as [[]|]; cbn [fst snd]; (split; [|exact I]); try exact T.
  eapply Inv_trans; [exact T|apply Inv_complete; reflexivity].
Qed.

Lemma on_pingresp_g c body : Inv c (fst (on_pingresp c body)) /\ hres_merr (snd (on_pingresp c body)).
Proof.
  unfold on_pingresp. destruct (negb _); [split; [apply Inv_refl|reflexivity]|].
  destruct (k_ping c); [|split; [apply Inv_refl|exact I]]. cbv zeta.
  assert (T : Inv c (c <| k_ping := None |>)) by (apply Inv_same; reflexivity).
  destruct (parked_kind _ _) as [[]|]; cbn [fst snd]; (split; [|exact I]); try exact T.
  eapply Inv_trans; [exact T|apply Inv_complete; reflexivity].
Qed.

Lemma gspec_ret_pair {A} (Qa : A -> Prop) c (p : client * A) :
  Inv c (fst p) /\ Qa (snd p) -> gspec Qa c (ret p).
Proof. destruct p. intros [H1 H2]. apply gspec_ret; assumption. Qed.

Lemma dispatch_g c head body : gspec hres_merr c (dispatch c head body).
Proof.
  unfold dispatch.
  repeat match goal with
  | |- gspec _ _ (match ?x with _ => _ end) => destruct x; try gleaf
  end.
  all: first [ apply on_publish_g | apply on_puback_g | apply on_pubrec_g
             | apply on_pubrel_g | apply on_pubcomp_g
             | apply gspec_ret_pair, on_suback_g | apply gspec_ret_pair, on_unsuback_g
             | apply gspec_ret_pair, on_pingresp_g ].
Qed.

Ltac off_ret := apply to_offline_ret_g; first [exact I|reflexivity|apply merr_rerr|assumption].

Lemma read_loop_g fuel : forall c, gspec retv_merr c (read_loop fuel c).
Proof.
  induction fuel as [|f IH]; intros c; cbn [read_loop]; [apply gspec_fail|].
  eapply gspec_bind; [apply with_reader_g|]. intros [c1 pk] _ _. cbn [fst]. clear c.
  destruct pk as [head body|head size partial|e proto|].
  - (* PkOk *)
    eapply gspec_bind; [apply dispatch_g|]. intros [c2 h] _ Hh. cbn [fst snd] in *.
    destruct h as [|e|topic msg|].
    + eapply gspec_same; [|apply IH]; reflexivity.
    + off_ret.
    + gleaf.
    + eapply gspec_bind; [apply nowait_write_g|]. intros [c3 e] _ He. cbn [fst snd] in *.
      destruct (negb (e =? 0)); [off_ret|eapply gspec_same; [|apply IH]; reflexivity].
  - (* PkBig *)
    eapply gspec_bind; [apply on_publish_g|]. intros [c2 h] _ Hh. cbn [fst snd] in *.
    destruct h as [|e|topic msg|].
    + apply gspec_fail.
    + off_ret.
    + gleaf.
    + eapply gspec_bind; [apply with_reader_g|]. intros [c3 d] _ _. cbn [fst].
      destruct d as [[]|]; try off_ret; try apply gspec_fail.
      eapply gspec_bind; [apply nowait_write_g|]. intros [c4 e] _ He. cbn [fst snd] in *.
      destruct (negb (e =? 0)); [off_ret|eapply gspec_same; [|apply IH]; reflexivity].
  - (* PkErr *)
    destruct e; try apply gspec_fail;
      try (apply to_offline_ret_g; destruct proto; reflexivity).
    apply gspec_bind_off. intros c2 _.
    eapply gspec_bind; [apply connect_g|]. intros [c3 e] _ He. cbn [fst snd] in *.
    destruct (negb (e =? 0)); [apply gspec_ret; [apply Inv_refl|exact He]|apply IH].
  - off_ret.
Qed.

(* ReadSlices after the automatic connect *)
Definition rs_rest (p : client * err) : M (client * retv) :=
  let '(c, e) := p in
  if negb (e =? 0) then ret (c, RetErr e) else
  '(c, e) <- (match k_big c with
              | None => ret (c, None)
              | Some remaining =>
                let c := c <| k_big := None |> in
                with_reader c (fun s => client_discard (s_pause (k_cfg c)) s remaining)
              end) ;;
  match e with
  | Some ENoTape => fail_tape
  | Some e => c <- to_offline c ;; ret (c, RetErr (rerr_class e))
  | None =>
    let c := c <| k_rbuf ::= skipn (N.to_nat (k_peekn c)) |> <| k_peekn := 0 |> in
    '(c, e) <- (match k_pack c with
                | [] => ret (c, None)
                | h :: _ =>
                  '(c, ok) <- (if h / 16 =? 5
                               then rugged_save c (N.lor (u16 (skipn 2 (k_pack c))) remote_flag) (k_pack c)
                               else ret (c, true)) ;;
                  if negb ok then ret (c, Some (E_store, false)) else
                  '(c, e) <- nowait_write c [k_pack c] true ;;
                  if negb (e =? 0) then ret (c, Some (e, true)) else ret (c <| k_pack := [] |>, None)
                end) ;;
    match e with
    | Some (e, off) => c <- (if off then to_offline c else ret c) ;; ret (c, RetErr e)
    | None => fun w => read_loop (S (S (length (t_rd w) + length (t_dial w)))) c w
    end
  end.

Lemma read_slices_body_unfold c :
  read_slices_body c =
  bind (match k_rconn c with None => connect c | Some _ => ret (c, E_nil) end) rs_rest.
Proof. reflexivity. Qed.

Definition opt_merr (o : option (err * bool)) : Prop :=
  match o with Some (e, _) => Merr e | None => True end.

Lemma rs_rest_g c e : Merr e -> gspec retv_merr c (rs_rest (c, e)).
Proof.
  intros He. unfold rs_rest.
  destruct (negb (e =? 0)); [apply gspec_ret; [apply Inv_refl|exact He]|].
  eapply gspec_bind with (Qa := anyr).
  { destruct (k_big c); [|gleaf]. eapply gspec_same; [|apply with_reader_g]. reflexivity. }
  intros [c2 e2] _ _. cbn [fst]. clear c He.
  destruct e2 as [[]|]; try off_ret; try apply gspec_fail.
  cbv zeta.
  match goal with |- context [k_pack ?x] => set (c3 := x) end.
  eapply gspec_same with (c1 := c3); [reflexivity|]. clearbody c3. clear c2.
  eapply gspec_bind with (Qa := opt_merr).
  { destruct (k_pack c3) as [|h t]; [gleaf|].
    eapply gspec_bind with (Qa := anyr).
    { destruct (h / 16 =? 5); [|gleaf]. apply rugged_save_g. }
    intros [c4 ok] _ _. cbn [fst].
    destruct (negb ok); [gleaf|].
    eapply gspec_bind; [apply nowait_write_g|]. intros [c5 e5] _ H5. cbn [fst snd] in *.
    destruct (negb (e5 =? 0)); [apply gspec_ret_same; [reflexivity|exact H5]|gleaf]. }
  intros [c6 e6] _ H6. cbn [fst snd] in *.
  destruct e6 as [[e' off]|].
  - destruct off; [apply to_offline_ret_g; exact H6|].
    eapply lspec_bind with (P := fun c' _ => c' = c6); [apply lspec_ret; reflexivity|].
    intros c7 t ->. apply lspec_ret. split; [apply Inv_refl|exact H6].
  - apply (lspec_world (fun w => S (S (length (t_rd w) + length (t_dial w))))
                       (fun n => read_loop n c6)).
    intros n. apply read_loop_g.
Qed.

Lemma read_slices_body_g c : gspec retv_merr c (read_slices_body c).
Proof.
  rewrite read_slices_body_unfold.
  eapply gspec_bind with (Qa := Merr); [destruct (k_rconn c); [gleaf|apply connect_g]|].
  intros [c1 e] _ He. apply rs_rest_g, He.
Qed.

Lemma read_slices_g c : gspec retv_merr c (read_slices c).
Proof.
  unfold read_slices. eapply gspec_bind; [apply read_slices_body_g|].
  intros [c1 r] _ Hr. cbn [fst snd] in *.
  destruct r; try (apply gspec_ret; [apply Inv_refl|exact Hr]).
  destruct (is_closed_err e); [|apply gspec_ret; [apply Inv_refl|exact Hr]].
  apply gspec_ret; [apply Inv_term_callbacks|exact Hr].
Qed.

(* ------------------------------------------------------------------ *)
(* The invariant through the requests                                  *)

Lemma read_all_op_g c : gspec retv_merr c (read_all_op c).
Proof.
  unfold read_all_op. destruct (k_big c); [|gleaf]. cbv zeta.
  eapply gspec_bind; [eapply gspec_same; [|apply with_reader_g]; reflexivity|].
  intros [c1 r] _ _. cbn [fst].
  destruct r as [bs|[]]; try gleaf; try apply gspec_fail;
    (eapply gspec_bind_e; [eapply lspec_any, tell_spec|]; intros _ _; gleaf).
Qed.

Lemma op_publish_g c retain msg topic : gspec retv_merr c (op_publish c retain msg topic).
Proof.
  unfold op_publish. cbv zeta.
  destruct (deny_of _); [gleaf|].
  destruct (packet_max <? _); [gleaf|].
  eapply gspec_bind; [eapply gspec_same; [|apply op_write_g]; reflexivity|].
  intros [c1 r] _ Hr. cbn [fst snd] in *.
  destruct r; [apply gspec_ret_same; [reflexivity|exact Hr]|gleaf].
Qed.

Lemma ip_tx_pick fuel space : forall c, ip (fst (tx_pick fuel c space)) = ip c.
Proof.
  induction fuel as [|f IH]; intros c; cbn [tx_pick]; [reflexivity|]. cbv zeta.
  destruct (existsb _ _); [|reflexivity]. rewrite IH. reflexivity.
Qed.

Lemma op_subscribe_g c sub level fs : gspec retv_merr c (op_subscribe c sub level fs).
Proof.
  unfold op_subscribe. cbv zeta.
  destruct fs as [|f0 fs0]; [gleaf|].
  set (fs := f0 :: fs0). clearbody fs.
  destruct (any_denied fs); [gleaf|].
  destruct (packet_max <? _); [gleaf|].
  destruct (511 <? _); [gleaf|].
  pose proof (ip_tx_pick 1024 (if sub then sub_space else unsub_space) (c <| k_nextr ::= N.succ |>)) as T.
  destruct (tx_pick 1024 _ _) as [c1 pid]. cbn [fst] in T. change (ip c1 = ip c) in T.
  eapply gspec_bind; [eapply gspec_same; [|apply op_write_g]; exact T|].
  intros [c2 r] _ Hr. cbn [fst snd] in *.
  destruct r as [e|]; [destruct (e =? 0)|]; try gleaf.
  apply gspec_ret_same; [reflexivity|exact Hr].
Qed.

Lemma op_ping_g c : gspec retv_merr c (op_ping c).
Proof.
  unfold op_ping. cbv zeta. change (k_ping (c <| k_nextr ::= N.succ |>)) with (k_ping c).
  destruct (k_ping c); [destruct (k_closed _); gleaf|].
  eapply gspec_bind; [eapply gspec_same; [|apply op_write_g]; reflexivity|].
  intros [c2 r] _ Hr. cbn [fst snd] in *.
  destruct r as [e|]; [destruct (e =? 0)|]; try gleaf.
  apply gspec_ret_same; [reflexivity|exact Hr].
Qed.

Lemma op_quit_g c rid : qt = true -> gspec retv_merr c (op_quit c rid).
Proof.
  intros Hq. unfold op_quit. destruct (parked_kind c rid) as [[l|pid|pid|]|]; try gleaf.
  - apply gspec_ret; [|reflexivity].
    eapply Inv_trans; [apply Inv_lock_cleanup_run|apply Inv_complete; rewrite Hq; reflexivity].
  - apply gspec_ret; [|reflexivity].
    eapply Inv_trans; [|apply Inv_complete; rewrite Hq; reflexivity]. apply Inv_same; reflexivity.
  - apply gspec_ret; [|reflexivity].
    eapply Inv_trans; [|apply Inv_complete; rewrite Hq; reflexivity]. apply Inv_same; reflexivity.
  - destruct (k_ping c); [destruct (_ =? _)|]; try gleaf.
    apply gspec_ret; [|reflexivity].
    eapply Inv_trans; [|apply Inv_complete; rewrite Hq; reflexivity]. apply Inv_same; reflexivity.
Qed.

Lemma op_close_g c : gspec retv_merr c (op_close c).
Proof.
  unfold op_close. destruct (k_closed c); [gleaf|].
  eapply gspec_bind_e with (Pa := fun _ => True).
  { destruct (k_wsem c); first [eapply lspec_any, tell_spec|apply lspec_ret; exact I]. }
  intros _ _. apply gspec_ret; [|reflexivity].
  eapply Inv_trans; [|apply Inv_release_locked; reflexivity]. apply Inv_same; reflexivity.
Qed.

Lemma op_disconnect_g c : gspec retv_merr c (op_disconnect c).
Proof.
  unfold op_disconnect. destruct (k_closed c); [gleaf|].
  assert (H : Inv c (release_locked (set_offline c <| k_closed := true |> <| k_wsem := WsClosed |>) E_closed)).
  { eapply Inv_trans; [|apply Inv_release_locked; reflexivity]. apply Inv_same; reflexivity. }
  destruct (k_wsem c); try (apply gspec_ret; [exact H|reflexivity]).
  eapply gspec_bind_e; [eapply lspec_any, conn_write_spec|]. intros r _.
  eapply gspec_bind_e; [eapply lspec_any, tell_spec|]. intros _ _.
  apply gspec_ret; [exact H|]. destruct r; first [reflexivity|apply merr_submit].
Qed.

Lemma op_read_backoff_g c e :
  Inv c (fst (op_read_backoff c e)) /\ retv_merr (snd (op_read_backoff c e)).
Proof.
  unfold op_read_backoff.
  destruct (_ || _); [split; [apply Inv_refl|exact I]|].
  destruct (N.testbit e 1); [split; [apply Inv_refl|exact I]|].
  destruct (k_rconn c); [split; [apply Inv_refl|exact I]|].
  destruct (N.testbit e 10).
  - split; [apply Inv_refl|]. destruct (_ =? 0); exact I.
  - cbv zeta. split; [apply Inv_same; reflexivity|]. destruct (_ =? 0); exact I.
Qed.

(* AdoptSession: the errors *)
Lemma adopt_scan_e keys : forall a,
  lspec (adopt_scan keys a) (fun r _ => match r with inr e => Merr e | inl _ => True end).
Proof.
  induction keys as [|k r IH]; intros a; cbn [adopt_scan].
  - apply lspec_ret. exact I.
  - destruct (k =? 0); [apply IH|].
    eapply lspec_bind; [apply ask_store_spec|]. intros v t _.
    destruct v as [ks|raw| |]; try apply lspec_fail.
    2:{ apply lspec_ret. reflexivity. }
    destruct (decode_value _) as [packet sq| |].
    + cbv zeta. destruct (N.testbit k 16); [eapply lspec_conseq; [apply IH|]; auto|].
      destruct packet as [|h t']; [apply lspec_ret; reflexivity|].
      eapply lspec_conseq; [apply IH|]; auto.
    + eapply lspec_bind; [apply store_delete_e|]. intros ok t' _.
      eapply lspec_conseq; [apply IH|]; auto.
    + eapply lspec_bind; [apply store_delete_e|]. intros ok t' _.
      eapply lspec_conseq; [apply IH|]; auto.
Qed.

Definition adopt_ok (p : option client * retv) : Prop :=
  retv_merr (snd p) /\
  match fst p with Some c => k_done c = [] /\ k_xev c = [] | None => True end.

Lemma op_adopt_e cf z1 z2 : lspec (op_adopt cf z1 z2) (fun p _ => adopt_ok p).
Proof.
  unfold op_adopt. eapply lspec_bind; [apply ask_store_spec|]. intros a t _.
  destruct a as [keys|raw| |]; try apply lspec_fail.
  2:{ apply lspec_ret. split; [reflexivity|exact I]. }
  eapply lspec_bind; [apply adopt_scan_e|]. intros rr t' Hr.
  destruct rr as [acc|e]; [|apply lspec_ret; split; [exact Hr|exact I]].
  destruct (clean_seq (keys_of (a_alo acc))) as [alo g1].
  destruct (clean_seq (keys_of (a_eo acc))) as [eo g2].
  destruct (clean_seq (keys_of (a_rel acc))) as [rel g3].
  cbv zeta.
  match goal with |- lspec (if ?b then _ else _) _ => destruct b end; apply lspec_ret.
  - split; [reflexivity|exact I].
  - split; [reflexivity|]. cbn [fst].
    match goal with |- context [if ?g then [] else rel] => generalize (if g then [] else rel) end.
    intros rel'. destruct alo, eo, rel'; split; reflexivity.
Qed.

Lemma op_publish_persisted_g c level retain msg topic :
  gspec retv_merr c (op_publish_persisted c level retain msg topic).
Proof.
  unfold op_publish_persisted. cbv zeta.
  destruct (deny_of _); [gleaf|].
  destruct (packet_max <? _); [gleaf|].
  destruct (k_seqclosed c); [gleaf|].
  destruct (k_closed c); [gleaf|].
  match goal with |- gspec _ _ (if ?b then _ else _) => destruct b end; [gleaf|].
  eapply gspec_bind; [apply rugged_save_g|]. intros [c1 ok] _ _. cbn [fst].
  destruct (negb ok); [gleaf|].
  destruct (level =? 1).
  - match goal with |- gspec _ _ (if ?b then _ else _) => destruct b end.
    + apply gspec_ret; [|exact I]. eapply Inv_trans; [|apply Inv_xsend; reflexivity].
      apply Inv_same; reflexivity.
    + eapply gspec_bind; [eapply gspec_same; [|apply nowait_write_g]; reflexivity|].
      intros [c2 e] _ He. cbn [fst snd] in *.
      destruct (negb (e =? 0)); [|gleaf].
      apply gspec_ret; [apply Inv_xsend, He|exact I].
  - match goal with |- gspec _ _ (if ?b then _ else _) => destruct b end.
    + apply gspec_ret; [|exact I]. eapply Inv_trans; [|apply Inv_xsend; reflexivity].
      apply Inv_same; reflexivity.
    + eapply gspec_bind; [eapply gspec_same; [|apply nowait_write_g]; reflexivity|].
      intros [c2 e] _ He. cbn [fst snd] in *.
      destruct (negb (e =? 0)); [|gleaf].
      apply gspec_ret; [apply Inv_xsend, He|exact I].
Qed.

(* ------------------------------------------------------------------ *)
(* One step                                                            *)

Lemma step_g c o : (forall a b, o <> OpAdopt a b) -> (qt = false -> forall rid, o <> OpQuit rid) ->
  gspec retv_merr (c <| k_done := [] |> <| k_xev := [] |>) (step c o).
Proof.
  intros Ha Hq. unfold step. cbv zeta. destruct o.
  - apply read_slices_g.
  - apply read_all_op_g.
  - apply op_publish_g.
  - apply op_publish_persisted_g.
  - apply op_subscribe_g.
  - apply op_subscribe_g.
  - apply op_ping_g.
  - apply op_quit_g. destruct qt eqn:Q; [reflexivity|]. exfalso. eapply Hq; reflexivity.
  - apply op_close_g.
  - apply op_disconnect_g.
  - exfalso. eapply Ha. reflexivity.
  - apply gspec_ret_pair, op_read_backoff_g.
Qed.

End WithQuit.

Lemma op_adopt_dec o : (exists m1 m2, o = OpAdopt m1 m2) \/ (forall m1 m2, o <> OpAdopt m1 m2).
Proof. destruct o; try (right; intros; discriminate). left; eauto. Qed.

(* C18: connSem, once it holds a connection, is never emptied by the running client *)
Theorem step_csem_monotone c o w c' r w' :
  step c o w = Some ((c', r), w') -> (forall a b, o <> OpAdopt a b) ->
  k_csem c <> None -> k_csem c' <> None.
Proof.
  intros H Ha Hc. destruct (step_g true c o Ha ltac:(discriminate) _ _ _ H) as (tr & _ & [Hi _ _] & _).
  exact (Hi Hc).
Qed.

(* every step only appends to the log *)
Theorem step_log_grows c o w c' r w' :
  step c o w = Some ((c', r), w') -> exists tr, grows w w' tr.
Proof.
  intros H. destruct (op_adopt_dec o) as [(m1 & m2 & ->)|Ha].
  - unfold step in H. cbv zeta in H. apply bind_inv in H as ([oc r'] & w1 & Had & H).
    destruct (op_adopt_e _ _ _ _ _ _ Had) as (tr & G & _).
    destruct oc; apply ret_inv in H as [_ ->]; eauto.
  - destruct (step_g true c o Ha ltac:(discriminate) _ _ _ H) as (tr & G & _). eauto.
Qed.


(* ------------------------------------------------------------------ *)
(* C13: every protocol violation is a reset                            *)

(* reserved, client-only and second CONNACK: everything the table does not name *)
Theorem dispatch_other_type c head body :
  ~ In (head / 16) [3; 4; 5; 6; 7; 9; 11; 13] -> dispatch c head body = ret (c, HErr E_proto).
Proof.
  intros H. unfold dispatch. destruct (head / 16) as [|p]; [reflexivity|].
  repeat (destruct p as [p|p|]; try reflexivity);
    exfalso; apply H; cbn; repeat (first [left; reflexivity|right]).
Qed.

Theorem dispatch_forbidden_type c head body :
  In (head / 16) [0; 1; 2; 8; 10; 12; 14; 15] -> dispatch c head body = ret (c, HErr E_proto).
Proof.
  intros H. apply dispatch_other_type. intros X. cbn in H, X.
  repeat (destruct H as [H|H]; [rewrite <- H in X; intuition discriminate|]). exact H.
Qed.

(* the guards of the acknowledgement handlers *)
Definition ack1_guard (c : client) (body : list N) : Prop :=
  len body = 2 /\ u16 body <> 0 /\ u16 body - N.land (u16 body) id_mask = alo_space /\
  u16 body = N.lor (N.land (k_acked c) id_mask) alo_space /\ k_q1 c <> [].
Definition rec_guard (c : client) (body : list N) : Prop :=
  len body = 2 /\ u16 body <> 0 /\ u16 body - N.land (u16 body) id_mask = eo_space /\
  u16 body = N.lor (N.land (k_recvd c) id_mask) eo_space /\ k_recvd c - k_compl c < len (k_q2 c).
Definition comp_guard (c : client) (body : list N) : Prop :=
  len body = 2 /\ u16 body <> 0 /\ u16 body - N.land (u16 body) id_mask = eo_space /\
  u16 body = N.lor (N.land (k_compl c) id_mask) eo_space /\ k_compl c < k_recvd c /\ k_q2 c <> [].

Definition no_delete (tr : list req) : Prop := forall k, ~ In (QDelete k) tr.

(* wrong length, zero or foreign identifier, not the next in line, nothing pending *)
Theorem on_puback_cases c body : lspec (on_puback c body) (fun p tr =>
  (~ ack1_guard c body /\ p = (c, HErr E_proto) /\ tr = [])
  \/ (ack1_guard c body /\ tr = [QDelete (u16 body)] /\
      (p = (c, HErr E_store)
       \/ exists x q, k_q1 c = x :: q /\
            p = (xclose (c <| k_acked ::= N.succ |> <| k_q1 := q |>) x, HOk)))).
Proof.
  unfold on_puback, ack1_guard. cbv zeta.
  destruct (N.eqb_spec (len body) 2) as [E1|E1]; cbn [negb];
    [|apply lspec_ret; left; split; [tauto|auto]].
  destruct (N.eqb_spec (u16 body) 0) as [E2|E2]; [apply lspec_ret; left; split; [tauto|auto]|].
  destruct (N.eqb_spec (u16 body - N.land (u16 body) id_mask) alo_space) as [E3|E3]; cbn [negb];
    [|apply lspec_ret; left; split; [tauto|auto]].
  destruct (N.eqb_spec (N.lor (N.land (k_acked c) id_mask) alo_space) (u16 body)) as [E4|E4]; cbn [negb];
    [|apply lspec_ret; left; split; [intros (_ & _ & _ & X & _); congruence|auto]].
  destruct (k_q1 c) as [|x q] eqn:Q; [apply lspec_ret; left; split; [tauto|auto]|].
  eapply lspec_bind; [apply store_delete_spec|]. intros ok t ->.
  assert (G : len body = 2 /\ u16 body <> 0 /\ u16 body - N.land (u16 body) id_mask = alo_space /\
              u16 body = N.lor (N.land (k_acked c) id_mask) alo_space /\ x :: q <> [])
    by (repeat split; auto; discriminate).
  destruct ok; cbn [negb]; apply lspec_ret; right; (split; [exact G|]); (split; [reflexivity|]).
  - right. exists x, q. auto.
  - left. reflexivity.
Qed.

Theorem on_pubcomp_cases c body : lspec (on_pubcomp c body) (fun p tr =>
  (~ comp_guard c body /\ p = (c, HErr E_proto) /\ tr = [])
  \/ (comp_guard c body /\ tr = [QDelete (u16 body)] /\
      (p = (c, HErr E_store)
       \/ exists x q, k_q2 c = x :: q /\
            p = (xclose (c <| k_compl ::= N.succ |> <| k_q2 := q |>) x, HOk)))).
Proof.
  unfold on_pubcomp, comp_guard. cbv zeta.
  destruct (N.eqb_spec (len body) 2) as [E1|E1]; cbn [negb];
    [|apply lspec_ret; left; split; [tauto|auto]].
  destruct (N.eqb_spec (u16 body) 0) as [E2|E2]; [apply lspec_ret; left; split; [tauto|auto]|].
  destruct (N.eqb_spec (u16 body - N.land (u16 body) id_mask) eo_space) as [E3|E3]; cbn [negb];
    [|apply lspec_ret; left; split; [tauto|auto]].
  destruct (N.eqb_spec (N.lor (N.land (k_compl c) id_mask) eo_space) (u16 body)) as [E4|E4]; cbn [negb];
    [|apply lspec_ret; left; split; [intros (_ & _ & _ & X & _); congruence|auto]].
  destruct (N.leb_spec (k_recvd c) (k_compl c)) as [E5|E5];
    [apply lspec_ret; left; split; [intros (_ & _ & _ & _ & X & _); lia|auto]|].
  destruct (k_q2 c) as [|x q] eqn:Q; [apply lspec_ret; left; split; [tauto|auto]|].
  eapply lspec_bind; [apply store_delete_spec|]. intros ok t ->.
  assert (G : len body = 2 /\ u16 body <> 0 /\ u16 body - N.land (u16 body) id_mask = eo_space /\
              u16 body = N.lor (N.land (k_compl c) id_mask) eo_space /\ k_compl c < k_recvd c
              /\ x :: q <> [])
    by (repeat split; auto; discriminate).
  destruct ok; cbn [negb]; apply lspec_ret; right; (split; [exact G|]); (split; [reflexivity|]).
  - right. exists x, q. auto.
  - left. reflexivity.
Qed.

Lemma writes_no_delete cn tr : Forall (is_write cn) tr -> no_delete tr.
Proof.
  intros H k Hk. rewrite Forall_forall in H. destruct (H _ Hk) as (bs & X). discriminate.
Qed.

Lemma no_delete_app a b : no_delete a -> no_delete b -> no_delete (a ++ b).
Proof. intros Ha Hb k Hk. apply in_app_or in Hk as [Hk|Hk]; [eapply Ha|eapply Hb]; eassumption. Qed.

Lemma wrote_no_delete c cn p c' e tr : wrote c cn p c' e tr -> no_delete tr.
Proof.
  intros (r & wtr & Hw & _ & [(_ & -> & _)|(_ & -> & _)]).
  - eapply writes_no_delete, write_seg_writes, Hw.
  - apply no_delete_app; [eapply writes_no_delete, write_seg_writes, Hw|].
    destruct r; intros k X; cbn in X; intuition discriminate.
Qed.

Lemma nowait_write_pp c bufs single : lspec (nowait_write c bufs single) (fun p tr =>
  (fst p = c \/ fst p = c <| k_wsem := WsPending |>) /\ no_delete tr).
Proof.
  eapply lspec_conseq; [apply nowait_write_spec|]. intros p tr [(-> & -> & _)|(cn & _ & H)].
  - split; [auto|]. intros k [].
  - split; [eapply wrote_client, H|eapply wrote_no_delete, H].
Qed.

Definition pubrec_post (c : client) (body : list N) (p : client * hres) (tr : list req) : Prop :=
  (~ rec_guard c body /\ p = (c, HErr E_proto) /\ tr = [])
  \/ (rec_guard c body /\ no_delete tr /\
      exists v rest, tr = QSave (u16 body) v :: rest /\
      k_acked (fst p) = k_acked c /\ k_compl (fst p) = k_compl c /\
      k_q1 (fst p) = k_q1 c /\ k_q2 (fst p) = k_q2 c /\ k_xev (fst p) = k_xev c /\
      ((k_recvd (fst p) = k_recvd c /\ snd p = HErr E_store /\ rest = [])
       \/ k_recvd (fst p) = N.succ (k_recvd c))).

Theorem on_pubrec_cases c body : lspec (on_pubrec c body) (pubrec_post c body).
Proof.
  unfold on_pubrec, pubrec_post, rec_guard. cbv zeta.
  destruct (N.eqb_spec (len body) 2) as [E1|E1]; cbn [negb];
    [|apply lspec_ret; left; split; [tauto|auto]].
  destruct (N.eqb_spec (u16 body) 0) as [E2|E2]; [apply lspec_ret; left; split; [tauto|auto]|].
  destruct (N.eqb_spec (u16 body - N.land (u16 body) id_mask) eo_space) as [E3|E3]; cbn [negb];
    [|apply lspec_ret; left; split; [tauto|auto]].
  destruct (N.eqb_spec (N.lor (N.land (k_recvd c) id_mask) eo_space) (u16 body)) as [E4|E4]; cbn [negb];
    [|apply lspec_ret; left; split; [intros (_ & _ & _ & X & _); congruence|auto]].
  destruct (N.leb_spec (len (k_q2 c)) (k_recvd c - k_compl c)) as [E5|E5];
    [apply lspec_ret; left; split; [intros (_ & _ & _ & _ & X); lia|auto]|].
  assert (G : len body = 2 /\ u16 body <> 0 /\ u16 body - N.land (u16 body) id_mask = eo_space /\
              u16 body = N.lor (N.land (k_recvd c) id_mask) eo_space
              /\ k_recvd c - k_compl c < len (k_q2 c)) by (repeat split; auto).
  eapply lspec_bind; [apply rugged_save_spec|]. intros [c1 ok] t [-> Hc1]. cbn [fst] in Hc1. subst c1.
  destruct ok; cbn [negb].
  2:{ apply lspec_ret. right. split; [exact G|]. split; [intros k X; cbn in X; intuition discriminate|].
      do 2 eexists. split; [reflexivity|]. cbn [fst snd]. repeat split; auto. }
  eapply lspec_bind; [apply nowait_write_pp|]. intros [c2 e] t2 [Hc2 Hnd]. cbn [fst] in Hc2.
  destruct (negb (e =? 0)); apply lspec_ret; right; (split; [exact G|]); rewrite app_nil_r;
    (split; [apply no_delete_app; [intros k X; cbn in X; intuition discriminate|exact Hnd]|]);
    do 2 eexists; (split; [reflexivity|]); cbn [fst snd];
    destruct Hc2 as [-> | ->]; repeat split; auto.
Qed.

(* the remaining handlers: what they reject *)
Theorem on_pubrel_violation c body :
  len body <> 2 \/ u16 body = 0 -> on_pubrel c body = ret (c, HErr E_proto).
Proof.
  intros H. unfold on_pubrel. cbv zeta.
  destruct (N.eqb_spec (len body) 2) as [E1|E1]; cbn [negb]; [|reflexivity].
  destruct (N.eqb_spec (u16 body) 0) as [E2|E2]; [reflexivity|]. tauto.
Qed.

Theorem on_suback_violation c body :
  len body < 3 \/ u16 body = 0 \/ u16 body - N.land (u16 body) un_mask <> sub_space
  \/ (exists code, In code (skipn 2 body) /\ ~ (code < 3 \/ code = 128)) ->
  on_suback c body = (c, HErr E_proto).
Proof.
  intros H. unfold on_suback. cbv zeta.
  destruct (N.ltb_spec (len body) 3) as [E1|E1]; [reflexivity|].
  destruct (N.eqb_spec (u16 body) 0) as [E2|E2]; [reflexivity|].
  destruct (N.eqb_spec (u16 body - N.land (u16 body) un_mask) sub_space) as [E3|E3]; cbn [negb]; [|reflexivity].
  destruct (forallb _ (skipn 2 body)) eqn:F; cbn [negb]; [|reflexivity].
  exfalso. destruct H as [H|[H|[H|(code & Hin & Hc)]]]; try lia; try contradiction.
  rewrite forallb_forall in F. specialize (F _ Hin). apply Hc.
  apply orb_true_iff in F as [F|F]; [left; apply N.ltb_lt, F|right; apply N.eqb_eq, F].
Qed.

(* a SUBACK whose number of return codes differs from the request: reset, and the
   request gets ErrBreak *)
Theorem on_suback_count_mismatch c body rid fs :
  3 <= len body -> u16 body <> 0 -> u16 body - N.land (u16 body) un_mask = sub_space ->
  forallb (fun cd => (cd <? 3) || (cd =? 128)) (skipn 2 body) = true ->
  tx_find c (u16 body) = Some (rid, Some fs) -> length fs <> length (skipn 2 body) ->
  snd (on_suback c body) = HErr E_proto.
Proof.
  intros E1 E2 E3 F T L. unfold on_suback. cbv zeta.
  destruct (N.ltb_spec (len body) 3); [lia|].
  destruct (N.eqb_spec (u16 body) 0); [contradiction|].
  destruct (N.eqb_spec (u16 body - N.land (u16 body) un_mask) sub_space); [|contradiction]. cbn [negb].
  rewrite F, T. cbn [negb].
  destruct (Nat.eqb_spec (length fs) (length (skipn 2 body))); [contradiction|]. reflexivity.
Qed.

Theorem on_unsuback_violation c body :
  len body <> 2 \/ u16 body = 0 \/ u16 body - N.land (u16 body) un_mask <> unsub_space ->
  on_unsuback c body = (c, HErr E_proto).
Proof.
  intros H. unfold on_unsuback. cbv zeta.
  destruct (N.eqb_spec (len body) 2) as [E1|E1]; cbn [negb]; [|reflexivity].
  destruct (N.eqb_spec (u16 body) 0) as [E2|E2]; [reflexivity|].
  destruct (N.eqb_spec (u16 body - N.land (u16 body) un_mask) unsub_space) as [E3|E3]; cbn [negb]; [|reflexivity].
  tauto.
Qed.

Theorem on_pingresp_violation c body : len body <> 0 -> on_pingresp c body = (c, HErr E_proto).
Proof.
  intros H. unfold on_pingresp. destruct (N.eqb_spec (len body) 0); [contradiction|reflexivity].
Qed.

(* PUBLISH: truncated topic, QoS 3, missing or zero packet identifier *)
Theorem on_publish_violation c head body :
  len body < 2 \/ len body < u16 body + 2
  \/ ((head / 2) mod 4 = 3)
  \/ ((head / 2) mod 4 <> 0 /\
      (len body < u16 body + 4 \/ u16 (skipn (N.to_nat (u16 body + 2)) body) = 0)) ->
  on_publish c head body = ret (c, HErr E_proto).
Proof.
  intros H. unfold on_publish. cbv zeta.
  destruct (N.ltb_spec (len body) 2) as [E1|E1]; [reflexivity|].
  destruct (N.ltb_spec (len body) (u16 body + 2)) as [E2|E2]; [reflexivity|].
  destruct (N.eqb_spec ((head / 2) mod 4) 0) as [E3|E3].
  { exfalso. destruct H as [H|[H|[H|[H _]]]]; try lia; contradiction. }
  destruct (N.eqb_spec ((head / 2) mod 4) 3) as [E4|E4]; [reflexivity|].
  destruct (N.ltb_spec (len body) (u16 body + 2 + 2)) as [E5|E5]; [reflexivity|].
  destruct (N.eqb_spec (u16 (skipn (N.to_nat (u16 body + 2)) body)) 0) as [E6|E6]; [reflexivity|].
  exfalso. destruct H as [H|[H|[H|[_ [H|H]]]]]; try lia; contradiction.
Qed.

(* ------------------------------------------------------------------ *)
(* C13: no forged progress                                             *)

(* the outbound bookkeeping a broker packet could try to move *)
Definition pp (c : client) := (k_acked c, k_recvd c, k_compl c, k_q1 c, k_q2 c, k_xev c).

Definition progress_free (c c' : client) (tr : list req) : Prop :=
  pp c' = pp c /\ forall k, In (QDelete k) tr -> N.testbit k 16 = true.

Lemma on_publish_pp c head body :
  lspec (on_publish c head body) (fun p tr => pp (fst p) = pp c /\ no_delete tr).
Proof.
  unfold on_publish. cbv zeta.
  repeat match goal with
  | |- lspec (if ?b then _ else _) _ => destruct b; [apply lspec_ret; split; [reflexivity|intros k []]|]
  end.
  match goal with |- lspec (if ?b then _ else _) _ => destruct b end.
  - destruct (negb _); apply lspec_ret; (split; [reflexivity|intros k []]).
  - eapply lspec_bind; [apply rugged_load_spec|]. intros l t [-> _].
    destruct l as [[|]|]; try destruct (negb _); apply lspec_ret;
      (split; [reflexivity|intros k X; cbn in X; intuition discriminate]).
Qed.

Lemma on_pubrel_pp c body : lspec (on_pubrel c body) (fun p tr => progress_free c (fst p) tr).
Proof.
  unfold on_pubrel, progress_free. cbv zeta.
  repeat match goal with
  | |- lspec (if ?b then _ else _) _ => destruct b; [apply lspec_ret; split; [reflexivity|intros k []]|]
  end.
  eapply lspec_bind; [apply store_delete_spec|]. intros ok t ->.
  assert (D : forall t2, no_delete t2 -> forall k,
            In (QDelete k) ([QDelete (N.lor (u16 body) remote_flag)] ++ t2) -> N.testbit k 16 = true).
  { intros t2 H2 k [X|X]; [inversion X; apply remote_key_bit|]. exfalso. eapply H2, X. }
  destruct (negb ok); [apply lspec_ret; split; [reflexivity|apply D; intros k []]|].
  destruct (negb (len (k_pack c) =? 0)); [apply lspec_ret; split; [reflexivity|apply D; intros k []]|].
  eapply lspec_bind; [apply nowait_write_pp|]. intros [c2 e] t2 [Hc2 Hnd]. cbn [fst] in Hc2.
  destruct (negb (e =? 0)); apply lspec_ret; rewrite app_nil_r;
    (split; [destruct Hc2 as [-> | ->]; reflexivity|apply D, Hnd]).
Qed.

Lemma pp_on_suback c body : pp (fst (on_suback c body)) = pp c.
Proof.
  unfold on_suback. cbv zeta.
  repeat match goal with
  | |- pp (fst (if ?b then _ else _)) = _ => destruct b; [reflexivity|]
  end.
  destruct (tx_find c (u16 body)) as [[rid fso]|]; [|reflexivity].
  destruct (negb (_ =? _)%nat).
  - cbn [fst]. destruct (match parked_kind _ _ with Some (PkSub _) => true | _ => false end); reflexivity.
  - destruct (failed_filters _ _); cbn [fst];
      destruct (match parked_kind _ _ with Some (PkSub _) => true | _ => false end); reflexivity.
Qed.

Lemma pp_on_unsuback c body : pp (fst (on_unsuback c body)) = pp c.
Proof.
  unfold on_unsuback. cbv zeta.
  repeat match goal with
  | |- pp (fst (if ?b then _ else _)) = _ => destruct b; [reflexivity|]
  end.
  destruct (tx_find c (u16 body)) as [[rid fso]|]; [|reflexivity].
  destruct (parked_kind _ _) as [[]|]; reflexivity.
Qed.

Lemma pp_on_pingresp c body : pp (fst (on_pingresp c body)) = pp c.
Proof.
  unfold on_pingresp. destruct (negb _); [reflexivity|].
  destruct (k_ping c); [|reflexivity]. cbv zeta.
  destruct (parked_kind _ _) as [[]|]; reflexivity.
Qed.

Lemma lspec_ret_pure {A} (p : client * A) c :
  pp (fst p) = pp c -> lspec (ret p) (fun q tr => progress_free c (fst q) tr).
Proof. intros H. apply lspec_ret. split; [exact H|intros k []]. Qed.

(* What one inbound packet can do to the outbound bookkeeping.  Either nothing at all
   (and the only records deleted are inbound markers, bit 16), or it is the PUBACK /
   PUBCOMP / PUBREC the client expects next, with all guards passed. *)
Definition dispatch_progress (c : client) (head : N) (body : list N)
           (p : client * hres) (tr : list req) : Prop :=
  progress_free c (fst p) tr
  \/ (head / 16 = 4 /\ ack1_guard c body /\ tr = [QDelete (u16 body)] /\
      (p = (c, HErr E_store)
       \/ exists x q, k_q1 c = x :: q /\
            p = (xclose (c <| k_acked ::= N.succ |> <| k_q1 := q |>) x, HOk)))
  \/ (head / 16 = 7 /\ comp_guard c body /\ tr = [QDelete (u16 body)] /\
      (p = (c, HErr E_store)
       \/ exists x q, k_q2 c = x :: q /\
            p = (xclose (c <| k_compl ::= N.succ |> <| k_q2 := q |>) x, HOk)))
  \/ (head / 16 = 5 /\ rec_guard c body /\ no_delete tr /\
      k_recvd (fst p) = N.succ (k_recvd c) /\
      k_acked (fst p) = k_acked c /\ k_compl (fst p) = k_compl c /\
      k_q1 (fst p) = k_q1 c /\ k_q2 (fst p) = k_q2 c /\ k_xev (fst p) = k_xev c).

Lemma dispatch_progress_free c head body (f : M (client * hres)) :
  lspec f (fun p tr => progress_free c (fst p) tr) -> lspec f (dispatch_progress c head body).
Proof. intros H. eapply lspec_conseq; [exact H|]. intros p tr X. left. exact X. Qed.

Lemma dp_pubcomp c head body :
  head / 16 = 7 -> lspec (on_pubcomp c body) (dispatch_progress c head body).
Proof.
  intros T. eapply lspec_conseq; [apply on_pubcomp_cases|]. intros p tr [(_ & -> & ->)|H].
  - left. split; [reflexivity|intros k []].
  - right. right. left. split; [exact T|exact H].
Qed.

Lemma dp_puback c head body :
  head / 16 = 4 -> lspec (on_puback c body) (dispatch_progress c head body).
Proof.
  intros T. eapply lspec_conseq; [apply on_puback_cases|]. intros p tr [(_ & -> & ->)|H].
  - left. split; [reflexivity|intros k []].
  - right. left. split; [exact T|exact H].
Qed.

Lemma dp_pubrec c head body :
  head / 16 = 5 -> lspec (on_pubrec c body) (dispatch_progress c head body).
Proof.
  intros T. eapply lspec_conseq; [apply on_pubrec_cases|]. intros p tr [(_ & -> & ->)|H].
  - left. split; [reflexivity|intros k []].
  - destruct H as (G & Hnd & v & rest & -> & H1 & H2 & H3 & H4 & H5 & [(H6 & _)|H6]).
    + left. split; [|intros k Hk; exfalso; eapply Hnd, Hk].
      unfold pp. rewrite H1, H2, H3, H4, H5, H6. reflexivity.
    + right. right. right. repeat split; auto; apply G.
Qed.

Lemma dp_publish c head body : lspec (on_publish c head body) (dispatch_progress c head body).
Proof.
  eapply lspec_conseq; [apply on_publish_pp|]. intros p tr [H1 H2].
  left. split; [exact H1|]. intros k Hk. exfalso. eapply H2, Hk.
Qed.

Theorem no_forged_progress c head body :
  lspec (dispatch c head body) (dispatch_progress c head body).
Proof.
  unfold dispatch. remember (head / 16) as ty eqn:T. symmetry in T.
  destruct ty as [|p0]; [apply dispatch_progress_free, lspec_ret_pure; reflexivity|].
  repeat (destruct p0 as [p0|p0|]; try (apply dispatch_progress_free, lspec_ret_pure; reflexivity)).
  all: first [ apply dispatch_progress_free, lspec_ret_pure, pp_on_unsuback
             | apply dispatch_progress_free, lspec_ret_pure, pp_on_pingresp
             | apply dispatch_progress_free, lspec_ret_pure, pp_on_suback
             | apply dispatch_progress_free, on_pubrel_pp
             | apply dp_publish
             | apply dp_puback, T | apply dp_pubcomp, T | apply dp_pubrec, T ].
Qed.

(* corollaries in the words of the property *)
Corollary counters_move_only_in_order c head body w c' h w' :
  dispatch c head body w = Some ((c', h), w') ->
  (k_acked c' <> k_acked c -> head / 16 = 4 /\ ack1_guard c body /\ h = HOk
                               /\ k_acked c' = N.succ (k_acked c)) /\
  (k_compl c' <> k_compl c -> head / 16 = 7 /\ comp_guard c body /\ h = HOk
                               /\ k_compl c' = N.succ (k_compl c)) /\
  (k_recvd c' <> k_recvd c -> head / 16 = 5 /\ rec_guard c body
                               /\ k_recvd c' = N.succ (k_recvd c)).
Proof.
  intros H. destruct (no_forged_progress _ _ _ _ _ _ H) as (tr & _ & D). cbn [fst] in D.
  unfold progress_free, pp in D.
  destruct D as [[E _]|[(T & G & _ & [E|(x & q & Q & E)])|[(T & G & _ & [E|(x & q & Q & E)])|D]]];
    try (inversion E; subst; clear E).
  - split; [|split]; intros X; exfalso; apply X; congruence.
  - split; [|split]; intros X; exfalso; apply X; reflexivity.
  - unfold xclose. destruct (x =? 0);
      (split; [intros _; split; [exact T|split; [exact G|split; reflexivity]]|]);
      split; intros X; exfalso; apply X; reflexivity.
  - split; [|split]; intros X; exfalso; apply X; reflexivity.
  - unfold xclose. destruct (x =? 0); (split; [intros X; exfalso; apply X; reflexivity|]);
      (split; [intros _; split; [exact T|split; [exact G|split; reflexivity]]
              |intros X; exfalso; apply X; reflexivity]).
  - destruct D as (T & G & _ & R & A & Cc & _).
    split; [intros X; exfalso; apply X; exact A|].
    split; [intros X; exfalso; apply X; exact Cc|]. intros _. auto.
Qed.

Corollary publish_records_deleted_only_in_order c head body w c' h w' tr k :
  dispatch c head body w = Some ((c', h), w') -> grows w w' tr ->
  In (QDelete k) tr -> N.testbit k 16 = false ->
  k = u16 body /\ ((head / 16 = 4 /\ ack1_guard c body) \/ (head / 16 = 7 /\ comp_guard c body)).
Proof.
  intros H G Hin Hb. destruct (no_forged_progress _ _ _ _ _ _ H) as (tr' & G' & D).
  rewrite (grows_det _ _ _ _ G G') in Hin. clear G tr.
  destruct D as [[_ E]|[(T & Gd & -> & _)|[(T & Gd & -> & _)|(_ & _ & Hnd & _)]]].
  - rewrite (E _ Hin) in Hb. discriminate.
  - destruct Hin as [X|[]]. inversion X. auto.
  - destruct Hin as [X|[]]. inversion X. auto.
  - exfalso. eapply Hnd, Hin.
Qed.

(* a queue head is released (close of the exchange channel) only with such a step *)
Corollary release_only_in_order c head body w c' h w' :
  dispatch c head body w = Some ((c', h), w') -> k_xev c' <> k_xev c ->
  (head / 16 = 4 /\ ack1_guard c body /\ exists x q, k_q1 c = x :: q /\ k_q1 c' = q
                                          /\ k_xev c' = (x, None) :: k_xev c)
  \/ (head / 16 = 7 /\ comp_guard c body /\ exists x q, k_q2 c = x :: q /\ k_q2 c' = q
                                             /\ k_xev c' = (x, None) :: k_xev c).
Proof.
  intros H Hx. destruct (no_forged_progress _ _ _ _ _ _ H) as (tr & _ & D). cbn [fst] in D.
  unfold progress_free, pp in D.
  destruct D as [[E _]|[(T & G & _ & [E|(x & q & Q & E)])|[(T & G & _ & [E|(x & q & Q & E)])|D]]];
    try (inversion E; subst; clear E).
  - exfalso. apply Hx. congruence.
  - exfalso. apply Hx. reflexivity.
  - left. split; [exact T|]. split; [exact G|]. exists x, q. split; [exact Q|].
    unfold xclose in *. destruct (x =? 0); [exfalso; apply Hx; reflexivity|]. split; reflexivity.
  - exfalso. apply Hx. reflexivity.
  - right. split; [exact T|]. split; [exact G|]. exists x, q. split; [exact Q|].
    unfold xclose in *. destruct (x =? 0); [exfalso; apply Hx; reflexivity|]. split; reflexivity.
  - exfalso. apply Hx. apply D.
Qed.

(* ------------------------------------------------------------------ *)
(* C13/C10: a violation ends in toOffline; the next ReadSlices dials   *)

(* the protocol flag of peekPacket is raised for a fifth length byte only *)
Lemma remlen_loop_proto fuel pause : forall s shift size e s',
  remlen_loop fuel pause s shift size = (inr (e, true), s') -> e = EHard.
Proof.
  induction fuel as [|f IH]; intros s shift size e s' H; cbn [remlen_loop] in H; [discriminate|].
  destruct (read_byte _) as [[b|e0] s1]; [|discriminate].
  destruct (b <? 128); [discriminate|].
  destruct (21 <=? shift); [inversion H; reflexivity|]. eapply IH, H.
Qed.

Lemma slice_loop_noproto fuel pause : forall s head size lastN e s',
  slice_loop fuel pause s head size lastN <> (PkErr e true, s').
Proof.
  induction fuel as [|f IH]; intros s head size lastN e s' H; cbn [slice_loop] in H; [discriminate|].
  destruct (peek _ _) as [[p [e0|]] s1].
  - destruct e0; try discriminate. destruct (lastN <? len p); [eapply IH, H|discriminate].
  - destruct (_ && _); discriminate.
Qed.

Lemma peek_packet_proto pause s e s' : peek_packet pause s = (PkErr e true, s') -> e = EHard.
Proof.
  unfold peek_packet. destruct (read_byte s) as [[head|e0] s1].
  - destruct (remlen_loop 5 pause s1 0 0) as [[size|[e1 pr]] s2] eqn:R.
    + destruct (slice_loop _ pause s2 head size 0) as [r s3] eqn:S.
      destruct pause; cbn [fst snd]; intros H; inversion H; subst;
        exfalso; eapply slice_loop_noproto, S.
    + destruct pause; cbn [fst snd]; intros H; inversion H; subst; eapply remlen_loop_proto, R.
  - destruct e0; discriminate.
Qed.

Definition reset_with (c2 : client) (e : err) (w2 : world) (r : client * retv) (w' : world) : Prop :=
  exists c3 tr, r = (c3, RetErr e) /\ grows w2 w' tr /\ went_offline c2 c3 tr.

Lemma offline_ret_reset c2 e w2 r w' :
  bind (to_offline c2) (fun c3 => ret (c3, RetErr e)) w2 = Some (r, w') -> reset_with c2 e w2 r w'.
Proof.
  intros H. apply bind_inv in H as (c3 & w3 & Ho & H). apply ret_inv in H as [-> ->].
  destruct (to_offline_lspec _ _ _ _ Ho) as (tr & G & Hw). exists c3, tr. auto.
Qed.

(* every handler error: toOffline (Close of the read connection unless the client is
   closed) and that error as the result *)
Theorem read_loop_handler_error_resets f c w c1 head body w1 c2 e w2 r w' :
  with_reader c (peek_packet (s_pause (k_cfg c))) w = Some ((c1, PkOk head body), w1) ->
  dispatch c1 head body w1 = Some ((c2, HErr e), w2) ->
  read_loop (S f) c w = Some (r, w') -> reset_with c2 e w2 r w'.
Proof.
  intros H1 H2 H3. cbn [read_loop] in H3. unfold bind at 1 in H3. rewrite H1 in H3.
  unfold bind at 1 in H3. rewrite H2 in H3. apply offline_ret_reset, H3.
Qed.

Theorem read_loop_big_error_resets f c w c1 head size partial w1 c2 e w2 r w' :
  with_reader c (peek_packet (s_pause (k_cfg c))) w = Some ((c1, PkBig head size partial), w1) ->
  on_publish c1 head partial w1 = Some ((c2, HErr e), w2) ->
  read_loop (S f) c w = Some (r, w') -> reset_with c2 e w2 r w'.
Proof.
  intros H1 H2 H3. cbn [read_loop] in H3. unfold bind at 1 in H3. rewrite H1 in H3.
  unfold bind at 1 in H3. rewrite H2 in H3. apply offline_ret_reset, H3.
Qed.

(* a remaining length of more than four bytes *)
Theorem read_loop_remlen_resets f c w c1 e w1 r w' :
  with_reader c (peek_packet (s_pause (k_cfg c))) w = Some ((c1, PkErr e true), w1) ->
  read_loop (S f) c w = Some (r, w') -> reset_with c1 E_proto w1 r w'.
Proof.
  intros H1 H3. assert (e = EHard) as ->.
  { unfold with_reader in H1. destruct (peek_packet _ _) as [pk s] eqn:P. inversion H1; subst.
    eapply peek_packet_proto, P. }
  cbn [read_loop] in H3. unfold bind at 1 in H3. rewrite H1 in H3.
  apply offline_ret_reset, H3.
Qed.

(* after toOffline there is no read connection *)
Lemma went_offline_rconn c c' tr : went_offline c c' tr -> k_wsem c <> WsClosed -> k_rconn c' = None.
Proof. intros [(X & _)|(_ & _ & H & _)] Hn; [contradiction|exact H]. Qed.

(* C10: without a read connection ReadSlices starts with a connect: the identifier is
   loaded and, when that works, the Dialer is called *)
Theorem read_slices_redials c w r w' :
  k_rconn c = None -> k_closed c = false ->
  read_slices_body c w = Some (r, w') ->
  exists tr, grows w w' (QLoad 0 :: tr) /\
    (load_ok w = true -> exists tr', tr = QDial :: tr').
Proof.
  intros Hr Hc H. rewrite read_slices_body_unfold, Hr in H.
  apply bind_inv in H as ([c1 e] & w1 & Hcon & H).
  assert (He : Merr e).
  { destruct (connect_g true c _ _ _ Hcon) as (t & _ & _ & X). exact X. }
  destruct (rs_rest_g true c1 e He _ _ _ H) as (t2 & G2 & _).
  apply connect_log_shape in Hcon as (t1 & G1 & T).
  assert (G : grows w w' (t1 ++ t2)) by (eapply grows_trans; eassumption).
  inversion T; subst; try congruence.
  - exists t2. split; [exact G|]. congruence.
  - eexists. split; [exact G|]. intros; eexists; reflexivity.
  - eexists. split; [exact G|]. intros; eexists; reflexivity.
  - eexists. split; [exact G|]. intros; eexists; reflexivity.
  - eexists. split; [exact G|]. intros; eexists; reflexivity.
Qed.

(* C13: "... surfaces as a ReadSlices error followed by a fresh connection" *)
Corollary reset_then_redial c2 e w2 r w' :
  reset_with c2 e w2 r w' -> k_wsem c2 <> WsClosed -> k_closed c2 = false ->
  forall c4 w3 r3 w4,
    k_rconn c4 = k_rconn (fst r) -> k_closed c4 = k_closed (fst r) ->
    read_slices_body c4 w3 = Some (r3, w4) ->
    exists tr, grows w3 w4 (QLoad 0 :: tr) /\ (load_ok w3 = true -> exists tr', tr = QDial :: tr').
Proof.
  intros (c3 & t & -> & _ & Ho) Hw Hc c4 w3 r3 w4 H1 H2 H. cbn [fst] in H1, H2.
  destruct Ho as [(X & _)|(_ & _ & Hr & _ & _ & _ & _ & Hcl & _)]; [contradiction|].
  apply (read_slices_redials c4 w3 r3 w4); [congruence|congruence|exact H].
Qed.

(* ------------------------------------------------------------------ *)
(* C18: requests blocked on a pending connect get its outcome          *)

Definition is_lock (p : N * pkind) : bool := match snd p with PkLock _ => true | _ => false end.

Definition rl_step (e : err) (c : client) (p : N * pkind) : client :=
  match snd p with
  | PkLock l => complete (lock_cleanup_run c l) (fst p) e []
  | _ => c
  end.

Lemma release_locked_fold c e : release_locked c e = fold_left (rl_step e) (k_parked c) c.
Proof. reflexivity. Qed.

Lemma lcr_parked c l : k_parked (lock_cleanup_run c l) = k_parked c.
Proof. destruct l; reflexivity. Qed.
Lemma lcr_done c l : k_done (lock_cleanup_run c l) = k_done c.
Proof. destruct l; reflexivity. Qed.

Lemma rl_fold_done_mono e ps : forall c x, In x (k_done c) -> In x (k_done (fold_left (rl_step e) ps c)).
Proof.
  induction ps as [|p ps IH]; intros c x H; cbn [fold_left]; [exact H|].
  apply IH. unfold rl_step. destruct (snd p); try exact H.
  cbn. right. rewrite lcr_done. exact H.
Qed.

Lemma rl_fold_done e ps : forall c rid l,
  In (rid, PkLock l) ps -> In (rid, e, []) (k_done (fold_left (rl_step e) ps c)).
Proof.
  induction ps as [|p ps IH]; intros c rid l H; [destruct H|]. cbn [fold_left].
  destruct H as [->|H]; [|eapply IH, H].
  apply rl_fold_done_mono. unfold rl_step. cbn. left. reflexivity.
Qed.

Lemma has_locked_false c : has_locked c = false <-> forall p, In p (k_parked c) -> is_lock p = false.
Proof.
  unfold has_locked. split.
  - intros H p Hp. destruct (is_lock p) eqn:L; [|reflexivity].
    assert (X : existsb (fun p => match snd p with PkLock _ => true | _ => false end) (k_parked c) = true)
      by (apply existsb_exists; exists p; auto).
    rewrite H in X. discriminate.
  - intros H. destruct (existsb _ _) eqn:X; [|reflexivity].
    apply existsb_exists in X as (p & Hp & L). change (is_lock p = true) in L.
    rewrite (H _ Hp) in L. discriminate.
Qed.

Lemma rl_fold_unlocked e ps : forall c,
  (forall p, In p (k_parked c) -> is_lock p = true ->
             exists p', In p' ps /\ is_lock p' = true /\ fst p' = fst p) ->
  has_locked (fold_left (rl_step e) ps c) = false.
Proof.
  induction ps as [|p1 ps IH]; intros c H; cbn [fold_left].
  - apply has_locked_false. intros p Hp. destruct (is_lock p) eqn:L; [|reflexivity].
    destruct (H _ Hp L) as (p' & [] & _).
  - apply IH. intros p Hp L. unfold rl_step in Hp.
    destruct (snd p1) as [l| | |] eqn:S1.
    + cbn in Hp. rewrite lcr_parked in Hp. apply filter_In in Hp as [Hp Hne].
      destruct (H _ Hp L) as (p' & [<-|Hin] & L' & E); [|eauto].
      rewrite E, N.eqb_refl in Hne. discriminate.
    + destruct (H _ Hp L) as (p' & [<-|Hin] & L' & E); [|eauto].
      unfold is_lock in L'. rewrite S1 in L'. discriminate.
    + destruct (H _ Hp L) as (p' & [<-|Hin] & L' & E); [|eauto].
      unfold is_lock in L'. rewrite S1 in L'. discriminate.
    + destruct (H _ Hp L) as (p' & [<-|Hin] & L' & E); [|eauto].
      unfold is_lock in L'. rewrite S1 in L'. discriminate.
Qed.

(* every request blocked in lockWrite returns with e; none stays blocked *)
Theorem release_locked_releases c e :
  has_locked (release_locked c e) = false /\
  forall rid l, In (rid, PkLock l) (k_parked c) -> In (rid, e, []) (k_done (release_locked c e)).
Proof.
  rewrite release_locked_fold. split.
  - apply rl_fold_unlocked. intros p Hp L. exists p. auto.
  - intros rid l H. eapply rl_fold_done, H.
Qed.

Lemma rl_releases_at c0 c1 e : k_parked c1 = k_parked c0 ->
  has_locked (release_locked c1 e) = false /\
  forall rid l, In (rid, PkLock l) (k_parked c0) -> In (rid, e, []) (k_done (release_locked c1 e)).
Proof. intros <-. apply release_locked_releases. Qed.

(* a connect attempt that fails fails the waiting requests with ErrDown; requests
   issued afterwards get ErrDown without a write until a later connect succeeds *)
Theorem connect_failure_releases c w c' e w' :
  connect c w = Some ((c', e), w') -> k_closed c = false -> e <> 0 ->
  k_wsem c' = WsDown /\ has_locked c' = false /\
  forall rid l, In (rid, PkLock l) (k_parked c) -> In (rid, E_down, []) (k_done c').
Proof.
  intros H CL He. unfold connect in H. rewrite CL in H. cbv zeta in H.
  apply bind_inv in H as (l & w1 & Hl & H).
  destruct l as [cidv|e0].
  2:{ apply ret_inv in H as [H ->]. inversion H; subst. rewrite rl_wsem.
      split; [reflexivity|]. apply rl_releases_at. reflexivity. }
  apply bind_inv in H as (ok & w2 & Hd & H). destruct ok; cbn [negb] in H.
  2:{ apply ret_inv in H as [H ->]. inversion H; subst. rewrite rl_wsem.
      split; [reflexivity|]. apply rl_releases_at. reflexivity. }
  apply bind_inv in H as ([c2 h] & w3 & Hh & H).
  destruct (handshake_lspec _ _ _ _ _ _ _ Hh) as (t2 & _ & Hp & _). cbn [fst] in Hp.
  apply hp_fields in Hp as (_ & _ & _ & _ & _ & _ & Hpk & _).
  change (k_parked c2 = k_parked c) in Hpk.
  destruct h as [|eh].
  2:{ apply bind_inv in H as (u & w4 & _ & H). apply ret_inv in H as [H _]. inversion H; subst.
      rewrite rl_wsem. split; [reflexivity|]. apply rl_releases_at. exact Hpk. }
  cbv zeta in H.
  apply bind_inv in H as ([s1 e1] & w4 & _ & H).
  destruct (negb (e1 =? 0)) eqn:E1.
  { apply bind_inv in H as (u & w5 & _ & H). apply ret_inv in H as [H _]. inversion H; subst.
    rewrite rl_wsem. split; [reflexivity|]. apply rl_releases_at. exact Hpk. }
  apply bind_inv in H as ([s2 e2] & w5 & _ & H).
  destruct (negb (e2 =? 0)) eqn:E2.
  { apply bind_inv in H as (u & w6 & _ & H). apply ret_inv in H as [H _]. inversion H; subst.
    rewrite rl_wsem. split; [reflexivity|]. apply rl_releases_at. exact Hpk. }
  match type of H with (if ?b then _ else _) _ = _ => destruct b end; [discriminate|].
  apply ret_inv in H as [H _]. inversion H; subst. exfalso. apply He. reflexivity.
Qed.

(* ------------------------------------------------------------------ *)
(* C13: the violations, collected                                      *)

Theorem on_puback_violation c body : ~ ack1_guard c body -> on_puback c body = ret (c, HErr E_proto).
Proof.
  intros H. unfold on_puback, ack1_guard in *. cbv zeta.
  destruct (N.eqb_spec (len body) 2) as [E1|E1]; cbn [negb]; [|reflexivity].
  destruct (N.eqb_spec (u16 body) 0) as [E2|E2]; [reflexivity|].
  destruct (N.eqb_spec (u16 body - N.land (u16 body) id_mask) alo_space) as [E3|E3]; cbn [negb]; [|reflexivity].
  destruct (N.eqb_spec (N.lor (N.land (k_acked c) id_mask) alo_space) (u16 body)) as [E4|E4]; cbn [negb]; [|reflexivity].
  destruct (k_q1 c) as [|x q] eqn:Q; [reflexivity|].
  exfalso. apply H. repeat split; auto. discriminate.
Qed.

Theorem on_pubrec_violation c body : ~ rec_guard c body -> on_pubrec c body = ret (c, HErr E_proto).
Proof.
  intros H. unfold on_pubrec, rec_guard in *. cbv zeta.
  destruct (N.eqb_spec (len body) 2) as [E1|E1]; cbn [negb]; [|reflexivity].
  destruct (N.eqb_spec (u16 body) 0) as [E2|E2]; [reflexivity|].
  destruct (N.eqb_spec (u16 body - N.land (u16 body) id_mask) eo_space) as [E3|E3]; cbn [negb]; [|reflexivity].
  destruct (N.eqb_spec (N.lor (N.land (k_recvd c) id_mask) eo_space) (u16 body)) as [E4|E4]; cbn [negb]; [|reflexivity].
  destruct (N.leb_spec (len (k_q2 c)) (k_recvd c - k_compl c)) as [E5|E5]; [reflexivity|].
  exfalso. apply H. repeat split; auto.
Qed.

Theorem on_pubcomp_violation c body : ~ comp_guard c body -> on_pubcomp c body = ret (c, HErr E_proto).
Proof.
  intros H. unfold on_pubcomp, comp_guard in *. cbv zeta.
  destruct (N.eqb_spec (len body) 2) as [E1|E1]; cbn [negb]; [|reflexivity].
  destruct (N.eqb_spec (u16 body) 0) as [E2|E2]; [reflexivity|].
  destruct (N.eqb_spec (u16 body - N.land (u16 body) id_mask) eo_space) as [E3|E3]; cbn [negb]; [|reflexivity].
  destruct (N.eqb_spec (N.lor (N.land (k_compl c) id_mask) eo_space) (u16 body)) as [E4|E4]; cbn [negb]; [|reflexivity].
  destruct (N.leb_spec (k_recvd c) (k_compl c)) as [E5|E5]; [reflexivity|].
  destruct (k_q2 c) as [|x q] eqn:Q; [reflexivity|].
  exfalso. apply H. repeat split; auto. discriminate.
Qed.

(* Every violation the dispatcher or a handler can see is answered with the protocol
   error and an unchanged client; read_loop turns it into toOffline + that error
   (read_loop_handler_error_resets), and the next ReadSlices redials (reset_then_redial). *)
Theorem dispatch_violation_resets c head body :
  (* reserved, client-only packet types and a second CONNACK *)
  (In (head / 16) [0; 1; 2; 8; 10; 12; 14; 15] -> dispatch c head body = ret (c, HErr E_proto)) /\
  (* PUBACK: length, zero/foreign identifier, not the next in line, nothing pending *)
  (head / 16 = 4 -> ~ ack1_guard c body -> dispatch c head body = ret (c, HErr E_proto)) /\
  (* PUBREC: the same against the receive counter; none awaiting PUBREC *)
  (head / 16 = 5 -> ~ rec_guard c body -> dispatch c head body = ret (c, HErr E_proto)) /\
  (* PUBCOMP: the same against the completion counter; none awaiting PUBCOMP *)
  (head / 16 = 7 -> ~ comp_guard c body -> dispatch c head body = ret (c, HErr E_proto)) /\
  (* PUBREL *)
  (head / 16 = 6 -> len body <> 2 \/ u16 body = 0 -> dispatch c head body = ret (c, HErr E_proto)) /\
  (* SUBACK: short, zero/foreign identifier, illegal return code *)
  (head / 16 = 9 ->
     len body < 3 \/ u16 body = 0 \/ u16 body - N.land (u16 body) un_mask <> sub_space
     \/ (exists code, In code (skipn 2 body) /\ ~ (code < 3 \/ code = 128)) ->
     dispatch c head body = ret (c, HErr E_proto)) /\
  (* UNSUBACK *)
  (head / 16 = 11 ->
     len body <> 2 \/ u16 body = 0 \/ u16 body - N.land (u16 body) un_mask <> unsub_space ->
     dispatch c head body = ret (c, HErr E_proto)) /\
  (* PINGRESP with a body *)
  (head / 16 = 13 -> len body <> 0 -> dispatch c head body = ret (c, HErr E_proto)) /\
  (* PUBLISH: truncated, QoS 3, missing or zero identifier *)
  (head / 16 = 3 ->
     len body < 2 \/ len body < u16 body + 2 \/ ((head / 2) mod 4 = 3)
     \/ ((head / 2) mod 4 <> 0 /\
         (len body < u16 body + 4 \/ u16 (skipn (N.to_nat (u16 body + 2)) body) = 0)) ->
     dispatch c head body = ret (c, HErr E_proto)).
Proof.
  repeat split.
  - apply dispatch_forbidden_type.
  - intros T H. unfold dispatch. rewrite T. apply on_puback_violation, H.
  - intros T H. unfold dispatch. rewrite T. apply on_pubrec_violation, H.
  - intros T H. unfold dispatch. rewrite T. apply on_pubcomp_violation, H.
  - intros T H. unfold dispatch. rewrite T. apply on_pubrel_violation, H.
  - intros T H. unfold dispatch. rewrite T. cbv iota. rewrite on_suback_violation by exact H. reflexivity.
  - intros T H. unfold dispatch. rewrite T. cbv iota. rewrite on_unsuback_violation by exact H. reflexivity.
  - intros T H. unfold dispatch. rewrite T. cbv iota. rewrite on_pingresp_violation by exact H. reflexivity.
  - intros T H. unfold dispatch. rewrite T. apply on_publish_violation, H.
Qed.
