(* Tie (b), identifier part: the constants the hand-written model uses are the ones /repo's sources
   declare now.  coq/gen/GenConsts.v is regenerated from mqtt.go, client.go and request.go
   on every run (gen/gen.py); every lemma is closed by computation, so an edit of one of
   these values breaks this file in the kernel.  Proofs only. *)
From MQ Require Import Bytes Packets Utf8 Reader Session Requests.
From MQG Require Import GenConsts.
Open Scope N_scope.

Lemma tie_id_spaces :
  id_mask = g_publishIDMask /\ alo_space = g_atLeastOnceIDSpace /\ eo_space = g_exactlyOnceIDSpace /\
  un_mask = g_unorderedIDMask /\ sub_space = g_subscribeIDSpace /\ unsub_space = g_unsubscribeIDSpace /\
  remote_flag = g_remoteIDKeyFlag /\ g_clientIDKey = 0.
Proof. repeat split; reflexivity. Qed.
(* the identifier formulas of Requests.v and of the session model, for every counter *)
Lemma tie_pub_pid level acc :
  pub_pid level acc = N.lor (if level =? 1 then g_atLeastOnceIDSpace else g_exactlyOnceIDSpace)
                            (N.land acc g_publishIDMask).
Proof. unfold pub_pid, pub_space. destruct (level =? 1); reflexivity. Qed.
Lemma tie_sub_pid txn : sub_pid txn = N.lor (N.land txn g_unorderedIDMask) g_subscribeIDSpace.
Proof. reflexivity. Qed.
Lemma tie_unsub_pid txn : unsub_pid txn = N.lor (N.land txn g_unorderedIDMask) g_unsubscribeIDSpace.
Proof. reflexivity. Qed.
(* publish-identifier window of the model's norm_max *)
Lemma tie_max_window : g_publishIDMask + 1 = 16384. Proof. reflexivity. Qed.
