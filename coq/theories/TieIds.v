(* Tie (b), identifier part: where /repo's sources still declare a constant (or still have the statement
   shape a value is read from), the value is the one the hand-written model uses.
   coq/gen/GenConsts.v is regenerated from mqtt.go, client.go and request.go on every run
   (gen/gen.py) as `option N`: `Some v` is what the source says now, `None` means that the
   declaration was not found (renamed, rewritten) -- which is no disagreement; the behaviour is
   then tied by the correspondence check alone and the run's evidence names what was not found.
   Every lemma is closed by computation, so an edited value breaks this file in the kernel.
   Proofs only. *)
From MQ Require Import Bytes Packets Utf8 Reader Session Requests.
From MQG Require Import GenConsts.
Open Scope N_scope.

Definition agrees (g : option N) (m : N) : Prop := match g with Some v => v = m | None => True end.
Definition gval (g : option N) (m : N) : N := match g with Some v => v | None => m end.
Ltac tie := repeat split; first [reflexivity | exact I].

Lemma tie_id_spaces :
  agrees g_publishIDMask id_mask /\ agrees g_atLeastOnceIDSpace alo_space /\ agrees g_exactlyOnceIDSpace eo_space /\
  agrees g_unorderedIDMask un_mask /\ agrees g_subscribeIDSpace sub_space /\ agrees g_unsubscribeIDSpace unsub_space /\
  agrees g_remoteIDKeyFlag remote_flag /\ agrees g_clientIDKey 0.
Proof. tie. Qed.
(* the identifier formulas of Requests.v and of the session model, for every counter *)
Lemma tie_pub_pid level acc :
  pub_pid level acc = N.lor (if level =? 1 then gval g_atLeastOnceIDSpace alo_space else gval g_exactlyOnceIDSpace eo_space)
                            (N.land acc (gval g_publishIDMask id_mask)).
Proof. unfold pub_pid, pub_space. destruct (level =? 1); reflexivity. Qed.
Lemma tie_sub_pid txn : sub_pid txn = N.lor (N.land txn (gval g_unorderedIDMask un_mask)) (gval g_subscribeIDSpace sub_space).
Proof. reflexivity. Qed.
Lemma tie_unsub_pid txn : unsub_pid txn = N.lor (N.land txn (gval g_unorderedIDMask un_mask)) (gval g_unsubscribeIDSpace unsub_space).
Proof. reflexivity. Qed.
(* publish-identifier window of the model's norm_max *)
Lemma tie_max_window : agrees (option_map (fun m => m + 1) g_publishIDMask) 16384. Proof. tie. Qed.
