(* C20: executable case checker used by the correspondence run. *)
From MQ Require Export Bytes Mocks C15Check.

(* ---- observations ---- *)

(* what the exchange stub did on one invocation *)
Inductive exch_obs :=
| XPanic                                          (* NewPublishExchangeStub panicked *)
| XErr (c : errclass) (nilchan : bool)            (* returned err <> nil; was the channel nil? *)
| XChan (events : list errclass) (closed : bool)  (* received in order; then closed / left open after the goroutine ended *)
| XStuck.                                         (* the goroutine behind the channel did not end *)

Inductive c20case :=
(* NewPublishMock(tb, want...), invoked by one goroutine with calls; obs per invocation made; Cleanup *)
| PubMockCase (want : list transfer) (calls : list pubcall) (obs : list callres) (cl : list failure)
(* NewSubscribeMock / NewUnsubscribeMock *)
| SubMockCase (unsub : bool) (want : list filterexp) (calls : list subcall) (obs : list callres) (cl : list failure)
(* NewReadSlicesMock invoked ncalls times *)
| RsMockCase (want : list transfer) (ncalls : nat) (obs : list rsres) (cl : list failure)
(* NewReadSlicesStub invoked several times *)
| RsStubCase (fx : transfer) (obs : list rsres)
| PubStubCase (fx : errclass) (quit : bool) (obs : outcome)
| SubStubCase (unsub : bool) (fx : errclass) (quit : bool) (filters : list bstr) (obs : outcome)
(* NewPublishExchangeStub(errfix, script...) and, when constructed, invocations of the result *)
| ExchCase (errfix : errclass) (script : list errclass) (obs : list exch_obs)
(* Go side only: mutating returned slices does not show in a later invocation nor in the fixture *)
| CopyCase (mock : bool) (private : bool).

(* ---- comparison ---- *)

Fixpoint all2 {A B} (f : A -> B -> bool) (a : list A) (b : list B) : bool :=
  match a, b with
  | [], [] => true
  | x :: a', y :: b' => f x y && all2 f a' b'
  | _, _ => false
  end.

Definition bs_mem (x : bstr) (l : list bstr) : bool := if in_dec bstr_dec x l then true else false.
Definition bs_incl (a b : list bstr) : bool := forallb (fun x => bs_mem x b) a.
Fixpoint bs_nodup (l : list bstr) : bool :=
  match l with [] => true | x :: r => negb (bs_mem x r) && bs_nodup r end.

Definition failure_eqb (a b : failure) : bool :=
  match a, b with
  | FUnwanted, FUnwanted | FMismatch, FMismatch | FFatal, FFatal | FOther, FOther => true
  | FWrong l, FWrong l' => all2 list_eqb l l'
  | FMiss l, FMiss l' => bs_incl l l' && bs_incl l' l && Nat.eqb (length l) (length l')
  | FMissing n, FMissing n' => N.eqb n n'
  | _, _ => false
  end.

Definition outcome_eqb (a b : outcome) : bool :=
  match a, b with
  | ORet e, ORet e' => errclass_eqb e e'
  | OFatal, OFatal | OPanic, OPanic => true
  | _, _ => false
  end.

Definition callres_eqb (a b : callres) : bool :=
  outcome_eqb (cr_out a) (cr_out b) && all2 failure_eqb (cr_fails a) (cr_fails b).

Definition rsres_eqb (a b : rsres) : bool :=
  list_eqb (rs_msg a) (rs_msg b) && list_eqb (rs_topic a) (rs_topic b) &&
  errclass_eqb (rs_err a) (rs_err b) && all2 failure_eqb (rs_fails a) (rs_fails b).

Definition exch_matches (r : exch_result) (o : exch_obs) : bool :=
  match r, o with
  | ExRejected, XPanic => true
  | ExErr c, XErr c' nilchan => errclass_eqb c c' && nilchan
  | ExChan ev fin, XChan ev' closed =>
      all2 errclass_eqb ev ev' && Bool.eqb closed (match fin with Closed => true | LeftOpen => false end)
  | _, _ => false
  end.

Definition nonempty {A} (l : list A) : bool := match l with [] => false | _ => true end.

(* model prediction equals the observation *)
Definition c20_agree (c : c20case) : bool :=
  match c with
  | PubMockCase want calls obs cl =>
      let '(rs, f) := pub_mock want calls in all2 callres_eqb rs obs && all2 failure_eqb f cl
  | SubMockCase _ want calls obs cl =>
      let '(rs, f) := sub_mock want calls in all2 callres_eqb rs obs && all2 failure_eqb f cl
  | RsMockCase want n obs cl =>
      let '(rs, f) := rs_mock want n in all2 rsres_eqb rs obs && all2 failure_eqb f cl
  | RsStubCase fx obs => forallb (rsres_eqb (rs_stub fx)) obs
  | PubStubCase fx q o => outcome_eqb (pub_stub fx q) o
  | SubStubCase _ fx q fs o => outcome_eqb (sub_stub fx q fs) o
  | ExchCase ef s obs => nonempty obs && forallb (exch_matches (exch_stub ef s)) obs
  | CopyCase _ _ => true
  end.

(* ---- the property, judged on the observation alone ----
   The specification below is written independently of Mocks.v: expectations are
   consumed as a list (no counter), filter sets are compared by mutual inclusion,
   the exchange is described by filter/last (no interpreter). *)

Definition is_ret (o : outcome) : bool := match o with ORet _ => true | _ => false end.
Definition no_fail (r : callres) : bool := negb (nonempty (cr_fails r)).

(* Cleanup: expectations left => exactly "want n more"; all consumed and no surplus
   invocation => silent; after a surplus invocation (already reported) => free. *)
Definition cleanup_ok {E} (rest : list E) (surplus : bool) (cl : list failure) : bool :=
  match rest with
  | [] => surplus || negb (nonempty cl)
  | _ :: _ => all2 failure_eqb cl [FMissing (N.of_nat (length rest))]
  end.

Fixpoint pub_ok_calls (want : list transfer) (sur : bool) (calls : list pubcall) (obs : list callres)
  : option (list transfer * bool) :=
  match calls, obs with
  | [], [] => Some (want, sur)
  | c :: cs, o :: os =>
      if pc_quit c then
        if outcome_eqb (cr_out o) (ORet CCanceled) && no_fail o then pub_ok_calls want sur cs os else None
      else match want with
           | [] => if is_ret (cr_out o) && negb (no_fail o) then pub_ok_calls [] true cs os else None
           | t :: w =>
               if outcome_eqb (cr_out o) (ORet (t_err t)) &&
                  Bool.eqb (no_fail o) (list_eqb (pc_msg c) (t_msg t) && list_eqb (pc_topic c) (t_topic t))
               then pub_ok_calls w sur cs os else None
           end
  | _, _ => None
  end.

(* "the same filter set": the call has no repeated filter and both lists have the same members
   (a repetition inside the expectation is immaterial) *)
Definition same_filter_set (want call : list bstr) : bool :=
  bs_nodup call && bs_incl call want && bs_incl want call.

Fixpoint sub_ok_calls (want : list filterexp) (sur : bool) (calls : list subcall) (obs : list callres)
  : option (list filterexp * bool) :=
  match calls, obs with
  | [], [] => Some (want, sur)
  | c :: cs, o :: os =>
      match sc_filters c with
      | [] => (* no filters: Fatalf, which ends the invoking goroutine *)
          if outcome_eqb (cr_out o) OFatal && negb (no_fail o) && negb (nonempty os)
          then Some (want, sur) else None
      | _ :: _ =>
          if sc_quit c then
            if outcome_eqb (cr_out o) (ORet CCanceled) && no_fail o then sub_ok_calls want sur cs os else None
          else match want with
               | [] => if is_ret (cr_out o) && negb (no_fail o) then sub_ok_calls [] true cs os else None
               | f :: w =>
                   if outcome_eqb (cr_out o) (ORet (f_err f)) &&
                      Bool.eqb (no_fail o) (same_filter_set (f_topics f) (sc_filters c))
                   then sub_ok_calls w sur cs os else None
               end
      end
  | _, _ => None
  end.

Fixpoint rs_ok_calls (want : list transfer) (sur : bool) (n : nat) (obs : list rsres)
  : option (list transfer * bool) :=
  match n, obs with
  | O, [] => Some (want, sur)
  | S n', o :: os =>
      match want with
      | [] => if nonempty (rs_fails o) && negb (errclass_eqb (rs_err o) CNil)
              then rs_ok_calls [] true n' os else None
      | t :: w => if rsres_eqb o (mkRs (t_msg t) (t_topic t) (t_err t) []) then rs_ok_calls w sur n' os else None
      end
  | _, _ => None
  end.

Definition finish {E} (r : option (list E * bool)) (cl : list failure) : bool :=
  match r with Some (rest, sur) => cleanup_ok rest sur cl | None => false end.

(* exchange scripts: documented shape and documented behaviour *)
Definition deliverable (e : errclass) : bool :=
  match kind_of e with KErr | KClosed => true | _ => false end.
Definition stops_open (e : errclass) : bool :=
  match kind_of e with KClosed | KBlockIndef => true | _ => false end.
Definition script_wellformed (errfix : errclass) (s : list errclass) : bool :=
  match errfix with
  | CNil => forallb (fun e => negb (errclass_eqb e CNil)) s && negb (existsb stops_open (removelast s))
  | _ => negb (nonempty s)
  end.
Definition ends_open (s : list errclass) : bool := stops_open (last s CNil).

Definition exch_obs_ok (errfix : errclass) (s : list errclass) (o : exch_obs) : bool :=
  match o with
  | XPanic => negb (script_wellformed errfix s)
  | XErr c nilchan =>
      script_wellformed errfix s && negb (errclass_eqb errfix CNil) && errclass_eqb c errfix && nilchan
  | XChan ev closed =>
      script_wellformed errfix s && errclass_eqb errfix CNil &&
      all2 errclass_eqb ev (filter deliverable s) && Bool.eqb closed (negb (ends_open s))
  | XStuck => false
  end.

Definition c20_ok (c : c20case) : bool :=
  match c with
  | PubMockCase want calls obs cl => finish (pub_ok_calls want false calls obs) cl
  | SubMockCase _ want calls obs cl => finish (sub_ok_calls want false calls obs) cl
  | RsMockCase want n obs cl => finish (rs_ok_calls want false n obs) cl
  | RsStubCase fx obs => forallb (fun o => rsres_eqb o (mkRs (t_msg fx) (t_topic fx) (t_err fx) [])) obs
  | PubStubCase fx q o => outcome_eqb o (ORet (if q then CCanceled else fx))
  | SubStubCase _ fx q fs o =>
      match fs with
      | [] => outcome_eqb o OPanic                 (* documented *)
      | _ => outcome_eqb o (ORet (if q then CCanceled else fx))
      end
  | ExchCase ef s obs => nonempty obs && forallb (exch_obs_ok ef s) obs
  | CopyCase _ private => private
  end.

Definition c20_run (l : list c20case) : list N * list N * list (N * N) :=
  (idx_filter c20_agree l 0, idx_filter c20_ok l 0, []).
