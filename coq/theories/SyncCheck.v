(* Correspondence of the L3 monitor with recorded runs of the real client (M-sched): every
   recorded sequence of synchronisation events must be accepted by the monitor; and the
   API-level observations of the run are judged directly (C10 C11 C12). *)
From MQ Require Export Sync SyncProofs.

(* API call observation: goroutine, kind (0 ReadSlices, 1 Publish-like, 2 persisted publish, 3 Close,
   4 Disconnect), error class bits, and whether the call started after some Close/Disconnect returned *)
Record apicall := mkApi { a_tid : N; a_kind : N; a_cls : N; a_after_close : bool }.

Inductive synccase := SyncCase (tr : list obs) (calls : list apicall).

Definition sync_agree (c : synccase) : bool :=
  match c with SyncCase tr _ =>
    match first_reject init_state tr 0 with None => true | Some _ => false end
    (* the hypothesis of the L3 theorems, checked on the recorded trace: one ReadSlices goroutine,
       context observed monotonically by it, done closed once per connect *)
    && faithful_tr tr
  end.

Definition hasbit (e b : N) : bool := negb (N.land e b =? 0).

(* C12/C10 on the observations alone: nothing panicked, nothing hung, Close returned nil or the close
   error, and every call that started after a Close/Disconnect had returned got ErrClosed *)
Definition sync_ok (c : synccase) : bool :=
  match c with SyncCase _ calls =>
    forallb (fun a =>
      negb (hasbit (a_cls a) 2097152) && negb (hasbit (a_cls a) 4194304) &&
      (if a_after_close a then
         match a_kind a with
         | 3 => a_cls a =? 0                      (* Close again: no effect *)
         | _ => hasbit (a_cls a) 2                (* ErrClosed *)
         end
       else true)) calls
  end.

Fixpoint idx_filter_s (f : synccase -> bool) (l : list synccase) (i : N) : list N :=
  match l with
  | [] => []
  | x :: r => if f x then idx_filter_s f r (i + 1) else i :: idx_filter_s f r (i + 1)
  end.
(* F7 (recorded finding): a Ping (kind 5) that never returns *)
Definition f7_match (c : synccase) : bool :=
  match c with SyncCase _ calls =>
    existsb (fun a => (a_kind a =? 5) && hasbit (a_cls a) 4194304) calls &&
    forallb (fun a => (a_kind a =? 5) || negb (hasbit (a_cls a) 4194304)) calls
  end.
Fixpoint idx_known_s (l : list synccase) (i : N) : list (N * N) :=
  match l with
  | [] => []
  | x :: r => if negb (sync_ok x) && f7_match x then (i, 7) :: idx_known_s r (i + 1) else idx_known_s r (i + 1)
  end.
Definition sync_run (l : list synccase) : list N * list N * list (N * N) :=
  (idx_filter_s sync_agree l 0, idx_filter_s sync_ok l 0, idx_known_s l 0).

(* The same runs judged for the other properties that use them.
   C08: the runs tie the monitor (write-token exclusion) to the client: trace inclusion only.
   C10: the read routine and the publishes never wedge or panic (what Close/Disconnect do and
        what calls return after them is C12's business; that requests return is C11's).
   C11: Subscribe, Unsubscribe and Ping (kinds 6 7 5) return. *)
Definition bad_call (a : apicall) : bool := hasbit (a_cls a) 2097152 || hasbit (a_cls a) 4194304.
Definition sync_ok_c10 (c : synccase) : bool :=
  match c with SyncCase _ calls =>
    forallb (fun a => match a_kind a with 0 | 1 | 2 => negb (bad_call a) | _ => true end) calls
  end.
Definition sync_ok_c11 (c : synccase) : bool :=
  match c with SyncCase _ calls =>
    forallb (fun a => match a_kind a with 5 | 6 | 7 => negb (bad_call a) | _ => true end) calls
  end.
Fixpoint idx_known_c11 (l : list synccase) (i : N) : list (N * N) :=
  match l with
  | [] => []
  | x :: r => if negb (sync_ok_c11 x) && f7_match x then (i, 7) :: idx_known_c11 r (i + 1) else idx_known_c11 r (i + 1)
  end.
(* C08: observation kind 8 = number of places where a connection's byte stream was not made of
   whole packets or carried a QoS 0 PUBLISH nobody asked for (harness count over all connections) *)
Definition sync_ok_c08 (c : synccase) : bool :=
  match c with SyncCase _ calls =>
    forallb (fun a => match a_kind a with 8 => a_cls a =? 0 | _ => true end) calls
  end.
Definition sync_run_c08 (l : list synccase) : list N * list N * list (N * N) :=
  (idx_filter_s sync_agree l 0, idx_filter_s sync_ok_c08 l 0, []).
Definition sync_run_c10 (l : list synccase) : list N * list N * list (N * N) :=
  (idx_filter_s sync_agree l 0, idx_filter_s sync_ok_c10 l 0, []).
Definition sync_run_c11 (l : list synccase) : list N * list N * list (N * N) :=
  (idx_filter_s sync_agree l 0, idx_filter_s sync_ok_c11 l 0, idx_known_c11 l 0).
(* C13: under a hostile broker nothing panics and nothing hangs *)
Definition sync_ok_c13 (c : synccase) : bool :=
  match c with SyncCase _ calls => forallb (fun a => negb (bad_call a)) calls end.
Definition sync_run_c13 (l : list synccase) : list N * list N * list (N * N) :=
  (idx_filter_s sync_agree l 0, idx_filter_s sync_ok_c13 l 0, []).
(* C14: a persisted publish that returned an error left no record behind (observation kind 9 =
   publish records in the Persistence after such a return); nothing panicked or hung *)
Definition sync_ok_c14 (c : synccase) : bool :=
  match c with SyncCase _ calls =>
    forallb (fun a => match a_kind a with 9 => a_cls a =? 0 | _ => negb (bad_call a) end) calls
  end.
Definition sync_run_c14 (l : list synccase) : list N * list N * list (N * N) :=
  (idx_filter_s sync_agree l 0, idx_filter_s sync_ok_c14 l 0, []).
(* C01 (and C03): after a write error of a persisted publish the message is written again on the
   next connection (observation kind 12 = PUBLISH packets seen on the second connection: at least
   one); nothing panicked or hung on the way *)
Definition sync_ok_c01 (c : synccase) : bool :=
  match c with SyncCase _ calls =>
    forallb (fun a => match a_kind a with 12 => negb (a_cls a =? 0) | _ => negb (bad_call a) end) calls
  end.
Definition sync_run_c01 (l : list synccase) : list N * list N * list (N * N) :=
  (idx_filter_s sync_agree l 0, idx_filter_s sync_ok_c01 l 0, []).
Definition sync_debug (l : list synccase) :=
  map (fun c => match c with SyncCase tr _ => first_reject init_state tr 0 end) l.
