(* L2: every concrete API step of Session.step (closed with a genuine Persistence,
   Outbound.exec) is a finite sequence of the abstract outbound transitions of
   Outbound.ostep.  Proofs only. *)
From Coq Require Import ZArith Lia.
From RecordUpdate Require Import RecordUpdate.
From MQ Require Import Outbound.

(* ------------------------------------------------------------------ *)
(* Triples over the world monad in map mode                            *)

Definition trip {A} (m : store) (f : M A) (Q : A -> store -> Prop) : Prop :=
  forall w a w', w_store w = Some m -> f w = Some (a, w') ->
                 exists m', w_store w' = Some m' /\ Q a m'.

Lemma trip_ret {A} m (a : A) (Q : A -> store -> Prop) : Q a m -> trip m (ret a) Q.
Proof. intros H w a' w' Hm E. inversion E; subst. eauto. Qed.

Lemma trip_fail {A} m (Q : A -> store -> Prop) : trip m fail_tape Q.
Proof. intros w a w' _ E. discriminate. Qed.

Lemma trip_bind {A B} m (f : M A) (k : A -> M B) (P : A -> store -> Prop) Q :
  trip m f P -> (forall a m', P a m' -> trip m' (k a) Q) -> trip m (bind f k) Q.
Proof.
  intros Hf Hk w b w' Hm E. unfold bind in E.
  destruct (f w) as [[a w1]|] eqn:F; [|discriminate].
  destruct (Hf _ _ _ Hm F) as (m1 & Hm1 & HP).
  exact (Hk _ _ HP _ _ _ Hm1 E).
Qed.

Lemma trip_conseq {A} m (f : M A) (P Q : A -> store -> Prop) :
  trip m f P -> (forall a m', P a m' -> Q a m') -> trip m f Q.
Proof. intros Hf HPQ w a w' Hm E. destruct (Hf _ _ _ Hm E) as (m' & ? & ?). eauto. Qed.

Lemma trip_world {A X} m (g : world -> X) (f : X -> M A) Q :
  (forall n, trip m (f n) Q) -> trip m (fun w => f (g w) w) Q.
Proof. intros H w a w' Hm E. exact (H _ _ _ _ Hm E). Qed.

Definition keep {A} (m : store) (f : M A) : Prop := trip m f (fun _ m' => m' = m).

Lemma trip_bind_keep {A B} m (f : M A) (k : A -> M B) Q :
  keep m f -> (forall a, trip m (k a) Q) -> trip m (bind f k) Q.
Proof. intros Hf Hk. eapply trip_bind; [exact Hf|]. intros a m' ->. apply Hk. Qed.

(* primitives *)

Lemma ask_store_trip m q :
  trip m (ask_store q) (fun a m' =>
    match a with
    | SFail => m' = m
    | SKeys ks => q = QList /\ ks = map fst m /\ m' = m
    | SVal v => exists k, q = QLoad k /\ v = store_get m k /\ m' = m
    | SDone => (exists k v, q = QSave k v /\ m' = store_put m k v)
               \/ (exists k, q = QDelete k /\ m' = store_del m k)
    end).
Proof.
  intros w a w' Hm E. unfold ask_store in E. rewrite Hm in E.
  destruct (t_stf w) as [|[|] t]; [discriminate| |].
  - inversion E; subst. eexists; split; [exact Hm|reflexivity].
  - destruct q; inversion E; subst; cbn.
    + eexists; split; [exact Hm|]. auto.
    + eexists; split; [exact Hm|]. eauto.
    + eexists; split; [reflexivity|]. left; eauto.
    + eexists; split; [reflexivity|]. right; eauto.
Qed.

Lemma ask_dial_keep m : keep m ask_dial.
Proof.
  intros w a w' Hm E. unfold ask_dial in E.
  destruct (t_dial w); inversion E; subst. eexists; split; [exact Hm|reflexivity].
Qed.

Lemma tell_keep m q : keep m (tell q).
Proof. intros w a w' Hm E. inversion E; subst. eexists; split; [exact Hm|reflexivity]. Qed.

Lemma conn_write_keep m c bufs single : keep m (conn_write c bufs single).
Proof.
  intros w a w' Hm E. unfold conn_write in E.
  destruct (if single then _ else _) as [[calls r] t'].
  destruct r; inversion E; subst; (eexists; split; [exact Hm|reflexivity]).
Qed.

Lemma rugged_load_keep m k : keep m (rugged_load k).
Proof.
  unfold keep, rugged_load. eapply trip_bind; [apply ask_store_trip|].
  intros a m' H. destruct a as [ks|[raw|]| |].
  - apply trip_fail.
  - destruct H as (k' & _ & _ & ->). destruct (decode_value raw); apply trip_ret; reflexivity.
  - destruct H as (k' & _ & _ & ->). apply trip_ret; reflexivity.
  - apply trip_fail.
  - subst. apply trip_ret; reflexivity.
Qed.

Lemma rugged_save_trip m c k v :
  trip m (rugged_save c k v) (fun p m' =>
    fst p = c <| k_rseq := k_rseq c + 1 |> /\
    ((snd p = true /\ m' = store_put m k (encode_value v (k_rseq c + 1)))
     \/ (snd p = false /\ m' = m))).
Proof.
  unfold rugged_save. eapply trip_bind; [apply ask_store_trip|].
  intros a m' H. destruct a as [ks|raw| |]; try apply trip_fail.
  - destruct H as [(k' & v' & E & ->)|(k' & E & _)]; [|discriminate].
    inversion E; subst. apply trip_ret. cbn. auto.
  - subst. apply trip_ret. cbn. auto.
Qed.

Lemma store_delete_trip m k :
  trip m (store_delete k) (fun ok m' =>
    (ok = true /\ m' = store_del m k) \/ (ok = false /\ m' = m)).
Proof.
  unfold store_delete. eapply trip_bind; [apply ask_store_trip|].
  intros a m' H. destruct a as [ks|raw| |]; try apply trip_fail.
  - destruct H as [(k' & v' & E & _)|(k' & E & ->)]; [discriminate|].
    inversion E; subst. apply trip_ret. auto.
  - subst. apply trip_ret. auto.
Qed.

(* ------------------------------------------------------------------ *)
(* The part of the client the abstract state sees                      *)

Definition cp (c : client) :=
  (k_cfg c, k_rseq c, k_closed c, k_seqclosed c,
   (k_acc1 c, k_sub1 c, k_acked c), (k_acc2 c, k_sub2 c, k_recvd c, k_compl c),
   (k_q1 c, k_q2 c)).

Definition oproj (c : client) (m : store) : ost := ost_of (mkSys c m).

Lemma cp_fields c c' : cp c' = cp c ->
  k_cfg c' = k_cfg c /\ k_rseq c' = k_rseq c /\ k_closed c' = k_closed c /\
  k_seqclosed c' = k_seqclosed c /\ k_acc1 c' = k_acc1 c /\ k_sub1 c' = k_sub1 c /\
  k_acked c' = k_acked c /\ k_acc2 c' = k_acc2 c /\ k_sub2 c' = k_sub2 c /\
  k_recvd c' = k_recvd c /\ k_compl c' = k_compl c /\ k_q1 c' = k_q1 c /\ k_q2 c' = k_q2 c.
Proof. unfold cp. intros H. inversion H. repeat split; assumption. Qed.

Lemma oproj_cp c c' m : cp c' = cp c -> oproj c' m = oproj c m.
Proof.
  intros H. apply cp_fields in H.
  destruct H as (H1 & H2 & H3 & H4 & H5 & H6 & H7 & H8 & H9 & H10 & H11 & H12 & H13).
  unfold oproj, ost_of. cbn [sy_c sy_m].
  rewrite H1, H2, H3, H4, H5, H6, H7, H8, H9, H10, H11, H12, H13. reflexivity.
Qed.

Lemma osteps_trans a b c : osteps a b -> osteps b c -> osteps a c.
Proof. induction 1; intros; [assumption|]. econstructor; eauto. Qed.
Lemma osteps_one a b : ostep a b -> osteps a b.
Proof. intros. econstructor; [eassumption|constructor]. Qed.

Definition R (c : client) (m : store) (c' : client) (m' : store) : Prop :=
  k_cfg c' = k_cfg c /\ osteps (oproj c m) (oproj c' m').

Lemma R_refl c m : R c m c m.
Proof. split; [reflexivity|constructor]. Qed.
Lemma R_trans c m c1 m1 c2 m2 : R c m c1 m1 -> R c1 m1 c2 m2 -> R c m c2 m2.
Proof. intros [A B] [C D]. split; [congruence|eapply osteps_trans; eassumption]. Qed.
Lemma R_same c m c' : cp c' = cp c -> R c m c' m.
Proof.
  intros H. split; [apply cp_fields in H; tauto|]. rewrite (oproj_cp _ _ _ H). constructor.
Qed.
Lemma R_same_r c m c1 m1 c2 : R c m c1 m1 -> cp c2 = cp c1 -> R c m c2 m1.
Proof. intros H E. eapply R_trans; [exact H|apply R_same, E]. Qed.
Lemma R_same_l c m c1 c2 m2 : cp c1 = cp c -> R c1 m c2 m2 -> R c m c2 m2.
Proof. intros E H. eapply R_trans; [apply R_same, E|exact H]. Qed.
Lemma R_step c m c' m' :
  k_cfg c' = k_cfg c -> ostep (oproj c m) (oproj c' m') -> R c m c' m'.
Proof. intros A B. split; [exact A|apply osteps_one, B]. Qed.

Definition cspec {A} (c : client) (m : store) (f : M (client * A)) : Prop :=
  trip m f (fun p m' => R c m (fst p) m').
(* the projection and the store stay as they are *)
Definition kspec {A} (c : client) (m : store) (f : M (client * A)) : Prop :=
  trip m f (fun p m' => cp (fst p) = cp c /\ m' = m).

Lemma kspec_cspec {A} c m (f : M (client * A)) : kspec c m f -> cspec c m f.
Proof.
  intros H. eapply trip_conseq; [exact H|]. intros p m' [E ->]. apply R_same, E.
Qed.

Lemma cspec_pre {A} c m c1 m1 (f : M (client * A)) :
  R c m c1 m1 -> cspec c1 m1 f -> trip m1 f (fun p m' => R c m (fst p) m').
Proof.
  intros H Hf. eapply trip_conseq; [exact Hf|]. intros p m' H'. eapply R_trans; eassumption.
Qed.

Lemma cspec_bind {A B} c m (f : M (client * A)) (k : client * A -> M (client * B)) :
  cspec c m f -> (forall p m1, cspec (fst p) m1 (k p)) -> cspec c m (bind f k).
Proof.
  intros Hf Hk. eapply trip_bind; [exact Hf|]. intros p m1 H. cbv beta in H.
  eapply cspec_pre; [exact H|apply Hk].
Qed.

Lemma cspec_bind_k {A B} c m (f : M (client * A)) (k : client * A -> M (client * B)) :
  kspec c m f -> (forall p, cp (fst p) = cp c -> cspec (fst p) m (k p)) -> cspec c m (bind f k).
Proof.
  intros Hf Hk. eapply trip_bind; [exact Hf|]. intros p m1 [H ->].
  eapply cspec_pre; [apply R_same, H|apply Hk, H].
Qed.

Lemma kspec_bind {A B} c m (f : M (client * A)) (k : client * A -> M (client * B)) :
  kspec c m f -> (forall p, cp (fst p) = cp c -> kspec (fst p) m (k p)) -> kspec c m (bind f k).
Proof.
  intros Hf Hk. eapply trip_bind; [exact Hf|]. intros p m1 [H ->].
  eapply trip_conseq; [apply Hk, H|]. intros p' m' [H' ->]. split; congruence.
Qed.

Lemma kspec_bind_keep {A B} c m (f : M A) (k : A -> M (client * B)) :
  keep m f -> (forall a, kspec c m (k a)) -> kspec c m (bind f k).
Proof. intros Hf Hk. apply trip_bind_keep; assumption. Qed.

Lemma cspec_bind_keep {A B} c m (f : M A) (k : A -> M (client * B)) :
  keep m f -> (forall a, cspec c m (k a)) -> cspec c m (bind f k).
Proof. intros Hf Hk. apply trip_bind_keep; assumption. Qed.

Lemma kspec_ret {A} c m c' (a : A) : cp c' = cp c -> kspec c m (ret (c', a)).
Proof. intros H. apply trip_ret. auto. Qed.
Lemma cspec_ret {A} c m c' (a : A) : cp c' = cp c -> cspec c m (ret (c', a)).
Proof. intros H. apply trip_ret. apply R_same, H. Qed.
Lemma cspec_ret_R {A} c m c' (a : A) : R c m c' m -> cspec c m (ret (c', a)).
Proof. intros H. apply trip_ret. exact H. Qed.

(* pure helpers *)

Lemma cp_complete c rid e fs : cp (complete c rid e fs) = cp c.
Proof. reflexivity. Qed.
Lemma cp_tx_remove c pid : cp (tx_remove c pid) = cp c.
Proof. reflexivity. Qed.
Lemma cp_lock_cleanup_run c l : cp (lock_cleanup_run c l) = cp c.
Proof. destruct l; reflexivity. Qed.

Lemma cp_fold_left {X} (f : client -> X -> client) l :
  (forall c x, cp (f c x) = cp c) -> forall c, cp (fold_left f l c) = cp c.
Proof.
  intros H. induction l as [|x l IH]; intros c; cbn [fold_left]; [reflexivity|].
  rewrite IH. apply H.
Qed.

Lemma cp_release_locked c e : cp (release_locked c e) = cp c.
Proof.
  unfold release_locked. apply cp_fold_left. intros c' p.
  destruct (snd p); try reflexivity.
  rewrite cp_complete. apply cp_lock_cleanup_run.
Qed.

Lemma cp_break_pending c : cp (break_pending c) = cp c.
Proof.
  unfold break_pending.
  match goal with |- cp (?x <| k_txs := [] |>) = _ => change (cp x = cp c) end.
  rewrite cp_fold_left.
  - match goal with |- cp (?x <| k_ping := None |>) = _ => change (cp x = cp c) end.
    destruct (k_ping c); [|reflexivity].
    destruct (parked_kind c n) as [[]|]; reflexivity.
  - intros c' t. destruct (parked_kind c' (snd (fst t))) as [[]|]; reflexivity.
Qed.

Lemma cp_xclose c x : cp (xclose c x) = cp c.
Proof. unfold xclose. destruct (x =? 0); reflexivity. Qed.
Lemma cp_xsend c x e : cp (xsend c x e) = cp c.
Proof. unfold xsend. destruct (x =? 0); reflexivity. Qed.
Lemma cp_set_offline c : cp (set_offline c) = cp c.
Proof. reflexivity. Qed.

(* ------------------------------------------------------------------ *)
(* Helpers that leave the projection alone                             *)

Lemma with_reader_k {A} c m (f : rst -> A * rst) : kspec c m (with_reader c f).
Proof.
  intros w a w' Hm E. unfold with_reader in E. destruct (f (rst_of c w)) as [x s].
  inversion E; subst. eexists; split; [exact Hm|]. split; reflexivity.
Qed.

Lemma locked_write_k c m cn bufs single : kspec c m (locked_write c cn bufs single).
Proof.
  unfold locked_write. apply kspec_bind_keep; [apply conn_write_keep|]. intros r.
  destruct r; try (apply kspec_ret; reflexivity);
    (apply kspec_bind_keep; [first [apply tell_keep | apply trip_ret; reflexivity]|]);
    intros _; apply kspec_ret; reflexivity.
Qed.

Lemma nowait_write_k c m bufs single : kspec c m (nowait_write c bufs single).
Proof.
  unfold nowait_write. destruct (k_wsem c); try (apply kspec_ret; reflexivity).
  apply locked_write_k.
Qed.

Lemma op_write_k c m bufs single : kspec c m (op_write c bufs single).
Proof.
  unfold op_write. destruct (k_wsem c); try (apply kspec_ret; reflexivity).
  apply kspec_bind; [apply locked_write_k|]. intros [c1 e] H. apply kspec_ret. reflexivity.
Qed.

Lemma to_offline_spec c m :
  trip m (to_offline c) (fun c' m' => cp c' = cp c /\ m' = m).
Proof.
  unfold to_offline. destruct (k_wsem c);
    try (apply trip_bind_keep; [apply tell_keep|]; intros _; apply trip_ret;
         split; [rewrite cp_break_pending; reflexivity|reflexivity]).
  apply trip_bind_keep; [apply tell_keep|]. intros _. apply trip_ret. split; reflexivity.
Qed.

(* to_offline, then return *)
Lemma to_offline_ret_c {A} c m (r : A) :
  cspec c m (bind (to_offline c) (fun c => ret (c, r))).
Proof.
  eapply trip_bind; [apply to_offline_spec|]. intros c' m' [H ->].
  apply cspec_ret_R, R_same, H.
Qed.

Lemma handshake_k c m cn clean cid : kspec c m (handshake c cn clean cid).
Proof.
  unfold handshake. apply kspec_bind_keep; [apply conn_write_keep|]. intros r.
  destruct r; try (apply kspec_ret; reflexivity).
  eapply trip_bind; [apply with_reader_k|]. intros [c1 [p e]] m1 [H ->]. cbn [fst] in H.
  change (cp c1 = cp c) in H.
  assert (Hc : forall x, cp (c1 <| k_rarm := x |>) = cp c) by (intros; exact H).
  assert (Hc2 : forall x f, cp (c1 <| k_rarm := x |> <| k_rbuf ::= f |>) = cp c) by (intros; exact H).
  assert (Hc3 : forall x f, cp (c1 <| k_rarm := x |> <| k_newsess := true |> <| k_rbuf ::= f |>) = cp c)
    by (intros; exact H).
  cbv zeta.
  destruct e as [[]|]; try apply trip_fail;
  match goal with |- context [if ?b then _ else _] => destruct b end;
    try (apply kspec_ret; apply Hc).
  destruct p as [|a [|b [|fl [|code [|]]]]]; try apply trip_fail.
  destruct (negb (code =? 0)); [apply kspec_ret, Hc|].
  destruct (fl =? 0); [apply kspec_ret, Hc3|].
  destruct (fl =? 1); [|apply kspec_ret, Hc].
  destruct clean; apply kspec_ret; [apply Hc|apply Hc2].
Qed.

(* ------------------------------------------------------------------ *)
(* connect: resubmission                                               *)

Ltac cp_hyps :=
  repeat match goal with
         | H : cp _ = cp _ |- _ =>
           apply cp_fields in H; cbn in H; destruct H as (?&?&?&?&?&?&?&?&?&?&?&?&?)
         end.
Ltac cp_solve :=
  rewrite ?cp_release_locked, ?cp_break_pending, ?cp_xclose, ?cp_xsend;
  cp_hyps; unfold cp; cbn; rewrite ?N.add_1_r in *; congruence.

Lemma resend_trip m fuel cn space : forall seqno acc subm,
  trip m (resend fuel cn space seqno acc subm)
       (fun p m' => m' = m /\ subm <= fst p <= N.max subm acc).
Proof.
  induction fuel as [|f IH]; intros seqno acc subm; cbn [resend].
  - apply trip_ret. split; [reflexivity|cbn [fst]; lia].
  - destruct (acc <=? seqno) eqn:E; [apply trip_ret; split; [reflexivity|cbn [fst]; lia]|].
    apply N.leb_gt in E. cbv zeta.
    apply trip_bind_keep; [apply rugged_load_keep|]. intros l.
    destruct l as [[[|h body]|]|e]; try (apply trip_ret; split; [reflexivity|cbn [fst]; lia]).
    apply trip_bind_keep; [apply conn_write_keep|]. intros r.
    destruct r; try (apply trip_ret; split; [reflexivity|cbn [fst]; lia]).
    eapply trip_conseq; [apply IH|]. intros p m' [-> H]. split; [reflexivity|].
    destruct (subm <=? seqno) eqn:E2; [apply N.leb_le in E2|apply N.leb_gt in E2]; lia.
Qed.

Lemma R_submit c m c' s1 s2 :
  cp c' = cp (c <| k_sub1 := s1 |> <| k_sub2 := s2 |>) ->
  k_sub1 c <= s1 <= N.max (k_sub1 c) (k_acc1 c) ->
  k_sub2 c <= s2 <= N.max (k_sub2 c) (k_acc2 c) ->
  R c m c' m.
Proof.
  intros H H1 H2. eapply R_same_r; [|exact H].
  apply R_step; [reflexivity|]. exact (OS_submit (oproj c m) s1 s2 H1 H2).
Qed.

Lemma connect_spec c m : cspec c m (connect c).
Proof.
  unfold connect. destruct (k_closed c); [apply cspec_ret; reflexivity|]. cbv zeta.
  apply cspec_bind_keep; [apply rugged_load_keep|]. intros l.
  destruct l as [cidv|e]; [|apply cspec_ret; cp_solve].
  apply cspec_bind_keep; [apply ask_dial_keep|]. intros ok.
  destruct ok; cbn [negb]; [|apply cspec_ret; cp_solve].
  eapply trip_bind; [apply handshake_k|]. intros [c1 h] m1 [H ->]. cbn [fst] in H.
  destruct h as [|e].
  2:{ apply trip_bind_keep; [apply tell_keep|]. intros _. apply cspec_ret. cp_solve. }
  eapply trip_bind; [apply resend_trip|]. intros [s1 e1] m1 [-> B1]. cbn in B1.
  destruct (negb (e1 =? 0)).
  { apply trip_bind_keep; [apply tell_keep|]. intros _. apply cspec_ret_R.
    apply (R_submit c m _ s1 (k_sub2 c)); [cp_solve|cp_hyps; lia|lia]. }
  eapply trip_bind; [apply resend_trip|]. intros [s2 e2] m1 [-> B2]. cbn in B2.
  destruct (negb (e2 =? 0)).
  { apply trip_bind_keep; [apply tell_keep|]. intros _. apply cspec_ret_R.
    apply (R_submit c m _ s1 s2); [cp_solve|cp_hyps; lia|cp_hyps; lia]. }
  match goal with |- context [if ?b then _ else _] => destruct b end; [apply trip_fail|].
  apply cspec_ret_R.
  apply (R_submit c m _ s1 s2); [cp_solve|cp_hyps; lia|cp_hyps; lia].
Qed.

(* ------------------------------------------------------------------ *)
(* One abstract step each                                              *)

Ltac ost_eq := unfold oproj, ost_of; cbn; rewrite ?N.add_1_r; reflexivity.

Lemma R_via c m c' m' st' :
  k_cfg c' = k_cfg c -> ostep (oproj c m) st' -> oproj c' m' = st' -> R c m c' m'.
Proof. intros A B E. apply R_step; [exact A|]. rewrite E. exact B. Qed.

Lemma R_ack1 c m c' x q :
  k_q1 c = x :: q -> cp c' = cp (c <| k_acked ::= N.succ |> <| k_q1 := q |>) ->
  R c m c' (store_del m (key1 (k_acked c))).
Proof.
  intros Hq H. eapply R_same_r; [|exact H].
  eapply R_via; [reflexivity|exact (OS_ack1 (oproj c m) x q Hq)|ost_eq].
Qed.

Lemma R_comp2 c m c' x q :
  k_compl c < k_recvd c -> k_q2 c = x :: q ->
  cp c' = cp (c <| k_compl ::= N.succ |> <| k_q2 := q |>) ->
  R c m c' (store_del m (key2 (k_compl c))).
Proof.
  intros Hlt Hq H. eapply R_same_r; [|exact H].
  eapply R_via; [reflexivity|exact (OS_comp2 (oproj c m) x q Hlt Hq)|ost_eq].
Qed.

Lemma R_rec2 c m c' :
  k_recvd c - k_compl c < len (k_q2 c) ->
  cp c' = cp (c <| k_rseq := k_rseq c + 1 |> <| k_recvd ::= N.succ |>) ->
  R c m c' (store_put m (key2 (k_recvd c))
                      (encode_value (packet_pubrel (key2 (k_recvd c))) (k_rseq c + 1))).
Proof.
  intros Hlt H. eapply R_same_r; [|exact H].
  eapply R_via; [reflexivity|exact (OS_rec2 (oproj c m) Hlt)|ost_eq].
Qed.

Lemma R_save_failed c m c' :
  cp c' = cp (c <| k_rseq := k_rseq c + 1 |>) -> R c m c' m.
Proof.
  intros H. eapply R_same_r; [|exact H].
  eapply R_via; [reflexivity|exact (OS_save_failed (oproj c m))|ost_eq].
Qed.

Lemma R_marker_save c m c' k v :
  N.testbit k 16 = true -> cp c' = cp (c <| k_rseq := k_rseq c + 1 |>) ->
  R c m c' (store_put m k (encode_value v (k_rseq c + 1))).
Proof.
  intros Hk H. eapply R_same_r; [|exact H].
  eapply R_via; [reflexivity|exact (OS_marker_save (oproj c m) k v Hk)|ost_eq].
Qed.

Lemma R_marker_del c m c' k :
  N.testbit k 16 = true -> cp c' = cp c -> R c m c' (store_del m k).
Proof.
  intros Hk H. eapply R_same_r; [|exact H].
  eapply R_via; [reflexivity|exact (OS_marker_del (oproj c m) k Hk)|ost_eq].
Qed.

Lemma R_close c m c' : cp c' = cp (c <| k_closed := true |>) -> R c m c' m.
Proof.
  intros H. eapply R_same_r; [|exact H].
  eapply R_via; [reflexivity|exact (OS_close (oproj c m))|ost_eq].
Qed.

Lemma R_term c m c' :
  cp c' = cp (c <| k_seqclosed := true |> <| k_q1 := [] |> <| k_q2 := [] |>) -> R c m c' m.
Proof.
  intros H. eapply R_same_r; [|exact H].
  eapply R_via; [reflexivity|exact (OS_term (oproj c m))|ost_eq].
Qed.

Lemma R_accept1 c m c' retain topic msg x sub' :
  k_seqclosed c = false -> k_closed c = false -> len (k_q1 c) < s_max1 (k_cfg c) ->
  topic_check topic = None -> publish_size topic msg alo_space <= packet_max ->
  (sub' = k_sub1 c \/ (k_acc1 c <= k_sub1 c /\ sub' = k_acc1 c + 1)) ->
  cp c' = cp (c <| k_rseq := k_rseq c + 1 |> <| k_acc1 ::= N.succ |>
                <| k_q1 := k_q1 c ++ [x] |> <| k_sub1 := sub' |>) ->
  R c m c' (store_put m (key1 (k_acc1 c))
                      (encode_value (pub1_packet retain topic msg (k_acc1 c)) (k_rseq c + 1))).
Proof.
  intros H1 H2 H3 H4 H5 H6 H. eapply R_same_r; [|exact H].
  eapply R_via; [reflexivity
                |exact (OS_accept1 (oproj c m) retain topic msg x sub' H1 H2 H3 H4 H5 H6)|ost_eq].
Qed.

Lemma R_accept2 c m c' retain topic msg x sub' :
  k_seqclosed c = false -> k_closed c = false -> len (k_q2 c) < s_max2 (k_cfg c) ->
  topic_check topic = None -> publish_size topic msg eo_space <= packet_max ->
  (sub' = k_sub2 c \/ (k_acc2 c <= k_sub2 c /\ sub' = k_acc2 c + 1)) ->
  cp c' = cp (c <| k_rseq := k_rseq c + 1 |> <| k_acc2 ::= N.succ |>
                <| k_q2 := k_q2 c ++ [x] |> <| k_sub2 := sub' |>) ->
  R c m c' (store_put m (key2 (k_acc2 c))
                      (encode_value (pub2_packet retain topic msg (k_acc2 c)) (k_rseq c + 1))).
Proof.
  intros H1 H2 H3 H4 H5 H6 H. eapply R_same_r; [|exact H].
  eapply R_via; [reflexivity
                |exact (OS_accept2 (oproj c m) retain topic msg x sub' H1 H2 H3 H4 H5 H6)|ost_eq].
Qed.

(* ------------------------------------------------------------------ *)
(* Packet handlers                                                     *)

Lemma remote_key_bit pid : N.testbit (N.lor pid remote_flag) 16 = true.
Proof. rewrite N.lor_spec. apply orb_true_r. Qed.

Ltac if_ret :=
  match goal with
  | |- trip _ (if ?b then _ else _) _ => destruct b eqn:?; [apply cspec_ret; reflexivity|]
  end.

Lemma on_publish_k c m head body : kspec c m (on_publish c head body).
Proof.
  unfold on_publish. cbv zeta.
  repeat match goal with
  | |- kspec _ _ (if ?b then _ else _) => destruct b; [apply kspec_ret; reflexivity|]
  end.
  match goal with |- kspec _ _ (if ?b then _ else _) => destruct b end.
  - destruct (negb _); apply kspec_ret; reflexivity.
  - apply kspec_bind_keep; [apply rugged_load_keep|]. intros l.
    destruct l as [[|]|]; try destruct (negb _); apply kspec_ret; reflexivity.
Qed.

Lemma on_puback_spec c m body : cspec c m (on_puback c body).
Proof.
  unfold on_puback, cspec. cbv zeta. do 3 if_ret.
  match goal with |- trip _ (if negb (?a =? ?b) then _ else _) _ => destruct (N.eqb_spec a b) as [E|] end;
    cbn [negb]; [|apply cspec_ret; reflexivity].
  destruct (k_q1 c) as [|x q] eqn:Q; [apply cspec_ret; reflexivity|].
  eapply trip_bind; [apply store_delete_trip|].
  intros ok m1 [[-> ->]|[-> ->]]; cbn [negb]; [|apply cspec_ret; reflexivity].
  apply trip_ret. cbn [fst]. rewrite <- E. apply (R_ack1 c m _ x q Q). apply cp_xclose.
Qed.

Lemma on_pubcomp_spec c m body : cspec c m (on_pubcomp c body).
Proof.
  unfold on_pubcomp, cspec. cbv zeta. do 3 if_ret.
  match goal with |- trip _ (if negb (?a =? ?b) then _ else _) _ => destruct (N.eqb_spec a b) as [E|] end;
    cbn [negb]; [|apply cspec_ret; reflexivity].
  destruct (k_recvd c <=? k_compl c) eqn:L; [apply cspec_ret; reflexivity|]. apply N.leb_gt in L.
  destruct (k_q2 c) as [|x q] eqn:Q; [apply cspec_ret; reflexivity|].
  eapply trip_bind; [apply store_delete_trip|].
  intros ok m1 [[-> ->]|[-> ->]]; cbn [negb]; [|apply cspec_ret; reflexivity].
  apply trip_ret. cbn [fst]. rewrite <- E. apply (R_comp2 c m _ x q L Q). apply cp_xclose.
Qed.

Lemma on_pubrec_spec c m body : cspec c m (on_pubrec c body).
Proof.
  unfold on_pubrec, cspec. cbv zeta. do 3 if_ret.
  match goal with |- trip _ (if negb (?a =? ?b) then _ else _) _ => destruct (N.eqb_spec a b) as [E|] end;
    cbn [negb]; [|apply cspec_ret; reflexivity].
  destruct (len (k_q2 c) <=? k_recvd c - k_compl c) eqn:L; [apply cspec_ret; reflexivity|].
  apply N.leb_gt in L.
  eapply trip_bind; [apply rugged_save_trip|].
  intros [c1 ok] m1 [Hc [[Hok ->]|[Hok ->]]]; cbn [fst snd] in Hc, Hok; subst c1 ok; cbn [negb].
  2:{ apply cspec_ret_R, R_save_failed. reflexivity. }
  eapply trip_bind; [apply nowait_write_k|]. intros [c2 e] m1 [H ->]. cbn [fst] in H.
  rewrite <- E. change (N.lor (N.land (k_recvd c) id_mask) eo_space) with (key2 (k_recvd c)).
  destruct (negb (e =? 0)); apply trip_ret; cbn [fst]; apply (R_rec2 c m _ L); cp_solve.
Qed.

Lemma on_pubrel_spec c m body : cspec c m (on_pubrel c body).
Proof.
  unfold on_pubrel, cspec. cbv zeta. do 2 if_ret.
  eapply trip_bind; [apply store_delete_trip|].
  intros ok m1 [[-> ->]|[-> ->]]; cbn [negb]; [|apply cspec_ret; reflexivity].
  assert (HR : forall c', cp c' = cp c -> R c m c' (store_del m (N.lor (u16 body) remote_flag)))
    by (intros; apply R_marker_del; [apply remote_key_bit|assumption]).
  destruct (negb (len (k_pack c) =? 0)); [apply trip_ret, HR; reflexivity|].
  eapply trip_bind; [apply nowait_write_k|]. intros [c2 e] m1 [H ->]. cbn [fst] in H.
  destruct (negb (e =? 0)); apply trip_ret, HR; cp_solve.
Qed.

Lemma cp_on_suback c body : cp (fst (on_suback c body)) = cp c.
Proof.
  unfold on_suback. cbv zeta.
  repeat match goal with
  | |- cp (fst (if ?b then _ else _)) = _ => destruct b; [reflexivity|]
  end.
  destruct (tx_find c (u16 body)) as [[rid fso]|]; [|reflexivity].
  destruct (negb (_ =? _)%nat).
  - cbn [fst]. destruct (match parked_kind _ _ with Some (PkSub _) => true | _ => false end); reflexivity.
  - destruct (failed_filters _ _); cbn [fst];
      destruct (match parked_kind _ _ with Some (PkSub _) => true | _ => false end); reflexivity.
Qed.

Lemma cp_on_unsuback c body : cp (fst (on_unsuback c body)) = cp c.
Proof.
  unfold on_unsuback. cbv zeta.
  repeat match goal with
  | |- cp (fst (if ?b then _ else _)) = _ => destruct b; [reflexivity|]
  end.
  destruct (tx_find c (u16 body)) as [[rid fso]|]; [|reflexivity].
  destruct (parked_kind _ _) as [[]|]; reflexivity.
Qed.

Lemma cp_on_pingresp c body : cp (fst (on_pingresp c body)) = cp c.
Proof.
  unfold on_pingresp. destruct (negb _); [reflexivity|].
  destruct (k_ping c); [|reflexivity]. cbv zeta.
  destruct (parked_kind _ _) as [[]|]; reflexivity.
Qed.

Lemma cspec_ret_pair {A} c m (p : client * A) : cp (fst p) = cp c -> cspec c m (ret p).
Proof. destruct p. apply cspec_ret. Qed.

Lemma dispatch_spec c m head body : cspec c m (dispatch c head body).
Proof.
  unfold dispatch.
  repeat match goal with
  | |- cspec _ _ (match ?x with _ => _ end) => destruct x; try (apply cspec_ret; reflexivity)
  end.
  all: first [ apply kspec_cspec, on_publish_k | apply on_puback_spec | apply on_pubrec_spec
             | apply on_pubrel_spec | apply on_pubcomp_spec
             | apply cspec_ret_pair, cp_on_suback | apply cspec_ret_pair, cp_on_unsuback
             | apply cspec_ret_pair, cp_on_pingresp ].
Qed.

(* ------------------------------------------------------------------ *)
(* ReadSlices                                                          *)

Lemma cspec_bind_off {B} c m (k : client -> M (client * B)) :
  (forall c1, cp c1 = cp c -> cspec c1 m (k c1)) -> cspec c m (bind (to_offline c) k).
Proof.
  intros Hk. eapply trip_bind; [apply to_offline_spec|]. intros c1 m1 [H ->].
  eapply cspec_pre; [apply R_same, H|apply Hk, H].
Qed.

Ltac off_ret := apply to_offline_ret_c.

Lemma cspec_same {A} c c1 m (f : M (client * A)) : cp c1 = cp c -> cspec c1 m f -> cspec c m f.
Proof. intros H Hf. eapply cspec_pre; [apply R_same, H|exact Hf]. Qed.

Lemma read_loop_spec fuel : forall c m, cspec c m (read_loop fuel c).
Proof.
  induction fuel as [|f IH]; intros c m; cbn [read_loop]; [apply trip_fail|].
  apply cspec_bind_k; [apply with_reader_k|]. intros [c1 pk] _. cbn [fst]. clear c.
  destruct pk as [head body|head size partial|e proto|].
  - (* PkOk *)
    apply cspec_bind; [apply dispatch_spec|]. intros [c2 h] m2. cbn [fst].
    destruct h as [|e|topic msg|].
    + eapply cspec_same; [|apply IH]; reflexivity.
    + off_ret.
    + apply cspec_ret; reflexivity.
    + apply cspec_bind_k; [apply nowait_write_k|]. intros [c3 e] _. cbn [fst].
      destruct (negb (e =? 0)); [off_ret|eapply cspec_same; [|apply IH]; reflexivity].
  - (* PkBig *)
    apply cspec_bind_k; [apply on_publish_k|]. intros [c2 h] _. cbn [fst].
    destruct h as [|e|topic msg|].
    + apply trip_fail.
    + off_ret.
    + apply cspec_ret; reflexivity.
    + apply cspec_bind_k; [apply with_reader_k|]. intros [c3 d] _. cbn [fst].
      destruct d as [[]|]; try off_ret; try apply trip_fail.
      apply cspec_bind_k; [apply nowait_write_k|]. intros [c4 e] _. cbn [fst].
      destruct (negb (e =? 0)); [off_ret|eapply cspec_same; [|apply IH]; reflexivity].
  - (* PkErr *)
    destruct e; try off_ret; try apply trip_fail.
    apply cspec_bind_off. intros c2 _.
    apply cspec_bind; [apply connect_spec|]. intros [c3 e] m3. cbn [fst].
    destruct (negb (e =? 0)); [apply cspec_ret; reflexivity|apply IH].
  - off_ret.
Qed.

Lemma kspec_same {A} c c1 m (f : M (client * A)) : cp c1 = cp c -> kspec c1 m f -> kspec c m f.
Proof. intros H Hf. eapply trip_conseq; [exact Hf|]. intros p m' [E ->]. split; congruence. Qed.

Lemma trip_bind_ret {A B} m (a : A) (k : A -> M B) Q : trip m (k a) Q -> trip m (bind (ret a) k) Q.
Proof. intros H w b w' Hm E. exact (H _ _ _ Hm E). Qed.

Lemma rugged_save_marker c m k v : N.testbit k 16 = true -> cspec c m (rugged_save c k v).
Proof.
  intros Hk. eapply trip_conseq; [apply rugged_save_trip|].
  intros [c1 ok] m1 [Hc [[_ ->]|[_ ->]]]; cbn [fst] in *; subst c1.
  - apply R_marker_save; [exact Hk|reflexivity].
  - apply R_save_failed. reflexivity.
Qed.

Lemma read_slices_body_spec c m : cspec c m (read_slices_body c).
Proof.
  unfold read_slices_body.
  apply cspec_bind; [destruct (k_rconn c); [apply cspec_ret; reflexivity|apply connect_spec]|].
  intros [c1 e] m1. cbn [fst]. clear c m.
  destruct (negb (e =? 0)); [apply cspec_ret; reflexivity|].
  apply cspec_bind_k.
  { destruct (k_big c1); [|apply kspec_ret; reflexivity].
    eapply kspec_same; [|apply with_reader_k]. reflexivity. }
  intros [c2 e2] _. cbn [fst]. clear c1.
  destruct e2 as [[]|]; try off_ret; try apply trip_fail.
  cbv zeta.
  match goal with |- context [k_pack ?x] => set (c3 := x) end.
  eapply cspec_same with (c1 := c3); [reflexivity|]. clearbody c3. clear c2.
  apply cspec_bind.
  { destruct (k_pack c3) as [|h t]; [apply cspec_ret; reflexivity|].
    apply cspec_bind.
    { destruct (h / 16 =? 5); [|apply cspec_ret; reflexivity].
      apply rugged_save_marker, remote_key_bit. }
    intros [c4 ok] m4. cbn [fst].
    destruct (negb ok); [apply cspec_ret; reflexivity|].
    apply cspec_bind_k; [apply nowait_write_k|]. intros [c5 e5] _. cbn [fst].
    destruct (negb (e5 =? 0)); apply cspec_ret; reflexivity. }
  intros [c6 e6] m6. cbn [fst].
  destruct e6 as [[e' off]|].
  - destruct off; [off_ret|]. apply trip_bind_ret. apply cspec_ret; reflexivity.
  - apply (trip_world m6 (fun w => S (S (length (t_rd w) + length (t_dial w))))
                      (fun n => read_loop n c6)).
    intros n. apply read_loop_spec.
Qed.

Lemma term_callbacks_R c m : R c m (term_callbacks c) m.
Proof.
  unfold term_callbacks. destruct (k_seqclosed c) eqn:S.
  - apply R_same. rewrite cp_break_pending. reflexivity.
  - apply R_term. rewrite cp_break_pending. reflexivity.
Qed.

Lemma read_slices_spec c m : cspec c m (read_slices c).
Proof.
  unfold read_slices. apply cspec_bind; [apply read_slices_body_spec|].
  intros [c1 r] m1. cbn [fst].
  destruct r; try (apply cspec_ret; reflexivity).
  destruct (is_closed_err e); [|apply cspec_ret; reflexivity].
  apply cspec_ret_R, term_callbacks_R.
Qed.

(* ------------------------------------------------------------------ *)
(* Requests                                                            *)

Lemma read_all_op_k c m : kspec c m (read_all_op c).
Proof.
  unfold read_all_op. destruct (k_big c); [|apply kspec_ret; reflexivity]. cbv zeta.
  eapply kspec_same with (c1 := c <| k_big := None |>); [reflexivity|].
  apply kspec_bind; [apply with_reader_k|]. intros [c1 r] _. cbn [fst].
  destruct r as [bs|[]]; try (apply kspec_ret; reflexivity); try apply trip_fail;
    (apply kspec_bind_keep; [apply tell_keep|]; intros _; apply kspec_ret; reflexivity).
Qed.

Lemma op_publish_k c m retain msg topic : kspec c m (op_publish c retain msg topic).
Proof.
  unfold op_publish. cbv zeta.
  destruct (deny_of _); [apply kspec_ret; reflexivity|].
  destruct (packet_max <? _); [apply kspec_ret; reflexivity|].
  eapply kspec_same with (c1 := c <| k_nextr ::= N.succ |>); [reflexivity|].
  apply kspec_bind; [apply op_write_k|]. intros [c1 r] _. cbn [fst].
  destruct r; apply kspec_ret; reflexivity.
Qed.

Lemma cp_tx_pick fuel space : forall c, cp (fst (tx_pick fuel c space)) = cp c.
Proof.
  induction fuel as [|f IH]; intros c; cbn [tx_pick]; [reflexivity|]. cbv zeta.
  destruct (existsb _ _); [|reflexivity]. rewrite IH. reflexivity.
Qed.

Lemma op_subscribe_k c m sub level fs : kspec c m (op_subscribe c sub level fs).
Proof.
  unfold op_subscribe. cbv zeta.
  destruct fs as [|f0 fs0]; [apply kspec_ret; reflexivity|].
  set (fs := f0 :: fs0). clearbody fs.
  destruct (any_denied fs); [apply kspec_ret; reflexivity|].
  destruct (packet_max <? _); [apply kspec_ret; reflexivity|].
  destruct (511 <? _); [apply kspec_ret; reflexivity|].
  pose proof (cp_tx_pick 1024 (if sub then sub_space else unsub_space) (c <| k_nextr ::= N.succ |>)) as T.
  destruct (tx_pick 1024 _ _) as [c1 pid]. cbn [fst] in T. change (cp c1 = cp c) in T.
  eapply kspec_same with (c1 := c1 <| k_txs ::= cons _ |>); [exact T|].
  apply kspec_bind; [apply op_write_k|]. intros [c2 r] _. cbn [fst].
  destruct r as [e|]; [destruct (e =? 0)|]; apply kspec_ret; reflexivity.
Qed.

Lemma op_ping_k c m : kspec c m (op_ping c).
Proof.
  unfold op_ping. cbv zeta. change (k_ping (c <| k_nextr ::= N.succ |>)) with (k_ping c).
  destruct (k_ping c); [apply kspec_ret; reflexivity|].
  eapply kspec_same with (c1 := c <| k_nextr ::= N.succ |> <| k_ping := Some (k_nextr c) |>);
    [reflexivity|].
  apply kspec_bind; [apply op_write_k|]. intros [c2 r] _. cbn [fst].
  destruct r as [e|]; [destruct (e =? 0)|]; apply kspec_ret; reflexivity.
Qed.

Lemma op_quit_k c m rid : kspec c m (op_quit c rid).
Proof.
  unfold op_quit. destruct (parked_kind c rid) as [[l|pid|pid|]|]; try (apply kspec_ret; reflexivity).
  - apply kspec_ret. rewrite cp_complete. apply cp_lock_cleanup_run.
  - destruct (k_ping c); [destruct (_ =? _)|]; apply kspec_ret; reflexivity.
Qed.

Lemma op_close_spec c m : cspec c m (op_close c).
Proof.
  unfold op_close. destruct (k_closed c); [apply cspec_ret; reflexivity|].
  apply cspec_bind_keep.
  { destruct (k_wsem c); first [apply tell_keep|apply trip_ret; reflexivity]. }
  intros _. apply cspec_ret_R, R_close. rewrite cp_release_locked. reflexivity.
Qed.

Lemma op_disconnect_spec c m : cspec c m (op_disconnect c).
Proof.
  unfold op_disconnect. destruct (k_closed c); [apply cspec_ret; reflexivity|].
  destruct (k_wsem c);
    try (apply cspec_ret_R, R_close; rewrite cp_release_locked; reflexivity).
  apply cspec_bind_keep; [apply conn_write_keep|]. intros r.
  apply cspec_bind_keep; [apply tell_keep|]. intros _.
  apply cspec_ret_R, R_close. rewrite cp_release_locked. reflexivity.
Qed.

Lemma cp_op_read_backoff c e : cp (fst (op_read_backoff c e)) = cp c.
Proof.
  unfold op_read_backoff.
  destruct (_ || _); [reflexivity|]. destruct (N.testbit e 1); [reflexivity|].
  destruct (k_rconn c); [reflexivity|]. destruct (N.testbit e 10); reflexivity.
Qed.

Lemma deny_of_false {A} (o : option A) : deny_of o = false -> o = None.
Proof. destruct o; [discriminate|reflexivity]. Qed.

Lemma op_pubp1_spec c m retain msg topic :
  cspec c m (op_publish_persisted c 1 retain msg topic).
Proof.
  unfold op_publish_persisted. change (1 =? 1) with true. cbv beta iota zeta.
  destruct (deny_of (topic_check topic)) eqn:D; [apply cspec_ret; reflexivity|].
  apply deny_of_false in D.
  destruct (packet_max <? _) eqn:Sz; [apply cspec_ret; reflexivity|]. apply N.ltb_ge in Sz.
  destruct (k_seqclosed c) eqn:SC; [apply cspec_ret; reflexivity|].
  destruct (k_closed c) eqn:CL; [apply cspec_ret; reflexivity|].
  destruct (s_max1 (k_cfg c) <=? len (k_q1 c)) eqn:Mx; [apply cspec_ret; reflexivity|].
  apply N.leb_gt in Mx.
  replace (N.lor alo_space (N.land (k_acc1 c) id_mask)) with (key1 (k_acc1 c))
    by (unfold key1; apply N.lor_comm).
  change (publish_head_buf (head_publish 1 retain false) topic msg (key1 (k_acc1 c)) ++ msg)
    with (pub1_packet retain topic msg (k_acc1 c)).
  eapply trip_bind; [apply rugged_save_trip|].
  intros [c1 ok] m1 [Hc [[Hok ->]|[Hok ->]]]; cbn [fst snd] in Hc, Hok; subst c1 ok; cbn [negb].
  2:{ apply cspec_ret_R, R_save_failed. reflexivity. }
  destruct (k_sub1 c <? k_acc1 c) eqn:BL.
  { apply trip_ret. cbn [fst].
    apply (R_accept1 c m _ retain topic msg (k_nextx c) (k_sub1 c) SC CL Mx D Sz); [auto|cp_solve]. }
  apply N.ltb_ge in BL.
  eapply trip_bind; [apply nowait_write_k|]. intros [c2 e] m1 [H ->]. cbn [fst] in H.
  destruct (negb (e =? 0)); apply trip_ret; cbn [fst].
  - apply (R_accept1 c m _ retain topic msg (k_nextx c) (k_sub1 c) SC CL Mx D Sz); [auto|cp_solve].
  - apply (R_accept1 c m _ retain topic msg (k_nextx c) (k_acc1 c + 1) SC CL Mx D Sz); [auto|cp_solve].
Qed.

Lemma op_pubp2_spec c m retain msg topic :
  cspec c m (op_publish_persisted c 2 retain msg topic).
Proof.
  unfold op_publish_persisted. change (2 =? 1) with false. cbv beta iota zeta.
  destruct (deny_of (topic_check topic)) eqn:D; [apply cspec_ret; reflexivity|].
  apply deny_of_false in D.
  destruct (packet_max <? _) eqn:Sz; [apply cspec_ret; reflexivity|]. apply N.ltb_ge in Sz.
  destruct (k_seqclosed c) eqn:SC; [apply cspec_ret; reflexivity|].
  destruct (k_closed c) eqn:CL; [apply cspec_ret; reflexivity|].
  destruct (s_max2 (k_cfg c) <=? len (k_q2 c)) eqn:Mx; [apply cspec_ret; reflexivity|].
  apply N.leb_gt in Mx.
  replace (N.lor eo_space (N.land (k_acc2 c) id_mask)) with (key2 (k_acc2 c))
    by (unfold key2; apply N.lor_comm).
  change (publish_head_buf (head_publish 2 retain false) topic msg (key2 (k_acc2 c)) ++ msg)
    with (pub2_packet retain topic msg (k_acc2 c)).
  eapply trip_bind; [apply rugged_save_trip|].
  intros [c1 ok] m1 [Hc [[Hok ->]|[Hok ->]]]; cbn [fst snd] in Hc, Hok; subst c1 ok; cbn [negb].
  2:{ apply cspec_ret_R, R_save_failed. reflexivity. }
  destruct (k_sub2 c <? k_acc2 c) eqn:BL.
  { apply trip_ret. cbn [fst].
    apply (R_accept2 c m _ retain topic msg (k_nextx c) (k_sub2 c) SC CL Mx D Sz); [auto|cp_solve]. }
  apply N.ltb_ge in BL.
  eapply trip_bind; [apply nowait_write_k|]. intros [c2 e] m1 [H ->]. cbn [fst] in H.
  destruct (negb (e =? 0)); apply trip_ret; cbn [fst].
  - apply (R_accept2 c m _ retain topic msg (k_nextx c) (k_sub2 c) SC CL Mx D Sz); [auto|cp_solve].
  - apply (R_accept2 c m _ retain topic msg (k_nextx c) (k_acc2 c + 1) SC CL Mx D Sz); [auto|cp_solve].
Qed.

(* ------------------------------------------------------------------ *)
(* One step                                                            *)

(* The Go API has the two persisted publish levels only; [op_publish_persisted]
   treats every level other than 1 as exactly-once but composes the packet head from
   the number given, so other levels are outside the abstract system. *)
Definition op_level_ok (o : op) : Prop :=
  match o with
  | OpPubP l _ _ _ => l = 1 \/ l = 2
  | _ => True
  end.
Definition op_wf (o : op) : Prop :=
  op_level_ok o /\ forall m1 m2, o <> OpAdopt m1 m2.

Lemma step_spec c m o : op_wf o -> cspec c m (step c o).
Proof.
  intros [Hl Ha]. unfold step. cbv zeta.
  eapply cspec_same with (c1 := c <| k_done := [] |> <| k_xev := [] |>); [reflexivity|].
  destruct o.
  - apply read_slices_spec.
  - apply kspec_cspec, read_all_op_k.
  - apply kspec_cspec, op_publish_k.
  - destruct Hl as [-> | ->]; [apply op_pubp1_spec|apply op_pubp2_spec].
  - apply kspec_cspec, op_subscribe_k.
  - apply kspec_cspec, op_subscribe_k.
  - apply kspec_cspec, op_ping_k.
  - apply kspec_cspec, op_quit_k.
  - apply op_close_spec.
  - apply op_disconnect_spec.
  - exfalso. eapply Ha. reflexivity.
  - apply cspec_ret_pair, cp_op_read_backoff.
Qed.

Lemma ost_of_oproj s : ost_of s = oproj (sy_c s) (sy_m s).
Proof. destruct s. reflexivity. Qed.

Lemma exec_R s o tp s' r log :
  exec s o tp = Some (s', r, log) -> op_wf o -> R (sy_c s) (sy_m s) (sy_c s') (sy_m s').
Proof.
  intros E Hwf. unfold exec in E.
  destruct (step (sy_c s) o (world_of (sy_m s) tp)) as [[[c' r'] w]|] eqn:St; [|discriminate].
  inversion E; subst. clear E.
  destruct (step_spec (sy_c s) (sy_m s) o Hwf (world_of (sy_m s) tp) _ _ eq_refl St)
    as (m' & Hm' & HR).
  cbn [fst] in HR. unfold store_of_world. cbn [sy_c sy_m]. rewrite Hm'. exact HR.
Qed.

Theorem exec_refines : forall s o tp s' r log,
  exec s o tp = Some (s', r, log) -> op_wf o ->
  osteps (ost_of s) (ost_of s').
Proof. intros. rewrite !ost_of_oproj. eapply exec_R; eassumption. Qed.

(* the configuration, hence the two maxima, is fixed between adoptions *)
Theorem exec_cfg : forall s o tp s' r log,
  exec s o tp = Some (s', r, log) -> op_wf o ->
  k_cfg (sy_c s') = k_cfg (sy_c s).
Proof. intros. eapply exec_R; eassumption. Qed.

(* ------------------------------------------------------------------ *)
(* AdoptSession                                                        *)

(* records that do not decode (and are not the client identifier) may be deleted *)
Definition undecodable (v : option (list N)) : Prop :=
  forall p sq, decode_value (match v with Some b => b | None => [] end) <> DecOk p sq.

Inductive purge : store -> store -> Prop :=
| purge_refl : forall m, purge m m
| purge_del : forall m k m', k <> 0 -> undecodable (store_get m k) ->
                             purge (store_del m k) m' -> purge m m'.

Lemma purge_trans a b c : purge a b -> purge b c -> purge a c.
Proof. induction 1; intros; [assumption|]. econstructor; eauto. Qed.

Lemma adopt_scan_trip keys : forall a m,
  trip m (adopt_scan keys a) (fun _ m' => purge m m').
Proof.
  induction keys as [|k r IH]; intros a m; cbn [adopt_scan].
  - apply trip_ret. constructor.
  - destruct (N.eqb_spec k 0) as [|K0]; [apply IH|].
    eapply trip_bind; [apply ask_store_trip|]. intros v m1 H.
    destruct v as [ks|raw| |]; try apply trip_fail.
    2:{ subst. apply trip_ret. constructor. }
    destruct H as (k' & Hq & Hraw & ->). inversion Hq; subst k'. clear Hq.
    destruct (decode_value _) as [packet sq| |] eqn:Dv.
    + cbv zeta. destruct (N.testbit k 16); [apply IH|].
      destruct packet as [|h t]; [apply trip_ret; constructor|]. apply IH.
    + eapply trip_bind; [apply store_delete_trip|]. intros ok m1 Hd.
      eapply trip_conseq; [apply IH|]. intros x m2 Hp.
      destruct Hd as [[_ ->]|[_ ->]]; [|exact Hp].
      eapply purge_del; [exact K0| |exact Hp].
      intros p sq'. rewrite <- Hraw, Dv. discriminate.
    + eapply trip_bind; [apply store_delete_trip|]. intros ok m1 Hd.
      eapply trip_conseq; [apply IH|]. intros x m2 Hp.
      destruct Hd as [[_ ->]|[_ ->]]; [|exact Hp].
      eapply purge_del; [exact K0| |exact Hp].
      intros p sq'. rewrite <- Hraw, Dv. discriminate.
Qed.

Lemma op_adopt_trip cf z1 z2 m :
  trip m (op_adopt cf z1 z2) (fun _ m' => purge m m').
Proof.
  unfold op_adopt. eapply trip_bind; [apply ask_store_trip|]. intros a m1 H.
  destruct a as [keys|raw| |]; try apply trip_fail.
  2:{ subst. apply trip_ret. constructor. }
  destruct H as (_ & _ & ->).
  eapply trip_bind; [apply adopt_scan_trip|]. intros rr m1 Hp.
  destruct rr as [acc|e]; [|apply trip_ret; exact Hp].
  destruct (clean_seq (keys_of (a_alo acc))) as [alo g1].
  destruct (clean_seq (keys_of (a_eo acc))) as [eo g2].
  destruct (clean_seq (keys_of (a_rel acc))) as [rel g3].
  cbv zeta.
  match goal with |- trip _ (if ?b then _ else _) _ => destruct b end; apply trip_ret; exact Hp.
Qed.

Theorem exec_adopt_refines : forall s m1 m2 tp s' r log,
  exec s (OpAdopt m1 m2) tp = Some (s', r, log) ->
  adopts (ost_of s) (ost_of s')
  \/ (sy_c s' = (sy_c s) <| k_done := [] |> <| k_xev := [] |> /\ purge (sy_m s) (sy_m s')).
Proof.
  intros s m1 m2 tp s' r log E. unfold exec, step in E. cbv zeta in E. unfold bind in E.
  match type of E with context [op_adopt ?cf _ _ ?w] =>
    destruct (op_adopt cf m1 m2 w) as [[[oc r'] w']|] eqn:Ad; [|discriminate] end.
  destruct oc as [c'|]; unfold ret in E; inversion E; subst; clear E.
  - left. unfold adopts. do 7 eexists. split; [exact Ad|reflexivity].
  - right. split; [reflexivity|]. cbn [sy_m].
    destruct (op_adopt_trip _ _ _ (sy_m s) (world_of (sy_m s) tp) _ _ eq_refl Ad) as (m' & Hm' & Hp).
    unfold store_of_world. rewrite Hm'. exact Hp.
Qed.

(* what a purge keeps *)
Lemma store_get_del_other m k k' : k <> k' -> store_get (store_del m k') k = store_get m k.
Proof.
  intros Hk. induction m as [|[k0 v0] m IH]; cbn [store_del store_get]; [reflexivity|].
  destruct (N.eqb_spec k0 k').
  - subst. destruct (N.eqb_spec k' k); [congruence|reflexivity].
  - cbn [store_get]. rewrite IH. reflexivity.
Qed.

Lemma purge_keeps m m' : purge m m' ->
  forall k v p sq, store_get m k = Some v -> decode_value v = DecOk p sq -> store_get m' k = Some v.
Proof.
  induction 1 as [|m k0 m' K0 U _ IH]; intros k v p sq G D; [exact G|].
  eapply IH; [|exact D]. rewrite store_get_del_other; [exact G|].
  intros ->. rewrite G in U. exact (U _ _ D).
Qed.

Lemma store_get_del_some m k k' v :
  store_get (store_del m k') k = Some v -> exists v', store_get m k = Some v'.
Proof.
  destruct (N.eqb_spec k k') as [->|Hk].
  - induction m as [|[k0 v0] m IH]; cbn [store_del store_get]; [discriminate|].
    destruct (N.eqb_spec k0 k'); [eauto|]. cbn [store_get].
    destruct (N.eqb_spec k0 k'); [congruence|]. exact IH.
  - rewrite store_get_del_other by exact Hk. eauto.
Qed.

Lemma purge_no_new m m' : purge m m' ->
  forall k v, store_get m' k = Some v -> exists v', store_get m k = Some v'.
Proof.
  induction 1 as [|m k0 m' K0 U _ IH]; intros k v G; [eauto|].
  destruct (IH _ _ G) as (v' & G'). eapply store_get_del_some, G'.
Qed.

Lemma purge_key0 m m' : purge m m' -> store_get m' 0 = store_get m 0.
Proof.
  induction 1 as [|m k0 m' K0 U _ IH]; [reflexivity|].
  rewrite IH. apply store_get_del_other. congruence.
Qed.

(* ------------------------------------------------------------------ *)
(* Histories                                                           *)

Theorem run_refines : forall h s,
  Forall (fun p => op_wf (fst p)) h -> osteps (ost_of s) (ost_of (run s h)).
Proof.
  induction h as [|[o tp] h IH]; intros s Hh; cbn [run]; [constructor|].
  inversion Hh; subst. cbn [fst] in *.
  destruct (exec s o tp) as [[[s' r] log]|] eqn:E; [|apply IH; assumption].
  eapply osteps_trans; [eapply exec_refines; eassumption|apply IH; assumption].
Qed.

Theorem run_cfg : forall h s,
  Forall (fun p => op_wf (fst p)) h -> k_cfg (sy_c (run s h)) = k_cfg (sy_c s).
Proof.
  induction h as [|[o tp] h IH]; intros s Hh; cbn [run]; [reflexivity|].
  inversion Hh; subst. cbn [fst] in *.
  destruct (exec s o tp) as [[[s' r] log]|] eqn:E; [|apply IH; assumption].
  rewrite IH by assumption. eapply exec_cfg; eassumption.
Qed.

(* with adoptions: a failed AdoptSession keeps the client and purges the store *)
Definition purges (st st' : ost) : Prop :=
  exists m', purge (o_store st) m' /\ st' = st <| o_store := m' |>.

Inductive osteps_a : ost -> ost -> Prop :=
| oa_refl : forall st, osteps_a st st
| oa_step : forall a b c, ostep a b -> osteps_a b c -> osteps_a a c
| oa_adopt : forall a b c, adopts a b -> osteps_a b c -> osteps_a a c
| oa_purge : forall a b c, purges a b -> osteps_a b c -> osteps_a a c.

Lemma osteps_a_trans a b c : osteps_a a b -> osteps_a b c -> osteps_a a c.
Proof.
  induction 1; intros; [assumption|eapply oa_step|eapply oa_adopt|eapply oa_purge]; eauto.
Qed.
Lemma osteps_osteps_a a b : osteps a b -> osteps_a a b.
Proof. induction 1; [constructor|econstructor; eauto]. Qed.

Lemma op_adopt_dec o : (exists m1 m2, o = OpAdopt m1 m2) \/ (forall m1 m2, o <> OpAdopt m1 m2).
Proof. destruct o; try (right; intros; discriminate). left; eauto. Qed.

Theorem exec_refines_a : forall s o tp s' r log,
  exec s o tp = Some (s', r, log) -> op_level_ok o -> osteps_a (ost_of s) (ost_of s').
Proof.
  intros s o tp s' r log E Hl.
  destruct (op_adopt_dec o) as [(m1 & m2 & ->)|Ha].
  - destruct (exec_adopt_refines _ _ _ _ _ _ _ E) as [H|[Hc Hp]].
    + eapply oa_adopt; [exact H|constructor].
    + eapply oa_purge; [|constructor]. exists (sy_m s'). split; [exact Hp|].
      destruct s as [c m], s' as [c' m']. cbn [sy_c sy_m] in *. subst c'. reflexivity.
  - apply osteps_osteps_a. eapply exec_refines; [exact E|split; assumption].
Qed.

Theorem run_refines_a : forall h s,
  Forall (fun p => op_level_ok (fst p)) h -> osteps_a (ost_of s) (ost_of (run s h)).
Proof.
  induction h as [|[o tp] h IH]; intros s Hh; cbn [run]; [constructor|].
  inversion Hh; subst. cbn [fst] in *.
  destruct (exec s o tp) as [[[s' r] log]|] eqn:E; [|apply IH; assumption].
  eapply osteps_a_trans; [eapply exec_refines_a; eassumption|apply IH; assumption].
Qed.
