(* Proofs about the model of the mqtttest doubles (Mocks.v) and about the
   case checker (C20Check.v). *)
From MQ Require Import Bytes Mocks C20Check.
From Coq Require Import ZArith ZifyN ZifyNat ZifyBool Lia.
Ltac Zify.zify_post_hook ::= Z.div_mod_to_equations.

(* ---------------------------------------------------------------- basics *)

Lemma list_eqb_iff : forall a b : list N, list_eqb a b = true <-> a = b.
Proof.
  intros a b. unfold list_eqb. destruct (list_eq_dec N.eq_dec a b); split; congruence.
Qed.

Lemma list_eqb_refl : forall a : list N, list_eqb a a = true.
Proof. intros. apply list_eqb_iff. reflexivity. Qed.

Lemma errclass_eqb_iff : forall a b, errclass_eqb a b = true <-> a = b.
Proof. intros a b. unfold errclass_eqb. destruct (errclass_dec a b); split; congruence. Qed.

Lemma errclass_eqb_refl : forall a, errclass_eqb a a = true.
Proof. intros. apply errclass_eqb_iff. reflexivity. Qed.

Lemma nth_error_skipn {A} : forall (l : list A) (k : nat),
  skipn k l = match nth_error l k with Some x => x :: skipn (S k) l | None => [] end.
Proof.
  induction l as [|x l IH]; intros [|k]; try reflexivity.
  cbn [nth_error]. change (skipn (S k) (x :: l)) with (skipn k l). rewrite IH.
  destruct (nth_error l k); reflexivity.
Qed.

Lemma nth_error_skipn_nil {A} : forall (l : list A) (k : nat),
  nth_error l k = None -> skipn (S k) l = [].
Proof.
  intros l k H. apply nth_error_None in H. apply skipn_all2. lia.
Qed.

(* ---------------------------------------------------------------- Cleanup *)

(* the number of expectations is a Go int, the counter a uint64 *)
Lemma cleanup_same : forall n, cleanup n n = [].
Proof.
  intros n. unfold cleanup.
  replace ((two64 + N.of_nat n - N.of_nat n mod two64) mod two64) with 0; [reflexivity|].
  unfold two64. lia.
Qed.

Lemma cleanup_fewer : forall nwant idx,
  N.of_nat nwant < two64 -> (idx < nwant)%nat ->
  cleanup nwant idx = [FMissing (N.of_nat (nwant - idx))].
Proof.
  intros nwant idx Hw Hi. unfold cleanup.
  replace ((two64 + N.of_nat nwant - N.of_nat idx mod two64) mod two64) with (N.of_nat (nwant - idx))
    by (unfold two64 in *; lia).
  destruct (N.eqb_spec (N.of_nat (nwant - idx)) 0); [lia|reflexivity].
Qed.

(* after surplus invocations the unsigned subtraction wraps around *)
Lemma cleanup_surplus : forall nwant idx,
  N.of_nat idx < two64 -> (nwant < idx)%nat ->
  cleanup nwant idx = [FMissing (two64 - N.of_nat (idx - nwant))].
Proof.
  intros nwant idx Hw Hi. unfold cleanup.
  replace ((two64 + N.of_nat nwant - N.of_nat idx mod two64) mod two64) with (two64 - N.of_nat (idx - nwant))
    by (unfold two64 in *; lia).
  destruct (N.eqb_spec (two64 - N.of_nat (idx - nwant)) 0); [unfold two64 in *; lia|reflexivity].
Qed.

Lemma cleanup_reports_iff : forall nwant idx,
  N.of_nat nwant < two64 -> N.of_nat idx < two64 ->
  (cleanup nwant idx <> [] <-> idx <> nwant).
Proof.
  intros nwant idx Hw Hi. split.
  - intros H E. subst. apply H, cleanup_same.
  - intros H. destruct (Nat.lt_trichotomy idx nwant) as [L|[E|G]]; [|contradiction|].
    + rewrite cleanup_fewer by assumption. discriminate.
    + rewrite cleanup_surplus by assumption. discriminate.
Qed.

(* ---------------------------------------------------------------- publish mock *)

(* invocations that reach the expectation counter *)
Definition pub_consumes (c : pubcall) : bool := negb (pc_quit c).
Definition count_open (calls : list pubcall) : nat := length (filter pub_consumes calls).

(* the expectation an open-quit invocation is compared with, if any is left *)
Definition pub_deviates (want : list transfer) (k : nat) (c : pubcall) : Prop :=
  nth_error want k = None \/
  exists t, nth_error want k = Some t /\ (pc_msg c <> t_msg t \/ pc_topic c <> t_topic t).

Lemma pub_step_canceled : forall W k c,
  pc_quit c = true -> pub_step W k c = (mkres (ORet CCanceled) [], k).
Proof. intros W k c H. unfold pub_step. rewrite H. reflexivity. Qed.

Lemma pub_step_open : forall W k c,
  pc_quit c = false ->
  snd (pub_step W k c) = S k /\
  cr_out (fst (pub_step W k c)) = ORet (match nth_error W k with Some t => t_err t | None => CNil end) /\
  (cr_fails (fst (pub_step W k c)) <> [] <-> pub_deviates W k c) /\
  (forall f, In f (cr_fails (fst (pub_step W k c))) ->
     match nth_error W k with None => f = FUnwanted | Some _ => f = FMismatch end).
Proof.
  intros W k c H. unfold pub_step, pub_deviates. rewrite H.
  destruct (nth_error W k) as [t|]; cbn [fst snd cr_out cr_fails].
  - repeat split; try reflexivity.
    + destruct (list_eqb (pc_msg c) (t_msg t)) eqn:Em, (list_eqb (pc_topic c) (t_topic t)) eqn:Et;
        cbn [negb orb]; intros _; right; exists t; split; try reflexivity.
      * exfalso; auto.
      * right. intros E. apply list_eqb_iff in E. congruence.
      * left. intros E. apply list_eqb_iff in E. congruence.
      * left. intros E. apply list_eqb_iff in E. congruence.
    + intros [D|[t' [E D]]]; [discriminate|]. injection E as <-.
      destruct (list_eqb (pc_msg c) (t_msg t)) eqn:Em, (list_eqb (pc_topic c) (t_topic t)) eqn:Et;
        cbn [negb orb]; try discriminate.
      apply list_eqb_iff in Em, Et. destruct D; contradiction.
    + intros f. destruct (negb _ || negb _); cbn [In]; intros [<-|[]]; reflexivity.
  - repeat split; try reflexivity.
    + intros _. left. reflexivity.
    + intros _. discriminate.
    + intros f [<-|[]]. reflexivity.
Qed.

Lemma pub_step_ret : forall W k c, is_ret (cr_out (fst (pub_step W k c))) = true.
Proof.
  intros W k c. destruct (pc_quit c) eqn:Q.
  - rewrite pub_step_canceled by assumption. reflexivity.
  - destruct (pub_step_open W k c Q) as (_ & -> & _). reflexivity.
Qed.

Lemma pub_step_next : forall W k c,
  snd (pub_step W k c) = (k + (if pub_consumes c then 1 else 0))%nat.
Proof.
  intros W k c. unfold pub_consumes. destruct (pc_quit c) eqn:Q.
  - rewrite pub_step_canceled by assumption. cbn. lia.
  - destruct (pub_step_open W k c Q) as (-> & _). cbn. lia.
Qed.

Lemma count_open_cons : forall c l,
  count_open (c :: l) = ((if pub_consumes c then 1 else 0) + count_open l)%nat.
Proof. intros c l. unfold count_open. cbn [filter]. destruct (pub_consumes c); reflexivity. Qed.

(* the whole sequence: nothing ends it early; invocation i meets the counter
   at (number of earlier open-quit invocations) *)
Lemma pub_run_spec : forall calls W idx,
  snd (run_calls (pub_step W) idx calls) = (idx + count_open calls)%nat /\
  length (fst (run_calls (pub_step W) idx calls)) = length calls /\
  forall i c, nth_error calls i = Some c ->
    nth_error (fst (run_calls (pub_step W) idx calls)) i
    = Some (fst (pub_step W (idx + count_open (firstn i calls)) c)).
Proof.
  induction calls as [|a r IH]; intros W idx.
  - cbn. repeat split; try lia. intros [|i] c H; discriminate.
  - cbn [run_calls]. pose proof (pub_step_ret W idx a) as Hr. pose proof (pub_step_next W idx a) as Hn.
    destruct (pub_step W idx a) as [res idx'] eqn:Es. cbn [fst snd] in Hr, Hn.
    destruct (cr_out res); try discriminate.
    specialize (IH W idx'). destruct (run_calls (pub_step W) idx' r) as [rs fin]. cbn [fst snd] in *.
    destruct IH as (I1 & I2 & I3). rewrite count_open_cons. repeat split.
    + lia.
    + cbn [length]. lia.
    + intros [|i] c H.
      * cbn in H. injection H as <-. cbn [firstn nth_error]. change (count_open []) with 0%nat.
        rewrite Nat.add_0_r, Es. reflexivity.
      * cbn [nth_error firstn] in *. rewrite count_open_cons, (I3 i c H). do 3 f_equal. lia.
Qed.

Theorem publish_mock_reports_iff_proof :
  forall (want : list transfer) (calls : list pubcall),
    let obs := fst (pub_mock want calls) in
    let cl := snd (pub_mock want calls) in
    length obs = length calls /\
    (forall i c, nth_error calls i = Some c ->
       exists r, nth_error obs i = Some r /\
       let k := count_open (firstn i calls) in
       (pc_quit c = true -> r = mkres (ORet CCanceled) []) /\
       (pc_quit c = false ->
          cr_out r = ORet (match nth_error want k with Some t => t_err t | None => CNil end) /\
          (cr_fails r <> [] <-> pub_deviates want k c))) /\
    (N.of_nat (length want) < two64 -> N.of_nat (length calls) < two64 ->
       (cl <> [] <-> count_open calls <> length want) /\
       ((count_open calls < length want)%nat ->
          cl = [FMissing (N.of_nat (length want - count_open calls))])).
Proof.
  intros want calls. unfold pub_mock.
  destruct (pub_run_spec calls want 0) as (S1 & S2 & S3).
  destruct (run_calls (pub_step want) 0 calls) as [rs fin]. cbn [fst snd] in *. cbn zeta.
  rewrite Nat.add_0_l in S1. subst fin. split; [assumption|split].
  - intros i c H. eexists. split; [apply S3; assumption|]. rewrite Nat.add_0_l. split.
    + intros Q. rewrite pub_step_canceled by assumption. reflexivity.
    + intros Q. destruct (pub_step_open want (count_open (firstn i calls)) c Q) as (_ & A & B & _).
      split; assumption.
  - intros Hw Hc.
    assert (count_open calls <= length calls)%nat by (unfold count_open; apply filter_length_le).
    split.
    + apply cleanup_reports_iff; [assumption|lia].
    + intros L. apply cleanup_fewer; assumption.
Qed.

Definition call_of (t : transfer) : pubcall := mkPC false (t_msg t) (t_topic t).

(* a matching invocation sequence: silent, the scripted errors come back *)
Theorem publish_mock_silent_on_match :
  forall want : list transfer,
    pub_mock want (map call_of want) = (map (fun t => mkres (ORet (t_err t)) []) want, []).
Proof.
  intros want. unfold pub_mock.
  assert (G : forall l pre, run_calls (pub_step (pre ++ l)) (length pre) (map call_of l)
              = (map (fun t => mkres (ORet (t_err t)) []) l, length (pre ++ l))).
  { induction l as [|t l IH]; intros pre.
    - rewrite app_nil_r. reflexivity.
    - cbn [map run_calls]. unfold pub_step at 1. cbn [call_of pc_quit pc_msg pc_topic].
      rewrite nth_error_app2, Nat.sub_diag by lia. cbn [nth_error].
      rewrite !list_eqb_refl. cbn [negb orb cr_out].
      specialize (IH (pre ++ [t])). rewrite <- app_assoc, app_length in IH. cbn [app length] in IH.
      rewrite Nat.add_1_r in IH. rewrite IH. reflexivity. }
  specialize (G want []). cbn [app length] in G. rewrite G. rewrite cleanup_same. reflexivity.
Qed.
