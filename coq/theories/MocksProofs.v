(* Proofs about the model of the mqtttest doubles (Mocks.v) and about the
   case checker (C20Check.v). *)
From MQ Require Import Bytes Mocks C20Check.
From Coq Require Import ZArith ZifyN ZifyNat ZifyBool Lia.
Ltac Zify.zify_post_hook ::= Z.div_mod_to_equations.

(* ---------------------------------------------------------------- basics *)

Lemma list_eqb_iff : forall a b : list N, list_eqb a b = true <-> a = b.
Proof.
  intros a b. unfold list_eqb. destruct (list_eq_dec N.eq_dec a b); split; congruence.
Qed.

Lemma list_eqb_refl : forall a : list N, list_eqb a a = true.
Proof. intros. apply list_eqb_iff. reflexivity. Qed.

Lemma errclass_eqb_iff : forall a b, errclass_eqb a b = true <-> a = b.
Proof. intros a b. unfold errclass_eqb. destruct (errclass_dec a b); split; congruence. Qed.

Lemma errclass_eqb_refl : forall a, errclass_eqb a a = true.
Proof. intros. apply errclass_eqb_iff. reflexivity. Qed.

Lemma nth_error_skipn {A} : forall (l : list A) (k : nat),
  skipn k l = match nth_error l k with Some x => x :: skipn (S k) l | None => [] end.
Proof.
  induction l as [|x l IH]; intros [|k]; try reflexivity.
  cbn [nth_error]. change (skipn (S k) (x :: l)) with (skipn k l). rewrite IH.
  destruct (nth_error l k); reflexivity.
Qed.

Lemma nth_error_skipn_nil {A} : forall (l : list A) (k : nat),
  nth_error l k = None -> skipn (S k) l = [].
Proof.
  intros l k H. apply nth_error_None in H. apply skipn_all2. lia.
Qed.

(* ---------------------------------------------------------------- Cleanup *)

(* the number of expectations is a Go int, the counter a uint64 *)
Lemma cleanup_same : forall n, cleanup n n = [].
Proof.
  intros n. unfold cleanup.
  replace ((two64 + N.of_nat n - N.of_nat n mod two64) mod two64) with 0; [reflexivity|].
  unfold two64. lia.
Qed.

Lemma cleanup_fewer : forall nwant idx,
  N.of_nat nwant < two64 -> (idx < nwant)%nat ->
  cleanup nwant idx = [FMissing (N.of_nat (nwant - idx))].
Proof.
  intros nwant idx Hw Hi. unfold cleanup.
  replace ((two64 + N.of_nat nwant - N.of_nat idx mod two64) mod two64) with (N.of_nat (nwant - idx))
    by (unfold two64 in *; lia).
  destruct (N.eqb_spec (N.of_nat (nwant - idx)) 0); [lia|reflexivity].
Qed.

(* after surplus invocations the unsigned subtraction wraps around *)
Lemma cleanup_surplus : forall nwant idx,
  N.of_nat idx < two64 -> (nwant < idx)%nat ->
  cleanup nwant idx = [FMissing (two64 - N.of_nat (idx - nwant))].
Proof.
  intros nwant idx Hw Hi. unfold cleanup.
  replace ((two64 + N.of_nat nwant - N.of_nat idx mod two64) mod two64) with (two64 - N.of_nat (idx - nwant))
    by (unfold two64 in *; lia).
  destruct (N.eqb_spec (two64 - N.of_nat (idx - nwant)) 0); [unfold two64 in *; lia|reflexivity].
Qed.

Lemma cleanup_reports_iff : forall nwant idx,
  N.of_nat nwant < two64 -> N.of_nat idx < two64 ->
  (cleanup nwant idx <> [] <-> idx <> nwant).
Proof.
  intros nwant idx Hw Hi. split.
  - intros H E. subst. apply H, cleanup_same.
  - intros H. destruct (Nat.lt_trichotomy idx nwant) as [L|[E|G]]; [|contradiction|].
    + rewrite cleanup_fewer by assumption. discriminate.
    + rewrite cleanup_surplus by assumption. discriminate.
Qed.

(* ---------------------------------------------------------------- publish mock *)

(* invocations that reach the expectation counter *)
Definition pub_consumes (c : pubcall) : bool := negb (pc_quit c).
Definition count_open (calls : list pubcall) : nat := length (filter pub_consumes calls).

(* the expectation an open-quit invocation is compared with, if any is left *)
Definition pub_deviates (want : list transfer) (k : nat) (c : pubcall) : Prop :=
  nth_error want k = None \/
  exists t, nth_error want k = Some t /\ (pc_msg c <> t_msg t \/ pc_topic c <> t_topic t).

Lemma pub_step_canceled : forall W k c,
  pc_quit c = true -> pub_step W k c = (mkres (ORet CCanceled) [], k).
Proof. intros W k c H. unfold pub_step. rewrite H. reflexivity. Qed.

Lemma pub_step_open : forall W k c,
  pc_quit c = false ->
  snd (pub_step W k c) = S k /\
  cr_out (fst (pub_step W k c)) = ORet (match nth_error W k with Some t => t_err t | None => CNil end) /\
  (cr_fails (fst (pub_step W k c)) <> [] <-> pub_deviates W k c) /\
  (forall f, In f (cr_fails (fst (pub_step W k c))) ->
     match nth_error W k with None => f = FUnwanted | Some _ => f = FMismatch end).
Proof.
  intros W k c H. unfold pub_step, pub_deviates. rewrite H.
  destruct (nth_error W k) as [t|]; cbn [fst snd cr_out cr_fails].
  - repeat split; try reflexivity.
    + destruct (list_eqb (pc_msg c) (t_msg t)) eqn:Em, (list_eqb (pc_topic c) (t_topic t)) eqn:Et;
        cbn [negb orb]; intros Hne.
      * exfalso. apply Hne. reflexivity.
      * right. exists t. split; [reflexivity|]. right. intros E. apply list_eqb_iff in E. congruence.
      * right. exists t. split; [reflexivity|]. left. intros E. apply list_eqb_iff in E. congruence.
      * right. exists t. split; [reflexivity|]. left. intros E. apply list_eqb_iff in E. congruence.
    + intros [D|[t' [E D]]]; [discriminate|]. injection E as <-.
      destruct (list_eqb (pc_msg c) (t_msg t)) eqn:Em, (list_eqb (pc_topic c) (t_topic t)) eqn:Et;
        cbn [negb orb]; try discriminate.
      apply list_eqb_iff in Em, Et. destruct D; contradiction.
    + intros f. destruct (negb _ || negb _); cbn [In]; [intros [<-|[]]; reflexivity|intros []].
  - repeat split; try reflexivity.
    + intros _. left. reflexivity.
    + intros _. discriminate.
    + intros f [<-|[]]. reflexivity.
Qed.

Lemma pub_step_ret : forall W k c, is_ret (cr_out (fst (pub_step W k c))) = true.
Proof.
  intros W k c. destruct (pc_quit c) eqn:Q.
  - rewrite pub_step_canceled by assumption. reflexivity.
  - destruct (pub_step_open W k c Q) as (_ & -> & _). reflexivity.
Qed.

Lemma pub_step_next : forall W k c,
  snd (pub_step W k c) = (k + (if pub_consumes c then 1 else 0))%nat.
Proof.
  intros W k c. unfold pub_consumes. destruct (pc_quit c) eqn:Q.
  - rewrite pub_step_canceled by assumption. cbn. lia.
  - destruct (pub_step_open W k c Q) as (-> & _). cbn. lia.
Qed.

Lemma count_open_cons : forall c l,
  count_open (c :: l) = ((if pub_consumes c then 1 else 0) + count_open l)%nat.
Proof. intros c l. unfold count_open. cbn [filter]. destruct (pub_consumes c); reflexivity. Qed.

Lemma count_open_le : forall l, (count_open l <= length l)%nat.
Proof.
  induction l as [|c l IH]; [cbn; lia|]. rewrite count_open_cons. cbn [length].
  destruct (pub_consumes c); lia.
Qed.

(* the whole sequence: nothing ends it early; invocation i meets the counter
   at (number of earlier open-quit invocations) *)
Lemma pub_run_spec : forall calls W idx,
  snd (run_calls (pub_step W) idx calls) = (idx + count_open calls)%nat /\
  length (fst (run_calls (pub_step W) idx calls)) = length calls /\
  forall i c, nth_error calls i = Some c ->
    nth_error (fst (run_calls (pub_step W) idx calls)) i
    = Some (fst (pub_step W (idx + count_open (firstn i calls)) c)).
Proof.
  induction calls as [|a r IH]; intros W idx.
  - cbn. repeat split; try lia. intros [|i] c H; discriminate.
  - cbn [run_calls]. pose proof (pub_step_ret W idx a) as Hr. pose proof (pub_step_next W idx a) as Hn.
    destruct (pub_step W idx a) as [res idx'] eqn:Es. cbn [fst snd] in Hr, Hn.
    destruct (cr_out res); try discriminate.
    specialize (IH W idx'). destruct (run_calls (pub_step W) idx' r) as [rs fin]. cbn [fst snd] in *.
    destruct IH as (I1 & I2 & I3). rewrite count_open_cons. repeat split.
    + lia.
    + cbn [length]. lia.
    + intros [|i] c H.
      * cbn in H. injection H as <-. cbn [firstn nth_error]. change (count_open []) with 0%nat.
        rewrite Nat.add_0_r, Es. reflexivity.
      * cbn [nth_error firstn] in *. rewrite count_open_cons, (I3 i c H). do 3 f_equal. lia.
Qed.

Theorem publish_mock_reports_iff_proof :
  forall (want : list transfer) (calls : list pubcall),
    let obs := fst (pub_mock want calls) in
    let cl := snd (pub_mock want calls) in
    length obs = length calls /\
    (forall i c, nth_error calls i = Some c ->
       exists r, nth_error obs i = Some r /\
       let k := count_open (firstn i calls) in
       (pc_quit c = true -> r = mkres (ORet CCanceled) []) /\
       (pc_quit c = false ->
          cr_out r = ORet (match nth_error want k with Some t => t_err t | None => CNil end) /\
          (cr_fails r <> [] <-> pub_deviates want k c))) /\
    (N.of_nat (length want) < two64 -> N.of_nat (length calls) < two64 ->
       (cl <> [] <-> count_open calls <> length want) /\
       ((count_open calls < length want)%nat ->
          cl = [FMissing (N.of_nat (length want - count_open calls))])).
Proof.
  intros want calls. unfold pub_mock.
  destruct (pub_run_spec calls want 0) as (S1 & S2 & S3).
  destruct (run_calls (pub_step want) 0 calls) as [rs fin]. cbn [fst snd] in *. cbn zeta.
  rewrite Nat.add_0_l in S1. subst fin. split; [assumption|split].
  - intros i c H. eexists. split; [apply (S3 i c H)|]. rewrite Nat.add_0_l. split.
    + intros Q. rewrite pub_step_canceled by assumption. reflexivity.
    + intros Q. destruct (pub_step_open want (count_open (firstn i calls)) c Q) as (_ & A & B & _).
      split; assumption.
  - intros Hw Hc.
    pose proof (count_open_le calls).
    split.
    + apply cleanup_reports_iff; [assumption|lia].
    + intros L. apply cleanup_fewer; assumption.
Qed.

Definition call_of (t : transfer) : pubcall := mkPC false (t_msg t) (t_topic t).

(* a matching invocation sequence: silent, the scripted errors come back *)
Theorem publish_mock_silent_on_match :
  forall want : list transfer,
    pub_mock want (map call_of want) = (map (fun t => mkres (ORet (t_err t)) []) want, []).
Proof.
  intros want. unfold pub_mock.
  assert (G : forall l pre, run_calls (pub_step (pre ++ l)) (length pre) (map call_of l)
              = (map (fun t => mkres (ORet (t_err t)) []) l, length (pre ++ l))).
  { induction l as [|t l IH]; intros pre.
    - rewrite app_nil_r. reflexivity.
    - cbn [map run_calls]. unfold pub_step at 1. cbn [call_of pc_quit pc_msg pc_topic].
      rewrite nth_error_app2, Nat.sub_diag by lia. cbn [nth_error].
      rewrite !list_eqb_refl. cbn [negb orb cr_out].
      specialize (IH (pre ++ [t])). rewrite <- app_assoc, app_length in IH. cbn [app length] in IH.
      rewrite Nat.add_1_r in IH. rewrite IH. reflexivity. }
  specialize (G want []). cbn [app length] in G. rewrite G. rewrite cleanup_same. reflexivity.
Qed.

(* ---------------------------------------------------------------- (un)subscribe mock *)

(* What the mock takes for "the same filter set": the invocation has no repeated
   filter, and it has exactly the members of the expectation.  A repetition
   inside the expectation is immaterial (map keys). *)
Definition same_filter_set_P (want call : list bstr) : Prop :=
  NoDup call /\ forall x, In x call <-> In x want.

Lemma sub_cmp_spec : forall fs todo,
  (forall x, In x (fst (sub_cmp todo fs)) <-> In x todo /\ ~ In x fs) /\
  (snd (sub_cmp todo fs) = [] <-> NoDup fs /\ incl fs todo) /\
  (forall x, In x (snd (sub_cmp todo fs)) -> In x fs /\ (~ In x todo \/ ~ NoDup fs)).
Proof.
  induction fs as [|f r IH]; intros todo.
  - cbn. split; [|split].
    + intros x. tauto.
    + split; [intros _; split; [constructor|intros x []]|reflexivity].
    + intros x [].
  - cbn [sub_cmp]. destruct (in_dec bstr_dec f todo) as [Hin|Hout].
    + destruct (IH (remove bstr_dec f todo)) as (I1 & I2 & I3). split; [|split].
      * intros x. split.
        -- intros H. apply I1 in H. destruct H as [H1 H2]. apply in_remove in H1.
           split; [tauto|]. intros [E|E]; [subst; tauto|tauto].
        -- intros [H1 H2]. apply I1. cbn [In] in H2. split; [|tauto].
           apply in_in_remove; [|assumption]. intros E. subst. tauto.
      * split.
        -- intros H. apply I2 in H. destruct H as [N I]. split.
           ++ constructor; [|assumption]. intros F. apply I in F. apply in_remove in F. tauto.
           ++ intros x [E|E]; [subst; assumption|]. apply I in E. apply in_remove in E. tauto.
        -- intros [N I]. apply I2. inversion N; subst. split; [assumption|].
           intros x Hx. apply in_in_remove; [intros E; subst; contradiction|]. apply I. right. assumption.
      * intros x H. apply I3 in H. destruct H as [Hx [H|H]]; (split; [right; assumption|]).
        -- destruct (bstr_dec x f) as [E|E].
           ++ subst. right. intros N. inversion N; contradiction.
           ++ left. intros F. apply H. apply in_in_remove; assumption.
        -- right. intros N. inversion N; contradiction.
    + destruct (IH todo) as (I1 & I2 & I3).
      destruct (sub_cmp todo r) as [t w]. cbn [fst snd] in *. split; [|split].
      * intros x. split.
        -- intros H. apply I1 in H. destruct H as [H1 H2]. split; [assumption|].
           intros [E|E]; [subst; contradiction|contradiction].
        -- intros [H1 H2]. apply I1. cbn [In] in H2. tauto.
      * split; [discriminate|]. intros [_ I]. exfalso. apply Hout, I. left. reflexivity.
      * intros x [<-|H].
        -- split; [left; reflexivity|left; assumption].
        -- apply I3 in H. destruct H as [Hx [H|H]]; (split; [right; assumption|]); [left; assumption|].
           right. intros N. inversion N; contradiction.
Qed.

Lemma sub_fails_nil_iff : forall T fs, sub_fails T fs = [] <-> same_filter_set_P T fs.
Proof.
  intros T fs. unfold sub_fails, same_filter_set_P.
  destruct (sub_cmp_spec fs (nodup bstr_dec T)) as (I1 & I2 & _).
  destruct (sub_cmp (nodup bstr_dec T) fs) as [miss wrong]. cbn [fst snd] in *. split.
  - intros H. apply app_eq_nil in H. destruct H as [Hw Hm].
    assert (wrong = []) as -> by (destruct wrong; [reflexivity|discriminate]).
    assert (miss = []) as -> by (destruct miss; [reflexivity|discriminate]).
    destruct (proj1 I2 eq_refl) as [N I]. split; [assumption|]. intros x. split.
    + intros Hx. apply I in Hx. apply nodup_In in Hx. assumption.
    + intros Hx. destruct (in_dec bstr_dec x fs) as [|No]; [assumption|]. exfalso.
      apply (proj2 (I1 x)). split; [apply nodup_In; assumption|assumption].
  - intros [N E].
    assert (wrong = []) as ->.
    { apply I2. split; [assumption|]. intros x Hx. apply nodup_In, E, Hx. }
    assert (miss = []) as ->; [|reflexivity].
    destruct miss as [|m miss]; [reflexivity|]. exfalso.
    destruct (proj1 (I1 m) (or_introl eq_refl)) as [H1 H2]. apply H2, E. apply nodup_In in H1. assumption.
Qed.

Definition sub_deviates (want : list filterexp) (k : nat) (c : subcall) : Prop :=
  nth_error want k = None \/
  exists f, nth_error want k = Some f /\ ~ same_filter_set_P (f_topics f) (sc_filters c).

Lemma sub_step_fatal : forall W k c,
  sc_filters c = [] -> sub_step W k c = (mkres OFatal [FFatal], k).
Proof. intros W k c H. unfold sub_step. rewrite H. reflexivity. Qed.

Lemma sub_step_canceled : forall W k c,
  sc_filters c <> [] -> sc_quit c = true -> sub_step W k c = (mkres (ORet CCanceled) [], k).
Proof.
  intros W k c H Q. unfold sub_step. destruct (sc_filters c); [contradiction|]. rewrite Q. reflexivity.
Qed.

Lemma sub_step_open : forall W k c,
  sc_filters c <> [] -> sc_quit c = false ->
  snd (sub_step W k c) = S k /\
  cr_out (fst (sub_step W k c)) = ORet (match nth_error W k with Some f => f_err f | None => CNil end) /\
  (cr_fails (fst (sub_step W k c)) <> [] <-> sub_deviates W k c).
Proof.
  intros W k c H Q. unfold sub_step, sub_deviates.
  destruct (sc_filters c) as [|x fs] eqn:Ef; [contradiction|]. rewrite Q.
  destruct (nth_error W k) as [f|]; cbn [fst snd cr_out cr_fails]; repeat split.
  - intros Hne. right. exists f. split; [reflexivity|]. intros S. apply Hne, sub_fails_nil_iff, S.
  - intros [D|[f' [E D]]]; [discriminate|]. injection E as <-. intros F. apply D, sub_fails_nil_iff, F.
  - intros _. left. reflexivity.
  - discriminate.
Qed.

Definition sub_consumes (c : subcall) : bool := nonempty (sc_filters c) && negb (sc_quit c).
Definition count_sub (calls : list subcall) : nat := length (filter sub_consumes calls).

(* the invocations that take place: up to and including the first one without filters *)
Fixpoint sub_executed (calls : list subcall) : list subcall :=
  match calls with
  | [] => []
  | c :: r => match sc_filters c with [] => [c] | _ :: _ => c :: sub_executed r end
  end.

Lemma count_sub_cons : forall c l,
  count_sub (c :: l) = ((if sub_consumes c then 1 else 0) + count_sub l)%nat.
Proof. intros c l. unfold count_sub. cbn [filter]. destruct (sub_consumes c); reflexivity. Qed.

Lemma count_sub_le : forall l, (count_sub l <= length l)%nat.
Proof.
  induction l as [|c l IH]; [cbn; lia|]. rewrite count_sub_cons. cbn [length].
  destruct (sub_consumes c); lia.
Qed.

Lemma sub_executed_le : forall l, (length (sub_executed l) <= length l)%nat.
Proof.
  induction l as [|c l IH]; [cbn; lia|]. cbn [sub_executed]. destruct (sc_filters c); cbn [length]; lia.
Qed.

Lemma sub_run_spec : forall calls W idx,
  snd (run_calls (sub_step W) idx calls) = (idx + count_sub (sub_executed calls))%nat /\
  length (fst (run_calls (sub_step W) idx calls)) = length (sub_executed calls) /\
  forall i c, nth_error (sub_executed calls) i = Some c ->
    nth_error (fst (run_calls (sub_step W) idx calls)) i
    = Some (fst (sub_step W (idx + count_sub (firstn i (sub_executed calls))) c)).
Proof.
  induction calls as [|a r IH]; intros W idx.
  - cbn. repeat split; try lia. intros [|i] c H; discriminate.
  - cbn [run_calls sub_executed]. destruct (sc_filters a) as [|x fs] eqn:Ef.
    + rewrite sub_step_fatal by assumption. cbn [cr_out fst snd length].
      rewrite count_sub_cons. unfold sub_consumes. rewrite Ef. cbn. repeat split; try lia.
      intros [|i] c H; [|destruct i; discriminate]. injection H as <-. cbn.
      rewrite sub_step_fatal by assumption. reflexivity.
    + assert (Hne : sc_filters a <> []) by (rewrite Ef; discriminate).
      assert (Hs : exists e, sub_step W idx a = (mkres (ORet e) (cr_fails (fst (sub_step W idx a))),
                                                 (idx + (if sub_consumes a then 1 else 0))%nat)).
      { unfold sub_consumes. rewrite Ef. cbn [nonempty andb]. destruct (sc_quit a) eqn:Q.
        - rewrite sub_step_canceled by assumption. eexists. cbn. rewrite Nat.add_0_r. reflexivity.
        - destruct (sub_step_open W idx a Hne Q) as (A & B & _).
          destruct (sub_step W idx a) as [[o fl] n]. cbn in *. subst. eexists. rewrite Nat.add_1_r. reflexivity. }
      destruct Hs as [e Hs]. rewrite Hs. cbn [cr_out].
      specialize (IH W (idx + (if sub_consumes a then 1 else 0))%nat).
      destruct (run_calls (sub_step W) _ r) as [rs fin]. cbn [fst snd] in *.
      destruct IH as (I1 & I2 & I3). rewrite count_sub_cons. repeat split.
      * lia.
      * cbn [length]. lia.
      * intros [|i] c H.
        -- cbn in H. injection H as <-. cbn [firstn nth_error]. change (count_sub []) with 0%nat.
           rewrite Nat.add_0_r, Hs. reflexivity.
        -- cbn [nth_error firstn] in *. rewrite count_sub_cons, (I3 i c H). do 3 f_equal. lia.
Qed.

Theorem subscribe_mock_reports_iff_proof :
  forall (want : list filterexp) (calls : list subcall),
    let obs := fst (sub_mock want calls) in
    let cl := snd (sub_mock want calls) in
    let ex := sub_executed calls in
    length obs = length ex /\
    (forall i c, nth_error ex i = Some c ->
       exists r, nth_error obs i = Some r /\
       let k := count_sub (firstn i ex) in
       (sc_filters c = [] -> r = mkres OFatal [FFatal]) /\
       (sc_filters c <> [] -> sc_quit c = true -> r = mkres (ORet CCanceled) []) /\
       (sc_filters c <> [] -> sc_quit c = false ->
          cr_out r = ORet (match nth_error want k with Some f => f_err f | None => CNil end) /\
          (cr_fails r <> [] <-> sub_deviates want k c))) /\
    (N.of_nat (length want) < two64 -> N.of_nat (length calls) < two64 ->
       (cl <> [] <-> count_sub ex <> length want) /\
       ((count_sub ex < length want)%nat ->
          cl = [FMissing (N.of_nat (length want - count_sub ex))])).
Proof.
  intros want calls. unfold sub_mock.
  destruct (sub_run_spec calls want 0) as (S1 & S2 & S3).
  destruct (run_calls (sub_step want) 0 calls) as [rs fin]. cbn [fst snd] in *. cbn zeta.
  rewrite Nat.add_0_l in S1. subst fin. split; [assumption|split].
  - intros i c H. eexists. split; [apply (S3 i c H)|]. rewrite Nat.add_0_l. repeat split.
    + intros E. rewrite sub_step_fatal by assumption. reflexivity.
    + intros E Q. rewrite sub_step_canceled by assumption. reflexivity.
    + destruct (sub_step_open want (count_sub (firstn i (sub_executed calls))) c H0 H1) as (_ & A & _).
      assumption.
    + destruct (sub_step_open want (count_sub (firstn i (sub_executed calls))) c H0 H1) as (_ & _ & B).
      apply B.
    + destruct (sub_step_open want (count_sub (firstn i (sub_executed calls))) c H0 H1) as (_ & _ & B).
      apply B.
  - intros Hw Hc.
    pose proof (count_sub_le (sub_executed calls)). pose proof (sub_executed_le calls).
    split.
    + apply cleanup_reports_iff; [assumption|lia].
    + intros L. apply cleanup_fewer; assumption.
Qed.

Definition subcall_of (f : filterexp) : subcall := mkSC false (f_topics f).

(* a matching invocation sequence (same filters, in any order, none repeated): silent *)
Theorem subscribe_mock_silent_on_match :
  forall (want : list filterexp) (calls : list subcall),
    Forall2 (fun f c => sc_quit c = false /\ sc_filters c <> [] /\
                        same_filter_set_P (f_topics f) (sc_filters c)) want calls ->
    sub_mock want calls = (map (fun f => mkres (ORet (f_err f)) []) want, []).
Proof.
  intros want calls F. unfold sub_mock.
  assert (G : forall l cs, Forall2 (fun f c => sc_quit c = false /\ sc_filters c <> [] /\
                        same_filter_set_P (f_topics f) (sc_filters c)) l cs ->
              forall pre, run_calls (sub_step (pre ++ l)) (length pre) cs
              = (map (fun f => mkres (ORet (f_err f)) []) l, length (pre ++ l))).
  { induction 1 as [|f c l cs (Q & Ne & Sm) Hl IH]; intros pre.
    - rewrite app_nil_r. reflexivity.
    - cbn [map run_calls]. unfold sub_step at 1.
      destruct (sc_filters c) as [|x fs] eqn:Ef; [contradiction|]. rewrite Q.
      rewrite nth_error_app2, Nat.sub_diag by lia. cbn [nth_error cr_out].
      apply sub_fails_nil_iff in Sm. rewrite Sm.
      specialize (IH (pre ++ [f])). rewrite <- app_assoc, app_length in IH. cbn [app length] in IH.
      rewrite Nat.add_1_r in IH. rewrite IH. reflexivity. }
  specialize (G want calls F []). cbn [app length] in G. rewrite G. rewrite cleanup_same. reflexivity.
Qed.

(* ---------------------------------------------------------------- ReadSlices mock and stub *)

Lemma rs_run_spec : forall n W idx,
  snd (rs_run W idx n) = (idx + n)%nat /\
  length (fst (rs_run W idx n)) = n /\
  forall i, (i < n)%nat -> nth_error (fst (rs_run W idx n)) i = Some (fst (rs_step W (idx + i))).
Proof.
  induction n as [|n IH]; intros W idx.
  - cbn. repeat split; intros; lia.
  - cbn [rs_run]. assert (Hs : snd (rs_step W idx) = S idx) by (unfold rs_step; destruct (nth_error W idx); reflexivity).
    destruct (rs_step W idx) as [r idx'] eqn:Es. cbn [snd] in Hs. subst idx'.
    specialize (IH W (S idx)). destruct (rs_run W (S idx) n) as [rs fin]. cbn [fst snd] in *.
    destruct IH as (I1 & I2 & I3). split; [lia|split; [cbn [length]; lia|]].
    intros [|i] Hi.
    + cbn [nth_error]. rewrite Nat.add_0_r, Es. reflexivity.
    + cbn [nth_error]. rewrite I3 by lia. do 3 f_equal. lia.
Qed.

Theorem readslices_mock_reports_iff_proof :
  forall (want : list transfer) (n : nat),
    let obs := fst (rs_mock want n) in
    let cl := snd (rs_mock want n) in
    length obs = n /\
    (forall i, (i < n)%nat ->
       exists r, nth_error obs i = Some r /\
       match nth_error want i with
       | Some t => r = mkRs (t_msg t) (t_topic t) (t_err t) []      (* in order, silent *)
       | None => rs_fails r = [FUnwanted] /\ rs_err r <> CNil       (* surplus *)
       end) /\
    (N.of_nat (length want) < two64 -> N.of_nat n < two64 ->
       (cl <> [] <-> n <> length want) /\
       ((n < length want)%nat -> cl = [FMissing (N.of_nat (length want - n))])).
Proof.
  intros want n. unfold rs_mock.
  destruct (rs_run_spec n want 0) as (S1 & S2 & S3).
  destruct (rs_run want 0 n) as [rs fin]. cbn [fst snd] in *. cbn zeta.
  rewrite Nat.add_0_l in S1. subst fin. split; [assumption|split].
  - intros i Hi. eexists. split; [apply S3; assumption|]. rewrite Nat.add_0_l. unfold rs_step.
    destruct (nth_error want i); cbn; [reflexivity|split; [reflexivity|discriminate]].
  - intros Hw Hn. split.
    + apply cleanup_reports_iff; assumption.
    + intros L. apply cleanup_fewer; assumption.
Qed.

(* the stub is a constant: nothing an invocation (or its caller) does can show in the next one *)
Theorem readslices_stub_stateless :
  forall fx : transfer, rs_stub fx = mkRs (t_msg fx) (t_topic fx) (t_err fx) [].
Proof. reflexivity. Qed.

(* ---------------------------------------------------------------- quit *)

(* Every double that takes a quit channel: closed quit => ErrCanceled, silently,
   and (mocks) without consuming an expectation.  The (un)subscribe doubles check
   for "no filters" first. *)
Theorem quit_closed_cancels_proof :
  (forall W k c, pc_quit c = true -> pub_step W k c = (mkres (ORet CCanceled) [], k)) /\
  (forall W k c, sc_filters c <> [] -> sc_quit c = true ->
     sub_step W k c = (mkres (ORet CCanceled) [], k)) /\
  (forall fx, pub_stub fx true = ORet CCanceled) /\
  (forall fx fs, fs <> [] -> sub_stub fx true fs = ORet CCanceled) /\
  (* and an open quit hands out the fixed value *)
  (forall fx, pub_stub fx false = ORet fx) /\
  (forall fx fs, fs <> [] -> sub_stub fx false fs = ORet fx).
Proof.
  split; [exact pub_step_canceled|split; [exact sub_step_canceled|]].
  repeat split; intros; try reflexivity; destruct fs; try contradiction; reflexivity.
Qed.

(* canceled invocations in a whole sequence leave everything else as it was *)
Theorem canceled_calls_are_invisible :
  forall W calls idx,
    snd (run_calls (pub_step W) idx calls) = snd (run_calls (pub_step W) idx (filter pub_consumes calls)).
Proof.
  intros W calls idx.
  destruct (pub_run_spec calls W idx) as (-> & _). destruct (pub_run_spec (filter pub_consumes calls) W idx) as (-> & _).
  f_equal. unfold count_open. clear. induction calls as [|c l IH]; [reflexivity|].
  cbn [filter]. destruct (pub_consumes c) eqn:E; [|assumption]. cbn [filter]. rewrite E. cbn [length]. congruence.
Qed.

(* ---------------------------------------------------------------- exchange stub *)

Lemma stops_open_last : forall e r,
  ends_open (e :: r) = match r with [] => stops_open e | _ :: _ => ends_open r end.
Proof. intros e [|x r]; reflexivity. Qed.

Lemma exch_go_spec : forall s,
  entries_ok s = true ->
  exch_go s = (filter deliverable s, if ends_open s then LeftOpen else Closed).
Proof.
  induction s as [|e r IH]; [reflexivity|].
  cbn [entries_ok exch_go filter]. rewrite stops_open_last. unfold deliverable at 1, stops_open.
  destruct (kind_of e) eqn:K; intros H; try discriminate.
  - rewrite (IH H). destruct r; reflexivity.
  - destruct r; [reflexivity|discriminate].
  - destruct r; [reflexivity|discriminate].
  - rewrite (IH H). destruct r; reflexivity.
Qed.

Theorem exchange_script_proof :
  forall s : list errclass,
    script_accepted CNil s = true ->
    exch_stub CNil s = ExChan (filter deliverable s) (if ends_open s then LeftOpen else Closed).
Proof.
  intros s H. unfold exch_stub. rewrite H. cbn in H. rewrite (exch_go_spec s H). reflexivity.
Qed.

(* with a non-nil first result there is no channel at all *)
Theorem exchange_errfix :
  forall (c : errclass) (s : list errclass),
    c <> CNil -> script_accepted c s = true -> s = [] /\ exch_stub c s = ExErr c.
Proof.
  intros c s Hc H. unfold exch_stub. rewrite H.
  destruct c; try contradiction; destruct s; try discriminate; split; reflexivity.
Qed.

(* the channel buffer (capacity = script length) is never exceeded: no send blocks *)
Theorem exchange_never_blocks :
  forall s, (length (fst (exch_go s)) <= length s)%nat.
Proof.
  induction s as [|e r IH]; [cbn; lia|]. cbn [exch_go].
  destruct (kind_of e); try (destruct (exch_go r)); cbn [fst length] in *; lia.
Qed.

(* the constructor's check, said differently *)
Lemma entries_ok_wellformed : forall s, entries_ok s = script_wellformed CNil s.
Proof.
  unfold script_wellformed.
  induction s as [|e r IH]; [reflexivity|].
  cbn [entries_ok forallb]. destruct r as [|x r].
  - cbn. destruct e; reflexivity.
  - change (removelast (e :: x :: r)) with (e :: removelast (x :: r)). cbn [existsb].
    rewrite negb_orb. unfold stops_open at 1. rewrite IH.
    destruct e; cbn; try reflexivity; try (destruct (forallb _ _ && negb _); reflexivity);
      rewrite ?andb_false_r; reflexivity.
Qed.

Lemma script_accepted_wellformed : forall c s, script_accepted c s = script_wellformed c s.
Proof.
  intros c s. destruct c; try (destruct s; reflexivity). apply entries_ok_wellformed.
Qed.

(* ---------------------------------------------------------------- no panic *)

Theorem no_panic_proof :
  (* publish mock: every invocation returns *)
  (forall want calls, Forall (fun r => is_ret (cr_out r) = true) (fst (pub_mock want calls))) /\
  (* (un)subscribe mock: returns, or Fatalf exactly for an invocation without filters *)
  (forall W k c, cr_out (fst (sub_step W k c)) <> OPanic /\
                 (cr_out (fst (sub_step W k c)) = OFatal <-> sc_filters c = [])) /\
  (forall want calls, Forall (fun r => cr_out r <> OPanic) (fst (sub_mock want calls))) /\
  (* stubs: only the documented panic *)
  (forall fx q, pub_stub fx q <> OPanic) /\
  (forall fx q fs, sub_stub fx q fs = OPanic <-> fs = []) /\
  (* exchange stub: the constructor panics exactly on the scripts it documents *)
  (forall c s, exch_stub c s = ExRejected <-> script_wellformed c s = false).
Proof.
  assert (Hsub : forall W k c, cr_out (fst (sub_step W k c)) <> OPanic /\
                 (cr_out (fst (sub_step W k c)) = OFatal <-> sc_filters c = [])).
  { intros W k c. unfold sub_step. destruct (sc_filters c) eqn:Ef.
    - cbn. split; [discriminate|tauto].
    - destruct (sc_quit c); [|destruct (nth_error W k)]; cbn; (split; [discriminate|split; discriminate]). }
  split; [|split; [exact Hsub|split; [|split; [|split]]]].
  - intros want calls. unfold pub_mock.
    destruct (pub_run_spec calls want 0) as (_ & S2 & S3).
    destruct (run_calls (pub_step want) 0 calls) as [rs fin]. cbn [fst snd] in *.
    apply Forall_forall. intros r Hr. apply In_nth_error in Hr. destruct Hr as [i Hi].
    assert (i < length calls)%nat by (rewrite <- S2; apply nth_error_Some; congruence).
    destruct (nth_error calls i) as [c|] eqn:Ec; [|apply nth_error_None in Ec; lia].
    rewrite (S3 i c Ec) in Hi. injection Hi as <-. apply pub_step_ret.
  - intros want calls. unfold sub_mock.
    destruct (sub_run_spec calls want 0) as (_ & S2 & S3).
    destruct (run_calls (sub_step want) 0 calls) as [rs fin]. cbn [fst snd] in *.
    apply Forall_forall. intros r Hr. apply In_nth_error in Hr. destruct Hr as [i Hi].
    assert (i < length (sub_executed calls))%nat by (rewrite <- S2; apply nth_error_Some; congruence).
    destruct (nth_error (sub_executed calls) i) as [c|] eqn:Ec; [|apply nth_error_None in Ec; lia].
    rewrite (S3 i c Ec) in Hi. injection Hi as <-. apply Hsub.
  - intros fx q. discriminate.
  - intros fx q fs. destruct fs; cbn; split; try discriminate; reflexivity.
  - intros c s. unfold exch_stub. rewrite <- script_accepted_wellformed.
    destruct (script_accepted c s); [|tauto].
    split; [|discriminate]. destruct c; try discriminate. destruct (exch_go s). discriminate.
Qed.

(* ---------------------------------------------------------------- the case checker accepts the model *)

Lemma bs_mem_iff : forall x l, bs_mem x l = true <-> In x l.
Proof. intros x l. unfold bs_mem. destruct (in_dec bstr_dec x l); split; congruence. Qed.

Lemma bs_incl_iff : forall a b, bs_incl a b = true <-> incl a b.
Proof.
  intros a b. unfold bs_incl. rewrite forallb_forall. split.
  - intros H x Hx. apply bs_mem_iff, H, Hx.
  - intros H x Hx. apply bs_mem_iff, H, Hx.
Qed.

Lemma bs_nodup_iff : forall l, bs_nodup l = true <-> NoDup l.
Proof.
  induction l as [|x l IH]; cbn [bs_nodup].
  - split; [constructor|reflexivity].
  - rewrite andb_true_iff, negb_true_iff, IH. split.
    + intros [M N]. constructor; [|assumption]. intros F. apply bs_mem_iff in F. congruence.
    + intros N. inversion N; subst. split; [|assumption].
      destruct (bs_mem x l) eqn:E; [|reflexivity]. apply bs_mem_iff in E. contradiction.
Qed.

Lemma same_filter_set_iff : forall T fs, same_filter_set T fs = true <-> same_filter_set_P T fs.
Proof.
  intros T fs. unfold same_filter_set, same_filter_set_P.
  rewrite !andb_true_iff, bs_nodup_iff, !bs_incl_iff. unfold incl. split.
  - intros [[N A] B]. split; [assumption|]. intros x. split; auto.
  - intros [N E]. repeat split; try assumption; intros x Hx; apply E, Hx.
Qed.

Lemma sub_fails_bool : forall T fs, negb (nonempty (sub_fails T fs)) = same_filter_set T fs.
Proof.
  intros T fs. destruct (same_filter_set T fs) eqn:E.
  - apply same_filter_set_iff, sub_fails_nil_iff in E. rewrite E. reflexivity.
  - destruct (sub_fails T fs) eqn:F; [|reflexivity]. exfalso.
    apply sub_fails_nil_iff, same_filter_set_iff in F. congruence.
Qed.

Lemma all2_errclass_refl : forall l, all2 errclass_eqb l l = true.
Proof. induction l as [|x l IH]; [reflexivity|]. cbn. rewrite errclass_eqb_refl. assumption. Qed.

Lemma cleanup_ok_sound {E} : forall (W : list E) fin sur,
  N.of_nat (length W) < two64 -> ((length W < fin)%nat -> sur = true) ->
  cleanup_ok (skipn fin W) sur (cleanup (length W) fin) = true.
Proof.
  intros W fin sur Hw Hs. unfold cleanup_ok.
  pose proof (skipn_length fin W) as L. destruct (skipn fin W) as [|x rest].
  - cbn [length] in L. destruct (Nat.eq_dec fin (length W)) as [->|Ne].
    + rewrite cleanup_same. apply orb_true_r.
    + rewrite Hs by lia. reflexivity.
  - cbn [length] in L. rewrite cleanup_fewer by (try assumption; lia).
    cbn [all2 failure_eqb length]. rewrite L, N.eqb_refl. reflexivity.
Qed.

Lemma pub_step_some : forall W k c t,
  pc_quit c = false -> nth_error W k = Some t ->
  pub_step W k c = (mkres (ORet (t_err t))
                      (if negb (list_eqb (pc_msg c) (t_msg t)) || negb (list_eqb (pc_topic c) (t_topic t))
                       then [FMismatch] else []), S k).
Proof. intros W k c t Q E. unfold pub_step. rewrite Q, E. reflexivity. Qed.

Lemma pub_step_none : forall W k c,
  pc_quit c = false -> nth_error W k = None ->
  pub_step W k c = (mkres (ORet CNil) [FUnwanted], S k).
Proof. intros W k c Q E. unfold pub_step. rewrite Q, E. reflexivity. Qed.

Lemma sub_step_some : forall W k c f,
  sc_filters c <> [] -> sc_quit c = false -> nth_error W k = Some f ->
  sub_step W k c = (mkres (ORet (f_err f)) (sub_fails (f_topics f) (sc_filters c)), S k).
Proof.
  intros W k c f N Q E. unfold sub_step. destruct (sc_filters c); [contradiction|]. rewrite Q, E. reflexivity.
Qed.

Lemma sub_step_none : forall W k c,
  sc_filters c <> [] -> sc_quit c = false -> nth_error W k = None ->
  sub_step W k c = (mkres (ORet CNil) [FUnwanted], S k).
Proof.
  intros W k c N Q E. unfold sub_step. destruct (sc_filters c); [contradiction|]. rewrite Q, E. reflexivity.
Qed.

Lemma pub_sound_aux : forall calls W idx sur,
  ((length W < idx)%nat -> sur = true) ->
  exists sur',
    pub_ok_calls (skipn idx W) sur calls (fst (run_calls (pub_step W) idx calls))
    = Some (skipn (snd (run_calls (pub_step W) idx calls)) W, sur') /\
    ((length W < snd (run_calls (pub_step W) idx calls))%nat -> sur' = true).
Proof.
  induction calls as [|a r IH]; intros W idx sur Hs.
  - cbn. exists sur. split; [reflexivity|assumption].
  - cbn [run_calls]. destruct (pc_quit a) eqn:Q.
    + rewrite pub_step_canceled by assumption. cbn [cr_out].
      destruct (IH W idx sur Hs) as (sur' & I1 & I2).
      destruct (run_calls (pub_step W) idx r) as [rs fin]. cbn [fst snd] in *.
      exists sur'. split; [|assumption]. cbn [pub_ok_calls]. rewrite Q. cbn. assumption.
    + rewrite (nth_error_skipn W idx).
      destruct (nth_error W idx) as [t|] eqn:En.
      * rewrite (pub_step_some W idx a t Q En). cbn [cr_out].
        assert (Hs' : (length W < S idx)%nat -> sur = true).
        { intros L. assert (idx < length W)%nat by (apply nth_error_Some; congruence). lia. }
        destruct (IH W (S idx) sur Hs') as (sur' & I1 & I2).
        destruct (run_calls (pub_step W) (S idx) r) as [rs fin]. cbn [fst snd] in *.
        exists sur'. split; [|assumption]. cbn [pub_ok_calls]. rewrite Q. cbn [cr_out cr_fails].
        cbn [outcome_eqb]. rewrite errclass_eqb_refl. cbn [andb].
        replace (Bool.eqb _ _) with true; [assumption|].
        unfold no_fail. cbn [cr_fails].
        destruct (list_eqb (pc_msg a) (t_msg t)), (list_eqb (pc_topic a) (t_topic t)); reflexivity.
      * rewrite (pub_step_none W idx a Q En). cbn [cr_out].
        destruct (IH W (S idx) true (fun _ => eq_refl)) as (sur' & I1 & I2).
        rewrite (nth_error_skipn_nil W idx En) in I1.
        destruct (run_calls (pub_step W) (S idx) r) as [rs fin]. cbn [fst snd] in *.
        exists sur'. split; [|assumption]. cbn [pub_ok_calls]. rewrite Q. cbn. assumption.
Qed.

Theorem pub_checker_sound :
  forall want calls, N.of_nat (length want) < two64 ->
    c20_ok (PubMockCase want calls (fst (pub_mock want calls)) (snd (pub_mock want calls))) = true.
Proof.
  intros want calls Hw. unfold c20_ok, pub_mock.
  destruct (pub_sound_aux calls want 0 false) as (sur' & I1 & I2); [lia|].
  destruct (run_calls (pub_step want) 0 calls) as [rs fin]. cbn [fst snd skipn] in *.
  rewrite I1. cbn [finish]. apply cleanup_ok_sound; assumption.
Qed.

Lemma sub_sound_aux : forall calls W idx sur,
  ((length W < idx)%nat -> sur = true) ->
  exists sur',
    sub_ok_calls (skipn idx W) sur calls (fst (run_calls (sub_step W) idx calls))
    = Some (skipn (snd (run_calls (sub_step W) idx calls)) W, sur') /\
    ((length W < snd (run_calls (sub_step W) idx calls))%nat -> sur' = true).
Proof.
  induction calls as [|a r IH]; intros W idx sur Hs.
  - cbn. exists sur. split; [reflexivity|assumption].
  - cbn [run_calls]. destruct (sc_filters a) as [|x fs] eqn:Ef.
    { rewrite sub_step_fatal by assumption. cbn [cr_out fst snd sub_ok_calls]. rewrite Ef. cbn.
      exists sur. split; [reflexivity|assumption]. }
    assert (Hne : sc_filters a <> []) by (rewrite Ef; discriminate).
    destruct (sc_quit a) eqn:Q.
    + rewrite sub_step_canceled by assumption. cbn [cr_out].
      destruct (IH W idx sur Hs) as (sur' & I1 & I2).
      destruct (run_calls (sub_step W) idx r) as [rs fin]. cbn [fst snd] in *.
      exists sur'. split; [|assumption]. cbn [sub_ok_calls]. rewrite Ef, Q. cbn. assumption.
    + rewrite (nth_error_skipn W idx).
      destruct (nth_error W idx) as [f|] eqn:En.
      * rewrite (sub_step_some W idx a f Hne Q En). cbn [cr_out].
        assert (Hs' : (length W < S idx)%nat -> sur = true).
        { intros L. assert (idx < length W)%nat by (apply nth_error_Some; congruence). lia. }
        destruct (IH W (S idx) sur Hs') as (sur' & I1 & I2).
        destruct (run_calls (sub_step W) (S idx) r) as [rs fin]. cbn [fst snd] in *.
        exists sur'. split; [|assumption]. cbn [sub_ok_calls]. rewrite Ef, Q. cbn [cr_out cr_fails].
        cbn [outcome_eqb]. rewrite errclass_eqb_refl. cbn [andb].
        unfold no_fail. cbn [cr_fails]. rewrite sub_fails_bool, eqb_reflx. assumption.
      * rewrite (sub_step_none W idx a Hne Q En). cbn [cr_out].
        destruct (IH W (S idx) true (fun _ => eq_refl)) as (sur' & I1 & I2).
        rewrite (nth_error_skipn_nil W idx En) in I1.
        destruct (run_calls (sub_step W) (S idx) r) as [rs fin]. cbn [fst snd] in *.
        exists sur'. split; [|assumption]. cbn [sub_ok_calls]. rewrite Ef, Q. cbn. assumption.
Qed.

Theorem sub_checker_sound :
  forall unsub want calls, N.of_nat (length want) < two64 ->
    c20_ok (SubMockCase unsub want calls (fst (sub_mock want calls)) (snd (sub_mock want calls))) = true.
Proof.
  intros unsub want calls Hw. unfold c20_ok, sub_mock.
  destruct (sub_sound_aux calls want 0 false) as (sur' & I1 & I2); [lia|].
  destruct (run_calls (sub_step want) 0 calls) as [rs fin]. cbn [fst snd skipn] in *.
  rewrite I1. cbn [finish]. apply cleanup_ok_sound; assumption.
Qed.

Lemma rs_sound_aux : forall n W idx sur,
  ((length W < idx)%nat -> sur = true) ->
  exists sur',
    rs_ok_calls (skipn idx W) sur n (fst (rs_run W idx n)) = Some (skipn (snd (rs_run W idx n)) W, sur') /\
    ((length W < snd (rs_run W idx n))%nat -> sur' = true).
Proof.
  induction n as [|n IH]; intros W idx sur Hs.
  - cbn. exists sur. split; [reflexivity|assumption].
  - cbn [rs_run]. unfold rs_step. rewrite (nth_error_skipn W idx).
    destruct (nth_error W idx) as [t|] eqn:En.
    + assert (Hs' : (length W < S idx)%nat -> sur = true).
      { intros L. assert (idx < length W)%nat by (apply nth_error_Some; congruence). lia. }
      destruct (IH W (S idx) sur Hs') as (sur' & I1 & I2).
      destruct (rs_run W (S idx) n) as [rs fin]. cbn [fst snd] in *.
      exists sur'. split; [|assumption]. cbn [rs_ok_calls]. unfold rs_stub, rsres_eqb.
      cbn [rs_msg rs_topic rs_err rs_fails all2]. rewrite !list_eqb_refl, errclass_eqb_refl. cbn. assumption.
    + destruct (IH W (S idx) true (fun _ => eq_refl)) as (sur' & I1 & I2).
      rewrite (nth_error_skipn_nil W idx En) in I1.
      destruct (rs_run W (S idx) n) as [rs fin]. cbn [fst snd] in *.
      exists sur'. split; [|assumption]. cbn. assumption.
Qed.

Theorem rs_checker_sound :
  forall want n, N.of_nat (length want) < two64 ->
    c20_ok (RsMockCase want n (fst (rs_mock want n)) (snd (rs_mock want n))) = true.
Proof.
  intros want n Hw. unfold c20_ok, rs_mock.
  destruct (rs_sound_aux n want 0 false) as (sur' & I1 & I2); [lia|].
  destruct (rs_run want 0 n) as [rs fin]. cbn [fst snd skipn] in *.
  rewrite I1. cbn [finish]. apply cleanup_ok_sound; assumption.
Qed.

(* what an observer of the model's exchange stub would write down *)
Definition exch_obs_of (r : exch_result) : exch_obs :=
  match r with
  | ExRejected => XPanic
  | ExErr c => XErr c true
  | ExChan ev fin => XChan ev (match fin with Closed => true | LeftOpen => false end)
  end.

Theorem exch_checker_sound :
  forall ef s, c20_ok (ExchCase ef s [exch_obs_of (exch_stub ef s)]) = true.
Proof.
  intros ef s. unfold c20_ok. cbn [nonempty forallb andb]. rewrite andb_true_r.
  unfold exch_stub. pose proof (script_accepted_wellformed ef s) as Hw.
  destruct (script_accepted ef s) eqn:Ha.
  - destruct ef.
    1: { cbn in Ha. rewrite (exch_go_spec s Ha). cbn [exch_obs_of exch_obs_ok]. rewrite <- Hw.
         rewrite all2_errclass_refl. destruct (ends_open s); reflexivity. }
    all: cbn [exch_obs_of exch_obs_ok]; rewrite <- Hw; rewrite errclass_eqb_refl; reflexivity.
  - cbn [exch_obs_of exch_obs_ok]. rewrite <- Hw. reflexivity.
Qed.

Theorem stub_checker_sound :
  (forall fx q, c20_ok (PubStubCase fx q (pub_stub fx q)) = true) /\
  (forall u fx q fs, c20_ok (SubStubCase u fx q fs (sub_stub fx q fs)) = true) /\
  (forall fx n, c20_ok (RsStubCase fx (repeat (rs_stub fx) n)) = true).
Proof.
  split; [|split].
  - intros fx q. cbn. apply errclass_eqb_refl.
  - intros u fx q [|x fs]; cbn; [reflexivity|apply errclass_eqb_refl].
  - intros fx n. cbn [c20_ok]. apply forallb_forall. intros o Ho. apply repeat_spec in Ho. subst.
    unfold rs_stub, rsres_eqb. cbn [rs_msg rs_topic rs_err rs_fails all2].
    rewrite !list_eqb_refl, errclass_eqb_refl. reflexivity.
Qed.
