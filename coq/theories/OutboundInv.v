(* L2, abstract layer: the invariants of the outbound bookkeeping (Outbound.v) and what
   C01 C03 C05 C17 need from them.

   Deviations from the invariant [OInv] as written in Outbound.v (both proved below to be
   real: [OInv_ord_fails_reachable], [OInv_not_inductive]):

   (D1) [oi_ord1/oi_ord2r/oi_ord2p] quantify over every [sq] with [holds m k p sq].
        [le64] keeps the low 64 bits only, so [encode_value p (sq + 2^64) = encode_value p sq]
        and [holds] does not determine [sq]; the three clauses are false in every state
        with two records in one group (reachable: two accepted publications).
        [OInv_fixed] bounds the storage numbers of these clauses: [sq < M64 -> sq' < M64 ->].
   (D2) [OS_ack1] and [OS_rec2] are guarded by the queue only; [OInv] says nothing about
        the queues once [o_term] is set, so [OInv] is not inductive (the offending states
        are not reachable).  [OInv_fixed] adds
        [oi_qt : o_term st = true -> o_q1 st = [] /\ o_q2 st = []].
   (D3) side conditions of the working invariant [OInv']: the Persistence keys are
        strictly ascending ([sorted_keys], needed because [store_del] removes the first
        binding only) and the storage counter has not left the 64 bits of a record
        ([o_rseq st < M64]); the step theorem therefore asks [o_rseq st' < M64]. *)
From Coq Require Import ZArith ZifyN ZifyNat ZifyBool Lia.
From RecordUpdate Require Import RecordUpdate.
From MQ Require Import RecordProofs.
From MQ Require Export Outbound.
Ltac Zify.zify_post_hook ::= Z.div_mod_to_equations.

#[local] Arguments key1 : simpl never.
#[local] Arguments key2 : simpl never.
#[local] Arguments in_space : simpl never.
#[local] Arguments holds : simpl never.
#[local] Arguments len : simpl never.
#[local] Arguments encode_value : simpl never.
#[local] Arguments pub1_packet : simpl never.
#[local] Arguments pub2_packet : simpl never.
#[local] Arguments packet_pubrel : simpl never.
#[local] Arguments topic_check : simpl never.
#[local] Arguments publish_size : simpl never.
#[local] Arguments N.testbit : simpl never.
#[local] Arguments N.max : simpl never.

(* ================================================================== *)
(* 1. Store algebra                                                    *)

(* strictly ascending keys *)
Fixpoint sorted_keys (m : store) : Prop :=
  match m with
  | [] => True
  | (k, _) :: r => (forall k', k' <= k -> store_get r k' = None) /\ sorted_keys r
  end.

Lemma store_get_put m k v k' :
  store_get (store_put m k v) k' = if k' =? k then Some v else store_get m k'.
Proof.
  induction m as [|[k0 v0] r IH]; cbn [store_put store_get].
  - rewrite (N.eqb_sym k k'). reflexivity.
  - destruct (N.eqb_spec k k0) as [->|Hne].
    + cbn [store_get]. rewrite (N.eqb_sym k0 k'). destruct (k' =? k0); reflexivity.
    + destruct (k <? k0); cbn [store_get].
      * rewrite (N.eqb_sym k k'). reflexivity.
      * rewrite IH. destruct (N.eqb_spec k0 k'), (N.eqb_spec k' k); try reflexivity.
        congruence.
Qed.

Lemma store_get_del m k k' : sorted_keys m ->
  store_get (store_del m k) k' = if k' =? k then None else store_get m k'.
Proof.
  induction m as [|[k0 v0] r IH]; cbn [store_del store_get sorted_keys]; intros Hs.
  - destruct (k' =? k); reflexivity.
  - destruct Hs as [Hgt Hs]. destruct (N.eqb_spec k0 k) as [->|Hne].
    + destruct (N.eqb_spec k' k) as [E|Hne'].
      * rewrite E. apply Hgt. lia.
      * destruct (N.eqb_spec k k'); [congruence|reflexivity].
    + cbn [store_get]. rewrite (IH Hs).
      destruct (N.eqb_spec k0 k'), (N.eqb_spec k' k); try reflexivity. congruence.
Qed.

Lemma sorted_keys_put m k v : sorted_keys m -> sorted_keys (store_put m k v).
Proof.
  induction m as [|[k0 v0] r IH]; cbn [store_put sorted_keys].
  - intros _. split; [reflexivity|exact I].
  - intros [Hgt Hs]. destruct (N.eqb_spec k k0) as [->|Hne].
    + cbn [sorted_keys]. split; assumption.
    + destruct (N.ltb_spec k k0) as [Hlt|Hge]; cbn [sorted_keys].
      * split; [|split; assumption]. intros k' Hk'. cbn [store_get].
        destruct (N.eqb_spec k0 k'); [lia|]. apply Hgt. lia.
      * split; [|exact (IH Hs)]. intros k' Hk'. rewrite store_get_put.
        destruct (N.eqb_spec k' k); [lia|]. apply Hgt. exact Hk'.
Qed.

Lemma sorted_keys_del m k : sorted_keys m -> sorted_keys (store_del m k).
Proof.
  induction m as [|[k0 v0] r IH]; cbn [store_del sorted_keys].
  - trivial.
  - intros [Hgt Hs]. destruct (k0 =? k); [exact Hs|]. cbn [sorted_keys].
    split; [|exact (IH Hs)]. intros k' Hk'. rewrite (store_get_del _ _ _ Hs).
    destruct (k' =? k); [reflexivity|]. apply Hgt. exact Hk'.
Qed.

Lemma store_get_put_same m k v : store_get (store_put m k v) k = Some v.
Proof. rewrite store_get_put, N.eqb_refl. reflexivity. Qed.

Lemma store_get_put_other m k v k' : k' <> k -> store_get (store_put m k v) k' = store_get m k'.
Proof. intros H. rewrite store_get_put. destruct (N.eqb_spec k' k); [contradiction|reflexivity]. Qed.

Lemma store_get_del_same m k : sorted_keys m -> store_get (store_del m k) k = None.
Proof. intros H. rewrite (store_get_del _ _ _ H), N.eqb_refl. reflexivity. Qed.

Lemma store_get_del_other m k k' : sorted_keys m -> k' <> k ->
  store_get (store_del m k) k' = store_get m k'.
Proof.
  intros Hs H. rewrite (store_get_del _ _ _ Hs). destruct (N.eqb_spec k' k); [contradiction|reflexivity].
Qed.

Lemma store_get_del_some m k k' v : sorted_keys m ->
  store_get (store_del m k) k' = Some v -> k' <> k /\ store_get m k' = Some v.
Proof.
  intros Hs H. rewrite (store_get_del _ _ _ Hs) in H.
  destruct (N.eqb_spec k' k); [discriminate|]. split; assumption.
Qed.

(* ================================================================== *)
(* 2. Key arithmetic                                                   *)

Lemma land_mask n : N.land n id_mask = n mod 16384.
Proof. change id_mask with (N.ones 14). rewrite N.land_ones. reflexivity. Qed.

Lemma lor_disjoint a b : N.land a b = 0 -> N.lor a b = a + b.
Proof.
  intros H. rewrite <- (N.lxor_lor _ _ H). symmetry. apply N.add_nocarry_lxor. exact H.
Qed.

Lemma key1_eq n : key1 n = n mod 16384 + 32768.
Proof.
  unfold key1. rewrite lor_disjoint.
  - rewrite land_mask. reflexivity.
  - rewrite <- N.land_assoc. change (N.land id_mask alo_space) with 0. apply N.land_0_r.
Qed.

Lemma key2_eq n : key2 n = n mod 16384 + 49152.
Proof.
  unfold key2. rewrite lor_disjoint.
  - rewrite land_mask. reflexivity.
  - rewrite <- N.land_assoc. change (N.land id_mask eo_space) with 0. apply N.land_0_r.
Qed.

Lemma in_space_eq k sp : in_space k sp <-> k - k mod 16384 = sp.
Proof. unfold in_space. rewrite land_mask. reflexivity. Qed.

Lemma key1_iff n n' : key1 n = key1 n' <-> n mod 16384 = n' mod 16384.
Proof. rewrite !key1_eq. lia. Qed.
Lemma key2_iff n n' : key2 n = key2 n' <-> n mod 16384 = n' mod 16384.
Proof. rewrite !key2_eq. lia. Qed.

Lemma key1_range n : 32768 <= key1 n < 49152.
Proof. rewrite key1_eq. lia. Qed.
Lemma key2_range n : 49152 <= key2 n < 65536.
Proof. rewrite key2_eq. lia. Qed.

Lemma key1_space n : in_space (key1 n) alo_space.
Proof. rewrite in_space_eq, key1_eq. unfold alo_space. lia. Qed.
Lemma key2_space n : in_space (key2 n) eo_space.
Proof. rewrite in_space_eq, key2_eq. unfold eo_space. lia. Qed.

Lemma in_alo_range k : in_space k alo_space <-> 32768 <= k < 49152.
Proof. rewrite in_space_eq. unfold alo_space. lia. Qed.
Lemma in_eo_range k : in_space k eo_space <-> 49152 <= k < 65536.
Proof. rewrite in_space_eq. unfold eo_space. lia. Qed.

Lemma space_disjoint k : in_space k alo_space -> in_space k eo_space -> False.
Proof. rewrite in_alo_range, in_eo_range. lia. Qed.

Lemma key1_key2 n n' : key1 n <> key2 n'.
Proof. pose proof (key1_range n). pose proof (key2_range n'). lia. Qed.

(* every key of a space is the key of some sequence number *)
Lemma in_alo_key1 k : in_space k alo_space -> k = key1 (k - 32768).
Proof. rewrite in_alo_range, key1_eq. lia. Qed.
Lemma in_eo_key2 k : in_space k eo_space -> k = key2 (k - 49152).
Proof. rewrite in_eo_range, key2_eq. lia. Qed.

(* markers (remote flag, bit 16) and the client-identifier key 0 *)
Lemma marker_ge k : N.testbit k 16 = true -> 65536 <= k.
Proof.
  intros H. apply N.testbit_true in H. change (2 ^ 16) with 65536 in H. lia.
Qed.
Lemma marker_not_space k : N.testbit k 16 = true ->
  ~ in_space k alo_space /\ ~ in_space k eo_space.
Proof. intros H. apply marker_ge in H. rewrite in_alo_range, in_eo_range. lia. Qed.
Lemma marker_not_key k n : N.testbit k 16 = true -> k <> key1 n /\ k <> key2 n.
Proof.
  intros H. apply marker_ge in H. pose proof (key1_range n). pose proof (key2_range n). lia.
Qed.
Lemma zero_not_space : ~ in_space 0 alo_space /\ ~ in_space 0 eo_space.
Proof. rewrite in_alo_range, in_eo_range. lia. Qed.
Lemma zero_not_key n : 0 <> key1 n /\ 0 <> key2 n.
Proof. pose proof (key1_range n). pose proof (key2_range n). lia. Qed.

(* a window of at most 16384 consecutive sequence numbers has pairwise distinct keys *)
Lemma key1_neq_near n n' : n <> n' -> n < n' + 16384 -> n' < n + 16384 -> key1 n <> key1 n'.
Proof. rewrite key1_iff. lia. Qed.
Lemma key2_neq_near n n' : n <> n' -> n < n' + 16384 -> n' < n + 16384 -> key2 n <> key2 n'.
Proof. rewrite key2_iff. lia. Qed.

Theorem key1_window_distinct a w n n' :
  w <= 16384 -> a <= n < a + w -> a <= n' < a + w -> n <> n' -> key1 n <> key1 n'.
Proof. intros. apply key1_neq_near; lia. Qed.
Theorem key2_window_distinct a w n n' :
  w <= 16384 -> a <= n < a + w -> a <= n' < a + w -> n <> n' -> key2 n <> key2 n'.
Proof. intros. apply key2_neq_near; lia. Qed.

(* ================================================================== *)
(* 3. Records                                                          *)

Theorem encode_value_inj p s p' s' :
  encode_value p s = encode_value p' s' -> s < M64 -> s' < M64 -> p = p' /\ s = s'.
Proof.
  intros E Hs Hs'. pose proof (decode_encode p s Hs) as D. rewrite E in D.
  rewrite (decode_encode p' s' Hs') in D. injection D as -> ->. split; reflexivity.
Qed.

Lemma M64_pow : M64 = 2 ^ 64. Proof. reflexivity. Qed.

(* [holds] determines packet and storage number (below 2^64) *)
Theorem holds_inj m k p sq p' sq' :
  holds m k p sq -> holds m k p' sq' -> sq < M64 -> sq' < M64 -> p = p' /\ sq = sq'.
Proof.
  unfold holds. intros H H' Hs Hs'. rewrite H in H'. injection H' as E.
  exact (encode_value_inj _ _ _ _ E Hs Hs').
Qed.

(* ... but not beyond: the record keeps 64 bits of the storage number *)
Lemma mod_mul_256 x P : P <> 0 ->
  (x mod (256 * P)) mod 256 = x mod 256 /\ (x mod (256 * P)) / 256 = (x / 256) mod P.
Proof.
  intros HP. rewrite (N.mod_mul_r x 256 P) by (try discriminate; exact HP).
  pose proof (N.mod_lt x 256 ltac:(discriminate)) as Ha.
  generalize dependent (x mod 256). intros a Ha.
  generalize ((x / 256) mod P). intros b. lia.
Qed.

Lemma le_enc_mod n x : le_enc n (x mod 256 ^ N.of_nat n) = le_enc n x.
Proof.
  revert x. induction n as [|n IH]; intros x; [reflexivity|].
  cbn [le_enc]. rewrite Nat2N.inj_succ, N.pow_succ_r'.
  assert (Hp : 256 ^ N.of_nat n <> 0) by (apply N.pow_nonzero; discriminate).
  destruct (mod_mul_256 x _ Hp) as [E1 E2]. rewrite E1, E2, IH. reflexivity.
Qed.

Theorem encode_value_wraps p sq : encode_value p (sq + M64) = encode_value p sq.
Proof.
  assert (E : le64 (sq + M64) = le64 sq).
  { unfold le64. rewrite <- (le_enc_mod 8 (sq + M64)), <- (le_enc_mod 8 sq). f_equal.
    change (256 ^ N.of_nat 8) with M64. rewrite <- (N.mul_1_l M64) at 1.
    apply N.mod_add. discriminate. }
  unfold encode_value. cbv zeta. rewrite E. reflexivity.
Qed.

Lemma head_of_pub1 retain topic msg n :
  head_of (pub1_packet retain topic msg n) = if retain then 51 else 50.
Proof. destruct retain; reflexivity. Qed.
Lemma head_of_pub2 retain topic msg n :
  head_of (pub2_packet retain topic msg n) = if retain then 53 else 52.
Proof. destruct retain; reflexivity. Qed.
Lemma head_of_pubrel id : head_of (packet_pubrel id) = 98.
Proof. reflexivity. Qed.

Lemma pubrel_not_pub2 id retain topic msg n : packet_pubrel id <> pub2_packet retain topic msg n.
Proof.
  intros E. apply (f_equal head_of) in E. rewrite head_of_pubrel, head_of_pub2 in E.
  destruct retain; discriminate.
Qed.

Lemma len_app1 (q : list N) x : len (q ++ [x]) = len q + 1.
Proof. unfold len. rewrite app_length. cbn [length]. lia. Qed.
Lemma len_cons (q : list N) x : len (x :: q) = len q + 1.
Proof. unfold len. cbn [length]. lia. Qed.
Lemma len_nil : len (@nil N) = 0.
Proof. reflexivity. Qed.

(* ================================================================== *)
(* 4. The invariant                                                    *)

Lemma holds_put_same m k p sq : holds (store_put m k (encode_value p sq)) k p sq.
Proof. unfold holds. apply store_get_put_same. Qed.

Lemma holds_put_same_inv m k p sq p' sq' :
  holds (store_put m k (encode_value p sq)) k p' sq' -> sq < M64 -> sq' < M64 ->
  p' = p /\ sq' = sq.
Proof.
  intros H Hs Hs'. exact (holds_inj _ _ _ _ _ _ H (holds_put_same m k p sq) Hs' Hs).
Qed.

Lemma holds_put_other m k v k' p sq : k' <> k ->
  (holds (store_put m k v) k' p sq <-> holds m k' p sq).
Proof. intros H. unfold holds. rewrite (store_get_put_other _ _ _ _ H). reflexivity. Qed.

Lemma holds_del_inv m k k' p sq : sorted_keys m ->
  holds (store_del m k) k' p sq -> k' <> k /\ holds m k' p sq.
Proof. unfold holds. apply store_get_del_some. Qed.

Lemma holds_del_other m k k' p sq : sorted_keys m -> k' <> k ->
  holds m k' p sq -> holds (store_del m k) k' p sq.
Proof. unfold holds. intros Hs H. rewrite (store_get_del_other _ _ _ Hs H). trivial. Qed.

(* the counter part (with D2) *)
Record CInv (st : ost) : Prop := mkCInv {
  ci_c1 : o_acked st <= o_acc1 st /\ o_sub1 st <= o_acc1 st;
  ci_c2 : o_compl st <= o_recvd st /\ o_recvd st <= o_acc2 st /\ o_sub2 st <= o_acc2 st;
  ci_max : o_max1 st <= 16384 /\ o_max2 st <= 16384;
  ci_w1 : o_acc1 st - o_acked st <= o_max1 st;
  ci_w2 : o_acc2 st - o_compl st <= o_max2 st;
  ci_q1 : o_term st = false -> len (o_q1 st) = o_acc1 st - o_acked st;
  ci_q2 : o_term st = false -> len (o_q2 st) = o_acc2 st - o_compl st;
  ci_qt : o_term st = true -> o_q1 st = [] /\ o_q2 st = []
}.

(* the Persistence part (with D1), over the five counters, the storage counter and the
   store: ak = acked, ac1 = acc1, cp = compl, rc = recvd, ac2 = acc2, rs = rseq *)
Record SInv (ak ac1 cp rc ac2 rs : N) (m : store) : Prop := mkSInv {
  si_s1 : forall n, ak <= n < ac1 ->
            exists retain topic msg sq, holds m (key1 n) (pub1_packet retain topic msg n) sq /\ sq <= rs;
  si_s2r : forall n, cp <= n < rc ->
            exists sq, holds m (key2 n) (packet_pubrel (key2 n)) sq /\ sq <= rs;
  si_s2p : forall n, rc <= n < ac2 ->
            exists retain topic msg sq, holds m (key2 n) (pub2_packet retain topic msg n) sq /\ sq <= rs;
  si_only1 : forall k v, store_get m k = Some v -> in_space k alo_space ->
               exists n, ak <= n < ac1 /\ k = key1 n;
  si_only2 : forall k v, store_get m k = Some v -> in_space k eo_space ->
               exists n, cp <= n < ac2 /\ k = key2 n;
  si_ord1 : forall n n' p p' sq sq', ak <= n -> n < n' -> n' < ac1 -> sq < M64 -> sq' < M64 ->
              holds m (key1 n) p sq -> holds m (key1 n') p' sq' -> sq < sq';
  si_ord2r : forall n n' p p' sq sq', cp <= n -> n < n' -> n' < rc -> sq < M64 -> sq' < M64 ->
              holds m (key2 n) p sq -> holds m (key2 n') p' sq' -> sq < sq';
  si_ord2p : forall n n' p p' sq sq', rc <= n -> n < n' -> n' < ac2 -> sq < M64 -> sq' < M64 ->
              holds m (key2 n) p sq -> holds m (key2 n') p' sq' -> sq < sq'
}.

Record OInv_fixed (st : ost) : Prop := mkOInvF {
  oif_cnt : CInv st;
  oif_sto : SInv (o_acked st) (o_acc1 st) (o_compl st) (o_recvd st) (o_acc2 st) (o_rseq st) (o_store st)
}.

Definition OInv' (st : ost) : Prop :=
  OInv_fixed st /\ sorted_keys (o_store st) /\ o_rseq st < M64.

(* [OInv] plus D2 gives [OInv_fixed]: D1 only weakens *)
Lemma OInv_to_fixed st :
  OInv st -> (o_term st = true -> o_q1 st = [] /\ o_q2 st = []) -> OInv_fixed st.
Proof.
  intros [] Hqt. split; constructor; try assumption.
  - intros; eapply oi_ord1; eassumption.
  - intros; eapply oi_ord2r; eassumption.
  - intros; eapply oi_ord2p; eassumption.
Qed.

(* ---- store changes that keep the Persistence part ---- *)

Definition pubkey (k : N) : Prop := in_space k alo_space \/ in_space k eo_space.

Lemma SInv_ext ak ac1 cp rc ac2 rs rs' m m' :
  (forall k, pubkey k -> store_get m' k = store_get m k) -> rs <= rs' ->
  SInv ak ac1 cp rc ac2 rs m -> SInv ak ac1 cp rc ac2 rs' m'.
Proof.
  intros Hext Hrs [Hs1 Hs2r Hs2p Ho1 Ho2 Hd1 Hd2r Hd2p].
  assert (E1 : forall n p sq, holds m' (key1 n) p sq <-> holds m (key1 n) p sq).
  { intros. unfold holds. rewrite Hext by (left; apply key1_space). reflexivity. }
  assert (E2 : forall n p sq, holds m' (key2 n) p sq <-> holds m (key2 n) p sq).
  { intros. unfold holds. rewrite Hext by (right; apply key2_space). reflexivity. }
  constructor.
  - intros n Hn. destruct (Hs1 n Hn) as (r & t & ms & sq & Hh & Hsq).
    exists r, t, ms, sq. split; [apply E1; exact Hh|lia].
  - intros n Hn. destruct (Hs2r n Hn) as (sq & Hh & Hsq).
    exists sq. split; [apply E2; exact Hh|lia].
  - intros n Hn. destruct (Hs2p n Hn) as (r & t & ms & sq & Hh & Hsq).
    exists r, t, ms, sq. split; [apply E2; exact Hh|lia].
  - intros k v Hg Hsp. rewrite Hext in Hg by (left; exact Hsp). exact (Ho1 k v Hg Hsp).
  - intros k v Hg Hsp. rewrite Hext in Hg by (right; exact Hsp). exact (Ho2 k v Hg Hsp).
  - intros n n' p p' sq sq' H1 H2 H3 Hb Hb' Hh Hh'. apply E1 in Hh, Hh'.
    exact (Hd1 n n' p p' sq sq' H1 H2 H3 Hb Hb' Hh Hh').
  - intros n n' p p' sq sq' H1 H2 H3 Hb Hb' Hh Hh'. apply E2 in Hh, Hh'.
    exact (Hd2r n n' p p' sq sq' H1 H2 H3 Hb Hb' Hh Hh').
  - intros n n' p p' sq sq' H1 H2 H3 Hb Hb' Hh Hh'. apply E2 in Hh, Hh'.
    exact (Hd2p n n' p p' sq sq' H1 H2 H3 Hb Hb' Hh Hh').
Qed.

Lemma SInv_put_other ak ac1 cp rc ac2 rs m k v :
  ~ pubkey k -> SInv ak ac1 cp rc ac2 rs m -> SInv ak ac1 cp rc ac2 (rs + 1) (store_put m k v).
Proof.
  intros Hk. apply SInv_ext; [|lia]. intros k' Hk'. apply store_get_put_other.
  intros ->. contradiction.
Qed.

Lemma SInv_del_other ak ac1 cp rc ac2 rs m k :
  sorted_keys m -> ~ pubkey k -> SInv ak ac1 cp rc ac2 rs m -> SInv ak ac1 cp rc ac2 rs (store_del m k).
Proof.
  intros Hs Hk. apply SInv_ext; [|lia]. intros k' Hk'. apply store_get_del_other; [exact Hs|].
  intros ->. contradiction.
Qed.

Lemma marker_not_pubkey k : N.testbit k 16 = true -> ~ pubkey k.
Proof. intros H [H'|H']; destruct (marker_not_space k H); contradiction. Qed.

(* OS_accept1 *)
Lemma SInv_accept1 ak ac1 cp rc ac2 rs m retain topic msg :
  SInv ak ac1 cp rc ac2 rs m -> ak <= ac1 -> ac1 - ak < 16384 -> rs + 1 < M64 ->
  SInv ak (ac1 + 1) cp rc ac2 (rs + 1)
       (store_put m (key1 ac1) (encode_value (pub1_packet retain topic msg ac1) (rs + 1))).
Proof.
  intros [Hs1 Hs2r Hs2p Ho1 Ho2 Hd1 Hd2r Hd2p] Hle Hw Hrs.
  assert (Hk1 : forall n, ak <= n < ac1 -> key1 n <> key1 ac1)
    by (intros; apply key1_neq_near; lia).
  assert (Hk2 : forall n, key2 n <> key1 ac1)
    by (intros n E; exact (key1_key2 _ _ (eq_sym E))).
  constructor.
  - intros n Hn. destruct (N.eq_dec n ac1) as [->|Hne].
    + exists retain, topic, msg, (rs + 1). split; [apply holds_put_same|lia].
    + destruct (Hs1 n) as (r & t & ms & sq & Hh & Hsq); [lia|].
      exists r, t, ms, sq. split; [apply holds_put_other; [apply Hk1; lia|exact Hh]|lia].
  - intros n Hn. destruct (Hs2r n Hn) as (sq & Hh & Hsq).
    exists sq. split; [apply holds_put_other; [apply Hk2|exact Hh]|lia].
  - intros n Hn. destruct (Hs2p n Hn) as (r & t & ms & sq & Hh & Hsq).
    exists r, t, ms, sq. split; [apply holds_put_other; [apply Hk2|exact Hh]|lia].
  - intros k v Hg Hsp. rewrite store_get_put in Hg.
    destruct (N.eqb_spec k (key1 ac1)) as [E|Hne].
    + exists ac1. split; [lia|exact E].
    + destruct (Ho1 k v Hg Hsp) as (n & Hn & E). exists n. split; [lia|exact E].
  - intros k v Hg Hsp. rewrite store_get_put in Hg.
    destruct (N.eqb_spec k (key1 ac1)) as [E|Hne].
    + exfalso. rewrite E in Hsp. exact (space_disjoint _ (key1_space ac1) Hsp).
    + exact (Ho2 k v Hg Hsp).
  - intros n n' p p' sq sq' H1 H2 H3 Hb Hb' Hh Hh'.
    apply holds_put_other in Hh; [|apply Hk1; lia].
    destruct (N.eq_dec n' ac1) as [E|Hne].
    + rewrite E in Hh'. apply holds_put_same_inv in Hh'; [|lia|lia]. destruct Hh' as [_ E'].
      destruct (Hs1 n) as (r & t & ms & sq0 & Hh0 & Hsq0); [lia|].
      destruct (holds_inj _ _ _ _ _ _ Hh Hh0) as [_ E0]; lia.
    + apply holds_put_other in Hh'; [|apply Hk1; lia].
      apply (Hd1 n n' p p' sq sq'); try assumption; lia.
  - intros n n' p p' sq sq' H1 H2 H3 Hb Hb' Hh Hh'.
    apply holds_put_other in Hh; [|apply Hk2]. apply holds_put_other in Hh'; [|apply Hk2].
    exact (Hd2r n n' p p' sq sq' H1 H2 H3 Hb Hb' Hh Hh').
  - intros n n' p p' sq sq' H1 H2 H3 Hb Hb' Hh Hh'.
    apply holds_put_other in Hh; [|apply Hk2]. apply holds_put_other in Hh'; [|apply Hk2].
    exact (Hd2p n n' p p' sq sq' H1 H2 H3 Hb Hb' Hh Hh').
Qed.

(* OS_accept2 *)
Lemma SInv_accept2 ak ac1 cp rc ac2 rs m retain topic msg :
  SInv ak ac1 cp rc ac2 rs m -> cp <= rc -> rc <= ac2 -> ac2 - cp < 16384 -> rs + 1 < M64 ->
  SInv ak ac1 cp rc (ac2 + 1) (rs + 1)
       (store_put m (key2 ac2) (encode_value (pub2_packet retain topic msg ac2) (rs + 1))).
Proof.
  intros [Hs1 Hs2r Hs2p Ho1 Ho2 Hd1 Hd2r Hd2p] Hle Hle' Hw Hrs.
  assert (Hk2 : forall n, cp <= n < ac2 -> key2 n <> key2 ac2)
    by (intros; apply key2_neq_near; lia).
  assert (Hk1 : forall n, key1 n <> key2 ac2) by (intros n; apply key1_key2).
  constructor.
  - intros n Hn. destruct (Hs1 n Hn) as (r & t & ms & sq & Hh & Hsq).
    exists r, t, ms, sq. split; [apply holds_put_other; [apply Hk1|exact Hh]|lia].
  - intros n Hn. destruct (Hs2r n Hn) as (sq & Hh & Hsq).
    exists sq. split; [apply holds_put_other; [apply Hk2; lia|exact Hh]|lia].
  - intros n Hn. destruct (N.eq_dec n ac2) as [->|Hne].
    + exists retain, topic, msg, (rs + 1). split; [apply holds_put_same|lia].
    + destruct (Hs2p n) as (r & t & ms & sq & Hh & Hsq); [lia|].
      exists r, t, ms, sq. split; [apply holds_put_other; [apply Hk2; lia|exact Hh]|lia].
  - intros k v Hg Hsp. rewrite store_get_put in Hg.
    destruct (N.eqb_spec k (key2 ac2)) as [E|Hne].
    + exfalso. rewrite E in Hsp. exact (space_disjoint _ Hsp (key2_space ac2)).
    + exact (Ho1 k v Hg Hsp).
  - intros k v Hg Hsp. rewrite store_get_put in Hg.
    destruct (N.eqb_spec k (key2 ac2)) as [E|Hne].
    + exists ac2. split; [lia|exact E].
    + destruct (Ho2 k v Hg Hsp) as (n & Hn & E). exists n. split; [lia|exact E].
  - intros n n' p p' sq sq' H1 H2 H3 Hb Hb' Hh Hh'.
    apply holds_put_other in Hh; [|apply Hk1]. apply holds_put_other in Hh'; [|apply Hk1].
    exact (Hd1 n n' p p' sq sq' H1 H2 H3 Hb Hb' Hh Hh').
  - intros n n' p p' sq sq' H1 H2 H3 Hb Hb' Hh Hh'.
    apply holds_put_other in Hh; [|apply Hk2; lia]. apply holds_put_other in Hh'; [|apply Hk2; lia].
    exact (Hd2r n n' p p' sq sq' H1 H2 H3 Hb Hb' Hh Hh').
  - intros n n' p p' sq sq' H1 H2 H3 Hb Hb' Hh Hh'.
    apply holds_put_other in Hh; [|apply Hk2; lia].
    destruct (N.eq_dec n' ac2) as [E|Hne].
    + rewrite E in Hh'. apply holds_put_same_inv in Hh'; [|lia|lia]. destruct Hh' as [_ E'].
      destruct (Hs2p n) as (r & t & ms & sq0 & Hh0 & Hsq0); [lia|].
      destruct (holds_inj _ _ _ _ _ _ Hh Hh0) as [_ E0]; lia.
    + apply holds_put_other in Hh'; [|apply Hk2; lia].
      apply (Hd2p n n' p p' sq sq'); try assumption; lia.
Qed.

(* OS_ack1 *)
Lemma SInv_ack1 ak ac1 cp rc ac2 rs m :
  SInv ak ac1 cp rc ac2 rs m -> sorted_keys m -> ak < ac1 -> ac1 - ak <= 16384 ->
  SInv (ak + 1) ac1 cp rc ac2 rs (store_del m (key1 ak)).
Proof.
  intros [Hs1 Hs2r Hs2p Ho1 Ho2 Hd1 Hd2r Hd2p] Hsort Hlt Hw.
  assert (Hk1 : forall n, ak + 1 <= n < ac1 -> key1 n <> key1 ak)
    by (intros; apply key1_neq_near; lia).
  assert (Hk2 : forall n, key2 n <> key1 ak)
    by (intros n E; exact (key1_key2 _ _ (eq_sym E))).
  constructor.
  - intros n Hn. destruct (Hs1 n) as (r & t & ms & sq & Hh & Hsq); [lia|].
    exists r, t, ms, sq. split; [apply holds_del_other; auto|lia].
  - intros n Hn. destruct (Hs2r n Hn) as (sq & Hh & Hsq).
    exists sq. split; [apply holds_del_other; auto|lia].
  - intros n Hn. destruct (Hs2p n Hn) as (r & t & ms & sq & Hh & Hsq).
    exists r, t, ms, sq. split; [apply holds_del_other; auto|lia].
  - intros k v Hg Hsp. apply (store_get_del_some _ _ _ _ Hsort) in Hg. destruct Hg as [Hne Hg].
    destruct (Ho1 k v Hg Hsp) as (n & Hn & E). exists n. split; [|exact E].
    assert (n <> ak) by (intros ->; contradiction). lia.
  - intros k v Hg Hsp. apply (store_get_del_some _ _ _ _ Hsort) in Hg. destruct Hg as [Hne Hg].
    exact (Ho2 k v Hg Hsp).
  - intros n n' p p' sq sq' H1 H2 H3 Hb Hb' Hh Hh'.
    apply (holds_del_inv _ _ _ _ _ Hsort) in Hh, Hh'.
    apply (Hd1 n n' p p' sq sq'); try tauto; lia.
  - intros n n' p p' sq sq' H1 H2 H3 Hb Hb' Hh Hh'.
    apply (holds_del_inv _ _ _ _ _ Hsort) in Hh, Hh'.
    apply (Hd2r n n' p p' sq sq'); tauto.
  - intros n n' p p' sq sq' H1 H2 H3 Hb Hb' Hh Hh'.
    apply (holds_del_inv _ _ _ _ _ Hsort) in Hh, Hh'.
    apply (Hd2p n n' p p' sq sq'); tauto.
Qed.

(* OS_rec2: the PUBREL record replaces the PUBLISH record of the oldest unreceived
   sequence number; the PUBREL group grows at its upper end, the PUBLISH group shrinks
   at its lower end *)
Lemma SInv_rec2 ak ac1 cp rc ac2 rs m :
  SInv ak ac1 cp rc ac2 rs m -> cp <= rc -> rc < ac2 -> ac2 - cp <= 16384 -> rs + 1 < M64 ->
  SInv ak ac1 cp (rc + 1) ac2 (rs + 1)
       (store_put m (key2 rc) (encode_value (packet_pubrel (key2 rc)) (rs + 1))).
Proof.
  intros [Hs1 Hs2r Hs2p Ho1 Ho2 Hd1 Hd2r Hd2p] Hle Hlt Hw Hrs.
  assert (Hk2 : forall n, cp <= n < ac2 -> n <> rc -> key2 n <> key2 rc)
    by (intros; apply key2_neq_near; lia).
  assert (Hk1 : forall n, key1 n <> key2 rc) by (intros n; apply key1_key2).
  constructor.
  - intros n Hn. destruct (Hs1 n Hn) as (r & t & ms & sq & Hh & Hsq).
    exists r, t, ms, sq. split; [apply holds_put_other; [apply Hk1|exact Hh]|lia].
  - intros n Hn. destruct (N.eq_dec n rc) as [->|Hne].
    + exists (rs + 1). split; [apply holds_put_same|lia].
    + destruct (Hs2r n) as (sq & Hh & Hsq); [lia|].
      exists sq. split; [apply holds_put_other; [apply Hk2; lia|exact Hh]|lia].
  - intros n Hn. destruct (Hs2p n) as (r & t & ms & sq & Hh & Hsq); [lia|].
    exists r, t, ms, sq. split; [apply holds_put_other; [apply Hk2; lia|exact Hh]|lia].
  - intros k v Hg Hsp. rewrite store_get_put in Hg.
    destruct (N.eqb_spec k (key2 rc)) as [E|Hne].
    + exfalso. rewrite E in Hsp. exact (space_disjoint _ Hsp (key2_space rc)).
    + exact (Ho1 k v Hg Hsp).
  - intros k v Hg Hsp. rewrite store_get_put in Hg.
    destruct (N.eqb_spec k (key2 rc)) as [E|Hne].
    + exists rc. split; [lia|exact E].
    + exact (Ho2 k v Hg Hsp).
  - intros n n' p p' sq sq' H1 H2 H3 Hb Hb' Hh Hh'.
    apply holds_put_other in Hh; [|apply Hk1]. apply holds_put_other in Hh'; [|apply Hk1].
    exact (Hd1 n n' p p' sq sq' H1 H2 H3 Hb Hb' Hh Hh').
  - intros n n' p p' sq sq' H1 H2 H3 Hb Hb' Hh Hh'.
    apply holds_put_other in Hh; [|apply Hk2; lia].
    destruct (N.eq_dec n' rc) as [E|Hne].
    + rewrite E in Hh'. apply holds_put_same_inv in Hh'; [|lia|lia]. destruct Hh' as [_ E'].
      destruct (Hs2r n) as (sq0 & Hh0 & Hsq0); [lia|].
      destruct (holds_inj _ _ _ _ _ _ Hh Hh0) as [_ E0]; lia.
    + apply holds_put_other in Hh'; [|apply Hk2; lia].
      apply (Hd2r n n' p p' sq sq'); try assumption; lia.
  - intros n n' p p' sq sq' H1 H2 H3 Hb Hb' Hh Hh'.
    apply holds_put_other in Hh; [|apply Hk2; lia]. apply holds_put_other in Hh'; [|apply Hk2; lia].
    apply (Hd2p n n' p p' sq sq'); try assumption; lia.
Qed.

(* OS_comp2 *)
Lemma SInv_comp2 ak ac1 cp rc ac2 rs m :
  SInv ak ac1 cp rc ac2 rs m -> sorted_keys m -> cp < rc -> rc <= ac2 -> ac2 - cp <= 16384 ->
  SInv ak ac1 (cp + 1) rc ac2 rs (store_del m (key2 cp)).
Proof.
  intros [Hs1 Hs2r Hs2p Ho1 Ho2 Hd1 Hd2r Hd2p] Hsort Hlt Hle Hw.
  assert (Hk2 : forall n, cp + 1 <= n < ac2 -> key2 n <> key2 cp)
    by (intros; apply key2_neq_near; lia).
  assert (Hk1 : forall n, key1 n <> key2 cp) by (intros n; apply key1_key2).
  constructor.
  - intros n Hn. destruct (Hs1 n Hn) as (r & t & ms & sq & Hh & Hsq).
    exists r, t, ms, sq. split; [apply holds_del_other; auto|lia].
  - intros n Hn. destruct (Hs2r n) as (sq & Hh & Hsq); [lia|].
    exists sq. split; [apply holds_del_other; auto; apply Hk2; lia|lia].
  - intros n Hn. destruct (Hs2p n Hn) as (r & t & ms & sq & Hh & Hsq).
    exists r, t, ms, sq. split; [apply holds_del_other; auto; apply Hk2; lia|lia].
  - intros k v Hg Hsp. apply (store_get_del_some _ _ _ _ Hsort) in Hg. destruct Hg as [Hne Hg].
    exact (Ho1 k v Hg Hsp).
  - intros k v Hg Hsp. apply (store_get_del_some _ _ _ _ Hsort) in Hg. destruct Hg as [Hne Hg].
    destruct (Ho2 k v Hg Hsp) as (n & Hn & E). exists n. split; [|exact E].
    assert (n <> cp) by (intros ->; contradiction). lia.
  - intros n n' p p' sq sq' H1 H2 H3 Hb Hb' Hh Hh'.
    apply (holds_del_inv _ _ _ _ _ Hsort) in Hh, Hh'.
    apply (Hd1 n n' p p' sq sq'); tauto.
  - intros n n' p p' sq sq' H1 H2 H3 Hb Hb' Hh Hh'.
    apply (holds_del_inv _ _ _ _ _ Hsort) in Hh, Hh'.
    apply (Hd2r n n' p p' sq sq'); try tauto; lia.
  - intros n n' p p' sq sq' H1 H2 H3 Hb Hb' Hh Hh'.
    apply (holds_del_inv _ _ _ _ _ Hsort) in Hh, Hh'.
    apply (Hd2p n n' p p' sq sq'); tauto.
Qed.
