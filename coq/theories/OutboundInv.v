(* L2, abstract layer: the invariants of the outbound bookkeeping (Outbound.v) and what
   C01 C03 C05 C17 need from them.

   Deviations from the invariant [OInv] as written in Outbound.v (both proved below to be
   real: [OInv_two_records_absurd] + [OInv_not_preserved], [OInv_not_inductive]):

   (D1) [oi_ord1/oi_ord2r/oi_ord2p] quantify over every [sq] with [holds m k p sq].
        [le64] keeps the low 64 bits only, so [encode_value p (sq + 2^64) = encode_value p sq]
        and [holds] does not determine [sq]; the three clauses are false in every state
        with two records in one group (reachable: two accepted publications).
        [OInv_fixed] bounds the storage numbers of these clauses: [sq < M64 -> sq' < M64 ->].
   (D2) [OS_ack1] and [OS_rec2] are guarded by the queue only; [OInv] says nothing about
        the queues once [o_term] is set, so [OInv] is not inductive (the offending states
        are not reachable).  [OInv_fixed] adds
        [oi_qt : o_term st = true -> o_q1 st = [] /\ o_q2 st = []].
   (D3) side conditions of the working invariant [OInv']: the Persistence keys are
        strictly ascending ([sorted_keys], needed because [store_del] removes the first
        binding only) and the storage counter has not left the 64 bits of a record
        ([o_rseq st < M64]); the step theorem therefore asks [o_rseq st' < M64]. *)
From Coq Require Import ZArith ZifyN ZifyNat ZifyBool Lia.
From RecordUpdate Require Import RecordUpdate.
From MQ Require Import RecordProofs.
From MQ Require Export Outbound.
Ltac Zify.zify_post_hook ::= Z.div_mod_to_equations.

#[local] Arguments key1 : simpl never.
#[local] Arguments key2 : simpl never.
#[local] Arguments in_space : simpl never.
#[local] Arguments holds : simpl never.
#[local] Arguments len : simpl never.
#[local] Arguments encode_value : simpl never.
#[local] Arguments pub1_packet : simpl never.
#[local] Arguments pub2_packet : simpl never.
#[local] Arguments packet_pubrel : simpl never.
#[local] Arguments topic_check : simpl never.
#[local] Arguments publish_size : simpl never.
#[local] Arguments N.testbit : simpl never.
#[local] Arguments N.max : simpl never.

(* ================================================================== *)
(* 1. Store algebra                                                    *)

(* strictly ascending keys *)
Fixpoint sorted_keys (m : store) : Prop :=
  match m with
  | [] => True
  | (k, _) :: r => (forall k', k' <= k -> store_get r k' = None) /\ sorted_keys r
  end.

Lemma store_get_put m k v k' :
  store_get (store_put m k v) k' = if k' =? k then Some v else store_get m k'.
Proof.
  induction m as [|[k0 v0] r IH]; cbn [store_put store_get].
  - rewrite (N.eqb_sym k k'). reflexivity.
  - destruct (N.eqb_spec k k0) as [->|Hne].
    + cbn [store_get]. rewrite (N.eqb_sym k0 k'). destruct (k' =? k0); reflexivity.
    + destruct (k <? k0); cbn [store_get].
      * rewrite (N.eqb_sym k k'). reflexivity.
      * rewrite IH. destruct (N.eqb_spec k0 k'), (N.eqb_spec k' k); try reflexivity.
        congruence.
Qed.

Lemma store_get_del m k k' : sorted_keys m ->
  store_get (store_del m k) k' = if k' =? k then None else store_get m k'.
Proof.
  induction m as [|[k0 v0] r IH]; cbn [store_del store_get sorted_keys]; intros Hs.
  - destruct (k' =? k); reflexivity.
  - destruct Hs as [Hgt Hs]. destruct (N.eqb_spec k0 k) as [->|Hne].
    + destruct (N.eqb_spec k' k) as [E|Hne'].
      * rewrite E. apply Hgt. lia.
      * destruct (N.eqb_spec k k'); [congruence|reflexivity].
    + cbn [store_get]. rewrite (IH Hs).
      destruct (N.eqb_spec k0 k'), (N.eqb_spec k' k); try reflexivity. congruence.
Qed.

Lemma sorted_keys_put m k v : sorted_keys m -> sorted_keys (store_put m k v).
Proof.
  induction m as [|[k0 v0] r IH]; cbn [store_put sorted_keys].
  - intros _. split; [reflexivity|exact I].
  - intros [Hgt Hs]. destruct (N.eqb_spec k k0) as [->|Hne].
    + cbn [sorted_keys]. split; assumption.
    + destruct (N.ltb_spec k k0) as [Hlt|Hge]; cbn [sorted_keys].
      * split; [|split; assumption]. intros k' Hk'. cbn [store_get].
        destruct (N.eqb_spec k0 k'); [lia|]. apply Hgt. lia.
      * split; [|exact (IH Hs)]. intros k' Hk'. rewrite store_get_put.
        destruct (N.eqb_spec k' k); [lia|]. apply Hgt. exact Hk'.
Qed.

Lemma sorted_keys_del m k : sorted_keys m -> sorted_keys (store_del m k).
Proof.
  induction m as [|[k0 v0] r IH]; cbn [store_del sorted_keys].
  - trivial.
  - intros [Hgt Hs]. destruct (k0 =? k); [exact Hs|]. cbn [sorted_keys].
    split; [|exact (IH Hs)]. intros k' Hk'. rewrite (store_get_del _ _ _ Hs).
    destruct (k' =? k); [reflexivity|]. apply Hgt. exact Hk'.
Qed.

Lemma store_get_put_same m k v : store_get (store_put m k v) k = Some v.
Proof. rewrite store_get_put, N.eqb_refl. reflexivity. Qed.

Lemma store_get_put_other m k v k' : k' <> k -> store_get (store_put m k v) k' = store_get m k'.
Proof. intros H. rewrite store_get_put. destruct (N.eqb_spec k' k); [contradiction|reflexivity]. Qed.

Lemma store_get_del_same m k : sorted_keys m -> store_get (store_del m k) k = None.
Proof. intros H. rewrite (store_get_del _ _ _ H), N.eqb_refl. reflexivity. Qed.

Lemma store_get_del_other m k k' : sorted_keys m -> k' <> k ->
  store_get (store_del m k) k' = store_get m k'.
Proof.
  intros Hs H. rewrite (store_get_del _ _ _ Hs). destruct (N.eqb_spec k' k); [contradiction|reflexivity].
Qed.

Lemma store_get_del_some m k k' v : sorted_keys m ->
  store_get (store_del m k) k' = Some v -> k' <> k /\ store_get m k' = Some v.
Proof.
  intros Hs H. rewrite (store_get_del _ _ _ Hs) in H.
  destruct (N.eqb_spec k' k); [discriminate|]. split; assumption.
Qed.

(* ================================================================== *)
(* 2. Key arithmetic                                                   *)

Lemma land_mask n : N.land n id_mask = n mod 16384.
Proof. change id_mask with (N.ones 14). rewrite N.land_ones. reflexivity. Qed.

Lemma lor_disjoint a b : N.land a b = 0 -> N.lor a b = a + b.
Proof.
  intros H. rewrite <- (N.lxor_lor _ _ H). symmetry. apply N.add_nocarry_lxor. exact H.
Qed.

Lemma key1_eq n : key1 n = n mod 16384 + 32768.
Proof.
  unfold key1. rewrite lor_disjoint.
  - rewrite land_mask. reflexivity.
  - rewrite <- N.land_assoc. change (N.land id_mask alo_space) with 0. apply N.land_0_r.
Qed.

Lemma key2_eq n : key2 n = n mod 16384 + 49152.
Proof.
  unfold key2. rewrite lor_disjoint.
  - rewrite land_mask. reflexivity.
  - rewrite <- N.land_assoc. change (N.land id_mask eo_space) with 0. apply N.land_0_r.
Qed.

Lemma in_space_eq k sp : in_space k sp <-> k - k mod 16384 = sp.
Proof. unfold in_space. rewrite land_mask. reflexivity. Qed.

Lemma key1_iff n n' : key1 n = key1 n' <-> n mod 16384 = n' mod 16384.
Proof. rewrite !key1_eq. lia. Qed.
Lemma key2_iff n n' : key2 n = key2 n' <-> n mod 16384 = n' mod 16384.
Proof. rewrite !key2_eq. lia. Qed.

Lemma key1_range n : 32768 <= key1 n < 49152.
Proof. rewrite key1_eq. lia. Qed.
Lemma key2_range n : 49152 <= key2 n < 65536.
Proof. rewrite key2_eq. lia. Qed.

Lemma key1_space n : in_space (key1 n) alo_space.
Proof. rewrite in_space_eq, key1_eq. unfold alo_space. lia. Qed.
Lemma key2_space n : in_space (key2 n) eo_space.
Proof. rewrite in_space_eq, key2_eq. unfold eo_space. lia. Qed.

Lemma in_alo_range k : in_space k alo_space <-> 32768 <= k < 49152.
Proof. rewrite in_space_eq. unfold alo_space. lia. Qed.
Lemma in_eo_range k : in_space k eo_space <-> 49152 <= k < 65536.
Proof. rewrite in_space_eq. unfold eo_space. lia. Qed.

Lemma space_disjoint k : in_space k alo_space -> in_space k eo_space -> False.
Proof. rewrite in_alo_range, in_eo_range. lia. Qed.

Lemma key1_key2 n n' : key1 n <> key2 n'.
Proof. pose proof (key1_range n). pose proof (key2_range n'). lia. Qed.

(* every key of a space is the key of some sequence number *)
Lemma in_alo_key1 k : in_space k alo_space -> k = key1 (k - 32768).
Proof. rewrite in_alo_range, key1_eq. lia. Qed.
Lemma in_eo_key2 k : in_space k eo_space -> k = key2 (k - 49152).
Proof. rewrite in_eo_range, key2_eq. lia. Qed.

(* markers (remote flag, bit 16) and the client-identifier key 0 *)
Lemma marker_ge k : N.testbit k 16 = true -> 65536 <= k.
Proof.
  intros H. apply N.testbit_true in H. change (2 ^ 16) with 65536 in H. lia.
Qed.
Lemma marker_not_space k : N.testbit k 16 = true ->
  ~ in_space k alo_space /\ ~ in_space k eo_space.
Proof. intros H. apply marker_ge in H. rewrite in_alo_range, in_eo_range. lia. Qed.
Lemma marker_not_key k n : N.testbit k 16 = true -> k <> key1 n /\ k <> key2 n.
Proof.
  intros H. apply marker_ge in H. pose proof (key1_range n). pose proof (key2_range n). lia.
Qed.
Lemma zero_not_space : ~ in_space 0 alo_space /\ ~ in_space 0 eo_space.
Proof. rewrite in_alo_range, in_eo_range. lia. Qed.
Lemma zero_not_key n : 0 <> key1 n /\ 0 <> key2 n.
Proof. pose proof (key1_range n). pose proof (key2_range n). lia. Qed.

(* a window of at most 16384 consecutive sequence numbers has pairwise distinct keys *)
Lemma key1_neq_near n n' : n <> n' -> n < n' + 16384 -> n' < n + 16384 -> key1 n <> key1 n'.
Proof. rewrite key1_iff. lia. Qed.
Lemma key2_neq_near n n' : n <> n' -> n < n' + 16384 -> n' < n + 16384 -> key2 n <> key2 n'.
Proof. rewrite key2_iff. lia. Qed.

Theorem key1_window_distinct a w n n' :
  w <= 16384 -> a <= n < a + w -> a <= n' < a + w -> n <> n' -> key1 n <> key1 n'.
Proof. intros. apply key1_neq_near; lia. Qed.
Theorem key2_window_distinct a w n n' :
  w <= 16384 -> a <= n < a + w -> a <= n' < a + w -> n <> n' -> key2 n <> key2 n'.
Proof. intros. apply key2_neq_near; lia. Qed.

(* ================================================================== *)
(* 3. Records                                                          *)

Theorem encode_value_inj p s p' s' :
  encode_value p s = encode_value p' s' -> s < M64 -> s' < M64 -> p = p' /\ s = s'.
Proof.
  intros E Hs Hs'. pose proof (decode_encode p s Hs) as D. rewrite E in D.
  rewrite (decode_encode p' s' Hs') in D. injection D as -> ->. split; reflexivity.
Qed.

Lemma M64_pow : M64 = 2 ^ 64. Proof. reflexivity. Qed.

(* [holds] determines packet and storage number (below 2^64) *)
Theorem holds_inj m k p sq p' sq' :
  holds m k p sq -> holds m k p' sq' -> sq < M64 -> sq' < M64 -> p = p' /\ sq = sq'.
Proof.
  unfold holds. intros H H' Hs Hs'. rewrite H in H'. injection H' as E.
  exact (encode_value_inj _ _ _ _ E Hs Hs').
Qed.

(* ... but not beyond: the record keeps 64 bits of the storage number *)
Lemma mod_mul_256 x P : P <> 0 ->
  (x mod (256 * P)) mod 256 = x mod 256 /\ (x mod (256 * P)) / 256 = (x / 256) mod P.
Proof.
  intros HP. rewrite (N.mod_mul_r x 256 P) by (try discriminate; exact HP).
  pose proof (N.mod_lt x 256 ltac:(discriminate)) as Ha.
  generalize dependent (x mod 256). intros a Ha.
  generalize ((x / 256) mod P). intros b. lia.
Qed.

Lemma le_enc_mod n x : le_enc n (x mod 256 ^ N.of_nat n) = le_enc n x.
Proof.
  revert x. induction n as [|n IH]; intros x; [reflexivity|].
  cbn [le_enc]. rewrite Nat2N.inj_succ, N.pow_succ_r'.
  assert (Hp : 256 ^ N.of_nat n <> 0) by (apply N.pow_nonzero; discriminate).
  destruct (mod_mul_256 x _ Hp) as [E1 E2]. rewrite E1, E2, IH. reflexivity.
Qed.

Theorem encode_value_wraps p sq : encode_value p (sq + M64) = encode_value p sq.
Proof.
  assert (E : le64 (sq + M64) = le64 sq).
  { unfold le64. rewrite <- (le_enc_mod 8 (sq + M64)), <- (le_enc_mod 8 sq). f_equal.
    change (256 ^ N.of_nat 8) with M64. rewrite <- (N.mul_1_l M64) at 1.
    apply N.mod_add. discriminate. }
  unfold encode_value. cbv zeta. rewrite E. reflexivity.
Qed.

Lemma head_of_pub1 retain topic msg n :
  head_of (pub1_packet retain topic msg n) = if retain then 51 else 50.
Proof. destruct retain; reflexivity. Qed.
Lemma head_of_pub2 retain topic msg n :
  head_of (pub2_packet retain topic msg n) = if retain then 53 else 52.
Proof. destruct retain; reflexivity. Qed.
Lemma head_of_pubrel id : head_of (packet_pubrel id) = 98.
Proof. reflexivity. Qed.

Lemma pubrel_not_pub2 id retain topic msg n : packet_pubrel id <> pub2_packet retain topic msg n.
Proof.
  intros E. apply (f_equal head_of) in E. rewrite head_of_pubrel, head_of_pub2 in E.
  destruct retain; discriminate.
Qed.

Lemma len_app1 (q : list N) x : len (q ++ [x]) = len q + 1.
Proof. unfold len. rewrite app_length. cbn [length]. lia. Qed.
Lemma len_cons (q : list N) x : len (x :: q) = len q + 1.
Proof. unfold len. cbn [length]. lia. Qed.
Lemma len_nil : len (@nil N) = 0.
Proof. reflexivity. Qed.

(* ================================================================== *)
(* 4. The invariant                                                    *)

Lemma holds_put_same m k p sq : holds (store_put m k (encode_value p sq)) k p sq.
Proof. unfold holds. apply store_get_put_same. Qed.

Lemma holds_put_same_inv m k p sq p' sq' :
  holds (store_put m k (encode_value p sq)) k p' sq' -> sq < M64 -> sq' < M64 ->
  p' = p /\ sq' = sq.
Proof.
  intros H Hs Hs'. exact (holds_inj _ _ _ _ _ _ H (holds_put_same m k p sq) Hs' Hs).
Qed.

Lemma holds_put_other m k v k' p sq : k' <> k ->
  (holds (store_put m k v) k' p sq <-> holds m k' p sq).
Proof. intros H. unfold holds. rewrite (store_get_put_other _ _ _ _ H). reflexivity. Qed.

Lemma holds_del_inv m k k' p sq : sorted_keys m ->
  holds (store_del m k) k' p sq -> k' <> k /\ holds m k' p sq.
Proof. unfold holds. apply store_get_del_some. Qed.

Lemma holds_del_other m k k' p sq : sorted_keys m -> k' <> k ->
  holds m k' p sq -> holds (store_del m k) k' p sq.
Proof. unfold holds. intros Hs H. rewrite (store_get_del_other _ _ _ Hs H). trivial. Qed.

(* the counter part (with D2) *)
Record CInv (st : ost) : Prop := mkCInv {
  ci_c1 : o_acked st <= o_acc1 st /\ o_sub1 st <= o_acc1 st;
  ci_c2 : o_compl st <= o_recvd st /\ o_recvd st <= o_acc2 st /\ o_sub2 st <= o_acc2 st;
  ci_max : o_max1 st <= 16384 /\ o_max2 st <= 16384;
  ci_w1 : o_acc1 st - o_acked st <= o_max1 st;
  ci_w2 : o_acc2 st - o_compl st <= o_max2 st;
  ci_q1 : o_term st = false -> len (o_q1 st) = o_acc1 st - o_acked st;
  ci_q2 : o_term st = false -> len (o_q2 st) = o_acc2 st - o_compl st;
  ci_qt : o_term st = true -> o_q1 st = [] /\ o_q2 st = []
}.

(* the Persistence part (with D1), over the five counters, the storage counter and the
   store: ak = acked, ac1 = acc1, cp = compl, rc = recvd, ac2 = acc2, rs = rseq *)
Record SInv (ak ac1 cp rc ac2 rs : N) (m : store) : Prop := mkSInv {
  si_s1 : forall n, ak <= n < ac1 ->
            exists retain topic msg sq, holds m (key1 n) (pub1_packet retain topic msg n) sq /\ sq <= rs;
  si_s2r : forall n, cp <= n < rc ->
            exists sq, holds m (key2 n) (packet_pubrel (key2 n)) sq /\ sq <= rs;
  si_s2p : forall n, rc <= n < ac2 ->
            exists retain topic msg sq, holds m (key2 n) (pub2_packet retain topic msg n) sq /\ sq <= rs;
  si_only1 : forall k v, store_get m k = Some v -> in_space k alo_space ->
               exists n, ak <= n < ac1 /\ k = key1 n;
  si_only2 : forall k v, store_get m k = Some v -> in_space k eo_space ->
               exists n, cp <= n < ac2 /\ k = key2 n;
  si_ord1 : forall n n' p p' sq sq', ak <= n -> n < n' -> n' < ac1 -> sq < M64 -> sq' < M64 ->
              holds m (key1 n) p sq -> holds m (key1 n') p' sq' -> sq < sq';
  si_ord2r : forall n n' p p' sq sq', cp <= n -> n < n' -> n' < rc -> sq < M64 -> sq' < M64 ->
              holds m (key2 n) p sq -> holds m (key2 n') p' sq' -> sq < sq';
  si_ord2p : forall n n' p p' sq sq', rc <= n -> n < n' -> n' < ac2 -> sq < M64 -> sq' < M64 ->
              holds m (key2 n) p sq -> holds m (key2 n') p' sq' -> sq < sq'
}.

Record OInv_fixed (st : ost) : Prop := mkOInvF {
  oif_cnt : CInv st;
  oif_sto : SInv (o_acked st) (o_acc1 st) (o_compl st) (o_recvd st) (o_acc2 st) (o_rseq st) (o_store st)
}.

Definition OInv' (st : ost) : Prop :=
  OInv_fixed st /\ sorted_keys (o_store st) /\ o_rseq st < M64.

(* [OInv] plus D2 gives [OInv_fixed]: D1 only weakens *)
Lemma OInv_to_fixed st :
  OInv st -> (o_term st = true -> o_q1 st = [] /\ o_q2 st = []) -> OInv_fixed st.
Proof.
  intros [] Hqt. split; constructor; try assumption.
  - intros; eapply oi_ord1; eassumption.
  - intros; eapply oi_ord2r; eassumption.
  - intros; eapply oi_ord2p; eassumption.
Qed.

(* ---- store changes that keep the Persistence part ---- *)

Definition pubkey (k : N) : Prop := in_space k alo_space \/ in_space k eo_space.

Lemma SInv_ext ak ac1 cp rc ac2 rs rs' m m' :
  (forall k, pubkey k -> store_get m' k = store_get m k) -> rs <= rs' ->
  SInv ak ac1 cp rc ac2 rs m -> SInv ak ac1 cp rc ac2 rs' m'.
Proof.
  intros Hext Hrs [Hs1 Hs2r Hs2p Ho1 Ho2 Hd1 Hd2r Hd2p].
  assert (E1 : forall n p sq, holds m' (key1 n) p sq <-> holds m (key1 n) p sq).
  { intros. unfold holds. rewrite Hext by (left; apply key1_space). reflexivity. }
  assert (E2 : forall n p sq, holds m' (key2 n) p sq <-> holds m (key2 n) p sq).
  { intros. unfold holds. rewrite Hext by (right; apply key2_space). reflexivity. }
  constructor.
  - intros n Hn. destruct (Hs1 n Hn) as (r & t & ms & sq & Hh & Hsq).
    exists r, t, ms, sq. split; [apply E1; exact Hh|lia].
  - intros n Hn. destruct (Hs2r n Hn) as (sq & Hh & Hsq).
    exists sq. split; [apply E2; exact Hh|lia].
  - intros n Hn. destruct (Hs2p n Hn) as (r & t & ms & sq & Hh & Hsq).
    exists r, t, ms, sq. split; [apply E2; exact Hh|lia].
  - intros k v Hg Hsp. rewrite Hext in Hg by (left; exact Hsp). exact (Ho1 k v Hg Hsp).
  - intros k v Hg Hsp. rewrite Hext in Hg by (right; exact Hsp). exact (Ho2 k v Hg Hsp).
  - intros n n' p p' sq sq' H1 H2 H3 Hb Hb' Hh Hh'. apply E1 in Hh, Hh'.
    exact (Hd1 n n' p p' sq sq' H1 H2 H3 Hb Hb' Hh Hh').
  - intros n n' p p' sq sq' H1 H2 H3 Hb Hb' Hh Hh'. apply E2 in Hh, Hh'.
    exact (Hd2r n n' p p' sq sq' H1 H2 H3 Hb Hb' Hh Hh').
  - intros n n' p p' sq sq' H1 H2 H3 Hb Hb' Hh Hh'. apply E2 in Hh, Hh'.
    exact (Hd2p n n' p p' sq sq' H1 H2 H3 Hb Hb' Hh Hh').
Qed.

Lemma SInv_put_other ak ac1 cp rc ac2 rs m k v :
  ~ pubkey k -> SInv ak ac1 cp rc ac2 rs m -> SInv ak ac1 cp rc ac2 (rs + 1) (store_put m k v).
Proof.
  intros Hk. apply SInv_ext; [|lia]. intros k' Hk'. apply store_get_put_other.
  intros ->. contradiction.
Qed.

Lemma SInv_del_other ak ac1 cp rc ac2 rs m k :
  sorted_keys m -> ~ pubkey k -> SInv ak ac1 cp rc ac2 rs m -> SInv ak ac1 cp rc ac2 rs (store_del m k).
Proof.
  intros Hs Hk. apply SInv_ext; [|lia]. intros k' Hk'. apply store_get_del_other; [exact Hs|].
  intros ->. contradiction.
Qed.

Lemma marker_not_pubkey k : N.testbit k 16 = true -> ~ pubkey k.
Proof. intros H [H'|H']; destruct (marker_not_space k H); contradiction. Qed.

(* OS_accept1 *)
Lemma SInv_accept1 ak ac1 cp rc ac2 rs m retain topic msg :
  SInv ak ac1 cp rc ac2 rs m -> ak <= ac1 -> ac1 - ak < 16384 -> rs + 1 < M64 ->
  SInv ak (ac1 + 1) cp rc ac2 (rs + 1)
       (store_put m (key1 ac1) (encode_value (pub1_packet retain topic msg ac1) (rs + 1))).
Proof.
  intros [Hs1 Hs2r Hs2p Ho1 Ho2 Hd1 Hd2r Hd2p] Hle Hw Hrs.
  assert (Hk1 : forall n, ak <= n < ac1 -> key1 n <> key1 ac1)
    by (intros; apply key1_neq_near; lia).
  assert (Hk2 : forall n, key2 n <> key1 ac1)
    by (intros n E; exact (key1_key2 _ _ (eq_sym E))).
  constructor.
  - intros n Hn. destruct (N.eq_dec n ac1) as [->|Hne].
    + exists retain, topic, msg, (rs + 1). split; [apply holds_put_same|lia].
    + destruct (Hs1 n) as (r & t & ms & sq & Hh & Hsq); [lia|].
      exists r, t, ms, sq. split; [apply holds_put_other; [apply Hk1; lia|exact Hh]|lia].
  - intros n Hn. destruct (Hs2r n Hn) as (sq & Hh & Hsq).
    exists sq. split; [apply holds_put_other; [apply Hk2|exact Hh]|lia].
  - intros n Hn. destruct (Hs2p n Hn) as (r & t & ms & sq & Hh & Hsq).
    exists r, t, ms, sq. split; [apply holds_put_other; [apply Hk2|exact Hh]|lia].
  - intros k v Hg Hsp. rewrite store_get_put in Hg.
    destruct (N.eqb_spec k (key1 ac1)) as [E|Hne].
    + exists ac1. split; [lia|exact E].
    + destruct (Ho1 k v Hg Hsp) as (n & Hn & E). exists n. split; [lia|exact E].
  - intros k v Hg Hsp. rewrite store_get_put in Hg.
    destruct (N.eqb_spec k (key1 ac1)) as [E|Hne].
    + exfalso. rewrite E in Hsp. exact (space_disjoint _ (key1_space ac1) Hsp).
    + exact (Ho2 k v Hg Hsp).
  - intros n n' p p' sq sq' H1 H2 H3 Hb Hb' Hh Hh'.
    apply holds_put_other in Hh; [|apply Hk1; lia].
    destruct (N.eq_dec n' ac1) as [E|Hne].
    + rewrite E in Hh'. apply holds_put_same_inv in Hh'; [|lia|lia]. destruct Hh' as [_ E'].
      destruct (Hs1 n) as (r & t & ms & sq0 & Hh0 & Hsq0); [lia|].
      destruct (holds_inj _ _ _ _ _ _ Hh Hh0) as [_ E0]; lia.
    + apply holds_put_other in Hh'; [|apply Hk1; lia].
      apply (Hd1 n n' p p' sq sq'); try assumption; lia.
  - intros n n' p p' sq sq' H1 H2 H3 Hb Hb' Hh Hh'.
    apply holds_put_other in Hh; [|apply Hk2]. apply holds_put_other in Hh'; [|apply Hk2].
    exact (Hd2r n n' p p' sq sq' H1 H2 H3 Hb Hb' Hh Hh').
  - intros n n' p p' sq sq' H1 H2 H3 Hb Hb' Hh Hh'.
    apply holds_put_other in Hh; [|apply Hk2]. apply holds_put_other in Hh'; [|apply Hk2].
    exact (Hd2p n n' p p' sq sq' H1 H2 H3 Hb Hb' Hh Hh').
Qed.

(* OS_accept2 *)
Lemma SInv_accept2 ak ac1 cp rc ac2 rs m retain topic msg :
  SInv ak ac1 cp rc ac2 rs m -> cp <= rc -> rc <= ac2 -> ac2 - cp < 16384 -> rs + 1 < M64 ->
  SInv ak ac1 cp rc (ac2 + 1) (rs + 1)
       (store_put m (key2 ac2) (encode_value (pub2_packet retain topic msg ac2) (rs + 1))).
Proof.
  intros [Hs1 Hs2r Hs2p Ho1 Ho2 Hd1 Hd2r Hd2p] Hle Hle' Hw Hrs.
  assert (Hk2 : forall n, cp <= n < ac2 -> key2 n <> key2 ac2)
    by (intros; apply key2_neq_near; lia).
  assert (Hk1 : forall n, key1 n <> key2 ac2) by (intros n; apply key1_key2).
  constructor.
  - intros n Hn. destruct (Hs1 n Hn) as (r & t & ms & sq & Hh & Hsq).
    exists r, t, ms, sq. split; [apply holds_put_other; [apply Hk1|exact Hh]|lia].
  - intros n Hn. destruct (Hs2r n Hn) as (sq & Hh & Hsq).
    exists sq. split; [apply holds_put_other; [apply Hk2; lia|exact Hh]|lia].
  - intros n Hn. destruct (N.eq_dec n ac2) as [->|Hne].
    + exists retain, topic, msg, (rs + 1). split; [apply holds_put_same|lia].
    + destruct (Hs2p n) as (r & t & ms & sq & Hh & Hsq); [lia|].
      exists r, t, ms, sq. split; [apply holds_put_other; [apply Hk2; lia|exact Hh]|lia].
  - intros k v Hg Hsp. rewrite store_get_put in Hg.
    destruct (N.eqb_spec k (key2 ac2)) as [E|Hne].
    + exfalso. rewrite E in Hsp. exact (space_disjoint _ Hsp (key2_space ac2)).
    + exact (Ho1 k v Hg Hsp).
  - intros k v Hg Hsp. rewrite store_get_put in Hg.
    destruct (N.eqb_spec k (key2 ac2)) as [E|Hne].
    + exists ac2. split; [lia|exact E].
    + destruct (Ho2 k v Hg Hsp) as (n & Hn & E). exists n. split; [lia|exact E].
  - intros n n' p p' sq sq' H1 H2 H3 Hb Hb' Hh Hh'.
    apply holds_put_other in Hh; [|apply Hk1]. apply holds_put_other in Hh'; [|apply Hk1].
    exact (Hd1 n n' p p' sq sq' H1 H2 H3 Hb Hb' Hh Hh').
  - intros n n' p p' sq sq' H1 H2 H3 Hb Hb' Hh Hh'.
    apply holds_put_other in Hh; [|apply Hk2; lia]. apply holds_put_other in Hh'; [|apply Hk2; lia].
    exact (Hd2r n n' p p' sq sq' H1 H2 H3 Hb Hb' Hh Hh').
  - intros n n' p p' sq sq' H1 H2 H3 Hb Hb' Hh Hh'.
    apply holds_put_other in Hh; [|apply Hk2; lia].
    destruct (N.eq_dec n' ac2) as [E|Hne].
    + rewrite E in Hh'. apply holds_put_same_inv in Hh'; [|lia|lia]. destruct Hh' as [_ E'].
      destruct (Hs2p n) as (r & t & ms & sq0 & Hh0 & Hsq0); [lia|].
      destruct (holds_inj _ _ _ _ _ _ Hh Hh0) as [_ E0]; lia.
    + apply holds_put_other in Hh'; [|apply Hk2; lia].
      apply (Hd2p n n' p p' sq sq'); try assumption; lia.
Qed.

(* OS_ack1 *)
Lemma SInv_ack1 ak ac1 cp rc ac2 rs m :
  SInv ak ac1 cp rc ac2 rs m -> sorted_keys m -> ak < ac1 -> ac1 - ak <= 16384 ->
  SInv (ak + 1) ac1 cp rc ac2 rs (store_del m (key1 ak)).
Proof.
  intros [Hs1 Hs2r Hs2p Ho1 Ho2 Hd1 Hd2r Hd2p] Hsort Hlt Hw.
  assert (Hk1 : forall n, ak + 1 <= n < ac1 -> key1 n <> key1 ak)
    by (intros; apply key1_neq_near; lia).
  assert (Hk2 : forall n, key2 n <> key1 ak)
    by (intros n E; exact (key1_key2 _ _ (eq_sym E))).
  constructor.
  - intros n Hn. destruct (Hs1 n) as (r & t & ms & sq & Hh & Hsq); [lia|].
    exists r, t, ms, sq. split; [apply holds_del_other; auto|lia].
  - intros n Hn. destruct (Hs2r n Hn) as (sq & Hh & Hsq).
    exists sq. split; [apply holds_del_other; auto|lia].
  - intros n Hn. destruct (Hs2p n Hn) as (r & t & ms & sq & Hh & Hsq).
    exists r, t, ms, sq. split; [apply holds_del_other; auto|lia].
  - intros k v Hg Hsp. apply (store_get_del_some _ _ _ _ Hsort) in Hg. destruct Hg as [Hne Hg].
    destruct (Ho1 k v Hg Hsp) as (n & Hn & E). exists n. split; [|exact E].
    assert (n <> ak) by (intros ->; contradiction). lia.
  - intros k v Hg Hsp. apply (store_get_del_some _ _ _ _ Hsort) in Hg. destruct Hg as [Hne Hg].
    exact (Ho2 k v Hg Hsp).
  - intros n n' p p' sq sq' H1 H2 H3 Hb Hb' Hh Hh'.
    apply (holds_del_inv _ _ _ _ _ Hsort) in Hh, Hh'.
    apply (Hd1 n n' p p' sq sq'); try tauto; lia.
  - intros n n' p p' sq sq' H1 H2 H3 Hb Hb' Hh Hh'.
    apply (holds_del_inv _ _ _ _ _ Hsort) in Hh, Hh'.
    apply (Hd2r n n' p p' sq sq'); tauto.
  - intros n n' p p' sq sq' H1 H2 H3 Hb Hb' Hh Hh'.
    apply (holds_del_inv _ _ _ _ _ Hsort) in Hh, Hh'.
    apply (Hd2p n n' p p' sq sq'); tauto.
Qed.

(* OS_rec2: the PUBREL record replaces the PUBLISH record of the oldest unreceived
   sequence number; the PUBREL group grows at its upper end, the PUBLISH group shrinks
   at its lower end *)
Lemma SInv_rec2 ak ac1 cp rc ac2 rs m :
  SInv ak ac1 cp rc ac2 rs m -> cp <= rc -> rc < ac2 -> ac2 - cp <= 16384 -> rs + 1 < M64 ->
  SInv ak ac1 cp (rc + 1) ac2 (rs + 1)
       (store_put m (key2 rc) (encode_value (packet_pubrel (key2 rc)) (rs + 1))).
Proof.
  intros [Hs1 Hs2r Hs2p Ho1 Ho2 Hd1 Hd2r Hd2p] Hle Hlt Hw Hrs.
  assert (Hk2 : forall n, cp <= n < ac2 -> n <> rc -> key2 n <> key2 rc)
    by (intros; apply key2_neq_near; lia).
  assert (Hk1 : forall n, key1 n <> key2 rc) by (intros n; apply key1_key2).
  constructor.
  - intros n Hn. destruct (Hs1 n Hn) as (r & t & ms & sq & Hh & Hsq).
    exists r, t, ms, sq. split; [apply holds_put_other; [apply Hk1|exact Hh]|lia].
  - intros n Hn. destruct (N.eq_dec n rc) as [->|Hne].
    + exists (rs + 1). split; [apply holds_put_same|lia].
    + destruct (Hs2r n) as (sq & Hh & Hsq); [lia|].
      exists sq. split; [apply holds_put_other; [apply Hk2; lia|exact Hh]|lia].
  - intros n Hn. destruct (Hs2p n) as (r & t & ms & sq & Hh & Hsq); [lia|].
    exists r, t, ms, sq. split; [apply holds_put_other; [apply Hk2; lia|exact Hh]|lia].
  - intros k v Hg Hsp. rewrite store_get_put in Hg.
    destruct (N.eqb_spec k (key2 rc)) as [E|Hne].
    + exfalso. rewrite E in Hsp. exact (space_disjoint _ Hsp (key2_space rc)).
    + exact (Ho1 k v Hg Hsp).
  - intros k v Hg Hsp. rewrite store_get_put in Hg.
    destruct (N.eqb_spec k (key2 rc)) as [E|Hne].
    + exists rc. split; [lia|exact E].
    + exact (Ho2 k v Hg Hsp).
  - intros n n' p p' sq sq' H1 H2 H3 Hb Hb' Hh Hh'.
    apply holds_put_other in Hh; [|apply Hk1]. apply holds_put_other in Hh'; [|apply Hk1].
    exact (Hd1 n n' p p' sq sq' H1 H2 H3 Hb Hb' Hh Hh').
  - intros n n' p p' sq sq' H1 H2 H3 Hb Hb' Hh Hh'.
    apply holds_put_other in Hh; [|apply Hk2; lia].
    destruct (N.eq_dec n' rc) as [E|Hne].
    + rewrite E in Hh'. apply holds_put_same_inv in Hh'; [|lia|lia]. destruct Hh' as [_ E'].
      destruct (Hs2r n) as (sq0 & Hh0 & Hsq0); [lia|].
      destruct (holds_inj _ _ _ _ _ _ Hh Hh0) as [_ E0]; lia.
    + apply holds_put_other in Hh'; [|apply Hk2; lia].
      apply (Hd2r n n' p p' sq sq'); try assumption; lia.
  - intros n n' p p' sq sq' H1 H2 H3 Hb Hb' Hh Hh'.
    apply holds_put_other in Hh; [|apply Hk2; lia]. apply holds_put_other in Hh'; [|apply Hk2; lia].
    apply (Hd2p n n' p p' sq sq'); try assumption; lia.
Qed.

(* OS_comp2 *)
Lemma SInv_comp2 ak ac1 cp rc ac2 rs m :
  SInv ak ac1 cp rc ac2 rs m -> sorted_keys m -> cp < rc -> rc <= ac2 -> ac2 - cp <= 16384 ->
  SInv ak ac1 (cp + 1) rc ac2 rs (store_del m (key2 cp)).
Proof.
  intros [Hs1 Hs2r Hs2p Ho1 Ho2 Hd1 Hd2r Hd2p] Hsort Hlt Hle Hw.
  assert (Hk2 : forall n, cp + 1 <= n < ac2 -> key2 n <> key2 cp)
    by (intros; apply key2_neq_near; lia).
  assert (Hk1 : forall n, key1 n <> key2 cp) by (intros n; apply key1_key2).
  constructor.
  - intros n Hn. destruct (Hs1 n Hn) as (r & t & ms & sq & Hh & Hsq).
    exists r, t, ms, sq. split; [apply holds_del_other; auto|lia].
  - intros n Hn. destruct (Hs2r n) as (sq & Hh & Hsq); [lia|].
    exists sq. split; [apply holds_del_other; auto; apply Hk2; lia|lia].
  - intros n Hn. destruct (Hs2p n Hn) as (r & t & ms & sq & Hh & Hsq).
    exists r, t, ms, sq. split; [apply holds_del_other; auto; apply Hk2; lia|lia].
  - intros k v Hg Hsp. apply (store_get_del_some _ _ _ _ Hsort) in Hg. destruct Hg as [Hne Hg].
    exact (Ho1 k v Hg Hsp).
  - intros k v Hg Hsp. apply (store_get_del_some _ _ _ _ Hsort) in Hg. destruct Hg as [Hne Hg].
    destruct (Ho2 k v Hg Hsp) as (n & Hn & E). exists n. split; [|exact E].
    assert (n <> cp) by (intros ->; contradiction). lia.
  - intros n n' p p' sq sq' H1 H2 H3 Hb Hb' Hh Hh'.
    apply (holds_del_inv _ _ _ _ _ Hsort) in Hh, Hh'.
    apply (Hd1 n n' p p' sq sq'); tauto.
  - intros n n' p p' sq sq' H1 H2 H3 Hb Hb' Hh Hh'.
    apply (holds_del_inv _ _ _ _ _ Hsort) in Hh, Hh'.
    apply (Hd2r n n' p p' sq sq'); try tauto; lia.
  - intros n n' p p' sq sq' H1 H2 H3 Hb Hb' Hh Hh'.
    apply (holds_del_inv _ _ _ _ _ Hsort) in Hh, Hh'.
    apply (Hd2p n n' p p' sq sq'); tauto.
Qed.

(* ---- the steps ---- *)

Ltac ost_cases Hstep st :=
  destruct Hstep; destruct st as [mx1 mx2 ak sb1 ac1 q1 cp rc sb2 ac2 q2 tm cl rs m]; cbn in *.

Ltac term_cases tm Hq1 Hq2 Hqt :=
  destruct tm;
  [ destruct (Hqt eq_refl) as [? ?]; subst; try discriminate; try congruence
  | pose proof (Hq1 eq_refl); pose proof (Hq2 eq_refl); subst ].

Lemma ostep_mono st st' : ostep st st' ->
  o_max1 st' = o_max1 st /\ o_max2 st' = o_max2 st /\
  o_acked st <= o_acked st' /\ o_acc1 st <= o_acc1 st' /\
  o_compl st <= o_compl st' /\ o_recvd st <= o_recvd st' /\ o_acc2 st <= o_acc2 st' /\
  o_rseq st <= o_rseq st'.
Proof. intros Hstep. ost_cases Hstep st; repeat split; lia. Qed.

Lemma cinv_step st st' : CInv st -> ostep st st' -> CInv st'.
Proof.
  intros [Hc1 Hc2 Hmax Hw1 Hw2 Hq1 Hq2 Hqt] Hstep.
  ost_cases Hstep st; term_cases tm Hq1 Hq2 Hqt;
    (constructor; cbn; rewrite ?len_app1, ?len_cons, ?len_nil in *;
     try lia; try (intros; discriminate); try (intros; split; reflexivity); try assumption).
Qed.

Lemma sorted_step st st' : sorted_keys (o_store st) -> ostep st st' -> sorted_keys (o_store st').
Proof.
  intros Hsort Hstep.
  ost_cases Hstep st; auto using sorted_keys_put, sorted_keys_del.
Qed.

Lemma sinv_step st st' : OInv' st -> ostep st st' -> o_rseq st' < M64 ->
  SInv (o_acked st') (o_acc1 st') (o_compl st') (o_recvd st') (o_acc2 st') (o_rseq st') (o_store st').
Proof.
  intros [[HC HS] [Hsort Hrs]] Hstep Hrs'.
  destruct HC as [Hc1 Hc2 Hmax Hw1 Hw2 Hq1 Hq2 Hqt].
  ost_cases Hstep st.
  - (* OS_accept1 *) pose proof (Hq1 H). apply SInv_accept1; [exact HS|lia..].
  - (* OS_accept2 *) pose proof (Hq2 H). apply SInv_accept2; [exact HS|lia..].
  - (* OS_save_failed *) apply (SInv_ext _ _ _ _ _ rs _ m); [reflexivity|lia|exact HS].
  - (* OS_ack1 *) term_cases tm Hq1 Hq2 Hqt. rewrite len_cons in *.
    apply SInv_ack1; [exact HS|exact Hsort|lia..].
  - (* OS_rec2 *) term_cases tm Hq1 Hq2 Hqt; [rewrite len_nil in *; lia|].
    apply SInv_rec2; [exact HS|lia..].
  - (* OS_comp2 *) term_cases tm Hq1 Hq2 Hqt. rewrite len_cons in *.
    apply SInv_comp2; [exact HS|exact Hsort|lia..].
  - (* OS_submit *) exact HS.
  - (* OS_marker_save *) apply SInv_put_other; [apply marker_not_pubkey; assumption|exact HS].
  - (* OS_marker_del *) apply SInv_del_other; [exact Hsort|apply marker_not_pubkey; assumption|exact HS].
  - (* OS_close *) exact HS.
  - (* OS_term *) exact HS.
Qed.

(* the main theorem: the invariant is kept by every step, as long as the storage
   counter stays inside the 64 bits of a record *)
Theorem oinv_step : forall st st', OInv' st -> ostep st st' -> o_rseq st' < M64 -> OInv' st'.
Proof.
  intros st st' Hinv Hstep Hrs'. split; [split|split].
  - exact (cinv_step _ _ (oif_cnt _ (proj1 Hinv)) Hstep).
  - exact (sinv_step _ _ Hinv Hstep Hrs').
  - exact (sorted_step _ _ (proj1 (proj2 Hinv)) Hstep).
  - exact Hrs'.
Qed.

Lemma osteps_mono st st' : osteps st st' ->
  o_max1 st' = o_max1 st /\ o_max2 st' = o_max2 st /\
  o_acked st <= o_acked st' /\ o_acc1 st <= o_acc1 st' /\
  o_compl st <= o_compl st' /\ o_recvd st <= o_recvd st' /\ o_acc2 st <= o_acc2 st' /\
  o_rseq st <= o_rseq st'.
Proof.
  induction 1 as [st|a b c Hab Hbc IH].
  - repeat split; lia.
  - pose proof (ostep_mono _ _ Hab). intuition (try congruence; try lia).
Qed.

Theorem oinv_steps : forall st st', OInv' st -> osteps st st' -> o_rseq st' < M64 -> OInv' st'.
Proof.
  intros st st' Hinv Hsteps. induction Hsteps as [st|a b c Hab Hbc IH]; intros Hrs'.
  - exact Hinv.
  - apply IH; [|exact Hrs']. apply (oinv_step _ _ Hinv Hab).
    pose proof (osteps_mono _ _ Hbc). lia.
Qed.

(* ================================================================== *)
(* 5. The initial state                                                *)

Definition ost_init (max1 max2 : N) (cid : list N) : ost :=
  mkOst max1 max2 0 0 0 [] 0 0 0 0 [] false false 1 [(0, encode_value cid 1)].

Lemma sinv_empty ak cp rs m :
  (forall k v, store_get m k = Some v -> ~ pubkey k) -> SInv ak ak cp cp cp rs m.
Proof.
  intros H. constructor; intros; try lia.
  - exfalso. eapply H; [eassumption|left; assumption].
  - exfalso. eapply H; [eassumption|right; assumption].
Qed.

Lemma oinv_init : forall max1 max2 cid, max1 <= 16384 -> max2 <= 16384 ->
  OInv' (mkOst max1 max2 0 0 0 [] 0 0 0 0 [] false false 1 [(0, encode_value cid 1)]).
Proof.
  intros max1 max2 cid H1 H2. split; [split|split].
  - constructor; cbn; rewrite ?len_nil; try lia; intros; discriminate.
  - cbn. apply sinv_empty. intros k v Hg [Hk|Hk]; cbn [store_get] in Hg;
      destruct (N.eqb_spec 0 k) as [<-|]; try discriminate;
      destruct zero_not_space; contradiction.
  - cbn. split; [reflexivity|exact I].
  - cbn. reflexivity.
Qed.

(* ================================================================== *)
(* Findings: [OInv] of Outbound.v as written                           *)

Theorem encode_value_wraps_mul p sq j : encode_value p (sq + j * M64) = encode_value p sq.
Proof.
  assert (E : le64 (sq + j * M64) = le64 sq).
  { unfold le64. rewrite <- (le_enc_mod 8 (sq + j * M64)), <- (le_enc_mod 8 sq). f_equal.
    change (256 ^ N.of_nat 8) with M64. apply N.mod_add. discriminate. }
  unfold encode_value. cbv zeta. rewrite E. reflexivity.
Qed.

(* D1: the unbounded order clauses cannot hold with two records in one group *)
Theorem OInv_two_records_absurd st : OInv st -> o_acked st + 1 < o_acc1 st -> False.
Proof.
  intros Hinv Hlt.
  destruct (oi_s1 _ Hinv (o_acked st)) as (r & t & ms & sq & Hh & _); [lia|].
  destruct (oi_s1 _ Hinv (o_acked st + 1)) as (r' & t' & ms' & sq' & Hh' & _); [lia|].
  assert (Hw : holds (o_store st) (key1 (o_acked st)) (pub1_packet r t ms (o_acked st)) (sq + sq' * M64)).
  { unfold holds. rewrite encode_value_wraps_mul. exact Hh. }
  assert (Hsucc : o_acked st < o_acked st + 1) by lia.
  pose proof (oi_ord1 _ Hinv (o_acked st) (o_acked st + 1) _ _ _ _ (N.le_refl _) Hsucc Hlt Hw Hh')
    as Hord.
  unfold M64 in Hord. lia.
Qed.

(* with at most one record per group the two invariants agree *)
Lemma OInv_of_fixed st : OInv_fixed st ->
  o_acc1 st <= o_acked st + 1 -> o_recvd st <= o_compl st + 1 -> o_acc2 st <= o_recvd st + 1 ->
  OInv st.
Proof.
  intros [[] []] H1 H2 H3. constructor; try assumption; intros; lia.
Qed.

Theorem OInv_not_preserved :
  exists st st', osteps (mkOst 16384 16384 0 0 0 [] 0 0 0 0 [] false false 1 [(0, encode_value [] 1)]) st /\
                 OInv st /\ OInv' st /\ ostep st st' /\ ~ OInv st'.
Proof.
  set (st0 := mkOst 16384 16384 0 0 0 [] 0 0 0 0 [] false false 1 [(0, encode_value [] 1)]).
  assert (Htc : topic_check [97] = None) by (vm_compute; reflexivity).
  assert (Hsz : publish_size [97] [] alo_space <= packet_max) by (vm_compute; discriminate).
  pose proof (OS_accept1 st0 false [97] [] 0 (o_sub1 st0) eq_refl eq_refl eq_refl Htc Hsz
                (or_introl eq_refl)) as S01.
  match type of S01 with ostep _ ?s => set (st1 := s) in * end.
  pose proof (OS_accept1 st1 false [97] [] 0 (o_sub1 st1) eq_refl eq_refl eq_refl Htc Hsz
                (or_introl eq_refl)) as S12.
  match type of S12 with ostep _ ?s => set (st2 := s) in * end.
  assert (H0 : OInv' st0) by (apply oinv_init; lia).
  assert (H1 : OInv' st1) by (apply (oinv_step _ _ H0 S01); reflexivity).
  exists st1, st2. split; [|split; [|split; [|split]]].
  - eapply osteps_step; [exact S01|apply osteps_refl].
  - apply OInv_of_fixed; [exact (proj1 H1)|cbn; lia..].
  - exact H1.
  - exact S12.
  - intros Hinv. apply (OInv_two_records_absurd _ Hinv). cbn. lia.
Qed.

(* D2: without [oi_qt] the invariant is not inductive (state not reachable) *)
Theorem OInv_not_inductive : exists st st', OInv st /\ ostep st st' /\ ~ OInv st'.
Proof.
  exists (mkOst 1 1 0 0 0 [0] 0 0 0 0 [] true false 1 []).
  eexists. split; [|split].
  - constructor; cbn; intros; try lia; try discriminate.
  - apply (OS_ack1 _ 0 []). reflexivity.
  - intros Hinv. pose proof (oi_c1 _ Hinv) as H. cbn in H. lia.
Qed.

(* ================================================================== *)
(* 6. Consequences                                                     *)

(* ---- C17 ---- *)

Theorem inflight_le_max st : OInv' st ->
  o_acc1 st - o_acked st <= o_max1 st /\ o_max1 st <= 16384 /\
  o_acc2 st - o_compl st <= o_max2 st /\ o_max2 st <= 16384 /\
  o_acked st <= o_acc1 st /\ o_compl st <= o_recvd st /\ o_recvd st <= o_acc2 st.
Proof. intros [[[] _] _]. lia. Qed.

Theorem ids_in_flight_distinct st n n' : OInv' st ->
  o_acked st <= n < o_acc1 st -> o_acked st <= n' < o_acc1 st -> n <> n' -> key1 n <> key1 n'.
Proof. intros H Hn Hn' Hne. pose proof (inflight_le_max _ H). apply key1_neq_near; lia. Qed.

Theorem ids_in_flight_distinct2 st n n' : OInv' st ->
  o_compl st <= n < o_acc2 st -> o_compl st <= n' < o_acc2 st -> n <> n' -> key2 n <> key2 n'.
Proof. intros H Hn Hn' Hne. pose proof (inflight_le_max _ H). apply key2_neq_near; lia. Qed.

Theorem ids_in_flight_levels n n' : key1 n <> key2 n'.
Proof. apply key1_key2. Qed.

Theorem ids_in_flight_range n :
  (key1 n <> 0 /\ 32768 <= key1 n <= 49151 /\ in_space (key1 n) alo_space) /\
  (key2 n <> 0 /\ 49152 <= key2 n <= 65535 /\ in_space (key2 n) eo_space).
Proof.
  pose proof (key1_range n). pose proof (key2_range n).
  repeat split; try lia; [apply key1_space|apply key2_space].
Qed.

(* ---- C01 ---- *)

Theorem record_kept st : OInv' st ->
  (forall n, o_acked st <= n < o_acc1 st ->
     exists retain topic msg sq, holds (o_store st) (key1 n) (pub1_packet retain topic msg n) sq
                                 /\ sq <= o_rseq st) /\
  (forall n, o_compl st <= n < o_recvd st ->
     exists sq, holds (o_store st) (key2 n) (packet_pubrel (key2 n)) sq /\ sq <= o_rseq st) /\
  (forall n, o_recvd st <= n < o_acc2 st ->
     exists retain topic msg sq, holds (o_store st) (key2 n) (pub2_packet retain topic msg n) sq
                                 /\ sq <= o_rseq st).
Proof. intros [[_ []] _]. repeat split; assumption. Qed.

Ltac removal_cases Hsort Hsome Hnone k :=
  try contradiction;
  try (rewrite store_get_put in Hnone; destruct (k =? _); [discriminate|contradiction]);
  try (rewrite (store_get_del _ _ _ Hsort) in Hnone;
       match type of Hnone with context [k =? ?K] =>
         destruct (N.eqb_spec k K) as [E|]; [|contradiction] end).

Theorem record_removed_only_by_ack1 st st' k :
  sorted_keys (o_store st) -> ostep st st' -> in_space k alo_space ->
  store_get (o_store st) k <> None -> store_get (o_store st') k = None ->
  k = key1 (o_acked st) /\ o_acked st' = o_acked st + 1 /\ exists x, o_q1 st = x :: o_q1 st'.
Proof.
  intros Hsort Hstep Hsp Hsome Hnone.
  ost_cases Hstep st; removal_cases Hsort Hsome Hnone k.
  - split; [exact E|split; [reflexivity|exists x; assumption]].
  - exfalso. rewrite E in Hsp. exact (space_disjoint _ Hsp (key2_space cp)).
  - exfalso. destruct (marker_not_space k0); [assumption|]. rewrite E in Hsp. contradiction.
Qed.

Theorem record_removed_only_by_comp2 st st' k :
  sorted_keys (o_store st) -> ostep st st' -> in_space k eo_space ->
  store_get (o_store st) k <> None -> store_get (o_store st') k = None ->
  k = key2 (o_compl st) /\ o_compl st' = o_compl st + 1 /\ o_compl st < o_recvd st /\
  exists x, o_q2 st = x :: o_q2 st'.
Proof.
  intros Hsort Hstep Hsp Hsome Hnone.
  ost_cases Hstep st; removal_cases Hsort Hsome Hnone k.
  - exfalso. rewrite E in Hsp. exact (space_disjoint _ (key1_space ak) Hsp).
  - split; [exact E|split; [reflexivity|split; [assumption|exists x; assumption]]].
  - exfalso. destruct (marker_not_space k0); [assumption|]. rewrite E in Hsp. contradiction.
Qed.

(* ---- C03 ---- *)

Theorem no_publish_after_pubrec st n : OInv' st -> o_compl st <= n < o_recvd st ->
  (exists sq, holds (o_store st) (key2 n) (packet_pubrel (key2 n)) sq /\ sq <= o_rseq st) /\
  (forall p sq, sq < M64 -> holds (o_store st) (key2 n) p sq ->
     p = packet_pubrel (key2 n) /\ head_of p = 98 /\
     forall retain topic msg n', p <> pub2_packet retain topic msg n').
Proof.
  intros [[_ HS] [_ Hrs]] Hn. destruct (si_s2r _ _ _ _ _ _ _ HS n Hn) as (sq0 & Hh0 & Hsq0).
  split; [exists sq0; split; assumption|].
  intros p sq Hb Hh. destruct (holds_inj _ _ _ _ _ _ Hh Hh0 Hb ltac:(lia)) as [-> _].
  split; [reflexivity|split; [apply head_of_pubrel|]]. intros. apply pubrel_not_pub2.
Qed.

Lemma value_eq_dec (a b : option (list N)) : {a = b} + {a <> b}.
Proof. decide equality. apply list_eq_dec, N.eq_dec. Qed.

(* while n stays in the level-2 window, the only step writing key2 n is OS_rec2 for
   n = recvd, and it writes the PUBREL *)
Theorem key2_writer st st' n : OInv' st -> ostep st st' ->
  o_compl st <= n < o_acc2 st -> o_compl st' <= n ->
  store_get (o_store st') (key2 n) <> store_get (o_store st) (key2 n) ->
  n = o_recvd st /\ o_recvd st' = o_recvd st + 1 /\
  holds (o_store st') (key2 n) (packet_pubrel (key2 n)) (o_rseq st + 1).
Proof.
  intros [[HC HS] [Hsort Hrs]] Hstep Hn Hn' Hdiff.
  destruct HC as [Hc1 Hc2 Hmax Hw1 Hw2 Hq1 Hq2 Hqt].
  ost_cases Hstep st; try contradiction.
  - exfalso. apply Hdiff, store_get_put_other. intros E. exact (key1_key2 _ _ (eq_sym E)).
  - exfalso. apply Hdiff, store_get_put_other, key2_neq_near; lia.
  - exfalso. apply Hdiff, store_get_del_other; [exact Hsort|].
    intros E. exact (key1_key2 _ _ (eq_sym E)).
  - destruct (N.eq_dec n rc) as [->|Hne].
    + split; [reflexivity|split; [reflexivity|apply holds_put_same]].
    + exfalso. term_cases tm Hq1 Hq2 Hqt; [rewrite len_nil in *; lia|].
      apply Hdiff, store_get_put_other, key2_neq_near; lia.
  - exfalso. apply Hdiff, store_get_del_other; [exact Hsort|]. apply key2_neq_near; lia.
  - exfalso. apply Hdiff, store_get_put_other. intros E. symmetry in E. revert E.
    apply (marker_not_key k n); assumption.
  - exfalso. apply Hdiff, store_get_del_other; [exact Hsort|]. intros E. symmetry in E. revert E.
    apply (marker_not_key k n); assumption.
Qed.

Theorem pubrel_stable_step st st' n : OInv' st -> ostep st st' ->
  o_compl st <= n < o_recvd st -> o_compl st' <= n ->
  store_get (o_store st') (key2 n) = store_get (o_store st) (key2 n).
Proof.
  intros Hinv Hstep Hn Hn'. pose proof (inflight_le_max _ Hinv).
  destruct (value_eq_dec (store_get (o_store st') (key2 n)) (store_get (o_store st) (key2 n)))
    as [E|Hdiff]; [exact E|].
  destruct (key2_writer _ _ n Hinv Hstep ltac:(lia) Hn' Hdiff) as [E _]. lia.
Qed.

(* once the PUBREC is applied, the record of n is the same PUBREL record until the
   PUBCOMP takes n out of the window: no step turns it back into a PUBLISH *)
Theorem pubrel_stable st st' n : OInv' st -> osteps st st' -> o_rseq st' < M64 ->
  o_compl st <= n < o_recvd st -> o_compl st' <= n ->
  n < o_recvd st' /\ store_get (o_store st') (key2 n) = store_get (o_store st) (key2 n).
Proof.
  intros Hinv Hsteps. induction Hsteps as [st|a b c Hab Hbc IH]; intros Hrs' Hn Hn'.
  - split; [lia|reflexivity].
  - pose proof (ostep_mono _ _ Hab). pose proof (osteps_mono _ _ Hbc).
    assert (Hb : OInv' b) by (apply (oinv_step _ _ Hinv Hab); lia).
    destruct (IH Hb Hrs' ltac:(lia) Hn') as [Hlt E]. split; [exact Hlt|].
    rewrite E. apply (pubrel_stable_step _ _ _ Hinv Hab Hn). lia.
Qed.

(* ---- C05 ---- *)

Theorem resend_order st : OInv' st ->
  (forall n n' p p' sq sq', o_acked st <= n -> n < n' -> n' < o_acc1 st -> sq < M64 -> sq' < M64 ->
     holds (o_store st) (key1 n) p sq -> holds (o_store st) (key1 n') p' sq' -> sq < sq') /\
  (forall n n' p p' sq sq', o_compl st <= n -> n < n' -> n' < o_recvd st -> sq < M64 -> sq' < M64 ->
     holds (o_store st) (key2 n) p sq -> holds (o_store st) (key2 n') p' sq' -> sq < sq') /\
  (forall n n' p p' sq sq', o_recvd st <= n -> n < n' -> n' < o_acc2 st -> sq < M64 -> sq' < M64 ->
     holds (o_store st) (key2 n) p sq -> holds (o_store st) (key2 n') p' sq' -> sq < sq').
Proof. intros [[_ []] _]. repeat split; assumption. Qed.

(* the same with the records named: what a resend in storage order finds *)
Theorem resend_order1 st n n' : OInv' st -> o_acked st <= n -> n < n' -> n' < o_acc1 st ->
  exists r t ms sq r' t' ms' sq',
    holds (o_store st) (key1 n) (pub1_packet r t ms n) sq /\
    holds (o_store st) (key1 n') (pub1_packet r' t' ms' n') sq' /\ sq < sq' /\ sq' <= o_rseq st.
Proof.
  intros [[_ HS] [_ Hrs]] H1 H2 H3. destruct HS as [Hs1 _ _ _ _ Hd1 _ _].
  destruct (Hs1 n) as (r & t & ms & sq & Hh & Hsq); [lia|].
  destruct (Hs1 n') as (r' & t' & ms' & sq' & Hh' & Hsq'); [lia|].
  exists r, t, ms, sq, r', t', ms', sq'. repeat split; try assumption.
  eapply (Hd1 n n' _ _ sq sq' H1 H2 H3); try eassumption; lia.
Qed.

Theorem resend_order2r st n n' : OInv' st -> o_compl st <= n -> n < n' -> n' < o_recvd st ->
  exists sq sq',
    holds (o_store st) (key2 n) (packet_pubrel (key2 n)) sq /\
    holds (o_store st) (key2 n') (packet_pubrel (key2 n')) sq' /\ sq < sq' /\ sq' <= o_rseq st.
Proof.
  intros [[_ HS] [_ Hrs]] H1 H2 H3. destruct HS as [_ Hs2r _ _ _ _ Hd2r _].
  destruct (Hs2r n) as (sq & Hh & Hsq); [lia|].
  destruct (Hs2r n') as (sq' & Hh' & Hsq'); [lia|].
  exists sq, sq'. repeat split; try assumption.
  eapply (Hd2r n n' _ _ sq sq' H1 H2 H3); try eassumption; lia.
Qed.

Theorem resend_order2p st n n' : OInv' st -> o_recvd st <= n -> n < n' -> n' < o_acc2 st ->
  exists r t ms sq r' t' ms' sq',
    holds (o_store st) (key2 n) (pub2_packet r t ms n) sq /\
    holds (o_store st) (key2 n') (pub2_packet r' t' ms' n') sq' /\ sq < sq' /\ sq' <= o_rseq st.
Proof.
  intros [[_ HS] [_ Hrs]] H1 H2 H3. destruct HS as [_ _ Hs2p _ _ _ _ Hd2p].
  destruct (Hs2p n) as (r & t & ms & sq & Hh & Hsq); [lia|].
  destruct (Hs2p n') as (r' & t' & ms' & sq' & Hh' & Hsq'); [lia|].
  exists r, t, ms, sq, r', t', ms', sq'. repeat split; try assumption.
  eapply (Hd2p n n' _ _ sq sq' H1 H2 H3); try eassumption; lia.
Qed.

(* every accepted message gets the identifier of its acceptance position (the packet
   saved is [pub1_packet .. (o_acc1 st)], whose identifier is [key1 (o_acc1 st)]), and
   the next storage number *)
Theorem accept_id1 st st' : ostep st st' -> o_acc1 st' <> o_acc1 st ->
  o_acc1 st' = o_acc1 st + 1 /\
  exists retain topic msg,
    holds (o_store st') (key1 (o_acc1 st)) (pub1_packet retain topic msg (o_acc1 st)) (o_rseq st + 1).
Proof.
  intros Hstep Hne. ost_cases Hstep st; try contradiction.
  split; [reflexivity|]. exists retain, topic, msg. apply holds_put_same.
Qed.

Theorem accept_id2 st st' : ostep st st' -> o_acc2 st' <> o_acc2 st ->
  o_acc2 st' = o_acc2 st + 1 /\
  exists retain topic msg,
    holds (o_store st') (key2 (o_acc2 st)) (pub2_packet retain topic msg (o_acc2 st)) (o_rseq st + 1).
Proof.
  intros Hstep Hne. ost_cases Hstep st; try contradiction.
  split; [reflexivity|]. exists retain, topic, msg. apply holds_put_same.
Qed.
