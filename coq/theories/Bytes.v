(* L0: bytes and fixed-width integer codecs.  Definitions only (executable). *)
From Coq Require Export NArith List Bool Lia.
Export ListNotations.
Open Scope N_scope.

(* A byte is an N below 256; a byte string is a list of them. *)
Definition isbyte (b : N) : Prop := b < 256.
Definition bytes (l : list N) : Prop := Forall isbyte l.
Definition isbyteb (b : N) : bool := b <? 256.
Definition bytesb (l : list N) : bool := forallb isbyteb l.

Definition len (l : list N) : N := N.of_nat (length l).

(* big-endian 16 bit, as the Go code writes it: byte(x>>8), byte(x) *)
Definition be16 (x : N) : list N := [ (x / 256) mod 256 ; x mod 256 ].
Definition be16dec (a b : N) : N := a * 256 + b.

(* binary.BigEndian.PutUint32 *)
Definition be32 (x : N) : list N :=
  [ (x / 16777216) mod 256 ; (x / 65536) mod 256 ; (x / 256) mod 256 ; x mod 256 ].
Definition be32dec (l : list N) : N :=
  match l with
  | [a; b; c; d] => a * 16777216 + b * 65536 + c * 256 + d
  | _ => 0
  end.

(* binary.LittleEndian.PutUint64 *)
Fixpoint le_enc (n : nat) (x : N) : list N :=
  match n with
  | O => []
  | S n' => x mod 256 :: le_enc n' (x / 256)
  end.
Definition le64 (x : N) : list N := le_enc 8 x.
Fixpoint le_decode (l : list N) : N :=
  match l with
  | [] => 0
  | b :: r => b + 256 * le_decode r
  end.

(* replace the byte at index i (identity when out of range) *)
Fixpoint upd (i : nat) (b : N) (l : list N) : list N :=
  match l, i with
  | [], _ => []
  | _ :: r, O => b :: r
  | x :: r, S i' => x :: upd i' b r
  end.

Fixpoint rep (n : nat) (b : N) : list N :=
  match n with O => [] | S n' => b :: rep n' b end.

(* Compact literal used by generated case files: a byte string of length n
   given as one big-endian number.  Linear in the number of bits. *)
Fixpoint pos_bytes (p : positive) (k : nat) (cur w : N) (acc : list N) : list N :=
  match p with
  | xH => (cur + w) :: acc
  | xO q => match k with
            | 7%nat => pos_bytes q 0 0 1 (cur :: acc)
            | _ => pos_bytes q (S k) cur (2 * w) acc
            end
  | xI q => match k with
            | 7%nat => pos_bytes q 0 0 1 ((cur + w) :: acc)
            | _ => pos_bytes q (S k) (cur + w) (2 * w) acc
            end
  end.
Definition B (n : nat) (x : N) : list N :=
  match x with
  | N0 => rep n 0
  | Npos p => let r := pos_bytes p 0 0 1 [] in rep (n - length r) 0 ++ r
  end.

Definition list_eqb (a b : list N) : bool :=
  if list_eq_dec N.eq_dec a b then true else false.

