(* L2, abstract layer: the outbound QoS 1/2 bookkeeping as a small transition system
   over (counters, queues, storage counter, Persistence content).  Session.step refines
   it (OutboundRefine.v); the invariants behind C01 C02 C03 C05 C17 are proved on this
   small system (OutboundInv.v).  Definitions only. *)
From Coq Require Import ZArith.
From RecordUpdate Require Import RecordUpdate.
From MQ Require Export Session.

(* ---------- closed system: client + genuine Persistence ---------- *)

Record tapes := mkTapes {
  tp_stf : list bool;        (* which Persistence operations fail *)
  tp_dial : list bool;
  tp_wr : list wanswer;
  tp_rd : list rans
}.
Definition world_of (m : store) (tp : tapes) : world :=
  mkWorld [] (tp_stf tp) (Some m) (tp_dial tp) (tp_wr tp) (tp_rd tp) [].
Definition store_of_world (w : world) : store := match w_store w with Some m => m | None => [] end.

Record sys := mkSys { sy_c : client; sy_m : store }.

(* one API call under an arbitrary environment script; None = script too short *)
Definition exec (s : sys) (o : op) (tp : tapes) : option (sys * retv * list req) :=
  match step (sy_c s) o (world_of (sy_m s) tp) with
  | Some ((c', r), w) => Some (mkSys c' (store_of_world w), r, rev (w_log w))
  | None => None
  end.

Definition init_sys (cf : scfg) (cid : list N) (tp : tapes) : option sys :=
  match op_init cf cid (world_of [] tp) with
  | Some ((Some c, _), w) => Some (mkSys c (store_of_world w))
  | _ => None
  end.

(* every history: any operations under any scripts (a step whose script is too short
   does not happen) *)
Fixpoint run (s : sys) (h : list (op * tapes)) : sys :=
  match h with
  | [] => s
  | (o, tp) :: r => match exec s o tp with
                    | Some (s', _, _) => run s' r
                    | None => run s r
                    end
  end.

Definition reachable (s : sys) : Prop :=
  exists cf cid tp0 h s0, init_sys cf cid tp0 = Some s0 /\ s = run s0 h.

(* ---------- the abstract outbound state ---------- *)

Definition key1 (n : N) : N := N.lor (N.land n id_mask) alo_space.
Definition key2 (n : N) : N := N.lor (N.land n id_mask) eo_space.

Record ost := mkOst {
  o_max1 : N; o_max2 : N;
  o_acked : N; o_sub1 : N; o_acc1 : N; o_q1 : list N;
  o_compl : N; o_recvd : N; o_sub2 : N; o_acc2 : N; o_q2 : list N;
  o_term : bool;           (* termCallbacks ran *)
  o_closed : bool;         (* Close/Disconnect happened *)
  o_rseq : N;
  o_store : store
}.
#[export] Instance eta_ost : Settable _ := settable! mkOst
  <o_max1; o_max2; o_acked; o_sub1; o_acc1; o_q1; o_compl; o_recvd; o_sub2; o_acc2; o_q2;
   o_term; o_closed; o_rseq; o_store>.

Definition ost_of (s : sys) : ost :=
  let c := sy_c s in
  {| o_max1 := s_max1 (k_cfg c); o_max2 := s_max2 (k_cfg c);
     o_acked := k_acked c; o_sub1 := k_sub1 c; o_acc1 := k_acc1 c; o_q1 := k_q1 c;
     o_compl := k_compl c; o_recvd := k_recvd c; o_sub2 := k_sub2 c; o_acc2 := k_acc2 c; o_q2 := k_q2 c;
     o_term := k_seqclosed c; o_closed := k_closed c; o_rseq := k_rseq c; o_store := sy_m s |}.

(* the packets the client persists *)
Definition pub1_packet (retain : bool) (topic msg : list N) (n : N) : list N :=
  publish_packet (head_publish 1 retain false) topic msg (key1 n).
Definition pub2_packet (retain : bool) (topic msg : list N) (n : N) : list N :=
  publish_packet (head_publish 2 retain false) topic msg (key2 n).

(* atomic changes of the outbound bookkeeping *)
Inductive ostep : ost -> ost -> Prop :=
(* PublishAtLeastOnce accepted: record saved, enqueued, possibly submitted at once *)
| OS_accept1 : forall st retain topic msg x sub',
    o_term st = false -> o_closed st = false -> len (o_q1 st) < o_max1 st ->
    topic_check topic = None -> publish_size topic msg alo_space <= packet_max ->
    (sub' = o_sub1 st \/ (o_acc1 st <= o_sub1 st /\ sub' = o_acc1 st + 1)) ->
    ostep st (st <| o_store := store_put (o_store st) (key1 (o_acc1 st))
                                 (encode_value (pub1_packet retain topic msg (o_acc1 st)) (o_rseq st + 1)) |>
                 <| o_rseq := o_rseq st + 1 |> <| o_acc1 := o_acc1 st + 1 |>
                 <| o_q1 := o_q1 st ++ [x] |> <| o_sub1 := sub' |>)
| OS_accept2 : forall st retain topic msg x sub',
    o_term st = false -> o_closed st = false -> len (o_q2 st) < o_max2 st ->
    topic_check topic = None -> publish_size topic msg eo_space <= packet_max ->
    (sub' = o_sub2 st \/ (o_acc2 st <= o_sub2 st /\ sub' = o_acc2 st + 1)) ->
    ostep st (st <| o_store := store_put (o_store st) (key2 (o_acc2 st))
                                 (encode_value (pub2_packet retain topic msg (o_acc2 st)) (o_rseq st + 1)) |>
                 <| o_rseq := o_rseq st + 1 |> <| o_acc2 := o_acc2 st + 1 |>
                 <| o_q2 := o_q2 st ++ [x] |> <| o_sub2 := sub' |>)
(* a Save that failed still consumed a storage sequence number *)
| OS_save_failed : forall st, ostep st (st <| o_rseq := o_rseq st + 1 |>)
(* in-order PUBACK applied: record deleted, then counted, then the exchange closed *)
| OS_ack1 : forall st x q,
    o_q1 st = x :: q ->
    ostep st (st <| o_store := store_del (o_store st) (key1 (o_acked st)) |>
                 <| o_acked := o_acked st + 1 |> <| o_q1 := q |>)
(* in-order PUBREC applied: PUBREL saved over the PUBLISH record *)
| OS_rec2 : forall st,
    o_recvd st - o_compl st < len (o_q2 st) ->
    ostep st (st <| o_store := store_put (o_store st) (key2 (o_recvd st))
                                 (encode_value (packet_pubrel (key2 (o_recvd st))) (o_rseq st + 1)) |>
                 <| o_rseq := o_rseq st + 1 |> <| o_recvd := o_recvd st + 1 |>)
(* in-order PUBCOMP applied *)
| OS_comp2 : forall st x q,
    o_compl st < o_recvd st -> o_q2 st = x :: q ->
    ostep st (st <| o_store := store_del (o_store st) (key2 (o_compl st)) |>
                 <| o_compl := o_compl st + 1 |> <| o_q2 := q |>)
(* (re)submission progress: the submit counters only grow, up to the accept counters *)
| OS_submit : forall st s1 s2,
    o_sub1 st <= s1 <= N.max (o_sub1 st) (o_acc1 st) -> o_sub2 st <= s2 <= N.max (o_sub2 st) (o_acc2 st) ->
    ostep st (st <| o_sub1 := s1 |> <| o_sub2 := s2 |>)
(* reception markers live under keys with the remote flag; client identifier under key 0 *)
| OS_marker_save : forall st k v,
    N.testbit k 16 = true ->
    ostep st (st <| o_store := store_put (o_store st) k (encode_value v (o_rseq st + 1)) |>
                 <| o_rseq := o_rseq st + 1 |>)
| OS_marker_del : forall st k,
    N.testbit k 16 = true ->
    ostep st (st <| o_store := store_del (o_store st) k |>)
(* Close / Disconnect; termCallbacks *)
| OS_close : forall st, ostep st (st <| o_closed := true |>)
| OS_term : forall st, ostep st (st <| o_term := true |> <| o_q1 := [] |> <| o_q2 := [] |>).

Inductive osteps : ost -> ost -> Prop :=
| osteps_refl : forall st, osteps st st
| osteps_step : forall a b c, ostep a b -> osteps b c -> osteps a c.

(* AdoptSession is not a small step: it rebuilds the whole state from the Persistence. *)
Definition adopts (st st' : ost) : Prop :=
  exists cf m1 m2 tp c' r w,
    op_adopt cf m1 m2 (world_of (o_store st) tp) = Some ((Some c', r), w) /\
    st' = ost_of (mkSys c' (store_of_world w)).

(* ---------- what the invariants talk about ---------- *)

Definition head_of (packet : list N) : N := match packet with h :: _ => h | [] => 0 end.

(* the record under key k is a genuine value holding packet p with storage number sq *)
Definition holds (m : store) (k : N) (p : list N) (sq : N) : Prop :=
  store_get m k = Some (encode_value p sq).

Definition in_space (k space : N) : Prop := k - N.land k id_mask = space.

Record OInv (st : ost) : Prop := mkOInv {
  (* counters *)
  oi_c1 : o_acked st <= o_acc1 st /\ o_sub1 st <= o_acc1 st;
  oi_c2 : o_compl st <= o_recvd st /\ o_recvd st <= o_acc2 st /\ o_sub2 st <= o_acc2 st;
  (* windows within the configured limits, which are at most the identifier space *)
  oi_max : o_max1 st <= 16384 /\ o_max2 st <= 16384;
  oi_w1 : o_acc1 st - o_acked st <= o_max1 st;
  oi_w2 : o_acc2 st - o_compl st <= o_max2 st;
  (* queue = one exchange per unacknowledged message (until termination) *)
  oi_q1 : o_term st = false -> len (o_q1 st) = o_acc1 st - o_acked st;
  oi_q2 : o_term st = false -> len (o_q2 st) = o_acc2 st - o_compl st;
  (* the Persistence holds exactly the unacknowledged transfers, at the right stage *)
  oi_s1 : forall n, o_acked st <= n < o_acc1 st ->
            exists retain topic msg sq, holds (o_store st) (key1 n) (pub1_packet retain topic msg n) sq
                                        /\ sq <= o_rseq st;
  oi_s2r : forall n, o_compl st <= n < o_recvd st ->
            exists sq, holds (o_store st) (key2 n) (packet_pubrel (key2 n)) sq /\ sq <= o_rseq st;
  oi_s2p : forall n, o_recvd st <= n < o_acc2 st ->
            exists retain topic msg sq, holds (o_store st) (key2 n) (pub2_packet retain topic msg n) sq
                                        /\ sq <= o_rseq st;
  (* nothing else lives in the two publish key spaces *)
  oi_only1 : forall k v, store_get (o_store st) k = Some v -> in_space k alo_space ->
               exists n, o_acked st <= n < o_acc1 st /\ k = key1 n;
  oi_only2 : forall k v, store_get (o_store st) k = Some v -> in_space k eo_space ->
               exists n, o_compl st <= n < o_acc2 st /\ k = key2 n;
  (* storage numbers follow acceptance order inside each group *)
  oi_ord1 : forall n n' p p' sq sq', o_acked st <= n -> n < n' -> n' < o_acc1 st ->
              holds (o_store st) (key1 n) p sq -> holds (o_store st) (key1 n') p' sq' -> sq < sq';
  oi_ord2r : forall n n' p p' sq sq', o_compl st <= n -> n < n' -> n' < o_recvd st ->
              holds (o_store st) (key2 n) p sq -> holds (o_store st) (key2 n') p' sq' -> sq < sq';
  oi_ord2p : forall n n' p p' sq sq', o_recvd st <= n -> n < n' -> n' < o_acc2 st ->
              holds (o_store st) (key2 n) p sq -> holds (o_store st) (key2 n') p' sq' -> sq < sq'
}.
