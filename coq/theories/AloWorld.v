(* C01, broker side: the closed loop  at-least-once client + connection + conforming broker.

   Outbound.v / OutboundInv.v / OutboundRefine.v prove the CLIENT side of C01 (the record of
   an accepted message stays in the Persistence until the in-order PUBACK, ResendOrder.v: what
   connect puts on the wire).  This file closes the loop for QoS 1 with a small transition
   system [astep] over

     - the client, reduced to its at-least-once numbers and its exchange queue
       [acl] = (acked, sub1, acc1, max1, queue length, terminated)
       ([aslim : ost -> acl]; [ostep_aslim]: every [ostep] is an [alstep] or a stutter of the
       slim machine: OS_accept1 -> LS_accept, OS_ack1 -> LS_ack (pops the queue head),
       OS_submit -> LS_submit, OS_term -> LS_term, everything else (also OS_save_failed, a
       failed Delete is no ostep at all) invisible; [adopts_aslim]: AdoptSession is an
       [arestart]; [astep_client]: the client part of every world step is an [alstep], an
       [arestart] or a stutter),
     - ONE current connection: two FIFO queues [a_c2b] (client to broker) and [a_b2c]; nothing
       is lost, duplicated or reordered on a live connection; when it breaks ([A_break], also
       what the client does itself on an out-of-order PUBACK [A_reject], on a failed Delete
       [A_delete_fail], on a failed/short write [A_accept_wfail]) both queues are emptied,
     - a conforming broker for QoS 1 (MQTT 3.1.1 section 4.3.2): on PUBLISH id, DUP or not,
       initiate onward delivery (append to [a_fwd]) and answer PUBACK id.  No session state.
     - ghost data: every packet carries, next to its identifier, the ABSOLUTE sequence number
       of its message (x = a_base + n); the broker copies it into the PUBACK and into [a_fwd]
       but never looks at it.  [a_base] absorbs the counter rebase of AdoptSession.
     - Persistence faults: Save fails at accept ([A_save_fail]: nothing accepted,
       OS_save_failed), Delete fails at the PUBACK ([A_delete_fail]: ConnectProofs.
       on_puback_cases: the client is unchanged, HErr E_store, i.e. toOffline; the record
       stays), Load or write fails inside connect's resend ([A_reconnect_fail]: packets
       acked .. k-1 were written, the broker processed acked .. j-1 of them, the submit counter
       is ResendOrder.sub_at, the connection is dropped).
     - [resend1]: what connect writes for level 1 on a new connection: PUBLISH for every
       n in [acked, acc1) in order, DUP iff n < sub1  (ResendOrder.resend_writes_level1).

   Theorems (every reachable state, every interleaving, faults at any point):
     aworld_inv              the invariant [AInv]
     alo_record_kept         (a) every n in [acked, acc1) has its record (tie to OInv')
     acked_forwarded         (a) x < base + acked -> x in a_fwd (at least once)
     only_accepted_fwd           x in a_fwd -> x < base + acc1
     accepted_monotone       base+acked, base+acc1 never decrease: nothing accepted disappears
     exchange_closes_only_by_ack (b) the queue shrinks (client not terminated) only in the step
                             that applies the in-order PUBACK of message [acked], by one, and
                             that message has been forwarded
     open_exchanges          (b) not terminated -> queue length = acc1 - acked
     exchange_pop_only_by_ack1   (b) the same on [ostep]
     inflight_ack_window     (c) a PUBACK in flight stands for exactly one n of the window
     inflight_pub_window     (c) the same for a PUBLISH in flight
     alo_never_rejects       (c) on a live connection the PUBACKs arrive in order: [A_reject]
                             is never enabled (no livelock by resets)
     online_no_backlog       a live connection has no backlog (sub1 = acc1)
     agood_step_measure / aprogress_enabled / aquiescent_complete /
     agood_run_bound / agood_run_complete / agood_run_exists      (d)
     restart_good_run_exists (d) from every reachable state: Restart + amu good steps
     fwd_stable / fwd_only_by_publish
     duplicate_after_lost_puback  (e) a message forwarded twice: at-most-once does NOT hold
     delete_fault_restart_complete, resend_fault_trace   concrete traces ([aexec]).        *)
From Coq Require Import ZArith ZifyN ZifyNat ZifyBool Lia List.
From MQ Require Import RecordProofs OutboundInv AdoptProofs ConnectProofs ResendOrder.
Ltac Zify.zify_post_hook ::= Z.div_mod_to_equations.
Import ListNotations.
Local Open Scope N_scope.

#[local] Arguments key1 : simpl never.
#[local] Arguments len : simpl never.
#[local] Arguments N.max : simpl never.
#[local] Arguments sub_at : simpl never.

(* ================================================================== *)
(* 1. The slim at-least-once client                                    *)

Record acl := mkAcl {
  l_acked : N; l_sub : N; l_acc : N; l_max : N;
  l_q : N;              (* length of the exchange queue: one open exchange per unacknowledged message *)
  l_term : bool         (* termCallbacks ran (after Close/Disconnect) *)
}.

Definition aslim (st : ost) : acl :=
  mkAcl (o_acked st) (o_sub1 st) (o_acc1 st) (o_max1 st) (len (o_q1 st)) (o_term st).

Inductive alstep : acl -> acl -> Prop :=
(* PublishAtLeastOnce accepted: a new exchange at the tail; submitted at once or left for connect *)
| LS_accept : forall c s', l_term c = false -> l_q c < l_max c ->
    (s' = l_sub c \/ (l_acc c <= l_sub c /\ s' = l_acc c + 1)) ->
    alstep c (mkAcl (l_acked c) s' (l_acc c + 1) (l_max c) (l_q c + 1) false)
(* in-order PUBACK applied: the exchange at the head closes *)
| LS_ack : forall c, 0 < l_q c ->
    alstep c (mkAcl (l_acked c + 1) (l_sub c) (l_acc c) (l_max c) (l_q c - 1) (l_term c))
| LS_submit : forall c s, l_sub c <= s <= N.max (l_sub c) (l_acc c) ->
    alstep c (mkAcl (l_acked c) s (l_acc c) (l_max c) (l_q c) (l_term c))
(* termCallbacks: every open exchange gets ErrClosed; the records stay *)
| LS_term : forall c, alstep c (mkAcl (l_acked c) (l_sub c) (l_acc c) (l_max c) 0 true).

(* process stop + AdoptSession (AdoptProofs.adopt_spec): window kept, counters moved down by a
   multiple of 2^14 (to 0 when nothing is pending), everything counts as submitted, a fresh
   queue with one exchange per pending message, limit of the new configuration *)
Definition arestart (c c' : acl) : Prop :=
  l_term c' = false /\ l_sub c' = l_acc c' /\ l_q c' = l_acc c' - l_acked c' /\
  l_acked c' <= l_acc c' /\ l_acc c' - l_acked c' <= l_max c' /\ l_max c' <= 16384 /\
  l_acc c' - l_acked c' = l_acc c - l_acked c /\
  l_acked c' <= l_acked c /\
  (l_acked c < l_acc c -> (l_acked c - l_acked c') mod 16384 = 0).

Theorem ostep_aslim : forall st st', OInv' st -> ostep st st' ->
  aslim st' = aslim st \/ alstep (aslim st) (aslim st').
Proof.
  intros st st' [[HC _] _] Hstep.
  destruct HC as [Hc1 Hc2 Hmax Hw1 Hw2 Hq1 Hq2 Hqt].
  ost_cases Hstep st; unfold aslim; cbn; try (left; reflexivity).
  - (* OS_accept1 *) right. subst tm. rewrite len_app1.
    apply (LS_accept (mkAcl ak sb1 ac1 mx1 (len q1) false) sub'); cbn; auto.
  - (* OS_ack1 *) right. subst q1. rewrite len_cons.
    pose proof (LS_ack (mkAcl ak sb1 ac1 mx1 (len q + 1) tm)) as L. cbn in L.
    replace (len q + 1 - 1) with (len q) in L by lia. apply L. lia.
  - (* OS_submit *) right. apply (LS_submit (mkAcl ak sb1 ac1 mx1 (len q1) tm) s1). cbn. assumption.
  - (* OS_term *) right. apply (LS_term (mkAcl ak sb1 ac1 mx1 (len q1) tm)).
Qed.

Theorem adopts_aslim : forall st st',
  OInv' st -> known_keys st -> markers_genuine st -> adopts st st' ->
  arestart (aslim st) (aslim st').
Proof.
  intros st st' HI Hkeys Hmark (cf & m1 & m2 & tp & c' & r & w & E & ->).
  pose proof (ci_c1 st (oif_cnt st (proj1 HI))) as C1.
  destruct (adopt_some st cf m1 m2 tp c' r w HI Hkeys Hmark E)
    as (_ & _ & _ & _ & _ & Hterm & _ & W1 & W1' & Hsub & _ & _ & _ & Hq1 & _ & _ & _ & HI').
  destruct HI' as [[HC' _] _].
  pose proof (ci_c1 _ HC') as D1. pose proof (ci_max _ HC') as Dm. pose proof (ci_w1 _ HC') as Dw.
  unfold arestart, aslim.
  cbn [ost_of sy_c sy_m o_acked o_sub1 o_acc1 o_max1 o_q1 o_term
       l_acked l_sub l_acc l_max l_q l_term] in *.
  destruct (N.eq_dec (o_acked st) (o_acc1 st)) as [E1|N1].
  - destruct (W1' E1) as (A & B). rewrite A, B in *. repeat split; try assumption; try lia.
  - destruct (W1 ltac:(lia)) as (A & B). repeat split; try assumption; try lia.
Qed.

(* (a), client side, through the tie: the record of every unacknowledged accepted message
   is in the Persistence (OutboundInv.record_kept) *)
Theorem alo_record_kept : forall st, OInv' st ->
  forall n, l_acked (aslim st) <= n < l_acc (aslim st) ->
    exists retain topic msg sq, holds (o_store st) (key1 n) (pub1_packet retain topic msg n) sq
                                /\ sq <= o_rseq st.
Proof. intros st HI. exact (proj1 (record_kept st HI)). Qed.

(* (b), client side: the exchange queue changes only by an accept (new tail), by the in-order
   PUBACK (head popped, record of [acked] deleted, acked + 1) or by termination *)
Theorem exchange_pop_only_by_ack1 : forall st st', ostep st st' -> o_q1 st' <> o_q1 st ->
  (exists x, o_q1 st' = o_q1 st ++ [x] /\ o_acc1 st' = o_acc1 st + 1 /\ o_acked st' = o_acked st)
  \/ (exists x, o_q1 st = x :: o_q1 st' /\ o_acked st' = o_acked st + 1 /\ o_acc1 st' = o_acc1 st /\
                o_store st' = store_del (o_store st) (key1 (o_acked st)))
  \/ (o_term st' = true /\ o_q1 st' = []).
Proof.
  intros st st' Hstep Hne. ost_cases Hstep st; try contradiction.
  - left. exists x. auto.
  - right; left. exists x. auto.
  - right; right. auto.
Qed.

(* the guard of the world's client for a PUBACK is Session.on_puback's (ConnectProofs.ack1_guard,
   on_puback_cases, on_puback_violation) *)
Theorem world_guard_is_ack1_guard : forall c body, len body = 2 ->
  (ack1_guard c body <-> u16 body = key1 (k_acked c) /\ 0 < len (k_q1 c)).
Proof.
  intros c body Hl. unfold ack1_guard. fold (key1 (k_acked c)). split.
  - intros (_ & _ & _ & E & Q). split; [exact E|].
    destruct (k_q1 c); [contradiction|rewrite len_cons; lia].
  - intros (E & Q). rewrite E. pose proof (key1_range (k_acked c)) as R.
    pose proof (key1_space (k_acked c)) as S. unfold in_space in S.
    repeat split; try assumption; try lia.
    intros Z. rewrite Z, len_nil in Q. lia.
Qed.

(* ================================================================== *)
(* 2. The world                                                        *)

(* packets; last component = ghost absolute sequence number *)
Inductive aup := APub (dup : bool) (id x : N).       (* client to broker: PUBLISH, QoS 1 *)
Inductive adown := AAck (id x : N).                  (* broker to client: PUBACK *)

Record aworld := mkAW {
  a_cl : acl;                 (* the client's numbers *)
  a_base : N;                 (* ghost: absolute number = a_base + client's number *)
  a_on : bool;                (* the client holds a connection *)
  a_c2b : list aup;
  a_b2c : list adown;
  a_fwd : list N              (* ghost: absolute numbers of the messages forwarded, newest first *)
}.

Definition aseq (lo hi : N) : list N := nseq lo (N.to_nat (hi - lo)).

Definition mk_pub1 (b sub n : N) : aup := APub (n <? sub) (key1 n) (b + n).

(* connect's resend for level 1 (ResendOrder.resend_writes_level1: consecutive sequence numbers
   from acked, packet = the stored PUBLISH with identifier key1 n and DUP iff n < sub1) *)
Definition resend1 (b : N) (c : acl) : list aup :=
  map (mk_pub1 b (l_sub c)) (aseq (l_acked c) (l_acc c)).

Inductive alabel :=
| ALAccept | ALAcceptBreak | ALSaveFail | ALBroker | ALClientAck | ALReject | ALDeleteFail
| ALBreak | ALReconnect | ALReconnectFail | ALClose | ALRestart.

Definition abroken (w : aworld) : aworld := mkAW (a_cl w) (a_base w) false [] [] (a_fwd w).

Definition wK (w : aworld) := l_acked (a_cl w).
Definition wS (w : aworld) := l_sub (a_cl w).
Definition wA (w : aworld) := l_acc (a_cl w).
Definition wM (w : aworld) := l_max (a_cl w).
Definition wQ (w : aworld) := l_q (a_cl w).
Definition wT (w : aworld) := l_term (a_cl w).

Inductive astep : aworld -> alabel -> aworld -> Prop :=
(* PublishAtLeastOnce accepted (Session.op_publish_persisted, OS_accept1), no backlog and the
   write succeeds: the PUBLISH (no DUP) is on the wire, sub1 = acc1 *)
| A_accept_sent : forall w, a_on w = true -> wT w = false -> wQ w < wM w -> wA w <= wS w ->
    astep w ALAccept
      (mkAW (mkAcl (wK w) (wA w + 1) (wA w + 1) (wM w) (wQ w + 1) false) (a_base w) true
            (a_c2b w ++ [APub false (key1 (wA w)) (a_base w + wA w)]) (a_b2c w) (a_fwd w))
(* ... offline or behind a backlog: saved, not sent; connect will send it *)
| A_accept_queued : forall w, wT w = false -> wQ w < wM w -> (a_on w = false \/ wS w < wA w) ->
    astep w ALAccept
      (mkAW (mkAcl (wK w) (wS w) (wA w + 1) (wM w) (wQ w + 1) false) (a_base w) (a_on w)
            (a_c2b w) (a_b2c w) (a_fwd w))
(* ... the write fails or is short (locked_write: connection closed): accepted all the same *)
| A_accept_wfail : forall w, a_on w = true -> wT w = false -> wQ w < wM w -> wA w <= wS w ->
    astep w ALAcceptBreak
      (mkAW (mkAcl (wK w) (wS w) (wA w + 1) (wM w) (wQ w + 1) false) (a_base w) false [] [] (a_fwd w))
(* ... the Save fails: ErrStore, nothing accepted (OS_save_failed: only the storage counter moves) *)
| A_save_fail : forall w, astep w ALSaveFail w
(* the broker processes the oldest packet of the connection: forward, acknowledge *)
| A_broker : forall w d id x q, a_c2b w = APub d id x :: q ->
    astep w ALBroker
      (mkAW (a_cl w) (a_base w) (a_on w) q (a_b2c w ++ [AAck id x]) (x :: a_fwd w))
(* the client reads the oldest packet of the connection (Session.on_puback) *)
| A_client_ack : forall w id x q, a_on w = true -> a_b2c w = AAck id x :: q ->
    id = key1 (wK w) -> 0 < wQ w ->
    astep w ALClientAck
      (mkAW (mkAcl (wK w + 1) (wS w) (wA w) (wM w) (wQ w - 1) (wT w)) (a_base w) true
            (a_c2b w) q (a_fwd w))
| A_reject : forall w id x q, a_on w = true -> a_b2c w = AAck id x :: q ->
    ~ (id = key1 (wK w) /\ 0 < wQ w) ->
    astep w ALReject (abroken w)
(* ... in order, but the Delete fails: ErrStore, toOffline, client unchanged *)
| A_delete_fail : forall w id x q, a_on w = true -> a_b2c w = AAck id x :: q ->
    id = key1 (wK w) -> 0 < wQ w ->
    astep w ALDeleteFail (abroken w)
(* the connection breaks (any time, any side): everything in flight is lost *)
| A_break : forall w, astep w ALBreak (abroken w)
(* connect: CONNECT/CONNACK, then the resend (Session.connect; counters:
   ResendOrder.connect_success_counters) *)
| A_reconnect : forall w, a_on w = false -> wT w = false ->
    astep w ALReconnect
      (mkAW (mkAcl (wK w) (if wA w =? wK w then wS w else wA w) (wA w) (wM w) (wQ w) false)
            (a_base w) true (resend1 (a_base w) (a_cl w)) [] (a_fwd w))
(* connect fails at sequence number k of the resend (Load fails, write fails or is short, or
   later: level-2 resend); the broker had processed the packets of acked .. j-1 *)
| A_reconnect_fail : forall w k j, a_on w = false -> wT w = false ->
    wK w <= j -> j <= k -> k <= wA w ->
    astep w ALReconnectFail
      (mkAW (mkAcl (wK w) (sub_at (wS w) (wK w) k) (wA w) (wM w) (wQ w) false)
            (a_base w) false [] []
            (rev (map (N.add (a_base w)) (aseq (wK w) j)) ++ a_fwd w))
(* Close / Disconnect, then termCallbacks: every open exchange ends with ErrClosed *)
| A_close : forall w,
    astep w ALClose
      (mkAW (mkAcl (wK w) (wS w) (wA w) (wM w) 0 true) (a_base w) false [] [] (a_fwd w))
(* the client process stops (any time) and a new one adopts the session from the Persistence *)
| A_restart : forall w c', arestart (a_cl w) c' ->
    astep w ALRestart
      (mkAW c' (a_base w + wK w - l_acked c') false [] [] (a_fwd w)).

Definition ainit (max1 : N) : aworld := mkAW (mkAcl 0 0 0 max1 0 false) 0 false [] [] [].

Inductive areach : aworld -> Prop :=
| ar_init : forall max1, max1 <= 16384 -> areach (ainit max1)
| ar_step : forall w l w', areach w -> astep w l w' -> areach w'.

(* ================================================================== *)
(* 3. Lists                                                            *)

Lemma nseq_snoc1 l : forall a, nseq a (S l) = nseq a l ++ [a + N.of_nat l].
Proof.
  induction l as [|l IH]; intros a.
  - cbn. f_equal. lia.
  - change (nseq a (S (S l))) with (a :: nseq (a + 1) (S l)). rewrite IH.
    cbn [nseq app]. do 3 f_equal. lia.
Qed.

Lemma aseq_nil a b : b <= a -> aseq a b = [].
Proof. intros H. unfold aseq. replace (N.to_nat (b - a)) with O by lia. reflexivity. Qed.
Lemma aseq_cons a b : a < b -> aseq a b = a :: aseq (a + 1) b.
Proof.
  intros H. unfold aseq. replace (N.to_nat (b - a)) with (S (N.to_nat (b - (a + 1)))) by lia.
  reflexivity.
Qed.
Lemma aseq_snoc a b : a <= b -> aseq a (b + 1) = aseq a b ++ [b].
Proof.
  intros H. unfold aseq. replace (N.to_nat (b + 1 - a)) with (S (N.to_nat (b - a))) by lia.
  rewrite nseq_snoc1. do 2 f_equal. lia.
Qed.
Lemma aseq_in a b n : In n (aseq a b) <-> a <= n < b.
Proof. unfold aseq. rewrite nseq_in. lia. Qed.
Lemma aseq_len a b : N.of_nat (length (aseq a b)) = b - a.
Proof. unfold aseq. rewrite nseq_length. lia. Qed.

Definition up_pk (u : aup) : N * N := match u with APub _ id x => (id, x) end.
Definition dn_pk (d : adown) : N * N := match d with AAck id x => (id, x) end.
Definition apk (b n : N) : N * N := (key1 n, b + n).

(* the PUBACKs the client will read on this connection if it sends nothing more *)
Definition apend (w : aworld) : list (N * N) := map dn_pk (a_b2c w) ++ map up_pk (a_c2b w).

Lemma up_resend b s l : map up_pk (map (mk_pub1 b s) l) = map (apk b) l.
Proof. induction l; cbn [map]; [reflexivity|]. rewrite IHl. reflexivity. Qed.

Lemma in_apk b lo hi id x :
  In (id, x) (map (apk b) (aseq lo hi)) <-> exists n, lo <= n < hi /\ id = key1 n /\ x = b + n.
Proof.
  rewrite in_map_iff. split.
  - intros (n & E & Hin). apply aseq_in in Hin. inversion E. eauto.
  - intros (n & Hn & -> & ->). exists n. split; [reflexivity|]. apply aseq_in. exact Hn.
Qed.

Lemma key1_window_eq n m lo hi : hi - lo <= 16384 ->
  lo <= n < hi -> lo <= m < hi -> key1 n = key1 m -> n = m.
Proof. intros Hw Hn Hm E. apply key1_iff in E. lia. Qed.

(* ================================================================== *)
(* 4. The invariant                                                    *)

Record AInv (w : aworld) : Prop := mkAInv {
  ai_cnt : wK w <= wS w /\ wS w <= wA w /\ wA w - wK w <= wM w /\ wM w <= 16384;
  (* one open exchange per unacknowledged message, none after termination *)
  ai_q : wQ w = if wT w then 0 else wA w - wK w;
  (* a live connection: no backlog, client not terminated *)
  ai_on : a_on w = true -> wS w = wA w /\ wT w = false;
  ai_off : a_on w = false -> a_c2b w = [] /\ a_b2c w = [];
  (* the connection pipeline: the PUBACKs still to be read are exactly those of
     acked .. acc1-1, in order *)
  ai_pipe : a_on w = true -> apend w = map (apk (a_base w)) (aseq (wK w) (wA w));
  ai_acc : forall x, In x (a_fwd w) -> x < a_base w + wA w;
  ai_ack : forall x, x < a_base w + wK w -> In x (a_fwd w);
  ai_b2c : forall id x, In (AAck id x) (a_b2c w) -> In x (a_fwd w)
}.

Lemma ainv_init max1 : max1 <= 16384 -> AInv (ainit max1).
Proof.
  intros H. constructor; cbn.
  - lia.
  - reflexivity.
  - discriminate.
  - auto.
  - discriminate.
  - contradiction.
  - intros; lia.
  - contradiction.
Qed.

Ltac asimp :=
  unfold wK, wS, wA, wM, wQ, wT, apend, abroken in *;
  cbn [a_cl a_base a_on a_c2b a_b2c a_fwd l_acked l_sub l_acc l_max l_q l_term] in *.
Ltac aopen w :=
  destruct w as [[k s a mx qq tm] b on c2b b2c fw]; asimp.

Lemma astep_accept_sent w : AInv w -> a_on w = true -> wT w = false -> wQ w < wM w -> wA w <= wS w ->
  AInv (mkAW (mkAcl (wK w) (wA w + 1) (wA w + 1) (wM w) (wQ w + 1) false) (a_base w) true
            (a_c2b w ++ [APub false (key1 (wA w)) (a_base w + wA w)]) (a_b2c w) (a_fwd w)).
Proof.
  intros [Hcnt Hq Hon Hoff Hpipe Hacc Hack Hb2c] On Ht Hg Hs.
  aopen w. subst on tm. constructor; asimp.
  - lia.
  - lia.
  - auto.
  - discriminate.
  - intros _. rewrite map_app, app_assoc, (Hpipe eq_refl). cbn [map up_pk].
    rewrite aseq_snoc by lia. rewrite map_app. reflexivity.
  - intros x Hx. specialize (Hacc x Hx). lia.
  - exact Hack.
  - exact Hb2c.
Qed.

Lemma astep_accept_queued w : AInv w -> wT w = false -> wQ w < wM w ->
  (a_on w = false \/ wS w < wA w) ->
  AInv (mkAW (mkAcl (wK w) (wS w) (wA w + 1) (wM w) (wQ w + 1) false) (a_base w) (a_on w)
            (a_c2b w) (a_b2c w) (a_fwd w)).
Proof.
  intros [Hcnt Hq Hon Hoff Hpipe Hacc Hack Hb2c] Ht Hg Hs.
  aopen w. subst tm.
  assert (on = false) as ->.
  { destruct on; [|reflexivity]. destruct (Hon eq_refl). destruct Hs; [assumption|lia]. }
  constructor; asimp.
  - lia.
  - lia.
  - discriminate.
  - exact Hoff.
  - discriminate.
  - intros x Hx. specialize (Hacc x Hx). lia.
  - exact Hack.
  - exact Hb2c.
Qed.

Lemma astep_accept_wfail w : AInv w -> a_on w = true -> wT w = false -> wQ w < wM w -> wA w <= wS w ->
  AInv (mkAW (mkAcl (wK w) (wS w) (wA w + 1) (wM w) (wQ w + 1) false) (a_base w) false [] [] (a_fwd w)).
Proof.
  intros [Hcnt Hq Hon Hoff Hpipe Hacc Hack Hb2c] On Ht Hg Hs.
  aopen w. subst on tm. constructor; asimp.
  - lia.
  - lia.
  - discriminate.
  - auto.
  - discriminate.
  - intros x Hx. specialize (Hacc x Hx). lia.
  - exact Hack.
  - intros id x [].
Qed.

Lemma alive_c2b w u q : AInv w -> a_c2b w = u :: q -> a_on w = true.
Proof.
  intros HI E. destruct (a_on w) eqn:Hon; [reflexivity|].
  destruct (ai_off w HI Hon) as [E' _]. congruence.
Qed.
Lemma alive_b2c w u q : AInv w -> a_b2c w = u :: q -> a_on w = true.
Proof.
  intros HI E. destruct (a_on w) eqn:Hon; [reflexivity|].
  destruct (ai_off w HI Hon) as [_ E']. congruence.
Qed.

Lemma astep_broker w d id x q : AInv w -> a_c2b w = APub d id x :: q ->
  AInv (mkAW (a_cl w) (a_base w) (a_on w) q (a_b2c w ++ [AAck id x]) (x :: a_fwd w)).
Proof.
  intros HI Hq. pose proof (alive_c2b _ _ _ HI Hq) as On.
  destruct HI as [Hcnt Hqq Hon Hoff Hpipe Hacc Hack Hb2c].
  aopen w. subst on c2b. specialize (Hpipe eq_refl). cbn [map up_pk] in Hpipe.
  assert (Hm : exists m, k <= m < a /\ id = key1 m /\ x = b + m).
  { apply in_apk. rewrite <- Hpipe. apply in_or_app. right. left. reflexivity. }
  destruct Hm as (m & Hm & -> & ->).
  constructor; asimp.
  - exact Hcnt.
  - exact Hqq.
  - exact Hon.
  - discriminate.
  - intros _. rewrite map_app, <- app_assoc. exact Hpipe.
  - intros x [<-|Hx]; [lia|apply Hacc; exact Hx].
  - intros x Hx. right. apply Hack. exact Hx.
  - intros id' x' Hin. apply in_app_or in Hin. destruct Hin as [Hin|[E|[]]].
    + right. exact (Hb2c _ _ Hin).
    + inversion E. left. reflexivity.
Qed.

Lemma astep_client_ack w id x q : AInv w -> a_on w = true -> a_b2c w = AAck id x :: q ->
  id = key1 (wK w) -> 0 < wQ w ->
  AInv (mkAW (mkAcl (wK w + 1) (wS w) (wA w) (wM w) (wQ w - 1) (wT w)) (a_base w) true
            (a_c2b w) q (a_fwd w)).
Proof.
  intros [Hcnt Hqq Hon Hoff Hpipe Hacc Hack Hb2c] On Hq Hid Hpos.
  aopen w. subst on b2c id. specialize (Hpipe eq_refl). destruct (Hon eq_refl) as [-> ->].
  cbn [map dn_pk app] in Hpipe.
  rewrite (aseq_cons k a) in Hpipe by lia. cbn [map] in Hpipe. unfold apk at 1 in Hpipe.
  inversion Hpipe as [[Hx Ht]]. clear Hpipe. subst x.
  constructor; asimp.
  - lia.
  - lia.
  - auto.
  - discriminate.
  - intros _. exact Ht.
  - exact Hacc.
  - intros x' Hx'. destruct (N.eq_dec x' (b + k)) as [->|Hne].
    + apply (Hb2c (key1 k)). left. reflexivity.
    + apply Hack. lia.
  - intros id' x' Hin. apply (Hb2c id'). right. exact Hin.
Qed.

Lemma astep_break w : AInv w -> AInv (abroken w).
Proof.
  intros [Hcnt Hqq Hon Hoff Hpipe Hacc Hack Hb2c].
  aopen w. constructor; asimp; try assumption; try discriminate.
  - auto.
  - intros id x [].
Qed.

Lemma astep_reconnect w : AInv w -> a_on w = false -> wT w = false ->
  AInv (mkAW (mkAcl (wK w) (if wA w =? wK w then wS w else wA w) (wA w) (wM w) (wQ w) false)
            (a_base w) true (resend1 (a_base w) (a_cl w)) [] (a_fwd w)).
Proof.
  intros [Hcnt Hqq Hon Hoff Hpipe Hacc Hack Hb2c] Off Ht.
  aopen w. subst tm. constructor; asimp; try assumption; try discriminate.
  - destruct (N.eqb_spec a k); lia.
  - intros _. split; [|reflexivity]. destruct (N.eqb_spec a k); lia.
  - intros _. unfold resend1. cbn [l_acked l_sub l_acc app map]. apply up_resend.
  - intros id x [].
Qed.

Lemma astep_reconnect_fail w k j : AInv w -> a_on w = false -> wT w = false ->
  wK w <= j -> j <= k -> k <= wA w ->
  AInv (mkAW (mkAcl (wK w) (sub_at (wS w) (wK w) k) (wA w) (wM w) (wQ w) false)
            (a_base w) false [] []
            (rev (map (N.add (a_base w)) (aseq (wK w) j)) ++ a_fwd w)).
Proof.
  intros [Hcnt Hqq Hon Hoff Hpipe Hacc Hack Hb2c] Off Ht Hj Hjk Hk.
  destruct w as [[k0 s a mx qq tm] b on c2b b2c fw]; asimp. subst tm.
  constructor; asimp; try assumption; try discriminate.
  - unfold sub_at. destruct (N.leb_spec k k0); lia.
  - auto.
  - intros x Hx. apply in_app_or in Hx. destruct Hx as [Hx|Hx]; [|exact (Hacc x Hx)].
    apply in_rev, in_map_iff in Hx. destruct Hx as (n & <- & Hn). apply aseq_in in Hn. lia.
  - intros x Hx. apply in_or_app. right. exact (Hack x Hx).
  - intros id x [].
Qed.

Lemma astep_close w : AInv w ->
  AInv (mkAW (mkAcl (wK w) (wS w) (wA w) (wM w) 0 true) (a_base w) false [] [] (a_fwd w)).
Proof.
  intros [Hcnt Hqq Hon Hoff Hpipe Hacc Hack Hb2c].
  aopen w. constructor; asimp; try assumption; try discriminate.
  - reflexivity.
  - auto.
  - intros id x [].
Qed.

Lemma astep_restart w c' : AInv w -> arestart (a_cl w) c' ->
  AInv (mkAW c' (a_base w + wK w - l_acked c') false [] [] (a_fwd w)).
Proof.
  intros [Hcnt Hqq Hon Hoff Hpipe Hacc Hack Hb2c] Hr.
  aopen w. destruct c' as [k' s' a' mx' q' tm']. unfold arestart in Hr. asimp.
  destruct Hr as (R1 & R2 & R3 & R4 & R5 & R6 & R7 & R8 & R9). subst tm' s'.
  constructor; asimp; try discriminate.
  - lia.
  - exact R3.
  - auto.
  - intros x Hx. specialize (Hacc x Hx). lia.
  - intros x Hx. apply Hack. lia.
  - intros id x [].
Qed.

Theorem ainv_step : forall w l w', AInv w -> astep w l w' -> AInv w'.
Proof.
  intros w l w' HI H. destruct H.
  - apply astep_accept_sent; assumption.
  - apply astep_accept_queued; assumption.
  - apply astep_accept_wfail; assumption.
  - exact HI.
  - eapply astep_broker; eassumption.
  - eapply astep_client_ack; eassumption.
  - apply astep_break; assumption.
  - apply astep_break; assumption.
  - apply astep_break; assumption.
  - apply astep_reconnect; assumption.
  - apply astep_reconnect_fail; assumption.
  - apply astep_close; assumption.
  - apply astep_restart; assumption.
Qed.

Theorem aworld_inv : forall w, areach w -> AInv w.
Proof.
  induction 1 as [max1 H|w l w' _ IH Hs].
  - apply ainv_init. exact H.
  - exact (ainv_step _ _ _ IH Hs).
Qed.

(* the client part of the world moves like the slim machine *)
Theorem astep_client : forall w l w', AInv w -> astep w l w' ->
  a_cl w' = a_cl w \/ alstep (a_cl w) (a_cl w') \/ arestart (a_cl w) (a_cl w').
Proof.
  intros w l w' HI H. pose proof (ai_cnt _ HI) as Hc.
  destruct H; cbn [a_cl abroken]; auto.
  - right; left. apply (LS_accept (a_cl w) (wA w + 1)); auto.
  - right; left. apply (LS_accept (a_cl w) (wS w)); auto.
  - right; left. apply (LS_accept (a_cl w) (wS w)); auto.
  - right; left. apply LS_ack. assumption.
  - right; left. unfold wT in *. rewrite <- H0. apply LS_submit. fold (wS w) (wA w) (wK w).
    destruct (N.eqb_spec (wA w) (wK w)); lia.
  - right; left. unfold wT in *. rewrite <- H0. apply LS_submit. fold (wS w) (wA w) (wK w).
    unfold sub_at. destruct (N.leb_spec k (wK w)); lia.
  - right; left. apply LS_term.
Qed.

(* the oldest PUBACK of a live connection is the one the client expects *)
Lemma pipe_head w id x q : AInv w -> a_on w = true -> a_b2c w = AAck id x :: q ->
  wK w < wA w /\ id = key1 (wK w) /\ x = a_base w + wK w /\ 0 < wQ w.
Proof.
  intros HI Hon Hb. pose proof (ai_cnt _ HI) as Hc. pose proof (ai_q _ HI) as Hq.
  pose proof (ai_pipe _ HI Hon) as E. pose proof (ai_on _ HI Hon) as [_ Ht].
  unfold apend in E. rewrite Hb in E. cbn [map dn_pk app] in E. rewrite Ht in Hq.
  destruct (N.lt_ge_cases (wK w) (wA w)) as [Hlt|Hge].
  - rewrite aseq_cons in E by exact Hlt. cbn [map] in E. unfold apk at 1 in E.
    injection E as E1 E2 _. repeat split; try assumption. lia.
  - rewrite aseq_nil in E by exact Hge. discriminate.
Qed.

(* ================================================================== *)
(* 5. (a) (b) (c)                                                      *)

(* (a) every message whose PUBACK the client applied was forwarded by the broker at least
   once: the PUBACK was caused by a PUBLISH of that message the broker received *)
Theorem acked_forwarded : forall w x, areach w -> x < a_base w + wK w -> In x (a_fwd w).
Proof. intros w x H. apply ai_ack, aworld_inv, H. Qed.

Theorem acked_forwarded_n : forall w n, areach w -> n < wK w -> In (a_base w + n) (a_fwd w).
Proof. intros w n H Hn. apply acked_forwarded; [exact H|lia]. Qed.

Theorem acked_forwarded_count : forall w x, areach w -> x < a_base w + wK w ->
  (1 <= count_occ N.eq_dec (a_fwd w) x)%nat.
Proof. intros w x H Hx. apply count_occ_In. apply acked_forwarded; assumption. Qed.

Theorem only_accepted_fwd : forall w x, areach w -> In x (a_fwd w) -> x < a_base w + wA w.
Proof. intros w x H. apply ai_acc, aworld_inv, H. Qed.

(* a PUBACK in flight acknowledges a forwarded message *)
Theorem inflight_ack_forwarded : forall w id x, areach w -> In (AAck id x) (a_b2c w) -> In x (a_fwd w).
Proof. intros w id x H. apply ai_b2c, aworld_inv, H. Qed.

(* absolute numbers: what was acknowledged stays acknowledged, what was accepted stays
   accepted (the counters themselves move down at AdoptSession, [a_base] moves up) *)
Theorem accepted_monotone : forall w l w', AInv w -> astep w l w' ->
  a_base w + wK w <= a_base w' + wK w' /\ a_base w + wA w <= a_base w' + wA w'.
Proof.
  intros w l w' HI H. pose proof (ai_cnt _ HI) as Hc.
  destruct H; asimp; try lia.
  destruct c' as [k' s' a' mx' q' tm']. unfold arestart in *. asimp. lia.
Qed.

(* nothing in the window is acknowledged-and-dropped: the window in absolute numbers is
   [base+acked, base+acc1), its lower end moves only by A_client_ack *)
Theorem acked_moves_only_by_ack : forall w l w', AInv w -> astep w l w' ->
  a_base w' + wK w' <> a_base w + wK w ->
  l = ALClientAck /\ a_base w' = a_base w /\ wK w' = wK w + 1 /\ In (a_base w + wK w) (a_fwd w).
Proof.
  intros w l w' HI H Hne. pose proof (ai_cnt _ HI) as Hc.
  destruct H; asimp; try (exfalso; apply Hne; reflexivity).
  - split; [reflexivity|]. split; [reflexivity|]. split; [reflexivity|].
    destruct (pipe_head _ _ _ _ HI H H0) as (_ & _ & Hx & _). unfold wK in Hx. rewrite <- Hx.
    apply (ai_b2c _ HI id). rewrite H0. left. reflexivity.
  - exfalso. apply Hne. destruct c' as [k' s' a' mx' q' tm']. unfold arestart in *. asimp. lia.
Qed.

(* (b) one open exchange per unacknowledged message while the client is not terminated *)
Theorem open_exchanges : forall w, areach w -> wT w = false -> wQ w = wA w - wK w.
Proof. intros w H Ht. pose proof (ai_q _ (aworld_inv _ H)) as Hq. rewrite Ht in Hq. exact Hq. Qed.

(* (b) the exchange queue of a client that is not terminated shrinks only in the step that
   applies the in-order PUBACK; it is the head (the exchange of message [acked]) that closes,
   the PUBACK read carries the identifier of that message, and the message has been forwarded *)
Theorem exchange_closes_only_by_ack : forall w l w', AInv w -> astep w l w' ->
  wT w' = false -> wQ w' < wQ w ->
  l = ALClientAck /\ wK w' = wK w + 1 /\ wQ w' + 1 = wQ w /\ wA w' = wA w /\ a_base w' = a_base w /\
  In (a_base w + wK w) (a_fwd w) /\
  exists q, a_b2c w = AAck (key1 (wK w)) (a_base w + wK w) :: q /\ a_b2c w' = q.
Proof.
  intros w l w' HI H Ht Hlt. pose proof (ai_cnt _ HI) as Hc. pose proof (ai_q _ HI) as Hq.
  destruct H; asimp; try lia; try discriminate.
  - destruct (pipe_head _ _ _ _ HI H H0) as (Hlt' & _ & Hx & _). unfold wK, wA in Hx, Hlt'.
    repeat split; try lia.
    + rewrite <- Hx. apply (ai_b2c _ HI id). rewrite H0. left. reflexivity.
    + exists q. subst id x. split; [exact H0|reflexivity].
  - destruct c' as [k' s' a' mx' q' tm']. unfold arestart in *. asimp.
    destruct (l_term (a_cl w)); lia.
Qed.

(* (c) identifier safety across the 14-bit wrap: a PUBACK in flight on the live connection
   stands for exactly one message of the window *)
Theorem inflight_ack_window : forall w id x, areach w -> In (AAck id x) (a_b2c w) ->
  exists n, (wK w <= n < wA w /\ id = key1 n /\ x = a_base w + n) /\
            forall n', wK w <= n' < wA w -> id = key1 n' -> n' = n.
Proof.
  intros w id x H Hin. pose proof (aworld_inv _ H) as HI. pose proof (ai_cnt _ HI) as Hc.
  assert (On : a_on w = true).
  { destruct (a_b2c w) as [|u q] eqn:E; [destruct Hin|]. exact (alive_b2c _ _ _ HI E). }
  assert (Hm : exists n, wK w <= n < wA w /\ id = key1 n /\ x = a_base w + n).
  { apply in_apk. rewrite <- (ai_pipe _ HI On). unfold apend. apply in_or_app. left.
    change (id, x) with (dn_pk (AAck id x)). apply in_map. exact Hin. }
  destruct Hm as (n & Hn & E1 & E2). exists n. split; [auto|].
  intros n' Hn' E'. apply (key1_window_eq n' n (wK w) (wA w)); try lia; congruence.
Qed.

Theorem inflight_pub_window : forall w d id x, areach w -> In (APub d id x) (a_c2b w) ->
  exists n, (wK w <= n < wA w /\ id = key1 n /\ x = a_base w + n) /\
            forall n', wK w <= n' < wA w -> id = key1 n' -> n' = n.
Proof.
  intros w d id x H Hin. pose proof (aworld_inv _ H) as HI. pose proof (ai_cnt _ HI) as Hc.
  assert (On : a_on w = true).
  { destruct (a_c2b w) as [|u q] eqn:E; [destruct Hin|]. exact (alive_c2b _ _ _ HI E). }
  assert (Hm : exists n, wK w <= n < wA w /\ id = key1 n /\ x = a_base w + n).
  { apply in_apk. rewrite <- (ai_pipe _ HI On). unfold apend. apply in_or_app. right.
    change (id, x) with (up_pk (APub d id x)). apply in_map. exact Hin. }
  destruct Hm as (n & Hn & E1 & E2). exists n. split; [auto|].
  intros n' Hn' E'. apply (key1_window_eq n' n (wK w) (wA w)); try lia; congruence.
Qed.

(* the whole pipeline of a live connection *)
Theorem pipeline_acks : forall w, areach w -> a_on w = true ->
  apend w = map (apk (a_base w)) (aseq (wK w) (wA w)).
Proof. intros w H. apply ai_pipe, aworld_inv, H. Qed.

Theorem online_no_backlog : forall w, areach w -> a_on w = true -> wS w = wA w /\ wT w = false.
Proof. intros w H. apply ai_on, aworld_inv, H. Qed.

(* on a live connection the PUBACKs reach the client in order: no reset by ErrProtocol *)
Lemma ainv_no_reject w w' : AInv w -> astep w ALReject w' -> False.
Proof.
  intros HI H. pose proof (ai_cnt _ HI) as Hc. pose proof (ai_q _ HI) as Hq.
  inversion H as [| | | | | |w0 id x q Hon Hb Hn| | | | | |]; subst w0.
  destruct (pipe_head _ _ _ _ HI Hon Hb) as (_ & E & _ & Hpos). apply Hn. split; assumption.
Qed.

Theorem alo_never_rejects : forall w w', areach w -> ~ astep w ALReject w'.
Proof. intros w w' H Hs. exact (ainv_no_reject _ _ (aworld_inv _ H) Hs). Qed.

(* what has been forwarded stays forwarded; the broker forwards exactly when it processes
   a PUBLISH (every one of them: duplicates are delivered again); a failed connect accounts
   for the packets the broker processed before the connection was dropped *)
Theorem fwd_stable : forall w l w' x, astep w l w' -> In x (a_fwd w) -> In x (a_fwd w').
Proof.
  intros w l w' x H Hin. destruct H; cbn [a_fwd abroken]; try exact Hin.
  - right. exact Hin.
  - apply in_or_app. right. exact Hin.
Qed.

Theorem fwd_only_by_publish : forall w l w', astep w l w' -> a_fwd w' <> a_fwd w ->
  (exists d id x q, l = ALBroker /\ a_c2b w = APub d id x :: q /\ a_fwd w' = x :: a_fwd w)
  \/ (exists j, l = ALReconnectFail /\ wK w <= j <= wA w /\
        a_fwd w' = rev (map (N.add (a_base w)) (aseq (wK w) j)) ++ a_fwd w).
Proof.
  intros w l w' H Hne. destruct H; cbn [a_fwd abroken] in *; try congruence.
  - left. exists d, id, x, q. auto.
  - right. exists j. repeat split; try lia.
Qed.

(* ================================================================== *)
(* 6. (d): at least once when the faults stop                          *)

Definition alen {A} (l : list A) : N := N.of_nat (length l).

(* remaining work = number of steps still to be taken: a PUBLISH in flight needs 2 more
   steps (broker, client), a PUBACK 1; offline: one Reconnect plus the resend *)
Definition amu (w : aworld) : N :=
  if a_on w then 2 * alen (a_c2b w) + alen (a_b2c w)
  else 1 + 2 * (wA w - wK w).

Definition a_progress (l : alabel) : bool :=
  match l with
  | ALBroker | ALClientAck | ALReject | ALReconnect => true
  | _ => false
  end.

Lemma alen_app {A} (l1 l2 : list A) : alen (l1 ++ l2) = alen l1 + alen l2.
Proof. unfold alen. rewrite app_length. lia. Qed.
Lemma alen_cons {A} (x : A) l : alen (x :: l) = alen l + 1.
Proof. unfold alen. cbn [length]. lia. Qed.
Lemma alen_zero {A} (l : list A) : alen l = 0 -> l = [].
Proof. destruct l; [reflexivity|]. rewrite alen_cons. lia. Qed.

Theorem agood_step_measure : forall w l w', AInv w -> astep w l w' -> a_progress l = true ->
  amu w = amu w' + 1.
Proof.
  intros w l w' HI H Hl. pose proof (ai_cnt _ HI) as Hc.
  destruct H; try discriminate Hl; unfold amu; asimp.
  - rewrite (alive_c2b _ _ _ HI H). rewrite H, alen_app. unfold alen. cbn [length]. lia.
  - rewrite H, H0. unfold alen. cbn [length]. lia.
  - exfalso. eapply ainv_no_reject; [exact HI|]. eapply A_reject; eassumption.
  - rewrite H. unfold resend1, alen. rewrite map_length, aseq_len. cbn [length]. fold (wA w) (wK w). lia.
Qed.

Theorem aaccept_step_measure : forall w w', AInv w -> astep w ALAccept w' -> amu w' = amu w + 2.
Proof.
  intros w w' HI H. pose proof (ai_cnt _ HI) as Hc.
  inversion H; subst; unfold amu; asimp.
  - rewrite H0, alen_app. unfold alen. cbn [length]. lia.
  - destruct (a_on w) eqn:On.
    + destruct (ai_on _ HI On) as [E _]. unfold wS, wA in *. destruct H2; [discriminate|lia].
    + lia.
Qed.

Theorem aprogress_enabled : forall w, wT w = false -> amu w <> 0 ->
  exists l w', a_progress l = true /\ astep w l w'.
Proof.
  intros w Ht Hmu. destruct (a_on w) eqn:Hon.
  - destruct (a_c2b w) as [|[d id x] q] eqn:Hq.
    + destruct (a_b2c w) as [|[id x] q'] eqn:Hq'.
      * exfalso. apply Hmu. unfold amu. rewrite Hon, Hq, Hq'. reflexivity.
      * destruct (N.eq_dec id (key1 (wK w))) as [E|NE].
        -- destruct (N.lt_ge_cases 0 (wQ w)) as [Hlt|Hge].
           ++ eexists ALClientAck, _. split; [reflexivity|]. eapply A_client_ack; eassumption.
           ++ eexists ALReject, _. split; [reflexivity|]. eapply A_reject; try eassumption. lia.
        -- eexists ALReject, _. split; [reflexivity|]. eapply A_reject; try eassumption. tauto.
    + eexists ALBroker, _. split; [reflexivity|]. eapply A_broker; eassumption.
  - eexists ALReconnect, _. split; [reflexivity|]. apply A_reconnect; assumption.
Qed.

(* nothing left to do for broker, connection and client *)
Definition aquiescent (w : aworld) : Prop := forall l w', astep w l w' -> a_progress l = false.

(* every message accepted so far has been acknowledged in order, hence forwarded at least
   once; every exchange is closed; nothing is in flight *)
Definition acomplete (w : aworld) : Prop :=
  wK w = wA w /\ wS w = wA w /\ wQ w = 0 /\ wT w = false /\ a_on w = true /\
  a_c2b w = [] /\ a_b2c w = [] /\
  forall x, In x (a_fwd w) <-> x < a_base w + wA w.

Lemma aquiescent_mu w : wT w = false -> aquiescent w -> amu w = 0.
Proof.
  intros Ht Hq. destruct (N.eq_dec (amu w) 0) as [E|NE]; [exact E|].
  destruct (aprogress_enabled w Ht NE) as (l & w' & Hl & Hs). rewrite (Hq _ _ Hs) in Hl. discriminate.
Qed.

Lemma amu_zero w : amu w = 0 -> a_on w = true /\ a_c2b w = [] /\ a_b2c w = [].
Proof.
  unfold amu. destruct (a_on w); [|lia]. intros H. split; [reflexivity|].
  split; apply alen_zero; lia.
Qed.

Lemma amu_zero_quiescent w : amu w = 0 -> aquiescent w.
Proof.
  intros H. destruct (amu_zero w H) as (Hon & Hc & Hb). intros l w' Hs.
  destruct Hs; try reflexivity; congruence.
Qed.

Lemma amu_zero_complete w : AInv w -> amu w = 0 -> acomplete w.
Proof.
  intros HI H. destruct (amu_zero w H) as (Hon & Hc & Hb).
  pose proof (ai_cnt _ HI) as Hcnt. pose proof (ai_q _ HI) as Hq.
  destruct (ai_on _ HI Hon) as [Es Et]. rewrite Et in Hq.
  pose proof (ai_pipe _ HI Hon) as E1. unfold apend in E1. rewrite Hc, Hb in E1. cbn [map app] in E1.
  apply (f_equal (@length _)) in E1. rewrite map_length in E1. pose proof (aseq_len (wK w) (wA w)) as L.
  cbn [length] in E1. rewrite <- E1 in L.
  assert (Eka : wK w = wA w) by lia.
  split; [exact Eka|]. split; [exact Es|]. split; [lia|]. split; [exact Et|]. split; [exact Hon|].
  split; [exact Hc|]. split; [exact Hb|].
  intros x. split; [apply (ai_acc _ HI)|]. intros Hx. apply (ai_ack _ HI). lia.
Qed.

Theorem aquiescent_complete : forall w, areach w -> wT w = false -> aquiescent w -> acomplete w.
Proof. intros w H Ht Hq. apply amu_zero_complete; [apply aworld_inv, H|apply aquiescent_mu; assumption]. Qed.

Theorem acomplete_at_least_once : forall w x, acomplete w -> x < a_base w + wA w ->
  (1 <= count_occ N.eq_dec (a_fwd w) x)%nat.
Proof. intros w x (_ & _ & _ & _ & _ & _ & _ & Hiff) Hx. apply count_occ_In, Hiff, Hx. Qed.

(* fault-free runs: p progress steps and a Accepts; no Break, Close, Restart, no failed
   Persistence operation, no failed write *)
Inductive afrun : aworld -> nat -> nat -> aworld -> Prop :=
| afr_nil : forall w, afrun w 0 0 w
| afr_prog : forall w l w1 p a w2, a_progress l = true -> astep w l w1 -> afrun w1 p a w2 ->
    afrun w (S p) a w2
| afr_acc : forall w w1 p a w2, astep w ALAccept w1 -> afrun w1 p a w2 -> afrun w p (S a) w2.

Lemma afrun_reach w p a w' : areach w -> afrun w p a w' -> areach w'.
Proof. intros H Hr. induction Hr; eauto using ar_step. Qed.

Lemma good_step_alive w l w' : astep w l w' -> a_progress l = true \/ l = ALAccept ->
  wT w = false -> wT w' = false.
Proof.
  intros H Hl Ht. destruct H; asimp; try reflexivity; try exact Ht;
    destruct Hl as [Hl|Hl]; discriminate Hl.
Qed.

Lemma afrun_alive w p a w' : afrun w p a w' -> wT w = false -> wT w' = false.
Proof.
  intros Hr. induction Hr as [w|w l w1 p a w2 Hl Hs Hr IH|w w1 p a w2 Hs Hr IH]; intros Ht.
  - exact Ht.
  - apply IH. exact (good_step_alive _ _ _ Hs (or_introl Hl) Ht).
  - apply IH. exact (good_step_alive _ _ _ Hs (or_intror eq_refl) Ht).
Qed.

(* the number of progress steps of a fault-free run is determined by the measure *)
Theorem agood_run_bound : forall w p a w', areach w -> afrun w p a w' ->
  amu w + 2 * N.of_nat a = amu w' + N.of_nat p.
Proof.
  intros w p a w' H Hr. induction Hr as [w|w l w1 p a w2 Hl Hs Hr IH|w w1 p a w2 Hs Hr IH].
  - lia.
  - pose proof (agood_step_measure _ _ _ (aworld_inv _ H) Hs Hl). specialize (IH (ar_step _ _ _ H Hs)). lia.
  - pose proof (aaccept_step_measure _ _ (aworld_inv _ H) Hs). specialize (IH (ar_step _ _ _ H Hs)). lia.
Qed.

Theorem agood_run_complete : forall w p a w', areach w -> wT w = false -> afrun w p a w' ->
  (aquiescent w' \/ N.of_nat p = amu w + 2 * N.of_nat a) -> acomplete w'.
Proof.
  intros w p a w' H Ht Hr Hq. pose proof (afrun_reach _ _ _ _ H Hr) as H'.
  apply amu_zero_complete; [apply aworld_inv, H'|].
  destruct Hq as [Hq|Hp]; [apply aquiescent_mu; [exact (afrun_alive _ _ _ _ Hr Ht)|exact Hq]|].
  pose proof (agood_run_bound _ _ _ _ H Hr). lia.
Qed.

(* and such a run exists from every reachable state of a client that is not terminated:
   without further faults every accepted message is acknowledged, hence was received and
   forwarded by the broker at least once, and every exchange closes *)
Theorem agood_run_exists : forall w, areach w -> wT w = false ->
  exists w', afrun w (N.to_nat (amu w)) 0 w' /\ acomplete w'.
Proof.
  intros w H. remember (N.to_nat (amu w)) as n eqn:En. revert w H En.
  induction n as [|n IH]; intros w H En Ht.
  - exists w. split; [constructor|]. apply amu_zero_complete; [apply aworld_inv, H|lia].
  - destruct (aprogress_enabled w Ht ltac:(lia)) as (l & w1 & Hl & Hs).
    pose proof (agood_step_measure _ _ _ (aworld_inv _ H) Hs Hl) as Hm.
    destruct (IH w1 (ar_step _ _ _ H Hs) ltac:(lia) (good_step_alive _ _ _ Hs (or_introl Hl) Ht))
      as (w' & Hr & Hc).
    exists w'. split; [|exact Hc]. eapply afr_prog; eassumption.
Qed.

(* a terminated client (after Close) makes no progress by itself: its messages wait in the
   Persistence for the next process (A_restart), whose window is the same *)
Theorem restart_keeps_window : forall w c', AInv w -> arestart (a_cl w) c' ->
  l_acc c' - l_acked c' = wA w - wK w /\ l_term c' = false /\ l_q c' = wA w - wK w /\
  (a_base w + wK w - l_acked c') + l_acked c' = a_base w + wK w.
Proof.
  intros w c' HI Hr. pose proof (ai_cnt _ HI) as Hc.
  destruct c' as [k' s' a' mx' q' tm']. unfold arestart in *. asimp.
  destruct Hr as (R1 & R2 & R3 & R4 & R5 & R6 & R7 & R8 & R9). repeat split; try assumption; lia.
Qed.

(* the client AdoptSession builds (AdoptProofs.adopt_spec), as a function of the slim state *)
Definition adopt_cl (c : acl) : acl :=
  let k' := if l_acked c <? l_acc c then l_acked c mod 16384 else 0 in
  let a' := k' + (l_acc c - l_acked c) in
  mkAcl k' a' a' (l_max c) (l_acc c - l_acked c) false.

Lemma adopt_cl_restart w : AInv w -> arestart (a_cl w) (adopt_cl (a_cl w)).
Proof.
  intros HI. pose proof (ai_cnt _ HI) as Hc. aopen w. unfold arestart, adopt_cl. asimp.
  destruct (N.ltb_spec k a); repeat split; try reflexivity; try lia.
Qed.

Lemma progress_keeps_acc w l w' : astep w l w' -> a_progress l = true ->
  a_base w' = a_base w /\ wA w' = wA w.
Proof. intros H Hl. destruct H; try discriminate Hl; asimp; split; reflexivity. Qed.

Lemma afrun0_keeps_acc w p a w' : afrun w p a w' -> a = 0%nat ->
  a_base w' = a_base w /\ wA w' = wA w.
Proof.
  intros Hr. induction Hr as [w|w l w1 p a w2 Hl Hs Hr IH|w w1 p a w2 Hs Hr IH]; intros Ea.
  - split; reflexivity.
  - destruct (progress_keeps_acc _ _ _ Hs Hl) as [E1 E2]. destruct (IH Ea) as [E3 E4].
    split; congruence.
  - discriminate.
Qed.

(* from EVERY reachable state (terminated or not, any counters): stop the process, adopt the
   session, and a fault-free run of exactly [amu] steps acknowledges every message accepted
   so far; each of them has then been forwarded at least once *)
Theorem restart_good_run_exists : forall w, areach w ->
  exists w1 w', astep w ALRestart w1 /\ afrun w1 (N.to_nat (amu w1)) 0 w' /\ acomplete w' /\
    a_base w' + wA w' = a_base w + wA w /\
    forall x, x < a_base w + wA w -> In x (a_fwd w').
Proof.
  intros w H. pose proof (aworld_inv _ H) as HI. pose proof (ai_cnt _ HI) as Hc.
  pose proof (A_restart w _ (adopt_cl_restart w HI)) as Hs.
  match type of Hs with astep _ _ ?W => set (w1 := W) in * end.
  assert (Ht : wT w1 = false) by reflexivity.
  destruct (agood_run_exists w1 (ar_step _ _ _ H Hs) Ht) as (w' & Hr & Hcpl).
  exists w1, w'. split; [exact Hs|]. split; [exact Hr|]. split; [exact Hcpl|].
  destruct (afrun0_keeps_acc _ _ _ _ Hr eq_refl) as [E1 E2].
  assert (E : a_base w' + wA w' = a_base w + wA w).
  { rewrite E1, E2. unfold w1, adopt_cl. aopen w. destruct (N.ltb_spec k a); lia. }
  split; [exact E|]. intros x Hx. destruct Hcpl as (_ & _ & _ & _ & _ & _ & _ & Hiff).
  apply Hiff. lia.
Qed.

(* ================================================================== *)
(* 7. Executable stepper (for concrete traces)                         *)

Inductive aaction :=
| XAccept | XAcceptWFail | XSaveFail | XBroker | XClient | XDeleteFail | XBreak
| XReconnect | XReconnectFail (k j : N) | XClose | XRestart (c' : acl).

Definition arestartb (c c' : acl) : bool :=
  negb (l_term c') && (l_sub c' =? l_acc c') && (l_q c' =? l_acc c' - l_acked c') &&
  (l_acked c' <=? l_acc c') && (l_acc c' - l_acked c' <=? l_max c') && (l_max c' <=? 16384) &&
  (l_acc c' - l_acked c' =? l_acc c - l_acked c) && (l_acked c' <=? l_acked c) &&
  ((l_acc c <=? l_acked c) || ((l_acked c - l_acked c') mod 16384 =? 0)).

Lemma arestartb_sound c c' : arestartb c c' = true -> arestart c c'.
Proof.
  unfold arestartb, arestart. rewrite !Bool.andb_true_iff, Bool.orb_true_iff, Bool.negb_true_iff.
  rewrite !N.leb_le, !N.eqb_eq. intros H. repeat split; try tauto.
  intros Hlt. destruct H as [_ [H|H]]; [lia|exact H].
Qed.

Definition accept_guard (w : aworld) : bool := negb (wT w) && (wQ w <? wM w).
Definition ack_guard (w : aworld) (id : N) : bool := (id =? key1 (wK w)) && (0 <? wQ w).

Definition aexec (w : aworld) (a : aaction) : option aworld :=
  match a with
  | XAccept =>
    if accept_guard w then
      if a_on w && (wA w <=? wS w) then
        Some (mkAW (mkAcl (wK w) (wA w + 1) (wA w + 1) (wM w) (wQ w + 1) false) (a_base w) true
                   (a_c2b w ++ [APub false (key1 (wA w)) (a_base w + wA w)]) (a_b2c w) (a_fwd w))
      else
        Some (mkAW (mkAcl (wK w) (wS w) (wA w + 1) (wM w) (wQ w + 1) false) (a_base w) (a_on w)
                   (a_c2b w) (a_b2c w) (a_fwd w))
    else None
  | XAcceptWFail =>
    if accept_guard w && a_on w && (wA w <=? wS w) then
      Some (mkAW (mkAcl (wK w) (wS w) (wA w + 1) (wM w) (wQ w + 1) false) (a_base w) false [] [] (a_fwd w))
    else None
  | XSaveFail => Some w
  | XBroker =>
    match a_c2b w with
    | APub d id x :: q =>
      Some (mkAW (a_cl w) (a_base w) (a_on w) q (a_b2c w ++ [AAck id x]) (x :: a_fwd w))
    | [] => None
    end
  | XClient =>
    if a_on w then
      match a_b2c w with
      | AAck id x :: q =>
        if ack_guard w id then
          Some (mkAW (mkAcl (wK w + 1) (wS w) (wA w) (wM w) (wQ w - 1) (wT w)) (a_base w) true
                     (a_c2b w) q (a_fwd w))
        else Some (abroken w)
      | [] => None
      end
    else None
  | XDeleteFail =>
    if a_on w then
      match a_b2c w with
      | AAck id x :: q => if ack_guard w id then Some (abroken w) else None
      | [] => None
      end
    else None
  | XBreak => Some (abroken w)
  | XReconnect =>
    if a_on w || wT w then None
    else Some (mkAW (mkAcl (wK w) (if wA w =? wK w then wS w else wA w) (wA w) (wM w) (wQ w) false)
                    (a_base w) true (resend1 (a_base w) (a_cl w)) [] (a_fwd w))
  | XReconnectFail k j =>
    if negb (a_on w) && negb (wT w) && (wK w <=? j) && (j <=? k) && (k <=? wA w) then
      Some (mkAW (mkAcl (wK w) (sub_at (wS w) (wK w) k) (wA w) (wM w) (wQ w) false)
                 (a_base w) false [] []
                 (rev (map (N.add (a_base w)) (aseq (wK w) j)) ++ a_fwd w))
    else None
  | XClose => Some (mkAW (mkAcl (wK w) (wS w) (wA w) (wM w) 0 true) (a_base w) false [] [] (a_fwd w))
  | XRestart c' =>
    if arestartb (a_cl w) c' then
      Some (mkAW c' (a_base w + wK w - l_acked c') false [] [] (a_fwd w))
    else None
  end.

Lemma accept_guard_true w : accept_guard w = true -> wT w = false /\ wQ w < wM w.
Proof.
  unfold accept_guard. rewrite Bool.andb_true_iff, Bool.negb_true_iff, N.ltb_lt. tauto.
Qed.
Lemma ack_guard_true w id : ack_guard w id = true <-> id = key1 (wK w) /\ 0 < wQ w.
Proof. unfold ack_guard. rewrite Bool.andb_true_iff, N.eqb_eq, N.ltb_lt. tauto. Qed.

Lemma aexec_sound w a w' : aexec w a = Some w' -> exists l, astep w l w'.
Proof.
  destruct a; cbn [aexec].
  - destruct (accept_guard w) eqn:G; [|discriminate]. apply accept_guard_true in G as [Ht Hq].
    destruct (a_on w && (wA w <=? wS w)) eqn:C; intros E; inversion E; subst w'; exists ALAccept.
    + apply Bool.andb_true_iff in C as [On Hs]. apply N.leb_le in Hs. apply A_accept_sent; assumption.
    + apply A_accept_queued; try assumption. apply Bool.andb_false_iff in C as [On|Hs]; [left; exact On|].
      right. apply N.leb_gt in Hs. exact Hs.
  - destruct (accept_guard w && a_on w && (wA w <=? wS w)) eqn:C; [|discriminate].
    apply Bool.andb_true_iff in C as [C Hs]. apply Bool.andb_true_iff in C as [G On].
    apply accept_guard_true in G as [Ht Hq]. apply N.leb_le in Hs.
    intros E; inversion E; subst w'. exists ALAcceptBreak. apply A_accept_wfail; assumption.
  - intros E; inversion E; subst w'. exists ALSaveFail. apply A_save_fail.
  - destruct (a_c2b w) as [|[d id x] q] eqn:Hq; [discriminate|]. intros E; inversion E; subst w'.
    exists ALBroker. eapply A_broker. exact Hq.
  - destruct (a_on w) eqn:On; [|discriminate].
    destruct (a_b2c w) as [|[id x] q] eqn:Hq; [discriminate|].
    destruct (ack_guard w id) eqn:G; intros E; inversion E; subst w'.
    + apply ack_guard_true in G as [G1 G2]. exists ALClientAck. eapply A_client_ack; eassumption.
    + exists ALReject. eapply A_reject; try eassumption. intros G'. apply ack_guard_true in G'. congruence.
  - destruct (a_on w) eqn:On; [|discriminate].
    destruct (a_b2c w) as [|[id x] q] eqn:Hq; [discriminate|].
    destruct (ack_guard w id) eqn:G; [|discriminate]. intros E; inversion E; subst w'.
    apply ack_guard_true in G as [G1 G2]. exists ALDeleteFail. eapply A_delete_fail; eassumption.
  - intros E; inversion E. exists ALBreak. apply A_break.
  - destruct (a_on w || wT w) eqn:C; [discriminate|]. apply Bool.orb_false_iff in C as [On Ht].
    intros E; inversion E. exists ALReconnect. apply A_reconnect; assumption.
  - destruct (negb (a_on w) && negb (wT w) && (wK w <=? j) && (j <=? k) && (k <=? wA w)) eqn:C; [|discriminate].
    rewrite !Bool.andb_true_iff, !Bool.negb_true_iff, !N.leb_le in C.
    intros E; inversion E. exists ALReconnectFail. apply A_reconnect_fail; tauto.
  - intros E; inversion E. exists ALClose. apply A_close.
  - destruct (arestartb (a_cl w) c') eqn:Hc; [|discriminate]. intros E. inversion E.
    exists ALRestart. apply A_restart. apply arestartb_sound. exact Hc.
Qed.

Fixpoint arun (w : aworld) (l : list aaction) : option aworld :=
  match l with
  | [] => Some w
  | a :: r => match aexec w a with Some w' => arun w' r | None => None end
  end.

Lemma arun_reach l : forall w w', areach w -> arun w l = Some w' -> areach w'.
Proof.
  induction l as [|a r IH]; intros w w' H E; cbn [arun] in E.
  - inversion E. subst. exact H.
  - destruct (aexec w a) as [w1|] eqn:E1; [|discriminate].
    destruct (aexec_sound _ _ _ E1) as (lb & Hs). exact (IH _ _ (ar_step _ _ _ H Hs) E).
Qed.

(* (e) At-most-once does NOT hold for QoS 1, as expected: PUBLISH 0 reaches the broker and is
   forwarded, the connection breaks before the client reads the PUBACK, the client reconnects
   and sends PUBLISH 0 again with DUP; the broker forwards it again.  The run ends complete:
   acknowledged, exchange closed, forwarded twice. *)
Definition dup_trace : list aaction :=
  [XReconnect; XAccept; XBroker; XBreak; XReconnect; XBroker; XClient].

Example duplicate_after_lost_puback :
  exists w, arun (ainit 4) dup_trace = Some w /\ areach w /\ acomplete w /\
    a_fwd w = [0; 0] /\ count_occ N.eq_dec (a_fwd w) 0 = 2%nat /\ ~ NoDup (a_fwd w).
Proof.
  eexists. split; [vm_compute; reflexivity|]. split.
  - apply (arun_reach dup_trace (ainit 4)); [apply ar_init; lia|vm_compute; reflexivity].
  - split; [|split; [reflexivity|split; [reflexivity|]]].
    + unfold acomplete. cbn. repeat split; try reflexivity; cbn in *; lia.
    + cbn. intros Hnd. inversion Hnd as [|? ? Hni _]. apply Hni. left. reflexivity.
Qed.

(* the retransmission carries DUP, the first transmission does not *)
Example retransmission_has_dup :
  exists w, arun (ainit 4) [XReconnect; XAccept; XBreak; XReconnect] = Some w /\
    a_c2b w = [APub true (key1 0) 0] /\
  exists w', arun (ainit 4) [XReconnect; XAccept] = Some w' /\ a_c2b w' = [APub false (key1 0) 0].
Proof.
  eexists. split; [vm_compute; reflexivity|]. split; [reflexivity|].
  eexists. split; [vm_compute; reflexivity|]. reflexivity.
Qed.

(* Two messages; the Delete fails at the PUBACK of the second one (the record stays, the
   connection is reset), the process stops, a new one adopts the session (one message
   pending), resends it with DUP: forwarded again, acknowledged, complete. *)
Definition delete_fault_trace : list aaction :=
  [XReconnect; XAccept; XAccept; XBroker; XBroker; XClient; XDeleteFail;
   XRestart (mkAcl 1 2 2 8 1 false); XReconnect; XBroker; XClient].

Example delete_fault_restart_complete :
  exists w, arun (ainit 4) delete_fault_trace = Some w /\ areach w /\ acomplete w /\
    a_fwd w = [1; 1; 0].
Proof.
  eexists. split; [vm_compute; reflexivity|]. split.
  - apply (arun_reach delete_fault_trace (ainit 4)); [apply ar_init; lia|vm_compute; reflexivity].
  - split; [|reflexivity].
    unfold acomplete. cbn. repeat split; try reflexivity; cbn in *; lia.
Qed.

(* ... then the next process starts with an empty window (counters rebased to 0, a_base = 2),
   a Save fails (nothing accepted), a message is accepted offline, the first connect fails
   after the broker processed the resent PUBLISH, the second one succeeds: forwarded twice
   under the absolute number 2. *)
Definition resend_fault_actions : list aaction :=
  delete_fault_trace ++
  [XBreak; XRestart (mkAcl 0 0 0 8 0 false); XSaveFail; XAccept; XReconnectFail 1 1;
   XReconnect; XBroker; XClient].

Example resend_fault_trace :
  exists w, arun (ainit 4) resend_fault_actions = Some w /\ areach w /\ acomplete w /\
    a_base w = 2 /\ a_fwd w = [2; 2; 1; 1; 0].
Proof.
  eexists. split; [vm_compute; reflexivity|]. split.
  - apply (arun_reach resend_fault_actions (ainit 4)); [apply ar_init; lia|vm_compute; reflexivity].
  - split; [|split; reflexivity].
    unfold acomplete. cbn. repeat split; try reflexivity; cbn in *; lia.
Qed.

(* Close terminates the client: all exchanges end (ErrClosed), nothing is acknowledged, the
   message waits in the Persistence; the terminated client does not reconnect *)
Example close_keeps_message :
  exists w, arun (ainit 4) [XReconnect; XAccept; XClose] = Some w /\
    wQ w = 0 /\ wT w = true /\ wK w = 0 /\ wA w = 1 /\ aexec w XReconnect = None /\
  exists w', arun w [XRestart (mkAcl 0 1 1 4 1 false); XReconnect; XBroker; XClient] = Some w' /\
    acomplete w' /\ a_fwd w' = [0].
Proof.
  eexists. split; [vm_compute; reflexivity|]. repeat split; try reflexivity.
  eexists. split; [vm_compute; reflexivity|]. split; [|reflexivity].
  unfold acomplete. cbn. repeat split; try reflexivity; cbn in *; lia.
Qed.
