(* Tie (b), codec part: the constants the hand-written model uses are the ones /repo's sources
   declare now.  coq/gen/GenConsts.v is regenerated from mqtt.go, client.go and request.go
   on every run (gen/gen.py); every lemma is closed by computation, so an edit of one of
   these values breaks this file in the kernel.  Proofs only. *)
From MQ Require Import Bytes Packets Utf8 Reader Session Requests.
From MQG Require Import GenConsts.
Open Scope N_scope.

Lemma tie_packet_max : packet_max = g_packetMax. Proof. reflexivity. Qed.
Lemma tie_string_max : Packets.string_max = g_stringMax /\ Utf8.string_max = g_stringMax.
Proof. split; reflexivity. Qed.
Lemma tie_types :
  tCONNECT = g_typeCONNECT /\ tCONNACK = g_typeCONNACK /\ tPUBLISH = g_typePUBLISH /\ tPUBACK = g_typePUBACK /\
  tPUBREC = g_typePUBREC /\ tPUBREL = g_typePUBREL /\ tPUBCOMP = g_typePUBCOMP /\ tSUBSCRIBE = g_typeSUBSCRIBE /\
  tSUBACK = g_typeSUBACK /\ tUNSUBSCRIBE = g_typeUNSUBSCRIBE /\ tUNSUBACK = g_typeUNSUBACK /\
  tPINGREQ = g_typePINGREQ /\ tPINGRESP = g_typePINGRESP /\ tDISCONNECT = g_typeDISCONNECT.
Proof. repeat split; reflexivity. Qed.
Lemma tie_flags : g_dupeFlag = 8 /\ g_retainFlag = 1 /\ g_pubrelHead = 98.
Proof. repeat split; reflexivity. Qed.
(* the guard of the remaining-length decoder: "if shift >= 21" *)
Lemma tie_remlen_guard : g_remlenGuardStrict = 1 /\ g_remlenGuardShift = 21. Proof. split; reflexivity. Qed.
