(* Tie (b), codec part: where /repo's sources still declare a constant (or still have the statement
   shape a value is read from), the value is the one the hand-written model uses.
   coq/gen/GenConsts.v is regenerated from mqtt.go, client.go and request.go on every run
   (gen/gen.py) as `option N`: `Some v` is what the source says now, `None` means that the
   declaration was not found (renamed, rewritten) -- which is no disagreement; the behaviour is
   then tied by the correspondence check alone and the run's evidence names what was not found.
   Every lemma is closed by computation, so an edited value breaks this file in the kernel.
   Proofs only. *)
From MQ Require Import Bytes Packets Utf8 Reader Session Requests.
From MQG Require Import GenConsts.
Open Scope N_scope.

Definition agrees (g : option N) (m : N) : Prop := match g with Some v => v = m | None => True end.
Definition gval (g : option N) (m : N) : N := match g with Some v => v | None => m end.
Ltac tie := repeat split; first [reflexivity | exact I].

Lemma tie_packet_max : agrees g_packetMax packet_max. Proof. tie. Qed.
Lemma tie_string_max : agrees g_stringMax Packets.string_max /\ agrees g_stringMax Utf8.string_max.
Proof. tie. Qed.
Lemma tie_types :
  agrees g_typeCONNECT tCONNECT /\ agrees g_typeCONNACK tCONNACK /\ agrees g_typePUBLISH tPUBLISH /\
  agrees g_typePUBACK tPUBACK /\ agrees g_typePUBREC tPUBREC /\ agrees g_typePUBREL tPUBREL /\
  agrees g_typePUBCOMP tPUBCOMP /\ agrees g_typeSUBSCRIBE tSUBSCRIBE /\ agrees g_typeSUBACK tSUBACK /\
  agrees g_typeUNSUBSCRIBE tUNSUBSCRIBE /\ agrees g_typeUNSUBACK tUNSUBACK /\ agrees g_typePINGREQ tPINGREQ /\
  agrees g_typePINGRESP tPINGRESP /\ agrees g_typeDISCONNECT tDISCONNECT.
Proof. tie. Qed.
Lemma tie_flags : agrees g_dupeFlag 8 /\ agrees g_retainFlag 1 /\ agrees g_pubrelHead 98.
Proof. tie. Qed.
(* the guard of the remaining-length decoder: "if shift >= 21" *)
Lemma tie_remlen_guard : agrees g_remlenGuardStrict 1 /\ agrees g_remlenGuardShift 21. Proof. tie. Qed.
