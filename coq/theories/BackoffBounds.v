(* L2 (C10, last sentence): "ReadBackoff yields a channel that closes within the
   configured bounds for every non-fatal error".

   Model: Session.op_read_backoff c e = (client', RetWait kind ms), kind 0 = the released
   channel (no wait), 1 = the nil channel (blocks for ever), 2 = a channel closed by a
   timer of ms milliseconds (ms > 0; a timer of zero is the released channel).
   e is the class bit-vector of the error ReadSlices returned last; [model_errs]
   (ConnectProofs) is the list of every error value the model produces.

   backoff_cases            the five classes of the switch in client.go, in its order:
                            no error or BigMessage pending -> released; ErrClosed -> nil;
                            readConn still set (the error came from the Persistence) -> 1000 ms;
                            connection refused -> ReconnectWaitMax; otherwise the ramp-up
   backoff_nil_iff          nil channel iff e <> nil, no BigMessage pending, e Is ErrClosed
   closed_class_unique      among the model's errors only E_closed Is ErrClosed
   backoff_nil_iff_closed   hence: nil iff e = E_closed (no BigMessage pending)
   backoff_shape            always a RetWait; a timer is never zero
   backoff_upper            every non-nil answer closes within max(1000, ReconnectWaitMax) ms
   backoff_reconnect_bounds offline (readConn = nil), e non-nil non-fatal, Min <= Max (as
                            newClient normalises): ReconnectWaitMin <= wait <= ReconnectWaitMax,
                            refusal: exactly ReconnectWaitMax; without the normalisation the
                            lower bound is min(Min, Max) ([backoff_reconnect_bounds_raw])
   backoff_store_second     readConn set: exactly 1000 ms whatever the configuration
   backoff_ramp             two consecutive ramp-up answers: the second wait is
                            min(max(2 * first, Min), Max) >= the first
   backoff_ramp_doubles     ... = min(2 * first, Max) when Min <= first
   connect_ok_resets_rwait, connect_fail_keeps_rwait, offline_read_slices_rwait
                            a successful connect resets the ramp-up, a failed one keeps it
   backoff_after_success    after a successful connect the next ramp-up answer is Min
   backoff_no_io            ReadBackoff never touches the world, and changes nothing of the
                            client but reconnectWait
   Proofs only. *)
From Coq Require Import ZArith ZifyN ZifyNat ZifyBool Lia List.
From RecordUpdate Require Import RecordUpdate.
From MQ Require Import Session ConnectProofs.
Import ListNotations.

(* ------------------------------------------------------------------ *)
(* The classes of the switch                                           *)

Inductive bo_class := BoNone | BoFatal | BoStore | BoRefused | BoRamp.

Definition big_pending (c : client) : bool := match k_big c with Some _ => true | None => false end.

Definition bo_class_of (c : client) (e : err) : bo_class :=
  if (e =? 0) || big_pending c then BoNone
  else if N.testbit e 1 then BoFatal
  else match k_rconn c with
       | Some _ => BoStore
       | None => if N.testbit e 10 then BoRefused else BoRamp
       end.

(* time.AfterFunc(0) is not distinguishable from the released channel *)
Definition timer (ms : N) : retv := if ms =? 0 then RetWait 0 0 else RetWait 2 ms.

(* idle = min(max(reconnectWait, ReconnectWaitMin), ReconnectWaitMax) *)
Definition idle_of (c : client) : N :=
  N.min (N.max (k_rwait c) (s_wmin (k_cfg c))) (s_wmax (k_cfg c)).

Theorem backoff_cases c e :
  op_read_backoff c e =
  match bo_class_of c e with
  | BoNone => (c, RetWait 0 0)
  | BoFatal => (c, RetWait 1 0)
  | BoStore => (c, RetWait 2 1000)
  | BoRefused => (c, timer (s_wmax (k_cfg c)))
  | BoRamp => (c <| k_rwait := 2 * idle_of c |>, timer (idle_of c))
  end.
Proof.
  unfold op_read_backoff, bo_class_of, big_pending, timer, idle_of.
  destruct ((e =? 0) || match k_big c with Some _ => true | None => false end); [reflexivity|].
  destruct (N.testbit e 1); [reflexivity|].
  destruct (k_rconn c); [reflexivity|].
  destruct (N.testbit e 10); reflexivity.
Qed.

(* milliseconds until the channel closes (nil: never; see [is_nil]) *)
Definition wait_ms (r : retv) : N := match r with RetWait _ ms => ms | _ => 0 end.
Definition is_nil (r : retv) : bool := match r with RetWait 1 _ => true | _ => false end.

Lemma timer_wait ms : wait_ms (timer ms) = ms.
Proof. unfold timer. destruct (N.eqb_spec ms 0) as [->|]; reflexivity. Qed.
Lemma timer_not_nil ms : is_nil (timer ms) = false.
Proof. unfold timer. destruct (ms =? 0); reflexivity. Qed.

(* ------------------------------------------------------------------ *)
(* (i) nil exactly for the closed class                                *)

Theorem backoff_nil_iff c e :
  is_nil (snd (op_read_backoff c e)) = true
  <-> e <> 0 /\ k_big c = None /\ N.testbit e 1 = true.
Proof.
  rewrite backoff_cases. unfold bo_class_of, big_pending.
  destruct (N.eqb_spec e 0) as [->|He]; cbn [orb].
  { cbn. split; [discriminate|]. intros [H _]. congruence. }
  destruct (k_big c) as [b|]; cbn [orb].
  { cbn. split; [discriminate|]. intros (_ & H & _). discriminate. }
  destruct (N.testbit e 1).
  { cbn. split; auto. }
  split; [|intros (_ & _ & H); discriminate].
  destruct (k_rconn c); [cbn; discriminate|].
  destruct (N.testbit e 10); cbn [snd]; rewrite timer_not_nil; discriminate.
Qed.

(* the answer is exactly the nil channel then, not just of kind 1 *)
Theorem backoff_nil_exact c e :
  is_nil (snd (op_read_backoff c e)) = true -> op_read_backoff c e = (c, RetWait 1 0).
Proof.
  intros H. apply backoff_nil_iff in H. destruct H as (He & Hb & Ht).
  unfold op_read_backoff. rewrite Hb, Ht. destruct (N.eqb_spec e 0); [contradiction|reflexivity].
Qed.

(* errors.Is(err, ErrClosed) holds for exactly one of the error values of the model *)
Theorem closed_class_unique e : In e model_errs -> (N.testbit e 1 = true <-> e = E_closed).
Proof.
  intros H. cbn in H.
  repeat (destruct H as [<-|H]; [vm_compute; split; intros X; first [reflexivity|discriminate]|]).
  contradiction.
Qed.

(* IsConnectionRefused likewise *)
Theorem refused_class_unique e : In e model_errs -> (N.testbit e 10 = true <-> e = E_refused).
Proof.
  intros H. cbn in H.
  repeat (destruct H as [<-|H]; [vm_compute; split; intros X; first [reflexivity|discriminate]|]).
  contradiction.
Qed.

Theorem backoff_nil_iff_closed c e :
  In e model_errs -> k_big c = None ->
  (is_nil (snd (op_read_backoff c e)) = true <-> e = E_closed).
Proof.
  intros Hin Hb. rewrite backoff_nil_iff, (closed_class_unique e Hin). split.
  - intros (_ & _ & H). exact H.
  - intros ->. split; [discriminate|]. split; [exact Hb|reflexivity].
Qed.

(* with a BigMessage pending (ReadSlices returned it last) there is no backoff at all *)
Theorem backoff_big_pending c e : k_big c <> None -> op_read_backoff c e = (c, RetWait 0 0).
Proof.
  intros H. unfold op_read_backoff. destruct (k_big c); [|congruence]. rewrite orb_true_r. reflexivity.
Qed.

Theorem backoff_no_error c : op_read_backoff c 0 = (c, RetWait 0 0).
Proof. reflexivity. Qed.

(* ------------------------------------------------------------------ *)
(* (ii) the wait                                                       *)

(* always a channel answer; a timer is never zero *)
Theorem backoff_shape c e :
  exists kind ms, snd (op_read_backoff c e) = RetWait kind ms
    /\ ((kind = 0 /\ ms = 0) \/ (kind = 1 /\ ms = 0) \/ (kind = 2 /\ 0 < ms)).
Proof.
  rewrite backoff_cases.
  assert (T : forall ms, exists kind ms', timer ms = RetWait kind ms'
              /\ ((kind = 0 /\ ms' = 0) \/ (kind = 1 /\ ms' = 0) \/ (kind = 2 /\ 0 < ms'))).
  { intros ms. unfold timer. destruct (N.eqb_spec ms 0); [exists 0, 0|exists 2, ms]; (split; [reflexivity|]);
      [left; auto|right; right; split; [reflexivity|lia]]. }
  destruct (bo_class_of c e); cbn [snd]; try apply T.
  - exists 0, 0. auto.
  - exists 1, 0. auto.
  - exists 2, 1000. split; [reflexivity|]. right. right. split; [reflexivity|lia].
Qed.

(* every answer but the nil channel closes within max(1 s, ReconnectWaitMax) *)
Theorem backoff_upper c e :
  is_nil (snd (op_read_backoff c e)) = false ->
  wait_ms (snd (op_read_backoff c e)) <= N.max 1000 (s_wmax (k_cfg c)).
Proof.
  rewrite backoff_cases. destruct (bo_class_of c e); cbn [snd wait_ms is_nil]; intros H;
    rewrite ?timer_wait; unfold idle_of; try lia; discriminate.
Qed.

(* the error came from the Persistence (the connection is still installed): one second *)
Theorem backoff_store_second c e cn :
  e <> 0 -> k_big c = None -> N.testbit e 1 = false -> k_rconn c = Some cn ->
  op_read_backoff c e = (c, RetWait 2 1000).
Proof.
  intros He Hb Ht Hr. unfold op_read_backoff. rewrite Hb, Ht, Hr.
  destruct (N.eqb_spec e 0); [contradiction|reflexivity].
Qed.

(* connection refused: the maximum *)
Theorem backoff_refused c e :
  e <> 0 -> k_big c = None -> N.testbit e 1 = false -> k_rconn c = None -> N.testbit e 10 = true ->
  op_read_backoff c e = (c, timer (s_wmax (k_cfg c))).
Proof.
  intros He Hb Ht Hr H10. unfold op_read_backoff, timer. rewrite Hb, Ht, Hr, H10.
  destruct (N.eqb_spec e 0); [contradiction|reflexivity].
Qed.

(* connection lost or not established: the ramp-up *)
Theorem backoff_ramp_step c e :
  e <> 0 -> k_big c = None -> N.testbit e 1 = false -> k_rconn c = None -> N.testbit e 10 = false ->
  op_read_backoff c e = (c <| k_rwait := 2 * idle_of c |>, timer (idle_of c)).
Proof.
  intros He Hb Ht Hr H10. unfold op_read_backoff, timer, idle_of. rewrite Hb, Ht, Hr, H10.
  destruct (N.eqb_spec e 0); [contradiction|reflexivity].
Qed.

Lemma idle_bounds_raw c :
  N.min (s_wmin (k_cfg c)) (s_wmax (k_cfg c)) <= idle_of c <= s_wmax (k_cfg c).
Proof. unfold idle_of. lia. Qed.

Lemma idle_bounds c : s_wmin (k_cfg c) <= s_wmax (k_cfg c) ->
  s_wmin (k_cfg c) <= idle_of c <= s_wmax (k_cfg c).
Proof. unfold idle_of. lia. Qed.

(* offline, non-fatal error: between min(Min, Max) and Max for ANY configuration values *)
Theorem backoff_reconnect_bounds_raw c e :
  e <> 0 -> k_big c = None -> N.testbit e 1 = false -> k_rconn c = None ->
  let ms := wait_ms (snd (op_read_backoff c e)) in
  is_nil (snd (op_read_backoff c e)) = false
  /\ N.min (s_wmin (k_cfg c)) (s_wmax (k_cfg c)) <= ms <= s_wmax (k_cfg c)
  /\ snd (op_read_backoff c e) = timer ms.
Proof.
  intros He Hb Ht Hr. cbv zeta. destruct (N.testbit e 10) eqn:H10.
  - rewrite (backoff_refused c e He Hb Ht Hr H10). cbn [snd]. rewrite timer_wait, timer_not_nil.
    split; [reflexivity|]. split; [lia|reflexivity].
  - rewrite (backoff_ramp_step c e He Hb Ht Hr H10). cbn [snd]. rewrite timer_wait, timer_not_nil.
    split; [reflexivity|]. split; [apply idle_bounds_raw|reflexivity].
Qed.

(* ... and with ReconnectWaitMin <= ReconnectWaitMax, as newClient normalises them:
   within the configured bounds; a refusal waits the maximum *)
Theorem backoff_reconnect_bounds c e :
  s_wmin (k_cfg c) <= s_wmax (k_cfg c) ->
  e <> 0 -> k_big c = None -> N.testbit e 1 = false -> k_rconn c = None ->
  let ms := wait_ms (snd (op_read_backoff c e)) in
  is_nil (snd (op_read_backoff c e)) = false
  /\ s_wmin (k_cfg c) <= ms <= s_wmax (k_cfg c)
  /\ (N.testbit e 10 = true -> ms = s_wmax (k_cfg c))
  /\ snd (op_read_backoff c e) = timer ms.
Proof.
  intros Hn He Hb Ht Hr. cbv zeta. destruct (N.testbit e 10) eqn:H10.
  - rewrite (backoff_refused c e He Hb Ht Hr H10). cbn [snd]. rewrite timer_wait, timer_not_nil.
    split; [reflexivity|]. split; [lia|]. split; reflexivity.
  - rewrite (backoff_ramp_step c e He Hb Ht Hr H10). cbn [snd]. rewrite timer_wait, timer_not_nil.
    split; [reflexivity|]. split; [apply idle_bounds, Hn|]. split; [discriminate|reflexivity].
Qed.

(* The whole sentence for the errors of the model: every error value other than E_closed
   (and nil) gets a channel that closes, after exactly 1000 ms when the connection is still
   installed, after at most max(1000, Max) in every case, and between Min and Max when the
   connection is gone *)
Theorem backoff_every_nonfatal c e :
  In e model_errs -> e <> 0 -> e <> E_closed -> k_big c = None ->
  s_wmin (k_cfg c) <= s_wmax (k_cfg c) ->
  let r := snd (op_read_backoff c e) in
  is_nil r = false
  /\ wait_ms r <= N.max 1000 (s_wmax (k_cfg c))
  /\ (k_rconn c <> None -> r = RetWait 2 1000)
  /\ (k_rconn c = None -> s_wmin (k_cfg c) <= wait_ms r <= s_wmax (k_cfg c) /\ r = timer (wait_ms r))
  /\ (k_rconn c = None -> e = E_refused -> wait_ms r = s_wmax (k_cfg c)).
Proof.
  intros Hin He Hc Hb Hn. cbv zeta.
  assert (Ht : N.testbit e 1 = false).
  { destruct (N.testbit e 1) eqn:T; [|reflexivity]. apply (closed_class_unique e Hin) in T. contradiction. }
  assert (Hnil : is_nil (snd (op_read_backoff c e)) = false).
  { destruct (is_nil _) eqn:X; [|reflexivity]. apply backoff_nil_iff in X. destruct X as (_ & _ & X). congruence. }
  split; [exact Hnil|]. split; [apply backoff_upper, Hnil|]. split.
  { intros Hr. destruct (k_rconn c) as [cn|] eqn:R; [|congruence].
    rewrite (backoff_store_second c e cn He Hb Ht R). reflexivity. }
  split.
  { intros Hr. destruct (backoff_reconnect_bounds c e Hn He Hb Ht Hr) as (_ & B & _ & T). auto. }
  intros Hr ->. destruct (backoff_reconnect_bounds c E_refused Hn He Hb Ht Hr) as (_ & _ & B & _).
  apply B. reflexivity.
Qed.

(* ------------------------------------------------------------------ *)
(* (iii) the ramp-up                                                   *)

Lemma idle_of_set c x :
  idle_of (c <| k_rwait := x |>) = N.min (N.max x (s_wmin (k_cfg c))) (s_wmax (k_cfg c)).
Proof. reflexivity. Qed.

(* two ramp-up answers in a row (nothing reset reconnectWait in between) *)
Theorem backoff_ramp c e e' :
  e <> 0 -> k_big c = None -> N.testbit e 1 = false -> k_rconn c = None -> N.testbit e 10 = false ->
  e' <> 0 -> N.testbit e' 1 = false -> N.testbit e' 10 = false ->
  let c1 := fst (op_read_backoff c e) in
  let w1 := wait_ms (snd (op_read_backoff c e)) in
  let w2 := wait_ms (snd (op_read_backoff c1 e')) in
  w2 = N.min (N.max (2 * w1) (s_wmin (k_cfg c))) (s_wmax (k_cfg c)) /\ w1 <= w2.
Proof.
  intros He Hb Ht Hr H10 He' Ht' H10'. cbv zeta.
  rewrite (backoff_ramp_step c e He Hb Ht Hr H10). cbn [fst snd].
  set (c1 := c <| k_rwait := 2 * idle_of c |>).
  rewrite (backoff_ramp_step c1 e' He' Hb Ht' Hr H10'). cbn [snd].
  rewrite !timer_wait. unfold c1. rewrite idle_of_set. unfold idle_of. split; lia.
Qed.

(* exponential: the wait doubles until it reaches the maximum *)
Theorem backoff_ramp_doubles c e e' :
  s_wmin (k_cfg c) <= s_wmax (k_cfg c) ->
  e <> 0 -> k_big c = None -> N.testbit e 1 = false -> k_rconn c = None -> N.testbit e 10 = false ->
  e' <> 0 -> N.testbit e' 1 = false -> N.testbit e' 10 = false ->
  let c1 := fst (op_read_backoff c e) in
  let w1 := wait_ms (snd (op_read_backoff c e)) in
  let w2 := wait_ms (snd (op_read_backoff c1 e')) in
  w2 = N.min (2 * w1) (s_wmax (k_cfg c)).
Proof.
  intros Hn He Hb Ht Hr H10 He' Ht' H10'. cbv zeta.
  destruct (backoff_ramp c e e' He Hb Ht Hr H10 He' Ht' H10') as [E _]. cbv zeta in E. rewrite E.
  rewrite (backoff_ramp_step c e He Hb Ht Hr H10). cbn [snd]. rewrite timer_wait.
  pose proof (idle_bounds c Hn). lia.
Qed.

(* a refusal or a Persistence error in between does not touch the ramp-up *)
Theorem backoff_other_keeps_rwait c e :
  bo_class_of c e <> BoRamp -> fst (op_read_backoff c e) = c.
Proof. rewrite backoff_cases. destruct (bo_class_of c e); try reflexivity. congruence. Qed.

(* ---- connect and the ramp-up ---- *)

Lemma rugged_load_err k w e w' : rugged_load k w = Some (inr e, w') -> e <> 0.
Proof.
  unfold rugged_load. intros H. apply bind_inv in H as (a & w1 & _ & H).
  destruct a as [ks|[raw|]| |]; try discriminate.
  - destruct (decode_value raw); apply ret_inv in H as [H _]; inversion H; subst; intros X; discriminate X.
  - apply ret_inv in H as [H _]. inversion H. intros X; discriminate X.
Qed.

Lemma rl_rwait c e : k_rwait (release_locked c e) = k_rwait c.
Proof. apply (release_locked_pres k_rwait); pres_tac. Qed.

Lemma handshake_rwait c cn clean cid w c' h w' :
  handshake c cn clean cid w = Some ((c', h), w') ->
  k_rwait c' = k_rwait c /\ (forall e, h = HsErr e -> e <> 0).
Proof.
  intros H. split.
  - unfold handshake in H. cbv zeta in H. apply bind_inv in H as (r & w1 & _ & H).
    destruct r; try (apply ret_inv in H as [H _]; inversion H; reflexivity).
    apply bind_inv in H as ([c1 [p e]] & w2 & Hr & H).
    unfold with_reader in Hr. destruct (peek _ 4) as [a s]. inversion Hr; subst. clear Hr.
    cbv zeta in H.
    repeat match type of H with
           | match ?x with _ => _ end _ = _ => destruct x
           | (if ?b then _ else _) _ = _ => destruct b
           end;
      try discriminate; apply ret_inv in H as [H _]; inversion H; reflexivity.
  - destruct (handshake_lspec c cn clean cid w _ w' H) as (tr & _ & _ & r & wtr & rtr & _ & _ & _ & _ & _ & Hnz).
    exact Hnz.
Qed.

(* a successful connect resets reconnectWait; a failed one leaves it alone *)
Theorem connect_rwait c w c' e w' :
  connect c w = Some ((c', e), w') ->
  (e = 0 -> k_rwait c' = 0) /\ (e <> 0 -> k_rwait c' = k_rwait c).
Proof.
  intros H. unfold connect in H. destruct (k_closed c).
  { apply ret_inv in H as [H _]. inversion H; subst. split; [discriminate|reflexivity]. }
  cbv zeta in H. apply bind_inv in H as (l & w1 & Hl & H).
  destruct l as [cidv|e0].
  2:{ apply ret_inv in H as [H _]. inversion H; subst. apply rugged_load_err in Hl.
      split; [contradiction|]. intros _. rewrite rl_rwait. reflexivity. }
  apply bind_inv in H as (ok & w2 & _ & H). destruct ok; cbn [negb] in H.
  2:{ apply ret_inv in H as [H _]. inversion H; subst. split; [discriminate|]. intros _. rewrite rl_rwait. reflexivity. }
  apply bind_inv in H as ([c2 h] & w3 & Hh & H).
  destruct (handshake_rwait _ _ _ _ _ _ _ _ Hh) as [Hw Hnz]. change (k_rwait c2 = k_rwait c) in Hw.
  destruct h as [|eh].
  2:{ apply bind_inv in H as (u & w4 & _ & H). apply ret_inv in H as [H _]. inversion H; subst.
      split; [intros X; exfalso; exact (Hnz _ eq_refl X)|]. intros _. rewrite rl_rwait. exact Hw. }
  cbv zeta in H. apply bind_inv in H as ([s1 e1] & w4 & _ & H).
  destruct (negb (e1 =? 0)) eqn:E1.
  { apply bind_inv in H as (u & w5 & _ & H). apply ret_inv in H as [H _]. inversion H; subst.
    apply negb_eqb_nz in E1. split; [contradiction|]. intros _. rewrite rl_rwait. exact Hw. }
  apply bind_inv in H as ([s2 e2] & w5 & _ & H).
  destruct (negb (e2 =? 0)) eqn:E2.
  { apply bind_inv in H as (u & w6 & _ & H). apply ret_inv in H as [H _]. inversion H; subst.
    apply negb_eqb_nz in E2. split; [contradiction|]. intros _. rewrite rl_rwait. exact Hw. }
  match type of H with (if ?b then _ else _) _ = _ => destruct b end; [discriminate|].
  apply ret_inv in H as [H _]. inversion H; subst. split; [reflexivity|]. intros X. exfalso. apply X. reflexivity.
Qed.

Corollary connect_ok_resets_rwait c w c' w' :
  connect c w = Some ((c', 0), w') -> k_rwait c' = 0.
Proof. intros H. apply (proj1 (connect_rwait _ _ _ _ _ H)). reflexivity. Qed.

Corollary connect_fail_keeps_rwait c w c' e w' :
  connect c w = Some ((c', e), w') -> e <> 0 -> k_rwait c' = k_rwait c.
Proof. intros H. apply (proj2 (connect_rwait _ _ _ _ _ H)). Qed.

Lemma term_callbacks_rwait c : k_rwait (term_callbacks c) = k_rwait c.
Proof.
  unfold term_callbacks. rewrite (break_pending_pres k_rwait); [|reflexivity|reflexivity|reflexivity].
  destruct (k_seqclosed c); reflexivity.
Qed.

(* ReadSlices of an offline client whose connect attempt fails: it returns that error and
   reconnectWait is what it was: consecutive failed connects keep ramping up *)
Theorem offline_read_slices_rwait c w c1 e1 w1 :
  k_rconn c = None -> connect c w = Some ((c1, e1), w1) -> e1 <> 0 ->
  exists c', read_slices c w = Some ((c', RetErr e1), w1) /\ k_rwait c' = k_rwait c.
Proof.
  intros Hr Hc He. unfold read_slices, read_slices_body. rewrite Hr.
  unfold bind at 1. unfold bind at 1. rewrite Hc.
  replace (negb (e1 =? 0)) with true by (destruct (N.eqb_spec e1 0); [contradiction|reflexivity]).
  cbn [ret]. destruct (is_closed_err e1); eexists; (split; [reflexivity|]).
  - rewrite term_callbacks_rwait. exact (connect_fail_keeps_rwait _ _ _ _ _ Hc He).
  - exact (connect_fail_keeps_rwait _ _ _ _ _ Hc He).
Qed.

(* after a successful connect the next ramp-up answer starts from the minimum again *)
Theorem backoff_after_success c w c' w' :
  connect c w = Some ((c', 0), w') ->
  s_wmin (k_cfg c') <= s_wmax (k_cfg c') ->
  idle_of c' = s_wmin (k_cfg c').
Proof.
  intros H Hn. unfold idle_of. rewrite (connect_ok_resets_rwait _ _ _ _ H). lia.
Qed.

(* ------------------------------------------------------------------ *)
(* (iv) no I/O                                                         *)

(* op_read_backoff is not even a computation over the world; as a step: *)
Theorem backoff_no_io c e w c' r w' :
  step c (OpReadBackoff e) w = Some ((c', r), w') -> w' = w.
Proof. unfold step. cbv zeta. intros H. apply ret_inv in H as [_ ->]. reflexivity. Qed.

(* and of the client it changes reconnectWait only *)
Theorem backoff_client_frame c e :
  fst (op_read_backoff c e) = c \/ fst (op_read_backoff c e) = c <| k_rwait := 2 * idle_of c |>.
Proof. rewrite backoff_cases. destruct (bo_class_of c e); auto. Qed.

(* ------------------------------------------------------------------ *)
(* Concrete values (ReconnectWaitMin 1 s, ReconnectWaitMax 5 s)        *)

Definition exb_cfg : scfg :=
  mkScfg {| cfg_user := []; cfg_pass := None; cfg_will := None; cfg_keepalive := 0; cfg_clean := false |}
         false 16 16 4096 1000 5000.

Example backoff_example :
  let c0 := new_client exb_cfg 0 in
  let b1 := op_read_backoff c0 E_dial in
  let b2 := op_read_backoff (fst b1) E_brokerterm in
  let b3 := op_read_backoff (fst b2) E_refused in
  let b4 := op_read_backoff (fst b3) E_dial in
  let b5 := op_read_backoff (fst b4) E_dial in
  (snd b1, snd b2, snd b3, snd b4, snd b5)
  = (RetWait 2 1000, RetWait 2 2000, RetWait 2 5000, RetWait 2 4000, RetWait 2 5000)
  /\ snd (op_read_backoff (fst b5) E_closed) = RetWait 1 0
  /\ snd (op_read_backoff (fst b5 <| k_rconn := Some 0 |>) E_store) = RetWait 2 1000
  /\ snd (op_read_backoff (fst b5 <| k_big := Some 7 |>) E_dial) = RetWait 0 0.
Proof. vm_compute. repeat split; reflexivity. Qed.
