(* L2: the error classes of the request methods (C14), proved on Session.v for every
   client state and every world.  Proofs only. *)
From Coq Require Import ZArith Lia.
From RecordUpdate Require Import RecordUpdate.
From MQ Require Import Outbound OutboundRefine WriteLoopProofs ConnectProofs.

(* ------------------------------------------------------------------ *)
(* Outcome of a request that goes through lockWrite                    *)

(* a submission error is none of the "not submitted" classes *)
Lemma submit_not_unsubmitted wr :
  E_submit wr <> 0 /\ E_submit wr <> E_deny /\ E_submit wr <> E_closed /\ E_submit wr <> E_down
  /\ E_submit wr <> E_max /\ E_submit wr <> E_canceled.
Proof. destruct wr; vm_compute; repeat split; discriminate. Qed.

Lemma op_write_inv c bufs single w c' r w' :
  op_write c bufs single w = Some ((c', r), w') ->
  (k_wsem c = WsClosed /\ r = WrDone E_closed /\ c' = c /\ w' = w)
  \/ (k_wsem c = WsDown /\ r = WrDone E_down /\ c' = c /\ w' = w)
  \/ (k_wsem c = WsPending /\ r = WrPark /\ c' = c /\ w' = w)
  \/ (exists cn e tr, k_wsem c = WsConn cn /\ r = WrDone e /\ grows w w' tr
                      /\ wrote c cn (concat bufs) c' e tr).
Proof.
  unfold op_write. destruct (k_wsem c) as [| |cn|] eqn:W; intros H.
  - apply ret_inv in H as [H ->]. inversion H. auto 10.
  - apply ret_inv in H as [H ->]. inversion H. auto 10.
  - apply bind_inv in H as ([c1 e] & w1 & Hl & H). apply ret_inv in H as [H ->]. inversion H; subst.
    destruct (locked_write_spec _ _ _ _ _ _ _ Hl) as (tr & G & Hw). cbn [fst snd] in Hw.
    right. right. right. exists cn, e, tr. auto.
  - apply ret_inv in H as [H ->]. inversion H. auto 10.
Qed.

(* p: the bytes of the request's packet; sent_ok: what the method returns once the
   packet is written completely *)
Inductive req_outcome (c : client) (w : world) (p : list N) (r : retv) (w' : world) : Prop :=
| RO_deny : r = RetErr E_deny -> w' = w -> req_outcome c w p r w'
| RO_max : r = RetErr E_max -> w' = w -> req_outcome c w p r w'
| RO_closed : r = RetErr E_closed -> w' = w -> k_wsem c = WsClosed \/ k_closed c = true -> req_outcome c w p r w'
| RO_down : r = RetErr E_down -> w' = w -> k_wsem c = WsDown -> req_outcome c w p r w'
| RO_blocked : r = RetParked -> w' = w -> k_wsem c = WsPending -> req_outcome c w p r w'
| RO_sent : forall cn tr,
    k_wsem c = WsConn cn -> (r = RetParked \/ r = RetErr E_nil) ->
    grows w w' tr -> write_seg cn p WOk tr -> req_outcome c w p r w'
| RO_submit : forall cn wr wtr,
    k_wsem c = WsConn cn -> wr <> WOk -> r = RetErr (E_submit wr) ->
    write_seg cn p wr wtr ->
    grows w w' (wtr ++ (match wr with WClosed => [] | _ => [QClose cn] end)) ->
    req_outcome c w p r w'.

(* C14: the classes documented as "not submitted" come without any call at all *)
Theorem not_submitted_nothing_written c w p r w' e :
  req_outcome c w p r w' -> r = RetErr e ->
  e = E_deny \/ e = E_closed \/ e = E_down \/ e = E_max \/ e = E_canceled -> w' = w.
Proof.
  intros H -> He. destruct H as [H|H|H|H|H|cn tr _ H|cn wr wtr _ _ H]; try assumption; try discriminate.
  - destruct H as [H|H]; [discriminate|]. inversion H; subst.
    destruct He as [X|[X|[X|[X|X]]]]; discriminate.
  - inversion H; subst. pose proof (submit_not_unsubmitted wr) as (_ & A & B & C & D & E).
    destruct He as [X|[X|[X|[X|X]]]]; contradiction.
Qed.

Theorem req_outcome_classes c w p r w' :
  req_outcome c w p r w' ->
  r = RetParked \/ exists e, r = RetErr e /\
    (e = 0 \/ e = E_deny \/ e = E_max \/ e = E_closed \/ e = E_down \/ exists wr, wr <> WOk /\ e = E_submit wr).
Proof.
  intros [H|H|H|H|H|cn tr _ H|cn wr wtr _ Hn H]; auto; try solve [right; eexists; split; [exact H|]; auto 10].
  - destruct H as [H|H]; [auto|]. right; eexists; split; [exact H|]; auto.
  - right. eexists. split; [exact H|]. do 5 right. eauto.
Qed.

Lemma wrote_outcome c0 c cn p c' e w w' tr (r : retv) :
  k_wsem c = WsConn cn -> grows w w' tr -> wrote c0 cn p c' e tr ->
  (e = 0 -> r = RetParked \/ r = RetErr E_nil) -> (e <> 0 -> r = RetErr e) ->
  req_outcome c w p r w'.
Proof.
  intros W G (wr & wtr & Hw & _ & [(-> & -> & _ & ->)|(Hn & -> & _ & ->)]) H0 H1.
  - eapply RO_sent; eauto.
  - eapply RO_submit; eauto. apply H1. apply submit_not_unsubmitted.
Qed.

(* Publish (QoS 0) *)
Theorem op_publish_classes c retain msg topic w c' r w' :
  op_publish c retain msg topic w = Some ((c', r), w') ->
  req_outcome c w (publish_packet (head_publish 0 retain false) topic msg 0) r w'
  /\ r <> RetErr E_max
  /\ (r = RetParked -> k_wsem c = WsPending /\ parked_kind c' (k_nextr c) = Some (PkLock LcNone)).
Proof.
  unfold op_publish. cbv zeta. intros H.
  destruct (deny_of _).
  { apply ret_inv in H as [H ->]. inversion H. split; [apply RO_deny; auto|]. split; discriminate. }
  destruct (packet_max <? _).
  { apply ret_inv in H as [H ->]. inversion H. split; [apply RO_deny; auto|]. split; discriminate. }
  apply bind_inv in H as ([c1 wr] & w1 & Hw & H).
  apply op_write_inv in Hw as [(W & -> & -> & ->)|[(W & -> & -> & ->)|[(W & -> & -> & ->)|
                               (cn & e & tr & W & -> & G & Hwr)]]];
    apply ret_inv in H as [H ->]; inversion H; subst; clear H.
  - split; [apply RO_closed; auto|]. split; discriminate.
  - split; [apply RO_down; auto|]. split; discriminate.
  - split; [apply RO_blocked; auto|]. split; [discriminate|]. intros _. split; [exact W|].
    unfold parked_kind. cbn. rewrite N.eqb_refl. reflexivity.
  - split; [|split; [|discriminate]].
    + cbn [concat] in Hwr. rewrite app_nil_r in Hwr.
      eapply wrote_outcome; [exact W|exact G|exact Hwr| |]; intros X; [subst; auto|reflexivity].
    + destruct Hwr as (wr & wtr & _ & _ & [(_ & _ & _ & ->)|(_ & _ & _ & ->)]); [discriminate|].
      intros X. injection X as X. destruct (submit_not_unsubmitted wr) as (_ & _ & _ & _ & Hm & _).
      exact (Hm X).
Qed.

Lemma tx_pick_wsem fuel space : forall c, k_wsem (fst (tx_pick fuel c space)) = k_wsem c.
Proof.
  induction fuel as [|f IH]; intros c; cbn [tx_pick]; [reflexivity|]. cbv zeta.
  destruct (existsb _ _); [|reflexivity]. rewrite IH. reflexivity.
Qed.

Lemma wrote_err c0 cn p c' e tr : wrote c0 cn p c' e tr -> e = 0 \/ exists wr, e = E_submit wr /\ e <> 0.
Proof.
  intros (wr & wtr & _ & _ & [(_ & _ & _ & ->)|(_ & _ & _ & ->)]); [auto|].
  right. exists wr. split; [reflexivity|apply submit_not_unsubmitted].
Qed.

Lemma if_eqb_nz {A} e (a b : A) : e <> 0 -> (if e =? 0 then a else b) = b.
Proof. intros H. destruct (N.eqb_spec e 0); [contradiction|reflexivity]. Qed.

(* Subscribe / Unsubscribe *)
Theorem op_subscribe_classes c sub level fs w c' r w' :
  op_subscribe c sub level fs w = Some ((c', r), w') ->
  r <> RetErr E_nil /\
  exists pid, req_outcome c w (if sub then subscribe_packet pid fs level
                               else unsubscribe_packet pid fs) r w'.
Proof.
  unfold op_subscribe. cbv zeta. intros H.
  destruct fs as [|f0 fs0].
  { apply ret_inv in H as [H ->]. inversion H. split; [discriminate|]. exists 0. apply RO_deny; auto. }
  set (fs := f0 :: fs0) in *. clearbody fs.
  destruct (any_denied fs).
  { apply ret_inv in H as [H ->]. inversion H. split; [discriminate|]. exists 0. apply RO_deny; auto. }
  destruct (packet_max <? _).
  { apply ret_inv in H as [H ->]. inversion H. split; [discriminate|]. exists 0. apply RO_deny; auto. }
  destruct (511 <? _).
  { apply ret_inv in H as [H ->]. inversion H. split; [discriminate|]. exists 0. apply RO_max; auto. }
  pose proof (tx_pick_wsem 1024 (if sub then sub_space else unsub_space) (c <| k_nextr ::= N.succ |>)) as T.
  destruct (tx_pick 1024 _ _) as [c1 pid]. cbn [fst] in T. change (k_wsem c1 = k_wsem c) in T.
  apply bind_inv in H as ([c2 wr] & w1 & Hw & H).
  apply op_write_inv in Hw as [(W & -> & -> & ->)|[(W & -> & -> & ->)|[(W & -> & -> & ->)|
                               (cn & e & tr & W & -> & G & Hwr)]]];
    (match type of W with _ = ?x => change (k_wsem c1 = x) in W end); rewrite T in W.
  - rewrite if_eqb_nz in H by discriminate.
    apply ret_inv in H as [H ->]; inversion H. split; [discriminate|]. exists pid. apply RO_closed; auto.
  - rewrite if_eqb_nz in H by discriminate.
    apply ret_inv in H as [H ->]; inversion H. split; [discriminate|]. exists pid. apply RO_down; auto.
  - apply ret_inv in H as [H ->]; inversion H. split; [discriminate|]. exists pid. apply RO_blocked; auto.
  - rewrite concat_single in Hwr. pose proof (wrote_err _ _ _ _ _ _ Hwr) as He.
    destruct (N.eqb_spec e 0) as [->|Hne]; apply ret_inv in H as [H ->]; inversion H; subst; clear H.
    + split; [discriminate|]. exists pid.
      destruct sub; (eapply wrote_outcome; [exact W|exact G|exact Hwr|auto|intros X; contradiction]).
    + split; [intros X; inversion X; contradiction|]. exists pid.
      destruct sub; (eapply wrote_outcome; [exact W|exact G|exact Hwr|intros X; contradiction|reflexivity]).
Qed.

(* Ping *)
Theorem op_ping_classes c w c' r w' :
  op_ping c w = Some ((c', r), w') ->
  r <> RetErr E_nil /\ r <> RetErr E_deny /\ req_outcome c w packet_pingreq r w'.
Proof.
  unfold op_ping. cbv zeta. change (k_ping (c <| k_nextr ::= N.succ |>)) with (k_ping c). intros H.
  destruct (k_ping c).
  { change (k_closed (c <| k_nextr ::= N.succ |>)) with (k_closed c) in H.
    destruct (k_closed c) eqn:Kc; apply ret_inv in H as [H ->]; inversion H;
      (split; [discriminate|]); (split; [discriminate|]);
      [apply RO_closed; auto|apply RO_max; auto]. }
  apply bind_inv in H as ([c2 wr] & w1 & Hw & H).
  apply op_write_inv in Hw as [(W & -> & -> & ->)|[(W & -> & -> & ->)|[(W & -> & -> & ->)|
                               (cn & e & tr & W & -> & G & Hwr)]]];
    (match type of W with _ = ?x => change (k_wsem c = x) in W end).
  - rewrite if_eqb_nz in H by discriminate.
    apply ret_inv in H as [H ->]; inversion H. split; [discriminate|]. split; [discriminate|]. apply RO_closed; auto.
  - rewrite if_eqb_nz in H by discriminate.
    apply ret_inv in H as [H ->]; inversion H. split; [discriminate|]. split; [discriminate|]. apply RO_down; auto.
  - apply ret_inv in H as [H ->]; inversion H. split; [discriminate|]. split; [discriminate|]. apply RO_blocked; auto.
  - rewrite concat_single in Hwr. pose proof (wrote_err _ _ _ _ _ _ Hwr) as He.
    destruct (N.eqb_spec e 0) as [->|Hne]; apply ret_inv in H as [H ->]; inversion H; subst; clear H.
    + split; [discriminate|]. split; [discriminate|].
      eapply wrote_outcome; [exact W|exact G|exact Hwr|auto|intros X; contradiction].
    + split; [intros X; inversion X; contradiction|]. split.
      * destruct He as [?|(wr & -> & _)]; [contradiction|]. intros X. injection X as X.
        destruct (submit_not_unsubmitted wr) as (_ & Hd & _). exact (Hd X).
      * eapply wrote_outcome; [exact W|exact G|exact Hwr|intros X; contradiction|reflexivity].
Qed.

(* Disconnect *)
Theorem op_disconnect_classes c w c' r w' :
  op_disconnect c w = Some ((c', r), w') ->
  (r = RetErr E_closed /\ w' = w /\ k_closed c = true)
  \/ (r = RetErr E_down /\ w' = w /\ k_closed c = false /\ forall cn, k_wsem c <> WsConn cn)
  \/ exists cn wr wtr,
       k_closed c = false /\ k_wsem c = WsConn cn /\ write_seg cn packet_disconnect wr wtr /\
       grows w w' (wtr ++ [QClose cn]) /\
       r = RetErr (match wr with WOk => E_nil | _ => E_submit wr end).
Proof.
  unfold op_disconnect. intros H. destruct (k_closed c) eqn:CL.
  { apply ret_inv in H as [H ->]. inversion H. auto. }
  destruct (k_wsem c) as [| |cn|] eqn:W;
    try (apply ret_inv in H as [H ->]; inversion H; right; left;
         repeat split; auto; intros cn; discriminate).
  apply bind_inv in H as (wr & w1 & Hw & H). apply bind_inv in H as (u & w2 & Ht & H).
  apply ret_inv in H as [H ->]. inversion H; subst; clear H.
  destruct (conn_write_spec _ _ _ _ _ _ Hw) as (wtr & G1 & _ & Hseg). rewrite concat_single in Hseg.
  destruct (tell_spec _ _ _ _ Ht) as (t2 & G2 & ->).
  right. right. exists cn, wr, wtr. repeat split; auto. eapply grows_trans; eassumption.
Qed.

(* C14: a Disconnect error of the not-submitted kind comes without a write *)
Corollary op_disconnect_not_submitted c w c' e w' :
  op_disconnect c w = Some ((c', RetErr e), w') -> e = E_closed \/ e = E_down -> w' = w.
Proof.
  intros H He. apply op_disconnect_classes in H as [(_ & -> & _)|[(_ & -> & _)|H]]; try reflexivity.
  destruct H as (cn & wr & wtr & _ & _ & _ & _ & X). injection X as ->.
  pose proof (submit_not_unsubmitted wr) as (_ & _ & A & B & _).
  destruct wr; destruct He as [He|He]; try discriminate; contradiction.
Qed.

(* a quit signal: ErrCanceled for a request still waiting for the write token,
   ErrAbandoned for one whose packet is out; nothing else is completed *)
Theorem op_quit_classes c rid w c' r w' :
  op_quit c rid w = Some ((c', r), w') ->
  w' = w /\ r = RetErr E_nil /\
  (k_done c' = k_done c
   \/ (exists l, parked_kind c rid = Some (PkLock l) /\ k_done c' = (rid, E_canceled, []) :: k_done c)
   \/ ((exists pid, parked_kind c rid = Some (PkSub pid) \/ parked_kind c rid = Some (PkUnsub pid))
       /\ k_done c' = (rid, E_abandoned, []) :: k_done c)
   \/ (parked_kind c rid = Some PkPing /\ k_done c' = (rid, E_abandoned, []) :: k_done c)).
Proof.
  unfold op_quit. intros H.
  destruct (parked_kind c rid) as [[l|pid|pid|]|] eqn:P.
  - apply ret_inv in H as [H ->]. inversion H; subst. split; [reflexivity|]. split; [reflexivity|].
    right. left. exists l. split; [reflexivity|]. destruct l; reflexivity.
  - apply ret_inv in H as [H ->]. inversion H; subst. split; [reflexivity|]. split; [reflexivity|].
    right. right. left. split; [exists pid; auto|reflexivity].
  - apply ret_inv in H as [H ->]. inversion H; subst. split; [reflexivity|]. split; [reflexivity|].
    right. right. left. split; [exists pid; auto|reflexivity].
  - destruct (k_ping c) as [r0|]; [destruct (r0 =? rid)|];
      apply ret_inv in H as [H ->]; inversion H; subst; (split; [reflexivity|]); (split; [reflexivity|]); auto 6.
  - apply ret_inv in H as [H ->]. inversion H; subst. auto.
Qed.

(* ------------------------------------------------------------------ *)
(* Persisted publish                                                   *)

(* queues, counters and the exchange numbering *)
Definition qp (c : client) :=
  (k_q1 c, k_q2 c, (k_acc1 c, k_sub1 c, k_acked c), (k_acc2 c, k_sub2 c, k_recvd c, k_compl c),
   k_nextx c).

Definition pp_key (c : client) (level : N) : N :=
  N.lor (if level =? 1 then alo_space else eo_space)
        (N.land (if level =? 1 then k_acc1 c else k_acc2 c) id_mask).
Definition pp_packet (c : client) (level : N) (retain : bool) (msg topic : list N) : list N :=
  publish_head_buf (head_publish level retain false) topic msg (pp_key c level) ++ msg.

Definition is_conn_call (q : req) : Prop :=
  (exists cn bs, q = QWrite cn bs) \/ (exists cn, q = QClose cn).

Lemma wrote_conn_calls c cn p c' e tr : wrote c cn p c' e tr -> Forall is_conn_call tr.
Proof.
  intros (r & wtr & Hw & _ & H).
  assert (F : Forall is_conn_call wtr).
  { eapply Forall_impl; [|eapply write_seg_writes, Hw]. intros q (bs & ->). left. eauto. }
  destruct H as [(_ & -> & _)|(_ & -> & _)]; [exact F|].
  apply Forall_app. split; [exact F|].
  destruct r; first [apply Forall_nil | apply Forall_cons; [right; eauto|apply Forall_nil]].
Qed.

Lemma nowait_write_cc c bufs single : lspec (nowait_write c bufs single) (fun p tr =>
  (fst p = c \/ fst p = c <| k_wsem := WsPending |>) /\ Forall is_conn_call tr).
Proof.
  eapply lspec_conseq; [apply nowait_write_spec|]. intros p tr [(-> & -> & _)|(cn & _ & H)].
  - split; [auto|constructor].
  - split; [eapply wrote_client, H|eapply wrote_conn_calls, H].
Qed.

Lemma xsend_pres {Y} (g : client -> Y) c x e :
  (forall c f, g (c <| k_xev ::= f |>) = g c) -> g (xsend c x e) = g c.
Proof. intros H. unfold xsend. destruct (x =? 0); [reflexivity|apply H]. Qed.

Lemma xsend_q1 c x e : k_q1 (xsend c x e) = k_q1 c. Proof. apply (xsend_pres k_q1); reflexivity. Qed.
Lemma xsend_q2 c x e : k_q2 (xsend c x e) = k_q2 c. Proof. apply (xsend_pres k_q2); reflexivity. Qed.
Lemma xsend_acc1 c x e : k_acc1 (xsend c x e) = k_acc1 c. Proof. apply (xsend_pres k_acc1); reflexivity. Qed.
Lemma xsend_acc2 c x e : k_acc2 (xsend c x e) = k_acc2 c. Proof. apply (xsend_pres k_acc2); reflexivity. Qed.
Lemma xsend_nextx c x e : k_nextx (xsend c x e) = k_nextx c. Proof. apply (xsend_pres k_nextx); reflexivity. Qed.
Ltac xs := rewrite ?xsend_q1, ?xsend_q2, ?xsend_acc1, ?xsend_acc2, ?xsend_nextx; reflexivity.

Lemma rugged_save_fails_keeps c k v w c1 w1 m :
  rugged_save c k v w = Some ((c1, false), w1) -> w_store w = Some m -> w_store w1 = Some m.
Proof.
  intros H Hm. destruct (rugged_save_trip m c k v _ _ _ Hm H) as (m' & Hm' & _ & [[X _]|[_ ->]]).
  - discriminate.
  - exact Hm'.
Qed.

Lemma rugged_save_ok_puts c k v w c1 w1 m :
  rugged_save c k v w = Some ((c1, true), w1) -> w_store w = Some m ->
  w_store w1 = Some (store_put m k (encode_value v (k_rseq c + 1))).
Proof.
  intros H Hm. destruct (rugged_save_trip m c k v _ _ _ Hm H) as (m' & Hm' & _ & [[_ ->]|[X _]]).
  - exact Hm'.
  - discriminate.
Qed.

Lemma nowait_write_keeps_store c bufs single w p w1 m :
  nowait_write c bufs single w = Some (p, w1) -> w_store w = Some m -> w_store w1 = Some m.
Proof.
  intros H Hm. destruct (nowait_write_k c m bufs single _ _ _ Hm H) as (m' & Hm' & _ & ->). exact Hm'.
Qed.

(* the request returns an error: refused before anything happened, or the Persistence
   failed to save; either way nothing was enqueued and nothing was written *)
Theorem op_publish_persisted_error_not_enqueued c level retain msg topic w c' e w' :
  op_publish_persisted c level retain msg topic w = Some ((c', RetErr e), w') ->
  (e = E_deny \/ e = E_closed \/ e = E_max \/ e = E_store) /\
  qp c' = qp c /\ k_xev c' = k_xev c /\ k_parked c' = k_parked c /\
  (e <> E_store -> w' = w /\ c' = c) /\
  (e = E_store ->
     rugged_save c (pp_key c level) (pp_packet c level retain msg topic) w = Some ((c', false), w')
     /\ grows w w' [QSave (pp_key c level)
                          (encode_value (pp_packet c level retain msg topic) (k_rseq c + 1))]) /\
  (exists tr, grows w w' tr /\ forall cn bs, ~ In (QWrite cn bs) tr) /\
  (forall m, w_store w = Some m -> w_store w' = Some m).
Proof.
  unfold op_publish_persisted. cbv zeta. fold (pp_key c level). fold (pp_packet c level retain msg topic).
  intros H.
  assert (Hearly : forall e0, (e0 = E_deny \/ e0 = E_closed \/ e0 = E_max) ->
            ret (c, RetErr e0) w = Some ((c', RetErr e), w') ->
            (e = E_deny \/ e = E_closed \/ e = E_max \/ e = E_store) /\
            qp c' = qp c /\ k_xev c' = k_xev c /\ k_parked c' = k_parked c /\
            (e <> E_store -> w' = w /\ c' = c) /\
            (e = E_store ->
               rugged_save c (pp_key c level) (pp_packet c level retain msg topic) w = Some ((c', false), w')
               /\ grows w w' [QSave (pp_key c level)
                                    (encode_value (pp_packet c level retain msg topic) (k_rseq c + 1))]) /\
            (exists tr, grows w w' tr /\ forall cn bs, ~ In (QWrite cn bs) tr) /\
            (forall m, w_store w = Some m -> w_store w' = Some m)).
  { intros e0 He0 X. apply ret_inv in X as [X ->]. inversion X; subst. clear X.
    split; [tauto|]. split; [reflexivity|]. split; [reflexivity|]. split; [reflexivity|].
    split; [intros _; auto|].
    split; [intros ->; destruct He0 as [X|[X|X]]; discriminate|].
    split; [|intros m Hm; exact Hm].
    exists []. split; [apply grows_refl|]. intros cn bs []. }
  destruct (deny_of _); [apply (Hearly E_deny); auto|].
  destruct (packet_max <? _); [apply (Hearly E_deny); auto|].
  destruct (k_seqclosed c); [apply (Hearly E_closed); auto|].
  destruct (k_closed c); [apply (Hearly E_closed); auto|].
  match type of H with (if ?b then _ else _) _ = _ => destruct b end; [apply (Hearly E_max); auto|].
  clear Hearly.
  apply bind_inv in H as ([c1 ok] & w1 & Hs & H).
  destruct ok; cbn [negb] in H.
  - (* saved: the result is an exchange *)
    exfalso. destruct (level =? 1);
      match type of H with (if ?b then _ else _) _ = _ => destruct b end;
      try (apply ret_inv in H as [H _]; discriminate);
      apply bind_inv in H as ([c2 e2] & w2 & _ & H); destruct (negb (e2 =? 0));
      apply ret_inv in H as [H _]; discriminate.
  - destruct (rugged_save_spec _ _ _ _ _ _ Hs) as (tr & G & -> & Hc1). cbn [fst] in Hc1. subst c1.
    apply ret_inv in H as [H ->]. inversion H; subst. clear H.
    split; [auto|]. split; [reflexivity|]. split; [reflexivity|]. split; [reflexivity|].
    split; [intros X; exfalso; apply X; reflexivity|]. split; [intros _; split; [exact Hs|exact G]|].
    split.
    + eexists. split; [exact G|]. intros cn bs [X|[]]. discriminate.
    + intros m Hm. eapply rugged_save_fails_keeps; eassumption.
Qed.

(* accepted: saved once, numbered, enqueued on its level *)
Theorem op_publish_persisted_accepted c level retain msg topic w c' x w' :
  op_publish_persisted c level retain msg topic w = Some ((c', RetExch x), w') ->
  x = k_nextx c /\ k_nextx c' = N.succ (k_nextx c) /\
  (if level =? 1
   then k_q1 c' = k_q1 c ++ [x] /\ k_q2 c' = k_q2 c /\ k_acc1 c' = N.succ (k_acc1 c) /\ k_acc2 c' = k_acc2 c
   else k_q2 c' = k_q2 c ++ [x] /\ k_q1 c' = k_q1 c /\ k_acc2 c' = N.succ (k_acc2 c) /\ k_acc1 c' = k_acc1 c) /\
  exists c1 w1 rest,
    rugged_save c (pp_key c level) (pp_packet c level retain msg topic) w = Some ((c1, true), w1) /\
    grows w w1 [QSave (pp_key c level) (encode_value (pp_packet c level retain msg topic) (k_rseq c + 1))] /\
    grows w1 w' rest /\ Forall is_conn_call rest /\
    (forall m, w_store w = Some m ->
       w_store w' = Some (store_put m (pp_key c level)
                                    (encode_value (pp_packet c level retain msg topic) (k_rseq c + 1)))).
Proof.
  unfold op_publish_persisted. cbv zeta. fold (pp_key c level). fold (pp_packet c level retain msg topic).
  intros H.
  destruct (deny_of _); [apply ret_inv in H as [H _]; discriminate|].
  destruct (packet_max <? _); [apply ret_inv in H as [H _]; discriminate|].
  destruct (k_seqclosed c); [apply ret_inv in H as [H _]; discriminate|].
  destruct (k_closed c); [apply ret_inv in H as [H _]; discriminate|].
  match type of H with (if ?b then _ else _) _ = _ => destruct b end;
    [apply ret_inv in H as [H _]; discriminate|].
  apply bind_inv in H as ([c1 ok] & w1 & Hs & H).
  destruct ok; cbn [negb] in H; [|apply ret_inv in H as [H _]; discriminate].
  destruct (rugged_save_spec _ _ _ _ _ _ Hs) as (tr & G & -> & Hc1). cbn [fst] in Hc1. subst c1.
  assert (St : forall m, w_store w = Some m ->
            w_store w1 = Some (store_put m (pp_key c level)
                                 (encode_value (pp_packet c level retain msg topic) (k_rseq c + 1))))
    by (intros m Hm; eapply rugged_save_ok_puts; eassumption).
  destruct (level =? 1);
    match type of H with (if ?b then _ else _) _ = _ => destruct b end.
  1,3: apply ret_inv in H as [H ->]; inversion H; subst; clear H;
    (split; [reflexivity|]); (split; [xs|]);
    (split; [repeat split; xs|]);
    do 3 eexists; (split; [exact Hs|]); (split; [exact G|]); (split; [apply grows_refl|]);
    (split; [constructor|exact St]).
  all: apply bind_inv in H as ([c2 e2] & w2 & Hn & H);
    destruct (nowait_write_cc _ _ _ _ _ _ Hn) as (rest & G2 & Hc2 & Hcc); cbn [fst] in Hc2;
    pose proof (fun m Hm => nowait_write_keeps_store _ _ _ _ _ _ _ Hn (St m Hm)) as St2;
    destruct (negb (e2 =? 0)); apply ret_inv in H as [H ->]; inversion H; subst; clear H;
    (split; [reflexivity|]);
    (split; [destruct Hc2 as [-> | ->]; xs|]);
    (split; [destruct Hc2 as [-> | ->]; repeat split; xs|]);
    do 3 eexists; (split; [exact Hs|]); (split; [exact G|]); (split; [exact G2|]);
    (split; [exact Hcc|exact St2]).
Qed.

Theorem op_publish_persisted_results c level retain msg topic w c' r w' :
  op_publish_persisted c level retain msg topic w = Some ((c', r), w') ->
  (exists e, r = RetErr e) \/ r = RetExch (k_nextx c).
Proof.
  unfold op_publish_persisted. cbv zeta. intros H.
  repeat match type of H with
  | (if ?b then ret _ else _) _ = _ =>
    destruct b; [apply ret_inv in H as [H _]; inversion H; eauto|]
  end.
  apply bind_inv in H as ([c1 ok] & w1 & Hs & H).
  destruct (negb ok); [apply ret_inv in H as [H _]; inversion H; eauto|].
  match type of H with (if ?b then _ else _) _ = _ => destruct b end;
    [apply ret_inv in H as [H _]; inversion H; subst|].
  - right. f_equal. apply rugged_save_spec in Hs as (tr & _ & _ & Hc). cbn [fst] in Hc. subst c1. reflexivity.
  - apply bind_inv in H as ([c2 e2] & w2 & _ & H).
    apply rugged_save_spec in Hs as (tr & _ & _ & Hc). cbn [fst] in Hc. subst c1.
    destruct (negb (e2 =? 0)); apply ret_inv in H as [H _]; inversion H; subst; right; reflexivity.
Qed.

(* ------------------------------------------------------------------ *)
(* All errors of a step; IsDeny and IsEnd are disjoint                 *)

(* result, completions of parked requests, exchange events *)
Theorem step_errs_in_model_q qt c o w c' r w' :
  step c o w = Some ((c', r), w') -> (qt = false -> forall rid, o <> OpQuit rid) ->
  retv_merr r /\ Forall (done_ok qt) (k_done c') /\ Forall xev_ok (k_xev c').
Proof.
  intros H Hq. destruct (op_adopt_dec o) as [(m1 & m2 & ->)|Ha].
  - unfold step in H. cbv zeta in H. apply bind_inv in H as ([oc r'] & w1 & Had & H).
    destruct (op_adopt_e _ _ _ _ _ _ Had) as (tr & G & Hr & Hc). cbn [fst snd] in *.
    destruct oc as [c0|]; apply ret_inv in H as [H ->]; inversion H; subst; clear H.
    + destruct Hc as [Hd Hx]. split; [exact Hr|].
      change (Forall (done_ok qt) (k_done c0) /\ Forall xev_ok (k_xev c0)). rewrite Hd, Hx. auto.
    + split; [exact Hr|]. split; constructor.
  - destruct (step_g qt c o Ha Hq _ _ _ H) as (tr & _ & [_ (d & Hd & Fd) (x & Hx & Fx)] & Hr).
    cbn [fst snd] in *. change (k_done c' = d ++ []) in Hd. change (k_xev c' = x ++ []) in Hx.
    rewrite app_nil_r in Hd, Hx. rewrite Hd, Hx. auto.
Qed.

Definition retv_err (r : retv) : option err :=
  match r with RetErr e => Some e | RetAdopt _ e => Some e | _ => None end.

Theorem step_errs_in_model c o w c' r w' :
  step c o w = Some ((c', r), w') ->
  (forall e, retv_err r = Some e -> In e model_errs) /\
  (forall rid e fs, In (rid, e, fs) (k_done c') -> In e done_classes /\ In e model_errs) /\
  (forall x e, In (x, Some e) (k_xev c') -> In e model_errs).
Proof.
  intros H. destruct (step_errs_in_model_q true _ _ _ _ _ _ H ltac:(discriminate)) as (Hr & Hd & Hx).
  split; [|split].
  - intros e He. apply merr_In. destruct r; inversion He; subst; exact Hr.
  - intros rid e fs Hin. rewrite Forall_forall in Hd. specialize (Hd _ Hin).
    unfold done_ok in Hd. cbn [fst snd] in Hd. rewrite dclsq_true in Hd.
    split; [apply dcls_In, Hd|apply merr_In, dcls_merr, Hd].
  - intros x e Hin. rewrite Forall_forall in Hx. specialize (Hx _ Hin). apply merr_In, Hx.
Qed.

(* C14: IsDeny (bit 8) and IsEnd (bit 9) are never both set *)
Theorem deny_end_disjoint_model e :
  In e model_errs -> N.testbit e 8 && N.testbit e 9 = false.
Proof.
  assert (F : forallb (fun e => negb (N.testbit e 8 && N.testbit e 9)) model_errs = true)
    by (vm_compute; reflexivity).
  rewrite forallb_forall in F. intros H. specialize (F _ H). apply negb_true_iff in F. exact F.
Qed.

Corollary step_deny_end_disjoint c o w c' r w' e :
  step c o w = Some ((c', r), w') ->
  retv_err r = Some e \/ (exists rid fs, In (rid, e, fs) (k_done c')) \/ (exists x, In (x, Some e) (k_xev c')) ->
  N.testbit e 8 && N.testbit e 9 = false.
Proof.
  intros H He. apply deny_end_disjoint_model.
  destruct (step_errs_in_model _ _ _ _ _ _ H) as (A & B & C).
  destruct He as [He|[(rid & fs & He)|(x & He)]]; [apply A, He|eapply B, He|eapply C, He].
Qed.

(* the permanent classes: IsEnd holds exactly for ErrClosed, ErrCanceled, ErrAbandoned *)
Lemma model_end_classes e :
  In e model_errs -> (N.testbit e 9 = true <-> e = E_closed \/ e = E_canceled \/ e = E_abandoned).
Proof.
  intros H. cbn in H.
  repeat (destruct H as [<-|H]; [vm_compute; split; [intros X; try discriminate; tauto|
            intros [X|[X|X]]; try discriminate; reflexivity]|]).
  contradiction.
Qed.

(* ------------------------------------------------------------------ *)
(* Completion of parked requests                                       *)

(* C14: a request parked in Subscribe, Unsubscribe, Ping or blocked in lockWrite is
   completed within the documented classes *)
Theorem completion_classes c o w c' r w' rid e fs :
  step c o w = Some ((c', r), w') -> In (rid, e, fs) (k_done c') ->
  e = E_nil \/ e = E_suberr \/ e = E_break \/ e = E_down \/ e = E_closed
  \/ e = E_canceled \/ e = E_abandoned.
Proof.
  intros H Hin. destruct (step_errs_in_model _ _ _ _ _ _ H) as (_ & B & _).
  destruct (B _ _ _ Hin) as [Hd _]. cbn in Hd. intuition.
Qed.

(* ErrCanceled and ErrAbandoned come from a quit signal only *)
Theorem canceled_only_by_quit c o w c' r w' rid e fs :
  step c o w = Some ((c', r), w') -> (forall x, o <> OpQuit x) -> In (rid, e, fs) (k_done c') ->
  e = E_nil \/ e = E_suberr \/ e = E_break \/ e = E_down \/ e = E_closed.
Proof.
  intros H Hq Hin.
  destruct (step_errs_in_model_q false _ _ _ _ _ _ H (fun _ => Hq)) as (_ & Hd & _).
  rewrite Forall_forall in Hd. specialize (Hd _ Hin). unfold done_ok, dclsq in Hd. cbn [fst snd] in Hd.
  apply existsb_exists in Hd as (y & Hy & E). apply N.eqb_eq in E. subst y. cbn in Hy. intuition.
Qed.
